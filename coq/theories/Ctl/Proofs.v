(** * Ctl: invariants of the controller model and the per-property theorems *)
From Coq Require Import List ZArith Bool Arith Lia.
From Jiva Require Import Ctl.Model.
Import ListNotations.
Open Scope Z_scope.

(** ** basic facts about the association-list helpers *)
Lemma count_rw_app : forall l1 l2, count_rw (l1 ++ l2) = (count_rw l1 + count_rw l2)%nat.
Proof. intros. unfold count_rw. rewrite filter_app, app_length. reflexivity. Qed.

Lemma count_rw_wo : forall l a, count_rw (l ++ [(a, WO)]) = count_rw l.
Proof. intros. rewrite count_rw_app. cbn. lia. Qed.

(** ** the status invariant (C03): ReadOnly and RWReplicaCount always reflect the replica list *)
Definition status_ok (s : cst) : Prop :=
  rwc s = count_rw (replicas s) /\ ro s = negb (Nat.leb (quorum (rf s)) (count_rw (replicas s))).

Lemma status_update : forall s, status_ok (update_vol_status s).
Proof. intros s. unfold status_ok, update_vol_status. cbn. split; reflexivity. Qed.

(** helpers that do not touch replicas / rf / ro / rwc *)
Definition same_status_fields (s t : cst) : Prop :=
  replicas t = replicas s /\ rf t = rf s /\ ro t = ro s /\ rwc t = rwc s.

Lemma ssf_refl : forall s, same_status_fields s s.
Proof. intros; repeat split. Qed.
Lemma ssf_trans : forall a b c, same_status_fields a b -> same_status_fields b c -> same_status_fields a c.
Proof. unfold same_status_fields. intros a b c [H1 [H2 [H3 H4]]] [G1 [G2 [G3 G4]]]. repeat split; congruence. Qed.
Lemma ssf_status : forall s t, same_status_fields s t -> status_ok s -> status_ok t.
Proof. unfold same_status_fields, status_ok. intros s t [H1 [H2 [H3 H4]]] [G1 G2]. rewrite H1, H2, H3, H4. auto. Qed.

Lemma ssf_upd_w : forall s v, same_status_fields s (upd_w s v).
Proof. intros; repeat split. Qed.
Lemma ssf_upd_rep : forall s a g, same_status_fields s (upd_rep s a g).
Proof. intros; repeat split. Qed.
Lemma ssf_upd_backends : forall s v, same_status_fields s (upd_backends s v).
Proof. intros; repeat split. Qed.
Lemma ssf_upd_mon : forall s l p, same_status_fields s (upd_mon s l p).
Proof. intros; repeat split. Qed.
Lemma ssf_upd_checkpoint : forall s v, same_status_fields s (upd_checkpoint s v).
Proof. intros; repeat split. Qed.
Lemma ssf_upd_leader : forall s m g, same_status_fields s (upd_leader s m g).
Proof. intros; repeat split. Qed.
Lemma ssf_upd_registered : forall s v, same_status_fields s (upd_registered s v).
Proof. intros; repeat split. Qed.
Lemma ssf_upd_fe : forall s v, same_status_fields s (upd_fe s v).
Proof. intros; repeat split. Qed.
Lemma ssf_upd_csize : forall s v, same_status_fields s (upd_csize s v).
Proof. intros; repeat split. Qed.
Lemma ssf_upd_ninst : forall s v, same_status_fields s (upd_ninst s v).
Proof. intros; repeat split. Qed.
Lemma ssf_upd_nsnap : forall s v, same_status_fields s (upd_nsnap s v).
Proof. intros; repeat split. Qed.
Lemma ssf_upd_pend_adds : forall s v, same_status_fields s (upd_pend_adds s v).
Proof. intros; repeat split. Qed.

Lemma ssf_stop_monitoring : forall s i, same_status_fields s (stop_monitoring s i).
Proof. intros s i. unfold stop_monitoring. destruct (aget (live_mon s) i); [apply ssf_upd_mon|apply ssf_refl]. Qed.

Lemma ssf_fold_left : forall {A} (f : cst -> A -> cst) (l : list A) s,
  (forall t x, same_status_fields t (f t x)) -> same_status_fields s (fold_left f l s).
Proof.
  intros A f l. induction l as [|x l IH]; intros s H; cbn; [apply ssf_refl|].
  eapply ssf_trans; [apply H|apply IH; exact H].
Qed.

Lemma ssf_set_checkpoint : forall s fs n, same_status_fields s (fst (set_checkpoint s fs n)).
Proof. intros s fs n. unfold set_checkpoint. destruct (all_rw_backends s); cbn; apply ssf_upd_w. Qed.

Lemma ssf_update_checkpoint : forall s fs, same_status_fields s (update_checkpoint s fs).
Proof.
  intros s fs. unfold update_checkpoint.
  destruct (Nat.eqb (count_rw (replicas s)) (rf s)); [|apply ssf_upd_checkpoint].
  destruct (get_latest_snapshot s fs) as [n|]; [|apply ssf_upd_checkpoint].
  pose proof (ssf_set_checkpoint s fs n) as H.
  destruct (set_checkpoint s fs n) as [s1 ok]. cbn in H.
  eapply ssf_trans; [exact H|apply ssf_upd_checkpoint].
Qed.

Lemma status_update_checkpoint : forall s fs, status_ok s -> status_ok (update_checkpoint s fs).
Proof. intros s fs H. eapply ssf_status; [apply ssf_update_checkpoint|exact H]. Qed.

(** *** the functions that change the replica list re-establish the status *)
Lemma status_set_mode : forall s a m, status_ok (set_mode_nolock s a m).
Proof. intros. unfold set_mode_nolock. apply status_update. Qed.

Lemma status_remove_replica : forall s fs a, status_ok s -> status_ok (remove_replica_nolock s fs a).
Proof.
  intros s fs a H. unfold remove_replica_nolock.
  destruct (negb (has_replica s a)); [exact H|].
  apply status_update_checkpoint. apply status_update.
Qed.

Lemma status_handle_error : forall s errs, status_ok s -> status_ok (fst (handle_error_nolock s errs)).
Proof.
  intros s errs H. unfold handle_error_nolock. cbn [fst].
  revert s H. induction errs as [|a t IH]; intros s H; cbn; [exact H|].
  apply IH. apply status_set_mode.
Qed.

Lemma status_remove_all : forall errs s fs, status_ok s -> status_ok (remove_all s fs errs).
Proof.
  unfold remove_all. induction errs as [|a t IH]; intros s fs H; cbn; [exact H|].
  apply IH. apply status_remove_replica. exact H.
Qed.

Lemma status_can_add : forall s fs a, status_ok s -> status_ok (fst (can_add s fs a)).
Proof.
  intros s fs a H. unfold can_add.
  destruct (has_replica s a); [exact H|].
  destruct (find (fun p => mode_eqb (snd p) WO) (replicas s)) as [[wo m]|]; [|exact H].
  destruct (negb (amem (backends s) wo) || flt fs wo KRev || flt fs a KHttp); [exact H|].
  destruct (f_rev (wget (w s) wo) <? f_rev (wget (w s) a)); [|exact H].
  cbn [fst]. apply status_remove_replica. exact H.
Qed.

Lemma ssf_close_new : forall s a, same_status_fields s (close_new s a).
Proof. intros. apply ssf_upd_rep. Qed.

Lemma ssf_snapshot_all : forall s fs n, same_status_fields s (fst (snapshot_all s fs n)).
Proof.
  intros s fs n. unfold snapshot_all. cbn [fst].
  apply ssf_fold_left. intros t x. destruct (flt fs x KSnap); [apply ssf_refl|apply ssf_upd_rep].
Qed.

Lemma status_add_replica_nolock : forall s fs a i b, status_ok s -> status_ok (fst (add_replica_nolock s fs a i b)).
Proof.
  intros s fs a i b H. unfold add_replica_nolock.
  pose proof (status_can_add s fs a H) as Hc.
  destruct (can_add s fs a) as [s0 ok]. cbn [fst] in Hc.
  destruct (negb ok); [exact Hc|].
  set (after := if b then _ else _).
  assert (Hafter : match after with Some (s3, _) => status_ok s3 | None => True end).
  { subst after. destruct b; [|exact Hc].
    destruct (negb (remain_ok s0)); [exact Hc|].
    pose proof (ssf_snapshot_all (upd_nsnap s0 (S (nsnap s0))) fs (nsnap s0)) as Hs.
    destruct (snapshot_all (upd_nsnap s0 (S (nsnap s0))) fs (nsnap s0)) as [s2 errs]. cbn [fst] in Hs.
    assert (H2 : status_ok s2).
    { eapply ssf_status; [|exact Hc]. eapply ssf_trans; [apply ssf_upd_nsnap|exact Hs]. }
    destruct errs.
    - destruct (flt fs a KSnap).
      + eapply ssf_status; [apply ssf_close_new|exact H2].
      + eapply ssf_status; [apply ssf_upd_rep|exact H2].
    - eapply ssf_status; [apply ssf_close_new|exact H2]. }
  destruct after as [[s3 r]|]; [|exact Hc].
  destruct r; try exact Hafter.
  destruct (flt fs a KSetModeWO); [exact Hafter|].
  cbn [fst].
  (* appending a WO replica does not change the RW count *)
  set (s4 := upd_rep s3 a (fun f => f_set_mode f RWO)).
  assert (H4 : status_ok s4) by (eapply ssf_status; [apply ssf_upd_rep|exact Hafter]).
  eapply ssf_status; [apply ssf_upd_mon|].
  eapply ssf_status; [apply ssf_upd_backends|].
  destruct H4 as [H4a H4b]. split.
  - change (rwc s4 = count_rw (replicas s4 ++ [(a, WO)])). rewrite count_rw_wo. exact H4a.
  - change (ro s4 = negb (Nat.leb (quorum (rf s4)) (count_rw (replicas s4 ++ [(a, WO)])))). rewrite count_rw_wo. exact H4b.
Qed.

Lemma status_create_backend : forall s fs a s1 i, create_backend s fs a = Some (s1, i) -> status_ok s -> status_ok s1.
Proof.
  intros s fs a s1 i Hc H. unfold create_backend in Hc.
  destruct (flt fs a KCreate || f_open (wget (w s) a)); [discriminate|].
  inversion Hc; subst. eapply ssf_status; [|exact H].
  eapply ssf_trans; [apply ssf_upd_rep|apply ssf_upd_ninst].
Qed.

Lemma status_rm_from_registered : forall s, status_ok s -> status_ok (rm_from_registered s).
Proof. intros s H. eapply ssf_status; [apply ssf_upd_leader|exact H]. Qed.

Lemma status_add_during_start : forall s fs a, status_ok s -> status_ok (fst (add_during_start s fs a)).
Proof.
  intros s fs a H. unfold add_during_start.
  destruct (create_backend s fs a) as [[s1 i]|] eqn:Hc; [|apply status_rm_from_registered; exact H].
  pose proof (status_create_backend _ _ _ _ _ Hc H) as H1.
  destruct (flt fs a KSize); [apply status_rm_from_registered; exact H1|].
  set (s2 := if csize s1 =? maxint then _ else s1).
  assert (H2 : status_ok s2).
  { subst s2. destruct (csize s1 =? maxint); [eapply ssf_status; [apply ssf_upd_csize|exact H1]|exact H1]. }
  destruct (negb (csize s2 =? f_size (wget (w s1) a))); [apply status_rm_from_registered; exact H2|].
  pose proof (status_add_replica_nolock s2 fs a i false H2) as H3.
  destruct (add_replica_nolock s2 fs a i false) as [s3 r]. cbn [fst] in H3.
  destruct r; try (apply status_rm_from_registered; exact H3).
  destruct (flt fs a KClone); [apply status_remove_replica; exact H3|].
  destruct (f_clone (wget (w s3) a)); try (apply status_remove_replica; exact H3).
  - destruct (flt fs a KSetModeRW); [apply status_remove_replica; exact H3|]. apply status_set_mode.
  - destruct (flt fs a KSetModeRW); [apply status_remove_replica; exact H3|]. apply status_set_mode.
Qed.

Lemma status_start_adds : forall l s fs, status_ok s -> status_ok (fst (start_adds s fs l)).
Proof.
  induction l as [|a t IH]; intros s fs H; cbn; [exact H|].
  pose proof (status_add_during_start s fs a H) as H1.
  destruct (add_during_start s fs a) as [s1 r]. cbn [fst] in H1.
  destruct r; try exact H1. apply IH. exact H1.
Qed.

Lemma status_start_frontend : forall s, status_ok s -> status_ok (start_frontend s).
Proof. intros s H. unfold start_frontend. destruct (replicas s); [exact H|]. eapply ssf_status; [apply ssf_upd_fe|exact H]. Qed.

Lemma status_fold_set_mode : forall {A} (l : list A) (g : A -> bool) (k : A -> addr) s,
  status_ok s -> status_ok (fold_left (fun acc p => if g p then acc else set_mode_nolock acc (k p) ERR) l s).
Proof.
  intros A l g k. induction l as [|x t IH]; intros s H; cbn; [exact H|].
  apply IH. destruct (g x); [exact H|apply status_set_mode].
Qed.

Lemma status_signal_replica : forall s fs, status_ok s -> status_ok (fst (fst (signal_replica s fs))).
Proof.
  intros s fs H. unfold signal_replica. destruct (maxrev s) as [m|].
  - destruct (flt fs m KSignal); cbn [fst].
    + eapply ssf_status; [|exact H]. eapply ssf_trans; [apply ssf_upd_registered|apply ssf_upd_leader].
    + eapply ssf_status; [apply ssf_upd_leader|exact H].
  - cbn [fst]. eapply ssf_status; [apply ssf_upd_leader|exact H].
Qed.

(** the whole step preserves the status invariant *)
Lemma status_do_register : forall s a u r b pick fs, status_ok s -> status_ok (fst (fst (do_register s a u r b pick fs))).
Proof.
  intros s a u r b pick fs H. unfold do_register.
  destruct (Nat.eqb u 0); [exact H|].
  set (s1 := upd_registered s _).
  assert (H1 : status_ok s1) by (eapply ssf_status; [apply ssf_upd_registered|exact H]).
  assert (R1 : replicas s1 = replicas s) by reflexivity.
  destruct (replicas s1) eqn:Er; [|exact H1].
  set (sw := if signalled s1 then _ else _).
  assert (Hsw : match sw with
                | inr out => status_ok (fst (fst out))
                | inl None => True
                | inl (Some (s2, _)) => status_ok s2 end).
  { subst sw. destruct (signalled s1); [|exact H1].
    destruct (match maxrev s1 with Some m => Nat.eqb m a | None => false end); [exact H1|].
    destruct (match maxrev s1 with Some m => flt fs m KAlive | None => true end); [|exact H1].
    destruct (maxrev s1) as [m|].
    - eapply ssf_status; [|exact H1]. eapply ssf_trans; [apply ssf_upd_registered|apply ssf_upd_leader].
    - eapply ssf_status; [apply ssf_upd_leader|exact H1]. }
  destruct sw as [[[s2 sg0]|]|out]; [| exact H1 | exact Hsw].
  destruct b; [exact Hsw|].
  set (s3 := match maxrev s2 with None => _ | Some _ => s2 end).
  assert (H3 : status_ok s3).
  { subst s3. destruct (maxrev s2); [exact Hsw|]. eapply ssf_status; [apply ssf_upd_leader|exact Hsw]. }
  match goal with |- context [match ?L with Some l => _ | None => _ end] => destruct L as [l|] end; [|exact H3].
  set (s4 := upd_leader s3 l (signalled s3)).
  assert (H4 : status_ok s4) by (eapply ssf_status; [apply ssf_upd_leader|exact H3]).
  destruct (Nat.leb (quorum (rf s4)) (length (registered s4))); [|exact H4].
  pose proof (status_signal_replica s4 fs H4) as H5.
  destruct (signal_replica s4 fs) as [[s5 ok] sg]. exact H5.
Qed.

Lemma status_do_start : forall s l fs, status_ok s -> status_ok (fst (fst (do_start s l fs))).
Proof.
  intros s l fs H. unfold do_start.
  destruct l as [|a0 t]; [exact H|].
  destruct (replicas s) eqn:Er; [|exact H].
  destruct (negb (signalled s) || negb _); [exact H|].
  set (s0 := upd_csize _ maxint).
  assert (H0 : status_ok s0).
  { unfold status_ok in *. subst s0. cbn. rewrite Er in H. exact H. }
  pose proof (status_start_adds (a0 :: t) s0 fs H0) as H1.
  destruct (start_adds s0 fs (a0 :: t)) as [s1 r]. cbn [fst] in H1.
  destruct r; try (apply status_start_frontend; exact H1).
  destruct (existsb (fun p => flt fs (fst p) KRev) (replicas s1)); [apply status_start_frontend; exact H1|].
  cbn [fst]. apply status_start_frontend. apply status_update_checkpoint. apply status_update.
Qed.

Lemma status_do_write : forall s wid off len fs, status_ok s -> status_ok (fst (do_write s wid off len fs)).
Proof.
  intros s wid off len fs H. unfold do_write.
  destruct (ro s); [exact H|].
  destruct ((off <? 0) || (csize s <? off + len)); [exact H|].
  destruct (negb (avail s)); [exact H|].
  set (s1 := fold_left _ (writers s) s).
  assert (H1 : status_ok s1).
  { eapply ssf_status; [|exact H]. subst s1. apply ssf_fold_left.
    intros t x. destruct (flt fs x KWrite); [apply ssf_refl|apply ssf_upd_rep]. }
  destruct (io_errs (writers s) fs KWrite KWriteAp) as [|e es] eqn:Ee; [exact H1|].
  pose proof (status_handle_error s1 (e :: es) H1) as H2.
  destruct (handle_error_nolock s1 (e :: es)) as [s2 sup]. cbn [fst] in *.
  apply status_remove_all. exact H2.
Qed.

Lemma status_do_sync : forall s fs k, status_ok s -> status_ok (fst (do_sync s fs k)).
Proof.
  intros s fs k H. unfold do_sync.
  destruct (ro s); [exact H|].
  destruct (negb (avail s)); [exact H|].
  destruct (io_errs (writers s) fs k k) as [|e es] eqn:Ee; [exact H|].
  pose proof (status_handle_error s (e :: es) H) as H2.
  destruct (handle_error_nolock s (e :: es)) as [s2 sup]. cbn [fst] in *.
  apply status_remove_all. exact H2.
Qed.

Lemma status_do_read : forall s off len order fs, status_ok s -> status_ok (fst (fst (do_read s off len order fs))).
Proof.
  intros s off len order fs H. unfold do_read.
  destruct ((off <? 0) || (csize s <? off + len)); [exact H|].
  destruct (replicas s) as [|[a0 m0] t] eqn:Er; [exact H|].
  assert (G : status_ok (fst (fst (
      if negb (avail s) then (s, RErr, noeff)
      else if negb (read_order_ok s order fs) then (s, RInvalid, noeff)
      else
        let errs := filter (fun a => flt fs a KRead) order in
        let served := match rev order with lst :: _ => if flt fs lst KRead then None else Some lst | [] => None end in
        match errs with
        | [] => (s, ROk, mkeff [] served)
        | _ =>
            let '(s2, suppressed) := handle_error_nolock s errs in
            let s3 := remove_all s2 fs errs in
            (s3, match served with Some _ => if suppressed then ROk else RErr | None => RErr end, mkeff [] served)
        end)))).
  { destruct (negb (avail s)); [exact H|].
    destruct (negb (read_order_ok s order fs)); [exact H|].
    cbv zeta.
    destruct (filter (fun a => flt fs a KRead) order) as [|e es]; [exact H|].
    pose proof (status_handle_error s (e :: es) H) as H2.
    destruct (handle_error_nolock s (e :: es)) as [s2 sup]. cbn [fst] in *.
    apply status_remove_all. exact H2. }
  destruct m0; destruct t; try exact G; exact H.
Qed.

Lemma status_do_add_check : forall s a fs, status_ok s -> status_ok (fst (do_add_check s a fs)).
Proof.
  intros s a fs H. unfold do_add_check.
  pose proof (status_can_add s fs a H) as Hc.
  destruct (can_add s fs a) as [s1 ok]. cbn [fst] in Hc.
  destruct (negb ok); [exact Hc|].
  destruct (Nat.eqb (rf s1) (length (replicas s1))); [exact Hc|].
  eapply ssf_status; [apply ssf_upd_pend_adds|exact Hc].
Qed.

Lemma status_do_add_commit : forall s a fs, status_ok s -> status_ok (fst (do_add_commit s a fs)).
Proof.
  intros s a fs H. unfold do_add_commit.
  destruct (negb (existsb (Nat.eqb a) (pend_adds s))); [exact H|].
  set (s0 := upd_pend_adds s _).
  assert (H0 : status_ok s0) by (eapply ssf_status; [apply ssf_upd_pend_adds|exact H]).
  destruct (create_backend s0 fs a) as [[s1 i]|] eqn:Hc; [|exact H0].
  pose proof (status_create_backend _ _ _ _ _ Hc H0) as H1.
  destruct (Nat.eqb (rf s1) (length (replicas s1))).
  { eapply ssf_status; [apply ssf_close_new|exact H1]. }
  pose proof (status_add_replica_nolock s1 fs a i true H1) as H2.
  destruct (add_replica_nolock s1 fs a i true) as [s2 r]. cbn [fst] in H2.
  destruct r; try exact H2.
  cbn [fst]. apply status_update_checkpoint. apply status_update.
Qed.

Lemma status_do_verify : forall s a fs, status_ok s -> status_ok (fst (do_verify s a fs)).
Proof.
  intros s a fs H. unfold do_verify.
  destruct (aget (replicas s) a) as [m|]; [|exact H].
  destruct (find (fun p => is_rw (snd p)) (replicas s)) as [[r0 m0]|]; [|destruct m; exact H].
  destruct m; try exact H.
  destruct (flt fs r0 KHttp || flt fs a KHttp); [exact H|].
  match goal with |- context [match ?K with Some k => _ | None => _ end] => destruct K as [k|] end; [|exact H].
  destruct (Nat.ltb (length (f_chain (wget (w s) a))) k); [exact H|].
  destruct (negb (list_eqb _ _)); [exact H|].
  destruct (negb (amem (backends s) r0) || flt fs r0 KRev); [exact H|].
  destruct (negb (amem (backends s) a) || flt fs a KSetModeRW); [exact H|].
  set (s1 := upd_rep s a _).
  assert (H1 : status_ok s1) by (eapply ssf_status; [apply ssf_upd_rep|exact H]).
  destruct (flt fs a KSetRev); [exact H1|].
  cbn [fst]. apply status_update_checkpoint. apply status_update.
Qed.

Lemma status_do_mon_fire : forall s a fs, status_ok s -> status_ok (fst (do_mon_fire s a fs)).
Proof.
  intros s a fs H. unfold do_mon_fire.
  destruct (first_for (pend_mon s) (Nat.eqb a)) as [[i x]|]; [|exact H].
  cbn [fst]. apply status_remove_replica. eapply ssf_status; [apply ssf_upd_mon|exact H].
Qed.

Lemma status_do_mon_fail : forall s a fs, status_ok s -> status_ok (fst (do_mon_fail s a fs)).
Proof.
  intros s a fs H. unfold do_mon_fail.
  destruct (first_for (rev (live_mon s)) (Nat.eqb a)) as [[i x]|]; [|exact H].
  cbn [fst]. apply status_remove_replica. apply status_set_mode.
Qed.

Lemma status_do_snapshot : forall s n fs, status_ok s -> status_ok (fst (do_snapshot s n fs)).
Proof.
  intros s n fs H. unfold do_snapshot.
  destruct (negb (Nat.eqb (rwc s) (rf s))); [exact H|].
  destruct (Nat.eqb (length (backends s)) 0); [exact H|].
  destruct (negb (remain_ok s)); [exact H|].
  destruct (last_rw s) as [r0|]; [|exact H].
  destruct (flt fs r0 KHttp); [exact H|].
  destruct (existsb (Nat.eqb n) (f_chain (wget (w s) r0))); [exact H|].
  pose proof (ssf_snapshot_all s fs n) as Hs.
  destruct (snapshot_all s fs n) as [s1 errs]. cbn [fst] in Hs.
  assert (H1 : status_ok s1) by (eapply ssf_status; [exact Hs|exact H]).
  destruct errs as [|e es]; [exact H1|].
  pose proof (status_handle_error s1 (e :: es) H1) as H2.
  destruct (handle_error_nolock s1 (e :: es)) as [s2 sup]. exact H2.
Qed.

Lemma status_do_resize : forall s sz fs, status_ok s -> status_ok (fst (do_resize s sz fs)).
Proof.
  intros s sz fs H. unfold do_resize.
  destruct (sz <? csize s); [exact H|].
  destruct (sz =? csize s); [exact H|].
  set (s1 := fold_left _ (writers s) s).
  assert (H1 : status_ok s1).
  { eapply ssf_status; [|exact H]. subst s1. apply ssf_fold_left.
    intros t x. destruct (flt fs x KResize); [apply ssf_refl|apply ssf_upd_rep]. }
  set (errs := filter (fun a => flt fs a KResize) (writers s)).
  assert (H2 : status_ok (fst (match errs with
                               | [] => (s1, false)
                               | _ => let '(s2, suppressed) := handle_error_nolock s1 errs in (s2, negb suppressed)
                               end))).
  { destruct errs as [|e es]; [exact H1|].
    pose proof (status_handle_error s1 (e :: es) H1) as H2.
    destruct (handle_error_nolock s1 (e :: es)) as [s2 sup]. exact H2. }
  destruct (match errs with [] => (s1, false) | _ => _ end) as [s2 failed]. cbn [fst] in H2.
  destruct failed; [exact H2|].
  destruct (flt fs 0%nat KFeResize); [exact H2|].
  eapply ssf_status; [apply ssf_upd_csize|exact H2].
Qed.

Theorem status_step : forall s e, status_ok s -> status_ok (fst (fst (step s e))).
Proof.
  intros s e H. destruct e; cbn [step].
  - apply status_do_register; exact H.
  - apply status_do_start; exact H.
  - pose proof (status_do_add_check s a fs H). destruct (do_add_check s a fs); assumption.
  - pose proof (status_do_add_commit s a fs H). destruct (do_add_commit s a fs); assumption.
  - pose proof (status_do_verify s a fs H). destruct (do_verify s a fs); assumption.
  - cbn. apply status_remove_replica; exact H.
  - destruct m; cbn; try exact H; apply status_set_mode.
  - pose proof (status_do_mon_fire s a fs H). destruct (do_mon_fire s a fs); assumption.
  - pose proof (status_do_mon_fail s a fs H). destruct (do_mon_fail s a fs); assumption.
  - pose proof (status_do_write s wid off len fs H). destruct (do_write s wid off len fs); assumption.
  - pose proof (status_do_sync s fs KSync H). destruct (do_sync s fs KSync); assumption.
  - pose proof (status_do_sync s fs KUnmap H). destruct (do_sync s fs KUnmap); assumption.
  - apply status_do_read; exact H.
  - pose proof (status_do_snapshot s name fs H). destruct (do_snapshot s name fs); assumption.
  - pose proof (status_do_resize s newsize fs H). destruct (do_resize s newsize fs); assumption.
  - unfold do_sync_data. destruct (aget (replicas s) a) as [[]|]; try exact H.
    destruct (find _ (replicas s)) as [[r0 m0]|]; [|exact H]. cbn. eapply ssf_status; [apply ssf_upd_rep|exact H].
Qed.

Lemma status_init : forall rf0 w0, (1 <= rf0)%nat -> status_ok (init rf0 w0).
Proof.
  intros rf0 w0 H. unfold status_ok. split; [reflexivity|].
  change (true = negb (Nat.leb (quorum rf0) 0)).
  destruct (Nat.leb (quorum rf0) 0) eqn:E; [|reflexivity].
  apply Nat.leb_le in E. unfold quorum in E. lia.
Qed.

Theorem status_reachable : forall es rf0 w0, (1 <= rf0)%nat -> status_ok (run (init rf0 w0) es).
Proof.
  intros es rf0 w0 H.
  assert (G : forall es s, status_ok s -> status_ok (run s es)).
  { clear. induction es as [|e t IH]; intros s Hs; cbn; [exact Hs|]. apply IH. apply status_step. exact Hs. }
  apply G. apply status_init. exact H.
Qed.

(** ** C03: the gate *)
Definition is_mut_io (e : event) : bool :=
  match e with Write _ _ _ _ | Sync _ | Unmap _ => true | _ => false end.

Theorem gate_refuses : forall s e, status_ok s -> is_mut_io e = true ->
  (count_rw (replicas s) < quorum (rf s))%nat ->
  step s e = (s, RRefused, noeff).
Proof.
  intros s e [Hc Hr] He Hq.
  assert (Hro : ro s = true).
  { rewrite Hr. destruct (Nat.leb (quorum (rf s)) (count_rw (replicas s))) eqn:E; [|reflexivity].
    apply Nat.leb_le in E. lia. }
  destruct e; try discriminate; cbn [step]; unfold do_write, do_sync; rewrite Hro; reflexivity.
Qed.

Theorem gate_opens : forall s e, status_ok s -> is_mut_io e = true ->
  (quorum (rf s) <= count_rw (replicas s))%nat ->
  snd (fst (step s e)) <> RRefused.
Proof.
  intros s e [Hc Hr] He Hq.
  assert (Hro : ro s = false).
  { rewrite Hr. destruct (Nat.leb (quorum (rf s)) (count_rw (replicas s))) eqn:E; [reflexivity|].
    apply Nat.leb_gt in E. lia. }
  destruct e; try discriminate; cbn [step]; unfold do_write, do_sync; rewrite Hro.
  - destruct ((off <? 0) || (csize s <? off + len)); [cbn; discriminate|].
    destruct (negb (avail s)); [cbn; discriminate|].
    destruct (io_errs (writers s) fs KWrite KWriteAp); [cbn; discriminate|].
    destruct (handle_error_nolock _ _) as [s2 sup]. cbn. destruct (_ && sup); discriminate.
  - destruct (negb (avail s)); [cbn; discriminate|].
    destruct (io_errs (writers s) fs KSync KSync); [cbn; discriminate|].
    destruct (handle_error_nolock _ _) as [s2 sup]. cbn. destruct (_ && sup); discriminate.
  - destruct (negb (avail s)); [cbn; discriminate|].
    destruct (io_errs (writers s) fs KUnmap KUnmap); [cbn; discriminate|].
    destruct (handle_error_nolock _ _) as [s2 sup]. cbn. destruct (_ && sup); discriminate.
Qed.

(** ** the structural invariant (C18): no address twice, the backend map mirrors the replica list,
    never more replicas than the replication factor, at most one rebuilding replica *)
Definition proj (b : list (addr * (mode * nat))) : list (addr * mode) :=
  map (fun p => (fst p, fst (snd p))) b.
Definition is_wo (p : addr * mode) : bool := mode_eqb (snd p) WO.
Definition count_wo (l : list (addr * mode)) : nat := length (filter is_wo l).
Definition keys {V} (l : list (nat * V)) : list nat := map fst l.

Record struct_ok (s : cst) : Prop := mkstruct {
  st_nodup  : NoDup (keys (replicas s));
  st_mirror : proj (backends s) = replicas s;
  st_len    : (length (replicas s) <= rf s)%nat;
  st_wo     : (count_wo (replicas s) <= 1)%nat;
  st_rf     : (1 <= rf s)%nat;
  st_avail  : avail s = existsb (fun p => is_rw (fst (snd p))) (backends s);
  st_reg    : NoDup (keys (registered s))
}.

(** *** list lemmas *)
Lemma keys_adel_subset : forall {V} (l : list (nat * V)) a x, In x (keys (adel l a)) -> In x (keys l).
Proof.
  intros V l a x. induction l as [|[k v] t IH]; cbn; [auto|].
  destruct (Nat.eqb k a); cbn; intros H; [right; exact H|].
  destruct H as [H|H]; [left; exact H|right; apply IH; exact H].
Qed.

Lemma nodup_adel : forall {V} (l : list (nat * V)) a, NoDup (keys l) -> NoDup (keys (adel l a)).
Proof.
  intros V l a. induction l as [|[k v] t IH]; cbn; intros H; [constructor|].
  inversion H as [|x xs Hn Hd]; subst.
  destruct (Nat.eqb k a); [exact Hd|]. cbn. constructor; [|apply IH; exact Hd].
  intro Hin. apply Hn. eapply keys_adel_subset. exact Hin.
Qed.

Lemma adel_not_in : forall {V} (l : list (nat * V)) a, NoDup (keys l) -> ~ In a (keys (adel l a)).
Proof.
  intros V l a. induction l as [|[k v] t IH]; cbn; intros H; [auto|].
  inversion H as [|x xs Hn Hd]; subst.
  destruct (Nat.eqb k a) eqn:E.
  - apply Nat.eqb_eq in E. subst. exact Hn.
  - cbn. intros [Hk|Hin]; [apply Nat.eqb_neq in E; contradiction|]. apply (IH Hd Hin).
Qed.

Lemma proj_adel : forall b a, proj (adel b a) = adel (proj b) a.
Proof.
  induction b as [|[k [m i]] t IH]; intros a; cbn; [reflexivity|].
  destruct (Nat.eqb k a); [reflexivity|]. cbn. rewrite IH. reflexivity.
Qed.

Lemma keys_proj : forall b, keys (proj b) = keys b.
Proof. intros b. unfold keys, proj. rewrite map_map. reflexivity. Qed.

Definition setm (a : addr) (m : mode) (p : addr * mode) : addr * mode := if Nat.eqb (fst p) a then (fst p, m) else p.

Lemma keys_setm : forall l a m, keys (map (setm a m) l) = keys l.
Proof.
  intros l a m. unfold keys. rewrite map_map. apply map_ext.
  intros [k v]. unfold setm. cbn. destruct (Nat.eqb k a); reflexivity.
Qed.

Lemma length_adel_le : forall {V} (l : list (nat * V)) a, (length (adel l a) <= length l)%nat.
Proof. intros V l a. induction l as [|[k v] t IH]; cbn; [lia|]. destruct (Nat.eqb k a); cbn; lia. Qed.

Lemma setm_noop : forall t a m, ~ In a (keys t) -> map (setm a m) t = t.
Proof.
  induction t as [|[k v] t IH]; intros a m H; cbn; [reflexivity|].
  unfold setm at 1. cbn. destruct (Nat.eqb k a) eqn:E.
  - apply Nat.eqb_eq in E. subst. exfalso. apply H. left. reflexivity.
  - rewrite IH; [reflexivity|]. intro Hin. apply H. right. exact Hin.
Qed.

Lemma proj_aset : forall b a m i0 m0 i,
  NoDup (keys b) -> aget b a = Some (m0, i0) ->
  proj (aset b a (m, i)) = map (setm a m) (proj b).
Proof.
  induction b as [|[k [mk ik]] t IH]; intros a m i0 m0 i Hn Hg; cbn in *; [discriminate|].
  inversion Hn as [|x xs Hx Hd]; subst.
  destruct (Nat.eqb k a) eqn:E.
  - cbn. unfold setm at 1. cbn. rewrite E. f_equal.
    apply Nat.eqb_eq in E. subst. symmetry. apply setm_noop. rewrite keys_proj. exact Hx.
  - cbn. unfold setm at 1. cbn. rewrite E. f_equal. eapply IH; eauto.
Qed.

Lemma aget_proj : forall b a, aget (proj b) a = match aget b a with Some (m, _) => Some m | None => None end.
Proof.
  induction b as [|[k [m i]] t IH]; intros a; cbn; [reflexivity|].
  destruct (Nat.eqb k a); [reflexivity|apply IH].
Qed.

Lemma count_wo_adel_le : forall l a, (count_wo (adel l a) <= count_wo l)%nat.
Proof.
  unfold count_wo. induction l as [|[k v] t IH]; intros a; cbn; [lia|].
  destruct (Nat.eqb k a).
  - destruct (is_wo (k, v)); cbn; lia.
  - cbn. destruct (is_wo (k, v)); cbn; specialize (IH a); lia.
Qed.

Lemma count_wo_setm_le : forall l a m, m <> WO -> (count_wo (map (setm a m) l) <= count_wo l)%nat.
Proof.
  unfold count_wo. induction l as [|[k v] t IH]; intros a m Hm; cbn; [lia|].
  unfold setm at 1. cbn. destruct (Nat.eqb k a).
  - assert (E : is_wo (k, m) = false) by (unfold is_wo; cbn; destruct m; try reflexivity; contradiction).
    rewrite E. destruct (is_wo (k, v)); cbn; specialize (IH a m Hm); lia.
  - destruct (is_wo (k, v)); cbn; specialize (IH a m Hm); lia.
Qed.

Lemma count_wo_app : forall l1 l2, count_wo (l1 ++ l2) = (count_wo l1 + count_wo l2)%nat.
Proof. intros. unfold count_wo. rewrite filter_app, app_length. reflexivity. Qed.

Lemma find_wo_none : forall l, find (fun p => mode_eqb (snd p) WO) l = None -> count_wo l = 0%nat.
Proof.
  unfold count_wo. induction l as [|[k v] t IH]; cbn; intros H; [reflexivity|].
  unfold is_wo at 1. cbn. destruct (mode_eqb v WO); [discriminate|]. apply IH. exact H.
Qed.

Lemma find_wo_some_adel : forall l wo m,
  NoDup (keys l) -> (count_wo l <= 1)%nat ->
  find (fun p => mode_eqb (snd p) WO) l = Some (wo, m) -> count_wo (adel l wo) = 0%nat.
Proof.
  unfold count_wo. induction l as [|[k v] t IH]; intros wo m Hn Hc Hf; cbn in *; [discriminate|].
  inversion Hn as [|x xs Hx Hd]; subst.
  unfold is_wo in Hc at 1. cbn in Hc.
  destruct (mode_eqb v WO) eqn:Ev.
  - inversion Hf; subst. rewrite Nat.eqb_refl. cbn in Hc.
    destruct (filter is_wo t) eqn:Ef; [reflexivity|cbn in Hc; lia].
  - destruct (Nat.eqb k wo) eqn:Ek.
    + (* the found WO entry has the same key as an earlier non-WO one: impossible with NoDup *)
      apply Nat.eqb_eq in Ek. subst. exfalso. apply Hx.
      apply find_some in Hf. destruct Hf as [Hin _].
      change wo with (fst (wo, m)). apply in_map. exact Hin.
    + cbn. unfold is_wo at 1. cbn. rewrite Ev. eapply IH; eauto.
Qed.

Lemma has_replica_in : forall s a, has_replica s a = true <-> In a (keys (replicas s)).
Proof.
  intros s a. unfold has_replica, keys. rewrite existsb_exists. split.
  - intros [[k v] [Hin Hk]]. cbn in Hk. apply Nat.eqb_eq in Hk. rewrite <- Hk. change k with (fst (k, v)). apply in_map. exact Hin.
  - intros Hin. apply in_map_iff in Hin. destruct Hin as [[k v] [Hk Hin]]. cbn in Hk. subst.
    exists (a, v). split; [exact Hin|cbn; apply Nat.eqb_refl].
Qed.

(** *** helpers that leave replicas / backends / rf alone *)
Definition same_struct_fields (s t : cst) : Prop :=
  replicas t = replicas s /\ backends t = backends s /\ rf t = rf s /\ avail t = avail s
  /\ registered t = registered s.
Lemma sst_refl : forall s, same_struct_fields s s.
Proof. intros; repeat split. Qed.
Lemma sst_trans : forall a b c, same_struct_fields a b -> same_struct_fields b c -> same_struct_fields a c.
Proof. unfold same_struct_fields. intros a b c [H1 [H2 [H3 [H4 H5]]]] [G1 [G2 [G3 [G4 G5]]]]. repeat split; congruence. Qed.
Lemma sst_struct : forall s t, same_struct_fields s t -> struct_ok s -> struct_ok t.
Proof. unfold same_struct_fields. intros s t [H1 [H2 [H3 [H4 H5]]]] [A B C D E F G]. constructor; rewrite ?H1, ?H2, ?H3, ?H4, ?H5; assumption. Qed.

Lemma sst_upd_w : forall s v, same_struct_fields s (upd_w s v). Proof. intros; repeat split. Qed.
Lemma sst_upd_rep : forall s a g, same_struct_fields s (upd_rep s a g). Proof. intros; repeat split. Qed.
Lemma sst_upd_mon : forall s l p, same_struct_fields s (upd_mon s l p). Proof. intros; repeat split. Qed.
Lemma sst_upd_checkpoint : forall s v, same_struct_fields s (upd_checkpoint s v). Proof. intros; repeat split. Qed.
Lemma sst_upd_leader : forall s m g, same_struct_fields s (upd_leader s m g). Proof. intros; repeat split. Qed.
Lemma struct_upd_registered : forall s v, struct_ok s -> NoDup (keys v) -> struct_ok (upd_registered s v).
Proof. intros s v [A B C D E F G] Hv. constructor; cbn; assumption. Qed.
Lemma sst_upd_fe : forall s v, same_struct_fields s (upd_fe s v). Proof. intros; repeat split. Qed.
Lemma sst_upd_csize : forall s v, same_struct_fields s (upd_csize s v). Proof. intros; repeat split. Qed.
Lemma sst_upd_ninst : forall s v, same_struct_fields s (upd_ninst s v). Proof. intros; repeat split. Qed.
Lemma sst_upd_nsnap : forall s v, same_struct_fields s (upd_nsnap s v). Proof. intros; repeat split. Qed.
Lemma sst_upd_pend_adds : forall s v, same_struct_fields s (upd_pend_adds s v). Proof. intros; repeat split. Qed.
Lemma sst_upd_status : forall s r c, same_struct_fields s (upd_status s r c). Proof. intros; repeat split. Qed.
Lemma sst_update_vol_status : forall s, same_struct_fields s (update_vol_status s). Proof. intros; repeat split. Qed.

Lemma sst_stop_monitoring : forall s i, same_struct_fields s (stop_monitoring s i).
Proof. intros s i. unfold stop_monitoring. destruct (aget (live_mon s) i); [apply sst_upd_mon|apply sst_refl]. Qed.

Lemma sst_fold_left : forall {A} (f : cst -> A -> cst) (l : list A) s,
  (forall t x, same_struct_fields t (f t x)) -> same_struct_fields s (fold_left f l s).
Proof.
  intros A f l. induction l as [|x l IH]; intros s H; cbn; [apply sst_refl|].
  eapply sst_trans; [apply H|apply IH; exact H].
Qed.

Lemma sst_set_checkpoint : forall s fs n, same_struct_fields s (fst (set_checkpoint s fs n)).
Proof. intros s fs n. unfold set_checkpoint. destruct (all_rw_backends s); cbn; apply sst_upd_w. Qed.

Lemma sst_update_checkpoint : forall s fs, same_struct_fields s (update_checkpoint s fs).
Proof.
  intros s fs. unfold update_checkpoint.
  destruct (Nat.eqb (count_rw (replicas s)) (rf s)); [|apply sst_upd_checkpoint].
  destruct (get_latest_snapshot s fs) as [n|]; [|apply sst_upd_checkpoint].
  pose proof (sst_set_checkpoint s fs n) as H.
  destruct (set_checkpoint s fs n) as [s1 ok]. cbn in H.
  eapply sst_trans; [exact H|apply sst_upd_checkpoint].
Qed.

Lemma sst_snapshot_all : forall s fs n, same_struct_fields s (fst (snapshot_all s fs n)).
Proof.
  intros s fs n. unfold snapshot_all. cbn [fst].
  apply sst_fold_left. intros t x. destruct (flt fs x KSnap); [apply sst_refl|apply sst_upd_rep].
Qed.

(** *** mode changes *)
Lemma struct_set_mode : forall s a m, m <> WO -> struct_ok s -> struct_ok (set_mode_nolock s a m).
Proof.
  intros s a m Hm [Hn Hmi Hl Hw Hrf Hav Hreg]. unfold set_mode_nolock.
  eapply sst_struct; [apply sst_update_vol_status|].
  destruct (aget (replicas s) a) as [m0|] eqn:Eg; [|constructor; assumption].
  assert (G : struct_ok (backend_set_mode
      (upd_replicas s (map (fun p => if Nat.eqb (fst p) a then (fst p, m) else p) (replicas s))) a m)).
  { change (fun p : addr * mode => if Nat.eqb (fst p) a then (fst p, m) else p) with (setm a m).
    unfold backend_set_mode. cbn [backends upd_replicas].
    rewrite <- Hmi in Eg. rewrite aget_proj in Eg.
    destruct (aget (backends s) a) as [[mb ib]|] eqn:Eb; [|discriminate].
    assert (Hk : NoDup (keys (backends s))) by (rewrite <- keys_proj, Hmi; exact Hn).
    set (s1 := upd_backends (upd_replicas s (map (setm a m) (replicas s))) (aset (backends s) a (m, ib))).
    assert (G1 : struct_ok s1).
    { constructor; cbn [replicas backends rf s1 upd_backends upd_replicas].
      - rewrite keys_setm. exact Hn.
      - erewrite proj_aset by eauto. rewrite Hmi. reflexivity.
      - rewrite map_length. exact Hl.
      - pose proof (count_wo_setm_le (replicas s) a m Hm). lia.
      - exact Hrf.
      - reflexivity.
      - exact Hreg. }
    destruct (mode_eqb m ERR); [eapply sst_struct; [apply sst_stop_monitoring|exact G1]|exact G1]. }
  destruct m0; try exact G. constructor; assumption.
Qed.

(** *** removal *)
Lemma adel_absent : forall {V} (l : list (nat * V)) a, aget l a = None -> adel l a = l.
Proof.
  intros V l a. induction l as [|[k v] t IH]; cbn; intros H; [reflexivity|].
  destruct (Nat.eqb k a); [discriminate|]. rewrite IH; [reflexivity|exact H].
Qed.

Lemma remove_backend_fields : forall s a,
  avail s = existsb (fun p => is_rw (fst (snd p))) (backends s) ->
  replicas (remove_backend s a) = replicas s /\ rf (remove_backend s a) = rf s
  /\ backends (remove_backend s a) = adel (backends s) a
  /\ avail (remove_backend s a) = existsb (fun p => is_rw (fst (snd p))) (adel (backends s) a)
  /\ registered (remove_backend s a) = registered s.
Proof.
  intros s a Hav. unfold remove_backend.
  destruct (aget (backends s) a) as [[mb ib]|] eqn:Eb.
  - unfold stop_monitoring. destruct (aget (live_mon s) ib); cbn; repeat split.
  - rewrite (adel_absent _ _ Eb). repeat split. exact Hav.
Qed.

Lemma struct_remove_replica : forall s fs a, struct_ok s -> struct_ok (remove_replica_nolock s fs a).
Proof.
  intros s fs a H. unfold remove_replica_nolock.
  destruct (negb (has_replica s a)); [exact H|].
  eapply sst_struct; [apply sst_update_checkpoint|].
  eapply sst_struct; [apply sst_update_vol_status|].
  set (s1 := if Nat.eqb (length (replicas s)) 1 && fe_up s then _ else s).
  assert (H1 : struct_ok s1).
  { subst s1. destruct (Nat.eqb (length (replicas s)) 1 && fe_up s); [|exact H].
    eapply sst_struct; [|exact H]. eapply sst_trans; [apply sst_upd_leader|apply sst_upd_fe]. }
  set (s2 := upd_registered s1 _).
  assert (H2 : struct_ok s2) by (apply struct_upd_registered; [exact H1|apply nodup_adel; exact (st_reg s1 H1)]).
  destruct H2 as [Hn Hmi Hl Hw Hrf Hav Hreg].
  set (s3 := upd_replicas s2 (adel (replicas s2) a)).
  destruct (remove_backend_fields s3 a Hav) as [R1 [R2 [R3 [R4 R5]]]].
  constructor; rewrite ?R1, ?R2, ?R3, ?R4, ?R5; cbn [replicas backends rf registered s3 upd_replicas].
  - apply nodup_adel. exact Hn.
  - rewrite proj_adel. f_equal. exact Hmi.
  - eapply Nat.le_trans; [apply length_adel_le|exact Hl].
  - eapply Nat.le_trans; [apply count_wo_adel_le|exact Hw].
  - exact Hrf.
  - reflexivity.
  - exact Hreg.
Qed.

Lemma struct_handle_error : forall errs s, struct_ok s -> struct_ok (fst (handle_error_nolock s errs)).
Proof.
  intros errs s H. unfold handle_error_nolock. cbn [fst].
  revert s H. induction errs as [|a t IH]; intros s H; cbn; [exact H|].
  apply IH. apply struct_set_mode; [discriminate|exact H].
Qed.

Lemma struct_remove_all : forall errs s fs, struct_ok s -> struct_ok (remove_all s fs errs).
Proof.
  unfold remove_all. induction errs as [|a t IH]; intros s fs H; cbn; [exact H|].
  apply IH. apply struct_remove_replica. exact H.
Qed.

(** *** admission: after a successful can_add the address is new and nobody is rebuilding *)
Lemma remove_backend_replicas : forall s a, replicas (remove_backend s a) = replicas s /\ rf (remove_backend s a) = rf s.
Proof.
  intros s a. unfold remove_backend.
  destruct (aget (backends s) a) as [[mb ib]|]; [|split; reflexivity].
  unfold stop_monitoring. destruct (aget (live_mon s) ib); cbn; split; reflexivity.
Qed.

Lemma replicas_remove : forall s fs x, has_replica s x = true ->
  replicas (remove_replica_nolock s fs x) = adel (replicas s) x
  /\ rf (remove_replica_nolock s fs x) = rf s.
Proof.
  intros s fs x H. unfold remove_replica_nolock. rewrite H. cbn [negb].
  match goal with |- replicas (update_checkpoint ?t fs) = _ /\ _ =>
    destruct (sst_update_checkpoint t fs) as [R [_ [R' _]]] end.
  rewrite R, R'. cbn [replicas rf update_vol_status upd_status].
  match goal with |- replicas (remove_backend ?t x) = _ /\ _ => destruct (remove_backend_replicas t x) as [Q1 Q2] end.
  rewrite Q1, Q2. cbn. destruct (Nat.eqb (length (replicas s)) 1 && fe_up s); split; reflexivity.
Qed.

Lemma has_replica_remove_other : forall s fs x a, has_replica s a = false -> has_replica (remove_replica_nolock s fs x) a = false.
Proof.
  intros s fs x a H.
  destruct (has_replica s x) eqn:Ex.
  - destruct (has_replica (remove_replica_nolock s fs x) a) eqn:E; [|reflexivity].
    exfalso. apply has_replica_in in E. destruct (replicas_remove s fs x Ex) as [R _]. rewrite R in E.
    apply keys_adel_subset in E. apply has_replica_in in E. congruence.
  - unfold remove_replica_nolock. rewrite Ex. exact H.
Qed.

Lemma struct_can_add : forall s fs a, struct_ok s ->
  struct_ok (fst (can_add s fs a))
  /\ (snd (can_add s fs a) = true ->
      has_replica (fst (can_add s fs a)) a = false /\ count_wo (replicas (fst (can_add s fs a))) = 0%nat).
Proof.
  intros s fs a H. unfold can_add.
  destruct (has_replica s a) eqn:Eh; [split; [exact H|cbn; discriminate]|].
  destruct (find (fun p => mode_eqb (snd p) WO) (replicas s)) as [[wo m]|] eqn:Ef.
  - destruct (negb (amem (backends s) wo) || flt fs wo KRev || flt fs a KHttp); [split; [exact H|cbn; discriminate]|].
    destruct (f_rev (wget (w s) wo) <? f_rev (wget (w s) a)); [|split; [exact H|cbn; discriminate]].
    cbn [fst snd]. split; [apply struct_remove_replica; exact H|]. intros _.
    split; [apply has_replica_remove_other; exact Eh|].
    assert (Hwo : has_replica s wo = true).
    { apply has_replica_in. apply find_some in Ef. destruct Ef as [Hin _].
      change wo with (fst (wo, m)). apply in_map. exact Hin. }
    destruct (replicas_remove s fs wo Hwo) as [R _]. rewrite R.
    destruct H as [Hn _ _ Hw _ _ _]. eapply find_wo_some_adel; eauto.
  - cbn [fst snd]. split; [exact H|]. intros _. split; [exact Eh|apply find_wo_none; exact Ef].
Qed.

Lemma nodup_snoc : forall (l : list nat) a, NoDup l -> ~ In a l -> NoDup (l ++ [a]).
Proof.
  induction l as [|x t IH]; intros a Hn Hi; cbn; [constructor; [auto|constructor]|].
  inversion Hn as [|y ys Hy Hd]; subst. constructor.
  - intro Hin. apply in_app_or in Hin. destruct Hin as [Hin|[Hin|[]]]; [contradiction|].
    subst. apply Hi. left. reflexivity.
  - apply IH; [exact Hd|]. intro Hin. apply Hi. right. exact Hin.
Qed.

Lemma sst_close_new : forall s a, same_struct_fields s (close_new s a).
Proof. intros. apply sst_upd_rep. Qed.

Lemma aget_none_not_in : forall {V} (l : list (nat * V)) a, ~ In a (keys l) -> aget l a = None.
Proof.
  intros V l a. induction l as [|[k v] t IH]; cbn; intros H; [reflexivity|].
  destruct (Nat.eqb k a) eqn:E; [apply Nat.eqb_eq in E; subst; exfalso; apply H; left; reflexivity|].
  apply IH. intro Hin. apply H. right. exact Hin.
Qed.

(** appending the new replica: needs room below the replication factor *)
Lemma struct_add_replica_nolock : forall s fs a i b, struct_ok s -> (length (replicas s) < rf s)%nat ->
  struct_ok (fst (add_replica_nolock s fs a i b)).
Proof.
  intros s fs a i b H Hroom. unfold add_replica_nolock.
  destruct (struct_can_add s fs a H) as [Hc Hpost].
  assert (Hlen0 : (length (replicas (fst (can_add s fs a))) <= length (replicas s))%nat).
  { unfold can_add. destruct (has_replica s a); [cbn; lia|].
    destruct (find _ (replicas s)) as [[wo m]|] eqn:Ef; [|cbn; lia].
    destruct (negb _ || _ || _); [cbn; lia|].
    destruct (_ <? _); [|cbn; lia]. cbn [fst].
    assert (Hwo : has_replica s wo = true).
    { apply has_replica_in. apply find_some in Ef. destruct Ef as [Hin _].
      change wo with (fst (wo, m)). apply in_map. exact Hin. }
    destruct (replicas_remove s fs wo Hwo) as [R _]. rewrite R. apply length_adel_le. }
  assert (Hrf0 : rf (fst (can_add s fs a)) = rf s).
  { unfold can_add. destruct (has_replica s a); [reflexivity|].
    destruct (find _ (replicas s)) as [[wo m]|] eqn:Ef; [|reflexivity].
    destruct (negb _ || _ || _); [reflexivity|].
    destruct (_ <? _); [|reflexivity]. cbn [fst].
    assert (Hwo : has_replica s wo = true).
    { apply has_replica_in. apply find_some in Ef. destruct Ef as [Hin _].
      change wo with (fst (wo, m)). apply in_map. exact Hin. }
    destruct (replicas_remove s fs wo Hwo) as [_ R]. exact R. }
  destruct (can_add s fs a) as [s0 ok]. cbn [fst snd] in *.
  destruct ok; cbn [negb]; [|exact Hc].
  destruct (Hpost eq_refl) as [Hnew Hnowo].
  set (after := if b then _ else _).
  assert (Hafter : match after with
                   | Some (s3, _) => struct_ok s3 /\ replicas s3 = replicas s0 /\ backends s3 = backends s0 /\ rf s3 = rf s0
                   | None => True end).
  { subst after. destruct b; [|split; [exact Hc|repeat split]].
    destruct (negb (remain_ok s0)); [split; [exact Hc|repeat split]|].
    pose proof (sst_snapshot_all (upd_nsnap s0 (S (nsnap s0))) fs (nsnap s0)) as Hs.
    destruct (snapshot_all (upd_nsnap s0 (S (nsnap s0))) fs (nsnap s0)) as [s2 errs]. cbn [fst] in Hs.
    assert (Hs2 : same_struct_fields s0 s2) by (eapply sst_trans; [apply sst_upd_nsnap|exact Hs]).
    assert (G : forall t, same_struct_fields s2 t ->
              struct_ok t /\ replicas t = replicas s0 /\ backends t = backends s0 /\ rf t = rf s0).
    { intros t Ht. pose proof (sst_trans _ _ _ Hs2 Ht) as [R1 [R2 [R3 _]]].
      split; [eapply sst_struct; [eapply sst_trans; [exact Hs2|exact Ht]|exact Hc]|auto]. }
    destruct errs; [destruct (flt fs a KSnap)|]; apply G; try apply sst_close_new; apply sst_upd_rep. }
  destruct after as [[s3 r]|]; [|exact Hc].
  destruct Hafter as [H3 [R1 [R2 R3]]].
  destruct r; try exact H3.
  destruct (flt fs a KSetModeWO); [exact H3|].
  cbn [fst].
  eapply sst_struct; [apply sst_upd_mon|].
  destruct H3 as [Hn Hmi Hl Hw Hrf Hav Hreg].
  assert (Hnin : ~ In a (keys (replicas s0))) by (intro Hin; apply has_replica_in in Hin; congruence).
  assert (Hnb : amem (backends s3) a = false).
  { unfold amem. rewrite aget_none_not_in; [reflexivity|]. rewrite <- keys_proj, Hmi, R1. exact Hnin. }
  constructor; cbn [replicas backends rf upd_backends upd_replicas upd_rep upd_w].
  - unfold keys. rewrite map_app. cbn. apply nodup_snoc; [exact Hn|]. fold (keys (replicas s3)). rewrite R1. exact Hnin.
  - rewrite Hnb. unfold proj. rewrite map_app. cbn. f_equal. exact Hmi.
  - rewrite app_length. cbn. rewrite R1, R3. lia.
  - rewrite count_wo_app. cbn. rewrite R1, Hnowo. cbn. lia.
  - exact Hrf.
  - reflexivity.
  - exact Hreg.
Qed.

(** *** every event preserves the structural invariant *)
Lemma struct_create_backend : forall s fs a s1 i, create_backend s fs a = Some (s1, i) ->
  same_struct_fields s s1.
Proof.
  intros s fs a s1 i Hc. unfold create_backend in Hc.
  destruct (flt fs a KCreate || f_open (wget (w s) a)); [discriminate|].
  inversion Hc; subst. eapply sst_trans; [apply sst_upd_rep|apply sst_upd_ninst].
Qed.

Lemma struct_signal_replica : forall s fs, struct_ok s -> struct_ok (fst (fst (signal_replica s fs))).
Proof.
  intros s fs H. unfold signal_replica. destruct (maxrev s) as [m|].
  - destruct (flt fs m KSignal); cbn [fst].
    + eapply sst_struct; [apply sst_upd_leader|]. apply struct_upd_registered; [exact H|apply nodup_adel; exact (st_reg s H)].
    + eapply sst_struct; [apply sst_upd_leader|exact H].
  - cbn [fst]. eapply sst_struct; [apply sst_upd_leader|exact H].
Qed.

Lemma keys_filter_subset : forall {V} (f : nat * V -> bool) l x, In x (keys (filter f l)) -> In x (keys l).
Proof.
  intros V f l x. unfold keys. intros H. apply in_map_iff in H. destruct H as [p [Hp Hin]].
  apply filter_In in Hin. destruct Hin as [Hin _]. subst. apply in_map. exact Hin.
Qed.

Lemma nodup_filter_keys : forall {V} (f : nat * V -> bool) l, NoDup (keys l) -> NoDup (keys (filter f l)).
Proof.
  intros V f l. induction l as [|[k v] t IH]; cbn; intros H; [constructor|].
  inversion H as [|x xs Hx Hd]; subst.
  destruct (f (k, v)); [|apply IH; exact Hd]. cbn. constructor; [|apply IH; exact Hd].
  intro Hin. apply Hx. eapply keys_filter_subset. exact Hin.
Qed.

Lemma keys_aset : forall {V} (l : list (nat * V)) a v x, In x (keys (aset l a v)) -> x = a \/ In x (keys l).
Proof.
  intros V l a v x. induction l as [|[k w0] t IH]; cbn; intros H.
  - destruct H as [H|[]]. left. symmetry. exact H.
  - destruct (Nat.eqb k a) eqn:E; cbn in H.
    + destruct H as [H|H]; [right; left; exact H|right; right; exact H].
    + destruct H as [H|H]; [right; left; exact H|]. destruct (IH H) as [G|G]; [left; exact G|right; right; exact G].
Qed.

Lemma nodup_aset : forall {V} (l : list (nat * V)) a v, NoDup (keys l) -> NoDup (keys (aset l a v)).
Proof.
  intros V l a v. induction l as [|[k w0] t IH]; cbn; intros H; [constructor; [auto|constructor]|].
  inversion H as [|x xs Hx Hd]; subst.
  destruct (Nat.eqb k a) eqn:E; cbn; [constructor; assumption|].
  constructor; [|apply IH; exact Hd].
  intro Hin. apply keys_aset in Hin. destruct Hin as [Hin|Hin]; [subst; rewrite Nat.eqb_refl in E; discriminate|contradiction].
Qed.

Lemma struct_do_register : forall s a u r b pick fs, struct_ok s -> struct_ok (fst (fst (do_register s a u r b pick fs))).
Proof.
  intros s a u r b pick fs H. unfold do_register.
  destruct (Nat.eqb u 0); [exact H|].
  set (s1 := upd_registered s _).
  assert (H1 : struct_ok s1).
  { apply struct_upd_registered; [exact H|]. apply nodup_aset. apply nodup_filter_keys. exact (st_reg s H). }
  destruct (replicas s1); [|exact H1].
  set (sw := if signalled s1 then _ else _).
  assert (Hsw : match sw with
                | inr out => struct_ok (fst (fst out))
                | inl None => True
                | inl (Some (s2, _)) => struct_ok s2 end).
  { subst sw. destruct (signalled s1); [|exact H1].
    destruct (match maxrev s1 with Some m => Nat.eqb m a | None => false end); [exact H1|].
    destruct (match maxrev s1 with Some m => flt fs m KAlive | None => true end); [|exact H1].
    destruct (maxrev s1) as [m|].
    - eapply sst_struct; [apply sst_upd_leader|]. apply struct_upd_registered; [exact H1|apply nodup_adel; exact (st_reg s1 H1)].
    - eapply sst_struct; [apply sst_upd_leader|exact H1]. }
  destruct sw as [[[s2 sg0]|]|out]; [| exact H1 | exact Hsw].
  destruct b; [exact Hsw|].
  set (s3 := match maxrev s2 with None => _ | Some _ => s2 end).
  assert (H3 : struct_ok s3).
  { subst s3. destruct (maxrev s2); [exact Hsw|]. eapply sst_struct; [apply sst_upd_leader|exact Hsw]. }
  match goal with |- context [match ?L with Some l => _ | None => _ end] => destruct L as [l|] end; [|exact H3].
  set (s4 := upd_leader s3 l (signalled s3)).
  assert (H4 : struct_ok s4) by (eapply sst_struct; [apply sst_upd_leader|exact H3]).
  destruct (Nat.leb (quorum (rf s4)) (length (registered s4))); [|exact H4].
  pose proof (struct_signal_replica s4 fs H4) as H5.
  destruct (signal_replica s4 fs) as [[s5 ok] sg]. exact H5.
Qed.

Lemma struct_rm_from_registered : forall s, struct_ok s -> struct_ok (rm_from_registered s).
Proof. intros s H. eapply sst_struct; [apply sst_upd_leader|exact H]. Qed.

Lemma struct_add_during_start : forall s fs a, struct_ok s -> (length (replicas s) < rf s)%nat ->
  struct_ok (fst (add_during_start s fs a)).
Proof.
  intros s fs a H Hroom. unfold add_during_start.
  destruct (create_backend s fs a) as [[s1 i]|] eqn:Hc; [|apply struct_rm_from_registered; exact H].
  pose proof (struct_create_backend _ _ _ _ _ Hc) as S1.
  assert (H1 : struct_ok s1) by (eapply sst_struct; [exact S1|exact H]).
  destruct S1 as [R1 [R2 [R3 _]]].
  destruct (flt fs a KSize); [apply struct_rm_from_registered; exact H1|].
  set (s2 := if csize s1 =? maxint then _ else s1).
  assert (S2 : same_struct_fields s1 s2).
  { subst s2. destruct (csize s1 =? maxint); [apply sst_upd_csize|apply sst_refl]. }
  assert (H2 : struct_ok s2) by (eapply sst_struct; eauto).
  destruct (negb (csize s2 =? f_size (wget (w s1) a))); [apply struct_rm_from_registered; exact H2|].
  assert (Hroom2 : (length (replicas s2) < rf s2)%nat).
  { destruct S2 as [Q1 [Q2 [Q3 _]]]. rewrite Q1, Q3, R1, R3. exact Hroom. }
  pose proof (struct_add_replica_nolock s2 fs a i false H2 Hroom2) as H3.
  destruct (add_replica_nolock s2 fs a i false) as [s3 r]. cbn [fst] in H3.
  destruct r; try (apply struct_rm_from_registered; exact H3).
  destruct (flt fs a KClone); [apply struct_remove_replica; exact H3|].
  assert (G : struct_ok (fst (if flt fs a KSetModeRW then (remove_replica_nolock s3 fs a, RErr)
                  else (set_mode_nolock (upd_rep s3 a (fun f => f_set_mode f RRW)) a RW, ROk)))).
  { destruct (flt fs a KSetModeRW); cbn [fst]; [apply struct_remove_replica; exact H3|].
    apply struct_set_mode; [discriminate|]. eapply sst_struct; [apply sst_upd_rep|exact H3]. }
  destruct (f_clone (wget (w s3) a)); try exact G. apply struct_remove_replica; exact H3.
Qed.

Lemma struct_start_frontend : forall s, struct_ok s -> struct_ok (start_frontend s).
Proof. intros s H. unfold start_frontend. destruct (replicas s); [exact H|]. eapply sst_struct; [apply sst_upd_fe|exact H]. Qed.

Lemma struct_fold_set_mode_err : forall {A} (l : list A) (g : A -> bool) (k : A -> addr) s,
  struct_ok s -> struct_ok (fold_left (fun acc p => if g p then acc else set_mode_nolock acc (k p) ERR) l s).
Proof.
  intros A l g k. induction l as [|x t IH]; intros s H; cbn; [exact H|].
  apply IH. destruct (g x); [exact H|apply struct_set_mode; [discriminate|exact H]].
Qed.

(** a start request names at most one replica (what jiva replicas send) *)
Lemma struct_do_start : forall s l fs, struct_ok s -> (length l <= 1)%nat ->
  struct_ok (fst (fst (do_start s l fs))).
Proof.
  intros s l fs H Hl. pose proof (st_rf s H) as Hrf. unfold do_start.
  destruct l as [|a0 t]; [exact H|].
  destruct t as [|a1 t]; [|cbn in Hl; lia].
  destruct (replicas s) eqn:Er; [|exact H].
  destruct (negb (signalled s) || negb _); [exact H|].
  set (s0 := upd_csize _ maxint).
  assert (H0 : struct_ok s0).
  { subst s0. constructor; cbn; [constructor|reflexivity|lia|lia|exact Hrf|reflexivity|exact (st_reg s H)]. }
  assert (Hroom : (length (replicas s0) < rf s0)%nat) by (subst s0; cbn; lia).
  cbn [start_adds].
  pose proof (struct_add_during_start s0 fs a0 H0 Hroom) as H1.
  destruct (add_during_start s0 fs a0) as [s1 r]. cbn [fst] in H1.
  destruct r; try (apply struct_start_frontend; exact H1).
  destruct (existsb (fun p => flt fs (fst p) KRev) (replicas s1)); [apply struct_start_frontend; exact H1|].
  cbn [fst]. apply struct_start_frontend.
  eapply sst_struct; [apply sst_update_checkpoint|].
  eapply sst_struct; [apply sst_update_vol_status|].
  match goal with |- struct_ok (fold_left ?f ?l s1) =>
    change (struct_ok (fold_left (fun acc p => if (fun q => snd q =? fold_left Z.max (map snd l) 0) p then acc
                                               else set_mode_nolock acc (fst p) ERR) l s1)) end.
  apply struct_fold_set_mode_err. exact H1.
Qed.

Lemma struct_do_write : forall s wid off len fs, struct_ok s -> struct_ok (fst (do_write s wid off len fs)).
Proof.
  intros s wid off len fs H. unfold do_write.
  destruct (ro s); [exact H|].
  destruct ((off <? 0) || (csize s <? off + len)); [exact H|].
  destruct (negb (avail s)); [exact H|].
  set (s1 := fold_left _ (writers s) s).
  assert (H1 : struct_ok s1).
  { eapply sst_struct; [|exact H]. subst s1. apply sst_fold_left.
    intros t x. destruct (flt fs x KWrite); [apply sst_refl|apply sst_upd_rep]. }
  destruct (io_errs (writers s) fs KWrite KWriteAp) as [|e es] eqn:Ee; [exact H1|].
  pose proof (struct_handle_error (e :: es) s1 H1) as H2.
  destruct (handle_error_nolock s1 (e :: es)) as [s2 sup]. cbn [fst] in *.
  apply struct_remove_all. exact H2.
Qed.

Lemma struct_do_sync : forall s fs k, struct_ok s -> struct_ok (fst (do_sync s fs k)).
Proof.
  intros s fs k H. unfold do_sync.
  destruct (ro s); [exact H|].
  destruct (negb (avail s)); [exact H|].
  destruct (io_errs (writers s) fs k k) as [|e es] eqn:Ee; [exact H|].
  pose proof (struct_handle_error (e :: es) s H) as H2.
  destruct (handle_error_nolock s (e :: es)) as [s2 sup]. cbn [fst] in *.
  apply struct_remove_all. exact H2.
Qed.

Lemma struct_do_read : forall s off len order fs, struct_ok s -> struct_ok (fst (fst (do_read s off len order fs))).
Proof.
  intros s off len order fs H. unfold do_read.
  destruct ((off <? 0) || (csize s <? off + len)); [exact H|].
  destruct (replicas s) as [|[a0 m0] t] eqn:Er; [exact H|].
  assert (G : struct_ok (fst (fst (
      if negb (avail s) then (s, RErr, noeff)
      else if negb (read_order_ok s order fs) then (s, RInvalid, noeff)
      else
        let errs := filter (fun a => flt fs a KRead) order in
        let served := match rev order with lst :: _ => if flt fs lst KRead then None else Some lst | [] => None end in
        match errs with
        | [] => (s, ROk, mkeff [] served)
        | _ =>
            let '(s2, suppressed) := handle_error_nolock s errs in
            let s3 := remove_all s2 fs errs in
            (s3, match served with Some _ => if suppressed then ROk else RErr | None => RErr end, mkeff [] served)
        end)))).
  { destruct (negb (avail s)); [exact H|].
    destruct (negb (read_order_ok s order fs)); [exact H|].
    cbv zeta.
    destruct (filter (fun a => flt fs a KRead) order) as [|e es]; [exact H|].
    pose proof (struct_handle_error (e :: es) s H) as H2.
    destruct (handle_error_nolock s (e :: es)) as [s2 sup]. cbn [fst] in *.
    apply struct_remove_all. exact H2. }
  destruct m0; destruct t; try exact G; exact H.
Qed.

Lemma struct_do_add_check : forall s a fs, struct_ok s -> struct_ok (fst (do_add_check s a fs)).
Proof.
  intros s a fs H. unfold do_add_check.
  destruct (struct_can_add s fs a H) as [Hc _].
  destruct (can_add s fs a) as [s1 ok]. cbn [fst] in Hc.
  destruct (negb ok); [exact Hc|].
  destruct (Nat.eqb (rf s1) (length (replicas s1))); [exact Hc|].
  eapply sst_struct; [apply sst_upd_pend_adds|exact Hc].
Qed.

Lemma struct_do_add_commit : forall s a fs, struct_ok s -> struct_ok (fst (do_add_commit s a fs)).
Proof.
  intros s a fs H. unfold do_add_commit.
  destruct (negb (existsb (Nat.eqb a) (pend_adds s))); [exact H|].
  set (s0 := upd_pend_adds s _).
  assert (H0 : struct_ok s0) by (eapply sst_struct; [apply sst_upd_pend_adds|exact H]).
  destruct (create_backend s0 fs a) as [[s1 i]|] eqn:Hc; [|exact H0].
  pose proof (struct_create_backend _ _ _ _ _ Hc) as S1.
  assert (H1 : struct_ok s1) by (eapply sst_struct; eauto).
  destruct (Nat.eqb (rf s1) (length (replicas s1))) eqn:Erf.
  { eapply sst_struct; [apply sst_close_new|exact H1]. }
  assert (Hroom : (length (replicas s1) < rf s1)%nat).
  { apply Nat.eqb_neq in Erf. destruct H1 as [_ _ Hl _ _ _ _]. lia. }
  pose proof (struct_add_replica_nolock s1 fs a i true H1 Hroom) as H2.
  destruct (add_replica_nolock s1 fs a i true) as [s2 r]. cbn [fst] in H2.
  destruct r; try exact H2.
  cbn [fst]. eapply sst_struct; [apply sst_update_checkpoint|].
  eapply sst_struct; [apply sst_update_vol_status|exact H2].
Qed.

Lemma struct_do_verify : forall s a fs, struct_ok s -> struct_ok (fst (do_verify s a fs)).
Proof.
  intros s a fs H. unfold do_verify.
  destruct (aget (replicas s) a) as [m|]; [|exact H].
  destruct (find (fun p => is_rw (snd p)) (replicas s)) as [[r0 m0]|]; [|destruct m; exact H].
  destruct m; try exact H.
  destruct (flt fs r0 KHttp || flt fs a KHttp); [exact H|].
  match goal with |- context [match ?K with Some k => _ | None => _ end] => destruct K as [k|] end; [|exact H].
  destruct (Nat.ltb (length (f_chain (wget (w s) a))) k); [exact H|].
  destruct (negb (list_eqb _ _)); [exact H|].
  destruct (negb (amem (backends s) r0) || flt fs r0 KRev); [exact H|].
  destruct (negb (amem (backends s) a) || flt fs a KSetModeRW); [exact H|].
  set (s1 := upd_rep s a _).
  assert (H1 : struct_ok s1) by (eapply sst_struct; [apply sst_upd_rep|exact H]).
  destruct (flt fs a KSetRev); [exact H1|].
  cbn [fst]. eapply sst_struct; [apply sst_update_checkpoint|].
  eapply sst_struct; [apply sst_update_vol_status|].
  apply struct_set_mode; [discriminate|]. eapply sst_struct; [apply sst_upd_rep|exact H1].
Qed.

Lemma struct_do_mon_fire : forall s a fs, struct_ok s -> struct_ok (fst (do_mon_fire s a fs)).
Proof.
  intros s a fs H. unfold do_mon_fire.
  destruct (first_for (pend_mon s) (Nat.eqb a)) as [[i x]|]; [|exact H].
  cbn [fst]. apply struct_remove_replica. eapply sst_struct; [apply sst_upd_mon|exact H].
Qed.

Lemma struct_do_mon_fail : forall s a fs, struct_ok s -> struct_ok (fst (do_mon_fail s a fs)).
Proof.
  intros s a fs H. unfold do_mon_fail.
  destruct (first_for (rev (live_mon s)) (Nat.eqb a)) as [[i x]|]; [|exact H].
  cbn [fst]. apply struct_remove_replica. apply struct_set_mode; [discriminate|].
  eapply sst_struct; [apply sst_upd_mon|exact H].
Qed.

Lemma struct_do_snapshot : forall s n fs, struct_ok s -> struct_ok (fst (do_snapshot s n fs)).
Proof.
  intros s n fs H. unfold do_snapshot.
  destruct (negb (Nat.eqb (rwc s) (rf s))); [exact H|].
  destruct (Nat.eqb (length (backends s)) 0); [exact H|].
  destruct (negb (remain_ok s)); [exact H|].
  destruct (last_rw s) as [r0|]; [|exact H].
  destruct (flt fs r0 KHttp); [exact H|].
  destruct (existsb (Nat.eqb n) (f_chain (wget (w s) r0))); [exact H|].
  pose proof (sst_snapshot_all s fs n) as Hs.
  destruct (snapshot_all s fs n) as [s1 errs]. cbn [fst] in Hs.
  assert (H1 : struct_ok s1) by (eapply sst_struct; [exact Hs|exact H]).
  destruct errs as [|e es]; [exact H1|].
  pose proof (struct_handle_error (e :: es) s1 H1) as H2.
  destruct (handle_error_nolock s1 (e :: es)) as [s2 sup]. exact H2.
Qed.

Lemma struct_do_resize : forall s sz fs, struct_ok s -> struct_ok (fst (do_resize s sz fs)).
Proof.
  intros s sz fs H. unfold do_resize.
  destruct (sz <? csize s); [exact H|].
  destruct (sz =? csize s); [exact H|].
  set (s1 := fold_left _ (writers s) s).
  assert (H1 : struct_ok s1).
  { eapply sst_struct; [|exact H]. subst s1. apply sst_fold_left.
    intros t x. destruct (flt fs x KResize); [apply sst_refl|apply sst_upd_rep]. }
  set (errs := filter (fun a => flt fs a KResize) (writers s)).
  assert (H2 : struct_ok (fst (match errs with
                               | [] => (s1, false)
                               | _ => let '(s2, suppressed) := handle_error_nolock s1 errs in (s2, negb suppressed)
                               end))).
  { destruct errs as [|e es]; [exact H1|].
    pose proof (struct_handle_error (e :: es) s1 H1) as H2.
    destruct (handle_error_nolock s1 (e :: es)) as [s2 sup]. exact H2. }
  destruct (match errs with [] => (s1, false) | _ => _ end) as [s2 failed]. cbn [fst] in H2.
  destruct failed; [exact H2|].
  destruct (flt fs 0%nat KFeResize); [exact H2|].
  eapply sst_struct; [apply sst_upd_csize|exact H2].
Qed.


(** well-formed requests: a start names at most one replica (what jiva replicas send) *)
Definition ev_wf (e : event) : bool :=
  match e with Start l _ => Nat.leb (length l) 1 | _ => true end.

Theorem struct_step : forall s e, struct_ok s -> ev_wf e = true -> struct_ok (fst (fst (step s e))).
Proof.
  intros s e H Hwf. destruct e; cbn [step].
  - apply struct_do_register; exact H.
  - apply struct_do_start; [exact H|]. cbn in Hwf. apply Nat.leb_le in Hwf. exact Hwf.
  - pose proof (struct_do_add_check s a fs H). destruct (do_add_check s a fs); assumption.
  - pose proof (struct_do_add_commit s a fs H). destruct (do_add_commit s a fs); assumption.
  - pose proof (struct_do_verify s a fs H). destruct (do_verify s a fs); assumption.
  - cbn. apply struct_remove_replica; exact H.
  - destruct m; cbn; try exact H; (apply struct_set_mode; [discriminate|exact H]).
  - pose proof (struct_do_mon_fire s a fs H). destruct (do_mon_fire s a fs); assumption.
  - pose proof (struct_do_mon_fail s a fs H). destruct (do_mon_fail s a fs); assumption.
  - pose proof (struct_do_write s wid off len fs H). destruct (do_write s wid off len fs); assumption.
  - pose proof (struct_do_sync s fs KSync H). destruct (do_sync s fs KSync); assumption.
  - pose proof (struct_do_sync s fs KUnmap H). destruct (do_sync s fs KUnmap); assumption.
  - apply struct_do_read; exact H.
  - pose proof (struct_do_snapshot s name fs H). destruct (do_snapshot s name fs); assumption.
  - pose proof (struct_do_resize s newsize fs H). destruct (do_resize s newsize fs); assumption.
  - unfold do_sync_data. destruct (aget (replicas s) a) as [[]|]; try exact H.
    destruct (find _ (replicas s)) as [[r0 m0]|]; [|exact H]. cbn. eapply sst_struct; [apply sst_upd_rep|exact H].
Qed.

Lemma struct_init : forall rf0 w0, (1 <= rf0)%nat -> struct_ok (init rf0 w0).
Proof. intros rf0 w0 H. constructor; cbn; [constructor|reflexivity|lia|lia|exact H|reflexivity|constructor]. Qed.

Theorem struct_reachable : forall es rf0 w0, (1 <= rf0)%nat -> forallb ev_wf es = true ->
  struct_ok (run (init rf0 w0) es).
Proof.
  intros es rf0 w0 H Hwf.
  assert (G : forall es s, struct_ok s -> forallb ev_wf es = true -> struct_ok (run s es)).
  { clear. induction es as [|e t IH]; intros s Hs Hw; cbn; [exact Hs|].
    cbn in Hw. apply andb_prop in Hw. destruct Hw as [He Ht].
    apply IH; [apply struct_step; assumption|exact Ht]. }
  apply G; [apply struct_init; exact H|exact Hwf].
Qed.
