(** * Ctl: the controller halves of C01 (range checks) and C16 (resize): the trace oracles accept every
    trace of the model, histories with concurrent pairs included (pair rule [nopair]) *)
From Coq Require Import List ZArith Bool Arith Lia.
From Jiva Require Import Ctl.Model Ctl.Corr Ctl.Oracles Ctl.Proofs Ctl.Props Ctl.RfConst Ctl.OracleProofs
  Ctl.OracleProofs2 Ctl.OracleProofsX.
Import ListNotations.
Open Scope Z_scope.

Lemma obs0_shape3 : forall rf0 n w0, obs0 rf0 n w0 = with_res1 (observe n (init rf0 w0) ROk noeff) None.
Proof. reflexivity. Qed.

(** an event that leaves the state alone leaves every observed replica alone *)
Lemma untouched_same_state : forall n s r1 e1 r1' r2 e2,
  untouched (with_res1 (observe n s r1 e1) r1') (observe n s r2 e2) = true.
Proof. intros. unfold untouched. apply forallb_forall. intros a _. apply same_reps_eq. reflexivity. Qed.

Lemma not_ack : forall n s r e, r <> ROk -> negb (is_ack (observe n s r e)) = true.
Proof. intros n s r e H. unfold is_ack. cbn [o_res observe]. destruct r; cbn; try reflexivity. contradiction. Qed.

(** ** C01 *)
Lemma c01_step_model : forall rf0 n s e r0 ef0 r0',
  c01_step rf0 (with_res1 (observe n s r0 ef0) r0') e
           (observe n (fst (fst (step s e))) (snd (fst (step s e))) (snd (step s e))) = true.
Proof.
  intros rf0 n s e r0 ef0 r0'. destruct e; try reflexivity.
  - (* write *)
    unfold c01_step. cbn [o_size observe with_res1 step].
    destruct ((off <? 0) || (csize s <? off + len)) eqn:Hr; [|reflexivity].
    destruct (do_write_not_reached s wid off len fs (or_intror (or_introl Hr))) as [X1 X2].
    destruct (do_write s wid off len fs) as [s' r]. cbn [fst snd] in *. subst s'.
    rewrite not_ack by exact X2. rewrite untouched_same_state. cbn [andb o_replicas observe with_res1]. apply lrep_eqb_refl.
  - (* read *)
    unfold c01_step. cbn [o_size observe with_res1 step].
    destruct ((off <? 0) || (csize s <? off + len)) eqn:Hr; [|reflexivity].
    rewrite do_read_unfold, Hr. cbn [fst snd].
    rewrite not_ack by discriminate. rewrite untouched_same_state. cbn [andb o_replicas observe with_res1]. apply lrep_eqb_refl.
Qed.

Theorem c01_oracle_model_x : forall xs rf0 n w0,
  walk (lift (c01_step rf0) nopair) 0 (obs0 rf0 n w0) xs (trace n (init rf0 w0) xs) = None.
Proof.
  intros xs rf0 n w0. rewrite obs0_shape3.
  apply (walk_model_x (c01_step rf0) nopair (fun _ => True) (fun _ _ => True)).
  - intros; exact I.
  - intros s e r0 ef0 r0' _ _. apply c01_step_model.
  - reflexivity.
  - exact I.
  - clear. generalize (init rf0 w0). induction (flatten xs) as [|e t IH]; intros s; cbn; [exact I|split; [exact I|apply IH]].
Qed.

(** ** C16: Controller.Resize *)
Definition resize_fan (s : cst) (sz : Z) (fs : faults) : cst :=
  fold_left (fun acc a => if flt fs a KResize then acc else upd_rep acc a (fun f => f_set_size f sz)) (writers s) s.
Definition resize_errs (s : cst) (fs : faults) : list addr := filter (fun a => flt fs a KResize) (writers s).

Lemma do_resize_unfold : forall s sz fs, (sz <=? csize s) = false ->
  do_resize s sz fs =
  let s1 := resize_fan s sz fs in
  let errs := resize_errs s fs in
  let s2 := fst (handle_error_nolock s1 errs) in
  if match errs with [] => false | _ => negb (snd (handle_error_nolock s1 errs)) end then (s2, RErr)
  else if flt fs 0%nat KFeResize then (s2, RErr)
  else (upd_csize s2 sz, ROk).
Proof.
  intros s sz fs H. apply Z.leb_gt in H. unfold do_resize.
  destruct (sz <? csize s) eqn:E1; [apply Z.ltb_lt in E1; lia|].
  destruct (sz =? csize s) eqn:E2; [apply Z.eqb_eq in E2; lia|].
  cbv zeta. fold (resize_fan s sz fs). fold (resize_errs s fs).
  destruct (resize_errs s fs) as [|e0 es]; [reflexivity|].
  destruct (handle_error_nolock (resize_fan s sz fs) (e0 :: es)) as [s2 sup]. reflexivity.
Qed.

Lemma do_resize_not_growing : forall s sz fs, (sz <=? csize s) = true -> do_resize s sz fs = (s, RErr).
Proof. intros s sz fs H. apply resize_not_growing_refused. apply Z.leb_le. exact H. Qed.

Lemma sst_resize_fan : forall s sz fs, same_struct_fields s (resize_fan s sz fs).
Proof.
  intros. unfold resize_fan. apply sst_fold_left. intros t x. destruct (flt fs x KResize); [apply sst_refl|apply sst_upd_rep].
Qed.

Lemma csize_fold_upd_rep : forall (g : addr -> bool) (h : frep -> frep) ws s,
  csize (fold_left (fun acc a => if g a then acc else upd_rep acc a h) ws s) = csize s.
Proof.
  intros g h. induction ws as [|a t IH]; intros s; cbn [fold_left]; [reflexivity|]. rewrite IH. destruct (g a); reflexivity.
Qed.

Lemma csize_stop_monitoring : forall s i, csize (stop_monitoring s i) = csize s.
Proof. intros. unfold stop_monitoring. destruct (aget (live_mon s) i); reflexivity. Qed.

Lemma csize_set_mode : forall s a m, csize (set_mode_nolock s a m) = csize s.
Proof.
  intros s a m. unfold set_mode_nolock. cbn [csize update_vol_status upd_status].
  destruct (aget (replicas s) a) as [[]|]; try reflexivity;
    unfold backend_set_mode; cbn [backends upd_replicas];
    destruct (aget (backends s) a) as [[mb ib]|]; try reflexivity;
    destruct (mode_eqb m ERR); cbn; rewrite ?csize_stop_monitoring; reflexivity.
Qed.

Lemma csize_handle_error : forall errs s, csize (fst (handle_error_nolock s errs)) = csize s.
Proof.
  intros errs s. unfold handle_error_nolock. cbn [fst].
  revert s. induction errs as [|a t IH]; intros s; cbn; [reflexivity|]. rewrite IH, csize_set_mode. reflexivity.
Qed.

(** the fan-out: a writer that does not fail the call gets the update *)
Lemma fold_upd_rep_in : forall (g : addr -> bool) (h : frep -> frep) ws s x, NoDup ws -> In x ws -> g x = false ->
  wget (w (fold_left (fun acc a => if g a then acc else upd_rep acc a h) ws s)) x = h (wget (w s) x).
Proof.
  intros g h. induction ws as [|a t IH]; intros s x Hn Hin Hg; [contradiction|]. cbn [fold_left].
  inversion Hn as [|y ys Hy Hd]; subst.
  destruct Hin as [Hin|Hin].
  - subst a. rewrite fold_upd_rep_other by exact Hy. rewrite Hg. unfold upd_rep. cbn [w upd_w].
    rewrite wget_wset, Nat.eqb_refl. reflexivity.
  - rewrite IH by assumption. destruct (g a); [reflexivity|]. unfold upd_rep. cbn [w upd_w]. rewrite wget_wset.
    destruct (Nat.eqb a x) eqn:E; [|reflexivity]. apply Nat.eqb_eq in E. subst. contradiction.
Qed.

(** handleErrorNoLock marks the named replicas ERR and leaves the others *)
Lemma set_mode_err_only_err : forall s a m, NoDup (keys (replicas s)) ->
  In (a, m) (replicas (set_mode_nolock s a ERR)) -> m = ERR.
Proof.
  intros s a m Hn Hin. unfold set_mode_nolock in Hin. cbn [replicas update_vol_status upd_status] in Hin.
  assert (M : In (a, m) (map (setm a ERR) (replicas s)) -> m = ERR).
  { intro Hm. apply in_map_iff in Hm. destruct Hm as [q [Hq _]]. unfold setm in Hq.
    destruct (Nat.eqb (fst q) a) eqn:E; [inversion Hq; reflexivity|].
    subst q. cbn in E. rewrite Nat.eqb_refl in E. discriminate. }
  destruct (aget (replicas s) a) as [[]|] eqn:Eg;
    try (rewrite replicas_backend_set_mode in Hin; cbn [replicas upd_replicas] in Hin; exact (M Hin));
    apply (aget_in_nodup _ _ _ Hn) in Hin; congruence.
Qed.

Lemma handle_error_errs_err : forall errs s x m, struct_ok s -> In x errs ->
  In (x, m) (replicas (fst (handle_error_nolock s errs))) -> m = ERR.
Proof.
  induction errs as [|a t IH]; intros s x m H Hin Hm; [contradiction|].
  assert (Hs : struct_ok (set_mode_nolock s a ERR)) by (apply struct_set_mode; [discriminate|exact H]).
  change (fst (handle_error_nolock s (a :: t))) with (fst (handle_error_nolock (set_mode_nolock s a ERR) t)) in Hm.
  destruct (in_dec Nat.eq_dec x t) as [Ht|Ht]; [apply (IH _ x m Hs Ht Hm)|].
  destruct Hin as [E|Hi]; [subst a|contradiction].
  destruct m; try reflexivity; exfalso.
  - apply in_replicas_handle_error in Hm; [|discriminate].
    pose proof (set_mode_err_only_err s x WO (st_nodup s H) Hm). discriminate.
  - apply in_replicas_handle_error in Hm; [|discriminate].
    pose proof (set_mode_err_only_err s x RW (st_nodup s H) Hm). discriminate.
Qed.

Lemma in_service_after_errors : forall errs s x, struct_ok s -> In x (in_service (replicas s)) ->
  (In x (in_service (replicas (fst (handle_error_nolock s errs)))) <-> ~ In x errs).
Proof.
  intros errs s x H Hx. split.
  - intros Hi He. apply in_service_in in Hi. destruct Hi as [m [Hi Hm]].
    apply Hm. eapply handle_error_errs_err; eassumption.
  - intros Hne. apply in_service_in in Hx. destruct Hx as [m [Hx Hm]].
    pose proof (aget_in_nodup _ _ _ (st_nodup s H) Hx) as G.
    rewrite <- (handle_error_keeps_others errs s x Hne) in G. apply aget_in in G.
    apply in_service_in. exists m. split; assumption.
Qed.

(** what a growing resize does *)
Lemma do_resize_grow : forall s sz fs, (sz <=? csize s) = false ->
  let R := do_resize s sz fs in
  let s1 := resize_fan s sz fs in
  replicas (fst R) = replicas (fst (handle_error_nolock s1 (resize_errs s fs)))
  /\ w (fst R) = w s1
  /\ csize (fst R) = (if res_eqb (snd R) ROk then sz else csize s)
  /\ (flt fs 0%nat KFeResize = true -> snd R <> ROk).
Proof.
  intros s sz fs H. cbv zeta. rewrite (do_resize_unfold s sz fs H). cbv zeta.
  set (s1 := resize_fan s sz fs). set (errs := resize_errs s fs).
  assert (C2 : csize (fst (handle_error_nolock s1 errs)) = csize s).
  { rewrite csize_handle_error. unfold s1, resize_fan. apply csize_fold_upd_rep. }
  assert (W2 : w (fst (handle_error_nolock s1 errs)) = w s1) by apply w_handle_error.
  destruct (match errs with [] => false | _ => negb (snd (handle_error_nolock s1 errs)) end);
    [|destruct (flt fs 0%nat KFeResize)]; cbn [fst snd res_eqb];
    (split; [reflexivity|split; [exact W2|split; [try exact C2; reflexivity|intros X; discriminate]]]).
Qed.

Lemma c16_step_model : forall rf0 n s e r0 ef0 r0',
  struct_ok s -> keys_lt n s ->
  c16_step rf0 (with_res1 (observe n s r0 ef0) r0') e
           (observe n (fst (fst (step s e))) (snd (fst (step s e))) (snd (step s e))) = true.
Proof.
  intros rf0 n s e r0 ef0 r0' H Hk. destruct e; try reflexivity.
  unfold c16_step. cbn [o_size o_replicas observe with_res1 step].
  destruct (newsize <=? csize s) eqn:Hle.
  - rewrite (do_resize_not_growing s newsize fs Hle). cbn [fst snd].
    rewrite not_ack by discriminate. rewrite untouched_same_state. cbn [andb o_size observe]. apply Z.eqb_refl.
  - pose proof (do_resize_grow s newsize fs Hle) as G. cbv zeta in G.
    destruct (do_resize s newsize fs) as [s' r]. cbn [fst snd] in *. destruct G as [Rs [Ws [Cs Fe]]].
    set (s1 := resize_fan s newsize fs) in *.
    assert (H1 : struct_ok s1) by (eapply sst_struct; [apply sst_resize_fan|exact H]).
    assert (R1 : replicas s1 = replicas s) by (apply (sst_resize_fan s newsize fs)).
    apply andb_true_intro. split; [apply andb_true_intro; split; [apply andb_true_intro; split|]|].
    + (* the replicas that did not fail have the new size *)
      apply forallb_forall. intros a Ha. destruct (flt fs a KResize) eqn:F; [reflexivity|].
      assert (Hlt : (a < n)%nat) by (apply Hk; apply in_service_keys; exact Ha).
      unfold rsize_of. rewrite rep_of_observe by exact Hlt. cbn [o_rsize observe_rep].
      rewrite Ws. unfold s1, resize_fan.
      rewrite (fold_upd_rep_in (fun a0 => flt fs a0 KResize) (fun f => f_set_size f newsize));
        [cbn; apply Z.eqb_refl|apply writers_nodup; exact H|rewrite (writers_in_service s H); exact Ha|exact F].
    + (* the volume size *)
      unfold is_ack. cbn [o_res o_size observe]. rewrite Cs.
      destruct r; cbn [res_class res_eqb]; apply Z.eqb_refl.
    + (* a grow the frontend refuses is not acknowledged *)
      destruct (flt fs 0%nat KFeResize) eqn:F; [|reflexivity]. apply not_ack. apply Fe. reflexivity.
    + (* who is still in service *)
      apply forallb_forall. intros a Ha. rewrite Rs.
      assert (Ha1 : In a (in_service (replicas s1))) by (rewrite R1; exact Ha).
      pose proof (in_service_after_errors (resize_errs s fs) s1 a H1 Ha1) as Q.
      destruct (flt fs a KResize) eqn:F; cbn [negb].
      * assert (M : mem a (in_service (replicas (fst (handle_error_nolock s1 (resize_errs s fs))))) = false).
        { apply mem_false. intro Hi. apply Q in Hi. apply Hi. unfold resize_errs. apply filter_In.
          split; [rewrite (writers_in_service s H); exact Ha|exact F]. }
        rewrite M. reflexivity.
      * assert (M : mem a (in_service (replicas (fst (handle_error_nolock s1 (resize_errs s fs))))) = true).
        { apply mem_in. apply Q. unfold resize_errs. intro Hi. apply filter_In in Hi. destruct Hi as [_ Hi]. congruence. }
        rewrite M. reflexivity.
Qed.

Theorem c16_oracle_model_x : forall xs rf0 n w0, (1 <= rf0)%nat -> forallb xev_wf xs = true ->
  forallb (xev_addrs_lt n) xs = true ->
  walk (lift (c16_step rf0) nopair) 0 (obs0 rf0 n w0) xs (trace n (init rf0 w0) xs) = None.
Proof.
  intros xs rf0 n w0 Hrf Hwf Hlt. rewrite obs0_shape3.
  apply (walk_model_x (c16_step rf0) nopair (fun s => struct_ok s /\ keys_lt n s)
           (fun s e => ev_wf e = true /\ ev_addrs_lt n e = true)).
  - intros s e [Ht Hk] [Hw Ha]. split; [apply struct_step; assumption|apply keys_lt_step; assumption].
  - intros s e r0 ef0 r0' [Ht Hk] _. apply c16_step_model; assumption.
  - reflexivity.
  - split; [apply struct_init; exact Hrf|apply keys_lt_init].
  - apply hist_ok_and; [apply hist_ok_xev_wf; exact Hwf|apply hist_ok_xev_addrs_lt; exact Hlt].
Qed.

(** ** non-vacuity: a grow on two RW replicas where one fails the call: it is marked ERR (still listed),
    the other has the new size, the request is acknowledged; a grow whose frontend resize fails *)
Definition c16_fires : list xevent :=
  map One [Register 0%nat 1%nat 1 false None []; Register 1%nat 2%nat 1 false None []; Start [0%nat] [];
           AddCheck 1%nat []; AddCommit 1%nat []; SyncData 1%nat; Verify 1%nat [];
           Resize 10 [(0%nat, KResize)]; Resize 20 [(0%nat, KFeResize)]].
Example c16_grow_reached :
  walk (lift (c16_step 2) nopair) 0 (obs0 2 2 []) c16_fires (trace 2 (init 2 []) c16_fires) = None
  /\ map o_res (trace 2 (init 2 []) c16_fires) = [ROk; ROk; ROk; ROk; ROk; ROk; ROk; ROk; RErr]
  /\ map o_size (trace 2 (init 2 []) c16_fires) = [0; 0; 0; 0; 0; 0; 0; 10; 10]
  /\ o_replicas (last (trace 2 (init 2 []) c16_fires) (obs0 2 2 [])) = [(0%nat, ERR); (1%nat, RW)]
  /\ map o_rsize (o_reps (last (trace 2 (init 2 []) c16_fires) (obs0 2 2 []))) = [0; 20].
Proof. vm_compute. repeat split; reflexivity. Qed.
