(** * Ctl: the trace oracle of C07 (control half) accepts every trace of the model, and the model
    promotes a listed WO replica to RW only in VerifyRebuildReplica (or by the SetReplicaMode request) *)
From Coq Require Import List ZArith Bool Arith Lia.
From Jiva Require Import Ctl.Model Ctl.Corr Ctl.Oracles Ctl.Proofs Ctl.Props Ctl.RfConst Ctl.OracleProofs Ctl.OracleProofs2.
Import ListNotations.
Open Scope Z_scope.

(** ** small facts *)
Lemma mode_eqb_eq : forall a b, mode_eqb a b = true -> a = b.
Proof. intros [] []; cbn; intros H; try discriminate; reflexivity. Qed.

Lemma is_mode_in : forall l a m, is_mode l a m = true -> In (a, m) l.
Proof.
  intros l a m H. unfold is_mode in H. apply existsb_exists in H. destruct H as [[k v] [Hin Hk]].
  cbn in Hk. apply andb_prop in Hk. destruct Hk as [K1 K2]. apply Nat.eqb_eq in K1. apply mode_eqb_eq in K2.
  subst. exact Hin.
Qed.

Lemma rep_of_observe_ge : forall n s r e a, (n <= a)%nat -> rep_of (observe n s r e) a = None.
Proof.
  intros n s r e a H. unfold rep_of, observe. cbn [o_reps]. apply nth_error_None.
  rewrite map_length, seq_length. exact H.
Qed.

Lemma find_rw_head : forall l r0 m0, find (fun p => is_rw (snd p)) l = Some (r0, m0) -> exists t, rw_of l = r0 :: t.
Proof.
  unfold rw_of. induction l as [|[k v] t IH]; intros r0 m0 H; cbn in *; [discriminate|].
  destruct (is_rw v).
  - inversion H; subst. cbn. eexists. reflexivity.
  - apply (IH _ _ H).
Qed.

(** ** VerifyRebuildReplica: unless it answers ok, the replica list is unchanged *)
Lemma verify_not_ok_keeps_replicas : forall s a fs,
  snd (do_verify s a fs) <> ROk -> replicas (fst (do_verify s a fs)) = replicas s.
Proof.
  intros s a fs. unfold do_verify.
  destruct (aget (replicas s) a) as [m|]; [|reflexivity].
  destruct (find (fun p => is_rw (snd p)) (replicas s)) as [[r0 m0]|]; [|destruct m; reflexivity].
  destruct m; try reflexivity.
  destruct (flt fs r0 KHttp || flt fs a KHttp); [reflexivity|].
  match goal with |- context [match ?K with Some k => _ | None => _ end] => destruct K as [k|] end; [|reflexivity].
  destruct (Nat.ltb (length (f_chain (wget (w s) a))) k); [reflexivity|].
  destruct (negb (list_eqb _ _)); [reflexivity|].
  destruct (negb (amem (backends s) r0) || flt fs r0 KRev); [reflexivity|].
  destruct (negb (amem (backends s) a) || flt fs a KSetModeRW); [reflexivity|].
  destruct (flt fs a KSetRev); [reflexivity|].
  cbn [snd]. intros H. contradiction.
Qed.

(** whatever it answers, the list is the old one, possibly with [a] set to RW *)
Lemma verify_replicas : forall s a fs,
  replicas (fst (do_verify s a fs)) = replicas s
  \/ replicas (fst (do_verify s a fs)) = map (setm a RW) (replicas s).
Proof.
  intros s a fs. unfold do_verify.
  destruct (aget (replicas s) a) as [m|]; [|left; reflexivity].
  destruct (find (fun p => is_rw (snd p)) (replicas s)) as [[r0 m0]|]; [|destruct m; left; reflexivity].
  destruct m; try (left; reflexivity).
  destruct (flt fs r0 KHttp || flt fs a KHttp); [left; reflexivity|].
  match goal with |- context [match ?K with Some k => _ | None => _ end] => destruct K as [k|] end; [|left; reflexivity].
  destruct (Nat.ltb (length (f_chain (wget (w s) a))) k); [left; reflexivity|].
  destruct (negb (list_eqb _ _)); [left; reflexivity|].
  destruct (negb (amem (backends s) r0) || flt fs r0 KRev); [left; reflexivity|].
  destruct (negb (amem (backends s) a) || flt fs a KSetModeRW); [left; reflexivity|].
  destruct (flt fs a KSetRev); [left; reflexivity|].
  cbn [fst].
  match goal with |- context [update_checkpoint ?X fs] => destruct (sst_update_checkpoint X fs) as [Q _]; rewrite Q end.
  cbn [replicas update_vol_status upd_status].
  match goal with |- context [set_mode_nolock ?X a RW] => destruct (replicas_set_mode X a RW) as [R|R]; rewrite R end;
    [left|right]; reflexivity.
Qed.

(** ** the step lemma *)
Lemma c07_step_model : forall rf0 n s e r0 ef0 r0',
  struct_ok s ->
  c07_step rf0 (with_res1 (observe n s r0 ef0) r0') e
           (observe n (fst (fst (step s e))) (snd (fst (step s e))) (snd (step s e))) = true.
Proof.
  intros rf0 n s e r0 ef0 r0' H. destruct e; try reflexivity.
  cbn [step]. unfold c07_step. cbn [o_replicas observe with_res1].
  destruct (do_verify s a fs) as [s' r] eqn:Ev. cbn [fst snd].
  destruct (is_mode (replicas s) a WO) eqn:Ewo; [|reflexivity].
  destruct (is_mode (replicas s') a RW) eqn:Erw; [|reflexivity]. cbn [andb].
  apply is_mode_in in Ewo. apply is_mode_in in Erw.
  pose proof (aget_in_nodup _ _ _ (st_nodup s H) Ewo) as Gwo.
  (* the answer is ok: otherwise the list is unchanged and a is still WO *)
  assert (Hr : r = ROk).
  { destruct (res_eqb r ROk) eqn:E; [destruct r; cbn in E; try discriminate; reflexivity|].
    exfalso. pose proof (verify_not_ok_keeps_replicas s a fs) as K. rewrite Ev in K. cbn [fst snd] in K.
    rewrite K in Erw by (intro X; subst r; discriminate).
    pose proof (aget_in_nodup _ _ _ (st_nodup s H) Erw) as Grw. congruence. }
  subst r. unfold is_ack. cbn [o_res observe res_class res_eqb andb].
  destruct (verify_promotes_after_check s a fs s' Gwo Ev) as [x0 [m0 [k [Hf [Hk [Hfirst [Hcp [Hrev _]]]]]]]].
  destruct (find_rw_head _ _ _ Hf) as [t Ht]. rewrite Ht.
  rewrite !rep_of_with_res1.
  destruct (Nat.ltb x0 n) eqn:Ex0; [apply Nat.ltb_lt in Ex0|apply Nat.ltb_ge in Ex0; rewrite rep_of_observe_ge by exact Ex0; reflexivity].
  rewrite (rep_of_observe n s r0 ef0 x0 Ex0).
  destruct (Nat.ltb a n) eqn:Ea; [apply Nat.ltb_lt in Ea|apply Nat.ltb_ge in Ea; rewrite !rep_of_observe_ge by exact Ea; reflexivity].
  rewrite !rep_of_observe by exact Ea.
  cbn [o_rev o_cp o_chain observe_rep].
  rewrite Hrev, Z.eqb_refl. cbn [andb].
  assert (K : match f_cp (wget (w s) a) with
              | None => Some (length (f_chain (wget (w s) x0)))
              | Some c => match index_of (f_chain (wget (w s) x0)) c 0 with Some i => Some (S i) | None => None end
              end = Some k).
  { destruct (f_cp (wget (w s) a)) as [c|].
    - destruct Hcp as [i [Hi Hki]]. rewrite Hi, Hki. reflexivity.
    - rewrite Hcp. reflexivity. }
  rewrite K. apply andb_true_intro. split; [apply Nat.leb_le; exact Hk|].
  rewrite Hfirst. apply lnat_eqb_refl.
Qed.

Theorem c07_oracle_model : forall es rf0 n w0, (1 <= rf0)%nat -> forallb ev_wf es = true ->
  walk (lift (c07_step rf0) nopair) 0 (obs0 rf0 n w0) (map One es) (trace n (init rf0 w0) (map One es)) = None.
Proof.
  intros es rf0 n w0 Hrf Hwf. unfold obs0.
  change (observe n (init rf0 w0) ROk noeff) with (with_res1 (observe n (init rf0 w0) ROk noeff) None).
  apply (walk_model (c07_step rf0) nopair struct_ok (fun s e => ev_wf e = true)).
  - intros s e Hs Hw. apply struct_step; assumption.
  - intros s e r0 ef0 r0' Hs _. apply c07_step_model; assumption.
  - apply struct_init. exact Hrf.
  - apply hist_ok_forallb. exact Hwf.
Qed.

(** ** where RW entries of the replica list come from *)
(** [rw_sub s t]: every RW entry of [t] is an RW entry of [s] *)
Definition rw_sub (s t : cst) : Prop := forall x, In (x, RW) (replicas t) -> In (x, RW) (replicas s).

Lemma rws_refl : forall s, rw_sub s s. Proof. intros s x H. exact H. Qed.
Lemma rws_trans : forall a b c, rw_sub a b -> rw_sub b c -> rw_sub a c.
Proof. intros a b c H1 H2 x H. apply H1. apply H2. exact H. Qed.
Lemma rws_eq : forall s t, replicas t = replicas s -> rw_sub s t.
Proof. intros s t R x H. rewrite R in H. exact H. Qed.
Lemma rws_sst : forall s t, same_struct_fields s t -> rw_sub s t.
Proof. intros s t [R _]. apply rws_eq. exact R. Qed.

Lemma rws_remove : forall s fs a, rw_sub s (remove_replica_nolock s fs a).
Proof. intros s fs a x H. eapply in_replicas_remove. exact H. Qed.
Lemma rws_set_mode_err : forall s a, rw_sub s (set_mode_nolock s a ERR).
Proof. intros s a x H. eapply in_replicas_set_mode_err; [exact H|discriminate]. Qed.
Lemma rws_handle_error : forall errs s, rw_sub s (fst (handle_error_nolock s errs)).
Proof. intros errs s x H. eapply in_replicas_handle_error; [exact H|discriminate]. Qed.
Lemma rws_detach : forall s fs errs, rw_sub s (detach s fs errs).
Proof. intros s fs errs x H. eapply detach_in; [exact H|discriminate]. Qed.

Lemma rws_can_add : forall s fs a, rw_sub s (fst (can_add s fs a)).
Proof.
  intros. unfold can_add. destruct (has_replica s a); [apply rws_refl|].
  destruct (find _ (replicas s)) as [[wo m]|]; [|apply rws_refl].
  destruct (negb _ || _ || _); [apply rws_refl|].
  destruct (_ <? _); [|apply rws_refl]. cbn [fst]. apply rws_remove.
Qed.

Lemma rws_add_replica_nolock : forall s fs a i b, rw_sub s (fst (add_replica_nolock s fs a i b)).
Proof.
  intros s fs a i b. unfold add_replica_nolock.
  pose proof (rws_can_add s fs a) as Hca. destruct (can_add s fs a) as [sc ok]. cbn [fst] in Hca.
  assert (Old : forall t, replicas t = replicas sc -> rw_sub s t).
  { intros t Ht. eapply rws_trans; [exact Hca|apply rws_eq; exact Ht]. }
  destruct (negb ok); [apply Old; reflexivity|].
  set (after := if b then _ else _).
  assert (Haf : match after with Some (s3, _) => replicas s3 = replicas sc | None => True end).
  { subst after. destruct b; [|reflexivity]. destruct (negb (remain_ok sc)); [reflexivity|].
    pose proof (sst_snapshot_all (upd_nsnap sc (S (nsnap sc))) fs (nsnap sc)) as [Q _].
    destruct (snapshot_all (upd_nsnap sc (S (nsnap sc))) fs (nsnap sc)) as [s2 errs]. cbn [fst] in Q.
    destruct errs; [destruct (flt fs a KSnap)|]; exact Q. }
  destruct after as [[s3 r]|]; [|apply Old; reflexivity].
  destruct r; try (cbn [fst]; apply Old; exact Haf).
  destruct (flt fs a KSetModeWO); [cbn [fst]; apply Old; exact Haf|].
  cbn [fst]. intros x Hx. cbn [replicas upd_mon upd_backends upd_replicas upd_rep upd_w] in Hx.
  apply in_app_or in Hx. destruct Hx as [Hx|[Hx|[]]]; [|discriminate].
  apply (Old s3 Haf x Hx).
Qed.

Lemma rws_read_main : forall s order fs, rw_sub s (fst (fst (read_main s order fs))).
Proof.
  intros. unfold read_main. destruct (negb (avail s)); [apply rws_refl|].
  destruct (negb (read_order_ok s order fs)); [apply rws_refl|]. cbv zeta.
  destruct (filter _ order) as [|e0 es]; [apply rws_refl|].
  pose proof (rws_detach s fs (e0 :: es)) as R. unfold detach in R.
  destruct (handle_error_nolock s (e0 :: es)) as [s2 sup]. exact R.
Qed.

Lemma in_setm_rw : forall l a x, In (x, RW) (map (setm a RW) l) -> x = a \/ In (x, RW) l.
Proof.
  intros l a x H. apply in_map_iff in H. destruct H as [q [Hq Hin]]. unfold setm in Hq.
  destruct (Nat.eqb (fst q) a) eqn:E.
  - inversion Hq. left. apply Nat.eqb_eq in E. congruence.
  - subst q. right. exact Hin.
Qed.

(** an RW entry after an event was an RW entry before it, except for the replica named by a verify
    or by a set-mode-RW request, and for a start on an empty list *)
Theorem rw_origin : forall s e x,
  In (x, RW) (replicas (fst (fst (step s e)))) ->
  In (x, RW) (replicas s)
  \/ match e with
     | Verify a _ => a = x
     | SetMode a RW => a = x
     | Start _ _ => replicas s = []
     | _ => False
     end.
Proof.
  intros s e x Hin.
  assert (G : forall t, rw_sub s t -> In (x, RW) (replicas t) -> In (x, RW) (replicas s) \/ False)
    by (intros t Ht Hx; left; apply Ht; exact Hx).
  destruct e; cbn [step] in Hin.
  - rewrite replicas_do_register in Hin. left. exact Hin.
  - unfold do_start in Hin. destruct addrs as [|a0 t]; [left; exact Hin|].
    destruct (replicas s) eqn:Er; [right; reflexivity|]. left. cbn [fst] in Hin. rewrite Er in Hin. exact Hin.
  - apply (G (fst (do_add_check s a fs))); [|destruct (do_add_check s a fs); exact Hin].
    unfold do_add_check. pose proof (rws_can_add s fs a) as Hc. destruct (can_add s fs a) as [s1 ok]. cbn [fst] in Hc.
    destruct (negb ok); [exact Hc|]. destruct (Nat.eqb (rf s1) (length (replicas s1))); exact Hc.
  - apply (G (fst (do_add_commit s a fs))); [|destruct (do_add_commit s a fs); exact Hin].
    unfold do_add_commit.
    destruct (negb (existsb (Nat.eqb a) (pend_adds s))); [apply rws_refl|].
    set (s0 := upd_pend_adds s _).
    destruct (create_backend s0 fs a) as [[s1 i]|] eqn:Hc; [|apply rws_eq; reflexivity].
    pose proof (struct_create_backend _ _ _ _ _ Hc) as [R1 _].
    assert (R0 : rw_sub s s1) by (apply rws_eq; exact R1).
    destruct (Nat.eqb (rf s1) (length (replicas s1))); [cbn [fst]; eapply rws_trans; [exact R0|apply rws_eq; reflexivity]|].
    pose proof (rws_add_replica_nolock s1 fs a i true) as R2.
    destruct (add_replica_nolock s1 fs a i true) as [s2 r]. cbn [fst] in R2.
    assert (R3 : rw_sub s s2) by (eapply rws_trans; eassumption).
    destruct r; cbn [fst]; try exact R3.
    eapply rws_trans; [exact R3|]. eapply rws_trans; [|apply rws_sst; apply sst_update_checkpoint].
    apply rws_sst. apply sst_update_vol_status.
  - assert (Hin' : In (x, RW) (replicas (fst (do_verify s a fs)))) by (destruct (do_verify s a fs); exact Hin).
    destruct (verify_replicas s a fs) as [R|R]; rewrite R in Hin'; [left; exact Hin'|].
    apply in_setm_rw in Hin'. destruct Hin' as [E|Hi]; [right; symmetry; exact E|left; exact Hi].
  - cbn [fst] in Hin. left. eapply in_replicas_remove. exact Hin.
  - destruct m; cbn [fst] in Hin.
    + left. exact Hin.
    + destruct (replicas_set_mode s a RW) as [R|R]; rewrite R in Hin; [left; exact Hin|].
      apply in_setm_rw in Hin. destruct Hin as [E|Hi]; [right; symmetry; exact E|left; exact Hi].
    + left. apply (rws_set_mode_err s a x Hin).
  - apply (G (fst (do_mon_fire s a fs))); [|destruct (do_mon_fire s a fs); exact Hin].
    unfold do_mon_fire. destruct (first_for (pend_mon s) (Nat.eqb a)) as [[i y]|]; [|apply rws_refl].
    cbn [fst]. eapply rws_trans; [apply rws_sst; apply sst_upd_mon|apply rws_remove].
  - apply (G (fst (do_mon_fail s a fs))); [|destruct (do_mon_fail s a fs); exact Hin].
    unfold do_mon_fail. destruct (first_for (rev (live_mon s)) (Nat.eqb a)) as [[i y]|]; [|apply rws_refl].
    cbn [fst]. eapply rws_trans; [apply rws_sst; apply sst_upd_mon|].
    eapply rws_trans; [apply rws_set_mode_err|apply rws_remove].
  - apply (G (fst (do_write s wid off len fs))); [|destruct (do_write s wid off len fs); exact Hin].
    destruct (ro s) eqn:Hro.
    { destruct (do_write_not_reached s wid off len fs (or_introl Hro)) as [X _]. rewrite X. apply rws_refl. }
    destruct ((off <? 0) || (csize s <? off + len)) eqn:Hr.
    { destruct (do_write_not_reached s wid off len fs (or_intror (or_introl Hr))) as [X _]. rewrite X. apply rws_refl. }
    destruct (avail s) eqn:Hav.
    2:{ destruct (do_write_not_reached s wid off len fs (or_intror (or_intror Hav))) as [X _]. rewrite X. apply rws_refl. }
    rewrite (do_write_unfold s wid off len fs Hro Hr Hav). cbn [fst].
    eapply rws_trans; [|apply rws_detach]. apply rws_eq. apply replicas_fanout.
  - apply (G (fst (do_sync s fs KSync))); [|destruct (do_sync s fs KSync); exact Hin].
    destruct (ro s) eqn:Hro.
    { destruct (do_sync_not_reached s fs KSync (or_introl Hro)) as [X _]. rewrite X. apply rws_refl. }
    destruct (avail s) eqn:Hav.
    2:{ destruct (do_sync_not_reached s fs KSync (or_intror Hav)) as [X _]. rewrite X. apply rws_refl. }
    rewrite (do_sync_unfold s fs KSync Hro Hav). cbn [fst]. apply rws_detach.
  - apply (G (fst (do_sync s fs KUnmap))); [|destruct (do_sync s fs KUnmap); exact Hin].
    destruct (ro s) eqn:Hro.
    { destruct (do_sync_not_reached s fs KUnmap (or_introl Hro)) as [X _]. rewrite X. apply rws_refl. }
    destruct (avail s) eqn:Hav.
    2:{ destruct (do_sync_not_reached s fs KUnmap (or_intror Hav)) as [X _]. rewrite X. apply rws_refl. }
    rewrite (do_sync_unfold s fs KUnmap Hro Hav). cbn [fst]. apply rws_detach.
  - apply (G (fst (fst (do_read s off len order fs)))); [|exact Hin].
    rewrite do_read_unfold. destruct (_ || _); [apply rws_refl|].
    pose proof (rws_read_main s order fs) as K.
    destruct (replicas s) as [|[a0 m0] t]; [apply rws_refl|]. destruct m0; destruct t; try exact K; apply rws_refl.
  - apply (G (fst (do_snapshot s name fs))); [|destruct (do_snapshot s name fs); exact Hin].
    unfold do_snapshot. destruct (negb (Nat.eqb (rwc s) (rf s))); [apply rws_refl|].
    destruct (Nat.eqb (length (backends s)) 0); [apply rws_refl|].
    destruct (negb (remain_ok s)); [apply rws_refl|].
    destruct (last_rw s) as [r0|]; [|apply rws_refl].
    destruct (flt fs r0 KHttp); [apply rws_refl|].
    destruct (existsb (Nat.eqb name) (f_chain (wget (w s) r0))); [apply rws_refl|].
    pose proof (sst_snapshot_all s fs name) as Hs.
    destruct (snapshot_all s fs name) as [s1 errs]. cbn [fst] in Hs.
    destruct errs as [|e0 es]; [apply rws_sst; exact Hs|].
    pose proof (rws_handle_error (e0 :: es) s1) as K2.
    destruct (handle_error_nolock s1 (e0 :: es)) as [s2 sup]. cbn [fst] in *.
    eapply rws_trans; [apply rws_sst; exact Hs|exact K2].
  - apply (G (fst (do_resize s newsize fs))); [|destruct (do_resize s newsize fs); exact Hin].
    unfold do_resize. destruct (newsize <? csize s); [apply rws_refl|]. destruct (newsize =? csize s); [apply rws_refl|].
    set (s1 := fold_left _ (writers s) s).
    assert (K1 : rw_sub s s1).
    { apply rws_sst. subst s1. apply sst_fold_left. intros t y. destruct (flt fs y KResize); [apply sst_refl|apply sst_upd_rep]. }
    set (errs := filter (fun a => flt fs a KResize) (writers s)).
    assert (K2 : rw_sub s (fst (match errs with
                               | [] => (s1, false)
                               | _ => let '(s2, suppressed) := handle_error_nolock s1 errs in (s2, negb suppressed)
                               end))).
    { destruct errs as [|e0 es]; [exact K1|].
      pose proof (rws_handle_error (e0 :: es) s1) as K3.
      destruct (handle_error_nolock s1 (e0 :: es)) as [s2 sup]. eapply rws_trans; [exact K1|exact K3]. }
    destruct (match errs with [] => (s1, false) | _ => _ end) as [s2 failed]. cbn [fst] in K2.
    destruct failed; [exact K2|]. destruct (flt fs 0%nat KFeResize); [exact K2|].
    eapply rws_trans; [exact K2|apply rws_sst; apply sst_upd_csize].
  - apply (G (fst (do_sync_data s a))); [|destruct (do_sync_data s a); exact Hin].
    unfold do_sync_data. destruct (aget (replicas s) a) as [[]|]; try apply rws_refl.
    destruct (find _ (replicas s)) as [[r0 m0]|]; [|apply rws_refl]. cbn [fst]. apply rws_sst. apply sst_upd_rep.
Qed.

(** a replica listed as WO becomes RW only at a verify of that replica or a set-mode-RW request
    (SetReplicaMode) naming it *)
Theorem promotion_only_by_verify : forall s e a, struct_ok s ->
  In (a, WO) (replicas s) -> In (a, RW) (replicas (fst (fst (step s e)))) ->
  match e with
  | Verify a' _ => a' = a
  | SetMode a' RW => a' = a
  | _ => False
  end.
Proof.
  intros s e a H Hwo Hrw.
  assert (Hno : ~ In (a, RW) (replicas s)).
  { intro X. pose proof (aget_in_nodup _ _ _ (st_nodup s H) X). pose proof (aget_in_nodup _ _ _ (st_nodup s H) Hwo). congruence. }
  destruct (rw_origin s e a Hrw) as [X|X]; [contradiction|].
  destruct e; try contradiction; try exact X.
  rewrite X in Hwo. contradiction.
Qed.

(** the same, on observations: the executable clause that could be added to the oracle *)
Lemma c07_only_verify_model : forall n s e r0 ef0 r0',
  struct_ok s ->
  c07_only_verify (with_res1 (observe n s r0 ef0) r0') e
                  (observe n (fst (fst (step s e))) (snd (fst (step s e))) (snd (step s e))) = true.
Proof.
  intros n s e r0 ef0 r0' H. unfold c07_only_verify. cbn [o_replicas observe with_res1].
  apply forallb_forall. intros [x m] Hp. cbn [fst snd].
  destruct (is_mode (replicas s) x WO) eqn:Ewo; [|reflexivity].
  destruct (mode_eqb m RW) eqn:Em; [|reflexivity]. cbn [andb].
  apply mode_eqb_eq in Em. subst m. apply is_mode_in in Ewo.
  pose proof (promotion_only_by_verify s e x H Ewo Hp) as G.
  destruct e; try contradiction; try (subst; apply Nat.eqb_refl).
  destruct m; try contradiction. subst. apply Nat.eqb_refl.
Qed.

Theorem c07_only_verify_oracle_model : forall es rf0 n w0, (1 <= rf0)%nat -> forallb ev_wf es = true ->
  walk (lift (fun prev e cur => c07_step rf0 prev e cur && c07_only_verify prev e cur) nopair) 0
       (obs0 rf0 n w0) (map One es) (trace n (init rf0 w0) (map One es)) = None.
Proof.
  intros es rf0 n w0 Hrf Hwf. unfold obs0.
  change (observe n (init rf0 w0) ROk noeff) with (with_res1 (observe n (init rf0 w0) ROk noeff) None).
  apply (walk_model (fun prev e cur => c07_step rf0 prev e cur && c07_only_verify prev e cur) nopair
           struct_ok (fun s e => ev_wf e = true)).
  - intros s e Hs Hw. apply struct_step; assumption.
  - intros s e r0 ef0 r0' Hs _. rewrite c07_step_model by assumption. rewrite c07_only_verify_model by assumption. reflexivity.
  - apply struct_init. exact Hrf.
  - apply hist_ok_forallb. exact Hwf.
Qed.

(** ** non-vacuity: a history on which verify promotes the rebuilt replica (the checked branch of the
    oracle is exercised), and the other way a WO replica becomes RW in the model: the set-mode request
    (Controller.SetReplicaMode), which compares nothing *)
Definition c07_promote : list event :=
  [Register 0%nat 1%nat 1 false None []; Register 1%nat 2%nat 1 false None []; Start [0%nat] [];
   AddCheck 1%nat []; AddCommit 1%nat []; SyncData 1%nat; Verify 1%nat []].
Example c07_promotion_reached :
  map o_replicas (trace 2 (init 2 []) (map One c07_promote))
  = [[]; []; [(0%nat, RW)]; [(0%nat, RW)]; [(0%nat, RW); (1%nat, WO)]; [(0%nat, RW); (1%nat, WO)]; [(0%nat, RW); (1%nat, RW)]]
  /\ walk (lift (c07_step 2) nopair) 0 (obs0 2 2 []) (map One c07_promote) (trace 2 (init 2 []) (map One c07_promote)) = None.
Proof. vm_compute. split; reflexivity. Qed.

Definition c07_setmode : list event :=
  [Register 0%nat 1%nat 1 false None []; Register 1%nat 2%nat 1 false None []; Start [0%nat] [];
   AddCheck 1%nat []; AddCommit 1%nat []; SetMode 1%nat RW].
Example c07_setmode_promotes_unchecked :
  map o_replicas (trace 2 (init 2 []) (map One c07_setmode))
  = [[]; []; [(0%nat, RW)]; [(0%nat, RW)]; [(0%nat, RW); (1%nat, WO)]; [(0%nat, RW); (1%nat, RW)]].
Proof. vm_compute. reflexivity. Qed.
