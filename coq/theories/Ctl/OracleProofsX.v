(** * Ctl: the oracle-on-model theorems for histories with concurrent pairs — generic part.
    [xstep s (Two a b)] is [step] on [a] then on [b]; the observation is taken after both, carries the
    class of [a]'s result in [o_res1], the signals of both and the read served by [b].  The induction
    lemmas below take the single-request step lemma and a lemma about the pair rule. *)
From Coq Require Import List ZArith Bool Arith Lia.
From Jiva Require Import Ctl.Model Ctl.Corr Ctl.Oracles Ctl.Proofs Ctl.Props Ctl.RfConst Ctl.OracleProofs Ctl.OracleProofs2.
Import ListNotations.
Open Scope Z_scope.

(** ** well-formedness of extended events, flattening *)
Definition xev_wf (x : xevent) : bool :=
  match x with One e => ev_wf e | Two a b => ev_wf a && ev_wf b end.
Definition xev_addrs_lt (n : nat) (x : xevent) : bool :=
  match x with One e => ev_addrs_lt n e | Two a b => ev_addrs_lt n a && ev_addrs_lt n b end.
Definition xflat (x : xevent) : list event :=
  match x with One e => [e] | Two a b => [a; b] end.
(** the requests of a history in the order in which the controller lock serialises them *)
Definition flatten (xs : list xevent) : list event := flat_map xflat xs.

Lemma flatten_cons_one : forall e t, flatten (One e :: t) = e :: flatten t.
Proof. reflexivity. Qed.
Lemma flatten_cons_two : forall a b t, flatten (Two a b :: t) = a :: b :: flatten t.
Proof. reflexivity. Qed.
Lemma flatten_map_one : forall es, flatten (map One es) = es.
Proof. induction es as [|e t IH]; [reflexivity|]. cbn [map]. rewrite flatten_cons_one, IH. reflexivity. Qed.

Lemma forallb_flatten : forall (p : event -> bool) xs,
  forallb (fun x => match x with One e => p e | Two a b => p a && p b end) xs = true ->
  forallb p (flatten xs) = true.
Proof.
  intros p. induction xs as [|x t IH]; intros H; [reflexivity|].
  cbn [forallb] in H. apply andb_prop in H. destruct H as [H1 H2]. specialize (IH H2).
  destruct x as [e|a b].
  - rewrite flatten_cons_one. cbn [forallb]. rewrite H1, IH. reflexivity.
  - rewrite flatten_cons_two. cbn [forallb]. apply andb_prop in H1. destruct H1 as [Ha Hb]. rewrite Ha, Hb, IH. reflexivity.
Qed.

Lemma xev_wf_flatten : forall xs, forallb xev_wf xs = true -> forallb ev_wf (flatten xs) = true.
Proof. intros xs H. apply forallb_flatten. exact H. Qed.
Lemma xev_addrs_lt_flatten : forall n xs, forallb (xev_addrs_lt n) xs = true -> forallb (ev_addrs_lt n) (flatten xs) = true.
Proof. intros n xs H. apply forallb_flatten. exact H. Qed.

(** ** the observation of a pair *)
Definition pair_state (s : cst) (a b : event) : cst := fst (fst (step (fst (fst (step s a))) b)).

Definition pair_obs (n : nat) (s : cst) (a b : event) : obs :=
  let s1 := fst (fst (step s a)) in
  with_res1
    (observe n (fst (fst (step s1 b))) (snd (fst (step s1 b)))
       (mkeff (e_signals (snd (step s a)) ++ e_signals (snd (step s1 b))) (e_served (snd (step s1 b)))))
    (Some (res_class (snd (fst (step s a))))).

Lemma trace_cons_one : forall n s e t,
  trace n s (One e :: t) =
  observe n (fst (fst (step s e))) (snd (fst (step s e))) (snd (step s e)) :: trace n (fst (fst (step s e))) t.
Proof. intros. cbn [trace xstep]. destruct (step s e) as [[s1 r] ef]. reflexivity. Qed.

Lemma trace_cons_two : forall n s a b t,
  trace n s (Two a b :: t) = pair_obs n s a b :: trace n (pair_state s a b) t.
Proof.
  intros. unfold pair_obs, pair_state. cbn [trace xstep].
  destruct (step s a) as [[s1 r1] f1]. cbn [fst snd]. destruct (step s1 b) as [[s2 r2] f2]. reflexivity.
Qed.

(** the observation of a pair is an observation of the final state with some result / effect / first result *)
Lemma pair_obs_shape : forall n s a b, exists r ef r1,
  pair_obs n s a b = with_res1 (observe n (pair_state s a b) r ef) r1.
Proof. intros. unfold pair_obs, pair_state. eexists. eexists. eexists. reflexivity. Qed.

(** ** the generic induction for [walk] *)
Lemma walk_model_x : forall (f : obs -> event -> obs -> bool) (pf : obs -> event -> event -> obs -> bool)
  (Inv : cst -> Prop) (P : cst -> event -> Prop) n,
  (forall s e, Inv s -> P s e -> Inv (fst (fst (step s e)))) ->
  (forall s e r0 ef0 r0', Inv s -> P s e ->
     f (with_res1 (observe n s r0 ef0) r0') e
       (observe n (fst (fst (step s e))) (snd (fst (step s e))) (snd (step s e))) = true) ->
  (forall s a b r0 ef0 r0', Inv s -> P s a -> P (fst (fst (step s a))) b ->
     pf (with_res1 (observe n s r0 ef0) r0') a b (pair_obs n s a b) = true) ->
  forall xs s r0 ef0 r0' i, Inv s -> hist_ok P s (flatten xs) ->
  walk (lift f pf) i (with_res1 (observe n s r0 ef0) r0') xs (trace n s xs) = None.
Proof.
  intros f pf Inv P n Hpres Hstep Hpair.
  induction xs as [|x t IH]; intros s r0 ef0 r0' i Hinv Hh; [reflexivity|].
  destruct x as [e|a b].
  - rewrite flatten_cons_one in Hh. destruct Hh as [Hp Ht].
    rewrite trace_cons_one. cbn [walk lift].
    rewrite (Hstep s e r0 ef0 r0' Hinv Hp).
    change (observe n (fst (fst (step s e))) (snd (fst (step s e))) (snd (step s e)))
      with (with_res1 (observe n (fst (fst (step s e))) (snd (fst (step s e))) (snd (step s e))) None).
    apply IH; [apply Hpres; assumption|exact Ht].
  - rewrite flatten_cons_two in Hh. destruct Hh as [Pa [Pb Ht]].
    rewrite trace_cons_two. cbn [walk lift].
    rewrite (Hpair s a b r0 ef0 r0' Hinv Pa Pb).
    destruct (pair_obs_shape n s a b) as [r [ef [r1 E]]]. rewrite E.
    apply IH; [|exact Ht]. unfold pair_state. apply Hpres; [apply Hpres; assumption|exact Pb].
Qed.

(** ** the same for [walk_q] (the quiescence flags are an arbitrary list) *)
Lemma walk_q_model_x : forall (f : bool -> obs -> event -> obs -> bool) (pf : bool -> obs -> event -> event -> obs -> bool)
  (Inv : cst -> Prop) (P : cst -> event -> Prop) n,
  (forall s e, Inv s -> P s e -> Inv (fst (fst (step s e)))) ->
  (forall q s e r0 ef0 r0', Inv s -> P s e ->
     f q (with_res1 (observe n s r0 ef0) r0') e
       (observe n (fst (fst (step s e))) (snd (fst (step s e))) (snd (step s e))) = true) ->
  (forall q s a b r0 ef0 r0', Inv s -> P s a -> P (fst (fst (step s a))) b ->
     pf q (with_res1 (observe n s r0 ef0) r0') a b (pair_obs n s a b) = true) ->
  forall xs qs s r0 ef0 r0' i, Inv s -> hist_ok P s (flatten xs) ->
  walk_q (fun q => lift (f q) (pf q)) i (with_res1 (observe n s r0 ef0) r0') xs (trace n s xs) qs = None.
Proof.
  intros f pf Inv P n Hpres Hstep Hpair.
  induction xs as [|x t IH]; intros qs s r0 ef0 r0' i Hinv Hh; [reflexivity|].
  destruct x as [e|a b].
  - rewrite flatten_cons_one in Hh. destruct Hh as [Hp Ht].
    rewrite trace_cons_one. destruct qs as [|q qs]; [reflexivity|]. cbn [walk_q lift].
    rewrite (Hstep q s e r0 ef0 r0' Hinv Hp).
    change (observe n (fst (fst (step s e))) (snd (fst (step s e))) (snd (step s e)))
      with (with_res1 (observe n (fst (fst (step s e))) (snd (fst (step s e))) (snd (step s e))) None).
    apply IH; [apply Hpres; assumption|exact Ht].
  - rewrite flatten_cons_two in Hh. destruct Hh as [Pa [Pb Ht]].
    rewrite trace_cons_two. destruct qs as [|q qs]; [reflexivity|]. cbn [walk_q lift].
    rewrite (Hpair q s a b r0 ef0 r0' Hinv Pa Pb).
    destruct (pair_obs_shape n s a b) as [r [ef [r1 E]]]. rewrite E.
    apply IH; [|exact Ht]. unfold pair_state. apply Hpres; [apply Hpres; assumption|exact Pb].
Qed.

(** ** the same for [walk_g] (the registration memory sees both requests of a pair, in order) *)
Lemma walk_g_model_x : forall (f : regs -> obs -> event -> obs -> bool) (pf : regs -> obs -> event -> event -> obs -> bool)
  (Inv : regs -> cst -> Prop) (P : regs -> cst -> event -> Prop) n,
  (forall g s e, Inv g s -> P g s e -> Inv (regs_upd g e) (fst (fst (step s e)))) ->
  (forall g s e r0 ef0 r0', Inv g s -> P g s e ->
     f g (with_res1 (observe n s r0 ef0) r0') e
       (observe n (fst (fst (step s e))) (snd (fst (step s e))) (snd (step s e))) = true) ->
  (forall g s a b r0 ef0 r0', Inv g s -> P g s a -> P (regs_upd g a) (fst (fst (step s a))) b ->
     pf g (with_res1 (observe n s r0 ef0) r0') a b (pair_obs n s a b) = true) ->
  forall xs g s r0 ef0 r0' i, Inv g s -> hist_ok_g P g s (flatten xs) ->
  walk_g (fun g => lift (f g) (pf g)) i g (with_res1 (observe n s r0 ef0) r0') xs (trace n s xs) = None.
Proof.
  intros f pf Inv P n Hpres Hstep Hpair.
  induction xs as [|x t IH]; intros g s r0 ef0 r0' i Hinv Hh; [reflexivity|].
  destruct x as [e|a b].
  - rewrite flatten_cons_one in Hh. destruct Hh as [Hp Ht].
    rewrite trace_cons_one. cbn [walk_g lift xregs_upd].
    rewrite (Hstep g s e r0 ef0 r0' Hinv Hp).
    change (observe n (fst (fst (step s e))) (snd (fst (step s e))) (snd (step s e)))
      with (with_res1 (observe n (fst (fst (step s e))) (snd (fst (step s e))) (snd (step s e))) None).
    apply IH; [apply Hpres; assumption|exact Ht].
  - rewrite flatten_cons_two in Hh. destruct Hh as [Pa [Pb Ht]].
    rewrite trace_cons_two. cbn [walk_g lift xregs_upd].
    rewrite (Hpair g s a b r0 ef0 r0' Hinv Pa Pb).
    destruct (pair_obs_shape n s a b) as [r [ef [r1 E]]]. rewrite E.
    apply IH; [|exact Ht]. unfold pair_state. apply Hpres; [apply Hpres; assumption|exact Pb].
Qed.

(** ** boolean hypotheses on the extended history give [hist_ok] on the flattened one *)
Lemma hist_ok_x_forallb : forall (p : event -> bool) xs s,
  forallb (fun x => match x with One e => p e | Two a b => p a && p b end) xs = true ->
  hist_ok (fun _ e => p e = true) s (flatten xs).
Proof. intros p xs s H. apply hist_ok_forallb. apply forallb_flatten. exact H. Qed.

Lemma hist_ok_xev_wf : forall xs s, forallb xev_wf xs = true -> hist_ok (fun _ e => ev_wf e = true) s (flatten xs).
Proof. intros xs s H. apply hist_ok_forallb. apply xev_wf_flatten. exact H. Qed.

Lemma hist_ok_xev_addrs_lt : forall n xs s, forallb (xev_addrs_lt n) xs = true ->
  hist_ok (fun _ e => ev_addrs_lt n e = true) s (flatten xs).
Proof. intros n xs s H. apply hist_ok_forallb. apply xev_addrs_lt_flatten. exact H. Qed.
