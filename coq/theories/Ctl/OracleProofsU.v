(** * Ctl: the second C09 oracle ([c09u_step], one registration per UUID) accepts every trace of the
    model, with and without concurrent pairs.
    registerReplica (controller/control.go) first deletes every other address registered with the
    UUID of the request, then stores the record; everything after that only deletes registrations. *)
From Coq Require Import List ZArith Bool Arith Lia.
From Jiva Require Import Ctl.Model Ctl.Corr Ctl.Oracles Ctl.Proofs Ctl.Props Ctl.RfConst Ctl.OracleProofs
  Ctl.OracleProofs2 Ctl.OracleProofsX.
Import ListNotations.
Open Scope Z_scope.

(** ** the UUID memory follows the model *)
Record uid_inv (t : uids) (s : cst) : Prop := mkuidinv {
  (* the memory holds the UUID of every registered address *)
  ui_reg : forall x r, In (x, r) (registered s) -> aget t x = Some (rg_uuid r);
  (* two different registered addresses carry different UUIDs *)
  ui_one : forall x r y r', In (x, r) (registered s) -> In (y, r') (registered s) -> x <> y ->
             rg_uuid r <> rg_uuid r';
  (* the empty UUID is never registered *)
  ui_nz  : forall x r, In (x, r) (registered s) -> rg_uuid r <> 0%nat
}.

Lemma uid_inv_init : forall rf0 w0, uid_inv [] (init rf0 w0).
Proof. intros. constructor; cbn; intros; contradiction. Qed.

Lemma uid_inv_incl : forall t s s', incl (registered s') (registered s) -> uid_inv t s -> uid_inv t s'.
Proof.
  intros t s s' I [A B C]. constructor.
  - intros x r Hx. apply A. apply I. exact Hx.
  - intros x r y r' Hx Hy. apply B; apply I; assumption.
  - intros x r Hx. eapply C. apply I. exact Hx.
Qed.

(** the registrations after the first two statements of registerReplica *)
Lemma in_reg_s1 : forall s a u rev reb x r, struct_ok s ->
  In (x, r) (registered (reg_s1 s a u rev reb)) ->
  (x = a /\ r = mkrrec u rev reb) \/ (In (x, r) (registered s) /\ x <> a /\ rg_uuid r <> u).
Proof.
  intros s a u rev reb x r H Hx. unfold reg_s1 in Hx. cbn [registered upd_registered] in Hx.
  apply in_aset_nodup in Hx; [|apply nodup_filter_keys; exact (st_reg s H)].
  destruct Hx as [Hx|[Hx Hne]].
  - inversion Hx; subst. left. split; reflexivity.
  - cbn [fst] in Hne. apply filter_In in Hx. destruct Hx as [Hin Hf]. cbn [fst snd] in Hf.
    right. split; [exact Hin|]. split; [exact Hne|].
    apply Nat.eqb_neq in Hne. rewrite Hne in Hf. cbn [negb] in Hf. rewrite andb_true_r in Hf.
    apply negb_true_iff in Hf. apply Nat.eqb_neq. exact Hf.
Qed.

Lemma uid_inv_s1 : forall t s a u rev reb, struct_ok s -> uid_inv t s -> Nat.eqb u 0 = false ->
  uid_inv (aset t a u) (reg_s1 s a u rev reb).
Proof.
  intros t s a u rev reb H [A B C] Hu. constructor.
  - intros x r Hx. apply in_reg_s1 in Hx; [|exact H]. rewrite aget_aset.
    destruct Hx as [[Hx Hr]|[Hin [Hne _]]].
    + subst. rewrite Nat.eqb_refl. reflexivity.
    + assert (E : Nat.eqb a x = false) by (apply Nat.eqb_neq; intro E; apply Hne; symmetry; exact E).
      rewrite E. apply A. exact Hin.
  - intros x r y r' Hx Hy Hxy.
    apply in_reg_s1 in Hx; [|exact H]. apply in_reg_s1 in Hy; [|exact H].
    destruct Hx as [[Hx Hr]|[Hinx [Hnx Hux]]]; destruct Hy as [[Hy Hr']|[Hiny [Hny Huy]]].
    + subst. exfalso. apply Hxy. reflexivity.
    + subst. cbn [rg_uuid]. intro E. apply Huy. symmetry. exact E.
    + subst. cbn [rg_uuid]. exact Hux.
    + eapply B; eassumption.
  - intros x r Hx. apply in_reg_s1 in Hx; [|exact H].
    destruct Hx as [[Hx Hr]|[Hin _]].
    + subst. cbn [rg_uuid]. apply Nat.eqb_neq. exact Hu.
    + eapply C. exact Hin.
Qed.

Lemma uid_inv_step : forall t s e, struct_ok s -> uid_inv t s ->
  uid_inv (uids_upd t e) (fst (fst (step s e))).
Proof.
  intros t s e H Hi.
  assert (Other : (match e with Register _ _ _ _ _ _ => False | _ => True end) -> uids_upd t e = t ->
                  uid_inv (uids_upd t e) (fst (fst (step s e)))).
  { intros He Ht. rewrite Ht. eapply uid_inv_incl; [|exact Hi]. exact (proj2 (rs_step s e He)). }
  destruct e; try (apply Other; [exact I|reflexivity]).
  cbn [step uids_upd]. destruct (Nat.eqb uuid 0) eqn:Hu.
  { rewrite do_register_unfold, Hu. exact Hi. }
  destruct (do_register_spec s a uuid rev rebuilding pick fs H Hu) as [S1 _].
  eapply uid_inv_incl; [exact S1|]. apply uid_inv_s1; assumption.
Qed.

(** ** the oracle on one request: only the registered set of the observation matters, and the clause
    survives every later deletion of registrations *)
Lemma c09u_step_incl : forall t s e prev cur, struct_ok s -> uid_inv t s ->
  (forall x, In x (o_registered cur) -> In x (keys (registered (fst (fst (step s e)))))) ->
  c09u_step t prev e cur = true.
Proof.
  intros t s e prev cur H Hi Hcur. destruct e; try reflexivity.
  cbn [c09u_step]. destruct (Nat.eqb uuid 0) eqn:Hu; [reflexivity|].
  cbn [uids_upd]. rewrite Hu. apply forallb_forall. intros x Hx.
  apply Hcur in Hx. apply in_keys_inv in Hx. destruct Hx as [r Hr]. cbn [step] in Hr.
  destruct (do_register_spec s a uuid rev rebuilding pick fs H Hu) as [S1 _].
  apply S1 in Hr. apply in_reg_s1 in Hr; [|exact H].
  destruct Hr as [[Hx _]|[Hin [Hne Hur]]].
  - subst. rewrite Nat.eqb_refl. reflexivity.
  - rewrite aget_aset.
    assert (E : Nat.eqb a x = false) by (apply Nat.eqb_neq; intro E; apply Hne; symmetry; exact E).
    rewrite E. rewrite (ui_reg _ _ Hi x r Hin).
    apply Nat.eqb_neq in Hur. rewrite Hur. apply orb_true_r.
Qed.

Lemma c09u_step_model : forall n t s e prev, struct_ok s -> uid_inv t s ->
  c09u_step t prev e (observe n (fst (fst (step s e))) (snd (fst (step s e))) (snd (step s e))) = true.
Proof.
  intros n t s e prev H Hi. apply (c09u_step_incl t s e); [exact H|exact Hi|].
  intros x Hx. cbn [o_registered observe] in Hx. apply (proj1 (in_sort _ _)) in Hx. exact Hx.
Qed.

(** ** the oracle on a pair *)
Lemma c09u_pair_model : forall n t s a b prev, struct_ok s -> ev_wf a = true -> uid_inv t s ->
  liftu t prev (Two a b) (pair_obs n s a b) = true.
Proof.
  intros n t s a b prev H Hwa Hi.
  set (s1 := fst (fst (step s a))).
  assert (H1 : struct_ok s1) by (apply struct_step; assumption).
  assert (Hi1 : uid_inv (uids_upd t a) s1) by (apply uid_inv_step; assumption).
  assert (Obs : forall x, In x (o_registered (pair_obs n s a b)) -> In x (keys (registered (fst (fst (step s1 b)))))).
  { intros x Hx. unfold pair_obs in Hx. cbn [o_registered with_res1 observe] in Hx.
    apply (proj1 (in_sort _ _)) in Hx. exact Hx. }
  (* the second request deletes registrations at most: the clause of the first one is still visible *)
  assert (First : incl (registered (fst (fst (step s1 b)))) (registered s1) ->
                  c09u_step t prev a (pair_obs n s a b) = true).
  { intros I2. apply (c09u_step_incl t s a); [exact H|exact Hi|].
    intros x Hx. apply Obs in Hx. apply in_keys_inv in Hx. destruct Hx as [r Hr].
    apply I2 in Hr. eapply in_keys. exact Hr. }
  cbn [liftu].
  destruct b;
    try (match goal with |- c09u_step _ _ _ (pair_obs _ _ _ ?b0) = true =>
           apply First; exact (proj2 (rs_step s1 b0 I)) end).
  destruct (Nat.eqb uuid 0) eqn:Hu.
  - apply First. cbn [step]. rewrite do_register_unfold, Hu. apply incl_refl.
  - apply (c09u_step_incl (uids_upd t a) s1); [exact H1|exact Hi1|exact Obs].
Qed.

(** ** the induction, with the UUID memory threaded; a pair is two serialised steps *)
Lemma walk_u_model_x : forall (Inv : uids -> cst -> Prop) (P : cst -> event -> Prop) n,
  (forall t s e, Inv t s -> P s e -> Inv (uids_upd t e) (fst (fst (step s e)))) ->
  (forall t s e prev, Inv t s -> P s e ->
     c09u_step t prev e (observe n (fst (fst (step s e))) (snd (fst (step s e))) (snd (step s e))) = true) ->
  (forall t s a b prev, Inv t s -> P s a -> P (fst (fst (step s a))) b ->
     liftu t prev (Two a b) (pair_obs n s a b) = true) ->
  forall xs t s prev i, Inv t s -> hist_ok P s (flatten xs) ->
  walk_u liftu i t prev xs (trace n s xs) = None.
Proof.
  intros Inv P n Hpres Hstep Hpair.
  induction xs as [|x r IH]; intros t s prev i Hinv Hh; [reflexivity|].
  destruct x as [e|a b].
  - rewrite flatten_cons_one in Hh. destruct Hh as [Hp Ht].
    rewrite trace_cons_one. cbn [walk_u xuids_upd].
    change (liftu t prev (One e)) with (c09u_step t prev e).
    rewrite (Hstep t s e prev Hinv Hp).
    apply IH; [apply Hpres; assumption|exact Ht].
  - rewrite flatten_cons_two in Hh. destruct Hh as [Pa [Pb Ht]].
    rewrite trace_cons_two. cbn [walk_u xuids_upd].
    rewrite (Hpair t s a b prev Hinv Pa Pb).
    apply IH; [|exact Ht]. unfold pair_state. apply Hpres; [apply Hpres; assumption|exact Pb].
Qed.

Theorem c09u_oracle_model_x : forall xs rf0 n w0, (1 <= rf0)%nat -> forallb xev_wf xs = true ->
  walk_u liftu 0 [] (obs0 rf0 n w0) xs (trace n (init rf0 w0) xs) = None.
Proof.
  intros xs rf0 n w0 Hrf Hwf.
  apply (walk_u_model_x (fun t s => struct_ok s /\ uid_inv t s) (fun _ e => ev_wf e = true)).
  - intros t s e [Hs Hi] Hw. split; [apply struct_step; assumption|apply uid_inv_step; assumption].
  - intros t s e prev [Hs Hi] _. apply c09u_step_model; assumption.
  - intros t s a b prev [Hs Hi] Hw _. apply c09u_pair_model; assumption.
  - split; [apply struct_init; exact Hrf|apply uid_inv_init].
  - apply hist_ok_xev_wf. exact Hwf.
Qed.

Theorem c09u_oracle_model : forall es rf0 n w0, (1 <= rf0)%nat -> forallb ev_wf es = true ->
  walk_u liftu 0 [] (obs0 rf0 n w0) (map One es) (trace n (init rf0 w0) (map One es)) = None.
Proof.
  intros es rf0 n w0 Hrf Hwf.
  apply (walk_u_model_x (fun t s => struct_ok s /\ uid_inv t s) (fun _ e => ev_wf e = true)).
  - intros t s e [Hs Hi] Hw. split; [apply struct_step; assumption|apply uid_inv_step; assumption].
  - intros t s e prev [Hs Hi] _. apply c09u_step_model; assumption.
  - intros t s a b prev [Hs Hi] Hw _. apply c09u_pair_model; assumption.
  - split; [apply struct_init; exact Hrf|apply uid_inv_init].
  - rewrite flatten_map_one. apply hist_ok_forallb. exact Hwf.
Qed.

(** ** the clause is about something *)
(** address 0 registers with UUID 5, the replica with UUID 7 registers at address 1 and then again at
    address 2: the model (as the controller) forgets address 1 *)
Definition c09u_moves : list event :=
  [Register 0%nat 5%nat 1 false None []; Register 1%nat 7%nat 1 false None []; Register 2%nat 7%nat 1 false None []].
Example c09u_older_registration_replaced :
  (1 <= 3)%nat /\ forallb ev_wf c09u_moves = true
  /\ map o_registered (trace 3 (init 3 []) (map One c09u_moves)) = [[0%nat]; [0%nat; 1%nat]; [0%nat; 2%nat]]
  /\ walk_u liftu 0 [] (obs0 3 3 []) (map One c09u_moves) (trace 3 (init 3 []) (map One c09u_moves)) = None.
Proof. vm_compute. repeat split; try reflexivity. lia. Qed.

(** the same with the two registrations of UUID 7 as a concurrent pair *)
Definition c09u_moves_pair : list xevent :=
  [One (Register 0%nat 5%nat 1 false None []);
   Two (Register 1%nat 7%nat 1 false None []) (Register 2%nat 7%nat 1 false None [])].
Example c09u_older_registration_replaced_in_a_pair :
  forallb xev_wf c09u_moves_pair = true
  /\ map o_registered (trace 3 (init 3 []) c09u_moves_pair) = [[0%nat]; [0%nat; 2%nat]]
  /\ walk_u liftu 0 [] (obs0 3 3 []) c09u_moves_pair (trace 3 (init 3 []) c09u_moves_pair) = None.
Proof. vm_compute. repeat split; reflexivity. Qed.

(** an observation in which both addresses of UUID 7 stay registered is rejected, at the third request *)
Definition c09u_both_stay : obs :=
  mkobs ROk None [] true 0%nat None None false [0%nat; 1%nat; 2%nat] 0 false [] [] None.
Example c09u_step_can_fail :
  c09u_step [(0%nat, 5%nat); (1%nat, 7%nat)] (obs0 3 3 []) (Register 2%nat 7%nat 1 false None []) c09u_both_stay = false
  /\ walk_u liftu 0 [] (obs0 3 3 []) (map One c09u_moves)
       (firstn 2 (trace 3 (init 3 []) (map One c09u_moves)) ++ [c09u_both_stay]) = Some 2%nat.
Proof. vm_compute. split; reflexivity. Qed.
