(** * Ctl: the trace oracles of C02 C03 C04 C05 C07 C09 accept every trace of the model, for histories
    with concurrent pairs ([xevent]: [One e] | [Two e1 e2]).  Generic inductions in OracleProofsX.v. *)
From Coq Require Import List ZArith Bool Arith Lia.
From Jiva Require Import Ctl.Model Ctl.Corr Ctl.Oracles Ctl.Proofs Ctl.Props Ctl.RfConst Ctl.OracleProofs
  Ctl.OracleProofs2 Ctl.OracleProofs07 Ctl.OracleProofsX.
Import ListNotations.
Open Scope Z_scope.

Lemma obs0_shape : forall rf0 n w0, obs0 rf0 n w0 = with_res1 (observe n (init rf0 w0) ROk noeff) None.
Proof. reflexivity. Qed.

(** ** C02, C05, C07: no pair rule *)
Theorem c02_oracle_model_x : forall xs rf0 n w0, (1 <= rf0)%nat -> forallb xev_wf xs = true ->
  forallb (xev_addrs_lt n) xs = true ->
  walk (lift (c02_step rf0) nopair) 0 (obs0 rf0 n w0) xs (trace n (init rf0 w0) xs) = None.
Proof.
  intros xs rf0 n w0 Hrf Hwf Hlt. rewrite obs0_shape.
  apply (walk_model_x (c02_step rf0) nopair (fun s => status_ok s /\ struct_ok s /\ keys_lt n s)
           (fun s e => ev_wf e = true /\ ev_addrs_lt n e = true)).
  - intros s e [Hs [Ht Hk]] [Hw Ha]. split; [apply status_step; exact Hs|].
    split; [apply struct_step; assumption|apply keys_lt_step; assumption].
  - intros s e r0 ef0 r0' [Hs [Ht Hk]] _. apply c02_step_model; assumption.
  - reflexivity.
  - split; [apply status_init; exact Hrf|]. split; [apply struct_init; exact Hrf|apply keys_lt_init].
  - apply hist_ok_and; [apply hist_ok_xev_wf; exact Hwf|apply hist_ok_xev_addrs_lt; exact Hlt].
Qed.

Theorem c05_oracle_model_x : forall xs rf0 n w0, (1 <= rf0)%nat -> forallb xev_wf xs = true ->
  walk (lift (c05_step rf0) nopair) 0 (obs0 rf0 n w0) xs (trace n (init rf0 w0) xs) = None.
Proof.
  intros xs rf0 n w0 Hrf Hwf. rewrite obs0_shape.
  apply (walk_model_x (c05_step rf0) nopair (fun s => status_ok s /\ struct_ok s /\ rf s = rf0)
           (fun s e => ev_wf e = true)).
  - intros s e [Hs [Ht Hr]] Hw. split; [apply status_step; exact Hs|].
    split; [apply struct_step; assumption|rewrite rf_step; exact Hr].
  - intros s e r0 ef0 r0' [Hs [Ht Hr]] _. apply c05_step_model; assumption.
  - reflexivity.
  - split; [apply status_init; exact Hrf|]. split; [apply struct_init; exact Hrf|reflexivity].
  - apply hist_ok_xev_wf. exact Hwf.
Qed.

Theorem c07_oracle_model_x : forall xs rf0 n w0, (1 <= rf0)%nat -> forallb xev_wf xs = true ->
  walk (lift (fun prev e cur => c07_step rf0 prev e cur && c07_only_verify prev e cur) nopair) 0
       (obs0 rf0 n w0) xs (trace n (init rf0 w0) xs) = None.
Proof.
  intros xs rf0 n w0 Hrf Hwf. rewrite obs0_shape.
  apply (walk_model_x (fun prev e cur => c07_step rf0 prev e cur && c07_only_verify prev e cur) nopair
           struct_ok (fun s e => ev_wf e = true)).
  - intros s e Hs Hw. apply struct_step; assumption.
  - intros s e r0 ef0 r0' Hs _. rewrite c07_step_model by assumption. rewrite c07_only_verify_model by assumption. reflexivity.
  - reflexivity.
  - apply struct_init. exact Hrf.
  - apply hist_ok_xev_wf. exact Hwf.
Qed.

(** ** C09: no pair rule; the registration memory sees the requests in serialisation order *)
Theorem c09_oracle_model_x : forall xs rf0 n w0, (1 <= rf0)%nat -> forallb xev_wf xs = true ->
  forallb (xev_addrs_lt n) xs = true -> fixed_assign [] (flatten xs) = true ->
  walk_g (fun g => lift (c09_step rf0 g) nopair) 0 [] (obs0 rf0 n w0) xs (trace n (init rf0 w0) xs) = None.
Proof.
  intros xs rf0 n w0 Hrf Hwf Hlt Hfa. rewrite obs0_shape.
  apply (walk_g_model_x (c09_step rf0) (fun _ => nopair)
           (fun g s => struct_ok s /\ rf s = rf0 /\ keys_lt n s /\ reg_inv g s)
           (fun g _ e => ev_wf e = true /\ ev_addrs_lt n e = true /\ reg_consistent g e = true)).
  - intros g s e [Hs [Hr [Hk Hi]]] [Hw [Ha Hc]].
    split; [apply struct_step; assumption|]. split; [rewrite rf_step; exact Hr|].
    split; [apply keys_lt_step; assumption|apply reg_inv_step; assumption].
  - intros g s e r0 ef0 r0' [Hs [Hr [Hk Hi]]] [Hw [Ha Hc]]. apply c09_step_model; assumption.
  - reflexivity.
  - split; [apply struct_init; exact Hrf|]. split; [reflexivity|]. split; [apply keys_lt_init|apply reg_inv_init].
  - apply hist_ok_g_bools; [apply xev_wf_flatten; exact Hwf|apply xev_addrs_lt_flatten; exact Hlt|exact Hfa].
Qed.

(** ** C03 *)
(** an earlier version of [c03_pair] was false on two kinds of model pairs (witnesses below):
    - the first write lies outside the volume: it is rejected before any replica is called, nobody is
      detached, the queued request is served;
    - the queued write reuses a write id that some replica already holds (the oracle reads "nobody
      holds wid2" on the final observation).
    Corrected in Oracles.v: the guard also requires the first write to be inside the volume
    ([io_in_range prev a]); the second point is a condition on histories ([fresh_wid]: a write id is not
    held by any replica when the write is issued). *)
Definition boot1 : list xevent := [One (Register 0%nat 1%nat 1 false None []); One (Start [0%nat] [])].

Definition c03_witness_range : list xevent :=
  boot1 ++ [Two (Write 7%nat 5 1 [(0%nat, KWrite)]) (Write 8%nat 0 0 [])].
Example c03_pair_first_write_out_of_range_accepted :
  walk (lift (c03_step 1) (c03_pair 1)) 0 (obs0 1 1 []) c03_witness_range (trace 1 (init 1 []) c03_witness_range) = None
  /\ map o_res (trace 1 (init 1 []) c03_witness_range) = [ROk; ROk; ROk]
  /\ map o_res1 (trace 1 (init 1 []) c03_witness_range) = [None; None; Some RErr].
Proof. vm_compute. repeat split; reflexivity. Qed.

Definition c03_witness_wid : list xevent :=
  boot1 ++ [Two (Write 7%nat 0 0 [(0%nat, KWriteAp)]) (Write 7%nat 0 0 [])].
Example c03_pair_needs_fresh_write_ids :
  walk (lift (c03_step 1) (c03_pair 1)) 0 (obs0 1 1 []) c03_witness_wid (trace 1 (init 1 []) c03_witness_wid) = Some 2%nat
  /\ map o_res (trace 1 (init 1 []) c03_witness_wid) = [ROk; ROk; RErr].
Proof. vm_compute. repeat split; reflexivity. Qed.

(** a write id is fresh when the write is issued *)
Definition fresh_wid (s : cst) (e : event) : Prop :=
  match e with Write wid _ _ _ => forall x, ~ In wid (f_applied (wget (w s) x)) | _ => True end.

Lemma count_rw_length : forall l, count_rw l = length (rw_of l).
Proof. intros. unfold count_rw, rw_of. rewrite map_length. reflexivity. Qed.

Lemma nodup_rw_of : forall l, NoDup (keys l) -> NoDup (rw_of l).
Proof. intros l H. unfold rw_of. apply (nodup_filter_keys (fun p => is_rw (snd p)) l H). Qed.

Lemma quorum_rw_exists : forall rf0 l, quorum_ok rf0 l = true -> exists x, In x (rw_of l).
Proof.
  intros rf0 l H. unfold quorum_ok in H. apply Nat.leb_le in H.
  assert (P : (0 < count_rw l)%nat) by (unfold quorum in H; lia).
  apply count_rw_pos_inv in P. destruct P as [x Hx]. exists x. apply rw_of_in. exact Hx.
Qed.

(** the failures of a write that reaches the replicas leave at most the RW replicas that did not fail it *)
Lemma write_kills_quorum : forall rf0 s wid off len fs, status_ok s -> struct_ok s -> rf s = rf0 ->
  quorum_ok rf0 (replicas s) = true -> 0 <= off -> off + len <= csize s ->
  quorum_ok rf0 (filter (fun p => negb (flt fs (fst p) KWrite || flt fs (fst p) KWriteAp)) (replicas s)) = false ->
  (count_rw (replicas (fst (do_write s wid off len fs))) < quorum rf0)%nat.
Proof.
  intros rf0 s wid off len fs Hst H Hrf Hq Ho Hl Hleft.
  destruct (quorum_rw_exists rf0 _ Hq) as [x0 Hx0].
  assert (Hrange : ((off <? 0) || (csize s <? off + len)) = false).
  { apply orb_false_iff. split; apply Z.ltb_ge; assumption. }
  rewrite (do_write_unfold s wid off len fs (gate_open s rf0 Hst Hrf Hq) Hrange (rw_avail s x0 H Hx0)). cbn [fst].
  set (s1 := fanout s wid fs). set (errs := io_errs (writers s) fs KWrite KWriteAp).
  set (left := filter (fun p => negb (flt fs (fst p) KWrite || flt fs (fst p) KWriteAp)) (replicas s)) in *.
  assert (H1 : struct_ok s1) by (apply struct_fanout; exact H).
  unfold quorum_ok in Hleft. apply Nat.leb_gt in Hleft.
  eapply Nat.le_lt_trans; [|exact Hleft].
  rewrite !count_rw_length. apply NoDup_incl_length.
  - apply nodup_rw_of. exact (st_nodup _ (struct_detach s1 fs errs H1)).
  - intros x Hx. apply rw_of_in in Hx.
    assert (Hne : ~ In x errs).
    { intro Hi. apply (detach_gone s1 fs errs x H1 Hi). eapply in_keys. exact Hx. }
    apply detach_in in Hx; [|discriminate]. unfold s1 in Hx. rewrite replicas_fanout in Hx.
    apply rw_of_in. unfold left. apply filter_In. split; [exact Hx|]. cbn [fst].
    destruct (flt fs x KWrite || flt fs x KWriteAp) eqn:F; [|reflexivity].
    exfalso. apply Hne. unfold errs, io_errs. apply filter_In. split; [|exact F].
    rewrite (writers_in_service s H). apply rw_in_service. apply rw_of_in. exact Hx.
Qed.

Lemma c03_pair_model : forall rf0 n s a b r0 ef0 r0',
  status_ok s -> struct_ok s -> rf s = rf0 -> fresh_wid (fst (fst (step s a))) b ->
  c03_pair rf0 (with_res1 (observe n s r0 ef0) r0') a b (pair_obs n s a b) = true.
Proof.
  intros rf0 n s a b r0 ef0 r0' Hst H Hrf Hfresh.
  set (s1 := fst (fst (step s a))) in *.
  assert (Hst1 : status_ok s1) by (apply status_step; exact Hst).
  assert (Hrf1 : rf s1 = rf0) by (unfold s1; rewrite rf_step; exact Hrf).
  pose proof (status_step s1 b Hst1) as [Hc2 Hr2].
  pose proof (rf_step s1 b) as Hrf2.
  unfold c03_pair. unfold pair_obs. fold s1. cbn [o_ro o_rwc o_replicas observe with_res1].
  unfold quorum_ok at 1. rewrite Hr2, Hc2, Hrf2, Hrf1. rewrite Bool.eqb_reflx, Nat.eqb_refl. cbn [andb].
  destruct a; try reflexivity.
  (* the first request is a write *)
  assert (Core : quorum_ok rf0 (replicas s) && io_in_range (with_res1 (observe n s r0 ef0) r0') (Write wid off len fs)
                 && negb (quorum_ok rf0 (filter (fun p => negb (flt fs (fst p) KWrite || flt fs (fst p) KWriteAp)) (replicas s))) = true ->
                 is_mut_io b = true -> step s1 b = (s1, RRefused, noeff)).
  { intros G Hb. apply andb_prop in G. destruct G as [G G3]. apply andb_prop in G. destruct G as [G1 G2].
    cbn [io_in_range o_size observe with_res1] in G2. apply andb_prop in G2. destruct G2 as [G2a G2b].
    apply Z.leb_le in G2a. apply Z.leb_le in G2b. apply negb_true_iff in G3.
    apply gate_refuses; [exact Hst1|exact Hb|]. rewrite Hrf1.
    pose proof (write_kills_quorum rf0 s wid off len fs Hst H Hrf G1 G2a G2b G3) as K.
    unfold s1. cbn [step]. destruct (do_write s wid off len fs). exact K. }
  destruct b; try reflexivity.
  - match goal with |- (if ?c then _ else _) = true => destruct c eqn:E; [|reflexivity] end.
    rewrite (Core eq_refl eq_refl). cbn [fst snd]. unfold is_ack. cbn [o_res observe with_res1 res_class res_eqb negb andb].
    apply forallb_forall. intros x Hx. apply in_seq in Hx. cbn [o_reps with_res1] in Hx. rewrite length_reps_observe in Hx.
    apply negb_true_iff.
    destruct (holds (with_res1 (observe n s1 RRefused (mkeff (e_signals (snd (step s (Write wid off len fs))) ++ e_signals noeff) (e_served noeff))) (Some (res_class (snd (fst (step s (Write wid off len fs))))))) x wid0) eqn:Eh; [|reflexivity].
    exfalso. unfold holds in Eh. apply mem_in in Eh.
    unfold applied_of in Eh. cbn [o_reps with_res1] in Eh. fold (applied_of (observe n s1 RRefused (mkeff (e_signals (snd (step s (Write wid off len fs))) ++ e_signals noeff) (e_served noeff))) x) in Eh.
    rewrite applied_of_observe in Eh by lia. exact (Hfresh x Eh).
  - match goal with |- (if ?c then _ else _) = true => destruct c eqn:E; [|reflexivity] end.
    rewrite (Core eq_refl eq_refl). reflexivity.
  - match goal with |- (if ?c then _ else _) = true => destruct c eqn:E; [|reflexivity] end.
    rewrite (Core eq_refl eq_refl). reflexivity.
Qed.

Theorem c03_oracle_model_x : forall xs rf0 n w0, (1 <= rf0)%nat -> forallb xev_wf xs = true ->
  hist_ok fresh_wid (init rf0 w0) (flatten xs) ->
  walk (lift (c03_step rf0) (c03_pair rf0)) 0 (obs0 rf0 n w0) xs (trace n (init rf0 w0) xs) = None.
Proof.
  intros xs rf0 n w0 Hrf Hwf Hfr. rewrite obs0_shape.
  apply (walk_model_x (c03_step rf0) (c03_pair rf0) (fun s => status_ok s /\ struct_ok s /\ rf s = rf0)
           (fun s e => ev_wf e = true /\ fresh_wid s e)).
  - intros s e [Hs [Ht Hr]] [Hw _]. split; [apply status_step; exact Hs|].
    split; [apply struct_step; assumption|rewrite rf_step; exact Hr].
  - intros s e r0 ef0 r0' [Hs [Ht Hr]] _. apply c03_step_model; assumption.
  - intros s a b r0 ef0 r0' [Hs [Ht Hr]] _ [_ Hf]. apply c03_pair_model; assumption.
  - split; [apply status_init; exact Hrf|]. split; [apply struct_init; exact Hrf|reflexivity].
  - apply hist_ok_and; [apply hist_ok_xev_wf; exact Hwf|exact Hfr].
Qed.

(** ** C04 *)
(** an earlier version of [c04_pair] was false on model pairs whose first request
    - is an I/O that never reaches the replicas (outside the volume, or refused by the read-only gate):
      the replica its script names is not detached and may serve the queued read;
    - makes a replica RW (verify, set-mode RW, start): the queued read may be served by a replica that
      was not RW in the previous observation.
    Corrected in Oracles.v: "did not fail the first request" only when that request is an I/O that
    reached the replicas; "was RW before" unless the first request promotes that replica. *)
Definition c04_witness_range : list xevent :=
  boot1 ++ [Two (Write 7%nat 5 1 [(0%nat, KWrite)]) (Read 0 0 [0%nat] [])].
Definition c04_witness_start : list xevent :=
  [One (Register 0%nat 1%nat 1 false None []); Two (Start [0%nat] []) (Read 0 0 [0%nat] [])].
Definition c04_witness_verify : list xevent :=
  map One [Register 0%nat 1%nat 1 false None []; Register 1%nat 2%nat 1 false None []; Start [0%nat] [];
           AddCheck 1%nat []; AddCommit 1%nat []; SyncData 1%nat]
  ++ [Two (Verify 1%nat []) (Read 0 0 [1%nat] [])].
Example c04_pair_accepts_unreached_and_promoting_first_requests :
  walk (lift (c04_step 1) (c04_pair 1)) 0 (obs0 1 1 []) c04_witness_range (trace 1 (init 1 []) c04_witness_range) = None
  /\ walk (lift (c04_step 1) (c04_pair 1)) 0 (obs0 1 1 []) c04_witness_start (trace 1 (init 1 []) c04_witness_start) = None
  /\ walk (lift (c04_step 2) (c04_pair 2)) 0 (obs0 2 2 []) c04_witness_verify (trace 2 (init 2 []) c04_witness_verify) = None.
Proof. vm_compute. repeat split; reflexivity. Qed.

Lemma c04_pair_model : forall rf0 n s a b r0 ef0 r0',
  status_ok s -> struct_ok s -> rf s = rf0 -> ev_wf a = true ->
  c04_pair rf0 (with_res1 (observe n s r0 ef0) r0') a b (pair_obs n s a b) = true.
Proof.
  intros rf0 n s a b r0 ef0 r0' Hst H Hrf Hwf. destruct b; try reflexivity.
  unfold c04_pair, pair_obs. cbn [o_served observe with_res1 e_served o_replicas o_size].
  set (s1 := fst (fst (step s a))).
  assert (H1 : struct_ok s1) by (apply struct_step; assumption).
  cbn [step].
  destruct (do_read_spec s1 off len order fs H1) as [[_ Hd]|Hs]; [rewrite Hd; reflexivity|].
  unfold read_spec in Hs. destruct (e_served (snd (do_read s1 off len order fs))) as [x|]; [|reflexivity].
  destruct Hs as [_ [Hx _]]. apply rw_of_in in Hx.
  pose proof (rw_origin s a x Hx) as Ho.
  apply andb_true_intro. split.
  - destruct Ho as [Ho|Ho]; [apply orb_true_iff; left; apply mem_in; apply rw_of_in; exact Ho|].
    apply orb_true_iff. right. destruct a; try contradiction; cbn [promotes o_replicas observe with_res1].
    + rewrite Ho. reflexivity.
    + subst. apply Nat.eqb_refl.
    + destruct m; try contradiction. subst. apply Nat.eqb_refl.
  - destruct (is_io a && quorum_ok rf0 (replicas s) && io_in_range (with_res1 (observe n s r0 ef0) r0') a) eqn:G; [|reflexivity].
    apply andb_prop in G. destruct G as [G G3]. apply andb_prop in G. destruct G as [G1 G2].
    assert (Hxs : In (x, RW) (replicas s)).
    { destruct Ho as [Ho|Ho]; [exact Ho|]. destruct a; try discriminate; contradiction. }
    pose proof (c05_detached rf0 s a Hst H Hrf) as D.
    assert (Gd : is_io a && quorum_ok rf0 (replicas s) && negb (Nat.eqb (length (rw_of (replicas s))) 0)
                 && match a with Write _ off0 len0 _ => (0 <=? off0) && (off0 + len0 <=? csize s) | _ => true end = true).
    { rewrite G1, G2. cbn [andb].
      assert (N : negb (Nat.eqb (length (rw_of (replicas s))) 0) = true).
      { apply rw_of_in in Hxs. destruct (rw_of (replicas s)); [contradiction|reflexivity]. }
      rewrite N. cbn [andb]. destruct a; try reflexivity. exact G3. }
    rewrite Gd in D. rewrite forallb_forall in D.
    specialize (D x (rw_in_service _ _ (proj2 (rw_of_in _ _) Hxs))).
    destruct (io_kind_fail a x); [|reflexivity].
    apply negb_true_iff in D. apply mem_false in D. exfalso. apply D. fold s1. eapply in_keys. exact Hx.
Qed.

Theorem c04_oracle_model_x : forall xs rf0 n w0, (1 <= rf0)%nat -> forallb xev_wf xs = true ->
  no_invalid (init rf0 w0) (flatten xs) ->
  walk (lift (c04_step rf0) (c04_pair rf0)) 0 (obs0 rf0 n w0) xs (trace n (init rf0 w0) xs) = None.
Proof.
  intros xs rf0 n w0 Hrf Hwf Hni. rewrite obs0_shape.
  apply (walk_model_x (c04_step rf0) (c04_pair rf0) (fun s => status_ok s /\ struct_ok s /\ rf s = rf0)
           (fun s e => ev_wf e = true /\ snd (fst (step s e)) <> RInvalid)).
  - intros s e [Hs [Ht Hr]] [Hw _]. split; [apply status_step; exact Hs|].
    split; [apply struct_step; assumption|rewrite rf_step; exact Hr].
  - intros s e r0 ef0 r0' [Hs [Ht Hr]] [_ Hi]. apply c04_step_model; assumption.
  - intros s a b r0 ef0 r0' [Hs [Ht Hr]] [Hw _] _. apply c04_pair_model; assumption.
  - split; [apply status_init; exact Hrf|]. split; [apply struct_init; exact Hrf|reflexivity].
  - apply hist_ok_and; [apply hist_ok_xev_wf; exact Hwf|exact Hni].
Qed.

(** with the single-request oracle made vacuous on an RInvalid answer: no condition on the history *)
Theorem c04'_oracle_model_x : forall xs rf0 n w0, (1 <= rf0)%nat -> forallb xev_wf xs = true ->
  walk (lift (c04_step' rf0) (c04_pair rf0)) 0 (obs0 rf0 n w0) xs (trace n (init rf0 w0) xs) = None.
Proof.
  intros xs rf0 n w0 Hrf Hwf. rewrite obs0_shape.
  apply (walk_model_x (c04_step' rf0) (c04_pair rf0) (fun s => status_ok s /\ struct_ok s /\ rf s = rf0)
           (fun s e => ev_wf e = true)).
  - intros s e [Hs [Ht Hr]] Hw. split; [apply status_step; exact Hs|].
    split; [apply struct_step; assumption|rewrite rf_step; exact Hr].
  - intros s e r0 ef0 r0' [Hs [Ht Hr]] _. apply c04_step'_model; assumption.
  - intros s a b r0 ef0 r0' [Hs [Ht Hr]] Hw _. apply c04_pair_model; assumption.
  - split; [apply status_init; exact Hrf|]. split; [apply struct_init; exact Hrf|reflexivity].
  - apply hist_ok_xev_wf. exact Hwf.
Qed.

(** ** non-vacuity: pairs on which the guards of the pair rules fire *)
(** the only replica fails the first write after applying it; the queued write (fresh id) is refused *)
Definition c03_pair_fires : list xevent :=
  boot1 ++ [Two (Write 7%nat 0 0 [(0%nat, KWriteAp)]) (Write 8%nat 0 0 [])].
Example c03_pair_guard_reached :
  walk (lift (c03_step 1) (c03_pair 1)) 0 (obs0 1 1 []) c03_pair_fires (trace 1 (init 1 []) c03_pair_fires) = None
  /\ map o_res (trace 1 (init 1 []) c03_pair_fires) = [ROk; ROk; RErr]
  /\ map o_res1 (trace 1 (init 1 []) c03_pair_fires) = [None; None; Some RErr]
  /\ map o_replicas (trace 1 (init 1 []) c03_pair_fires) = [[]; [(0%nat, RW)]; []].
Proof. vm_compute. repeat split; reflexivity. Qed.

(** two RW replicas, replica 0 fails the write in flight and is detached; the queued read is served by 1 *)
Definition c04_pair_fires : list xevent :=
  map One [Register 0%nat 1%nat 1 false None []; Register 1%nat 2%nat 1 false None []; Start [0%nat] [];
           AddCheck 1%nat []; AddCommit 1%nat []; SyncData 1%nat; Verify 1%nat []]
  ++ [Two (Write 7%nat 0 0 [(0%nat, KWrite)]) (Read 0 0 [1%nat] [])].
Example c04_pair_guard_reached :
  walk (lift (c04_step 2) (c04_pair 2)) 0 (obs0 2 2 []) c04_pair_fires (trace 2 (init 2 []) c04_pair_fires) = None
  /\ walk (lift (c04_step 2) (c04_pair 2)) 0 (obs0 2 2 []) c04_pair_fires (trace 2 (init 2 []) c04_pair_fires) = None
  /\ o_served (last (trace 2 (init 2 []) c04_pair_fires) (obs0 2 2 [])) = Some 1%nat
  /\ o_replicas (last (trace 2 (init 2 []) c04_pair_fires) (obs0 2 2 [])) = [(1%nat, RW)].
Proof. vm_compute. repeat split; reflexivity. Qed.
