(** * Ctl: the trace oracle of C18 holds on every trace of the model (single-request histories).
    The hard conjunct is "only replicas in service receive calls": world-frame lemmas say which
    addresses' scripted replica can change in every helper of the I/O, snapshot and resize paths. *)
From Coq Require Import List ZArith Bool Arith Lia.
From Jiva Require Import Ctl.Model Ctl.Corr Ctl.Oracles Ctl.Proofs Ctl.Props Ctl.RfConst Ctl.OracleProofs Ctl.OracleProofs2.
Import ListNotations.
Open Scope Z_scope.

(** ** the frame relation: the writers only shrink, the world changes only inside [P] *)
Definition fr (P : addr -> Prop) (s t : cst) : Prop :=
  (forall x, In x (writers t) -> In x (writers s))
  /\ (forall x, ~ P x -> wget (w t) x = wget (w s) x).
Definition wsub (P : addr -> Prop) (s : cst) : Prop := forall x, In x (writers s) -> P x.

Lemma fr_refl : forall P s, fr P s s.
Proof. intros; split; auto. Qed.
Lemma fr_trans : forall P a b c, fr P a b -> fr P b c -> fr P a c.
Proof.
  intros P a b c [H1 H2] [G1 G2]. split.
  - intros x Hx. apply H1. apply G1. exact Hx.
  - intros x Hx. rewrite G2 by exact Hx. apply H2. exact Hx.
Qed.
Lemma fr_wsub : forall P s t, fr P s t -> wsub P s -> wsub P t.
Proof. intros P s t [H1 _] Hs x Hx. apply Hs. apply H1. exact Hx. Qed.

Lemma fr_same : forall P s t, backends t = backends s -> w t = w s -> fr P s t.
Proof. intros P s t Hb Hw. unfold fr, writers. rewrite Hb, Hw. split; auto. Qed.

Lemma fr_fold : forall {A} P (Q : A -> Prop) (f : cst -> A -> cst) l s,
  (forall t x, Q x -> wsub P t -> fr P t (f t x)) -> (forall x, In x l -> Q x) -> wsub P s ->
  fr P s (fold_left f l s).
Proof.
  intros A P Q f l. induction l as [|x l IH]; intros s Hf Hq Hs; cbn [fold_left]; [apply fr_refl|].
  assert (H1 : fr P s (f s x)) by (apply Hf; [apply Hq; left; reflexivity|exact Hs]).
  eapply fr_trans; [exact H1|].
  apply IH; [exact Hf|intros y Hy; apply Hq; right; exact Hy|eapply fr_wsub; eauto].
Qed.

Lemma fr_upd_rep : forall (P : addr -> Prop) s a g, P a -> fr P s (upd_rep s a g).
Proof.
  intros P s a g Ha. split; [intros x Hx; exact Hx|].
  intros x Hx. unfold upd_rep. cbn [w upd_w]. rewrite wget_wset.
  destruct (Nat.eqb a x) eqn:E; [|reflexivity]. apply Nat.eqb_eq in E. subst. contradiction.
Qed.

(** *** writers under the backend-map updates *)
Definition nonerr (p : addr * (mode * nat)) : bool := negb (mode_eqb (fst (snd p)) ERR).

Lemma writers_aset_err : forall b a i x,
  In x (map fst (filter nonerr (aset b a (ERR, i)))) -> In x (map fst (filter nonerr b)).
Proof.
  induction b as [|[k [m j]] t IH]; intros a i x H; cbn in *; [exact H|].
  destruct (Nat.eqb k a).
  - cbn in H. unfold nonerr at 1 in H. cbn in H.
    unfold nonerr at 1. cbn. destruct (negb (mode_eqb m ERR)); [right; exact H|exact H].
  - cbn in H. unfold nonerr at 1 in H. cbn in H. unfold nonerr at 1. cbn.
    destruct (negb (mode_eqb m ERR)); cbn in *.
    + destruct H as [H|H]; [left; exact H|right; eapply IH; exact H].
    + eapply IH; exact H.
Qed.

Lemma writers_adel : forall b a x,
  In x (map fst (filter nonerr (adel b a))) -> In x (map fst (filter nonerr b)).
Proof.
  induction b as [|[k [m j]] t IH]; intros a x H; cbn in *; [exact H|].
  destruct (Nat.eqb k a).
  - unfold nonerr at 1. cbn. destruct (negb (mode_eqb m ERR)); [right; exact H|exact H].
  - cbn in H. unfold nonerr at 1 in H. cbn in H. unfold nonerr at 1. cbn.
    destruct (negb (mode_eqb m ERR)); cbn in *.
    + destruct H as [H|H]; [left; exact H|right; eapply IH; exact H].
    + eapply IH; exact H.
Qed.

Lemma backends_stop_monitoring : forall s i, backends (stop_monitoring s i) = backends s.
Proof. intros s i. unfold stop_monitoring. destruct (aget (live_mon s) i); reflexivity. Qed.

Lemma writers_nonerr : forall s, writers s = map fst (filter nonerr (backends s)).
Proof. reflexivity. Qed.

Lemma fr_set_mode_err : forall P s a, fr P s (set_mode_nolock s a ERR).
Proof.
  intros P s a. split; [|intros x _; rewrite w_set_mode; reflexivity].
  intros x. rewrite !writers_nonerr. unfold set_mode_nolock. cbn [backends update_vol_status upd_status].
  destruct (aget (replicas s) a) as [[]|]; try (intros H; exact H);
    unfold backend_set_mode; cbn [backends upd_replicas];
    (destruct (aget (backends s) a) as [[mb ib]|]; [|intros H; exact H]);
    cbn [mode_eqb]; rewrite backends_stop_monitoring; cbn [backends upd_backends]; apply writers_aset_err.
Qed.

Lemma fr_handle_error : forall P errs s, fr P s (fst (handle_error_nolock s errs)).
Proof.
  intros P errs s. unfold handle_error_nolock. cbn [fst].
  revert s. induction errs as [|a t IH]; intros s; cbn [fold_left]; [apply fr_refl|].
  eapply fr_trans; [apply fr_set_mode_err|apply IH].
Qed.

(** *** set-checkpoint reaches RW backends only *)
Lemma in_rw_writers : forall s p, In p (backends s) -> is_rw (fst (snd p)) = true -> In (fst p) (writers s).
Proof.
  intros s p Hin Hrw. unfold writers. apply in_map. apply filter_In. split; [exact Hin|].
  destruct (fst (snd p)); try discriminate. reflexivity.
Qed.

Lemma fold_world_frame : forall (l : list (addr * (mode * nat))) (F : world -> addr * (mode * nat) -> world) w0 x,
  (forall wacc p, In p l -> wget (F wacc p) x = wget wacc x) ->
  wget (fold_left F l w0) x = wget w0 x.
Proof.
  induction l as [|p t IH]; intros F w0 x HF; cbn [fold_left]; [reflexivity|].
  rewrite IH by (intros wacc q Hq; apply HF; right; exact Hq). apply HF. left. reflexivity.
Qed.

Lemma fr_set_checkpoint : forall P s fs n, wsub P s -> fr P s (fst (set_checkpoint s fs n)).
Proof.
  intros P s fs n Hs. unfold set_checkpoint.
  destruct (all_rw_backends s) eqn:Ea; cbn [fst]; (split; [intros x Hx; exact Hx|]); intros x Hx; cbn [w upd_w];
    apply fold_world_frame; intros wacc p Hp.
  - destruct (flt fs (fst p) KSetCp); [reflexivity|]. rewrite wget_wset.
    destruct (Nat.eqb (fst p) x) eqn:E; [|reflexivity]. apply Nat.eqb_eq in E. subst x. exfalso. apply Hx. apply Hs.
    apply in_rw_writers; [exact Hp|]. unfold all_rw_backends in Ea. rewrite forallb_forall in Ea. apply Ea. exact Hp.
  - destruct (is_rw (fst (snd p))) eqn:Er; [|reflexivity]. rewrite wget_wset.
    destruct (Nat.eqb (fst p) x) eqn:E; [|reflexivity]. apply Nat.eqb_eq in E. subst x. exfalso. apply Hx. apply Hs.
    apply in_rw_writers; assumption.
Qed.

Lemma fr_update_checkpoint : forall P s fs, wsub P s -> fr P s (update_checkpoint s fs).
Proof.
  intros P s fs Hs. unfold update_checkpoint.
  destruct (Nat.eqb (count_rw (replicas s)) (rf s)); [|apply fr_same; reflexivity].
  destruct (get_latest_snapshot s fs) as [n|]; [|apply fr_same; reflexivity].
  pose proof (fr_set_checkpoint P s fs n Hs) as H.
  destruct (set_checkpoint s fs n) as [s1 ok]. cbn [fst] in H.
  eapply fr_trans; [exact H|apply fr_same; reflexivity].
Qed.

Lemma fr_remove_backend : forall (P : addr -> Prop) s a, P a -> fr P s (remove_backend s a).
Proof.
  intros P s a Ha. unfold remove_backend.
  destruct (aget (backends s) a) as [[mb ib]|]; [|apply fr_refl].
  split.
  - intros x. rewrite !writers_nonerr. cbn [backends upd_backends upd_rep upd_w].
    rewrite backends_stop_monitoring. apply writers_adel.
  - intros x Hx. cbn [w upd_backends upd_rep upd_w]. rewrite wget_wset, w_stop_monitoring.
    destruct (Nat.eqb a x) eqn:E; [|reflexivity]. apply Nat.eqb_eq in E. subst. contradiction.
Qed.

Lemma fr_remove_replica : forall (P : addr -> Prop) s fs a, P a -> wsub P s -> fr P s (remove_replica_nolock s fs a).
Proof.
  intros P s fs a Ha Hs. unfold remove_replica_nolock.
  destruct (negb (has_replica s a)); [apply fr_refl|].
  match goal with |- fr P s (update_checkpoint (update_vol_status (remove_backend ?s3 a)) fs) =>
    assert (H3 : fr P s s3) by (apply fr_same; cbn; destruct (Nat.eqb (length (replicas s)) 1 && fe_up s); reflexivity);
    assert (H4 : fr P s (update_vol_status (remove_backend s3 a)))
      by (eapply fr_trans; [exact H3|]; eapply fr_trans; [apply fr_remove_backend; exact Ha|apply fr_same; reflexivity])
  end.
  eapply fr_trans; [exact H4|]. apply fr_update_checkpoint. eapply fr_wsub; eauto.
Qed.

Lemma fr_remove_all : forall (P : addr -> Prop) errs s fs, (forall a, In a errs -> P a) -> wsub P s ->
  fr P s (remove_all s fs errs).
Proof.
  intros P errs s fs He Hs. unfold remove_all.
  apply (fr_fold P P); [|exact He|exact Hs].
  intros t x Hx Ht. apply fr_remove_replica; assumption.
Qed.

Lemma fr_snapshot_all : forall (P : addr -> Prop) s fs n, wsub P s -> fr P s (fst (snapshot_all s fs n)).
Proof.
  intros P s fs n Hs. unfold snapshot_all. cbn [fst].
  apply (fr_fold P P); [|exact Hs|exact Hs].
  intros t x Hx _. destruct (flt fs x KSnap); [apply fr_refl|apply fr_upd_rep; exact Hx].
Qed.

(** *** the six request kinds that call replicas: only the writers of the state before are touched *)
Lemma fr_errors : forall (P : addr -> Prop) s fs errs, wsub P s -> (forall a, In a errs -> P a) ->
  fr P s (remove_all (fst (handle_error_nolock s errs)) fs errs).
Proof.
  intros P s fs errs Hs He.
  eapply fr_trans; [apply fr_handle_error|].
  apply fr_remove_all; [exact He|]. eapply fr_wsub; [apply fr_handle_error|exact Hs].
Qed.

Lemma fr_do_write : forall s wid off len fs,
  fr (fun x => In x (writers s)) s (fst (do_write s wid off len fs)).
Proof.
  intros s wid off len fs. set (P := fun x => In x (writers s)).
  assert (Hs : wsub P s) by (intros x Hx; exact Hx).
  unfold do_write.
  destruct (ro s); [apply fr_refl|].
  destruct ((off <? 0) || (csize s <? off + len)); [apply fr_refl|].
  destruct (negb (avail s)); [apply fr_refl|].
  set (s1 := fold_left _ (writers s) s).
  assert (H1 : fr P s s1).
  { subst s1. apply (fr_fold P P); [|exact Hs|exact Hs].
    intros t x Hx _. destruct (flt fs x KWrite); [apply fr_refl|apply fr_upd_rep; exact Hx]. }
  destruct (io_errs (writers s) fs KWrite KWriteAp) as [|e es] eqn:Ee; [exact H1|].
  assert (He : forall a, In a (e :: es) -> P a).
  { intros a Ha. rewrite <- Ee in Ha. unfold io_errs in Ha. apply filter_In in Ha. exact (proj1 Ha). }
  pose proof (fr_errors P s1 fs (e :: es) (fr_wsub _ _ _ H1 Hs) He) as H2.
  destruct (handle_error_nolock s1 (e :: es)) as [s2 sup]. cbn [fst] in *.
  eapply fr_trans; eauto.
Qed.

Lemma fr_do_sync : forall s fs k, fr (fun x => In x (writers s)) s (fst (do_sync s fs k)).
Proof.
  intros s fs k. set (P := fun x => In x (writers s)).
  assert (Hs : wsub P s) by (intros x Hx; exact Hx).
  unfold do_sync.
  destruct (ro s); [apply fr_refl|].
  destruct (negb (avail s)); [apply fr_refl|].
  destruct (io_errs (writers s) fs k k) as [|e es] eqn:Ee; [apply fr_refl|].
  assert (He : forall a, In a (e :: es) -> P a).
  { intros a Ha. rewrite <- Ee in Ha. unfold io_errs in Ha. apply filter_In in Ha. exact (proj1 Ha). }
  pose proof (fr_errors P s fs (e :: es) Hs He) as H2.
  destruct (handle_error_nolock s (e :: es)) as [s2 sup]. cbn [fst] in *. exact H2.
Qed.

Lemma readers_writers : forall s x, In x (readers s) -> In x (writers s).
Proof.
  intros s x H. unfold readers in H. apply in_map_iff in H. destruct H as [p [Hp Hin]].
  apply filter_In in Hin. destruct Hin as [Hin Hrw]. subst x. apply in_rw_writers; assumption.
Qed.

Lemma fr_do_read : forall s off len order fs,
  fr (fun x => In x (writers s)) s (fst (fst (do_read s off len order fs))).
Proof.
  intros s off len order fs. set (P := fun x => In x (writers s)).
  assert (Hs : wsub P s) by (intros x Hx; exact Hx).
  unfold do_read.
  destruct ((off <? 0) || (csize s <? off + len)); [apply fr_refl|].
  assert (G : fr P s (fst (fst (
      if negb (avail s) then (s, RErr, noeff)
      else if negb (read_order_ok s order fs) then (s, RInvalid, noeff)
      else
        let errs := filter (fun a => flt fs a KRead) order in
        let served := match rev order with lst :: _ => if flt fs lst KRead then None else Some lst | [] => None end in
        match errs with
        | [] => (s, ROk, mkeff [] served)
        | _ =>
            let '(s2, suppressed) := handle_error_nolock s errs in
            let s3 := remove_all s2 fs errs in
            (s3, match served with Some _ => if suppressed then ROk else RErr | None => RErr end, mkeff [] served)
        end)))).
  { destruct (negb (avail s)); [apply fr_refl|].
    destruct (negb (read_order_ok s order fs)) eqn:Eo; [apply fr_refl|].
    apply negb_false_iff in Eo. unfold read_order_ok in Eo.
    apply andb_prop in Eo. destruct Eo as [Eo1 _]. apply andb_prop in Eo1. destruct Eo1 as [_ Eo2].
    cbv zeta.
    destruct (filter (fun a => flt fs a KRead) order) as [|e es] eqn:Ee; [apply fr_refl|].
    assert (He : forall a, In a (e :: es) -> P a).
    { intros a Ha. rewrite <- Ee in Ha. apply filter_In in Ha. destruct Ha as [Ha _].
      rewrite forallb_forall in Eo2. specialize (Eo2 a Ha). apply existsb_exists in Eo2.
      destruct Eo2 as [y [Hy Hey]]. apply Nat.eqb_eq in Hey. subst y. apply readers_writers. exact Hy. }
    pose proof (fr_errors P s fs (e :: es) Hs He) as H2.
    destruct (handle_error_nolock s (e :: es)) as [s2 sup]. cbn [fst] in *. exact H2. }
  destruct (replicas s) as [|[a0 m0] t]; [apply fr_refl|].
  destruct m0; destruct t; try exact G; apply fr_refl.
Qed.

Lemma fr_do_snapshot : forall s n fs, fr (fun x => In x (writers s)) s (fst (do_snapshot s n fs)).
Proof.
  intros s n fs. set (P := fun x => In x (writers s)).
  assert (Hs : wsub P s) by (intros x Hx; exact Hx).
  unfold do_snapshot.
  destruct (negb (Nat.eqb (rwc s) (rf s))); [apply fr_refl|].
  destruct (Nat.eqb (length (backends s)) 0); [apply fr_refl|].
  destruct (negb (remain_ok s)); [apply fr_refl|].
  destruct (last_rw s) as [r0|]; [|apply fr_refl].
  destruct (flt fs r0 KHttp); [apply fr_refl|].
  destruct (existsb (Nat.eqb n) (f_chain (wget (w s) r0))); [apply fr_refl|].
  pose proof (fr_snapshot_all P s fs n Hs) as H1.
  destruct (snapshot_all s fs n) as [s1 errs]. cbn [fst] in H1.
  destruct errs as [|e es]; [exact H1|].
  pose proof (fr_handle_error P (e :: es) s1) as H2.
  destruct (handle_error_nolock s1 (e :: es)) as [s2 sup]. cbn [fst] in *.
  eapply fr_trans; eauto.
Qed.

Lemma fr_do_resize : forall s sz fs, fr (fun x => In x (writers s)) s (fst (do_resize s sz fs)).
Proof.
  intros s sz fs. set (P := fun x => In x (writers s)).
  assert (Hs : wsub P s) by (intros x Hx; exact Hx).
  unfold do_resize.
  destruct (sz <? csize s); [apply fr_refl|].
  destruct (sz =? csize s); [apply fr_refl|].
  set (s1 := fold_left _ (writers s) s).
  assert (H1 : fr P s s1).
  { subst s1. apply (fr_fold P P); [|exact Hs|exact Hs].
    intros t x Hx _. destruct (flt fs x KResize); [apply fr_refl|apply fr_upd_rep; exact Hx]. }
  set (errs := filter (fun a => flt fs a KResize) (writers s)).
  assert (H2 : fr P s (fst (match errs with
                               | [] => (s1, false)
                               | _ => let '(s2, suppressed) := handle_error_nolock s1 errs in (s2, negb suppressed)
                               end))).
  { destruct errs as [|e es]; [exact H1|].
    pose proof (fr_handle_error P (e :: es) s1) as H2.
    destruct (handle_error_nolock s1 (e :: es)) as [s2 sup]. cbn [fst] in *. eapply fr_trans; eauto. }
  destruct (match errs with [] => (s1, false) | _ => _ end) as [s2 failed]. cbn [fst] in H2.
  destruct failed; [exact H2|].
  destruct (flt fs 0%nat KFeResize); [exact H2|].
  eapply fr_trans; [exact H2|apply fr_same; reflexivity].
Qed.

Definition is_call (e : event) : bool :=
  match e with
  | Write _ _ _ _ | Sync _ | Unmap _ | Read _ _ _ _ | Snapshot _ _ | Resize _ _ => true
  | _ => false
  end.

(** only replicas that were writers (attached and not marked failed) before the request can change *)
Theorem calls_only_in_service : forall s e x, is_call e = true -> ~ In x (writers s) ->
  wget (w (fst (fst (step s e)))) x = wget (w s) x.
Proof.
  intros s e x He Hx.
  assert (G : fr (fun y => In y (writers s)) s (fst (fst (step s e)))).
  { destruct e; try discriminate; cbn [step].
    - pose proof (fr_do_write s wid off len fs). destruct (do_write s wid off len fs); assumption.
    - pose proof (fr_do_sync s fs KSync). destruct (do_sync s fs KSync); assumption.
    - pose proof (fr_do_sync s fs KUnmap). destruct (do_sync s fs KUnmap); assumption.
    - apply fr_do_read.
    - pose proof (fr_do_snapshot s name fs). destruct (do_snapshot s name fs); assumption.
    - pose proof (fr_do_resize s newsize fs). destruct (do_resize s newsize fs); assumption. }
  destruct G as [_ G]. apply G. exact Hx.
Qed.

(** ** from the model to the observations *)
Lemma writers_in_service : forall b, map fst (filter nonerr b) = in_service (proj b).
Proof.
  induction b as [|[k [m i]] t IH]; [reflexivity|].
  unfold in_service, proj in *. cbn [map filter fst snd]. unfold nonerr at 1. cbn [fst snd].
  destruct (negb (mode_eqb m ERR)); cbn [map fst]; rewrite IH; reflexivity.
Qed.

Lemma writers_in_service_st : forall s, struct_ok s -> writers s = in_service (replicas s).
Proof. intros s H. rewrite writers_nonerr, writers_in_service, (st_mirror s H). reflexivity. Qed.

Lemma nodupb_of_NoDup : forall l, NoDup l -> nodupb l = true.
Proof.
  induction l as [|h t IH]; intros H; [reflexivity|].
  inversion H as [|x xs Hx Hd]; subst. cbn [nodupb]. rewrite (IH Hd), andb_true_r.
  destruct (existsb (Nat.eqb h) t) eqn:E; [|reflexivity].
  apply existsb_exists in E. destruct E as [y [Hy Hey]]. apply Nat.eqb_eq in Hey. subst. contradiction.
Qed.

Lemma nth_error_map_seq : forall {A} (f : nat -> A) n st a, (a < n)%nat ->
  nth_error (map f (seq st n)) a = Some (f (st + a)%nat).
Proof.
  intros A f n. induction n as [|n IH]; intros st a Ha; [lia|].
  destruct a as [|a]; cbn [seq map nth_error]; [rewrite Nat.add_0_r; reflexivity|].
  rewrite IH by lia. f_equal. f_equal. lia.
Qed.

Lemma same_reps_eq_world : forall n s t r1 e1 o1 r2 e2 a, (a < n)%nat -> wget (w t) a = wget (w s) a ->
  same_reps (with_res1 (observe n s r1 e1) o1) (observe n t r2 e2) a = true.
Proof.
  intros n s t r1 e1 o1 r2 e2 a Ha Hw. unfold same_reps, rep_of, with_res1, observe. cbn [o_reps].
  rewrite !nth_error_map_seq by exact Ha. cbn [Nat.add]. rewrite Hw, rep_diff_refl. reflexivity.
Qed.

Lemma mem_false_not_in : forall a l, mem a l = false -> ~ In a l.
Proof.
  intros a l H Hin. unfold mem in H.
  assert (X : existsb (Nat.eqb a) l = true) by (apply existsb_exists; exists a; split; [exact Hin|apply Nat.eqb_refl]).
  congruence.
Qed.

(** the oracle does not look at the result of the previous event *)
Lemma c18_step_model : forall rf0 n q s e r0 ef0 r0',
  struct_ok s -> status_ok s -> rf s = rf0 -> keys_lt n s -> ev_wf e = true ->
  c18_step rf0 q (with_res1 (observe n s r0 ef0) r0') e
           (observe n (fst (fst (step s e))) (snd (fst (step s e))) (snd (step s e))) = true.
Proof.
  intros rf0 n q s e r0 ef0 r0' Hst Hss Hrf Hk Hwf.
  (* every replica reported in service after an acknowledged write holds it: the fourth conjunct of
     the C02 oracle on the same step *)
  assert (C6 : match e with
               | Write wid _ _ _ =>
                   if is_ack (observe n (fst (fst (step s e))) (snd (fst (step s e))) (snd (step s e)))
                   then forallb (fun a => holds (observe n (fst (fst (step s e))) (snd (fst (step s e))) (snd (step s e))) a wid)
                          (in_service (o_replicas (observe n (fst (fst (step s e))) (snd (fst (step s e))) (snd (step s e)))))
                   else true
               | _ => true
               end = true).
  { destruct e; try reflexivity.
    pose proof (c02_step_model rf0 n s (Write wid off len fs) r0 ef0 r0' Hss Hst Hk) as Hc.
    unfold c02_step in Hc. cbv zeta in Hc.
    match type of Hc with (if ?c then _ else _) = true => destruct c end; [|reflexivity].
    apply andb_prop in Hc. exact (proj2 Hc). }
  pose proof (struct_step s e Hst Hwf) as H1.
  pose proof (status_step s e Hss) as [Hc1 _].
  pose proof (rf_step s e) as Hrf1.
  pose proof (calls_only_in_service s e) as Hfr.
  set (s1 := fst (fst (step s e))) in *.
  unfold c18_step. cbn [o_replicas o_rwc o_reps observe with_res1].
  assert (C1 : nodupb (addrs_of (replicas s1)) = true) by (apply nodupb_of_NoDup; exact (st_nodup s1 H1)).
  assert (C2 : Nat.leb (length (replicas s1)) rf0 = true).
  { apply Nat.leb_le. rewrite <- Hrf, <- Hrf1. exact (st_len s1 H1). }
  assert (C3 : Nat.leb (length (wo_of (replicas s1))) 1 = true).
  { apply Nat.leb_le. unfold wo_of. rewrite map_length. exact (st_wo s1 H1). }
  assert (C4 : (if q then Nat.eqb (rwc s1) (count_rw (replicas s1)) else true) = true).
  { destruct q; [|reflexivity]. apply Nat.eqb_eq. exact Hc1. }
  rewrite C1, C2, C3, C4. cbn [andb].
  assert (C5 : is_call e = true ->
     forallb (fun a => if mem a (in_service (replicas s)) then true
                       else same_reps (with_res1 (observe n s r0 ef0) r0') (observe n s1 (snd (fst (step s e))) (snd (step s e))) a)
             (seq 0 (length (map (fun a => observe_rep (wget (w s) a)) (seq 0 n)))) = true).
  { intros Hcall. apply forallb_forall. intros a Ha. rewrite map_length, seq_length in Ha.
    apply in_seq in Ha.
    destruct (mem a (in_service (replicas s))) eqn:Em; [reflexivity|].
    apply same_reps_eq_world; [lia|]. apply Hfr; [exact Hcall|].
    rewrite (writers_in_service_st s Hst). apply mem_false_not_in. exact Em. }
  apply andb_true_intro. split; [destruct e; try reflexivity; apply C5; reflexivity|exact C6].
Qed.

Theorem c18_oracle_model : forall es rf0 n s r0 ef0 r0' i qs,
  struct_ok s -> status_ok s -> rf s = rf0 -> keys_lt n s ->
  forallb ev_wf es = true -> forallb (ev_addrs_lt n) es = true ->
  walk_q (fun q => lift (c18_step rf0 q) (fun prev a b cur => c18_step rf0 q prev (SetMode 0%nat WO) cur))
         i (with_res1 (observe n s r0 ef0) r0') (map One es) (trace n s (map One es)) qs = None.
Proof.
  induction es as [|e t IH]; intros rf0 n s r0 ef0 r0' i qs Hst Hss Hrf Hk Hwf Hal; cbn [map trace walk_q]; [reflexivity|].
  cbn [forallb] in Hwf, Hal. apply andb_prop in Hwf. destruct Hwf as [He Ht].
  apply andb_prop in Hal. destruct Hal as [Hae Hat].
  cbn [xstep].
  destruct qs as [|q qs].
  { destruct (step s e) as [[s1 r] ef]. reflexivity. }
  pose proof (c18_step_model rf0 n q s e r0 ef0 r0' Hst Hss Hrf Hk He) as Hs.
  pose proof (keys_lt_step n s e Hk Hae) as Hk1.
  pose proof (struct_step s e Hst He) as Hst1.
  pose proof (status_step s e Hss) as Hss1.
  pose proof (rf_step s e) as Hrf1.
  destruct (step s e) as [[s1 r] ef] eqn:E. cbn [fst snd] in *.
  cbn [walk_q lift].
  change (with_res1 (observe n s1 r ef) None) with (observe n s1 r ef).
  rewrite Hs.
  change (observe n s1 r ef) with (with_res1 (observe n s1 r ef) None).
  apply IH; [exact Hst1|exact Hss1|congruence|exact Hk1|exact Ht|exact Hat].
Qed.

(** from the initial state: the C18 oracle accepts every trace of the model, whatever quiescence
    flags the harness supplies (add / start requests naming observed replicas: [holds] reads [o_reps]) *)
Corollary c18_oracle_model_init : forall es rf0 n w0 qs, (1 <= rf0)%nat -> forallb ev_wf es = true ->
  forallb (ev_addrs_lt n) es = true ->
  walk_q (fun q => lift (c18_step rf0 q) (fun prev a b cur => c18_step rf0 q prev (SetMode 0%nat WO) cur))
         0 (obs0 rf0 n w0) (map One es) (trace n (init rf0 w0) (map One es)) qs = None.
Proof.
  intros es rf0 n w0 qs H Hwf Hal. unfold obs0.
  change (observe n (init rf0 w0) ROk noeff) with (with_res1 (observe n (init rf0 w0) ROk noeff) None).
  apply c18_oracle_model; [apply struct_init; exact H|apply status_init; exact H|reflexivity|apply keys_lt_init|exact Hwf|exact Hal].
Qed.

(** * the trace oracle of C13 holds on every trace of the model (single-request histories), for
    quiescence flags that are true only when no monitor notification is undelivered, and histories whose
    add / start requests name observed replicas (addresses below [n]) *)
From Jiva Require Import Ctl.CheckpointInv.

(** ** a checkpoint that is newly recorded by an event is the head of every listed replica's chain *)
Definition ckn (s t : cst) : Prop := checkpoint t = checkpoint s \/ checkpoint t = None.
Lemma ckn_refl : forall s, ckn s s. Proof. intros; left; reflexivity. Qed.
Lemma ckn_trans : forall a b c, ckn a b -> ckn b c -> ckn a c.
Proof. intros a b c [H1|H1] [H2|H2]; unfold ckn; try (right; congruence). left; congruence. Qed.
Lemma ckn_cpr : forall s t, cpr s t -> ckn s t.
Proof. intros s t [H _]. left. exact H. Qed.

Lemma ckn_remove_replica : forall s fs a, struct_ok s -> ckn s (remove_replica_nolock s fs a).
Proof.
  intros s fs a H. destruct (has_replica s a) eqn:E.
  - right. apply checkpoint_withdrawn_on_removal; assumption.
  - unfold remove_replica_nolock. rewrite E. apply ckn_refl.
Qed.

Lemma ckn_remove_all : forall errs s fs, struct_ok s -> ckn s (remove_all s fs errs).
Proof.
  unfold remove_all. induction errs as [|a t IH]; intros s fs H; cbn; [apply ckn_refl|].
  eapply ckn_trans; [apply ckn_remove_replica; exact H|apply IH; apply struct_remove_replica; exact H].
Qed.

Lemma ckn_errors : forall s fs errs, struct_ok s -> ckn s (remove_all (fst (handle_error_nolock s errs)) fs errs).
Proof.
  intros s fs errs H. eapply ckn_trans; [apply ckn_cpr; apply cpr_handle_error|].
  apply ckn_remove_all. apply struct_handle_error. exact H.
Qed.

Lemma ckn_can_add : forall s fs a, struct_ok s -> ckn s (fst (can_add s fs a)).
Proof.
  intros s fs a H. unfold can_add.
  destruct (has_replica s a); [apply ckn_refl|].
  destruct (find (fun p => mode_eqb (snd p) WO) (replicas s)) as [[wo m]|]; [|apply ckn_refl].
  destruct (negb (amem (backends s) wo) || flt fs wo KRev || flt fs a KHttp); [apply ckn_refl|].
  destruct (f_rev (wget (w s) wo) <? f_rev (wget (w s) a)); [|apply ckn_refl].
  cbn [fst]. apply ckn_remove_replica. exact H.
Qed.

Lemma ckn_add_replica_nolock : forall s fs a i b, struct_ok s -> ckn s (fst (add_replica_nolock s fs a i b)).
Proof.
  intros s fs a i b H. unfold add_replica_nolock.
  pose proof (ckn_can_add s fs a H) as Hc0.
  destruct (can_add s fs a) as [s0 ok]. cbn [fst] in *.
  destruct ok; cbn [negb]; [|exact Hc0].
  set (after := if b then _ else _).
  assert (Hafter : match after with Some (s3, _) => checkpoint s3 = checkpoint s0 | None => True end).
  { subst after. destruct b; [|reflexivity].
    destruct (negb (remain_ok s0)); [reflexivity|].
    pose proof (ck_snapshot_all (upd_nsnap s0 (S (nsnap s0))) fs (nsnap s0)) as Hs.
    destruct (snapshot_all (upd_nsnap s0 (S (nsnap s0))) fs (nsnap s0)) as [s2 errs]. cbn [fst] in Hs.
    destruct errs; [destruct (flt fs a KSnap)|]; exact Hs. }
  destruct after as [[s3 r]|]; [|exact Hc0].
  assert (G : ckn s s3) by (eapply ckn_trans; [exact Hc0|left; exact Hafter]).
  destruct r; try exact G.
  destruct (flt fs a KSetModeWO); [exact G|].
  eapply ckn_trans; [exact G|left; reflexivity].
Qed.

Lemma ckn_add_during_start : forall s fs a, struct_ok s -> (length (replicas s) < rf s)%nat ->
  ckn s (fst (add_during_start s fs a)).
Proof.
  intros s fs a H Hroom. unfold add_during_start.
  destruct (create_backend s fs a) as [[s1 i]|] eqn:Hcb; [|left; reflexivity].
  pose proof (struct_create_backend _ _ _ _ _ Hcb) as S1.
  assert (H1 : struct_ok s1) by (eapply sst_struct; [exact S1|exact H]).
  assert (C1 : ckn s s1) by (apply ckn_cpr; eapply cpr_create_backend; eauto).
  destruct S1 as [R1 [R2 [R3 _]]].
  destruct (flt fs a KSize); [eapply ckn_trans; [exact C1|left; reflexivity]|].
  set (s2 := if csize s1 =? maxint then _ else s1).
  assert (S2 : same_struct_fields s1 s2).
  { subst s2. destruct (csize s1 =? maxint); [apply sst_upd_csize|apply sst_refl]. }
  assert (H2 : struct_ok s2) by (eapply sst_struct; eauto).
  assert (C2 : ckn s s2).
  { eapply ckn_trans; [exact C1|]. subst s2. destruct (csize s1 =? maxint); left; reflexivity. }
  destruct (negb (csize s2 =? f_size (wget (w s1) a))); [eapply ckn_trans; [exact C2|left; reflexivity]|].
  assert (Hroom2 : (length (replicas s2) < rf s2)%nat).
  { destruct S2 as [Q1 [Q2 [Q3 _]]]. rewrite Q1, Q3, R1, R3. exact Hroom. }
  pose proof (struct_add_replica_nolock s2 fs a i false H2 Hroom2) as H3.
  pose proof (ckn_add_replica_nolock s2 fs a i false H2) as C3.
  destruct (add_replica_nolock s2 fs a i false) as [s3 r]. cbn [fst] in H3, C3.
  assert (C3' : ckn s s3) by (eapply ckn_trans; eauto).
  assert (Rm : ckn s (remove_replica_nolock s3 fs a)) by (eapply ckn_trans; [exact C3'|apply ckn_remove_replica; exact H3]).
  destruct r; try (eapply ckn_trans; [exact C3'|left; reflexivity]).
  destruct (flt fs a KClone); [exact Rm|].
  assert (G : ckn s (fst (if flt fs a KSetModeRW then (remove_replica_nolock s3 fs a, RErr)
                  else (set_mode_nolock (upd_rep s3 a (fun f => f_set_mode f RRW)) a RW, ROk)))).
  { destruct (flt fs a KSetModeRW); cbn [fst]; [exact Rm|].
    eapply ckn_trans; [exact C3'|]. apply ckn_cpr.
    eapply cpr_trans; [apply cpr_upd_rep; apply wrel_mode|apply cpr_set_mode; discriminate]. }
  destruct (f_clone (wget (w s3) a)); try exact G. exact Rm.
Qed.

Definition heads (t : cst) (c : nat) : Prop :=
  forall a, In a (keys (replicas t)) -> exists tl, f_chain (wget (w t) a) = c :: tl.
Definition fresh (s t : cst) : Prop :=
  forall c, checkpoint t = Some c -> checkpoint s = Some c \/ (count_rw (replicas t) = rf t /\ heads t c).

Lemma fresh_ckn : forall s t, ckn s t -> fresh s t.
Proof. intros s t [H|H] c Hc; [left; congruence|congruence]. Qed.

Lemma fresh_update : forall s x fs, struct_ok x -> fresh s (update_checkpoint x fs).
Proof.
  intros s x fs H c Hc. right.
  destruct (checkpoint_recorded_sound x fs c Hc) as [Hcnt [_ [Hch _]]].
  destruct (sst_update_checkpoint x fs) as [R [_ [Rf _]]].
  split; [rewrite R, Rf; exact Hcnt|].
  intros a Ha. rewrite R, <- (st_mirror x H), keys_proj in Ha. unfold keys in Ha.
  apply in_map_iff in Ha. destruct Ha as [p [Hp Hin]]. subst a.
  rewrite (update_checkpoint_keeps f_chain cpi_chain). exact (Hch p Hin).
Qed.

Lemma fresh_start_frontend : forall s t, fresh s t -> fresh s (start_frontend t).
Proof.
  intros s t Hf. unfold start_frontend. destruct (replicas t) eqn:E; [exact Hf|].
  intros c Hc. destruct (Hf c Hc) as [P|[P0 P]]; [left; exact P|right].
  split; [exact P0|]. intros a Ha. exact (P a Ha).
Qed.

Theorem checkpoint_fresh_step : forall s e, struct_ok s -> ev_wf e = true -> fresh s (fst (fst (step s e))).
Proof.
  intros s e H Hwf. destruct e; cbn [step].
  - apply fresh_ckn. apply ckn_cpr. apply cpr_of_sc. apply sc_do_register.
  - (* start *)
    cbn in Hwf. apply Nat.leb_le in Hwf. pose proof (st_rf s H) as Hrf. unfold do_start.
    destruct addrs as [|a0 t]; [apply fresh_ckn; apply ckn_refl|].
    destruct t as [|a1 t]; [|cbn in Hwf; lia].
    destruct (replicas s) eqn:Er; [|apply fresh_ckn; apply ckn_refl].
    destruct (negb (signalled s) || negb _); [apply fresh_ckn; apply ckn_refl|].
    set (s0 := upd_csize _ maxint).
    assert (H0 : struct_ok s0).
    { subst s0. constructor; cbn; [constructor|reflexivity|lia|lia|exact Hrf|reflexivity|exact (st_reg s H)]. }
    assert (Hroom : (length (replicas s0) < rf s0)%nat) by (subst s0; cbn; lia).
    cbn [start_adds].
    pose proof (struct_add_during_start s0 fs a0 H0 Hroom) as H1.
    pose proof (ckn_add_during_start s0 fs a0 H0 Hroom) as C1.
    destruct (add_during_start s0 fs a0) as [s1 r]. cbn [fst] in H1, C1.
    assert (C1' : fresh s s1) by (apply fresh_ckn; eapply ckn_trans; [left; reflexivity|exact C1]).
    destruct r; try (cbn [fst]; apply fresh_start_frontend; exact C1').
    destruct (existsb (fun p => flt fs (fst p) KRev) (replicas s1)); [cbn [fst]; apply fresh_start_frontend; exact C1'|].
    cbn [fst]. apply fresh_start_frontend. apply fresh_update.
    eapply sst_struct; [apply sst_update_vol_status|].
    match goal with |- struct_ok (fold_left ?f ?l s1) =>
      change (struct_ok (fold_left (fun acc p => if (fun q => snd q =? fold_left Z.max (map snd l) 0) p then acc
                                               else set_mode_nolock acc (fst p) ERR) l s1)) end.
    apply struct_fold_set_mode_err. exact H1.
  - (* add-check *)
    apply fresh_ckn. unfold do_add_check.
    pose proof (ckn_can_add s fs a H) as Hc. destruct (can_add s fs a) as [s1 ok]. cbn [fst] in Hc.
    destruct (negb ok); [exact Hc|]. destruct (Nat.eqb (rf s1) (length (replicas s1))); [exact Hc|].
    eapply ckn_trans; [exact Hc|left; reflexivity].
  - (* add-commit *)
    unfold do_add_commit.
    destruct (negb (existsb (Nat.eqb a) (pend_adds s))); [apply fresh_ckn; apply ckn_refl|].
    set (s0 := upd_pend_adds s _).
    assert (H0 : struct_ok s0) by (eapply sst_struct; [apply sst_upd_pend_adds|exact H]).
    destruct (create_backend s0 fs a) as [[s1 i]|] eqn:Hcb; [|apply fresh_ckn; left; reflexivity].
    pose proof (struct_create_backend _ _ _ _ _ Hcb) as S1.
    assert (H1 : struct_ok s1) by (eapply sst_struct; eauto).
    assert (C1 : ckn s s1).
    { apply (ckn_trans s s0 s1); [left; reflexivity|]. apply ckn_cpr. eapply cpr_create_backend. exact Hcb. }
    destruct (Nat.eqb (rf s1) (length (replicas s1))) eqn:Erf.
    { apply fresh_ckn. eapply ckn_trans; [exact C1|left; reflexivity]. }
    assert (Hroom : (length (replicas s1) < rf s1)%nat).
    { apply Nat.eqb_neq in Erf. destruct H1 as [_ _ Hl _ _ _ _]. lia. }
    pose proof (struct_add_replica_nolock s1 fs a i true H1 Hroom) as H2.
    pose proof (ckn_add_replica_nolock s1 fs a i true H1) as C2.
    destruct (add_replica_nolock s1 fs a i true) as [s2 r]. cbn [fst] in H2, C2.
    destruct r; try (apply fresh_ckn; exact (ckn_trans _ _ _ C1 C2)).
    cbn [fst]. apply fresh_update. eapply sst_struct; [apply sst_update_vol_status|exact H2].
  - (* verify *)
    unfold do_verify.
    destruct (aget (replicas s) a) as [m|]; [|apply fresh_ckn; apply ckn_refl].
    destruct (find (fun p => is_rw (snd p)) (replicas s)) as [[r0 m0]|]; [|destruct m; apply fresh_ckn; apply ckn_refl].
    destruct m; try (apply fresh_ckn; apply ckn_refl).
    destruct (flt fs r0 KHttp || flt fs a KHttp); [apply fresh_ckn; apply ckn_refl|].
    match goal with |- context [match ?K with Some k => _ | None => _ end] => destruct K as [k|] end; [|apply fresh_ckn; apply ckn_refl].
    destruct (Nat.ltb (length (f_chain (wget (w s) a))) k); [apply fresh_ckn; apply ckn_refl|].
    destruct (negb (list_eqb _ _)); [apply fresh_ckn; apply ckn_refl|].
    destruct (negb (amem (backends s) r0) || flt fs r0 KRev); [apply fresh_ckn; apply ckn_refl|].
    destruct (negb (amem (backends s) a) || flt fs a KSetModeRW); [apply fresh_ckn; apply ckn_refl|].
    set (s1 := upd_rep s a _).
    assert (H1 : struct_ok s1) by (eapply sst_struct; [apply sst_upd_rep|exact H]).
    destruct (flt fs a KSetRev); [apply fresh_ckn; left; reflexivity|].
    cbn [fst]. apply fresh_update.
    eapply sst_struct; [apply sst_update_vol_status|].
    apply struct_set_mode; [discriminate|]. eapply sst_struct; [apply sst_upd_rep|exact H1].
  - cbn. apply fresh_ckn. apply ckn_remove_replica. exact H.
  - apply fresh_ckn. destruct m; cbn; try apply ckn_refl; left; apply ck_set_mode.
  - apply fresh_ckn. unfold do_mon_fire.
    destruct (first_for (pend_mon s) (Nat.eqb a)) as [[i x]|]; [|apply ckn_refl].
    cbn [fst]. apply (ckn_trans s (upd_mon s (live_mon s) (adel (pend_mon s) i))); [left; reflexivity|apply ckn_remove_replica].
    eapply sst_struct; [apply sst_upd_mon|exact H].
  - apply fresh_ckn. unfold do_mon_fail.
    destruct (first_for (rev (live_mon s)) (Nat.eqb a)) as [[i x]|]; [|apply ckn_refl].
    cbn [fst]. apply (ckn_trans s (set_mode_nolock (upd_mon s (adel (live_mon s) i) (pend_mon s)) a ERR));
      [left; rewrite ck_set_mode; reflexivity|apply ckn_remove_replica].
    apply struct_set_mode; [discriminate|]. eapply sst_struct; [apply sst_upd_mon|exact H].
  - (* write *)
    apply fresh_ckn. unfold do_write.
    destruct (ro s); [apply ckn_refl|].
    destruct ((off <? 0) || (csize s <? off + len)); [apply ckn_refl|].
    destruct (negb (avail s)); [apply ckn_refl|].
    set (s1 := fold_left _ (writers s) s).
    assert (H1 : struct_ok s1).
    { eapply sst_struct; [|exact H]. subst s1. apply sst_fold_left.
      intros t x. destruct (flt fs x KWrite); [apply sst_refl|apply sst_upd_rep]. }
    assert (C1 : ckn s s1).
    { apply ckn_cpr. subst s1. apply cpr_fold.
      intros t x. destruct (flt fs x KWrite); [apply cpr_refl|apply cpr_upd_rep; apply wrel_apply]. }
    destruct (io_errs (writers s) fs KWrite KWriteAp) as [|e es] eqn:Ee; [exact C1|].
    pose proof (ckn_errors s1 fs (e :: es) H1) as C2.
    destruct (handle_error_nolock s1 (e :: es)) as [s2 sup]. cbn [fst] in *. eapply ckn_trans; eauto.
  - apply fresh_ckn. unfold do_sync.
    destruct (ro s); [apply ckn_refl|]. destruct (negb (avail s)); [apply ckn_refl|].
    destruct (io_errs (writers s) fs KSync KSync) as [|e es] eqn:Ee; [apply ckn_refl|].
    pose proof (ckn_errors s fs (e :: es) H) as C2.
    destruct (handle_error_nolock s (e :: es)) as [s2 sup]. cbn [fst] in *. exact C2.
  - apply fresh_ckn. unfold do_sync.
    destruct (ro s); [apply ckn_refl|]. destruct (negb (avail s)); [apply ckn_refl|].
    destruct (io_errs (writers s) fs KUnmap KUnmap) as [|e es] eqn:Ee; [apply ckn_refl|].
    pose proof (ckn_errors s fs (e :: es) H) as C2.
    destruct (handle_error_nolock s (e :: es)) as [s2 sup]. cbn [fst] in *. exact C2.
  - (* read *)
    apply fresh_ckn. unfold do_read.
    destruct ((off <? 0) || (csize s <? off + len)); [apply ckn_refl|].
    assert (G : ckn s (fst (fst (
      if negb (avail s) then (s, RErr, noeff)
      else if negb (read_order_ok s order fs) then (s, RInvalid, noeff)
      else
        let errs := filter (fun a => flt fs a KRead) order in
        let served := match rev order with lst :: _ => if flt fs lst KRead then None else Some lst | [] => None end in
        match errs with
        | [] => (s, ROk, mkeff [] served)
        | _ =>
            let '(s2, suppressed) := handle_error_nolock s errs in
            let s3 := remove_all s2 fs errs in
            (s3, match served with Some _ => if suppressed then ROk else RErr | None => RErr end, mkeff [] served)
        end)))).
    { destruct (negb (avail s)); [apply ckn_refl|].
      destruct (negb (read_order_ok s order fs)); [apply ckn_refl|]. cbv zeta.
      destruct (filter (fun a => flt fs a KRead) order) as [|e es]; [apply ckn_refl|].
      pose proof (ckn_errors s fs (e :: es) H) as C2.
      destruct (handle_error_nolock s (e :: es)) as [s2 sup]. cbn [fst] in *. exact C2. }
    destruct (replicas s) as [|[a0 m0] t]; [apply ckn_refl|].
    destruct m0; destruct t; try exact G; apply ckn_refl.
  - (* snapshot *)
    apply fresh_ckn. unfold do_snapshot.
    destruct (negb (Nat.eqb (rwc s) (rf s))); [apply ckn_refl|].
    destruct (Nat.eqb (length (backends s)) 0); [apply ckn_refl|].
    destruct (negb (remain_ok s)); [apply ckn_refl|].
    destruct (last_rw s) as [r0|]; [|apply ckn_refl].
    destruct (flt fs r0 KHttp); [apply ckn_refl|].
    destruct (existsb (Nat.eqb name) (f_chain (wget (w s) r0))); [apply ckn_refl|].
    pose proof (cpr_snapshot_all s fs name) as Hs.
    destruct (snapshot_all s fs name) as [s1 errs]. cbn [fst] in Hs.
    destruct errs as [|e es]; [apply ckn_cpr; exact Hs|].
    pose proof (cpr_handle_error (e :: es) s1) as H2.
    destruct (handle_error_nolock s1 (e :: es)) as [s2 sup]. cbn [fst] in *.
    apply ckn_cpr. eapply cpr_trans; eauto.
  - (* resize *)
    apply fresh_ckn. unfold do_resize.
    destruct (newsize <? csize s); [apply ckn_refl|]. destruct (newsize =? csize s); [apply ckn_refl|].
    set (s1 := fold_left _ (writers s) s).
    assert (C1 : cpr s s1).
    { subst s1. apply cpr_fold.
      intros t x. destruct (flt fs x KResize); [apply cpr_refl|apply cpr_upd_rep; apply wrel_size]. }
    set (errs := filter (fun a => flt fs a KResize) (writers s)).
    assert (C2 : cpr s (fst (match errs with
                               | [] => (s1, false)
                               | _ => let '(s2, suppressed) := handle_error_nolock s1 errs in (s2, negb suppressed)
                               end))).
    { destruct errs as [|e es]; [exact C1|].
      pose proof (cpr_handle_error (e :: es) s1) as H2.
      destruct (handle_error_nolock s1 (e :: es)) as [s2 sup]. cbn [fst] in *. eapply cpr_trans; eauto. }
    destruct (match errs with [] => (s1, false) | _ => _ end) as [s2 failed]. cbn [fst] in C2.
    apply ckn_cpr. destruct failed; [exact C2|].
    destruct (flt fs 0%nat KFeResize); [exact C2|].
    eapply cpr_trans; [exact C2|apply cpr_same; reflexivity].
  - apply fresh_ckn. unfold do_sync_data. destruct (aget (replicas s) a) as [[]|]; try apply ckn_refl.
    destruct (find _ (replicas s)) as [[r0 m0]|]; [|apply ckn_refl]. left. reflexivity.
Qed.

(** listed replicas are observed replicas when add / start requests name addresses below [n]:
    [ev_addrs_lt], [keys_lt], [keys_lt_step] of Ctl/OracleProofs2.v *)

(** ** an acknowledged snapshot is on every writer that did not fail the call *)
Lemma snapshot_fold_chain : forall fs n ws s x, In x ws -> flt fs x KSnap = false ->
  In n (f_chain (wget (w (fold_left (fun acc a => if flt fs a KSnap then acc else upd_rep acc a (fun f => f_snap f n)) ws s)) x)).
Proof.
  intros fs n. induction ws as [|a t IH]; intros s x Hin Hf; [contradiction|].
  cbn [fold_left]. destruct (Nat.eq_dec a x) as [E|E].
  - subst a. rewrite Hf.
    match goal with |- In n (f_chain (wget (w (fold_left ?F t ?s1)) x)) =>
      assert (C : cpr s1 (fold_left F t s1)) end.
    { apply cpr_fold. intros u y. destruct (flt fs y KSnap); [apply cpr_refl|apply cpr_upd_rep; apply wrel_snap]. }
    destruct C as [_ [_ [_ [_ C]]]]. destruct (C x) as [C1 _]. apply C1.
    unfold upd_rep. cbn [w upd_w]. rewrite wget_wset, Nat.eqb_refl. left. reflexivity.
  - apply IH; [|exact Hf]. destruct Hin as [Hin|Hin]; [contradiction|exact Hin].
Qed.

Lemma snapshot_ack_reaches : forall s n fs x, snd (do_snapshot s n fs) = ROk ->
  In x (writers s) -> flt fs x KSnap = false ->
  In n (f_chain (wget (w (fst (do_snapshot s n fs))) x)).
Proof.
  intros s n fs x. unfold do_snapshot.
  destruct (negb (Nat.eqb (rwc s) (rf s))); [cbn; discriminate|].
  destruct (Nat.eqb (length (backends s)) 0); [cbn; discriminate|].
  destruct (negb (remain_ok s)); [cbn; discriminate|].
  destruct (last_rw s) as [r0|]; [|cbn; discriminate].
  destruct (flt fs r0 KHttp); [cbn; discriminate|].
  destruct (existsb (Nat.eqb n) (f_chain (wget (w s) r0))); [cbn; discriminate|].
  intros _ Hin Hf.
  pose proof (snapshot_fold_chain fs n (writers s) s x Hin Hf) as Hc.
  unfold snapshot_all.
  destruct (filter (fun a => flt fs a KSnap) (writers s)) as [|e es]; [exact Hc|].
  pose proof (keeps_handle_error f_chain (e :: es)
               (fold_left (fun acc a => if flt fs a KSnap then acc else upd_rep acc a (fun f => f_snap f n)) (writers s) s) x) as K.
  destruct (handle_error_nolock _ (e :: es)) as [s2 sup]. cbn [fst] in *. rewrite K. exact Hc.
Qed.

Lemma count_rw_full : forall l, count_rw l = length l -> forall a m, In (a, m) l -> m = RW.
Proof.
  unfold count_rw. induction l as [|[k v] t IH]; intros Hc a m Hin; [contradiction|].
  cbn in Hc. pose proof (filter_length_le (fun p : addr * mode => is_rw (snd p)) t) as Hle.
  destruct (is_rw v) eqn:Ev; cbn in Hc.
  - destruct Hin as [Hin|Hin]; [inversion Hin; subst; destruct m; try discriminate; reflexivity|].
    apply (IH (eq_add_S _ _ Hc) a m Hin).
  - exfalso. rewrite Hc in Hle. exact (Nat.nle_succ_diag_l _ Hle).
Qed.

Lemma in_service_rw : forall l a, In (a, RW) l -> In a (in_service l).
Proof.
  intros l a Hin. unfold in_service. change a with (fst (a, RW)). apply in_map. apply filter_In. split; [exact Hin|reflexivity].
Qed.

(** ** the C13 oracle on model steps *)
Lemma mem_in : forall a l, In a l -> mem a l = true.
Proof. intros a l H. unfold mem. apply existsb_exists. exists a. split; [exact H|apply Nat.eqb_refl]. Qed.

Lemma rep_of_observe : forall n s r e a, (a < n)%nat ->
  rep_of (observe n s r e) a = Some (observe_rep (wget (w s) a)).
Proof. intros. unfold rep_of, observe. cbn [o_reps]. rewrite nth_error_map_seq by assumption. reflexivity. Qed.

Lemma chain_of_observe : forall n s r e a, (a < n)%nat -> chain_of (observe n s r e) a = f_chain (wget (w s) a).
Proof. intros. unfold chain_of. rewrite rep_of_observe by assumption. reflexivity. Qed.

Lemma untouched_with_res1 : forall n s r0 ef0 o1 r2 e2,
  untouched (with_res1 (observe n s r0 ef0) o1) (observe n s r2 e2) = true.
Proof.
  intros. unfold untouched. apply forallb_forall. intros a _. unfold same_reps, rep_of, with_res1, observe. cbn [o_reps].
  destruct (nth_error (map (fun a0 => observe_rep (wget (w s) a0)) (seq 0 n)) a) as [p|]; [|reflexivity].
  rewrite rep_diff_refl. reflexivity.
Qed.

(** a checkpoint that an event newly records: in the state after the event exactly RF replicas are
    listed, all RW (nothing marks a replica ERR after the recording within the same event), the
    checkpoint is the latest snapshot of every one of them and every one has persisted it *)
Theorem recorded_checkpoint_all_rw : forall s e c, ck_inv s -> ev_wf e = true ->
  checkpoint (fst (fst (step s e))) = Some c -> checkpoint s <> Some c ->
  count_rw (replicas (fst (fst (step s e)))) = rf (fst (fst (step s e)))
  /\ length (replicas (fst (fst (step s e)))) = rf (fst (fst (step s e)))
  /\ forall a, In a (keys (replicas (fst (fst (step s e))))) ->
       (exists tl, f_chain (wget (w (fst (fst (step s e)))) a) = c :: tl)
       /\ f_cp (wget (w (fst (fst (step s e)))) a) = Some c /\ f_cpk (wget (w (fst (fst (step s e)))) a) = true.
Proof.
  intros s e c Hi Hwf Hc Hne.
  pose proof (ck_inv_step s e Hi Hwf) as [_ [C1 _]]. destruct Hi as [Hst _].
  destruct (checkpoint_fresh_step s e Hst Hwf c Hc) as [P|[P0 P]]; [contradiction|].
  destruct (C1 c Hc) as [S2 [_ Hall]].
  split; [exact P0|]. split; [exact S2|].
  intros a Ha. destruct (Hall a Ha) as [_ [A2 A3]]. split; [exact (P a Ha)|]. split; assumption.
Qed.

(** ** a replica that fails the snapshot call is marked ERR -- when the snapshot is fanned out at all.
    With the gate open (all RF replicas RW) [do_snapshot] still refuses before calling any replica when the
    name lookup on the last RW replica fails (KHttp) or the name is already in that replica's chain *)
Definition snap_reaches (s : cst) (e : event) : Prop :=
  match e with
  | Snapshot n fs =>
      count_rw (replicas s) = rf s ->
      forall r0, last_rw s = Some r0 ->
        flt fs r0 KHttp = false /\ existsb (Nat.eqb n) (f_chain (wget (w s) r0)) = false
  | _ => True
  end.

Lemma last_rw_some : forall s, (0 < count_rw (replicas s))%nat -> exists r0, last_rw s = Some r0.
Proof.
  intros s H. unfold last_rw, count_rw in *.
  destruct (filter (fun p => is_rw (snd p)) (replicas s)) as [|p l]; [cbn in H; inversion H|].
  cbn [rev]. destruct (rev l ++ [p]) as [|q t] eqn:E; [apply app_eq_nil in E; destruct E; discriminate|].
  exists (fst q). reflexivity.
Qed.

Lemma snapshot_failed_not_in_service : forall s n fs r0 a,
  struct_ok s -> status_ok s -> count_rw (replicas s) = rf s -> length (replicas s) = rf s ->
  last_rw s = Some r0 -> flt fs r0 KHttp = false -> existsb (Nat.eqb n) (f_chain (wget (w s) r0)) = false ->
  In a (keys (replicas s)) -> flt fs a KSnap = true ->
  ~ In a (in_service (replicas (fst (do_snapshot s n fs)))).
Proof.
  intros s n fs r0 a Hst [Hc _] Hcnt Hlen Hl Hh He Ha Hf.
  assert (Hrw : forall x m, In (x, m) (replicas s) -> m = RW) by (apply count_rw_full; congruence).
  pose proof (st_rf s Hst) as Hrf.
  unfold do_snapshot. rewrite Hc, Hcnt, Nat.eqb_refl. cbn [negb].
  assert (Hb : Nat.eqb (length (backends s)) 0 = false).
  { apply Nat.eqb_neq. intro E. pose proof (f_equal (@length _) (st_mirror s Hst)) as L.
    unfold proj in L. rewrite map_length, E, Hlen in L. rewrite <- L in Hrf. inversion Hrf. }
  rewrite Hb.
  assert (Hr : remain_ok s = true).
  { unfold remain_ok. apply negb_true_iff. destruct (existsb _ (backends s)) eqn:Ex; [|reflexivity].
    apply existsb_exists in Ex. destruct Ex as [p [Hp Hm]].
    assert (Hin : In (fst p, fst (snd p)) (replicas s)).
    { rewrite <- (st_mirror s Hst). unfold proj. apply in_map_iff. exists p. split; [reflexivity|exact Hp]. }
    apply Hrw in Hin. rewrite Hin in Hm. discriminate. }
  rewrite Hr, Hl, Hh, He. cbn [negb].
  assert (Haw : In a (writers s)).
  { rewrite (writers_in_service_st s Hst). apply in_service_rw.
    apply keys_in in Ha. destruct Ha as [m Hm]. rewrite (Hrw a m Hm) in Hm. exact Hm. }
  pose proof (sst_snapshot_all s fs n) as Hs. unfold snapshot_all in *. cbn [fst] in Hs.
  set (s1 := fold_left _ (writers s) s) in *.
  assert (H1 : struct_ok s1) by (eapply sst_struct; [exact Hs|exact Hst]).
  assert (Hie : In a (filter (fun x => flt fs x KSnap) (writers s))) by (apply filter_In; split; assumption).
  destruct (filter (fun x => flt fs x KSnap) (writers s)) as [|e es]; [contradiction|].
  pose proof (handle_error_errs_not_rw (e :: es) s1 a H1 Hie) as Hn.
  pose proof (in_replicas_handle_error (e :: es) s1) as Hback.
  destruct (handle_error_nolock s1 (e :: es)) as [s2 sup]. cbn [fst] in *.
  intro Hin. apply in_service_in in Hin. destruct Hin as [m [Hm Hne]].
  pose proof (Hback (a, m) Hm Hne) as Hold. destruct Hs as [R _]. rewrite R in Hold.
  rewrite (Hrw a m Hold) in Hm. exact (Hn Hm).
Qed.

(** the oracle's guard [snap_called] (Ctl/Oracles.v) implies that the model fans the request out *)
Lemma snap_called_reaches : forall n s e r0 ef0 r0', keys_lt n s ->
  snap_called (with_res1 (observe n s r0 ef0) r0') e = true -> snap_reaches s e.
Proof.
  intros n s e r0 ef0 r0' Hk Hg. destruct e; try exact I. cbn [snap_reaches]. intros _ rl Hl.
  unfold snap_called in Hg. cbn [o_replicas with_res1 observe] in Hg. unfold rw_of in Hg. rewrite <- map_rev in Hg.
  unfold last_rw in Hl.
  destruct (rev (filter (fun p => is_rw (snd p)) (replicas s))) as [|p l] eqn:Er; [discriminate|].
  inversion Hl; subst rl. cbn [map] in Hg. apply andb_prop in Hg. destruct Hg as [G1 G2].
  apply negb_true_iff in G1. apply negb_true_iff in G2. split; [exact G1|].
  assert (Hlt : (fst p < n)%nat).
  { apply Hk. assert (Hin : In p (rev (filter (fun q => is_rw (snd q)) (replicas s)))) by (rewrite Er; left; reflexivity).
    apply in_rev in Hin. apply filter_In in Hin. destruct Hin as [Hin _]. destruct p as [k v]. eapply CheckpointInv.in_keys. exact Hin. }
  unfold chain_of, rep_of in G2. cbn [o_reps with_res1 observe] in G2.
  rewrite nth_error_map_seq in G2 by exact Hlt. exact G2.
Qed.

Lemma c13_step_model : forall rf0 n q s e r0 ef0 r0',
  ck_inv s -> status_ok s -> rf s = rf0 -> keys_lt n s -> ev_wf e = true -> ev_addrs_lt n e = true ->
  (q = true -> pend_mon (fst (fst (step s e))) = []) ->
  c13_step rf0 q (with_res1 (observe n s r0 ef0) r0') e
           (observe n (fst (fst (step s e))) (snd (fst (step s e))) (snd (step s e))) = true.
Proof.
  intros rf0 n q s e r0 ef0 r0' Hi Hss Hrf Hlt Hwf Hel Hq.
  pose proof (ck_inv_step s e Hi Hwf) as [H1 [C1 M1]].
  destruct Hi as [Hst [Hcp Hmon]].
  pose proof (rf_step s e) as Hrf1.
  pose proof (keys_lt_step n s e Hlt Hel) as Hlt1.
  pose proof (checkpoint_fresh_step s e Hst Hwf) as Hfr.
  unfold c13_step. apply andb_true_intro. split.
  - (* the snapshot gate *)
    destruct e; try reflexivity.
    assert (Es : step s (Snapshot name fs) = (fst (do_snapshot s name fs), snd (do_snapshot s name fs), noeff))
      by (cbn [step]; destruct (do_snapshot s name fs); reflexivity).
    rewrite Es. cbn [fst snd o_replicas with_res1 observe].
    destruct (Nat.eqb (count_rw (replicas s)) rf0 && Nat.eqb (length (replicas s)) rf0) eqn:Ec.
    + apply andb_prop in Ec. destruct Ec as [Ec1 Ec2]. apply Nat.eqb_eq in Ec1. apply Nat.eqb_eq in Ec2.
      apply andb_true_intro. split.
      2:{ (* whoever fails the call is not in service afterwards, when the request is fanned out *)
        destruct (snap_called (with_res1 (observe n s r0 ef0) r0') (Snapshot name fs)) eqn:Eg; [|reflexivity].
        pose proof (snap_called_reaches n s (Snapshot name fs) r0 ef0 r0' Hlt Eg) as Hsr. cbn [snap_reaches] in Hsr.
        apply forallb_forall. intros a Ha. destruct (flt fs a KSnap) eqn:Ef; [|reflexivity].
        apply negb_true_iff. apply mem_false.
        assert (Hcr : count_rw (replicas s) = rf s) by congruence.
        destruct (last_rw_some s) as [rl Hl].
        { rewrite Hcr. exact (st_rf s Hst). }
        destruct (Hsr Hcr rl Hl) as [Hh He].
        apply (snapshot_failed_not_in_service s name fs rl a Hst Hss Hcr (eq_trans Ec2 (eq_sym Hrf)) Hl Hh He Ha Ef). }
      unfold is_ack. cbn [o_res observe].
      destruct (res_eqb (res_class (snd (do_snapshot s name fs))) ROk) eqn:Ea; [|reflexivity].
      assert (Hok : snd (do_snapshot s name fs) = ROk) by (destruct (snd (do_snapshot s name fs)); try discriminate; reflexivity).
      apply forallb_forall. intros a Ha.
      destruct (flt fs a KSnap) eqn:Ef; [reflexivity|].
      rewrite chain_of_observe by (apply Hlt; exact Ha). apply mem_in.
      apply snapshot_ack_reaches; [exact Hok| |exact Ef].
      rewrite (writers_in_service_st s Hst). apply in_service_rw.
      apply keys_in in Ha. destruct Ha as [m Hm].
      rewrite (count_rw_full (replicas s) (eq_trans Ec1 (eq_sym Ec2)) a m Hm) in Hm. exact Hm.
    + assert (Hne : count_rw (replicas s) <> rf s).
      { intro E. rewrite Hrf in E. rewrite E, Nat.eqb_refl in Ec. cbn [andb] in Ec.
        apply Nat.eqb_neq in Ec. apply Ec.
        pose proof (count_rw_le_length (replicas s)) as L1. pose proof (st_len s Hst) as L2.
        rewrite E in L1. rewrite Hrf in L2. apply Nat.le_antisymm; assumption. }
      rewrite (snapshot_gate s name fs Hss Hne). cbn [fst snd]. unfold is_ack. cbn [o_res observe res_class res_eqb negb andb].
      apply untouched_with_res1.
  - (* the recorded checkpoint: at quiescent points and at the moment it is recorded *)
    cbn [o_checkpoint observe with_res1].
    destruct (checkpoint (fst (fst (step s e)))) as [c|] eqn:Ec; [|reflexivity].
    destruct (q || negb (onat_eqb (checkpoint s) (Some c))) eqn:Eq; [|reflexivity].
    destruct (C1 c Ec) as [S2 [_ Hall]].
    assert (S1 : count_rw (replicas (fst (fst (step s e)))) = rf (fst (fst (step s e)))).
    { destruct q.
      - exact (proj1 (sound_of_inv _ C1 M1 c Ec (Hq eq_refl))).
      - cbn [orb] in Eq. apply negb_true_iff in Eq.
        destruct (Hfr c Ec) as [P|[P _]]; [rewrite P, onat_eqb_refl in Eq; discriminate|exact P]. }
    cbn [o_replicas observe]. rewrite S1, S2, Hrf1, Hrf, !Nat.eqb_refl. cbn [andb].
    apply forallb_forall. intros a Ha.
    pose proof (Hlt1 a Ha) as Han. destruct (Hall a Ha) as [A1 [A2 A3]].
    rewrite chain_of_observe, rep_of_observe by exact Han. rewrite (mem_in _ _ A1). cbn [andb].
    cbn [o_cp observe_rep]. rewrite A2, onat_eqb_refl, andb_true_r.
    destruct (onat_eqb (checkpoint s) (Some c)) eqn:Eo; [reflexivity|].
    destruct (Hfr c Ec) as [P|[_ P]]; [rewrite P, onat_eqb_refl in Eo; discriminate|].
    destruct (P a Ha) as [tl Ht]. rewrite Ht. apply Nat.eqb_refl.
Qed.

(** the quiescence flags supplied with a history are sound for the model: a flag is true only at
    points where the model has no undelivered monitor notification *)
Fixpoint qs_sound (s : cst) (es : list event) (qs : list bool) : Prop :=
  match es, qs with
  | e :: t, q :: qs' =>
      (q = true -> pend_mon (fst (fst (step s e))) = []) /\ qs_sound (fst (fst (step s e))) t qs'
  | _, _ => True
  end.

Theorem c13_oracle_model : forall es rf0 n s r0 ef0 r0' i qs,
  ck_inv s -> status_ok s -> rf s = rf0 -> keys_lt n s ->
  forallb ev_wf es = true -> forallb (ev_addrs_lt n) es = true -> qs_sound s es qs ->
  walk_q (fun q => lift (c13_step rf0 q) (c13_pair rf0))
         i (with_res1 (observe n s r0 ef0) r0') (map One es) (trace n s (map One es)) qs = None.
Proof.
  induction es as [|e t IH]; intros rf0 n s r0 ef0 r0' i qs Hi Hss Hrf Hlt Hwf Hel Hqs; cbn [map trace walk_q]; [reflexivity|].
  cbn [forallb] in Hwf, Hel. apply andb_prop in Hwf. destruct Hwf as [He Ht].
  apply andb_prop in Hel. destruct Hel as [Hle Hlt'].
  cbn [xstep].
  destruct qs as [|q qs].
  { destruct (step s e) as [[s1 r] ef]. reflexivity. }
  cbn [qs_sound] in Hqs. destruct Hqs as [Hq Hqs].
  pose proof (c13_step_model rf0 n q s e r0 ef0 r0' Hi Hss Hrf Hlt He Hle Hq) as Hs.
  pose proof (ck_inv_step s e Hi He) as Hi1.
  pose proof (status_step s e Hss) as Hss1.
  pose proof (rf_step s e) as Hrf1.
  pose proof (keys_lt_step n s e Hlt Hle) as Hlt1.
  destruct (step s e) as [[s1 r] ef] eqn:E. cbn [fst snd] in *.
  cbn [walk_q lift].
  change (with_res1 (observe n s1 r ef) None) with (observe n s1 r ef).
  rewrite Hs.
  change (observe n s1 r ef) with (with_res1 (observe n s1 r ef) None).
  apply IH; [exact Hi1|exact Hss1|congruence|exact Hlt1|exact Ht|exact Hlt'|exact Hqs].
Qed.

Corollary c13_oracle_model_init : forall es rf0 n w0 qs, (1 <= rf0)%nat ->
  forallb ev_wf es = true -> forallb (ev_addrs_lt n) es = true -> qs_sound (init rf0 w0) es qs ->
  walk_q (fun q => lift (c13_step rf0 q) (c13_pair rf0))
         0 (obs0 rf0 n w0) (map One es) (trace n (init rf0 w0) (map One es)) qs = None.
Proof.
  intros es rf0 n w0 qs H Hwf Hel Hqs. unfold obs0.
  change (observe n (init rf0 w0) ROk noeff) with (with_res1 (observe n (init rf0 w0) ROk noeff) None).
  apply c13_oracle_model; try assumption.
  - split; [apply struct_init; exact H|]. split; [apply cp_init|apply mon_init].
  - apply status_init; exact H.
  - reflexivity.
  - intros x [].
Qed.

(** the oracle sees listed replicas only through the [n] observed ones: with a listed replica outside
    that range (here n = 0) it rejects a trace of the model; histories of the check name addresses below
    [n] only ([ev_addrs_lt]) *)
Example c13_oracle_presupposes_observed_addresses :
  walk_q (fun q => lift (c13_step 1 q) (c13_pair 1)) 0 (obs0 1 0 ex_world) (map One ex_boot)
         (trace 0 (init 1 ex_world) (map One ex_boot)) [true; true] = Some 1%nat.
Proof. vm_compute. reflexivity. Qed.

(** and a flag claiming quiescence while a notification is undelivered makes it reject as well *)
Example c13_oracle_presupposes_sound_flags :
  walk_q (fun q => lift (c13_step 1 q) (c13_pair 1)) 0 (obs0 1 1 ex_world) (map One (ex_boot ++ [SetMode 0%nat ERR]))
         (trace 1 (init 1 ex_world) (map One (ex_boot ++ [SetMode 0%nat ERR]))) [true; true; true] = Some 2%nat
  /\ walk_q (fun q => lift (c13_step 1 q) (c13_pair 1)) 0 (obs0 1 1 ex_world) (map One (ex_boot ++ [SetMode 0%nat ERR]))
         (trace 1 (init 1 ex_world) (map One (ex_boot ++ [SetMode 0%nat ERR]))) [true; true; false] = None.
Proof. vm_compute. split; reflexivity. Qed.

(** ** with the gate open the model (as the code) refuses a snapshot before calling any replica when the
    name lookup on the last RW replica fails or the name already exists; a replica whose script says KSnap
    then stays in service.  The clause "a replica that failed the snapshot does not stay in service" of
    [c13_step] is guarded by [snap_called] for this reason: the oracle accepts these traces (without the
    guard it rejected both at step 2) *)
Example c13_accepts_refused_existing_name :
  let es := ex_boot ++ [Snapshot 5%nat [(0%nat, KSnap)]] in
  walk_q (fun q => lift (c13_step 1 q) (c13_pair 1)) 0 (obs0 1 1 ex_world) (map One es)
         (trace 1 (init 1 ex_world) (map One es)) [true; true; true] = None
  /\ map o_res (trace 1 (init 1 ex_world) (map One es)) = [ROk; ROk; RErr]
  /\ map o_replicas (trace 1 (init 1 ex_world) (map One es)) = [[]; [(0%nat, RW)]; [(0%nat, RW)]].
Proof. vm_compute. repeat split. Qed.

Example c13_accepts_refused_failed_lookup :
  let es := ex_boot ++ [Snapshot 7%nat [(0%nat, KHttp); (0%nat, KSnap)]] in
  walk_q (fun q => lift (c13_step 1 q) (c13_pair 1)) 0 (obs0 1 1 ex_world) (map One es)
         (trace 1 (init 1 ex_world) (map One es)) [true; true; true] = None
  /\ map o_res (trace 1 (init 1 ex_world) (map One es)) = [ROk; ROk; RErr]
  /\ map o_replicas (trace 1 (init 1 ex_world) (map One es)) = [[]; [(0%nat, RW)]; [(0%nat, RW)]].
Proof. vm_compute. repeat split. Qed.
