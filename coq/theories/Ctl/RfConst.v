(** * Ctl: the replication factor is never written *)
From Coq Require Import List ZArith Bool Arith Lia.
From Jiva Require Import Ctl.Model.
Import ListNotations.
Open Scope Z_scope.

Ltac dm := repeat match goal with
  | |- context [match ?x with _ => _ end] => destruct x; cbn [fst snd]
  | |- context [if ?x then _ else _] => destruct x; cbn [fst snd]
  end.

Lemma rf_stop_monitoring : forall s i, rf (stop_monitoring s i) = rf s.
Proof. intros. unfold stop_monitoring. dm; reflexivity. Qed.
Lemma rf_update_vol_status : forall s, rf (update_vol_status s) = rf s.
Proof. reflexivity. Qed.
Lemma rf_backend_set_mode : forall s a m, rf (backend_set_mode s a m) = rf s.
Proof. intros. unfold backend_set_mode. dm; rewrite ?rf_stop_monitoring; reflexivity. Qed.
Lemma rf_set_mode : forall s a m, rf (set_mode_nolock s a m) = rf s.
Proof. intros. unfold set_mode_nolock. rewrite rf_update_vol_status. dm; rewrite ?rf_backend_set_mode; reflexivity. Qed.
Lemma rf_fold : forall {A} (f : cst -> A -> cst) l s, (forall t x, rf (f t x) = rf t) -> rf (fold_left f l s) = rf s.
Proof. intros A f l. induction l as [|x l IH]; intros s H; cbn; [reflexivity|]. rewrite IH by exact H. apply H. Qed.
Lemma rf_set_checkpoint : forall s fs n, rf (fst (set_checkpoint s fs n)) = rf s.
Proof. intros. unfold set_checkpoint. dm; reflexivity. Qed.
Lemma rf_update_checkpoint : forall s fs, rf (update_checkpoint s fs) = rf s.
Proof.
  intros. unfold update_checkpoint.
  destruct (Nat.eqb (count_rw (replicas s)) (rf s)); [|reflexivity].
  destruct (get_latest_snapshot s fs) as [n|]; [|reflexivity].
  pose proof (rf_set_checkpoint s fs n). destruct (set_checkpoint s fs n). cbn in *. exact H.
Qed.
Lemma rf_remove_backend : forall s a, rf (remove_backend s a) = rf s.
Proof. intros. unfold remove_backend. dm; cbn; rewrite ?rf_stop_monitoring; reflexivity. Qed.
Lemma rf_remove_replica : forall s fs a, rf (remove_replica_nolock s fs a) = rf s.
Proof.
  intros. unfold remove_replica_nolock. destruct (negb (has_replica s a)); [reflexivity|].
  rewrite rf_update_checkpoint, rf_update_vol_status, rf_remove_backend. cbn. dm; reflexivity.
Qed.
Lemma rf_handle_error : forall errs s, rf (fst (handle_error_nolock s errs)) = rf s.
Proof. intros. unfold handle_error_nolock. cbn [fst]. apply rf_fold. intros. apply rf_set_mode. Qed.
Lemma rf_remove_all : forall errs s fs, rf (remove_all s fs errs) = rf s.
Proof. intros. unfold remove_all. apply rf_fold. intros. apply rf_remove_replica. Qed.
Lemma rf_can_add : forall s fs a, rf (fst (can_add s fs a)) = rf s.
Proof. intros. unfold can_add. dm; rewrite ?rf_remove_replica; reflexivity. Qed.
Lemma rf_snapshot_all : forall s fs n, rf (fst (snapshot_all s fs n)) = rf s.
Proof. intros. unfold snapshot_all. cbn [fst]. apply rf_fold. intros. dm; reflexivity. Qed.
Lemma rf_add_replica_nolock : forall s fs a i b, rf (fst (add_replica_nolock s fs a i b)) = rf s.
Proof.
  intros. unfold add_replica_nolock.
  pose proof (rf_can_add s fs a) as Hc. destruct (can_add s fs a) as [s0 ok]. cbn [fst] in Hc.
  destruct (negb ok); [exact Hc|].
  destruct b.
  - destruct (negb (remain_ok s0)); [exact Hc|].
    pose proof (rf_snapshot_all (upd_nsnap s0 (S (nsnap s0))) fs (nsnap s0)) as Hs.
    destruct (snapshot_all (upd_nsnap s0 (S (nsnap s0))) fs (nsnap s0)) as [s2 errs]. cbn [fst] in Hs.
    destruct errs; [destruct (flt fs a KSnap)|]; cbn; try (rewrite Hs; exact Hc).
    destruct (flt fs a KSetModeWO); cbn; rewrite Hs; exact Hc.
  - destruct (flt fs a KSetModeWO); cbn; exact Hc.
Qed.
Lemma rf_create_backend : forall s fs a s1 i, create_backend s fs a = Some (s1, i) -> rf s1 = rf s.
Proof. intros s fs a s1 i H. unfold create_backend in H. destruct (_ || _); [discriminate|]. inversion H; reflexivity. Qed.
Lemma rf_signal_replica : forall s fs, rf (fst (fst (signal_replica s fs))) = rf s.
Proof. intros. unfold signal_replica. dm; reflexivity. Qed.
Lemma rf_add_during_start : forall s fs a, rf (fst (add_during_start s fs a)) = rf s.
Proof.
  intros. unfold add_during_start.
  destruct (create_backend s fs a) as [[s1 i]|] eqn:Hc; [|reflexivity].
  pose proof (rf_create_backend _ _ _ _ _ Hc) as R1.
  destruct (flt fs a KSize); [exact R1|].
  set (s2 := if csize s1 =? maxint then _ else s1).
  assert (R2 : rf s2 = rf s) by (subst s2; destruct (csize s1 =? maxint); exact R1).
  destruct (negb (csize s2 =? f_size (wget (w s1) a))); [exact R2|].
  pose proof (rf_add_replica_nolock s2 fs a i false) as R3.
  destruct (add_replica_nolock s2 fs a i false) as [s3 r]. cbn [fst] in R3.
  destruct r; cbn [fst]; try (change (rf (rm_from_registered s3)) with (rf s3); congruence).
  destruct (flt fs a KClone); [cbn [fst]; rewrite rf_remove_replica; congruence|].
  assert (G : rf (fst (if flt fs a KSetModeRW then (remove_replica_nolock s3 fs a, RErr)
                  else (set_mode_nolock (upd_rep s3 a (fun f => f_set_mode f RRW)) a RW, ROk))) = rf s).
  { destruct (flt fs a KSetModeRW); cbn [fst]; [rewrite rf_remove_replica; congruence|].
    rewrite rf_set_mode. cbn. congruence. }
  destruct (f_clone (wget (w s3) a)); try exact G. cbn [fst]. rewrite rf_remove_replica. congruence.
Qed.
Lemma rf_start_adds : forall l s fs, rf (fst (start_adds s fs l)) = rf s.
Proof.
  induction l as [|a t IH]; intros; cbn; [reflexivity|].
  pose proof (rf_add_during_start s fs a) as R. destruct (add_during_start s fs a) as [s1 r]. cbn [fst] in R.
  destruct r; cbn; try exact R. rewrite IH. exact R.
Qed.
Lemma rf_start_frontend : forall s, rf (start_frontend s) = rf s.
Proof. intros. unfold start_frontend. dm; reflexivity. Qed.

Lemma rf_do_register : forall s a u r b pick fs, rf (fst (fst (do_register s a u r b pick fs))) = rf s.
Proof.
  intros s a u r b pick fs. unfold do_register.
  destruct (Nat.eqb u 0); [reflexivity|].
  set (s1 := upd_registered s _).
  destruct (replicas s1); [|reflexivity].
  set (sw := if signalled s1 then _ else _).
  assert (Hsw : match sw with
                | inr out => rf (fst (fst out)) = rf s
                | inl None => True
                | inl (Some (s2, _)) => rf s2 = rf s end).
  { subst sw. destruct (signalled s1); [|reflexivity].
    destruct (match maxrev s1 with Some m => Nat.eqb m a | None => false end); [reflexivity|].
    destruct (match maxrev s1 with Some m => flt fs m KAlive | None => true end); [|reflexivity].
    destruct (maxrev s1); reflexivity. }
  destruct sw as [[[s2 sg0]|]|out]; [| reflexivity | exact Hsw].
  destruct b; [exact Hsw|].
  set (s3 := match maxrev s2 with None => _ | Some _ => s2 end).
  assert (H3 : rf s3 = rf s) by (subst s3; destruct (maxrev s2); exact Hsw).
  match goal with |- context [match ?L with Some l => _ | None => _ end] => destruct L as [l|] end; [|exact H3].
  set (s4 := upd_leader s3 l (signalled s3)).
  destruct (Nat.leb (quorum (rf s4)) (length (registered s4))); [|exact H3].
  pose proof (rf_signal_replica s4 fs) as R5.
  destruct (signal_replica s4 fs) as [[s5 ok] sg]. cbn [fst] in *. rewrite R5. exact H3.
Qed.

Lemma rf_do_start : forall s l fs, rf (fst (fst (do_start s l fs))) = rf s.
Proof.
  intros. unfold do_start. destruct l as [|a0 t]; [reflexivity|].
  destruct (replicas s); [|reflexivity].
  destruct (negb (signalled s) || negb _); [reflexivity|].
  set (s0 := upd_csize _ maxint).
  pose proof (rf_start_adds (a0 :: t) s0 fs) as R1.
  destruct (start_adds s0 fs (a0 :: t)) as [s1 r]. cbn [fst] in R1.
  destruct r; cbn [fst]; rewrite ?rf_start_frontend; try exact R1.
  destruct (existsb _ (replicas s1)); cbn [fst]; rewrite rf_start_frontend; [exact R1|].
  rewrite rf_update_checkpoint, rf_update_vol_status.
  rewrite rf_fold; [exact R1|]. intros t0 x. destruct (_ =? _); [reflexivity|apply rf_set_mode].
Qed.

Theorem rf_step : forall s e, rf (fst (fst (step s e))) = rf s.
Proof.
  intros s e. destruct e; cbn [step].
  - apply rf_do_register.
  - apply rf_do_start.
  - unfold do_add_check. pose proof (rf_can_add s fs a) as R. destruct (can_add s fs a) as [s1 ok]. cbn [fst] in R.
    destruct (negb ok); [exact R|]. destruct (Nat.eqb _ _); exact R.
  - unfold do_add_commit. destruct (negb _); [reflexivity|].
    set (s0 := upd_pend_adds s _).
    destruct (create_backend s0 fs a) as [[s1 i]|] eqn:Hc; [|reflexivity].
    pose proof (rf_create_backend _ _ _ _ _ Hc) as R1.
    destruct (Nat.eqb (rf s1) (length (replicas s1))); [exact R1|].
    pose proof (rf_add_replica_nolock s1 fs a i true) as R2.
    destruct (add_replica_nolock s1 fs a i true) as [s2 r]. cbn [fst] in R2.
    destruct r; cbn [fst]; try (rewrite R2; exact R1). rewrite rf_update_checkpoint, rf_update_vol_status, R2. exact R1.
  - unfold do_verify.
    destruct (aget (replicas s) a) as [m|]; [|reflexivity].
    destruct (find _ (replicas s)) as [[r0 m0]|]; [|destruct m; reflexivity].
    destruct m; try reflexivity.
    destruct (_ || _); [reflexivity|].
    match goal with |- context [match ?K with Some k => _ | None => _ end] => destruct K as [k|] end; [|reflexivity].
    destruct (Nat.ltb _ k); [reflexivity|]. destruct (negb (list_eqb _ _)); [reflexivity|].
    destruct (_ || _); [reflexivity|]. destruct (_ || _); [reflexivity|].
    destruct (flt fs a KSetRev); [reflexivity|].
    cbn [fst]. rewrite rf_update_checkpoint, rf_update_vol_status, rf_set_mode. reflexivity.
  - cbn. apply rf_remove_replica.
  - destruct m; cbn; try reflexivity; apply rf_set_mode.
  - unfold do_mon_fire. destruct (first_for _ _) as [[i x]|]; [|reflexivity]. cbn [fst]. rewrite rf_remove_replica. reflexivity.
  - unfold do_mon_fail. destruct (first_for _ _) as [[i x]|]; [|reflexivity]. cbn [fst]. rewrite rf_remove_replica, rf_set_mode. reflexivity.
  - unfold do_write. destruct (ro s); [reflexivity|]. destruct (_ || _); [reflexivity|]. destruct (negb _); [reflexivity|].
    set (s1 := fold_left _ (writers s) s).
    assert (R1 : rf s1 = rf s) by (subst s1; apply rf_fold; intros; dm; reflexivity).
    destruct (io_errs _ _ _ _) as [|e0 es]; [exact R1|].
    pose proof (rf_handle_error (e0 :: es) s1) as R2.
    destruct (handle_error_nolock s1 (e0 :: es)) as [s2 sup]. cbn [fst] in *. rewrite rf_remove_all, R2. exact R1.
  - unfold do_sync. destruct (ro s); [reflexivity|]. destruct (negb _); [reflexivity|].
    destruct (io_errs _ _ _ _) as [|e0 es]; [reflexivity|].
    pose proof (rf_handle_error (e0 :: es) s) as R2.
    destruct (handle_error_nolock s (e0 :: es)) as [s2 sup]. cbn [fst] in *. rewrite rf_remove_all. exact R2.
  - unfold do_sync. destruct (ro s); [reflexivity|]. destruct (negb _); [reflexivity|].
    destruct (io_errs _ _ _ _) as [|e0 es]; [reflexivity|].
    pose proof (rf_handle_error (e0 :: es) s) as R2.
    destruct (handle_error_nolock s (e0 :: es)) as [s2 sup]. cbn [fst] in *. rewrite rf_remove_all. exact R2.
  - unfold do_read. destruct (_ || _); [reflexivity|].
    assert (G : rf (fst (fst (
      if negb (avail s) then (s, RErr, noeff)
      else if negb (read_order_ok s order fs) then (s, RInvalid, noeff)
      else
        let errs := filter (fun a => flt fs a KRead) order in
        let served := match rev order with lst :: _ => if flt fs lst KRead then None else Some lst | [] => None end in
        match errs with
        | [] => (s, ROk, mkeff [] served)
        | _ =>
            let '(s2, suppressed) := handle_error_nolock s errs in
            let s3 := remove_all s2 fs errs in
            (s3, match served with Some _ => if suppressed then ROk else RErr | None => RErr end, mkeff [] served)
        end))) = rf s).
    { destruct (negb (avail s)); [reflexivity|]. destruct (negb (read_order_ok s order fs)); [reflexivity|]. cbv zeta.
      destruct (filter _ order) as [|e0 es]; [reflexivity|].
      pose proof (rf_handle_error (e0 :: es) s) as R2.
      destruct (handle_error_nolock s (e0 :: es)) as [s2 sup]. cbn [fst] in *. rewrite rf_remove_all. exact R2. }
    destruct (replicas s) as [|[a0 m0] t]; [reflexivity|]. destruct m0; destruct t; try exact G; reflexivity.
  - unfold do_snapshot. destruct (negb _); [reflexivity|]. destruct (Nat.eqb _ 0); [reflexivity|].
    destruct (negb _); [reflexivity|]. destruct (last_rw s) as [r0|]; [|reflexivity].
    destruct (flt fs r0 KHttp); [reflexivity|]. destruct (existsb _ _); [reflexivity|].
    pose proof (rf_snapshot_all s fs name) as R1.
    destruct (snapshot_all s fs name) as [s1 errs]. cbn [fst] in R1.
    destruct errs as [|e0 es]; [exact R1|].
    pose proof (rf_handle_error (e0 :: es) s1) as R2.
    destruct (handle_error_nolock s1 (e0 :: es)) as [s2 sup]. cbn [fst] in *. congruence.
  - unfold do_resize. destruct (_ <? _); [reflexivity|]. destruct (_ =? _); [reflexivity|].
    set (s1 := fold_left _ (writers s) s).
    assert (R1 : rf s1 = rf s) by (subst s1; apply rf_fold; intros; dm; reflexivity).
    set (errs := filter _ (writers s)).
    assert (R2 : rf (fst (match errs with
                               | [] => (s1, false)
                               | _ => let '(s2, suppressed) := handle_error_nolock s1 errs in (s2, negb suppressed)
                               end)) = rf s).
    { destruct errs as [|e0 es]; [exact R1|].
      pose proof (rf_handle_error (e0 :: es) s1) as R3.
      destruct (handle_error_nolock s1 (e0 :: es)) as [s2 sup]. cbn [fst] in *. congruence. }
    destruct (match errs with [] => (s1, false) | _ => _ end) as [s2 failed]. cbn [fst] in R2.
    destruct failed; [exact R2|]. destruct (flt fs 0%nat KFeResize); exact R2.
  - unfold do_sync_data. destruct (aget (replicas s) a) as [[]|]; try reflexivity.
    destruct (find _ (replicas s)) as [[r0 m0]|]; reflexivity.
Qed.
