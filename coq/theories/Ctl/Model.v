(** * Ctl: the controller as an event machine over scripted replicas.

    Hand-written transcription of
      controller/control.go     (registerReplica, signalReplica, Start, addReplicaDuringStartNoLock, addReplica,
                                 canAdd, hasGreaterRevisionCount, verifyReplicationFactor, addReplicaNoLock,
                                 RemoveReplicaNoLock, setReplicaModeNoLock, SetReplicaMode, UpdateVolStatus,
                                 UpdateCheckpoint, handleErrorNoLock, WriteAt, Sync, Unmap, ReadAt, Snapshot,
                                 Resize, monitoring)
      controller/replicator.go  (buildReadWriters, SetMode, ReadAt, WriteAt/Sync/Unmap error mapping, Snapshot,
                                 GetLatestSnapshot, SetCheckpoint, Resize, RemainSnapshots, RemoveBackend)
      controller/multi_writer_at.go (majority rule)
      controller/rebuild.go     (getCurrentAndRWReplica, VerifyRebuildReplica)
    The replicas behind the types.Backend / types.BackendFactory interfaces are a *world* of scripted fakes
    (harness/cmd/ctl implements exactly the [frep] semantics below); every call that can fail takes its outcome
    from the event's fault set.  Quorum replicas are not modelled (none are ever added).  No proofs here. *)
From Coq Require Import List ZArith Bool Arith Lia.
Import ListNotations.
Open Scope Z_scope.

Definition addr := nat.
Inductive mode := WO | RW | ERR.
Definition mode_eqb (a b : mode) : bool :=
  match a, b with WO, WO | RW, RW | ERR, ERR => true | _, _ => false end.
Definition is_rw (m : mode) : bool := mode_eqb m RW.

(** kinds of calls to a replica that an event may make fail *)
Inductive kind :=
| KWrite | KWriteAp          (* error without / after applying the write (timeout) *)
| KSync | KUnmap | KRead
| KSnap | KSetCp | KChain | KRev | KSetModeWO | KSetModeRW | KSetRev | KResize
| KCreate | KSize | KClone | KHttp | KSignal | KAlive | KFeResize.
Definition kind_eqb (a b : kind) : bool :=
  match a, b with
  | KWrite, KWrite | KWriteAp, KWriteAp | KSync, KSync | KUnmap, KUnmap | KRead, KRead | KSnap, KSnap
  | KSetCp, KSetCp | KChain, KChain | KRev, KRev | KSetModeWO, KSetModeWO | KSetModeRW, KSetModeRW
  | KSetRev, KSetRev | KResize, KResize | KCreate, KCreate | KSize, KSize | KClone, KClone | KHttp, KHttp
  | KSignal, KSignal | KAlive, KAlive | KFeResize, KFeResize => true
  | _, _ => false
  end.
Definition faults := list (addr * kind).
Definition flt (fs : faults) (a : addr) (k : kind) : bool :=
  existsb (fun p => Nat.eqb (fst p) a && kind_eqb (snd p) k) fs.

(** ** association lists keyed by nat *)
Fixpoint aget {V} (l : list (nat * V)) (a : nat) : option V :=
  match l with [] => None | (k, v) :: t => if Nat.eqb k a then Some v else aget t a end.
Fixpoint aset {V} (l : list (nat * V)) (a : nat) (v : V) : list (nat * V) :=
  match l with
  | [] => [(a, v)]
  | (k, x) :: t => if Nat.eqb k a then (k, v) :: t else (k, x) :: aset t a v
  end.
Fixpoint adel {V} (l : list (nat * V)) (a : nat) : list (nat * V) :=
  match l with [] => [] | (k, v) :: t => if Nat.eqb k a then t else (k, v) :: adel t a end.
Definition amem {V} (l : list (nat * V)) (a : nat) : bool :=
  match aget l a with Some _ => true | None => false end.

(** ** the world: scripted replicas *)
Inductive rmode := RINIT | RWO | RRW.
Inductive cstat := CNA | CDone | CErr.
Record frep := mkfrep {
  f_open    : bool;            (* attached through factory.Create and not closed since *)
  f_mode    : rmode;
  f_chain   : list nat;        (* snapshot ids, latest first (the head is implicit) *)
  f_rev     : Z;
  f_cp      : option nat;      (* persisted checkpoint *)
  f_cpk     : bool;            (* false: set-checkpoint reached an order-dependent subset, value not predicted *)
  f_applied : list nat;        (* ids of the writes applied, oldest first *)
  f_size    : Z;
  f_clone   : cstat
}.
Definition fdefault : frep := mkfrep false RINIT [] 1 None true [] 0 CNA.
Definition world := list (nat * frep).
Definition wget (w : world) (a : addr) : frep := match aget w a with Some f => f | None => fdefault end.
Definition wset (w : world) (a : addr) (f : frep) : world := aset w a f.

Definition f_set_open (f : frep) (b : bool) :=
  mkfrep b (if b then RINIT else f_mode f) (f_chain f) (f_rev f) (f_cp f) (f_cpk f) (f_applied f) (f_size f) (f_clone f).
Definition f_set_mode (f : frep) (m : rmode) :=
  mkfrep (f_open f) m (f_chain f) (f_rev f) (f_cp f) (f_cpk f) (f_applied f) (f_size f) (f_clone f).
Definition f_snap (f : frep) (n : nat) :=
  mkfrep (f_open f) (f_mode f) (n :: f_chain f) (f_rev f) (f_cp f) (f_cpk f) (f_applied f) (f_size f) (f_clone f).
Definition f_set_rev (f : frep) (v : Z) :=
  mkfrep (f_open f) (f_mode f) (f_chain f) v (f_cp f) (f_cpk f) (f_applied f) (f_size f) (f_clone f).
Definition f_set_cp (f : frep) (c : option nat) (k : bool) :=
  mkfrep (f_open f) (f_mode f) (f_chain f) (f_rev f) c k (f_applied f) (f_size f) (f_clone f).
(** a write applied by a replica: the replica counts it only while its own mode is RW *)
Definition f_apply (f : frep) (wid : nat) :=
  mkfrep (f_open f) (f_mode f) (f_chain f)
         (match f_mode f with RRW => f_rev f + 1 | _ => f_rev f end)
         (f_cp f) (f_cpk f) (f_applied f ++ [wid]) (f_size f) (f_clone f).
Definition f_copy_data (f src : frep) :=
  mkfrep (f_open f) (f_mode f) (f_chain src) (f_rev f) (f_cp f) (f_cpk f) (f_applied src) (f_size f) (f_clone f).
Definition f_set_size (f : frep) (z : Z) :=
  mkfrep (f_open f) (f_mode f) (f_chain f) (f_rev f) (f_cp f) (f_cpk f) (f_applied f) z (f_clone f).

(** ** controller state *)
Record rrec := mkrrec { rg_uuid : nat; rg_rev : Z; rg_rebuilding : bool }.

Record cst := mkcst {
  rf         : nat;
  replicas   : list (addr * mode);          (* c.replicas, in order *)
  backends   : list (addr * (mode * nat));  (* replicator.backends: address -> mode, backend instance *)
  avail      : bool;                        (* replicator.backendsAvailable *)
  ro         : bool;                        (* c.ReadOnly *)
  rwc        : nat;                         (* c.RWReplicaCount *)
  registered : list (addr * rrec);          (* c.RegisteredReplicas *)
  maxrev     : option addr;                 (* c.MaxRevReplica, None = "" *)
  signalled  : bool;                        (* c.StartSignalled *)
  checkpoint : option nat;                  (* c.Checkpoint, None = "" *)
  csize      : Z;                           (* c.size *)
  fe_up      : bool;                        (* frontend.State() == Up *)
  pend_adds  : list addr;                   (* AddReplica calls that passed the admission check and sit in factory.Create *)
  live_mon   : list (nat * addr);           (* backend instances whose monitoring goroutine is waiting *)
  pend_mon   : list (nat * addr);           (* instances whose monitor channel holds an undelivered nil (StopMonitoring) *)
  ninst      : nat;                         (* next backend instance id *)
  nsnap      : nat;                         (* next automatic snapshot id *)
  w          : world
}.

Definition maxint : Z := 9223372036854775807.

Definition init (rf0 : nat) (w0 : world) : cst :=
  mkcst rf0 [] [] false true 0 [] None false None 0 false [] [] [] 0 1000 w0.

(** functional record updates *)
Definition upd_replicas s v := mkcst (rf s) v (backends s) (avail s) (ro s) (rwc s) (registered s) (maxrev s) (signalled s) (checkpoint s) (csize s) (fe_up s) (pend_adds s) (live_mon s) (pend_mon s) (ninst s) (nsnap s) (w s).
Definition upd_backends s v := mkcst (rf s) (replicas s) v (existsb (fun p => is_rw (fst (snd p))) v) (ro s) (rwc s) (registered s) (maxrev s) (signalled s) (checkpoint s) (csize s) (fe_up s) (pend_adds s) (live_mon s) (pend_mon s) (ninst s) (nsnap s) (w s).
Definition upd_status s r c := mkcst (rf s) (replicas s) (backends s) (avail s) r c (registered s) (maxrev s) (signalled s) (checkpoint s) (csize s) (fe_up s) (pend_adds s) (live_mon s) (pend_mon s) (ninst s) (nsnap s) (w s).
Definition upd_registered s v := mkcst (rf s) (replicas s) (backends s) (avail s) (ro s) (rwc s) v (maxrev s) (signalled s) (checkpoint s) (csize s) (fe_up s) (pend_adds s) (live_mon s) (pend_mon s) (ninst s) (nsnap s) (w s).
Definition upd_leader s m g := mkcst (rf s) (replicas s) (backends s) (avail s) (ro s) (rwc s) (registered s) m g (checkpoint s) (csize s) (fe_up s) (pend_adds s) (live_mon s) (pend_mon s) (ninst s) (nsnap s) (w s).
Definition upd_checkpoint s v := mkcst (rf s) (replicas s) (backends s) (avail s) (ro s) (rwc s) (registered s) (maxrev s) (signalled s) v (csize s) (fe_up s) (pend_adds s) (live_mon s) (pend_mon s) (ninst s) (nsnap s) (w s).
Definition upd_csize s v := mkcst (rf s) (replicas s) (backends s) (avail s) (ro s) (rwc s) (registered s) (maxrev s) (signalled s) (checkpoint s) v (fe_up s) (pend_adds s) (live_mon s) (pend_mon s) (ninst s) (nsnap s) (w s).
Definition upd_fe s v := mkcst (rf s) (replicas s) (backends s) (avail s) (ro s) (rwc s) (registered s) (maxrev s) (signalled s) (checkpoint s) (csize s) v (pend_adds s) (live_mon s) (pend_mon s) (ninst s) (nsnap s) (w s).
Definition upd_pend_adds s v := mkcst (rf s) (replicas s) (backends s) (avail s) (ro s) (rwc s) (registered s) (maxrev s) (signalled s) (checkpoint s) (csize s) (fe_up s) v (live_mon s) (pend_mon s) (ninst s) (nsnap s) (w s).
Definition upd_mon s l p := mkcst (rf s) (replicas s) (backends s) (avail s) (ro s) (rwc s) (registered s) (maxrev s) (signalled s) (checkpoint s) (csize s) (fe_up s) (pend_adds s) l p (ninst s) (nsnap s) (w s).
Definition upd_ninst s v := mkcst (rf s) (replicas s) (backends s) (avail s) (ro s) (rwc s) (registered s) (maxrev s) (signalled s) (checkpoint s) (csize s) (fe_up s) (pend_adds s) (live_mon s) (pend_mon s) v (nsnap s) (w s).
Definition upd_nsnap s v := mkcst (rf s) (replicas s) (backends s) (avail s) (ro s) (rwc s) (registered s) (maxrev s) (signalled s) (checkpoint s) (csize s) (fe_up s) (pend_adds s) (live_mon s) (pend_mon s) (ninst s) v (w s).
Definition upd_w s v := mkcst (rf s) (replicas s) (backends s) (avail s) (ro s) (rwc s) (registered s) (maxrev s) (signalled s) (checkpoint s) (csize s) (fe_up s) (pend_adds s) (live_mon s) (pend_mon s) (ninst s) (nsnap s) v.
Definition upd_rep (s : cst) (a : addr) (g : frep -> frep) : cst := upd_w s (wset (w s) a (g (wget (w s) a))).

(** ** helpers transcribing small controller functions *)
Definition count_rw (l : list (addr * mode)) : nat := length (filter (fun p => is_rw (snd p)) l).
Definition has_replica (s : cst) (a : addr) : bool := existsb (fun p => Nat.eqb (fst p) a) (replicas s).
Definition quorum (n : nat) : nat := (n / 2 + 1)%nat.

(** UpdateVolStatus *)
Definition update_vol_status (s : cst) : cst :=
  let c := count_rw (replicas s) in
  upd_status s (negb (Nat.leb (quorum (rf s)) c)) c.

(** backend.StopMonitoring of instance [i]: one nil is queued for its monitoring goroutine, once *)
Definition stop_monitoring (s : cst) (i : nat) : cst :=
  match aget (live_mon s) i with
  | Some a => upd_mon s (adel (live_mon s) i) (pend_mon s ++ [(i, a)])
  | None => s
  end.

(** replicator.SetMode *)
Definition backend_set_mode (s : cst) (a : addr) (m : mode) : cst :=
  match aget (backends s) a with
  | None => s
  | Some (_, i) =>
      let s1 := upd_backends s (aset (backends s) a (m, i)) in
      if mode_eqb m ERR then stop_monitoring s1 i else s1
  end.

(** setReplicaModeNoLock (ends with UpdateVolStatus) *)
Definition set_mode_nolock (s : cst) (a : addr) (m : mode) : cst :=
  update_vol_status
    match aget (replicas s) a with
    | None => s
    | Some ERR => s
    | Some _ =>
        let s1 := upd_replicas s (map (fun p => if Nat.eqb (fst p) a then (fst p, m) else p) (replicas s)) in
        backend_set_mode s1 a m
    end.

(** replicator.GetLatestSnapshot; None = error *)
Definition all_rw_backends (s : cst) : bool := forallb (fun p => is_rw (fst (snd p))) (backends s).
Fixpoint same_heads (chains : list (list nat)) (cur : option nat) : option (option nat) :=
  match chains with
  | [] => Some cur
  | [] :: _ => None                         (* a replica without any snapshot *)
  | (h :: _) :: t =>
      match cur with
      | None => same_heads t (Some h)
      | Some c => if Nat.eqb c h then same_heads t cur else None
      end
  end.
Definition get_latest_snapshot (s : cst) (fs : faults) : option (option nat) :=
  if negb (all_rw_backends s) then None
  else if existsb (fun p => flt fs (fst p) KChain) (backends s) then None
  else same_heads (map (fun p => f_chain (wget (w s) (fst p))) (backends s)) None.

(** replicator.SetCheckpoint: returns the new world and whether every replica stored it *)
Definition set_checkpoint (s : cst) (fs : faults) (n : option nat) : cst * bool :=
  if all_rw_backends s then
    let w1 := fold_left (fun wacc p =>
                 if flt fs (fst p) KSetCp then wacc
                 else wset wacc (fst p) (f_set_cp (wget wacc (fst p)) n true)) (backends s) (w s) in
    (upd_w s w1, negb (existsb (fun p => flt fs (fst p) KSetCp) (backends s)))
  else
    (* the loop stops at the first non-RW backend in map order: which RW replicas stored it is not predicted *)
    let w1 := fold_left (fun wacc p =>
                 if is_rw (fst (snd p)) then wset wacc (fst p) (f_set_cp (wget wacc (fst p)) (f_cp (wget wacc (fst p))) false)
                 else wacc) (backends s) (w s) in
    (upd_w s w1, false).

(** UpdateCheckpoint *)
Definition update_checkpoint (s : cst) (fs : faults) : cst :=
  if Nat.eqb (count_rw (replicas s)) (rf s) then
    match get_latest_snapshot s fs with
    | Some n =>
        let '(s1, ok) := set_checkpoint s fs n in
        upd_checkpoint s1 (if ok then n else None)
    | None => upd_checkpoint s None
    end
  else upd_checkpoint s None.

(** replicator.RemoveBackend: Close (the fake detaches: the replica is closed and can be attached again),
    which also stops monitoring *)
Definition remove_backend (s : cst) (a : addr) : cst :=
  match aget (backends s) a with
  | None => s
  | Some (_, i) =>
      let s1 := stop_monitoring s i in
      let s2 := upd_rep s1 a (fun f => f_set_open f false) in
      upd_backends s2 (adel (backends s2) a)
  end.

(** RemoveReplicaNoLock *)
Definition remove_replica_nolock (s : cst) (fs : faults) (a : addr) : cst :=
  if negb (has_replica s a) then s
  else
    let s1 := if Nat.eqb (length (replicas s)) 1 && fe_up s
              then upd_fe (upd_leader s None false) false else s in
    let s2 := upd_registered s1 (adel (registered s1) a) in
    let s3 := upd_replicas s2 (adel (replicas s2) a) in
    let s4 := remove_backend s3 a in
    update_checkpoint (update_vol_status s4) fs.

(** handleErrorNoLock on a BackendError naming [errs]: returns the state and whether the error is
    suppressed (some replica is still RW) *)
Definition handle_error_nolock (s : cst) (errs : list addr) : cst * bool :=
  let s1 := fold_left (fun acc a => set_mode_nolock acc a ERR) errs s in
  (s1, match errs with [] => false | _ => Nat.ltb 0 (count_rw (replicas s1)) end).

Definition remove_all (s : cst) (fs : faults) (errs : list addr) : cst :=
  fold_left (fun acc a => remove_replica_nolock acc fs a) errs s.

(** writers of the MultiWriterAt: backends whose mode is not ERR *)
Definition writers (s : cst) : list addr :=
  map fst (filter (fun p => negb (mode_eqb (fst (snd p)) ERR)) (backends s)).
Definition readers (s : cst) : list addr :=
  map fst (filter (fun p => is_rw (fst (snd p))) (backends s)).

(** ** results *)
Inductive res :=
| ROk          (* acknowledged / nil *)
| RErr         (* error returned (for I/O: not acknowledged) *)
| RRefused     (* I/O refused by the read-only gate *)
| RNone        (* event had nothing to act on (no pending add / monitor) *)
| RPanicFake   (* code path that type-asserts *remote.Remote: unreachable with real backends, panics with fakes *)
| RInvalid.    (* the observed read order is not a possible one *)
Definition res_eqb (a b : res) : bool :=
  match a, b with
  | ROk, ROk | RErr, RErr | RRefused, RRefused | RNone, RNone | RPanicFake, RPanicFake | RInvalid, RInvalid => true
  | _, _ => false end.

Inductive event :=
| Register (a : addr) (uuid : nat) (rev : Z) (rebuilding : bool) (pick : option addr) (fs : faults)
| Start (addrs : list addr) (fs : faults)
| AddCheck (a : addr) (fs : faults)
| AddCommit (a : addr) (fs : faults)
| Verify (a : addr) (fs : faults)
| Remove (a : addr) (fs : faults)
| SetMode (a : addr) (m : mode)
| MonFire (a : addr) (fs : faults)
| MonFail (a : addr) (fs : faults)
| Write (wid : nat) (off len : Z) (fs : faults)
| Sync (fs : faults)
| Unmap (fs : faults)
| Read (off len : Z) (order : list addr) (fs : faults)
| Snapshot (name : nat) (fs : faults)
| Resize (newsize : Z) (fs : faults)
| SyncData (a : addr).     (* not a controller request: the sync agent copies the snapshot files of the RW
                              source into the rebuilding replica a (between add and verify) *)

(** what an event did besides changing the state: start/add signals sent, replica that served a read *)
Record eff := mkeff { e_signals : list (addr * bool); e_served : option addr }.   (* bool: true = "start" *)
Definition noeff : eff := mkeff [] None.

(** *** I/O *)
Definition io_errs (ws : list addr) (fs : faults) (k1 k2 : kind) : list addr :=
  filter (fun a => flt fs a k1 || flt fs a k2) ws.
Definition majority_ok (nw nerr : nat) : bool := Nat.ltb (nw / 2) (nw - nerr).

Definition do_write (s : cst) (wid : nat) (off len : Z) (fs : faults) : cst * res :=
  if ro s then (s, RRefused)
  else if (off <? 0) || (csize s <? off + len) then (s, RErr)
  else if negb (avail s) then (s, RErr)
  else
    let ws := writers s in
    (* every writer is called; it applies the write unless it fails before applying *)
    let s1 := fold_left (fun acc a => if flt fs a KWrite then acc else upd_rep acc a (fun f => f_apply f wid)) ws s in
    let errs := io_errs ws fs KWrite KWriteAp in
    match errs with
    | [] => (s1, ROk)
    | _ =>
        let full := majority_ok (length ws) (length errs) in
        let '(s2, suppressed) := handle_error_nolock s1 errs in
        let s3 := remove_all s2 fs errs in
        (s3, if full && suppressed then ROk else RErr)
    end.

Definition do_sync (s : cst) (fs : faults) (k : kind) : cst * res :=
  if ro s then (s, RRefused)
  else if negb (avail s) then (s, RErr)
  else
    let ws := writers s in
    let errs := io_errs ws fs k k in
    match errs with
    | [] => (s, ROk)
    | _ =>
        let full := majority_ok (length ws) (length errs) in
        let '(s2, suppressed) := handle_error_nolock s errs in
        let s3 := remove_all s2 fs errs in
        (s3, if full && suppressed then ROk else RErr)
    end.

Fixpoint nodupb (l : list nat) : bool :=
  match l with [] => true | h :: t => negb (existsb (Nat.eqb h) t) && nodupb t end.

(** the observed sequence of replicas that received the read call is a possible one: distinct RW
    backends, everyone but the last fails, and either the last succeeds or all readers were tried *)
Definition read_order_ok (s : cst) (order : list addr) (fs : faults) : bool :=
  let rs := readers s in
  nodupb order
  && forallb (fun a => existsb (Nat.eqb a) rs) order
  && match rev order with
     | [] => false
     | lst :: before =>
         forallb (fun a => flt fs a KRead) before
         && (negb (flt fs lst KRead) || Nat.eqb (length order) (length rs))
     end.

Definition do_read (s : cst) (off len : Z) (order : list addr) (fs : faults) : cst * res * eff :=
  if (off <? 0) || (csize s <? off + len) then (s, RErr, noeff)
  else match replicas s with
  | [] => (s, RErr, noeff)
  | [(_, WO)] => (s, RErr, noeff)
  | _ =>
      if negb (avail s) then (s, RErr, noeff)
      else if negb (read_order_ok s order fs) then (s, RInvalid, noeff)
      else
        let errs := filter (fun a => flt fs a KRead) order in
        let served := match rev order with lst :: _ => if flt fs lst KRead then None else Some lst | [] => None end in
        match errs with
        | [] => (s, ROk, mkeff [] served)
        | _ =>
            let '(s2, suppressed) := handle_error_nolock s errs in
            let s3 := remove_all s2 fs errs in
            (s3, match served with Some _ => if suppressed then ROk else RErr | None => RErr end, mkeff [] served)
        end
  end.

(** *** admission *)
(** canAdd: returns the state (a WO replica may have been removed for a newcomer with a higher
    revision count) and whether the add may proceed *)
Definition can_add (s : cst) (fs : faults) (a : addr) : cst * bool :=
  if has_replica s a then (s, false)
  else match find (fun p => mode_eqb (snd p) WO) (replicas s) with
  | None => (s, true)
  | Some (wo, _) =>
      (* hasGreaterRevisionCount: the registered-replica lookup uses the full address as key and never hits *)
      if negb (amem (backends s) wo) || flt fs wo KRev || flt fs a KHttp then (s, false)
      else if f_rev (wget (w s) wo) <? f_rev (wget (w s) a)
      then (remove_replica_nolock s fs wo, true)
      else (s, false)
  end.

(** factory.Create of the fake: the replica must be closed *)
Definition create_backend (s : cst) (fs : faults) (a : addr) : option (cst * nat) :=
  if flt fs a KCreate || f_open (wget (w s) a) then None
  else let i := ninst s in
       Some (upd_ninst (upd_rep s a (fun f => f_set_open f true)) (S i), i).

(** closing a backend that was never added (addReplicaNoLock error exits) *)
Definition close_new (s : cst) (a : addr) : cst := upd_rep s a (fun f => f_set_open f false).

(** replicator.RemainSnapshots: None = the *remote.Remote type assertion on an ERR backend *)
Definition remain_ok (s : cst) : bool :=
  negb (existsb (fun p => mode_eqb (fst (snd p)) ERR) (backends s)).

(** replicator.Snapshot: every non-ERR backend takes it unless it fails *)
Definition snapshot_all (s : cst) (fs : faults) (n : nat) : cst * list addr :=
  let ws := writers s in
  (fold_left (fun acc a => if flt fs a KSnap then acc else upd_rep acc a (fun f => f_snap f n)) ws s,
   filter (fun a => flt fs a KSnap) ws).

(** addReplicaNoLock (newBackend = instance i of a) *)
Definition add_replica_nolock (s : cst) (fs : faults) (a : addr) (i : nat) (snapshot : bool) : cst * res :=
  let '(s0, ok) := can_add s fs a in
  if negb ok then (s0, RErr)
  else
    let after_snap : option (cst * res) :=
      if snapshot then
        if negb (remain_ok s0) then Some (s0, RPanicFake)
        else
          let n := nsnap s0 in
          let s1 := upd_nsnap s0 (S n) in
          let '(s2, errs) := snapshot_all s1 fs n in
          match errs with
          | _ :: _ => Some (close_new s2 a, RErr)
          | [] =>
              if flt fs a KSnap then Some (close_new s2 a, RErr)
              else Some (upd_rep s2 a (fun f => f_snap f n), ROk)
          end
      else Some (s0, ROk) in
    match after_snap with
    | Some (s3, ROk) =>
        if flt fs a KSetModeWO then (s3, RErr)
        else
          let s4 := upd_rep s3 a (fun f => f_set_mode f RWO) in
          let s5 := upd_replicas s4 (replicas s4 ++ [(a, WO)]) in
          let s6 := upd_backends s5 (if amem (backends s5) a then backends s5 else backends s5 ++ [(a, (WO, i))]) in
          (upd_mon s6 (live_mon s6 ++ [(i, a)]) (pend_mon s6), ROk)
    | Some (s3, r) => (s3, r)
    | None => (s0, RErr)
    end.

(** *** bootstrap *)
Definition signal_replica (s : cst) (fs : faults) : cst * bool * list (addr * bool) :=
  match maxrev s with
  | None => (* SignalToAdd("") : the factory cannot reach anything *)
      (upd_leader s None false, false, [])
  | Some m =>
      if flt fs m KSignal
      then (upd_leader (upd_registered s (adel (registered s) m)) None false, false, [(m, true)])
      else (upd_leader s (Some m) true, true, [(m, true)])
  end.

Definition reg_rev (s : cst) (a : option addr) : Z :=
  match a with
  | None => 0
  | Some x => match aget (registered s) x with Some r => rg_rev r | None => 0 end
  end.

Definition do_register (s : cst) (a : addr) (uuid : nat) (rev : Z) (rebuilding : bool) (pick : option addr) (fs : faults)
  : cst * res * eff :=
  if Nat.eqb uuid 0 then (s, ROk, noeff)
  else
    let reg1 := filter (fun p => negb (Nat.eqb (rg_uuid (snd p)) uuid && negb (Nat.eqb (fst p) a))) (registered s) in
    let s1 := upd_registered s (aset reg1 a (mkrrec uuid rev rebuilding)) in
    match replicas s1 with
    | _ :: _ => (s1, ROk, noeff)
    | [] =>
        (* the StartSignalled switch: Some (state, signals) to continue below, None to return *)
        let sw : option (cst * list (addr * bool)) + (cst * res * eff) :=
          if signalled s1 then
            if match maxrev s1 with Some m => Nat.eqb m a | None => false end then
              inl (Some (s1, []))      (* the signalled replica registers again: elect and signal below *)
            else if match maxrev s1 with Some m => flt fs m KAlive | None => true end then
              let s2 := match maxrev s1 with
                        | Some m => upd_registered s1 (adel (registered s1) m)
                        | None => s1 end in
              inl (Some (upd_leader s2 None false, []))
            else inr (s1, ROk, noeff)
          else inl (Some (s1, [])) in
        match sw with
        | inr out => out
        | inl None => (s1, ROk, noeff)
        | inl (Some (s2, sg0)) =>
            if rebuilding then (s2, ROk, mkeff sg0 None)
            else
              let s3 := match maxrev s2 with None => upd_leader s2 (Some a) (signalled s2) | Some _ => s2 end in
              (* the loop over the registered, not rebuilding replicas moves the candidate to a strictly
                 higher revision count; among several with the highest one the map order decides: [pick] *)
              let cand := filter (fun p => negb (rg_rebuilding (snd p))) (registered s3) in
              let best := fold_left Z.max (map (fun p => rg_rev (snd p)) cand) 0 in
              let leader : option (option addr) :=
                if best <=? reg_rev s3 (maxrev s3) then Some (maxrev s3)
                else match pick with
                     | Some p => if existsb (fun q => Nat.eqb (fst q) p && (rg_rev (snd q) =? best)) cand
                                 then Some (Some p) else None
                     | None => None
                     end in
              match leader with
              | None => (s3, RInvalid, mkeff sg0 None)
              | Some l =>
                  let s4 := upd_leader s3 l (signalled s3) in
                  if Nat.leb (quorum (rf s4)) (length (registered s4)) then
                    let '(s5, ok, sg) := signal_replica s4 fs in
                    (s5, if ok then ROk else RErr, mkeff (sg0 ++ sg) None)
                  else (s4, ROk, mkeff sg0 None)
              end
        end
    end.

(** rmReplicaFromRegisteredReplicas: the delete uses the full address as key and never hits *)
Definition rm_from_registered (s : cst) : cst := upd_leader s None false.

(** addReplicaDuringStartNoLock *)
Definition add_during_start (s : cst) (fs : faults) (a : addr) : cst * res :=
  match create_backend s fs a with
  | None => (rm_from_registered s, RErr)
  | Some (s1, i) =>
      if flt fs a KSize then (rm_from_registered s1, RErr)
      else
        let sz := f_size (wget (w s1) a) in
        let s2 := if csize s1 =? maxint then upd_csize s1 sz else s1 in
        if negb (csize s2 =? sz) then (rm_from_registered s2, RErr)
        else
          let '(s3, r) := add_replica_nolock s2 fs a i false in
          match r with
          | ROk =>
              if flt fs a KClone then (remove_replica_nolock s3 fs a, RErr)
              else match f_clone (wget (w s3) a) with
              | CErr => (remove_replica_nolock s3 fs a, RErr)
              | _ =>
                  if flt fs a KSetModeRW then (remove_replica_nolock s3 fs a, RErr)
                  else (set_mode_nolock (upd_rep s3 a (fun f => f_set_mode f RRW)) a RW, ROk)
              end
          | _ => (rm_from_registered s3, RErr)
          end
  end.

Fixpoint start_adds (s : cst) (fs : faults) (l : list addr) : cst * res :=
  match l with
  | [] => (s, ROk)
  | a :: t => let '(s1, r) := add_during_start s fs a in
              match r with ROk => start_adds s1 fs t | _ => (s1, r) end
  end.

Definition start_frontend (s : cst) : cst :=
  match replicas s with [] => s | _ => upd_fe s true end.

Definition do_start (s : cst) (addrs : list addr) (fs : faults) : cst * res * eff :=
  match addrs with
  | [] => (s, ROk, noeff)
  | a0 :: _ =>
      match replicas s with
      | _ :: _ => (s, ROk, noeff)
      | [] =>
          if negb (signalled s) || negb (match maxrev s with Some m => Nat.eqb m a0 | None => false end) then (s, RErr, noeff)
          else
            let s0 := upd_csize (upd_backends (upd_replicas s []) []) maxint in
            let '(s1, r) := start_adds s0 fs addrs in
            match r with
            | ROk =>
                if existsb (fun p => flt fs (fst p) KRev) (replicas s1)
                then (start_frontend s1, RErr, noeff)
                else
                  let revs := map (fun p => (fst p, f_rev (wget (w s1) (fst p)))) (replicas s1) in
                  let expected := fold_left Z.max (map snd revs) 0 in
                  let s2 := fold_left (fun acc p => if snd p =? expected then acc else set_mode_nolock acc (fst p) ERR) revs s1 in
                  let sigs := map (fun p => (fst p, false))
                                  (filter (fun p => negb (has_replica s2 (fst p))) (registered s2)) in
                  let s3 := update_checkpoint (update_vol_status s2) fs in
                  (start_frontend s3, ROk, mkeff sigs None)
            | _ => (start_frontend s1, r, noeff)
            end
      end
  end.

(** *** add / rebuild *)
Definition do_add_check (s : cst) (a : addr) (fs : faults) : cst * res :=
  let '(s1, ok) := can_add s fs a in
  if negb ok then (s1, RErr)
  else if Nat.eqb (rf s1) (length (replicas s1)) then (s1, RErr)
  else (upd_pend_adds s1 (pend_adds s1 ++ [a]), ROk).

Fixpoint remove_first (l : list nat) (a : nat) : list nat :=
  match l with [] => [] | h :: t => if Nat.eqb h a then t else h :: remove_first t a end.

Definition do_add_commit (s : cst) (a : addr) (fs : faults) : cst * res :=
  if negb (existsb (Nat.eqb a) (pend_adds s)) then (s, RNone)
  else
    let s0 := upd_pend_adds s (remove_first (pend_adds s) a) in
    match create_backend s0 fs a with
    | None => (s0, RErr)
    | Some (s1, i) =>
        (* verifyReplicationFactor again, now that the lock is held *)
        if Nat.eqb (rf s1) (length (replicas s1)) then (close_new s1 a, RErr)
        else
        let '(s2, r) := add_replica_nolock s1 fs a i true in
        match r with
        | ROk => (update_checkpoint (update_vol_status s2) fs, ROk)
        | _ => (s2, r)
        end
    end.

Fixpoint index_of (l : list nat) (x : nat) (i : nat) : option nat :=
  match l with [] => None | h :: t => if Nat.eqb h x then Some i else index_of t x (S i) end.
Fixpoint list_eqb (a b : list nat) : bool :=
  match a, b with
  | [], [] => true
  | x :: a', y :: b' => Nat.eqb x y && list_eqb a' b'
  | _, _ => false
  end.

Definition do_verify (s : cst) (a : addr) (fs : faults) : cst * res :=
  match aget (replicas s) a, find (fun p => is_rw (snd p)) (replicas s) with
  | None, _ => (s, RErr)
  | _, None => (s, RErr)
  | Some RW, Some _ => (s, ROk)
  | Some ERR, Some _ => (s, RErr)
  | Some WO, Some (r0, _) =>
      if flt fs r0 KHttp || flt fs a KHttp then (s, RErr)
      else
        let rwchain := f_chain (wget (w s) r0) in
        let wochain := f_chain (wget (w s) a) in
        let k := match f_cp (wget (w s) a) with
                 | None => Some (length rwchain)
                 | Some c => match index_of rwchain c 0 with Some i => Some (S i) | None => None end
                 end in
        match k with
        | None => (s, RErr)
        | Some k =>
            if Nat.ltb (length wochain) k then (s, RErr)        (* chain[1:indx+1] out of range: panic / garbage *)
            else if negb (list_eqb (firstn k rwchain) (firstn k wochain)) then (s, RErr)
            else if negb (amem (backends s) r0) || flt fs r0 KRev then (s, RErr)
            else
              let counter := f_rev (wget (w s) r0) in
              if negb (amem (backends s) a) || flt fs a KSetModeRW then (s, RErr)
              else
                let s1 := upd_rep s a (fun f => f_set_mode f RRW) in
                if flt fs a KSetRev then (s1, RErr)
                else
                  let s2 := upd_rep s1 a (fun f => f_set_rev f counter) in
                  let s3 := set_mode_nolock s2 a RW in
                  (update_checkpoint (update_vol_status s3) fs, ROk)
        end
  end.

(** *** monitor goroutines *)
Definition first_for {V} (l : list (nat * V)) (p : V -> bool) : option (nat * V) :=
  find (fun q => p (snd q)) l.

Definition do_mon_fire (s : cst) (a : addr) (fs : faults) : cst * res :=
  match first_for (pend_mon s) (Nat.eqb a) with
  | None => (s, RNone)
  | Some (i, _) =>
      let s1 := upd_mon s (live_mon s) (adel (pend_mon s) i) in
      (remove_replica_nolock s1 fs a, ROk)
  end.

(** the ping of the newest live instance of [a] fails *)
Definition do_mon_fail (s : cst) (a : addr) (fs : faults) : cst * res :=
  match first_for (rev (live_mon s)) (Nat.eqb a) with
  | None => (s, RNone)
  | Some (i, _) =>
      let s1 := upd_mon s (adel (live_mon s) i) (pend_mon s) in
      let s2 := set_mode_nolock s1 a ERR in
      (remove_replica_nolock s2 fs a, ROk)
  end.

(** *** snapshot / resize *)
Definition last_rw (s : cst) : option addr :=
  match rev (filter (fun p => is_rw (snd p)) (replicas s)) with [] => None | p :: _ => Some (fst p) end.

Definition do_snapshot (s : cst) (n : nat) (fs : faults) : cst * res :=
  if negb (Nat.eqb (rwc s) (rf s)) then (s, RErr)
  else if Nat.eqb (length (backends s)) 0 then
    (* RemainSnapshots answers 1 without backends; getRWReplica then fails *)
    (s, RErr)
  else if negb (remain_ok s) then (s, RPanicFake)
  else match last_rw s with
  | None => (s, RErr)
  | Some r0 =>
      if flt fs r0 KHttp then (s, RErr)
      else if existsb (Nat.eqb n) (f_chain (wget (w s) r0)) then (s, RErr)
      else
        let '(s1, errs) := snapshot_all s fs n in
        match errs with
        | [] => (s1, ROk)
        | _ => let '(s2, suppressed) := handle_error_nolock s1 errs in
               (s2, if suppressed then ROk else RErr)
        end
  end.

Definition do_resize (s : cst) (sz : Z) (fs : faults) : cst * res :=
  if sz <? csize s then (s, RErr)
  else if sz =? csize s then (s, RErr)
  else
    let ws := writers s in
    let s1 := fold_left (fun acc a => if flt fs a KResize then acc else upd_rep acc a (fun f => f_set_size f sz)) ws s in
    let errs := filter (fun a => flt fs a KResize) ws in
    let '(s2, failed) := match errs with
                         | [] => (s1, false)
                         | _ => let '(s2, suppressed) := handle_error_nolock s1 errs in (s2, negb suppressed)
                         end in
    if failed then (s2, RErr)
    else if flt fs 0%nat KFeResize then (s2, RErr)
    else (upd_csize s2 sz, ROk).

(** the file sync of a rebuild, as far as the controller can see it: chain and content of the first RW
    replica appear on the rebuilding one *)
Definition do_sync_data (s : cst) (a : addr) : cst * res :=
  match aget (replicas s) a, find (fun p => is_rw (snd p)) (replicas s) with
  | Some WO, Some (r0, _) => (upd_rep s a (fun f => f_copy_data f (wget (w s) r0)), ROk)
  | _, _ => (s, RNone)
  end.

(** ** the step function *)
Definition step (s : cst) (e : event) : cst * res * eff :=
  match e with
  | Register a u r b pick fs => do_register s a u r b pick fs
  | Start l fs => do_start s l fs
  | AddCheck a fs => let '(s1, r) := do_add_check s a fs in (s1, r, noeff)
  | AddCommit a fs => let '(s1, r) := do_add_commit s a fs in (s1, r, noeff)
  | Verify a fs => let '(s1, r) := do_verify s a fs in (s1, r, noeff)
  | Remove a fs => (remove_replica_nolock s fs a, ROk, noeff)
  | SetMode a m =>
      match m with
      | WO => (s, RErr, noeff)
      | _ => (set_mode_nolock s a m, ROk, noeff)
      end
  | MonFire a fs => let '(s1, r) := do_mon_fire s a fs in (s1, r, noeff)
  | MonFail a fs => let '(s1, r) := do_mon_fail s a fs in (s1, r, noeff)
  | Write wid off len fs => let '(s1, r) := do_write s wid off len fs in (s1, r, noeff)
  | Sync fs => let '(s1, r) := do_sync s fs KSync in (s1, r, noeff)
  | Unmap fs => let '(s1, r) := do_sync s fs KUnmap in (s1, r, noeff)
  | Read off len order fs => do_read s off len order fs
  | Snapshot n fs => let '(s1, r) := do_snapshot s n fs in (s1, r, noeff)
  | Resize sz fs => let '(s1, r) := do_resize s sz fs in (s1, r, noeff)
  | SyncData a => let '(s1, r) := do_sync_data s a in (s1, r, noeff)
  end.

Fixpoint run (s : cst) (es : list event) : cst :=
  match es with [] => s | e :: t => run (fst (fst (step s e))) t end.
