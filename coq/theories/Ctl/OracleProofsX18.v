(** * Ctl: the trace oracles of C13 and C18 hold on every trace of the model, histories with
    concurrent pairs included ([Two a b]: the controller lock serialises a then b, one observation
    after both, [o_res1] = class of a's result). *)
From Coq Require Import List ZArith Bool Arith Lia.
From Jiva Require Import Ctl.Model Ctl.Corr Ctl.Oracles Ctl.Proofs Ctl.Props Ctl.RfConst Ctl.OracleProofs
  Ctl.OracleProofs2 Ctl.CheckpointInv Ctl.OracleProofs18.
Import ListNotations.
Open Scope Z_scope.

(** ** the x-run *)
Definition xnext (s : cst) (x : xevent) : cst := fst (fst (fst (xstep s x))).
Definition xobs (n : nat) (s : cst) (x : xevent) : obs :=
  with_res1 (observe n (xnext s x) (snd (fst (fst (xstep s x)))) (snd (fst (xstep s x)))) (snd (xstep s x)).

Lemma trace_cons : forall n s x t, trace n s (x :: t) = xobs n s x :: trace n (xnext s x) t.
Proof. intros. cbn [trace]. unfold xobs, xnext. destruct (xstep s x) as [[[s1 r] ef] r1]. reflexivity. Qed.

Lemma xnext_one : forall s e, xnext s (One e) = fst (fst (step s e)).
Proof. intros. unfold xnext. cbn [xstep]. destruct (step s e) as [[s1 r] ef]. reflexivity. Qed.

Lemma xobs_one : forall n s e,
  xobs n s (One e) = observe n (fst (fst (step s e))) (snd (fst (step s e))) (snd (step s e)).
Proof. intros. unfold xobs, xnext. cbn [xstep]. destruct (step s e) as [[s1 r] ef]. reflexivity. Qed.

Lemma xnext_two : forall s a b, xnext s (Two a b) = fst (fst (step (fst (fst (step s a))) b)).
Proof.
  intros. unfold xnext. cbn [xstep]. destruct (step s a) as [[s1 r1] f1]. cbn [fst].
  destruct (step s1 b) as [[s2 r2] f2]. reflexivity.
Qed.

Lemma xobs_two : forall n s a b,
  xobs n s (Two a b) =
  with_res1 (observe n (fst (fst (step (fst (fst (step s a))) b)))
                     (snd (fst (step (fst (fst (step s a))) b)))
                     (mkeff (e_signals (snd (step s a)) ++ e_signals (snd (step (fst (fst (step s a))) b)))
                            (e_served (snd (step (fst (fst (step s a))) b)))))
            (Some (res_class (snd (fst (step s a))))).
Proof.
  intros. unfold xobs, xnext. cbn [xstep]. destruct (step s a) as [[s1 r1] f1]. cbn [fst snd].
  destruct (step s1 b) as [[s2 r2] f2]. reflexivity.
Qed.

(** a property of every (state, request, quiescence flag) along the run *)
Fixpoint xhist (P : cst -> xevent -> bool -> Prop) (s : cst) (xs : list xevent) (qs : list bool) : Prop :=
  match xs, qs with
  | x :: t, q :: qs' => P s x q /\ xhist P (xnext s x) t qs'
  | _, _ => True
  end.

(** the [walk_q] analogue of the generic walk lemma *)
Lemma walk_q_model_x : forall (F : bool -> obs -> xevent -> obs -> bool) (Inv : cst -> Prop)
    (P : cst -> xevent -> bool -> Prop) n,
  (forall s x q, Inv s -> P s x q -> Inv (xnext s x)) ->
  (forall s x q r0 ef0 r0', Inv s -> P s x q -> F q (with_res1 (observe n s r0 ef0) r0') x (xobs n s x) = true) ->
  forall xs s qs i r0 ef0 r0', Inv s -> xhist P s xs qs ->
  walk_q F i (with_res1 (observe n s r0 ef0) r0') xs (trace n s xs) qs = None.
Proof.
  intros F Inv P n Hinv Hstep. induction xs as [|x t IH]; intros s qs i r0 ef0 r0' Hi Hh; [reflexivity|].
  rewrite trace_cons. destruct qs as [|q qs]; [reflexivity|].
  cbn [xhist] in Hh. destruct Hh as [Hp Hh]. cbn [walk_q].
  rewrite (Hstep s x q r0 ef0 r0' Hi Hp). unfold xobs. apply IH; [exact (Hinv s x q Hi Hp)|exact Hh].
Qed.

Definition x_all (p : event -> bool) (x : xevent) : bool :=
  match x with One e => p e | Two a b => p a && p b end.

(** the quiescence flags are sound for the model: a flag is true only where no monitor notification is
    undelivered after the whole request (pair) *)
Fixpoint xqs_sound (s : cst) (xs : list xevent) (qs : list bool) : Prop :=
  match xs, qs with
  | x :: t, q :: qs' => (q = true -> pend_mon (xnext s x) = []) /\ xqs_sound (xnext s x) t qs'
  | _, _ => True
  end.

Lemma xhist_of_bools : forall n xs s qs,
  forallb (x_all ev_wf) xs = true -> forallb (x_all (ev_addrs_lt n)) xs = true -> xqs_sound s xs qs ->
  xhist (fun s x q => x_all ev_wf x = true /\ x_all (ev_addrs_lt n) x = true
                      /\ (q = true -> pend_mon (xnext s x) = [])) s xs qs.
Proof.
  intros n. induction xs as [|x t IH]; intros s qs Hw Hl Hq; [exact I|].
  destruct qs as [|q qs]; [exact I|].
  cbn [forallb] in Hw, Hl. apply andb_prop in Hw. destruct Hw as [Hw1 Hw2].
  apply andb_prop in Hl. destruct Hl as [Hl1 Hl2]. cbn [xqs_sound] in Hq. destruct Hq as [Hq1 Hq2].
  cbn [xhist]. split; [split; [exact Hw1|split; [exact Hl1|exact Hq1]]|apply IH; assumption].
Qed.

Lemma xqs_any : forall s xs qs, xhist (fun _ _ _ => True) s xs qs.
Proof. intros s xs. revert s. induction xs as [|x t IH]; intros s [|q qs]; cbn [xhist]; auto. Qed.

Lemma xhist_and : forall (P Q : cst -> xevent -> bool -> Prop) xs s qs,
  xhist P s xs qs -> xhist Q s xs qs -> xhist (fun s x q => P s x q /\ Q s x q) s xs qs.
Proof.
  intros P Q. induction xs as [|x t IH]; intros s [|q qs] Hp Hq; cbn [xhist] in *; auto.
  destruct Hp as [Hp1 Hp2]. destruct Hq as [Hq1 Hq2]. split; [split; assumption|apply IH; assumption].
Qed.

(** ** C18 *)
Definition inv18 (rf0 n : nat) (s : cst) : Prop := struct_ok s /\ status_ok s /\ rf s = rf0 /\ keys_lt n s.

Lemma inv18_step : forall rf0 n s e, inv18 rf0 n s -> ev_wf e = true -> ev_addrs_lt n e = true ->
  inv18 rf0 n (fst (fst (step s e))).
Proof.
  intros rf0 n s e [H [Hs [Hrf Hk]]] Hw Hl.
  split; [apply struct_step; assumption|]. split; [apply status_step; exact Hs|].
  split; [rewrite rf_step; exact Hrf|apply keys_lt_step; assumption].
Qed.

Lemma inv18_xnext : forall rf0 n s x, inv18 rf0 n s -> x_all ev_wf x = true -> x_all (ev_addrs_lt n) x = true ->
  inv18 rf0 n (xnext s x).
Proof.
  intros rf0 n s x Hi Hw Hl. destruct x as [e|a b]; cbn [x_all] in Hw, Hl.
  - rewrite xnext_one. apply inv18_step; assumption.
  - apply andb_prop in Hw. destruct Hw as [Hw1 Hw2]. apply andb_prop in Hl. destruct Hl as [Hl1 Hl2].
    rewrite xnext_two. apply inv18_step; [apply inv18_step; assumption|exact Hw2|exact Hl2].
Qed.

(** the pair rule: the structural conjuncts (and, at a quiescent point, the RW count) on the state after
    both requests *)
Lemma c18_pair_model : forall rf0 n q t prev r ef r1,
  struct_ok t -> status_ok t -> rf t = rf0 ->
  c18_step rf0 q prev (SetMode 0%nat WO) (with_res1 (observe n t r ef) r1) = true.
Proof.
  intros rf0 n q t prev r ef r1 H1 [Hc1 _] Hrf.
  unfold c18_step. cbn [o_replicas o_rwc with_res1 observe].
  assert (C1 : nodupb (addrs_of (replicas t)) = true) by (apply nodupb_of_NoDup; exact (st_nodup t H1)).
  assert (C2 : Nat.leb (length (replicas t)) rf0 = true).
  { apply Nat.leb_le. rewrite <- Hrf. exact (st_len t H1). }
  assert (C3 : Nat.leb (length (wo_of (replicas t))) 1 = true).
  { apply Nat.leb_le. unfold wo_of. rewrite map_length. exact (st_wo t H1). }
  assert (C4 : (if q then Nat.eqb (rwc t) (count_rw (replicas t)) else true) = true).
  { destruct q; [|reflexivity]. apply Nat.eqb_eq. exact Hc1. }
  rewrite C1, C2, C3, C4. reflexivity.
Qed.

Theorem c18_oracle_model_x : forall xs rf0 n s r0 ef0 r0' i qs,
  inv18 rf0 n s -> forallb (x_all ev_wf) xs = true -> forallb (x_all (ev_addrs_lt n)) xs = true ->
  walk_q (fun q => lift (c18_step rf0 q) (fun prev a b cur => c18_step rf0 q prev (SetMode 0%nat WO) cur))
         i (with_res1 (observe n s r0 ef0) r0') xs (trace n s xs) qs = None.
Proof.
  intros xs rf0 n s r0 ef0 r0' i qs Hi Hw Hl.
  apply (walk_q_model_x
           (fun q => lift (c18_step rf0 q) (fun prev a b cur => c18_step rf0 q prev (SetMode 0%nat WO) cur))
           (inv18 rf0 n)
           (fun _ x _ => x_all ev_wf x = true /\ x_all (ev_addrs_lt n) x = true) n).
  - intros t x q Ht [Hxw Hxl]. apply inv18_xnext; assumption.
  - intros t x q p0 pf0 p0' Ht [Hxw Hxl]. destruct x as [e|a b]; cbn [lift].
    + rewrite xobs_one. destruct Ht as [H [Hs [Hrf Hk]]]. cbn [x_all] in Hxw. apply c18_step_model; assumption.
    + pose proof (inv18_xnext rf0 n t (Two a b) Ht Hxw Hxl) as [H2 [Hs2 [Hrf2 _]]]. rewrite xnext_two in *.
      rewrite xobs_two. apply c18_pair_model; assumption.
  - exact Hi.
  - clear Hi. revert s qs Hw Hl. induction xs as [|x t IH]; intros s qs Hw Hl; [exact I|].
    destruct qs as [|q qs]; [exact I|].
    cbn [forallb] in Hw, Hl. apply andb_prop in Hw. destruct Hw as [Hw1 Hw2].
    apply andb_prop in Hl. destruct Hl as [Hl1 Hl2].
    cbn [xhist]. split; [split; assumption|apply IH; assumption].
Qed.

Corollary c18_oracle_model_x_init : forall xs rf0 n w0 qs, (1 <= rf0)%nat ->
  forallb (x_all ev_wf) xs = true -> forallb (x_all (ev_addrs_lt n)) xs = true ->
  walk_q (fun q => lift (c18_step rf0 q) (fun prev a b cur => c18_step rf0 q prev (SetMode 0%nat WO) cur))
         0 (obs0 rf0 n w0) xs (trace n (init rf0 w0) xs) qs = None.
Proof.
  intros xs rf0 n w0 qs H Hw Hl. unfold obs0.
  change (observe n (init rf0 w0) ROk noeff) with (with_res1 (observe n (init rf0 w0) ROk noeff) None).
  apply c18_oracle_model_x; [|exact Hw|exact Hl].
  split; [apply struct_init; exact H|]. split; [apply status_init; exact H|].
  split; [reflexivity|apply keys_lt_init].
Qed.

(** ** C13: snapshot chains only grow while no replica is rebuilding *)
Definition chm (s t : cst) : Prop :=
  forall x n, In n (f_chain (wget (w s) x)) -> In n (f_chain (wget (w t) x)).

Lemma chm_refl : forall s, chm s s. Proof. intros s x n H. exact H. Qed.
Lemma chm_trans : forall a b c, chm a b -> chm b c -> chm a c.
Proof. intros a b c H1 H2 x n H. apply H2. apply H1. exact H. Qed.
Lemma chm_cpr : forall s t, cpr s t -> chm s t.
Proof. intros s t [_ [_ [_ [_ H]]]] x n Hin. destruct (H x) as [H1 _]. apply H1. exact Hin. Qed.
Lemma chm_w : forall s t, w t = w s -> chm s t.
Proof. intros s t H x n Hin. rewrite H. exact Hin. Qed.
Lemma chm_keep : forall s t, (forall x, f_chain (wget (w t) x) = f_chain (wget (w s) x)) -> chm s t.
Proof. intros s t H x n Hin. rewrite H. exact Hin. Qed.
Lemma chm_fold : forall {A} (f : cst -> A -> cst) (l : list A) s, (forall t x, chm t (f t x)) -> chm s (fold_left f l s).
Proof.
  intros A f l. induction l as [|x l IH]; intros s H; cbn [fold_left]; [apply chm_refl|].
  eapply chm_trans; [apply H|apply IH; exact H].
Qed.

Lemma di_chain : data_invariant f_chain.
Proof. split; [exact cpi_chain|intros f b; reflexivity]. Qed.

Lemma chm_set_mode : forall s a m, chm s (set_mode_nolock s a m).
Proof. intros. apply chm_w. apply w_set_mode. Qed.
Lemma chm_update_checkpoint : forall s fs, chm s (update_checkpoint s fs).
Proof. intros. apply chm_keep. intros x. apply (update_checkpoint_keeps f_chain cpi_chain). Qed.
Lemma chm_remove_replica : forall s fs a, chm s (remove_replica_nolock s fs a).
Proof. intros. apply chm_keep. intros x. apply (keeps_remove_replica f_chain di_chain). Qed.
Lemma chm_errors : forall s fs errs, chm s (remove_all (fst (handle_error_nolock s errs)) fs errs).
Proof.
  intros. apply chm_keep. intros x. rewrite (keeps_remove_all f_chain di_chain). apply keeps_handle_error.
Qed.
Lemma chm_handle_error : forall errs s, chm s (fst (handle_error_nolock s errs)).
Proof. intros. apply chm_keep. intros x. apply keeps_handle_error. Qed.

Lemma chm_can_add : forall s fs a, chm s (fst (can_add s fs a)).
Proof.
  intros s fs a. unfold can_add.
  destruct (has_replica s a); [apply chm_refl|].
  destruct (find (fun p => mode_eqb (snd p) WO) (replicas s)) as [[wo m]|]; [|apply chm_refl].
  destruct (negb (amem (backends s) wo) || flt fs wo KRev || flt fs a KHttp); [apply chm_refl|].
  destruct (f_rev (wget (w s) wo) <? f_rev (wget (w s) a)); [|apply chm_refl].
  cbn [fst]. apply chm_remove_replica.
Qed.

Lemma chm_add_replica_nolock : forall s fs a i b, chm s (fst (add_replica_nolock s fs a i b)).
Proof.
  intros s fs a i b. unfold add_replica_nolock.
  pose proof (chm_can_add s fs a) as Hc0.
  destruct (can_add s fs a) as [s0 ok]. cbn [fst] in *.
  destruct ok; cbn [negb]; [|exact Hc0].
  set (after := if b then _ else _).
  assert (Hafter : match after with Some (s3, _) => chm s0 s3 | None => True end).
  { subst after. destruct b; [|apply chm_refl].
    destruct (negb (remain_ok s0)); [apply chm_refl|].
    pose proof (cpr_snapshot_all (upd_nsnap s0 (S (nsnap s0))) fs (nsnap s0)) as Hs.
    destruct (snapshot_all (upd_nsnap s0 (S (nsnap s0))) fs (nsnap s0)) as [s2 errs]. cbn [fst] in Hs.
    assert (H2 : chm s0 s2) by (eapply chm_trans; [apply chm_w; reflexivity|apply chm_cpr; exact Hs]).
    destruct errs; [destruct (flt fs a KSnap)|];
      (eapply chm_trans; [exact H2|apply chm_cpr; apply cpr_upd_rep; first [apply wrel_open|apply wrel_snap]]). }
  destruct after as [[s3 r]|]; [|exact Hc0].
  assert (G : chm s s3) by (eapply chm_trans; eauto).
  destruct r; try exact G.
  destruct (flt fs a KSetModeWO); [exact G|].
  eapply chm_trans; [exact G|]. cbn [fst].
  eapply chm_trans; [apply chm_cpr; apply (cpr_upd_rep s3 a (fun f => f_set_mode f RWO)); apply wrel_mode|].
  apply chm_w. reflexivity.
Qed.

Lemma chm_add_during_start : forall s fs a, chm s (fst (add_during_start s fs a)).
Proof.
  intros s fs a. unfold add_during_start.
  destruct (create_backend s fs a) as [[s1 i]|] eqn:Hcb; [|apply chm_w; reflexivity].
  assert (C1 : chm s s1) by (apply chm_cpr; eapply cpr_create_backend; eauto).
  destruct (flt fs a KSize); [eapply chm_trans; [exact C1|apply chm_w; reflexivity]|].
  set (s2 := if csize s1 =? maxint then _ else s1).
  assert (C2 : chm s s2).
  { eapply chm_trans; [exact C1|]. subst s2. destruct (csize s1 =? maxint); apply chm_w; reflexivity. }
  destruct (negb (csize s2 =? f_size (wget (w s1) a))); [eapply chm_trans; [exact C2|apply chm_w; reflexivity]|].
  pose proof (chm_add_replica_nolock s2 fs a i false) as C3.
  destruct (add_replica_nolock s2 fs a i false) as [s3 r]. cbn [fst] in C3.
  assert (C3' : chm s s3) by (eapply chm_trans; eauto).
  assert (Rm : chm s (remove_replica_nolock s3 fs a)) by (eapply chm_trans; [exact C3'|apply chm_remove_replica]).
  destruct r; try (eapply chm_trans; [exact C3'|apply chm_w; reflexivity]).
  destruct (flt fs a KClone); [exact Rm|].
  assert (G : chm s (fst (if flt fs a KSetModeRW then (remove_replica_nolock s3 fs a, RErr)
                  else (set_mode_nolock (upd_rep s3 a (fun f => f_set_mode f RRW)) a RW, ROk)))).
  { destruct (flt fs a KSetModeRW); cbn [fst]; [exact Rm|].
    eapply chm_trans; [exact C3'|].
    eapply chm_trans; [apply chm_cpr; apply cpr_upd_rep; apply wrel_mode|apply chm_set_mode]. }
  destruct (f_clone (wget (w s3) a)); try exact G. exact Rm.
Qed.

Lemma chm_start_adds : forall l s fs, chm s (fst (start_adds s fs l)).
Proof.
  induction l as [|a t IH]; intros s fs; cbn [start_adds]; [apply chm_refl|].
  pose proof (chm_add_during_start s fs a) as H1.
  destruct (add_during_start s fs a) as [s1 r]. cbn [fst] in H1.
  destruct r; try exact H1. eapply chm_trans; [exact H1|apply IH].
Qed.

Ltac chm_uvs :=
  match goal with |- chm _ (update_vol_status ?x) => apply (chm_trans _ x); [|apply chm_w; reflexivity] end.

Lemma chm_start_frontend : forall s, chm s (start_frontend s).
Proof. intros s. unfold start_frontend. destruct (replicas s); [apply chm_refl|apply chm_w; reflexivity]. Qed.

Lemma chm_do_start : forall s l fs, chm s (fst (fst (do_start s l fs))).
Proof.
  intros s l fs. unfold do_start.
  destruct l as [|a0 t]; [apply chm_refl|].
  destruct (replicas s); [|apply chm_refl].
  destruct (negb (signalled s) || negb _); [apply chm_refl|].
  set (s0 := upd_csize _ maxint).
  pose proof (chm_start_adds (a0 :: t) s0 fs) as H1.
  destruct (start_adds s0 fs (a0 :: t)) as [s1 r]. cbn [fst] in H1.
  assert (C1 : chm s s1) by (eapply chm_trans; [apply chm_w; reflexivity|exact H1]).
  assert (Sf : chm s (start_frontend s1)) by (eapply chm_trans; [exact C1|apply chm_start_frontend]).
  destruct r; try exact Sf.
  destruct (existsb (fun p => flt fs (fst p) KRev) (replicas s1)); [exact Sf|].
  cbn [fst]. eapply chm_trans; [|apply chm_start_frontend].
  eapply chm_trans; [|apply chm_update_checkpoint].
  chm_uvs.
  eapply chm_trans; [exact C1|]. apply chm_fold.
  intros u p. destruct (_ =? _); [apply chm_refl|apply chm_set_mode].
Qed.

Lemma chm_fanout : forall (h : frep -> frep) (g : addr -> bool) ws s, (forall f, wrel f (h f)) ->
  chm s (fold_left (fun acc a => if g a then acc else upd_rep acc a h) ws s).
Proof.
  intros h g ws s Hh. apply chm_cpr. apply cpr_fold.
  intros t x. destruct (g x); [apply cpr_refl|apply cpr_upd_rep; exact Hh].
Qed.

Theorem chain_mono_step : forall s e, (forall a, aget (replicas s) a <> Some WO) -> chm s (fst (fst (step s e))).
Proof.
  intros s e Hwo. destruct e; cbn [step].
  - apply chm_cpr. apply cpr_of_sc. apply sc_do_register.
  - apply chm_do_start.
  - unfold do_add_check. pose proof (chm_can_add s fs a) as Hc. destruct (can_add s fs a) as [s1 ok]. cbn [fst] in Hc.
    destruct (negb ok); [exact Hc|]. destruct (Nat.eqb (rf s1) (length (replicas s1))); [exact Hc|].
    eapply chm_trans; [exact Hc|apply chm_w; reflexivity].
  - unfold do_add_commit.
    destruct (negb (existsb (Nat.eqb a) (pend_adds s))); [apply chm_refl|].
    set (s0 := upd_pend_adds s _).
    destruct (create_backend s0 fs a) as [[s1 i]|] eqn:Hcb; [|apply chm_w; reflexivity].
    assert (C1 : chm s s1).
    { apply (chm_trans s s0 s1); [apply chm_w; reflexivity|]. apply chm_cpr. eapply cpr_create_backend. exact Hcb. }
    destruct (Nat.eqb (rf s1) (length (replicas s1))).
    { eapply chm_trans; [exact C1|]. apply chm_cpr. apply cpr_upd_rep. apply wrel_open. }
    pose proof (chm_add_replica_nolock s1 fs a i true) as C2.
    destruct (add_replica_nolock s1 fs a i true) as [s2 r]. cbn [fst] in C2.
    assert (C2' : chm s s2) by (eapply chm_trans; eauto).
    destruct r; try exact C2'.
    cbn [fst]. eapply chm_trans; [|apply chm_update_checkpoint]. chm_uvs. exact C2'.
  - unfold do_verify.
    destruct (aget (replicas s) a) as [m|]; [|apply chm_refl].
    destruct (find (fun p => is_rw (snd p)) (replicas s)) as [[r0 m0]|]; [|destruct m; apply chm_refl].
    destruct m; try apply chm_refl.
    destruct (flt fs r0 KHttp || flt fs a KHttp); [apply chm_refl|].
    match goal with |- context [match ?K with Some k => _ | None => _ end] => destruct K as [k|] end; [|apply chm_refl].
    destruct (Nat.ltb (length (f_chain (wget (w s) a))) k); [apply chm_refl|].
    destruct (negb (list_eqb _ _)); [apply chm_refl|].
    destruct (negb (amem (backends s) r0) || flt fs r0 KRev); [apply chm_refl|].
    destruct (negb (amem (backends s) a) || flt fs a KSetModeRW); [apply chm_refl|].
    set (s1 := upd_rep s a _).
    assert (C1 : chm s s1) by (apply chm_cpr; apply cpr_upd_rep; apply wrel_mode).
    destruct (flt fs a KSetRev); [exact C1|].
    cbn [fst]. eapply chm_trans; [|apply chm_update_checkpoint]. chm_uvs.
    eapply chm_trans; [|apply chm_set_mode].
    eapply chm_trans; [exact C1|]. apply chm_cpr. apply cpr_upd_rep. apply wrel_rev.
  - cbn. apply chm_remove_replica.
  - destruct m; cbn; try apply chm_refl; apply chm_set_mode.
  - unfold do_mon_fire.
    destruct (first_for (pend_mon s) (Nat.eqb a)) as [[i x]|]; [|apply chm_refl].
    cbn [fst]. apply (chm_trans s (upd_mon s (live_mon s) (adel (pend_mon s) i))); [apply chm_w; reflexivity|apply chm_remove_replica].
  - unfold do_mon_fail.
    destruct (first_for (rev (live_mon s)) (Nat.eqb a)) as [[i x]|]; [|apply chm_refl].
    cbn [fst]. apply (chm_trans s (upd_mon s (adel (live_mon s) i) (pend_mon s))); [apply chm_w; reflexivity|].
    eapply chm_trans; [apply chm_set_mode|apply chm_remove_replica].
  - unfold do_write.
    destruct (ro s); [apply chm_refl|].
    destruct ((off <? 0) || (csize s <? off + len)); [apply chm_refl|].
    destruct (negb (avail s)); [apply chm_refl|].
    set (s1 := fold_left _ (writers s) s).
    assert (C1 : chm s s1) by (subst s1; apply chm_fanout; intros f; apply wrel_apply).
    destruct (io_errs (writers s) fs KWrite KWriteAp) as [|e es]; [exact C1|].
    pose proof (chm_errors s1 fs (e :: es)) as C2.
    destruct (handle_error_nolock s1 (e :: es)) as [s2 sup]. cbn [fst] in *. eapply chm_trans; eauto.
  - unfold do_sync. destruct (ro s); [apply chm_refl|]. destruct (negb (avail s)); [apply chm_refl|].
    destruct (io_errs (writers s) fs KSync KSync) as [|e es]; [apply chm_refl|].
    pose proof (chm_errors s fs (e :: es)) as C2.
    destruct (handle_error_nolock s (e :: es)) as [s2 sup]. cbn [fst] in *. exact C2.
  - unfold do_sync. destruct (ro s); [apply chm_refl|]. destruct (negb (avail s)); [apply chm_refl|].
    destruct (io_errs (writers s) fs KUnmap KUnmap) as [|e es]; [apply chm_refl|].
    pose proof (chm_errors s fs (e :: es)) as C2.
    destruct (handle_error_nolock s (e :: es)) as [s2 sup]. cbn [fst] in *. exact C2.
  - unfold do_read.
    destruct ((off <? 0) || (csize s <? off + len)); [apply chm_refl|].
    assert (G : chm s (fst (fst (
      if negb (avail s) then (s, RErr, noeff)
      else if negb (read_order_ok s order fs) then (s, RInvalid, noeff)
      else
        let errs := filter (fun a => flt fs a KRead) order in
        let served := match rev order with lst :: _ => if flt fs lst KRead then None else Some lst | [] => None end in
        match errs with
        | [] => (s, ROk, mkeff [] served)
        | _ =>
            let '(s2, suppressed) := handle_error_nolock s errs in
            let s3 := remove_all s2 fs errs in
            (s3, match served with Some _ => if suppressed then ROk else RErr | None => RErr end, mkeff [] served)
        end)))).
    { destruct (negb (avail s)); [apply chm_refl|].
      destruct (negb (read_order_ok s order fs)); [apply chm_refl|]. cbv zeta.
      destruct (filter (fun a => flt fs a KRead) order) as [|e es]; [apply chm_refl|].
      pose proof (chm_errors s fs (e :: es)) as C2.
      destruct (handle_error_nolock s (e :: es)) as [s2 sup]. cbn [fst] in *. exact C2. }
    destruct (replicas s) as [|[a0 m0] t]; [apply chm_refl|].
    destruct m0; destruct t; try exact G; apply chm_refl.
  - unfold do_snapshot.
    destruct (negb (Nat.eqb (rwc s) (rf s))); [apply chm_refl|].
    destruct (Nat.eqb (length (backends s)) 0); [apply chm_refl|].
    destruct (negb (remain_ok s)); [apply chm_refl|].
    destruct (last_rw s) as [r0|]; [|apply chm_refl].
    destruct (flt fs r0 KHttp); [apply chm_refl|].
    destruct (existsb (Nat.eqb name) (f_chain (wget (w s) r0))); [apply chm_refl|].
    pose proof (cpr_snapshot_all s fs name) as Hs.
    destruct (snapshot_all s fs name) as [s1 errs]. cbn [fst] in Hs.
    destruct errs as [|e es]; [apply chm_cpr; exact Hs|].
    pose proof (chm_handle_error (e :: es) s1) as H2.
    destruct (handle_error_nolock s1 (e :: es)) as [s2 sup]. cbn [fst] in *.
    eapply chm_trans; [apply chm_cpr; exact Hs|exact H2].
  - unfold do_resize.
    destruct (newsize <? csize s); [apply chm_refl|]. destruct (newsize =? csize s); [apply chm_refl|].
    set (s1 := fold_left _ (writers s) s).
    assert (C1 : chm s s1) by (subst s1; apply chm_fanout; intros f; apply wrel_size).
    set (errs := filter (fun a => flt fs a KResize) (writers s)).
    assert (C2 : chm s (fst (match errs with
                               | [] => (s1, false)
                               | _ => let '(s2, suppressed) := handle_error_nolock s1 errs in (s2, negb suppressed)
                               end))).
    { destruct errs as [|e es]; [exact C1|].
      pose proof (chm_handle_error (e :: es) s1) as H2.
      destruct (handle_error_nolock s1 (e :: es)) as [s2 sup]. cbn [fst] in *. eapply chm_trans; eauto. }
    destruct (match errs with [] => (s1, false) | _ => _ end) as [s2 failed]. cbn [fst] in C2.
    destruct failed; [exact C2|].
    destruct (flt fs 0%nat KFeResize); [exact C2|].
    eapply chm_trans; [exact C2|apply chm_w; reflexivity].
  - unfold do_sync_data. destruct (aget (replicas s) a) as [[]|] eqn:Ea; try apply chm_refl.
    exfalso. exact (Hwo a Ea).
Qed.

(** ** C13: the pair rule *)
Lemma cpr_do_snapshot : forall s n fs, cpr s (fst (do_snapshot s n fs)).
Proof.
  intros s n fs. unfold do_snapshot.
  destruct (negb (Nat.eqb (rwc s) (rf s))); [apply cpr_refl|].
  destruct (Nat.eqb (length (backends s)) 0); [apply cpr_refl|].
  destruct (negb (remain_ok s)); [apply cpr_refl|].
  destruct (last_rw s) as [r0|]; [|apply cpr_refl].
  destruct (flt fs r0 KHttp); [apply cpr_refl|].
  destruct (existsb (Nat.eqb n) (f_chain (wget (w s) r0))); [apply cpr_refl|].
  pose proof (cpr_snapshot_all s fs n) as Hs.
  destruct (snapshot_all s fs n) as [s1 errs]. cbn [fst] in Hs.
  destruct errs as [|e es]; [exact Hs|].
  pose proof (cpr_handle_error (e :: es) s1) as H2.
  destruct (handle_error_nolock s1 (e :: es)) as [s2 sup]. cbn [fst] in *. eapply cpr_trans; eauto.
Qed.

Lemma chain_of_with_res1 : forall o r a, chain_of (with_res1 o r) a = chain_of o a.
Proof. reflexivity. Qed.

(** a snapshot accepted while all RF replicas were listed RW is on every one of them that did not fail
    it, also after the request that was waiting behind it *)
Theorem snapshot_survives_second : forall s nm fs b x,
  struct_ok s -> count_rw (replicas s) = length (replicas s) ->
  snd (do_snapshot s nm fs) = ROk -> In x (keys (replicas s)) -> flt fs x KSnap = false ->
  In nm (f_chain (wget (w (fst (fst (step (fst (do_snapshot s nm fs)) b)))) x)).
Proof.
  intros s nm fs b x Hst Hall Hok Hx Hf.
  assert (Hrw : forall a m, In (a, m) (replicas s) -> m = RW) by (apply count_rw_full; exact Hall).
  apply chain_mono_step.
  - intros a Ea. apply CheckpointInv.aget_in in Ea.
    destruct (cpr_do_snapshot s nm fs) as [_ [_ [_ [R4 _]]]].
    destruct (R4 a WO Ea) as [_ Hw]. specialize (Hw eq_refl). apply Hrw in Hw. discriminate.
  - apply snapshot_ack_reaches; [exact Hok| |exact Hf].
    rewrite (writers_in_service_st s Hst). apply in_service_rw.
    apply keys_in in Hx. destruct Hx as [m Hm]. rewrite (Hrw x m Hm) in Hm. exact Hm.
Qed.

Lemma c13_pair_model : forall rf0 n s a b r0 ef0 r0' r2 ef2,
  struct_ok s -> rf s = rf0 -> keys_lt n s ->
  c13_pair rf0 (with_res1 (observe n s r0 ef0) r0') a b
           (with_res1 (observe n (fst (fst (step (fst (fst (step s a))) b))) r2 ef2)
                      (Some (res_class (snd (fst (step s a)))))) = true.
Proof.
  intros rf0 n s a b r0 ef0 r0' r2 ef2 Hst Hrf Hk. destruct a; try reflexivity.
  assert (Es : step s (Snapshot name fs) = (fst (do_snapshot s name fs), snd (do_snapshot s name fs), noeff))
    by (cbn [step]; destruct (do_snapshot s name fs); reflexivity).
  rewrite Es. cbn [fst snd]. unfold c13_pair. cbn [o_replicas o_res1 with_res1 observe].
  destruct (Nat.eqb (count_rw (replicas s)) rf0 && Nat.eqb (length (replicas s)) rf0) eqn:Ec; [|reflexivity].
  apply andb_prop in Ec. destruct Ec as [Ec1 Ec2]. apply Nat.eqb_eq in Ec1. apply Nat.eqb_eq in Ec2.
  destruct (snd (do_snapshot s name fs)) eqn:Er; cbn [res_class]; try reflexivity.
  apply forallb_forall. intros x Hx.
  destruct (flt fs x KSnap) eqn:Ef; [reflexivity|].
  match goal with |- mem name (chain_of ?o x) = true =>
    change (chain_of o x) with (chain_of (observe n (fst (fst (step (fst (do_snapshot s name fs)) b))) r2 ef2) x) end.
  rewrite chain_of_observe by (apply Hk; exact Hx). apply mem_in.
  apply snapshot_survives_second; [exact Hst|congruence|exact Er|exact Hx|exact Ef].
Qed.

Definition inv13 (rf0 n : nat) (s : cst) : Prop := ck_inv s /\ status_ok s /\ rf s = rf0 /\ keys_lt n s.

Lemma inv13_step : forall rf0 n s e, inv13 rf0 n s -> ev_wf e = true -> ev_addrs_lt n e = true ->
  inv13 rf0 n (fst (fst (step s e))).
Proof.
  intros rf0 n s e [H [Hs [Hrf Hk]]] Hw Hl.
  split; [apply ck_inv_step; assumption|]. split; [apply status_step; exact Hs|].
  split; [rewrite rf_step; exact Hrf|apply keys_lt_step; assumption].
Qed.

Lemma inv13_xnext : forall rf0 n s x, inv13 rf0 n s -> x_all ev_wf x = true -> x_all (ev_addrs_lt n) x = true ->
  inv13 rf0 n (xnext s x).
Proof.
  intros rf0 n s x Hi Hw Hl. destruct x as [e|a b]; cbn [x_all] in Hw, Hl.
  - rewrite xnext_one. apply inv13_step; assumption.
  - apply andb_prop in Hw. destruct Hw as [Hw1 Hw2]. apply andb_prop in Hl. destruct Hl as [Hl1 Hl2].
    rewrite xnext_two. apply inv13_step; [apply inv13_step; assumption|exact Hw2|exact Hl2].
Qed.

Theorem c13_oracle_model_x : forall xs rf0 n s r0 ef0 r0' i qs,
  inv13 rf0 n s -> forallb (x_all ev_wf) xs = true -> forallb (x_all (ev_addrs_lt n)) xs = true ->
  xqs_sound s xs qs ->
  walk_q (fun q => lift (c13_step rf0 q) (c13_pair rf0))
         i (with_res1 (observe n s r0 ef0) r0') xs (trace n s xs) qs = None.
Proof.
  intros xs rf0 n s r0 ef0 r0' i qs Hi Hw Hl Hq.
  apply (walk_q_model_x
           (fun q => lift (c13_step rf0 q) (c13_pair rf0))
           (inv13 rf0 n)
           (fun s x q => x_all ev_wf x = true /\ x_all (ev_addrs_lt n) x = true
                         /\ (q = true -> pend_mon (xnext s x) = [])) n).
  - intros t x q Ht [Hxw [Hxl _]]. apply inv13_xnext; assumption.
  - intros t x q p0 pf0 p0' Ht [Hxw [Hxl Hxq]]. destruct x as [e|a b]; cbn [lift].
    + rewrite xobs_one. rewrite xnext_one in Hxq. destruct Ht as [H [Hs [Hrf Hk]]]. cbn [x_all] in Hxw, Hxl.
      apply c13_step_model; assumption.
    + rewrite xobs_two. destruct Ht as [[H _] [_ [Hrf Hk]]]. apply c13_pair_model; assumption.
  - exact Hi.
  - apply xhist_of_bools; assumption.
Qed.

Corollary c13_oracle_model_x_init : forall xs rf0 n w0 qs, (1 <= rf0)%nat ->
  forallb (x_all ev_wf) xs = true -> forallb (x_all (ev_addrs_lt n)) xs = true ->
  xqs_sound (init rf0 w0) xs qs ->
  walk_q (fun q => lift (c13_step rf0 q) (c13_pair rf0))
         0 (obs0 rf0 n w0) xs (trace n (init rf0 w0) xs) qs = None.
Proof.
  intros xs rf0 n w0 qs H Hw Hl Hq. unfold obs0.
  change (observe n (init rf0 w0) ROk noeff) with (with_res1 (observe n (init rf0 w0) ROk noeff) None).
  apply c13_oracle_model_x; [|exact Hw|exact Hl|exact Hq].
  split; [split; [apply struct_init; exact H|split; [apply cp_init|apply mon_init]]|].
  split; [apply status_init; exact H|]. split; [reflexivity|apply keys_lt_init].
Qed.

(** non-vacuity: a snapshot accepted with the only replica RW, and the removal that was waiting behind it:
    the pair rule applies ([o_res1] is ok) and is satisfied although the replica is gone afterwards *)
Example c13_pair_example :
  let xs := map One ex_boot ++ [Two (Snapshot 7%nat []) (Remove 0%nat [])] in
  let tr := trace 1 (init 1 ex_world) xs in
  walk_q (fun q => lift (c13_step 1 q) (c13_pair 1)) 0 (obs0 1 1 ex_world) xs tr [true; true; false] = None
  /\ map o_res1 tr = [None; None; Some ROk]
  /\ map o_replicas tr = [[]; [(0%nat, RW)]; []].
Proof. vm_compute. repeat split. Qed.
