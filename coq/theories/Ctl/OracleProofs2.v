(** * Ctl: the trace oracles of C04, C02, C05, C09 accept every trace of the model
    (single-request histories).  Same shape as OracleProofs.v (C03): a step lemma under the invariants,
    then the induction over the trace. *)
From Coq Require Import List ZArith Bool Arith Lia.
From Jiva Require Import Ctl.Model Ctl.Corr Ctl.Oracles Ctl.Proofs Ctl.Props Ctl.RfConst Ctl.OracleProofs.
Import ListNotations.
Open Scope Z_scope.

(** ** generic induction over a model trace *)
Fixpoint hist_ok (P : cst -> event -> Prop) (s : cst) (es : list event) : Prop :=
  match es with
  | [] => True
  | e :: t => P s e /\ hist_ok P (fst (fst (step s e))) t
  end.

Lemma hist_ok_imp : forall (P Q : cst -> event -> Prop) es s,
  (forall s e, P s e -> Q s e) -> hist_ok P s es -> hist_ok Q s es.
Proof.
  intros P Q. induction es as [|e t IH]; intros s H Hh; cbn in *; [exact I|].
  destruct Hh as [H1 H2]. split; [apply H; exact H1|apply IH; assumption].
Qed.

Lemma hist_ok_and : forall (P Q : cst -> event -> Prop) es s,
  hist_ok P s es -> hist_ok Q s es -> hist_ok (fun s e => P s e /\ Q s e) s es.
Proof.
  intros P Q. induction es as [|e t IH]; intros s H1 H2; cbn in *; [exact I|].
  destruct H1 as [A1 A2]. destruct H2 as [B1 B2]. split; [split; assumption|apply IH; assumption].
Qed.

Lemma hist_ok_forallb : forall (p : event -> bool) es s, forallb p es = true -> hist_ok (fun _ e => p e = true) s es.
Proof.
  intros p. induction es as [|e t IH]; intros s H; cbn in *; [exact I|].
  apply andb_prop in H. destruct H as [H1 H2]. split; [exact H1|apply IH; exact H2].
Qed.

Lemma walk_model : forall (f : obs -> event -> obs -> bool) (pf : obs -> event -> event -> obs -> bool)
  (Inv : cst -> Prop) (P : cst -> event -> Prop) n,
  (forall s e, Inv s -> P s e -> Inv (fst (fst (step s e)))) ->
  (forall s e r0 ef0 r0', Inv s -> P s e ->
     f (with_res1 (observe n s r0 ef0) r0') e
       (observe n (fst (fst (step s e))) (snd (fst (step s e))) (snd (step s e))) = true) ->
  forall es s r0 ef0 r0' i, Inv s -> hist_ok P s es ->
  walk (lift f pf) i (with_res1 (observe n s r0 ef0) r0') (map One es) (trace n s (map One es)) = None.
Proof.
  intros f pf Inv P n Hpres Hstep.
  induction es as [|e t IH]; intros s r0 ef0 r0' i Hinv Hh; cbn [map trace walk]; [reflexivity|].
  cbn [xstep]. destruct Hh as [Hp Ht].
  pose proof (Hstep s e r0 ef0 r0' Hinv Hp) as Hs.
  pose proof (Hpres s e Hinv Hp) as Hi.
  destruct (step s e) as [[s1 r] ef] eqn:E. cbn [fst snd] in *.
  cbn [walk lift].
  change (with_res1 (observe n s1 r ef) None) with (observe n s1 r ef).
  rewrite Hs.
  change (observe n s1 r ef) with (with_res1 (observe n s1 r ef) None).
  apply IH; assumption.
Qed.

(** ** observations of the replicas *)
Lemma nth_error_map_seq : forall {A} (f : nat -> A) n st a, (a < n)%nat ->
  nth_error (map f (seq st n)) a = Some (f (st + a)%nat).
Proof.
  intros A f. induction n as [|n IH]; intros st a Ha; [lia|].
  destruct a as [|a]; cbn [seq map nth_error].
  - rewrite Nat.add_0_r. reflexivity.
  - rewrite IH by lia. f_equal. f_equal. lia.
Qed.

Lemma rep_of_observe : forall n s r e a, (a < n)%nat ->
  rep_of (observe n s r e) a = Some (observe_rep (wget (w s) a)).
Proof.
  intros. unfold rep_of, observe. cbn [o_reps]. rewrite nth_error_map_seq by assumption. reflexivity.
Qed.

Lemma rep_of_with_res1 : forall o r a, rep_of (with_res1 o r) a = rep_of o a.
Proof. reflexivity. Qed.

Lemma applied_of_observe : forall n s r e a, (a < n)%nat ->
  applied_of (observe n s r e) a = f_applied (wget (w s) a).
Proof.
  intros. pose proof (rep_of_observe n s r e a H) as R. unfold rep_of in R. unfold applied_of. rewrite R. reflexivity.
Qed.

Lemma length_reps_observe : forall n s r e, length (o_reps (observe n s r e)) = n.
Proof. intros. unfold observe. cbn [o_reps]. rewrite map_length, seq_length. reflexivity. Qed.

Lemma mem_in : forall a l, mem a l = true <-> In a l.
Proof.
  intros. unfold mem. rewrite existsb_exists. split.
  - intros [x [Hx He]]. apply Nat.eqb_eq in He. subst. exact Hx.
  - intros H. exists a. split; [exact H|apply Nat.eqb_refl].
Qed.

Lemma mem_false : forall a l, mem a l = false <-> ~ In a l.
Proof.
  intros. split.
  - intros H Hin. apply mem_in in Hin. congruence.
  - intros H. destruct (mem a l) eqn:E; [|reflexivity]. apply mem_in in E. contradiction.
Qed.

Lemma holds_observe : forall n s r e a wid, (a < n)%nat ->
  holds (observe n s r e) a wid = true <-> In wid (f_applied (wget (w s) a)).
Proof. intros. unfold holds. rewrite applied_of_observe by assumption. apply mem_in. Qed.

(** same world entry, same observation *)
Lemma same_reps_eq : forall n s t r1 e1 r1' r2 e2 a,
  wget (w t) a = wget (w s) a ->
  same_reps (with_res1 (observe n s r1 e1) r1') (observe n t r2 e2) a = true.
Proof.
  intros n s t r1 e1 r1' r2 e2 a Hw. unfold same_reps. rewrite rep_of_with_res1.
  destruct (Nat.ltb a n) eqn:E.
  - apply Nat.ltb_lt in E. rewrite !rep_of_observe by exact E. rewrite Hw, rep_diff_refl. reflexivity.
  - apply Nat.ltb_ge in E. unfold rep_of, observe. cbn [o_reps].
    assert (N : forall u, nth_error (map (fun a0 => observe_rep (wget (w u) a0)) (seq 0 n)) a = None).
    { intros u. apply nth_error_None. rewrite map_length, seq_length. exact E. }
    rewrite !N. reflexivity.
Qed.

(** ** lists of (address, mode) *)
Lemma aget_in : forall {V} (l : list (nat * V)) x v, aget l x = Some v -> In (x, v) l.
Proof.
  intros V l x v. induction l as [|[k u] t IH]; cbn; intros H; [discriminate|].
  destruct (Nat.eqb k x) eqn:E.
  - apply Nat.eqb_eq in E. inversion H; subst. left. reflexivity.
  - right. apply IH. exact H.
Qed.

Lemma in_keys : forall {V} (l : list (nat * V)) x v, In (x, v) l -> In x (keys l).
Proof. intros V l x v H. change x with (fst (x, v)). apply in_map. exact H. Qed.

Lemma in_service_in : forall l a, In a (in_service l) <-> exists m, In (a, m) l /\ m <> ERR.
Proof.
  intros l a. unfold in_service. rewrite in_map_iff. split.
  - intros [[k m] [Hk Hin]]. cbn in Hk. subst k. apply filter_In in Hin. destruct Hin as [Hin Hm].
    exists m. split; [exact Hin|]. intro E. subst m. cbn in Hm. discriminate.
  - intros [m [Hin Hm]]. exists (a, m). split; [reflexivity|]. apply filter_In. split; [exact Hin|].
    cbn. destruct m; try reflexivity. contradiction.
Qed.

Lemma rw_of_in : forall l a, In a (rw_of l) <-> In (a, RW) l.
Proof.
  intros l a. unfold rw_of. rewrite in_map_iff. split.
  - intros [[k m] [Hk Hin]]. cbn in Hk. subst k. apply filter_In in Hin. destruct Hin as [Hin Hm].
    cbn in Hm. destruct m; try discriminate. exact Hin.
  - intros Hin. exists (a, RW). split; [reflexivity|]. apply filter_In. split; [exact Hin|reflexivity].
Qed.

Lemma rw_in_service : forall l a, In a (rw_of l) -> In a (in_service l).
Proof. intros l a H. apply rw_of_in in H. apply in_service_in. exists RW. split; [exact H|discriminate]. Qed.

Lemma in_service_keys : forall l a, In a (in_service l) -> In a (keys l).
Proof. intros l a H. apply in_service_in in H. destruct H as [m [H _]]. eapply in_keys. exact H. Qed.

Lemma writers_in_service : forall s, struct_ok s -> writers s = in_service (replicas s).
Proof.
  intros s H. rewrite <- (st_mirror s H). unfold writers, in_service, proj.
  induction (backends s) as [|[k [m i]] t IH]; cbn; [reflexivity|].
  destruct (negb (mode_eqb m ERR)); cbn; rewrite IH; reflexivity.
Qed.

Lemma readers_rw_of : forall s, struct_ok s -> readers s = rw_of (replicas s).
Proof.
  intros s H. rewrite <- (st_mirror s H). unfold readers, rw_of, proj.
  induction (backends s) as [|[k [m i]] t IH]; cbn; [reflexivity|].
  destruct (is_rw m); cbn; rewrite IH; reflexivity.
Qed.

Lemma existsb_false_filter : forall {A} (f : A -> bool) l, existsb f l = false -> filter f l = [].
Proof.
  intros A f l. induction l as [|x t IH]; cbn; intros H; [reflexivity|].
  apply orb_false_iff in H. destruct H as [H1 H2]. rewrite H1. apply IH. exact H2.
Qed.

Lemma no_avail_no_rw : forall s, struct_ok s -> avail s = false -> rw_of (replicas s) = [].
Proof.
  intros s H Hav. rewrite <- (readers_rw_of s H). unfold readers.
  rewrite (st_avail s H) in Hav. rewrite (existsb_false_filter _ _ Hav). reflexivity.
Qed.

Lemma rw_avail : forall s a, struct_ok s -> In a (rw_of (replicas s)) -> avail s = true.
Proof.
  intros s a H Hin. destruct (avail s) eqn:E; [reflexivity|].
  rewrite (no_avail_no_rw s H E) in Hin. contradiction.
Qed.

Lemma rw_aget : forall s a, struct_ok s -> In a (rw_of (replicas s)) -> aget (replicas s) a = Some RW.
Proof.
  intros s a H Hin. apply rw_of_in in Hin. apply aget_in_nodup; [exact (st_nodup s H)|exact Hin].
Qed.

Lemma nodupb_NoDup : forall l, nodupb l = true -> NoDup l.
Proof.
  induction l as [|h t IH]; cbn; intros H; [constructor|].
  apply andb_prop in H. destruct H as [H1 H2]. constructor; [|apply IH; exact H2].
  intro Hin. apply negb_true_iff in H1.
  assert (X : existsb (Nat.eqb h) t = true) by (apply existsb_exists; exists h; split; [exact Hin|apply Nat.eqb_refl]).
  congruence.
Qed.

(** ** detaching the replicas that failed a call: handleErrorNoLock then the removals *)
Definition detach (s : cst) (fs : faults) (errs : list addr) : cst :=
  remove_all (fst (handle_error_nolock s errs)) fs errs.

Lemma struct_detach : forall s fs errs, struct_ok s -> struct_ok (detach s fs errs).
Proof. intros. unfold detach. apply struct_remove_all. apply struct_handle_error. assumption. Qed.

Lemma detach_gone : forall s fs errs a, struct_ok s -> In a errs -> ~ In a (keys (replicas (detach s fs errs))).
Proof. intros s fs errs a H Hin. unfold detach. apply remove_all_gone; [apply struct_handle_error; exact H|exact Hin]. Qed.

Lemma in_adel : forall {V} (l : list (nat * V)) a p, In p (adel l a) -> In p l.
Proof.
  intros V l a p. induction l as [|[k v] t IH]; cbn; [auto|].
  destruct (Nat.eqb k a); cbn; intros H; [right; exact H|].
  destruct H as [H|H]; [left; exact H|right; apply IH; exact H].
Qed.

Lemma in_replicas_remove : forall s fs a p, In p (replicas (remove_replica_nolock s fs a)) -> In p (replicas s).
Proof.
  intros s fs a p Hin. destruct (has_replica s a) eqn:E.
  - destruct (replicas_remove s fs a E) as [R _]. rewrite R in Hin. eapply in_adel. exact Hin.
  - unfold remove_replica_nolock in Hin. rewrite E in Hin. exact Hin.
Qed.

Lemma in_replicas_remove_all : forall errs s fs p, In p (replicas (remove_all s fs errs)) -> In p (replicas s).
Proof.
  unfold remove_all. induction errs as [|a t IH]; intros s fs p Hin; cbn in *; [exact Hin|].
  apply IH in Hin. eapply in_replicas_remove. exact Hin.
Qed.

Lemma in_replicas_set_mode_err : forall s a p, In p (replicas (set_mode_nolock s a ERR)) -> snd p <> ERR -> In p (replicas s).
Proof.
  intros s a p Hin Hm. destruct (replicas_set_mode s a ERR) as [R|R]; rewrite R in Hin; [exact Hin|].
  apply in_map_iff in Hin. destruct Hin as [q [Hq Hin]]. unfold setm in Hq.
  destruct (Nat.eqb (fst q) a); [subst p; cbn in Hm; contradiction|subst q; exact Hin].
Qed.

Lemma in_replicas_handle_error : forall errs s p,
  In p (replicas (fst (handle_error_nolock s errs))) -> snd p <> ERR -> In p (replicas s).
Proof.
  intros errs s p. unfold handle_error_nolock. cbn [fst].
  revert s. induction errs as [|a t IH]; intros s Hin Hm; cbn in *; [exact Hin|].
  eapply in_replicas_set_mode_err; [apply (IH _ Hin Hm)|exact Hm].
Qed.

Lemma detach_in : forall s fs errs p, In p (replicas (detach s fs errs)) -> snd p <> ERR -> In p (replicas s).
Proof.
  intros s fs errs p Hin Hm. unfold detach in Hin. apply in_replicas_remove_all in Hin.
  eapply in_replicas_handle_error; eassumption.
Qed.

(** the world: a removal only closes the removed replica (the checkpoint is withdrawn, nothing is stored) *)
Lemma w_update_checkpoint_short : forall s fs, count_rw (replicas s) <> rf s -> w (update_checkpoint s fs) = w s.
Proof.
  intros s fs H. unfold update_checkpoint.
  destruct (Nat.eqb (count_rw (replicas s)) (rf s)) eqn:E; [apply Nat.eqb_eq in E; contradiction|reflexivity].
Qed.

Lemma w_remove_replica_other : forall s fs a x, struct_ok s -> x <> a ->
  wget (w (remove_replica_nolock s fs a)) x = wget (w s) x.
Proof.
  intros s fs a x H Hx. destruct (has_replica s a) eqn:Ha.
  - pose proof (replicas_remove s fs a Ha) as [R Rf].
    unfold remove_replica_nolock in *. rewrite Ha in *. cbn [negb] in *.
    match goal with |- wget (w (update_checkpoint ?X fs)) x = _ => set (y := X) in * end.
    destruct (sst_update_checkpoint y fs) as [Q1 [_ [Q3 _]]].
    rewrite w_update_checkpoint_short.
    + subst y. cbn [w update_vol_status upd_status]. unfold remove_backend.
      cbn [backends upd_replicas upd_registered].
      match goal with |- context [aget ?B a] => destruct (aget B a) as [[mb ib]|] end.
      * cbn [w upd_backends upd_rep upd_w]. rewrite wget_wset.
        assert (E : Nat.eqb a x = false) by (apply Nat.eqb_neq; intro E; apply Hx; symmetry; exact E).
        rewrite E, w_stop_monitoring. cbn. destruct (Nat.eqb (length (replicas s)) 1 && fe_up s); reflexivity.
      * cbn. destruct (Nat.eqb (length (replicas s)) 1 && fe_up s); reflexivity.
    + rewrite <- Q1, <- Q3, R, Rf.
      pose proof (length_adel_lt (replicas s) a (proj1 (has_replica_in s a) Ha)) as L1.
      pose proof (count_rw_le_length (adel (replicas s) a)) as L2.
      pose proof (st_len s H) as L3.
      intro E. rewrite E in L2.
      exact (Nat.lt_irrefl _ (Nat.lt_le_trans _ _ _ L1 (Nat.le_trans _ _ _ L3 L2))).
  - unfold remove_replica_nolock. rewrite Ha. reflexivity.
Qed.

Lemma w_remove_all_other : forall errs s fs x, struct_ok s -> ~ In x errs ->
  wget (w (remove_all s fs errs)) x = wget (w s) x.
Proof.
  unfold remove_all. induction errs as [|a t IH]; intros s fs x H Hx; cbn; [reflexivity|].
  rewrite IH; [|apply struct_remove_replica; exact H|intro Hi; apply Hx; right; exact Hi].
  apply w_remove_replica_other; [exact H|]. intro E. apply Hx. left. symmetry. exact E.
Qed.

Lemma w_handle_error : forall errs s, w (fst (handle_error_nolock s errs)) = w s.
Proof.
  intros errs s. unfold handle_error_nolock. cbn [fst].
  revert s. induction errs as [|a t IH]; intros s; cbn; [reflexivity|]. rewrite IH, w_set_mode. reflexivity.
Qed.

Lemma detach_w : forall s fs errs x, struct_ok s -> ~ In x errs ->
  wget (w (detach s fs errs)) x = wget (w s) x.
Proof.
  intros s fs errs x H Hx. unfold detach.
  rewrite w_remove_all_other; [|apply struct_handle_error; exact H|exact Hx].
  rewrite w_handle_error. reflexivity.
Qed.

Lemma detach_nil : forall s fs, detach s fs [] = s.
Proof. reflexivity. Qed.

(** some RW replica outside [errs] keeps the error suppressed *)
Lemma suppressed_by_rw : forall s errs x, aget (replicas s) x = Some RW -> ~ In x errs -> errs <> [] ->
  snd (handle_error_nolock s errs) = true.
Proof.
  intros s errs x Hrw Hnx Hne.
  pose proof (handle_error_keeps_others errs s x Hnx) as K. rewrite Hrw in K.
  unfold handle_error_nolock in *. cbn [fst snd] in *.
  destruct errs as [|e es]; [contradiction|].
  apply Nat.ltb_lt. eapply count_rw_pos. exact K.
Qed.

(** ** C04 *)
Definition read_main (s : cst) (order : list addr) (fs : faults) : cst * res * eff :=
  if negb (avail s) then (s, RErr, noeff)
  else if negb (read_order_ok s order fs) then (s, RInvalid, noeff)
  else
    let errs := filter (fun a => flt fs a KRead) order in
    let served := match rev order with lst :: _ => if flt fs lst KRead then None else Some lst | [] => None end in
    match errs with
    | [] => (s, ROk, mkeff [] served)
    | _ =>
        let '(s2, suppressed) := handle_error_nolock s errs in
        let s3 := remove_all s2 fs errs in
        (s3, match served with Some _ => if suppressed then ROk else RErr | None => RErr end, mkeff [] served)
    end.

Lemma do_read_unfold : forall s off len order fs,
  do_read s off len order fs =
  if (off <? 0) || (csize s <? off + len) then (s, RErr, noeff)
  else match replicas s with
       | [] => (s, RErr, noeff)
       | [(_, WO)] => (s, RErr, noeff)
       | _ => read_main s order fs
       end.
Proof. reflexivity. Qed.

(** what the model's read does, in the vocabulary of the oracle *)
Definition read_spec (s : cst) (order : list addr) (fs : faults) (out : cst * res * eff) : Prop :=
  match e_served (snd out) with
  | Some a =>
      snd (fst out) = ROk /\ In a (rw_of (replicas s))
      /\ (forall x, In x order -> In x (rw_of (replicas s)))
      /\ (forall x, In x order -> x <> a -> ~ In x (keys (replicas (fst (fst out)))))
  | None =>
      res_class (snd (fst out)) <> ROk
      /\ (snd (fst out) = RInvalid \/ forall x, In x (rw_of (replicas s)) -> flt fs x KRead = true)
  end.

Lemma read_main_spec : forall s order fs, struct_ok s -> read_spec s order fs (read_main s order fs).
Proof.
  intros s order fs H. unfold read_main.
  destruct (negb (avail s)) eqn:Eav.
  { apply negb_true_iff in Eav. unfold read_spec. cbn. split; [discriminate|]. right.
    rewrite (no_avail_no_rw s H Eav). intros x []. }
  destruct (negb (read_order_ok s order fs)) eqn:Eo.
  { unfold read_spec. cbn. split; [discriminate|]. left. reflexivity. }
  apply negb_false_iff in Eo. unfold read_order_ok in Eo.
  apply andb_prop in Eo. destruct Eo as [Eo1 Eo3]. apply andb_prop in Eo1. destruct Eo1 as [Eo1 Eo2].
  rewrite (readers_rw_of s H) in *.
  assert (Hsub : forall x, In x order -> In x (rw_of (replicas s))).
  { intros x Hx. rewrite forallb_forall in Eo2. specialize (Eo2 x Hx). apply existsb_exists in Eo2.
    destruct Eo2 as [y [Hy Hey]]. apply Nat.eqb_eq in Hey. subst y. exact Hy. }
  cbv zeta.
  destruct (rev order) as [|lst before] eqn:Er; [discriminate|].
  assert (Hlst : In lst order) by (apply in_rev; rewrite Er; left; reflexivity).
  apply andb_prop in Eo3. destruct Eo3 as [Eb El].
  assert (Hbefore : forall x, In x order -> x <> lst -> flt fs x KRead = true).
  { intros x Hx Hne. apply in_rev in Hx. rewrite Er in Hx. destruct Hx as [Hx|Hx]; [subst; contradiction|].
    rewrite forallb_forall in Eb. apply Eb. exact Hx. }
  set (errs := filter (fun a => flt fs a KRead) order).
  destruct (flt fs lst KRead) eqn:Ef.
  - (* everybody failed *)
    cbn [negb orb] in El. apply Nat.eqb_eq in El.
    assert (Hall : forall x, In x (rw_of (replicas s)) -> flt fs x KRead = true).
    { intros x Hx.
      assert (Hi : incl (rw_of (replicas s)) order).
      { apply NoDup_length_incl; [apply nodupb_NoDup; exact Eo1|rewrite El; apply Nat.le_refl|exact Hsub]. }
      specialize (Hi x Hx). destruct (Nat.eq_dec x lst) as [E|E]; [subst; exact Ef|apply Hbefore; assumption]. }
    assert (Hine : In lst errs) by (apply filter_In; split; assumption).
    destruct errs as [|e es] eqn:Ee; [contradiction|].
    destruct (handle_error_nolock s (e :: es)) as [s2 sup].
    unfold read_spec. cbn. split; [discriminate|]. right. exact Hall.
  - assert (Hnl : ~ In lst errs) by (intro Hi; apply filter_In in Hi; destruct Hi as [_ Hi]; congruence).
    destruct errs as [|e es] eqn:Ee.
    + unfold read_spec. cbn. split; [reflexivity|]. split; [apply Hsub; exact Hlst|]. split; [exact Hsub|].
      intros x Hx Hne. exfalso.
      assert (Hi : In x errs) by (apply filter_In; split; [exact Hx|apply Hbefore; assumption]).
      rewrite Ee in Hi. contradiction.
    + assert (Hsup : snd (handle_error_nolock s (e :: es)) = true).
      { apply (suppressed_by_rw s (e :: es) lst); [apply rw_aget; [exact H|apply Hsub; exact Hlst]|exact Hnl|discriminate]. }
      assert (Hd : remove_all (fst (handle_error_nolock s (e :: es))) fs (e :: es) = detach s fs (e :: es)) by reflexivity.
      destruct (handle_error_nolock s (e :: es)) as [s2 sup]. cbn [fst snd] in *. subst sup.
      unfold read_spec. cbn [fst snd e_served]. split; [reflexivity|]. split; [apply Hsub; exact Hlst|]. split; [exact Hsub|].
      intros x Hx Hne. rewrite Hd. apply detach_gone; [exact H|].
      rewrite <- Ee. apply filter_In. split; [exact Hx|apply Hbefore; assumption].
Qed.

Lemma do_read_spec : forall s off len order fs, struct_ok s ->
  (((off <? 0) || (csize s <? off + len)) = true /\ do_read s off len order fs = (s, RErr, noeff))
  \/ read_spec s order fs (do_read s off len order fs).
Proof.
  intros s off len order fs H. rewrite do_read_unfold.
  destruct ((off <? 0) || (csize s <? off + len)); [left; split; reflexivity|]. right.
  assert (Hnone : rw_of (replicas s) = [] -> read_spec s order fs (s, RErr, noeff)).
  { intros E. unfold read_spec. cbn. split; [discriminate|]. right. rewrite E. intros x []. }
  pose proof (read_main_spec s order fs H) as G.
  destruct (replicas s) as [|[a0 m0] t] eqn:Er; [apply Hnone; reflexivity|].
  destruct m0; destruct t; try exact G. apply Hnone. reflexivity.
Qed.

(** the oracle as it is: holds unless the model rejects the observed read order *)
Lemma c04_step_model : forall rf0 n s e r0 ef0 r0',
  struct_ok s -> snd (fst (step s e)) <> RInvalid ->
  c04_step rf0 (with_res1 (observe n s r0 ef0) r0') e
           (observe n (fst (fst (step s e))) (snd (fst (step s e))) (snd (step s e))) = true.
Proof.
  intros rf0 n s e r0 ef0 r0' H Hinv. destruct e; try reflexivity.
  cbn [step] in *. unfold c04_step. cbn [o_served o_replicas o_size observe with_res1 o_res].
  unfold is_ack. cbn [o_res observe].
  destruct (do_read_spec s off len order fs H) as [[Hr Hd]|Hs].
  - rewrite Hd. cbn [fst snd e_served noeff res_class res_eqb negb andb]. rewrite Hr. reflexivity.
  - unfold read_spec in Hs. destruct (do_read s off len order fs) as [[s' r] ef]. cbn [fst snd] in *.
    destruct (e_served ef) as [a|].
    + destruct Hs as [Hr [Ha [Hsub Hgone]]]. subst r. cbn [res_class res_eqb andb].
      assert (M : mem a (rw_of (replicas s)) = true) by (apply mem_in; exact Ha). rewrite M. cbn [andb].
      apply andb_true_intro. split.
      * apply forallb_forall. intros x Hx. apply mem_in. apply Hsub. exact Hx.
      * apply forallb_forall. intros x Hx. destruct (Nat.eqb x a) eqn:E; [reflexivity|].
        apply negb_true_iff. apply mem_false. apply Nat.eqb_neq in E. exact (Hgone x Hx E).
    + destruct Hs as [Hr [Hi|Hall]]; [contradiction|].
      assert (N : res_eqb (res_class r) ROk = false) by (destruct r; cbn in *; try reflexivity; contradiction).
      rewrite N. cbn [negb andb].
      assert (F : forallb (fun x => flt fs x KRead) (rw_of (replicas s)) = true) by (apply forallb_forall; exact Hall).
      rewrite F. apply orb_true_r.
Qed.

(** on the model's trace of a history with an impossible read order (the order is an observation that
    the model validates: result RInvalid) the oracle as written is false *)
Definition c04_step' (rf0 : nat) (prev : obs) (e : event) (cur : obs) : bool :=
  res_eqb (o_res cur) RInvalid || c04_step rf0 prev e cur.

Lemma c04_step'_model : forall rf0 n s e r0 ef0 r0',
  struct_ok s ->
  c04_step' rf0 (with_res1 (observe n s r0 ef0) r0') e
            (observe n (fst (fst (step s e))) (snd (fst (step s e))) (snd (step s e))) = true.
Proof.
  intros rf0 n s e r0 ef0 r0' H. unfold c04_step'.
  destruct (res_eqb (o_res (observe n (fst (fst (step s e))) (snd (fst (step s e))) (snd (step s e)))) RInvalid) eqn:E; [reflexivity|].
  cbn [orb]. apply c04_step_model; [exact H|].
  intro Hr. cbn [o_res observe] in E. rewrite Hr in E. cbn in E. discriminate.
Qed.

Definition wf_hist (es : list event) : Prop := forallb ev_wf es = true.

(** histories whose read orders (and register picks) the model accepts as possible observations *)
Definition no_invalid (s : cst) (es : list event) : Prop :=
  hist_ok (fun s e => snd (fst (step s e)) <> RInvalid) s es.

Theorem c04_oracle_model : forall es rf0 n w0, (1 <= rf0)%nat -> forallb ev_wf es = true ->
  no_invalid (init rf0 w0) es ->
  walk (lift (c04_step rf0) nopair) 0 (obs0 rf0 n w0) (map One es) (trace n (init rf0 w0) (map One es)) = None.
Proof.
  intros es rf0 n w0 Hrf Hwf Hni. unfold obs0.
  change (observe n (init rf0 w0) ROk noeff) with (with_res1 (observe n (init rf0 w0) ROk noeff) None).
  apply (walk_model (c04_step rf0) nopair struct_ok
           (fun s e => ev_wf e = true /\ snd (fst (step s e)) <> RInvalid)).
  - intros s e Hs [Hw _]. apply struct_step; assumption.
  - intros s e r0 ef0 r0' Hs [_ Hi]. apply c04_step_model; assumption.
  - apply struct_init. exact Hrf.
  - apply hist_ok_and; [apply hist_ok_forallb; exact Hwf|exact Hni].
Qed.

Theorem c04'_oracle_model : forall es rf0 n w0, (1 <= rf0)%nat -> forallb ev_wf es = true ->
  walk (lift (c04_step' rf0) nopair) 0 (obs0 rf0 n w0) (map One es) (trace n (init rf0 w0) (map One es)) = None.
Proof.
  intros es rf0 n w0 Hrf Hwf. unfold obs0.
  change (observe n (init rf0 w0) ROk noeff) with (with_res1 (observe n (init rf0 w0) ROk noeff) None).
  apply (walk_model (c04_step' rf0) nopair struct_ok (fun s e => ev_wf e = true)).
  - intros s e Hs Hw. apply struct_step; assumption.
  - intros s e r0 ef0 r0' Hs _. apply c04_step'_model; assumption.
  - apply struct_init. exact Hrf.
  - apply hist_ok_forallb. exact Hwf.
Qed.

(** the discrepancy: one replica, started, then a read whose observed order is empty (impossible: the
    model answers RInvalid); [c04_step] rejects the model's own trace at step 2 *)
Definition c04_witness : list event :=
  [Register 0%nat 1%nat 1 false None []; Start [0%nat] []; Read 0 0 [] []].
Example c04_false_on_invalid_order :
  walk (lift (c04_step 1) nopair) 0 (obs0 1 1 []) (map One c04_witness) (trace 1 (init 1 []) (map One c04_witness)) = Some 2%nat
  /\ map o_res (trace 1 (init 1 []) (map One c04_witness)) = [ROk; ROk; RInvalid].
Proof. vm_compute. split; reflexivity. Qed.

(** ** addresses in the replica list are below the number of observed replicas *)
Definition ev_addrs_lt (n : nat) (e : event) : bool :=
  match e with
  | AddCommit a _ => Nat.ltb a n
  | Start l _ => forallb (fun a => Nat.ltb a n) l
  | _ => true
  end.

Definition keys_lt (n : nat) (s : cst) : Prop := forall x, In x (keys (replicas s)) -> (x < n)%nat.

Lemma add_during_start_keys : forall s fs a y,
  In y (keys (replicas (fst (add_during_start s fs a)))) -> y = a \/ In y (keys (replicas s)).
Proof.
  intros s fs a y. unfold add_during_start.
  destruct (create_backend s fs a) as [[s1 i]|] eqn:Hc; [|cbn; auto].
  pose proof (struct_create_backend _ _ _ _ _ Hc) as [R1 _].
  destruct (flt fs a KSize); [cbn; rewrite R1; auto|].
  set (s2 := if csize s1 =? maxint then _ else s1).
  assert (R2 : replicas s2 = replicas s) by (subst s2; destruct (csize s1 =? maxint); exact R1).
  destruct (negb (csize s2 =? f_size (wget (w s1) a))); [cbn; rewrite R2; auto|].
  pose proof (add_replica_keys s2 fs a i false y) as Hadd. rewrite R2 in Hadd.
  destruct (add_replica_nolock s2 fs a i false) as [s3 r]. cbn [fst] in Hadd.
  assert (G : forall t, sub_keys s3 t -> In y (keys (replicas t)) -> y = a \/ In y (keys (replicas s))).
  { intros t Ht Hy. apply Hadd. apply Ht. exact Hy. }
  destruct r; try (cbn [fst]; apply G; apply sk_of_sst; apply sst_upd_leader).
  destruct (flt fs a KClone); [cbn [fst]; apply G; apply sk_remove|].
  assert (G2 : In y (keys (replicas (fst (if flt fs a KSetModeRW then (remove_replica_nolock s3 fs a, RErr)
                  else (set_mode_nolock (upd_rep s3 a (fun f => f_set_mode f RRW)) a RW, ROk))))) ->
               y = a \/ In y (keys (replicas s))).
  { destruct (flt fs a KSetModeRW); cbn [fst]; apply G; [apply sk_remove|].
    eapply sk_trans; [apply sk_of_sst; apply sst_upd_rep|apply sk_set_mode]. }
  destruct (f_clone (wget (w s3) a)); try exact G2. cbn [fst]. apply G. apply sk_remove.
Qed.

Lemma start_adds_keys : forall l s fs y,
  In y (keys (replicas (fst (start_adds s fs l)))) -> In y l \/ In y (keys (replicas s)).
Proof.
  induction l as [|a t IH]; intros s fs y Hy; cbn in *; [right; exact Hy|].
  pose proof (add_during_start_keys s fs a y) as Ha.
  destruct (add_during_start s fs a) as [s1 r]. cbn [fst] in Ha.
  assert (G : In y (keys (replicas s1)) -> (a = y \/ In y t) \/ In y (keys (replicas s))).
  { intros Hy1. destruct (Ha Hy1) as [E|Hi]; [left; left; symmetry; exact E|right; exact Hi]. }
  destruct r; try (apply G; exact Hy).
  destruct (IH s1 fs y Hy) as [Hi|Hi]; [left; right; exact Hi|apply G; exact Hi].
Qed.

Lemma sk_start_frontend : forall s, sub_keys s (start_frontend s).
Proof. intros s. unfold start_frontend. destruct (replicas s) eqn:E; [apply sk_refl|]. apply sk_of_sst. apply sst_upd_fe. Qed.

Lemma sk_fold_set_mode : forall {A} (l : list A) (g : A -> bool) (k : A -> addr) s,
  sub_keys s (fold_left (fun acc p => if g p then acc else set_mode_nolock acc (k p) ERR) l s).
Proof.
  intros A l g k. induction l as [|x t IH]; intros s; cbn; [apply sk_refl|].
  eapply sk_trans; [|apply IH]. destruct (g x); [apply sk_refl|apply sk_set_mode].
Qed.

Lemma do_start_keys : forall s l fs y,
  In y (keys (replicas (fst (fst (do_start s l fs))))) -> In y l \/ In y (keys (replicas s)).
Proof.
  intros s l fs y. unfold do_start.
  destruct l as [|a0 t]; [cbn; auto|].
  destruct (replicas s) eqn:Er; [|cbn [fst]; rewrite Er; auto].
  destruct (negb (signalled s) || negb _); [cbn [fst]; rewrite Er; auto|].
  set (s0 := upd_csize _ maxint).
  pose proof (start_adds_keys (a0 :: t) s0 fs y) as Hs.
  destruct (start_adds s0 fs (a0 :: t)) as [s1 r]. cbn [fst] in Hs.
  assert (G : forall u, sub_keys s1 u -> In y (keys (replicas u)) -> In y (a0 :: t) \/ In y []).
  { intros u Hu Hy. destruct (Hs (Hu y Hy)) as [Hi|Hi]; [left; exact Hi|]. subst s0. cbn in Hi. contradiction. }
  destruct r; try (cbn [fst]; apply G; apply sk_start_frontend).
  destruct (existsb _ (replicas s1)); cbn [fst]; apply G; [apply sk_start_frontend|].
  eapply sk_trans; [|apply sk_start_frontend].
  eapply sk_trans; [|apply sk_of_sst; apply sst_update_checkpoint].
  eapply sk_trans; [|apply sk_of_sst; apply sst_update_vol_status].
  match goal with |- sub_keys s1 (fold_left ?f ?l0 s1) =>
    change (sub_keys s1 (fold_left (fun acc p => if (fun q => snd q =? fold_left Z.max (map snd l0) 0) p then acc
                                               else set_mode_nolock acc (fst p) ERR) l0 s1)) end.
  apply sk_fold_set_mode.
Qed.

Lemma keys_lt_step : forall n s e, keys_lt n s -> ev_addrs_lt n e = true -> keys_lt n (fst (fst (step s e))).
Proof.
  intros n s e Hk He x Hx.
  destruct (in_dec Nat.eq_dec x (keys (replicas s))) as [Hi|Hni]; [apply Hk; exact Hi|].
  pose proof (enter_only_by_add_or_start s e x Hx Hni) as G.
  destruct e; try contradiction.
  - cbn [step] in Hx. destruct (do_start_keys s addrs fs x Hx) as [Hi|Hi]; [|contradiction].
    cbn in He. rewrite forallb_forall in He. apply Nat.ltb_lt. apply He. exact Hi.
  - subst x. cbn in He. apply Nat.ltb_lt. exact He.
Qed.

Lemma keys_lt_init : forall n rf0 w0, keys_lt n (init rf0 w0).
Proof. intros n rf0 w0 x Hx. cbn in Hx. contradiction. Qed.

(** ** the write / sync paths in terms of [detach] *)
Definition fanout (s : cst) (wid : nat) (fs : faults) : cst :=
  fold_left (fun acc a => if flt fs a KWrite then acc else upd_rep acc a (fun f => f_apply f wid)) (writers s) s.

Definition io_res (s1 : cst) (nw : nat) (errs : list addr) : res :=
  match errs with
  | [] => ROk
  | _ => if majority_ok nw (length errs) && snd (handle_error_nolock s1 errs) then ROk else RErr
  end.

Lemma do_write_unfold : forall s wid off len fs,
  ro s = false -> ((off <? 0) || (csize s <? off + len)) = false -> avail s = true ->
  do_write s wid off len fs =
  (detach (fanout s wid fs) fs (io_errs (writers s) fs KWrite KWriteAp),
   io_res (fanout s wid fs) (length (writers s)) (io_errs (writers s) fs KWrite KWriteAp)).
Proof.
  intros s wid off len fs Hro Hr Hav. unfold do_write. rewrite Hro, Hr, Hav. cbn [negb]. fold (fanout s wid fs).
  destruct (io_errs (writers s) fs KWrite KWriteAp) as [|e es]; [reflexivity|].
  unfold detach, io_res. destruct (handle_error_nolock (fanout s wid fs) (e :: es)) as [s2 sup]. reflexivity.
Qed.

Lemma do_write_not_reached : forall s wid off len fs,
  ro s = true \/ ((off <? 0) || (csize s <? off + len)) = true \/ avail s = false ->
  fst (do_write s wid off len fs) = s /\ snd (do_write s wid off len fs) <> ROk.
Proof.
  intros s wid off len fs H. unfold do_write.
  destruct (ro s); [split; [reflexivity|discriminate]|].
  destruct ((off <? 0) || (csize s <? off + len)); [split; [reflexivity|discriminate]|].
  destruct (avail s); [|split; [reflexivity|discriminate]].
  destruct H as [H|[H|H]]; discriminate.
Qed.

Lemma do_sync_unfold : forall s fs k,
  ro s = false -> avail s = true ->
  do_sync s fs k = (detach s fs (io_errs (writers s) fs k k), io_res s (length (writers s)) (io_errs (writers s) fs k k)).
Proof.
  intros s fs k Hro Hav. unfold do_sync. rewrite Hro, Hav. cbn [negb].
  destruct (io_errs (writers s) fs k k) as [|e es]; [reflexivity|].
  unfold detach, io_res. destruct (handle_error_nolock s (e :: es)) as [s2 sup]. reflexivity.
Qed.

Lemma do_sync_not_reached : forall s fs k,
  ro s = true \/ avail s = false ->
  fst (do_sync s fs k) = s /\ snd (do_sync s fs k) <> ROk.
Proof.
  intros s fs k H. unfold do_sync.
  destruct (ro s); [split; [reflexivity|discriminate]|].
  destruct (avail s); [|split; [reflexivity|discriminate]].
  destruct H as [H|H]; discriminate.
Qed.

Lemma sst_fanout : forall s wid fs, same_struct_fields s (fanout s wid fs).
Proof.
  intros. unfold fanout. apply sst_fold_left. intros t x. destruct (flt fs x KWrite); [apply sst_refl|apply sst_upd_rep].
Qed.

Lemma struct_fanout : forall s wid fs, struct_ok s -> struct_ok (fanout s wid fs).
Proof. intros. eapply sst_struct; [apply sst_fanout|assumption]. Qed.

Lemma replicas_fanout : forall s wid fs, replicas (fanout s wid fs) = replicas s.
Proof. intros. apply (sst_fanout s wid fs). Qed.

Lemma fold_upd_rep_other : forall (g : addr -> bool) (h : frep -> frep) ws s x, ~ In x ws ->
  wget (w (fold_left (fun acc a => if g a then acc else upd_rep acc a h) ws s)) x = wget (w s) x.
Proof.
  intros g h. induction ws as [|a t IH]; intros s x Hx; cbn [fold_left]; [reflexivity|].
  rewrite IH by (intro Hi; apply Hx; right; exact Hi).
  destruct (g a); [reflexivity|]. unfold upd_rep. cbn [w upd_w]. rewrite wget_wset.
  destruct (Nat.eqb a x) eqn:E; [|reflexivity]. apply Nat.eqb_eq in E. exfalso. apply Hx. left. exact E.
Qed.

Lemma fanout_other : forall s wid fs x, ~ In x (writers s) -> wget (w (fanout s wid fs)) x = wget (w s) x.
Proof. intros. unfold fanout. apply fold_upd_rep_other. assumption. Qed.

Lemma res_class_ok : forall r, res_eqb (res_class r) ROk = true -> r = ROk.
Proof. intros r H. destruct r; cbn in H; try discriminate. reflexivity. Qed.

Lemma filter_imp_length_in : forall {A} (p q : A -> bool) l, (forall x, In x l -> p x = true -> q x = true) ->
  (length (filter p l) <= length (filter q l))%nat.
Proof.
  intros A p q l. induction l as [|x t IH]; intros H; cbn; [lia|].
  assert (IH' : (length (filter p t) <= length (filter q t))%nat) by (apply IH; intros y Hy; apply H; right; exact Hy).
  destruct (p x) eqn:Ep; [rewrite (H x (or_introl eq_refl) Ep); cbn; lia|]. destruct (q x); cbn; lia.
Qed.

Lemma avail_rw : forall s, struct_ok s -> avail s = true -> exists x, In x (rw_of (replicas s)).
Proof.
  intros s H Hav. destruct (rw_of (replicas s)) as [|x t] eqn:E; [|exists x; left; reflexivity].
  exfalso. rewrite (st_avail s H) in Hav. apply existsb_exists in Hav. destruct Hav as [[k [m i]] [Hin Hm]].
  rewrite <- (readers_rw_of s H) in E. unfold readers in E.
  assert (X : In k (map fst (filter (fun p => is_rw (fst (snd p))) (backends s)))).
  { apply in_map_iff. exists (k, (m, i)). split; [reflexivity|]. apply filter_In. split; assumption. }
  rewrite E in X. contradiction.
Qed.

Lemma count_rw_pos_inv : forall l, (0 < count_rw l)%nat -> exists a, In (a, RW) l.
Proof.
  unfold count_rw. induction l as [|[k v] t IH]; cbn; intros H; [lia|].
  destruct v; cbn in H; try (destruct (IH H) as [a Ha]; exists a; right; exact Ha).
  exists k. left. reflexivity.
Qed.

Lemma set_mode_err_not_rw : forall s a, NoDup (keys (replicas s)) -> ~ In (a, RW) (replicas (set_mode_nolock s a ERR)).
Proof.
  intros s a Hn Hin. unfold set_mode_nolock in Hin. cbn [replicas update_vol_status upd_status] in Hin.
  assert (M : ~ In (a, RW) (map (setm a ERR) (replicas s))).
  { intro Hm. apply in_map_iff in Hm. destruct Hm as [q [Hq _]]. unfold setm in Hq.
    destruct (Nat.eqb (fst q) a) eqn:E; [inversion Hq|].
    subst q. cbn in E. rewrite Nat.eqb_refl in E. discriminate. }
  destruct (aget (replicas s) a) as [[]|] eqn:Eg;
    try (rewrite replicas_backend_set_mode in Hin; cbn [replicas upd_replicas] in Hin; exact (M Hin));
    apply (aget_in_nodup _ _ _ Hn) in Hin; congruence.
Qed.

Lemma handle_error_errs_not_rw : forall errs s x, struct_ok s -> In x errs ->
  ~ In (x, RW) (replicas (fst (handle_error_nolock s errs))).
Proof.
  induction errs as [|a t IH]; intros s x H Hin; [contradiction|].
  assert (Hs : struct_ok (set_mode_nolock s a ERR)) by (apply struct_set_mode; [discriminate|exact H]).
  change (fst (handle_error_nolock s (a :: t))) with (fst (handle_error_nolock (set_mode_nolock s a ERR) t)).
  destruct (in_dec Nat.eq_dec x t) as [Ht|Ht]; [apply IH; assumption|].
  destruct Hin as [E|Hi]; [subst a|contradiction].
  intro Hrw. apply in_replicas_handle_error in Hrw; [|discriminate].
  exact (set_mode_err_not_rw s x (st_nodup s H) Hrw).
Qed.

(** an acknowledged I/O leaves an RW replica that did not fail it *)
Lemma io_res_ok_rw : forall s1 nw errs, struct_ok s1 -> avail s1 = true -> io_res s1 nw errs = ROk ->
  exists x, In (x, RW) (replicas s1) /\ ~ In x errs.
Proof.
  intros s1 nw errs H Hav Hr. unfold io_res in Hr. destruct errs as [|e es].
  - destruct (avail_rw s1 H Hav) as [x Hx]. exists x. split; [apply rw_of_in; exact Hx|intros []].
  - destruct (majority_ok nw (length (e :: es)) && snd (handle_error_nolock s1 (e :: es))) eqn:E; [|discriminate].
    apply andb_prop in E. destruct E as [_ E]. unfold handle_error_nolock in E. cbn [snd] in E.
    apply Nat.ltb_lt in E. apply count_rw_pos_inv in E. destruct E as [x Hx].
    change (fold_left (fun acc a => set_mode_nolock acc a ERR) (e :: es) s1) with (fst (handle_error_nolock s1 (e :: es))) in Hx.
    exists x. split.
    + apply (in_replicas_handle_error (e :: es) s1 (x, RW)); [exact Hx|discriminate].
    + intro Hi. exact (handle_error_errs_not_rw (e :: es) s1 x H Hi Hx).
Qed.

Lemma majority_strict : forall nw nerr, majority_ok nw nerr = true -> (nw < 2 * (nw - nerr))%nat.
Proof.
  intros nw nerr H. unfold majority_ok in H. apply Nat.ltb_lt in H.
  pose proof (Nat.div_mod_eq nw 2) as Hd. pose proof (Nat.mod_upper_bound nw 2). lia.
Qed.

Lemma strict_majority : forall nw nerr, (nerr <= nw)%nat -> (nw < 2 * (nw - nerr))%nat -> majority_ok nw nerr = true.
Proof.
  intros nw nerr Hle H. unfold majority_ok. apply Nat.ltb_lt.
  pose proof (Nat.div_mod_eq nw 2) as Hd. pose proof (Nat.mod_upper_bound nw 2). lia.
Qed.

(** ** C02 *)
(** an acknowledged sync / unmap (call kind [k]): a strict majority of the replicas in service did not
    fail it, every failing one is gone *)
Lemma c02_sync_case : forall s fs k, struct_ok s -> snd (do_sync s fs k) = ROk ->
  (length (in_service (replicas s)) < 2 * length (filter (fun a => negb (flt fs a k)) (in_service (replicas s))))%nat
  /\ forall a, In a (in_service (replicas s)) -> flt fs a k = true -> ~ In a (keys (replicas (fst (do_sync s fs k)))).
Proof.
  intros s fs k H Hok.
  destruct (ro s) eqn:Hro.
  { destruct (do_sync_not_reached s fs k (or_introl Hro)) as [_ X]. contradiction. }
  destruct (avail s) eqn:Hav.
  2:{ destruct (do_sync_not_reached s fs k (or_intror Hav)) as [_ X]. contradiction. }
  rewrite (do_sync_unfold s fs k Hro Hav) in *. cbn [fst snd] in *.
  rewrite <- (writers_in_service s H).
  set (ws := writers s) in *.
  assert (Ee : io_errs ws fs k k = filter (fun a => flt fs a k) ws).
  { unfold io_errs. apply filter_ext. intros a. apply orb_diag. }
  rewrite Ee in *.
  pose proof (filter_split_length (fun a => flt fs a k) ws) as Hsp.
  pose proof (writers_nonempty_of_avail s H Hav) as Hne. fold ws in Hne.
  split.
  - unfold io_res in Hok.
    destruct (filter (fun a => flt fs a k) ws) as [|e0 es0] eqn:Ef.
    + cbn [length] in Hsp. rewrite <- Hsp. clear - Hne Hsp. lia.
    + destruct (majority_ok (length ws) (length (e0 :: es0))) eqn:Em; [|cbn in Hok; discriminate].
      apply majority_strict in Em. clear - Em Hsp. lia.
  - intros a Ha F. apply detach_gone; [exact H|]. apply filter_In. split; assumption.
Qed.

Lemma c02_step_model : forall rf0 n s e r0 ef0 r0',
  status_ok s -> struct_ok s -> keys_lt n s ->
  c02_step rf0 (with_res1 (observe n s r0 ef0) r0') e
           (observe n (fst (fst (step s e))) (snd (fst (step s e))) (snd (step s e))) = true.
Proof.
  intros rf0 n s e r0 ef0 r0' Hst H Hk. destruct e; try reflexivity.
  - (* write *)
    cbn [step]. unfold c02_step. cbn [o_replicas observe with_res1].
    destruct (do_write s wid off len fs) as [s' r] eqn:Ew. cbn [fst snd].
    unfold is_ack. cbn [o_res observe].
    destruct (res_eqb (res_class r) ROk) eqn:Eack; [|reflexivity].
    apply res_class_ok in Eack. subst r.
    destruct (ro s) eqn:Hro.
    { destruct (do_write_not_reached s wid off len fs (or_introl Hro)) as [_ X]. rewrite Ew in X. contradiction. }
    destruct ((off <? 0) || (csize s <? off + len)) eqn:Hr.
    { destruct (do_write_not_reached s wid off len fs (or_intror (or_introl Hr))) as [_ X]. rewrite Ew in X. contradiction. }
    destruct (avail s) eqn:Hav.
    2:{ destruct (do_write_not_reached s wid off len fs (or_intror (or_intror Hav))) as [_ X]. rewrite Ew in X. contradiction. }
    apply orb_false_iff in Hr. destruct Hr as [Hr1 Hr2]. apply Z.ltb_ge in Hr1. apply Z.ltb_ge in Hr2.
    pose proof (do_write_unfold s wid off len fs Hro) as Hu.
    rewrite Ew in Hu. specialize (Hu (proj2 (orb_false_iff _ _) (conj (proj2 (Z.ltb_ge _ _) Hr1) (proj2 (Z.ltb_ge _ _) Hr2))) Hav).
    pose proof (f_equal fst Hu) as Hs'. pose proof (f_equal snd Hu) as Hres. cbn [fst snd] in Hs', Hres. clear Hu.
    set (errs := io_errs (writers s) fs KWrite KWriteAp) in *.
    set (s1 := fanout s wid fs) in *.
    assert (H1 : struct_ok s1) by (apply struct_fanout; exact H).
    rewrite <- (writers_in_service s H).
    (* who holds the write afterwards *)
    assert (Hhold : forall x, In x (writers s) -> flt fs x KWrite = false ->
                     holds (observe n s' ROk noeff) x wid = true).
    { intros x Hx Hf. apply holds_observe.
      - apply Hk. apply in_service_keys. rewrite <- (writers_in_service s H). exact Hx.
      - pose proof (write_survivors_hold_it s wid off len fs x H Hro Hav Hr1 Hr2 Hx Hf) as G.
        rewrite Ew in G. exact G. }
    assert (Hnoerr : forall x, In x (writers s) -> ~ In x errs -> flt fs x KWrite = false).
    { intros x Hx Hne. destruct (flt fs x KWrite) eqn:F; [|reflexivity]. exfalso. apply Hne.
      unfold errs, io_errs. apply filter_In. split; [exact Hx|rewrite F; reflexivity]. }
    apply andb_true_intro. split; [apply andb_true_intro; split; [apply andb_true_intro; split|]|].
    + (* strict majority applied *)
      apply Nat.ltb_lt.
      pose proof (write_ack_majority s wid off len fs s' H Ew) as Hm. unfold appliers in Hm.
      eapply Nat.lt_le_trans; [exact Hm|]. apply Nat.mul_le_mono_l.
      apply filter_imp_length_in. intros x Hx Hf. apply negb_true_iff in Hf. apply Hhold; assumption.
    + (* one of them RW *)
      assert (Hav1 : avail s1 = true) by (destruct (sst_fanout s wid fs) as [_ [_ [_ [A _]]]]; unfold s1; rewrite A; exact Hav).
      destruct (io_res_ok_rw s1 (length (writers s)) errs H1 Hav1 (eq_sym Hres)) as [x [Hx Hne]].
      unfold s1 in Hx. rewrite replicas_fanout in Hx.
      assert (Hxw : In x (writers s)).
      { rewrite (writers_in_service s H). apply rw_in_service. apply rw_of_in. exact Hx. }
      apply existsb_exists. exists x. split.
      * apply filter_In. split; [exact Hxw|]. apply Hhold; [exact Hxw|apply Hnoerr; assumption].
      * apply mem_in. apply rw_of_in. exact Hx.
    + (* failed ones detached *)
      apply forallb_forall. intros a Ha.
      destruct (flt fs a KWrite || flt fs a KWriteAp) eqn:F; [|reflexivity].
      apply negb_true_iff. apply mem_false.
      pose proof (write_failed_detached s wid off len fs a H Hro Hav Hr1 Hr2 Ha F) as G. rewrite Ew in G. exact G.
    + (* whoever is in service holds it *)
      apply forallb_forall. intros a Ha. apply in_service_in in Ha. destruct Ha as [m [Ha Hm]].
      assert (Hne : ~ In a errs).
      { intro Hi. apply (detach_gone s1 fs errs a H1 Hi). rewrite <- Hs'. eapply in_keys. exact Ha. }
      rewrite Hs' in Ha. apply detach_in in Ha; [|exact Hm]. unfold s1 in Ha. rewrite replicas_fanout in Ha.
      assert (Haw : In a (writers s)).
      { rewrite (writers_in_service s H). apply in_service_in. exists m. split; assumption. }
      apply Hhold; [exact Haw|apply Hnoerr; assumption].
  - (* sync *)
    cbn [step]. unfold c02_step. cbn [o_replicas observe with_res1].
    pose proof (c02_sync_case s fs KSync H) as G.
    destruct (do_sync s fs KSync) as [s' r]. cbn [fst snd] in *.
    unfold is_ack. cbn [o_res observe].
    destruct (res_eqb (res_class r) ROk) eqn:Eack; [|reflexivity].
    apply res_class_ok in Eack. subst r. destruct (G eq_refl) as [G1 G2].
    apply andb_true_intro. split; [apply Nat.ltb_lt; exact G1|].
    apply forallb_forall. intros a Ha. destruct (flt fs a KSync) eqn:F; [|reflexivity].
    apply negb_true_iff. apply mem_false. apply G2; assumption.
  - (* unmap *)
    cbn [step]. unfold c02_step. cbn [o_replicas observe with_res1].
    pose proof (c02_sync_case s fs KUnmap H) as G.
    destruct (do_sync s fs KUnmap) as [s' r]. cbn [fst snd] in *.
    unfold is_ack. cbn [o_res observe].
    destruct (res_eqb (res_class r) ROk) eqn:Eack; [|reflexivity].
    apply res_class_ok in Eack. subst r. destruct (G eq_refl) as [G1 G2].
    apply andb_true_intro. split; [apply Nat.ltb_lt; exact G1|].
    apply forallb_forall. intros a Ha. destruct (flt fs a KUnmap) eqn:F; [|reflexivity].
    apply negb_true_iff. apply mem_false. apply G2; assumption.
Qed.

Theorem c02_oracle_model : forall es rf0 n w0, (1 <= rf0)%nat -> forallb ev_wf es = true ->
  forallb (ev_addrs_lt n) es = true ->
  walk (lift (c02_step rf0) nopair) 0 (obs0 rf0 n w0) (map One es) (trace n (init rf0 w0) (map One es)) = None.
Proof.
  intros es rf0 n w0 Hrf Hwf Hlt. unfold obs0.
  change (observe n (init rf0 w0) ROk noeff) with (with_res1 (observe n (init rf0 w0) ROk noeff) None).
  apply (walk_model (c02_step rf0) nopair (fun s => status_ok s /\ struct_ok s /\ keys_lt n s)
           (fun s e => ev_wf e = true /\ ev_addrs_lt n e = true)).
  - intros s e [Hs [Ht Hk]] [Hw Ha]. split; [apply status_step; exact Hs|].
    split; [apply struct_step; assumption|apply keys_lt_step; assumption].
  - intros s e r0 ef0 r0' [Hs [Ht Hk]] _. apply c02_step_model; assumption.
  - split; [apply status_init; exact Hrf|]. split; [apply struct_init; exact Hrf|apply keys_lt_init].
  - apply hist_ok_and; apply hist_ok_forallb; assumption.
Qed.

(** ** C05 *)
(** the first clause of [c05_step] applies only when the I/O reached the replicas: the quorum gate is
    open, an RW replica exists and (for a write) the range lies inside the volume — a write outside the
    volume is rejected before any replica is called and detaches nobody (an earlier version of the oracle
    lacked the range guard and rejected the model's own trace of
    [Register 0 ..; Start [0]; Write 7 5 1 [(0, KWrite)]] on a volume of size 0). *)
Definition c05_witness : list event :=
  [Register 0%nat 1%nat 1 false None []; Start [0%nat] []; Write 7%nat 5 1 [(0%nat, KWrite)]].
Example c05_out_of_range_write_detaches_nobody :
  walk (lift (c05_step 1) nopair) 0 (obs0 1 1 []) (map One c05_witness) (trace 1 (init 1 []) (map One c05_witness)) = None
  /\ map o_res (trace 1 (init 1 []) (map One c05_witness)) = [ROk; ROk; RErr]
  /\ map o_replicas (trace 1 (init 1 []) (map One c05_witness)) = [[]; [(0%nat, RW)]; [(0%nat, RW)]].
Proof. vm_compute. repeat split; reflexivity. Qed.

Lemma gate_open : forall s rf0, status_ok s -> rf s = rf0 -> quorum_ok rf0 (replicas s) = true -> ro s = false.
Proof. intros s rf0 [_ Hr] Hrf Hq. rewrite Hr, Hrf. unfold quorum_ok in Hq. rewrite Hq. reflexivity. Qed.

Lemma rw_nonempty_avail : forall s, struct_ok s -> negb (Nat.eqb (length (rw_of (replicas s))) 0) = true -> avail s = true.
Proof.
  intros s H Hn. destruct (rw_of (replicas s)) as [|x t] eqn:E; [cbn in Hn; discriminate|].
  apply (rw_avail s x H). rewrite E. left. reflexivity.
Qed.

(** clause 1: the failed replicas are gone *)
Lemma c05_detached : forall rf0 s e, status_ok s -> struct_ok s -> rf s = rf0 ->
  (if is_io e && quorum_ok rf0 (replicas s) && negb (Nat.eqb (length (rw_of (replicas s))) 0)
      && match e with Write _ off len _ => (0 <=? off) && (off + len <=? csize s) | _ => true end
   then forallb (fun a => if io_kind_fail e a then negb (mem a (addrs_of (replicas (fst (fst (step s e)))))) else true)
                (in_service (replicas s))
   else true) = true.
Proof.
  intros rf0 s e Hst H Hrf.
  assert (Sync_case : forall fs k, quorum_ok rf0 (replicas s) = true ->
            negb (Nat.eqb (length (rw_of (replicas s))) 0) = true ->
            forallb (fun a => if flt fs a k then negb (mem a (addrs_of (replicas (fst (do_sync s fs k))))) else true)
                    (in_service (replicas s)) = true).
  { intros fs k Hq Hn. rewrite (do_sync_unfold s fs k (gate_open s rf0 Hst Hrf Hq) (rw_nonempty_avail s H Hn)). cbn [fst].
    apply forallb_forall. intros a Ha. destruct (flt fs a k) eqn:F; [|reflexivity].
    apply negb_true_iff. apply mem_false. apply detach_gone; [exact H|].
    unfold io_errs. apply filter_In. split; [rewrite (writers_in_service s H); exact Ha|rewrite F; reflexivity]. }
  destruct e; try reflexivity.
  - cbn [is_io andb step io_kind_fail].
    destruct (quorum_ok rf0 (replicas s)) eqn:Hq; [|reflexivity].
    destruct (negb (Nat.eqb (length (rw_of (replicas s))) 0)) eqn:Hn; [|reflexivity].
    destruct ((0 <=? off) && (off + len <=? csize s)) eqn:Hr; [|reflexivity]. cbn [andb].
    apply andb_prop in Hr. destruct Hr as [Hr1 Hr2]. apply Z.leb_le in Hr1. apply Z.leb_le in Hr2.
    assert (Hrange : ((off <? 0) || (csize s <? off + len)) = false).
    { apply orb_false_iff. split; apply Z.ltb_ge; assumption. }
    rewrite (do_write_unfold s wid off len fs (gate_open s rf0 Hst Hrf Hq) Hrange (rw_nonempty_avail s H Hn)). cbn [fst].
    apply forallb_forall. intros a Ha. destruct (flt fs a KWrite || flt fs a KWriteAp) eqn:F; [|reflexivity].
    apply negb_true_iff. apply mem_false. apply detach_gone; [apply struct_fanout; exact H|].
    unfold io_errs. apply filter_In. split; [rewrite (writers_in_service s H); exact Ha|exact F].
  - cbn [is_io andb step io_kind_fail].
    destruct (quorum_ok rf0 (replicas s)) eqn:Hq; [|reflexivity].
    destruct (negb (Nat.eqb (length (rw_of (replicas s))) 0)) eqn:Hn; [|reflexivity]. cbn [andb].
    pose proof (Sync_case fs KSync eq_refl eq_refl) as G. destruct (do_sync s fs KSync). exact G.
  - cbn [is_io andb step io_kind_fail].
    destruct (quorum_ok rf0 (replicas s)) eqn:Hq; [|reflexivity].
    destruct (negb (Nat.eqb (length (rw_of (replicas s))) 0)) eqn:Hn; [|reflexivity]. cbn [andb].
    pose proof (Sync_case fs KUnmap eq_refl eq_refl) as G. destruct (do_sync s fs KUnmap). exact G.
Qed.

(** clause 2: a failing minority does not surface (write, sync, unmap) *)
Lemma c05_acked : forall rf0 s wid off len fs x, status_ok s -> struct_ok s -> rf s = rf0 ->
  let att := in_service (replicas s) in
  let good := filter (fun a => negb (flt fs a KWrite || flt fs a KWriteAp)) att in
  quorum_ok rf0 (replicas s) = true -> 0 <= off -> off + len <= csize s ->
  (length att < 2 * length good)%nat -> In x good -> In x (rw_of (replicas s)) ->
  snd (do_write s wid off len fs) = ROk.
Proof.
  intros rf0 s wid off len fs x Hst H Hrf att good G1 G2 G3 G4 Hxg Hxr.
  subst good att. rewrite <- (writers_in_service s H) in *.
  apply filter_In in Hxg. destruct Hxg as [Hxw Hxf]. apply negb_true_iff in Hxf.
  pose proof (filter_split_length (fun a => flt fs a KWrite || flt fs a KWriteAp) (writers s)) as Hsp.
  apply (write_minority_failure_acked s wid off len fs x H (gate_open s rf0 Hst Hrf G1) (rw_avail s x H Hxr) G2 G3).
  - unfold io_errs. apply strict_majority; [apply filter_length_le|].
    clear - G4 Hsp. lia.
  - apply rw_aget; assumption.
  - unfold io_errs. intro Hi. apply filter_In in Hi. destruct Hi as [_ Hi]. congruence.
Qed.

Lemma c05_acked_sync : forall rf0 s fs k x, status_ok s -> struct_ok s -> rf s = rf0 ->
  let att := in_service (replicas s) in
  let good := filter (fun a => negb (flt fs a k)) att in
  quorum_ok rf0 (replicas s) = true ->
  (length att < 2 * length good)%nat -> In x good -> In x (rw_of (replicas s)) ->
  snd (do_sync s fs k) = ROk.
Proof.
  intros rf0 s fs k x Hst H Hrf att good G1 G4 Hxg Hxr.
  subst good att. rewrite <- (writers_in_service s H) in *.
  apply filter_In in Hxg. destruct Hxg as [Hxw Hxf]. apply negb_true_iff in Hxf.
  rewrite (do_sync_unfold s fs k (gate_open s rf0 Hst Hrf G1) (rw_avail s x H Hxr)). cbn [snd].
  set (ws := writers s) in *.
  assert (Ee : io_errs ws fs k k = filter (fun a => flt fs a k) ws).
  { unfold io_errs. apply filter_ext. intros a. apply orb_diag. }
  rewrite Ee.
  pose proof (filter_split_length (fun a => flt fs a k) ws) as Hsp.
  assert (Hnx : ~ In x (filter (fun a => flt fs a k) ws)).
  { intro Hi. apply filter_In in Hi. destruct Hi as [_ Hi]. congruence. }
  unfold io_res. destruct (filter (fun a => flt fs a k) ws) as [|e0 es0] eqn:Ef; [reflexivity|].
  rewrite (suppressed_by_rw s (e0 :: es0) x (rw_aget s x H Hxr) Hnx) by discriminate.
  rewrite strict_majority; [reflexivity|rewrite <- Ef; apply filter_length_le|].
  clear - G4 Hsp. lia.
Qed.

(** clause 5: a delivered monitor notification, a monitor failure, an explicit remove detach the replica *)
Lemma c05_reported_gone : forall s e, struct_ok s ->
  match e with
  | MonFire a _ | MonFail a _ | Remove a _ =>
      snd (fst (step s e)) = ROk -> ~ In a (keys (replicas (fst (fst (step s e)))))
  | _ => True
  end.
Proof.
  intros s e H. destruct e; try exact I; cbn [step].
  - cbn [fst snd]. intros _. apply remove_replica_gone. exact H.
  - unfold do_mon_fire. destruct (first_for (pend_mon s) (Nat.eqb a)) as [[i y]|]; cbn [fst snd]; [|discriminate].
    intros _. apply remove_replica_gone. eapply sst_struct; [apply sst_upd_mon|exact H].
  - unfold do_mon_fail. destruct (first_for (rev (live_mon s)) (Nat.eqb a)) as [[i y]|]; cbn [fst snd]; [|discriminate].
    intros _. apply remove_replica_gone. apply struct_set_mode; [discriminate|].
    eapply sst_struct; [apply sst_upd_mon|exact H].
Qed.

(** clause 3: a new entry of the replica list is the added replica, as WO (or the list was empty at a start) *)
Lemma add_replica_in : forall s fs a i b p,
  In p (replicas (fst (add_replica_nolock s fs a i b))) -> p = (a, WO) \/ In (fst p) (keys (replicas s)).
Proof.
  intros s fs a i b p. unfold add_replica_nolock.
  pose proof (sk_can_add s fs a) as Hca. destruct (can_add s fs a) as [sc ok]. cbn [fst] in Hca.
  assert (Old : forall t, replicas t = replicas sc -> In p (replicas t) -> p = (a, WO) \/ In (fst p) (keys (replicas s))).
  { intros t Ht Hp. right. apply Hca. rewrite <- Ht. destruct p as [x m]. eapply in_keys. exact Hp. }
  destruct (negb ok); [apply Old; reflexivity|].
  set (after := if b then _ else _).
  assert (Haf : match after with Some (s3, _) => replicas s3 = replicas sc | None => True end).
  { subst after. destruct b; [|reflexivity]. destruct (negb (remain_ok sc)); [reflexivity|].
    pose proof (sst_snapshot_all (upd_nsnap sc (S (nsnap sc))) fs (nsnap sc)) as [Q _].
    destruct (snapshot_all (upd_nsnap sc (S (nsnap sc))) fs (nsnap sc)) as [s2 errs]. cbn [fst] in Q.
    destruct errs; [destruct (flt fs a KSnap)|]; exact Q. }
  destruct after as [[s3 r]|]; [|apply Old; reflexivity].
  destruct r; try (cbn [fst]; apply Old; exact Haf).
  destruct (flt fs a KSetModeWO); [cbn [fst]; apply Old; exact Haf|].
  cbn [fst replicas upd_mon upd_backends upd_replicas upd_rep upd_w].
  intro Hp. apply in_app_or in Hp. destruct Hp as [Hp|[Hp|[]]].
  - apply (Old s3 Haf Hp).
  - left. symmetry. exact Hp.
Qed.

Lemma add_commit_new_is_wo : forall s a fs p,
  In p (replicas (fst (do_add_commit s a fs))) -> ~ In (fst p) (keys (replicas s)) -> p = (a, WO).
Proof.
  intros s a fs p Hin Hnot.
  assert (Old : forall t, replicas t = replicas s -> In p (replicas t) -> p = (a, WO)).
  { intros t Ht Hp. exfalso. apply Hnot. rewrite <- Ht. destruct p as [x m]. eapply in_keys. exact Hp. }
  unfold do_add_commit in Hin.
  destruct (negb (existsb (Nat.eqb a) (pend_adds s))); [apply (Old s eq_refl Hin)|].
  set (s0 := upd_pend_adds s _) in Hin.
  destruct (create_backend s0 fs a) as [[s1 i]|] eqn:Hc; [|apply (Old s0 eq_refl Hin)].
  pose proof (struct_create_backend _ _ _ _ _ Hc) as [R1 _].
  destruct (Nat.eqb (rf s1) (length (replicas s1))); [apply (Old (close_new s1 a) R1 Hin)|].
  pose proof (add_replica_in s1 fs a i true p) as Hadd.
  destruct (add_replica_nolock s1 fs a i true) as [s2 r] eqn:Ea. cbn [fst] in Hadd.
  assert (Hin2 : In p (replicas s2)).
  { destruct r; cbn [fst] in Hin; try exact Hin.
    destruct (sst_update_checkpoint (update_vol_status s2) fs) as [Q _]. rewrite Q in Hin. exact Hin. }
  destruct (Hadd Hin2) as [Hx|Hx]; [exact Hx|]. rewrite R1 in Hx. exfalso. exact (Hnot Hx).
Qed.

Lemma c05_enter : forall s e,
  forallb (fun p =>
        if mem (fst p) (addrs_of (replicas s)) then true
        else match e with
             | AddCommit a _ => Nat.eqb a (fst p) && mode_eqb (snd p) WO
             | Start _ _ => Nat.eqb (length (replicas s)) 0
             | _ => false
             end) (replicas (fst (fst (step s e)))) = true.
Proof.
  intros s e. apply forallb_forall. intros p Hp.
  destruct (mem (fst p) (addrs_of (replicas s))) eqn:M; [reflexivity|].
  apply mem_false in M. change (addrs_of (replicas s)) with (keys (replicas s)) in M.
  assert (Hk : In (fst p) (keys (replicas (fst (fst (step s e)))))) by (destruct p as [x m]; eapply in_keys; exact Hp).
  pose proof (enter_only_by_add_or_start s e (fst p) Hk M) as G.
  destruct e; try contradiction.
  - rewrite G. reflexivity.
  - cbn [step] in Hp.
    assert (Hp' : In p (replicas (fst (do_add_commit s a fs)))) by (destruct (do_add_commit s a fs); exact Hp).
    rewrite (add_commit_new_is_wo s a fs p Hp' M). cbn. rewrite Nat.eqb_refl. reflexivity.
Qed.

(** clause 4: an I/O request touches only replicas in service *)
Lemma io_outside_world : forall s e a, struct_ok s -> is_io e = true -> ~ In a (writers s) ->
  wget (w (fst (fst (step s e)))) a = wget (w s) a.
Proof.
  intros s e a H Hio Ha.
  assert (Sync_case : forall fs k, wget (w (fst (do_sync s fs k))) a = wget (w s) a).
  { intros fs k. destruct (ro s) eqn:Hro.
    { destruct (do_sync_not_reached s fs k (or_introl Hro)) as [X _]. rewrite X. reflexivity. }
    destruct (avail s) eqn:Hav.
    2:{ destruct (do_sync_not_reached s fs k (or_intror Hav)) as [X _]. rewrite X. reflexivity. }
    rewrite (do_sync_unfold s fs k Hro Hav). cbn [fst]. apply detach_w; [exact H|].
    unfold io_errs. intro Hi. apply filter_In in Hi. exact (Ha (proj1 Hi)). }
  destruct e; try discriminate; cbn [step].
  - destruct (ro s) eqn:Hro.
    { destruct (do_write_not_reached s wid off len fs (or_introl Hro)) as [X _].
      destruct (do_write s wid off len fs). cbn [fst] in *. rewrite X. reflexivity. }
    destruct ((off <? 0) || (csize s <? off + len)) eqn:Hr.
    { destruct (do_write_not_reached s wid off len fs (or_intror (or_introl Hr))) as [X _].
      destruct (do_write s wid off len fs). cbn [fst] in *. rewrite X. reflexivity. }
    destruct (avail s) eqn:Hav.
    2:{ destruct (do_write_not_reached s wid off len fs (or_intror (or_intror Hav))) as [X _].
      destruct (do_write s wid off len fs). cbn [fst] in *. rewrite X. reflexivity. }
    rewrite (do_write_unfold s wid off len fs Hro Hr Hav). cbn [fst].
    rewrite detach_w; [apply fanout_other; exact Ha|apply struct_fanout; exact H|].
    unfold io_errs. intro Hi. apply filter_In in Hi. exact (Ha (proj1 Hi)).
  - pose proof (Sync_case fs KSync) as G. destruct (do_sync s fs KSync). exact G.
  - pose proof (Sync_case fs KUnmap) as G. destruct (do_sync s fs KUnmap). exact G.
Qed.

(** clause 5: a mode request does not revive a replica marked ERR *)
Lemma is_mode_in_2 : forall l a m, is_mode l a m = true -> In (a, m) l.
Proof.
  intros l a m H. unfold is_mode in H. apply existsb_exists in H. destruct H as [[k v] [Hin Hk]].
  cbn in Hk. apply andb_prop in Hk. destruct Hk as [K1 K2]. apply Nat.eqb_eq in K1.
  destruct v, m; cbn in K2; try discriminate; subst; exact Hin.
Qed.

Lemma set_mode_keeps_err : forall s a m, aget (replicas s) a = Some ERR ->
  replicas (set_mode_nolock s a m) = replicas s.
Proof. intros s a m Hg. unfold set_mode_nolock. rewrite Hg. reflexivity. Qed.

Lemma c05_not_revived : forall s e, struct_ok s ->
  match e with
  | SetMode a _ =>
      (if is_mode (replicas s) a ERR
       then is_mode (replicas (fst (fst (step s e)))) a ERR || negb (mem a (addrs_of (replicas (fst (fst (step s e))))))
       else true) = true
  | _ => True
  end.
Proof.
  intros s e H. destruct e; try exact I.
  destruct (is_mode (replicas s) a ERR) eqn:E; [|reflexivity].
  assert (R : replicas (fst (fst (step s (SetMode a m)))) = replicas s).
  { pose proof (aget_in_nodup _ _ _ (st_nodup s H) (is_mode_in_2 _ _ _ E)) as Hg.
    cbn [step]. destruct m; cbn [fst]; [reflexivity|apply set_mode_keeps_err; exact Hg|apply set_mode_keeps_err; exact Hg]. }
  rewrite R, E. reflexivity.
Qed.

Lemma c05_step_model : forall rf0 n s e r0 ef0 r0',
  status_ok s -> struct_ok s -> rf s = rf0 ->
  c05_step rf0 (with_res1 (observe n s r0 ef0) r0') e
            (observe n (fst (fst (step s e))) (snd (fst (step s e))) (snd (step s e))) = true.
Proof.
  intros rf0 n s e r0 ef0 r0' Hst H Hrf. unfold c05_step.
  cbn [o_replicas o_size observe with_res1].
  apply andb_true_intro. split; [apply andb_true_intro; split; [apply andb_true_intro; split; [apply andb_true_intro; split; [apply andb_true_intro; split|]|]|]|].
  - pose proof (c05_detached rf0 s e Hst H Hrf) as G.
    destruct e; try reflexivity; exact G.
  - cbv zeta. destruct e; try reflexivity; cbn [step io_kind_fail is_io io_in_range o_size observe with_res1 andb];
      (match goal with |- (if ?c then _ else _) = true => destruct c eqn:E; [|reflexivity] end);
      apply andb_prop in E; destruct E as [E G5]; apply andb_prop in E; destruct E as [E G4];
      apply Nat.ltb_lt in G4; apply existsb_exists in G5; destruct G5 as [x [Hxg Hxr]]; apply mem_in in Hxr;
      unfold is_ack; cbn [o_res observe].
    + apply andb_prop in E. destruct E as [G1 E]. apply andb_prop in E. destruct E as [G2 G3].
      apply Z.leb_le in G2. apply Z.leb_le in G3.
      pose proof (c05_acked rf0 s wid off len fs x Hst H Hrf G1 G2 G3 G4 Hxg Hxr) as G.
      destruct (do_write s wid off len fs) as [s' r]. cbn [fst snd] in *. subst r. reflexivity.
    + rewrite andb_true_r in E.
      pose proof (c05_acked_sync rf0 s fs KSync x Hst H Hrf E G4 Hxg Hxr) as G.
      destruct (do_sync s fs KSync) as [s' r]. cbn [fst snd] in *. subst r. reflexivity.
    + rewrite andb_true_r in E.
      pose proof (c05_acked_sync rf0 s fs KUnmap x Hst H Hrf E G4 Hxg Hxr) as G.
      destruct (do_sync s fs KUnmap) as [s' r]. cbn [fst snd] in *. subst r. reflexivity.
  - apply c05_enter.
  - destruct (is_io e) eqn:Eio; [|reflexivity].
    apply forallb_forall. intros a _.
    destruct (mem a (in_service (replicas s))) eqn:M; [reflexivity|].
    apply mem_false in M. rewrite <- (writers_in_service s H) in M.
    apply same_reps_eq. apply io_outside_world; assumption.
  - pose proof (c05_not_revived s e H) as G. destruct e; try reflexivity. exact G.
  - pose proof (c05_reported_gone s e H) as G. unfold is_ack. cbn [o_res observe].
    destruct e; try reflexivity;
      (destruct (res_eqb (res_class (snd (fst (step s _)))) ROk) eqn:Eack; [|reflexivity]);
      apply res_class_ok in Eack; apply negb_true_iff; apply mem_false; exact (G Eack).
Qed.

Theorem c05_oracle_model : forall es rf0 n w0, (1 <= rf0)%nat -> forallb ev_wf es = true ->
  walk (lift (c05_step rf0) nopair) 0 (obs0 rf0 n w0) (map One es) (trace n (init rf0 w0) (map One es)) = None.
Proof.
  intros es rf0 n w0 Hrf Hwf. unfold obs0.
  change (observe n (init rf0 w0) ROk noeff) with (with_res1 (observe n (init rf0 w0) ROk noeff) None).
  apply (walk_model (c05_step rf0) nopair (fun s => status_ok s /\ struct_ok s /\ rf s = rf0)
           (fun s e => ev_wf e = true)).
  - intros s e [Hs [Ht Hr]] Hw. split; [apply status_step; exact Hs|].
    split; [apply struct_step; assumption|rewrite rf_step; exact Hr].
  - intros s e r0 ef0 r0' [Hs [Ht Hr]] _. apply c05_step_model; assumption.
  - split; [apply status_init; exact Hrf|]. split; [apply struct_init; exact Hrf|reflexivity].
  - apply hist_ok_forallb. exact Hwf.
Qed.

(** ** C09 *)
(** *** the sorted lists of the observation *)
Lemma in_insert : forall x y l, In x (insert y l) <-> x = y \/ In x l.
Proof.
  intros x y. induction l as [|h t IH]; cbn.
  - split; [intros [H|[]]; left; symmetry; exact H|intros [H|[]]; left; symmetry; exact H].
  - destruct (Nat.leb y h); cbn.
    + split; [intros [H|H]; [left; symmetry; exact H|right; exact H]|intros [H|H]; [left; symmetry; exact H|right; exact H]].
    + rewrite IH. split.
      * intros [H|[H|H]]; [right; left; exact H|left; exact H|right; right; exact H].
      * intros [H|[H|H]]; [right; left; exact H|left; exact H|right; right; exact H].
Qed.

Lemma in_sort : forall x l, In x (sort l) <-> In x l.
Proof.
  intros x. induction l as [|h t IH]; [reflexivity|].
  change (sort (h :: t)) with (insert h (sort t)). cbn [In].
  rewrite in_insert, IH. split; [intros [H|H]; [left; symmetry; exact H|right; exact H]|intros [H|H]; [left; symmetry; exact H|right; exact H]].
Qed.

Lemma length_insert : forall y l, length (insert y l) = S (length l).
Proof. intros y. induction l as [|h t IH]; cbn; [reflexivity|]. destruct (Nat.leb y h); cbn; [reflexivity|rewrite IH; reflexivity]. Qed.

Lemma length_sort : forall l, length (sort l) = length l.
Proof.
  induction l as [|h t IH]; [reflexivity|].
  change (sort (h :: t)) with (insert h (sort t)). rewrite length_insert, IH. reflexivity.
Qed.

Lemma in_insert2 : forall x y l, In x (insert2 y l) -> x = y \/ In x l.
Proof.
  intros x y. induction l as [|h t IH]; cbn.
  - intros [H|[]]. left. symmetry. exact H.
  - destruct (_ || _); cbn.
    + intros [H|H]; [left; symmetry; exact H|right; exact H].
    + intros [H|H]; [right; left; exact H|]. destruct (IH H) as [G|G]; [left; exact G|right; right; exact G].
Qed.

Lemma in_sort2 : forall x l, In x (sort2 l) -> In x l.
Proof.
  intros x. induction l as [|h t IH]; [auto|].
  change (sort2 (h :: t)) with (insert2 h (sort2 t)). cbn [In].
  intros H. apply in_insert2 in H. destruct H as [H|H]; [left; symmetry; exact H|right; apply IH; exact H].
Qed.

Lemma filter_none : forall {A} (f : A -> bool) l, (forall x, In x l -> f x = false) -> filter f l = [].
Proof.
  intros A f l. induction l as [|x t IH]; intros H; cbn; [reflexivity|].
  rewrite (H x (or_introl eq_refl)). apply IH. intros y Hy. apply H. right. exact Hy.
Qed.

Definition starts_of (o : obs) : list addr := map fst (filter (fun p => snd p) (o_signals o)).

Lemma no_start_signals : forall n s r ef, (forall p, In p (e_signals ef) -> snd p = false) ->
  starts_of (observe n s r ef) = [].
Proof.
  intros n s r ef H. unfold starts_of, observe. cbn [o_signals].
  rewrite filter_none; [reflexivity|]. intros p Hp. apply H. apply in_sort2. exact Hp.
Qed.

(** *** the oracle's registration memory and the condition on histories *)
(** every registration of an address carries the same (revision, rebuilding) pair, and revision
    counters are not negative *)
Definition reg_consistent (g : regs) (e : event) : bool :=
  match e with
  | Register a u rev reb _ _ =>
      if Nat.eqb u 0 then true
      else (0 <=? rev)
           && match aget g a with Some (rv, rb) => (rev =? rv) && Bool.eqb reb rb | None => true end
  | _ => true
  end.

Fixpoint fixed_assign (g : regs) (es : list event) : bool :=
  match es with
  | [] => true
  | e :: t => reg_consistent g e && fixed_assign (regs_upd g e) t
  end.

Record reg_inv (g : regs) (s : cst) : Prop := mkreginv {
  ri_reg : forall x r, In (x, r) (registered s) -> aget g x = Some (rg_rev r, rg_rebuilding r);
  ri_max : forall m, maxrev s = Some m -> exists rv, aget g m = Some (rv, false);
  ri_pos : forall x rv rb, aget g x = Some (rv, rb) -> 0 <= rv
}.

(** *** events other than registrations only shrink the registered set and may forget the leader *)
Definition reg_sub (s t : cst) : Prop :=
  (maxrev t = maxrev s \/ maxrev t = None) /\ incl (registered t) (registered s).

Lemma rs_refl : forall s, reg_sub s s.
Proof. intros s. split; [left; reflexivity|apply incl_refl]. Qed.
Lemma rs_trans : forall a b c, reg_sub a b -> reg_sub b c -> reg_sub a c.
Proof.
  intros a b c [M1 I1] [M2 I2]. split; [|eapply incl_tran; eassumption].
  destruct M2 as [M2|M2]; [|right; exact M2]. rewrite M2. exact M1.
Qed.
Lemma rs_eq : forall s t, registered t = registered s -> maxrev t = maxrev s -> reg_sub s t.
Proof. intros s t R M. split; [left; exact M|rewrite R; apply incl_refl]. Qed.
Lemma rs_inv : forall g s t, reg_sub s t -> reg_inv g s -> reg_inv g t.
Proof.
  intros g s t [M I] [A B C]. constructor; [| |exact C].
  - intros x r Hx. apply A. apply I. exact Hx.
  - intros m Hm. destruct M as [M|M]; [apply B; rewrite <- M; exact Hm|congruence].
Qed.

Ltac rs_same := apply rs_eq; reflexivity.
Lemma rs_uvs : forall s, reg_sub s (update_vol_status s). Proof. intros. rs_same. Qed.
Lemma rs_upd_backends : forall s v, reg_sub s (upd_backends s v). Proof. intros. rs_same. Qed.
Lemma rs_upd_rep : forall s a g, reg_sub s (upd_rep s a g). Proof. intros. rs_same. Qed.
Lemma rs_upd_replicas : forall s v, reg_sub s (upd_replicas s v). Proof. intros. rs_same. Qed.
Lemma rs_upd_registered_adel : forall s a, reg_sub s (upd_registered s (adel (registered s) a)).
Proof. intros. split; [left; reflexivity|intros p Hp; cbn [registered upd_registered] in Hp; eapply in_adel; exact Hp]. Qed.
Ltac rs_then := eapply rs_trans; [|apply rs_uvs].

Lemma rs_fold : forall {A} (f : cst -> A -> cst) l s, (forall t x, reg_sub t (f t x)) -> reg_sub s (fold_left f l s).
Proof.
  intros A f l. induction l as [|x l IH]; intros s H; cbn; [apply rs_refl|].
  eapply rs_trans; [apply H|apply IH; exact H].
Qed.

Lemma rs_stop_monitoring : forall s i, reg_sub s (stop_monitoring s i).
Proof. intros. unfold stop_monitoring. destruct (aget (live_mon s) i); [rs_same|apply rs_refl]. Qed.

Lemma rs_backend_set_mode : forall s a m, reg_sub s (backend_set_mode s a m).
Proof.
  intros. unfold backend_set_mode. destruct (aget (backends s) a) as [[m0 i]|]; [|apply rs_refl].
  cbv zeta. destruct (mode_eqb m ERR); [|rs_same].
  eapply rs_trans; [|apply rs_stop_monitoring]. rs_same.
Qed.

Lemma rs_set_mode : forall s a m, reg_sub s (set_mode_nolock s a m).
Proof.
  intros. unfold set_mode_nolock. rs_then.
  destruct (aget (replicas s) a) as [[]|]; try apply rs_refl;
    (eapply rs_trans; [|apply rs_backend_set_mode]; rs_same).
Qed.

Lemma rs_set_checkpoint : forall s fs n, reg_sub s (fst (set_checkpoint s fs n)).
Proof. intros. unfold set_checkpoint. destruct (all_rw_backends s); cbn [fst]; rs_same. Qed.

Lemma rs_update_checkpoint : forall s fs, reg_sub s (update_checkpoint s fs).
Proof.
  intros. unfold update_checkpoint.
  destruct (Nat.eqb (count_rw (replicas s)) (rf s)); [|rs_same].
  destruct (get_latest_snapshot s fs) as [n|]; [|rs_same].
  pose proof (rs_set_checkpoint s fs n) as H. destruct (set_checkpoint s fs n) as [s1 ok]. cbn [fst] in H.
  eapply rs_trans; [exact H|rs_same].
Qed.

Lemma rs_remove_backend : forall s a, reg_sub s (remove_backend s a).
Proof.
  intros. unfold remove_backend. destruct (aget (backends s) a) as [[m0 i]|]; [|apply rs_refl].
  cbv zeta. eapply rs_trans; [|apply rs_upd_backends]. eapply rs_trans; [|apply rs_upd_rep]. apply rs_stop_monitoring.
Qed.

Lemma rs_remove_replica : forall s fs a, reg_sub s (remove_replica_nolock s fs a).
Proof.
  intros. unfold remove_replica_nolock. destruct (negb (has_replica s a)); [apply rs_refl|].
  cbv zeta.
  eapply rs_trans; [|apply rs_update_checkpoint]. rs_then.
  eapply rs_trans; [|apply rs_remove_backend]. eapply rs_trans; [|apply rs_upd_replicas].
  eapply rs_trans; [|apply rs_upd_registered_adel].
  destruct (Nat.eqb (length (replicas s)) 1 && fe_up s); [|apply rs_refl].
  split; [right; reflexivity|apply incl_refl].
Qed.

Lemma rs_handle_error : forall errs s, reg_sub s (fst (handle_error_nolock s errs)).
Proof. intros. unfold handle_error_nolock. cbn [fst]. apply rs_fold. intros. apply rs_set_mode. Qed.

Lemma rs_remove_all : forall errs s fs, reg_sub s (remove_all s fs errs).
Proof. intros. unfold remove_all. apply rs_fold. intros. apply rs_remove_replica. Qed.

Lemma rs_detach : forall s fs errs, reg_sub s (detach s fs errs).
Proof. intros. unfold detach. eapply rs_trans; [apply rs_handle_error|apply rs_remove_all]. Qed.

Lemma rs_can_add : forall s fs a, reg_sub s (fst (can_add s fs a)).
Proof.
  intros. unfold can_add. destruct (has_replica s a); [apply rs_refl|].
  destruct (find _ (replicas s)) as [[wo m]|]; [|apply rs_refl].
  destruct (negb _ || _ || _); [apply rs_refl|].
  destruct (_ <? _); [|apply rs_refl]. cbn [fst]. apply rs_remove_replica.
Qed.

Lemma rs_snapshot_all : forall s fs n, reg_sub s (fst (snapshot_all s fs n)).
Proof.
  intros. unfold snapshot_all. cbn [fst]. apply rs_fold. intros t x. destruct (flt fs x KSnap); [apply rs_refl|rs_same].
Qed.

Lemma rs_add_replica_nolock : forall s fs a i b, reg_sub s (fst (add_replica_nolock s fs a i b)).
Proof.
  intros. unfold add_replica_nolock.
  pose proof (rs_can_add s fs a) as Hc. destruct (can_add s fs a) as [s0 ok]. cbn [fst] in Hc.
  destruct (negb ok); [exact Hc|].
  assert (G : forall t, reg_sub s0 t -> reg_sub s t) by (intros t Ht; eapply rs_trans; eassumption).
  destruct b.
  - destruct (negb (remain_ok s0)); [exact Hc|].
    pose proof (rs_snapshot_all (upd_nsnap s0 (S (nsnap s0))) fs (nsnap s0)) as Hs.
    destruct (snapshot_all (upd_nsnap s0 (S (nsnap s0))) fs (nsnap s0)) as [s2 errs]. cbn [fst] in Hs.
    assert (H2 : reg_sub s0 s2) by (eapply rs_trans; [|exact Hs]; rs_same).
    assert (G2 : forall t, reg_sub s2 t -> reg_sub s t) by (intros t Ht; apply G; eapply rs_trans; eassumption).
    destruct errs; [destruct (flt fs a KSnap)|]; cbn [fst]; try (apply G2; rs_same).
    destruct (flt fs a KSetModeWO); cbn [fst]; apply G2; rs_same.
  - destruct (flt fs a KSetModeWO); cbn [fst]; apply G; [apply rs_refl|rs_same].
Qed.

Lemma rs_create_backend : forall s fs a s1 i, create_backend s fs a = Some (s1, i) -> reg_sub s s1.
Proof.
  intros s fs a s1 i H. unfold create_backend in H. destruct (_ || _); [discriminate|]. inversion H. rs_same.
Qed.

Lemma rs_rm_from_registered : forall s, reg_sub s (rm_from_registered s).
Proof. intros. split; [right; reflexivity|apply incl_refl]. Qed.

Lemma rs_add_during_start : forall s fs a, reg_sub s (fst (add_during_start s fs a)).
Proof.
  intros. unfold add_during_start.
  destruct (create_backend s fs a) as [[s1 i]|] eqn:Hc; [|apply rs_rm_from_registered].
  pose proof (rs_create_backend _ _ _ _ _ Hc) as R1.
  assert (G1 : forall t, reg_sub s1 t -> reg_sub s t) by (intros t Ht; eapply rs_trans; eassumption).
  destruct (flt fs a KSize); [cbn [fst]; apply G1; apply rs_rm_from_registered|].
  set (s2 := if csize s1 =? maxint then _ else s1).
  assert (R2 : reg_sub s s2) by (subst s2; destruct (csize s1 =? maxint); [apply G1; rs_same|exact R1]).
  assert (G2 : forall t, reg_sub s2 t -> reg_sub s t) by (intros t Ht; eapply rs_trans; eassumption).
  destruct (negb (csize s2 =? f_size (wget (w s1) a))); [cbn [fst]; apply G2; apply rs_rm_from_registered|].
  pose proof (rs_add_replica_nolock s2 fs a i false) as R3.
  destruct (add_replica_nolock s2 fs a i false) as [s3 r]. cbn [fst] in R3.
  assert (G3 : forall t, reg_sub s3 t -> reg_sub s t) by (intros t Ht; apply G2; eapply rs_trans; eassumption).
  destruct r; cbn [fst]; try (apply G3; apply rs_rm_from_registered).
  destruct (flt fs a KClone); [cbn [fst]; apply G3; apply rs_remove_replica|].
  assert (G : reg_sub s (fst (if flt fs a KSetModeRW then (remove_replica_nolock s3 fs a, RErr)
                  else (set_mode_nolock (upd_rep s3 a (fun f => f_set_mode f RRW)) a RW, ROk)))).
  { destruct (flt fs a KSetModeRW); cbn [fst]; apply G3; [apply rs_remove_replica|].
    eapply rs_trans; [|apply rs_set_mode]. rs_same. }
  destruct (f_clone (wget (w s3) a)); try exact G. cbn [fst]. apply G3. apply rs_remove_replica.
Qed.

Lemma rs_start_adds : forall l s fs, reg_sub s (fst (start_adds s fs l)).
Proof.
  induction l as [|a t IH]; intros; cbn; [apply rs_refl|].
  pose proof (rs_add_during_start s fs a) as R. destruct (add_during_start s fs a) as [s1 r]. cbn [fst] in R.
  destruct r; cbn; try exact R. eapply rs_trans; [exact R|apply IH].
Qed.

Lemma rs_start_frontend : forall s, reg_sub s (start_frontend s).
Proof. intros. unfold start_frontend. destruct (replicas s); [apply rs_refl|rs_same]. Qed.

Lemma rs_do_start : forall s l fs, reg_sub s (fst (fst (do_start s l fs))).
Proof.
  intros. unfold do_start. destruct l as [|a0 t]; [apply rs_refl|].
  destruct (replicas s); [|apply rs_refl].
  destruct (negb (signalled s) || negb _); [apply rs_refl|].
  set (s0 := upd_csize _ maxint).
  pose proof (rs_start_adds (a0 :: t) s0 fs) as R1.
  destruct (start_adds s0 fs (a0 :: t)) as [s1 r]. cbn [fst] in R1.
  assert (R0 : reg_sub s s1) by (eapply rs_trans; [|exact R1]; subst s0; rs_same).
  assert (G : forall t, reg_sub s1 t -> reg_sub s t) by (intros u Hu; eapply rs_trans; eassumption).
  destruct r; cbn [fst]; try (apply G; apply rs_start_frontend).
  destruct (existsb _ (replicas s1)); cbn [fst]; apply G; [apply rs_start_frontend|].
  eapply rs_trans; [|apply rs_start_frontend].
  eapply rs_trans; [|apply rs_update_checkpoint]. rs_then.
  apply rs_fold. intros t0 x. destruct (_ =? _); [apply rs_refl|apply rs_set_mode].
Qed.

Lemma rs_do_write : forall s wid off len fs, reg_sub s (fst (do_write s wid off len fs)).
Proof.
  intros. destruct (ro s) eqn:Hro.
  { destruct (do_write_not_reached s wid off len fs (or_introl Hro)) as [X _]. rewrite X. apply rs_refl. }
  destruct ((off <? 0) || (csize s <? off + len)) eqn:Hr.
  { destruct (do_write_not_reached s wid off len fs (or_intror (or_introl Hr))) as [X _]. rewrite X. apply rs_refl. }
  destruct (avail s) eqn:Hav.
  2:{ destruct (do_write_not_reached s wid off len fs (or_intror (or_intror Hav))) as [X _]. rewrite X. apply rs_refl. }
  rewrite (do_write_unfold s wid off len fs Hro Hr Hav). cbn [fst].
  eapply rs_trans; [|apply rs_detach]. unfold fanout. apply rs_fold.
  intros t x. destruct (flt fs x KWrite); [apply rs_refl|rs_same].
Qed.

Lemma rs_do_sync : forall s fs k, reg_sub s (fst (do_sync s fs k)).
Proof.
  intros. destruct (ro s) eqn:Hro.
  { destruct (do_sync_not_reached s fs k (or_introl Hro)) as [X _]. rewrite X. apply rs_refl. }
  destruct (avail s) eqn:Hav.
  2:{ destruct (do_sync_not_reached s fs k (or_intror Hav)) as [X _]. rewrite X. apply rs_refl. }
  rewrite (do_sync_unfold s fs k Hro Hav). cbn [fst]. apply rs_detach.
Qed.

Lemma rs_read_main : forall s order fs, reg_sub s (fst (fst (read_main s order fs))).
Proof.
  intros. unfold read_main. destruct (negb (avail s)); [apply rs_refl|].
  destruct (negb (read_order_ok s order fs)); [apply rs_refl|]. cbv zeta.
  destruct (filter _ order) as [|e0 es]; [apply rs_refl|].
  pose proof (rs_detach s fs (e0 :: es)) as R. unfold detach in R.
  destruct (handle_error_nolock s (e0 :: es)) as [s2 sup]. exact R.
Qed.

Lemma rs_do_read : forall s off len order fs, reg_sub s (fst (fst (do_read s off len order fs))).
Proof.
  intros. rewrite do_read_unfold. destruct (_ || _); [apply rs_refl|].
  pose proof (rs_read_main s order fs) as G.
  destruct (replicas s) as [|[a0 m0] t]; [apply rs_refl|]. destruct m0; destruct t; try exact G; apply rs_refl.
Qed.

Lemma rs_step : forall s e, match e with Register _ _ _ _ _ _ => False | _ => True end ->
  reg_sub s (fst (fst (step s e))).
Proof.
  intros s e He. destruct e; try contradiction; cbn [step].
  - apply rs_do_start.
  - unfold do_add_check. pose proof (rs_can_add s fs a) as R. destruct (can_add s fs a) as [s1 ok]. cbn [fst] in R.
    destruct (negb ok); [exact R|]. destruct (Nat.eqb _ _); [exact R|]. cbn [fst]. eapply rs_trans; [exact R|rs_same].
  - unfold do_add_commit. destruct (negb _); [apply rs_refl|].
    set (s0 := upd_pend_adds s _).
    destruct (create_backend s0 fs a) as [[s1 i]|] eqn:Hc; [|cbn [fst]; subst s0; rs_same].
    pose proof (rs_create_backend _ _ _ _ _ Hc) as R1.
    assert (R0 : reg_sub s s1) by (eapply rs_trans; [|exact R1]; subst s0; rs_same).
    destruct (Nat.eqb (rf s1) (length (replicas s1))); [cbn [fst]; eapply rs_trans; [exact R0|rs_same]|].
    pose proof (rs_add_replica_nolock s1 fs a i true) as R2.
    destruct (add_replica_nolock s1 fs a i true) as [s2 r]. cbn [fst] in R2.
    assert (R3 : reg_sub s s2) by (eapply rs_trans; eassumption).
    destruct r; cbn [fst]; try exact R3.
    eapply rs_trans; [exact R3|]. eapply rs_trans; [|apply rs_update_checkpoint]. rs_same.
  - unfold do_verify.
    destruct (aget (replicas s) a) as [m|]; [|apply rs_refl].
    destruct (find _ (replicas s)) as [[r0 m0]|]; [|destruct m; apply rs_refl].
    destruct m; try apply rs_refl.
    destruct (_ || _); [apply rs_refl|].
    match goal with |- context [match ?K with Some k => _ | None => _ end] => destruct K as [k|] end; [|apply rs_refl].
    destruct (Nat.ltb _ k); [apply rs_refl|]. destruct (negb (list_eqb _ _)); [apply rs_refl|].
    destruct (_ || _); [apply rs_refl|]. destruct (_ || _); [apply rs_refl|].
    destruct (flt fs a KSetRev); [cbn [fst]; rs_same|].
    cbn [fst]. eapply rs_trans; [|apply rs_update_checkpoint]. rs_then.
    eapply rs_trans; [|apply rs_set_mode]. rs_same.
  - apply rs_remove_replica.
  - destruct m; cbn [fst]; try apply rs_refl; apply rs_set_mode.
  - unfold do_mon_fire. destruct (first_for _ _) as [[i x]|]; [|apply rs_refl]. cbn [fst].
    eapply rs_trans; [|apply rs_remove_replica]. rs_same.
  - unfold do_mon_fail. destruct (first_for _ _) as [[i x]|]; [|apply rs_refl]. cbn [fst].
    eapply rs_trans; [|apply rs_remove_replica]. eapply rs_trans; [|apply rs_set_mode]. rs_same.
  - pose proof (rs_do_write s wid off len fs) as G. destruct (do_write s wid off len fs). exact G.
  - pose proof (rs_do_sync s fs KSync) as G. destruct (do_sync s fs KSync). exact G.
  - pose proof (rs_do_sync s fs KUnmap) as G. destruct (do_sync s fs KUnmap). exact G.
  - apply rs_do_read.
  - unfold do_snapshot. destruct (negb _); [apply rs_refl|]. destruct (Nat.eqb _ 0); [apply rs_refl|].
    destruct (negb _); [apply rs_refl|]. destruct (last_rw s) as [r0|]; [|apply rs_refl].
    destruct (flt fs r0 KHttp); [apply rs_refl|]. destruct (existsb _ _); [apply rs_refl|].
    pose proof (rs_snapshot_all s fs name) as R1.
    destruct (snapshot_all s fs name) as [s1 errs]. cbn [fst] in R1.
    destruct errs as [|e0 es]; [exact R1|].
    pose proof (rs_handle_error (e0 :: es) s1) as R2.
    destruct (handle_error_nolock s1 (e0 :: es)) as [s2 sup]. cbn [fst] in *. eapply rs_trans; eassumption.
  - unfold do_resize. destruct (_ <? _); [apply rs_refl|]. destruct (_ =? _); [apply rs_refl|].
    set (s1 := fold_left _ (writers s) s).
    assert (R1 : reg_sub s s1).
    { subst s1. apply rs_fold. intros t x. destruct (flt fs x KResize); [apply rs_refl|rs_same]. }
    set (errs := filter _ (writers s)).
    assert (R2 : reg_sub s (fst (match errs with
                               | [] => (s1, false)
                               | _ => let '(s2, suppressed) := handle_error_nolock s1 errs in (s2, negb suppressed)
                               end))).
    { destruct errs as [|e0 es]; [exact R1|].
      pose proof (rs_handle_error (e0 :: es) s1) as R3.
      destruct (handle_error_nolock s1 (e0 :: es)) as [s2 sup]. cbn [fst] in *. eapply rs_trans; eassumption. }
    destruct (match errs with [] => (s1, false) | _ => _ end) as [s2 failed]. cbn [fst] in R2.
    destruct failed; [exact R2|]. destruct (flt fs 0%nat KFeResize); [exact R2|]. cbn [fst]. eapply rs_trans; [exact R2|rs_same].
  - unfold do_sync_data. destruct (aget (replicas s) a) as [[]|]; try apply rs_refl.
    destruct (find _ (replicas s)) as [[r0 m0]|]; [|apply rs_refl]. cbn [fst]. rs_same.
Qed.

(** *** registerReplica in three pieces *)
Definition reg_s1 (s : cst) (a : addr) (u : nat) (rev : Z) (reb : bool) : cst :=
  upd_registered s
    (aset (filter (fun p => negb (Nat.eqb (rg_uuid (snd p)) u && negb (Nat.eqb (fst p) a))) (registered s))
          a (mkrrec u rev reb)).

Definition reg_switch (s1 : cst) (a : addr) (fs : faults) : option (cst * list (addr * bool)) + (cst * res * eff) :=
  if signalled s1 then
    if match maxrev s1 with Some m => Nat.eqb m a | None => false end then inl (Some (s1, []))
    else if match maxrev s1 with Some m => flt fs m KAlive | None => true end then
      let s2 := match maxrev s1 with
                | Some m => upd_registered s1 (adel (registered s1) m)
                | None => s1 end in
      inl (Some (upd_leader s2 None false, []))
    else inr (s1, ROk, noeff)
  else inl (Some (s1, [])).

Definition reg_elect (s2 : cst) (a : addr) (pick : option addr) (fs : faults) (sg0 : list (addr * bool)) : cst * res * eff :=
  let s3 := match maxrev s2 with None => upd_leader s2 (Some a) (signalled s2) | Some _ => s2 end in
  let cand := filter (fun p => negb (rg_rebuilding (snd p))) (registered s3) in
  let best := fold_left Z.max (map (fun p => rg_rev (snd p)) cand) 0 in
  let leader : option (option addr) :=
    if best <=? reg_rev s3 (maxrev s3) then Some (maxrev s3)
    else match pick with
         | Some p => if existsb (fun q => Nat.eqb (fst q) p && (rg_rev (snd q) =? best)) cand
                     then Some (Some p) else None
         | None => None
         end in
  match leader with
  | None => (s3, RInvalid, mkeff sg0 None)
  | Some l =>
      let s4 := upd_leader s3 l (signalled s3) in
      if Nat.leb (quorum (rf s4)) (length (registered s4)) then
        let '(s5, ok, sg) := signal_replica s4 fs in
        (s5, if ok then ROk else RErr, mkeff (sg0 ++ sg) None)
      else (s4, ROk, mkeff sg0 None)
  end.

Lemma do_register_unfold : forall s a u rev reb pick fs,
  do_register s a u rev reb pick fs =
  if Nat.eqb u 0 then (s, ROk, noeff)
  else
    let s1 := reg_s1 s a u rev reb in
    match replicas s1 with
    | _ :: _ => (s1, ROk, noeff)
    | [] =>
        match reg_switch s1 a fs with
        | inr out => out
        | inl None => (s1, ROk, noeff)
        | inl (Some (s2, sg0)) =>
            if reb then (s2, ROk, mkeff sg0 None) else reg_elect s2 a pick fs sg0
        end
    end.
Proof. reflexivity. Qed.

Lemma struct_reg_s1 : forall s a u rev reb, struct_ok s -> struct_ok (reg_s1 s a u rev reb).
Proof.
  intros s a u rev reb H. unfold reg_s1. apply struct_upd_registered; [exact H|].
  apply nodup_aset. apply nodup_filter_keys. exact (st_reg s H).
Qed.

Lemma reg_switch_spec : forall s1 a fs, struct_ok s1 ->
  match reg_switch s1 a fs with
  | inr out => out = (s1, ROk, noeff)
  | inl None => False
  | inl (Some (s2, sg0)) => sg0 = [] /\ struct_ok s2 /\ rf s2 = rf s1 /\ reg_sub s1 s2
  end.
Proof.
  intros s1 a fs H1. unfold reg_switch.
  assert (Same : [] = @nil (addr * bool) /\ struct_ok s1 /\ rf s1 = rf s1 /\ reg_sub s1 s1).
  { split; [reflexivity|]. split; [exact H1|]. split; [reflexivity|apply rs_refl]. }
  destruct (signalled s1); [|exact Same].
  destruct (match maxrev s1 with Some m => Nat.eqb m a | None => false end); [exact Same|].
  destruct (match maxrev s1 with Some m => flt fs m KAlive | None => true end); [|reflexivity].
  cbv zeta. destruct (maxrev s1) as [m|].
  - split; [reflexivity|]. split; [|split; [reflexivity|]].
    + eapply sst_struct; [apply sst_upd_leader|]. apply struct_upd_registered; [exact H1|apply nodup_adel; exact (st_reg s1 H1)].
    + split; [right; reflexivity|]. intros p Hp. cbn [registered upd_leader upd_registered] in Hp. eapply in_adel. exact Hp.
  - split; [reflexivity|]. split; [|split; [reflexivity|]].
    + eapply sst_struct; [apply sst_upd_leader|exact H1].
    + split; [right; reflexivity|apply incl_refl].
Qed.

(** where an elected leader comes from: the previous leader, the registering replica, or a registered
    replica that is not rebuilding *)
Definition leader_from (s2 : cst) (a : addr) (m : addr) : Prop :=
  maxrev s2 = Some m \/ m = a \/ exists r, In (m, r) (registered s2) /\ rg_rebuilding r = false.

Definition lookup_rev (l : list (addr * rrec)) (m : addr) : Z :=
  match aget l m with Some r => rg_rev r | None => 0 end.

Definition signal_facts (s2 : cst) (a : addr) (s' : cst) (m : addr) : Prop :=
  leader_from s2 a m
  /\ (quorum (rf s2) <= length (registered s2))%nat
  /\ (forall q, In q (registered s2) -> rg_rebuilding (snd q) = false -> rg_rev (snd q) <= lookup_rev (registered s2) m)
  /\ (registered s' = registered s2 \/ registered s' = adel (registered s2) m).

Lemma reg_elect_spec : forall s2 a pick fs, struct_ok s2 ->
  let out := reg_elect s2 a pick fs [] in
  let s' := fst (fst out) in
  incl (registered s') (registered s2)
  /\ (forall m, maxrev s' = Some m -> leader_from s2 a m)
  /\ (e_signals (snd out) = [] \/ exists m, e_signals (snd out) = [(m, true)] /\ signal_facts s2 a s' m).
Proof.
  intros s2 a pick fs H2. unfold reg_elect.
  set (s3 := match maxrev s2 with None => upd_leader s2 (Some a) (signalled s2) | Some _ => s2 end).
  assert (R3 : registered s3 = registered s2) by (subst s3; destruct (maxrev s2); reflexivity).
  assert (F3 : rf s3 = rf s2) by (subst s3; destruct (maxrev s2); reflexivity).
  assert (M3 : forall m, maxrev s3 = Some m -> leader_from s2 a m).
  { intros m Hm. subst s3. destruct (maxrev s2) as [x|] eqn:E.
    - left. exact Hm.
    - cbn in Hm. inversion Hm. right. left. reflexivity. }
  set (cand := filter (fun p => negb (rg_rebuilding (snd p))) (registered s3)).
  set (best := fold_left Z.max (map (fun p => rg_rev (snd p)) cand) 0).
  assert (Hbest : forall q, In q cand -> rg_rev (snd q) <= best).
  { intros q Hq. apply fold_max_ge. apply in_map_iff. exists q. split; [reflexivity|exact Hq]. }
  match goal with |- context [match ?L with Some l => _ | None => _ end] => destruct L as [l|] eqn:El end.
  2:{ cbn [fst snd e_signals]. split; [rewrite R3; apply incl_refl|]. split; [exact M3|left; reflexivity]. }
  (* what the chosen leader satisfies *)
  assert (HL : forall m, l = Some m ->
             leader_from s2 a m /\ forall q, In q cand -> rg_rev (snd q) <= lookup_rev (registered s2) m).
  { intros m Hm. subst l.
    destruct (best <=? reg_rev s3 (maxrev s3)) eqn:Eb.
    - inversion El as [Hl]. split; [apply M3; exact Hl|].
      intros q Hq. apply Z.leb_le in Eb. rewrite Hl in Eb. unfold reg_rev in Eb. rewrite R3 in Eb.
      eapply Z.le_trans; [apply Hbest; exact Hq|exact Eb].
    - destruct pick as [p|]; [|discriminate].
      destruct (existsb (fun q0 => Nat.eqb (fst q0) p && (rg_rev (snd q0) =? best)) cand) eqn:Ex; [|discriminate].
      inversion El; subst p. apply existsb_exists in Ex. destruct Ex as [[k rec] [Hk Hkk]].
      cbn in Hkk. apply andb_prop in Hkk. destruct Hkk as [K1 K2]. apply Nat.eqb_eq in K1. apply Z.eqb_eq in K2. subst k.
      unfold cand in Hk. apply filter_In in Hk. destruct Hk as [Hk Hnr]. cbn in Hnr. apply negb_true_iff in Hnr.
      rewrite R3 in Hk.
      split; [right; right; exists rec; split; assumption|].
      intros q Hq. unfold lookup_rev. rewrite (aget_in_nodup _ _ _ (st_reg s2 H2) Hk). rewrite K2. apply Hbest. exact Hq. }
  set (s4 := upd_leader s3 l (signalled s3)).
  assert (R4 : registered s4 = registered s2) by exact R3.
  assert (Hcand : forall m, l = Some m -> forall q, In q (registered s2) -> rg_rebuilding (snd q) = false ->
                    rg_rev (snd q) <= lookup_rev (registered s2) m).
  { intros m Hm q Hq Hnr. apply (proj2 (HL m Hm)). unfold cand. apply filter_In. rewrite R3. split; [exact Hq|].
    rewrite Hnr. reflexivity. }
  destruct (Nat.leb (quorum (rf s4)) (length (registered s4))) eqn:Eq.
  2:{ cbn [fst snd e_signals]. split; [rewrite R4; apply incl_refl|]. split; [|left; reflexivity].
      intros m Hm. apply (proj1 (HL m Hm)). }
  apply Nat.leb_le in Eq. change (rf s4) with (rf s3) in Eq. rewrite F3, R4 in Eq.
  unfold signal_replica. change (maxrev s4) with l.
  destruct l as [m|].
  - destruct (flt fs m KSignal); cbn [fst snd e_signals app].
    + split; [intros p Hp; cbn [registered upd_leader upd_registered] in Hp; rewrite R4 in Hp; eapply in_adel; exact Hp|].
      split; [intros m' Hm'; cbn in Hm'; discriminate|].
      right. exists m. split; [reflexivity|]. split; [apply (proj1 (HL m eq_refl))|]. split; [exact Eq|].
      split; [apply Hcand; reflexivity|]. right. cbn [registered upd_leader upd_registered]. rewrite R4. reflexivity.
    + split; [cbn [registered upd_leader]; rewrite R4; apply incl_refl|].
      split; [intros m' Hm'; cbn in Hm'; inversion Hm'; subst m'; apply (proj1 (HL m eq_refl))|].
      right. exists m. split; [reflexivity|]. split; [apply (proj1 (HL m eq_refl))|]. split; [exact Eq|].
      split; [apply Hcand; reflexivity|]. left. exact R4.
  - cbn [fst snd e_signals app]. split; [cbn [registered upd_leader]; rewrite R4; apply incl_refl|].
    split; [intros m' Hm'; cbn in Hm'; discriminate|left; reflexivity].
Qed.

(** the whole registration, relative to the state [s1] that holds the new record *)
Definition leader_from1 (s s1 : cst) (a : addr) (reb : bool) (m : addr) : Prop :=
  maxrev s = Some m \/ (reb = false /\ m = a) \/ exists r, In (m, r) (registered s1) /\ rg_rebuilding r = false.

Lemma do_register_spec : forall s a u rev reb pick fs, struct_ok s -> Nat.eqb u 0 = false ->
  let s1 := reg_s1 s a u rev reb in
  let out := do_register s a u rev reb pick fs in
  let s' := fst (fst out) in
  incl (registered s') (registered s1)
  /\ (forall m, maxrev s' = Some m -> leader_from1 s s1 a reb m)
  /\ (e_signals (snd out) = [] \/
      exists m, e_signals (snd out) = [(m, true)] /\ replicas s = [] /\ leader_from1 s s1 a reb m
        /\ exists R2, incl R2 (registered s1) /\ NoDup (keys R2) /\ (quorum (rf s) <= length R2)%nat
           /\ (forall q, In q R2 -> rg_rebuilding (snd q) = false -> rg_rev (snd q) <= lookup_rev R2 m)
           /\ (registered s' = R2 \/ registered s' = adel R2 m)).
Proof.
  intros s a u rev reb pick fs H Hu. rewrite do_register_unfold, Hu. cbv zeta.
  set (s1 := reg_s1 s a u rev reb).
  assert (H1 : struct_ok s1) by (apply struct_reg_s1; exact H).
  assert (Keep : forall t, reg_sub s1 t ->
            incl (registered t) (registered s1) /\ (forall m, maxrev t = Some m -> leader_from1 s s1 a reb m)).
  { intros t [M I]. split; [exact I|]. intros m Hm. left. destruct M as [M|M]; [rewrite M in Hm; exact Hm|congruence]. }
  assert (R1 : replicas s1 = replicas s) by reflexivity.
  destruct (replicas s1) eqn:Er.
  2:{ cbn [fst snd e_signals noeff]. destruct (Keep s1 (rs_refl s1)) as [K1 K2]. split; [exact K1|]. split; [exact K2|left; reflexivity]. }
  pose proof (reg_switch_spec s1 a fs H1) as Hsw.
  destruct (reg_switch s1 a fs) as [[[s2 sg0]|]|out]; [|contradiction|].
  2:{ subst out. cbn [fst snd e_signals noeff]. destruct (Keep s1 (rs_refl s1)) as [K1 K2]. split; [exact K1|]. split; [exact K2|left; reflexivity]. }
  destruct Hsw as [Hsg0 [H2 [F2 S2]]]. subst sg0.
  destruct reb.
  { cbn [fst snd e_signals]. destruct (Keep s2 S2) as [K1 K2]. split; [exact K1|]. split; [exact K2|left; reflexivity]. }
  pose proof (reg_elect_spec s2 a pick fs H2) as He. cbv zeta in He.
  destruct He as [E1 [E2 E3]]. destruct S2 as [M2 I2].
  assert (LF : forall m, leader_from s2 a m -> leader_from1 s s1 a false m).
  { intros m [Hm|[Hm|[r [Hr Hn]]]].
    - left. destruct M2 as [M2|M2]; [rewrite M2 in Hm; exact Hm|congruence].
    - right. left. split; [reflexivity|exact Hm].
    - right. right. exists r. split; [apply I2; exact Hr|exact Hn]. }
  split; [eapply incl_tran; eassumption|]. split; [intros m Hm; apply LF; apply E2; exact Hm|].
  destruct E3 as [E3|[m [Hs [L [Q [C Rr]]]]]]; [left; exact E3|].
  right. exists m. split; [exact Hs|]. split; [symmetry; exact R1|]. split; [apply LF; exact L|].
  exists (registered s2). split; [exact I2|]. split; [exact (st_reg s2 H2)|].
  split; [rewrite F2 in Q; exact Q|]. split; [exact C|exact Rr].
Qed.

(** *** the registration memory follows the model *)
Lemma in_aset_nodup : forall {V} (l : list (nat * V)) a v p, NoDup (keys l) ->
  In p (aset l a v) -> p = (a, v) \/ (In p l /\ fst p <> a).
Proof.
  intros V l a v p. induction l as [|[k x] t IH]; cbn; intros Hn Hin.
  - destruct Hin as [Hin|[]]. left. symmetry. exact Hin.
  - inversion Hn as [|y ys Hy Hd]; subst. destruct (Nat.eqb k a) eqn:E.
    + apply Nat.eqb_eq in E. subst k. destruct Hin as [Hin|Hin]; [left; symmetry; exact Hin|].
      right. split; [right; exact Hin|]. intro Ef. apply Hy. rewrite <- Ef. destruct p as [pk pv]. eapply in_keys. exact Hin.
    + destruct Hin as [Hin|Hin].
      * right. split; [left; exact Hin|]. subst p. cbn. apply Nat.eqb_neq. exact E.
      * destruct (IH Hd Hin) as [G|[G1 G2]]; [left; exact G|right; split; [right; exact G1|exact G2]].
Qed.

Lemma reg_inv_s1 : forall g s a u rev reb pick fs, struct_ok s -> reg_inv g s -> Nat.eqb u 0 = false ->
  reg_consistent g (Register a u rev reb pick fs) = true ->
  reg_inv (aset g a (rev, reb)) (reg_s1 s a u rev reb).
Proof.
  intros g s a u rev reb pick fs H [A B C] Hu Hc. cbn [reg_consistent] in Hc. rewrite Hu in Hc.
  apply andb_prop in Hc. destruct Hc as [Hpos Hsame]. apply Z.leb_le in Hpos.
  constructor.
  - intros x r Hx. unfold reg_s1 in Hx. cbn [registered upd_registered] in Hx.
    apply in_aset_nodup in Hx; [|apply nodup_filter_keys; exact (st_reg s H)].
    rewrite aget_aset. destruct Hx as [Hx|[Hx Hne]].
    + inversion Hx; subst. rewrite Nat.eqb_refl. reflexivity.
    + cbn in Hne. assert (E : Nat.eqb a x = false) by (apply Nat.eqb_neq; intro E; apply Hne; symmetry; exact E).
      rewrite E. apply A. apply filter_In in Hx. exact (proj1 Hx).
  - intros m Hm. change (maxrev (reg_s1 s a u rev reb)) with (maxrev s) in Hm.
    destruct (B m Hm) as [rv Hrv]. rewrite aget_aset. destruct (Nat.eqb a m) eqn:E; [|exists rv; exact Hrv].
    apply Nat.eqb_eq in E. subst m. rewrite Hrv in Hsame. apply andb_prop in Hsame. destruct Hsame as [_ Hb].
    apply eqb_prop in Hb. subst reb. exists rev. reflexivity.
  - intros x rv rb Hx. rewrite aget_aset in Hx. destruct (Nat.eqb a x); [inversion Hx; subst; exact Hpos|].
    eapply C. exact Hx.
Qed.

Lemma leader_nonreb : forall g1 s s1 a rev reb m, reg_inv g1 s1 -> maxrev s1 = maxrev s ->
  aget g1 a = Some (rev, reb) ->
  leader_from1 s s1 a reb m -> exists rv, aget g1 m = Some (rv, false).
Proof.
  intros g1 s s1 a rev reb m [A B C] Hm Ha [L|[[L1 L2]|[r [L1 L2]]]].
  - apply B. rewrite Hm. exact L.
  - subst. exists rev. exact Ha.
  - exists (rg_rev r). rewrite (A m r L1), L2. reflexivity.
Qed.

Lemma reg_inv_step : forall g s e, struct_ok s -> reg_inv g s -> reg_consistent g e = true ->
  reg_inv (regs_upd g e) (fst (fst (step s e))).
Proof.
  intros g s e H Hi Hc.
  assert (Other : (match e with Register _ _ _ _ _ _ => False | _ => True end) -> regs_upd g e = g ->
                  reg_inv (regs_upd g e) (fst (fst (step s e)))).
  { intros He Hg. rewrite Hg. eapply rs_inv; [apply rs_step; exact He|exact Hi]. }
  destruct e; try (apply Other; [exact I|reflexivity]).
  cbn [step regs_upd]. destruct (Nat.eqb uuid 0) eqn:Hu.
  { rewrite do_register_unfold, Hu. exact Hi. }
  pose proof (reg_inv_s1 g s a uuid rev rebuilding pick fs H Hi Hu Hc) as H1.
  destruct (do_register_spec s a uuid rev rebuilding pick fs H Hu) as [S1 [S2 _]].
  set (g1 := aset g a (rev, rebuilding)) in *.
  assert (Ha : aget g1 a = Some (rev, rebuilding)) by (unfold g1; rewrite aget_aset, Nat.eqb_refl; reflexivity).
  constructor.
  - intros x r Hx. apply (ri_reg _ _ H1). apply S1. exact Hx.
  - intros m Hm. eapply leader_nonreb; [exact H1|reflexivity|exact Ha|apply S2; exact Hm].
  - exact (ri_pos _ _ H1).
Qed.

(** *** the oracle on a registration *)
Lemma length_adel_ge : forall {V} (l : list (nat * V)) a, (length l <= S (length (adel l a)))%nat.
Proof. intros V l a. induction l as [|[k v] t IH]; cbn; [lia|]. destruct (Nat.eqb k a); cbn; lia. Qed.

Lemma in_keys_inv : forall {V} (l : list (nat * V)) x, In x (keys l) -> exists v, In (x, v) l.
Proof.
  intros V l x H. unfold keys in H. apply in_map_iff in H. destruct H as [[k v] [Hk Hin]]. cbn in Hk. subst k.
  exists v. exact Hin.
Qed.

Lemma c09_register : forall rf0 n g s a u rev reb pick fs r0 ef0 r0',
  struct_ok s -> rf s = rf0 -> reg_inv g s ->
  reg_consistent g (Register a u rev reb pick fs) = true ->
  c09_step rf0 g (with_res1 (observe n s r0 ef0) r0') (Register a u rev reb pick fs)
           (observe n (fst (fst (do_register s a u rev reb pick fs))) (snd (fst (do_register s a u rev reb pick fs)))
                    (snd (do_register s a u rev reb pick fs))) = true.
Proof.
  intros rf0 n g s a u rev reb pick fs r0 ef0 r0' H Hrf Hi Hc.
  unfold c09_step. cbn [o_signals observe o_registered o_replicas with_res1 regs_upd].
  destruct (Nat.eqb u 0) eqn:Hu.
  { rewrite do_register_unfold, Hu. reflexivity. }
  pose proof (reg_inv_s1 g s a u rev reb pick fs H Hi Hu Hc) as H1.
  destruct (do_register_spec s a u rev reb pick fs H Hu) as [S1 [S2 S3]].
  set (g1 := aset g a (rev, reb)) in *.
  assert (Ha : aget g1 a = Some (rev, reb)) by (unfold g1; rewrite aget_aset, Nat.eqb_refl; reflexivity).
  set (out := do_register s a u rev reb pick fs) in *.
  set (s1 := reg_s1 s a u rev reb) in *.
  destruct S3 as [E|[m [E [Hr [L [R2 [I2 [N2 [Q [C Rr]]]]]]]]]].
  { rewrite E. reflexivity. }
  rewrite E. cbn [sort2 fold_right insert2 filter snd map fst forallb length Nat.leb andb].
  rewrite !andb_true_r.
  destruct (leader_nonreb g1 s s1 a rev reb m H1 eq_refl Ha L) as [rvm Hm].
  assert (Rm : reg_of g1 m = (rvm, false)) by (unfold reg_of; rewrite Hm; reflexivity).
  set (R' := sort (map fst (registered (fst (fst out))))).
  set (pool := if mem m R' then R' else m :: R').
  assert (HR' : forall x, In x R' <-> In x (keys (registered (fst (fst out))))) by (intros x; apply in_sort).
  assert (Hsub : forall p, In p (registered (fst (fst out))) -> In p R2).
  { intros p Hp. destruct Rr as [Rr|Rr]; rewrite Rr in Hp; [exact Hp|eapply in_adel; exact Hp]. }
  assert (Hlen : (length R2 <= length pool)%nat).
  { assert (LR : length R' = length (registered (fst (fst out)))) by (unfold R'; rewrite length_sort, map_length; reflexivity).
    destruct Rr as [Rr|Rr].
    - rewrite Rr in LR. unfold pool. destruct (mem m R'); cbn [length]; rewrite LR; lia.
    - assert (Nm : mem m R' = false).
      { apply mem_false. intro Hx. apply HR' in Hx. rewrite Rr in Hx. exact (adel_not_in R2 m N2 Hx). }
      unfold pool. rewrite Nm. cbn [length]. rewrite LR, Rr. apply length_adel_ge. }
  apply andb_true_intro. split; [apply andb_true_intro; split; [apply andb_true_intro; split|]|].
  - apply Nat.leb_le. rewrite <- Hrf. eapply Nat.le_trans; [exact Q|exact Hlen].
  - rewrite Hr. reflexivity.
  - rewrite Rm. reflexivity.
  - apply forallb_forall. intros x Hx.
    assert (Hx' : x = m \/ In x R').
    { unfold pool in Hx. destruct (mem m R'); [right; exact Hx|]. destruct Hx as [Hx|Hx]; [left; symmetry; exact Hx|right; exact Hx]. }
    destruct Hx' as [Hx'|Hx'].
    + subst x. rewrite Rm. cbn [fst snd orb]. destruct (flt fs m KSignal || flt fs m KAlive); [reflexivity|apply Z.leb_refl].
    + apply HR' in Hx'. apply in_keys_inv in Hx'. destruct Hx' as [r Hxr]. apply Hsub in Hxr.
      pose proof (ri_reg _ _ H1 x r (I2 _ Hxr)) as Gx.
      assert (Rx : reg_of g1 x = (rg_rev r, rg_rebuilding r)) by (unfold reg_of; rewrite Gx; reflexivity).
      rewrite Rx, Rm. cbn [fst snd].
      destruct (rg_rebuilding r) eqn:Er; [reflexivity|]. cbn [orb].
      destruct (flt fs x KSignal || flt fs x KAlive); [reflexivity|].
      apply Z.leb_le. specialize (C (x, r) Hxr Er). cbn [snd] in C. unfold lookup_rev in C.
      destruct (aget R2 m) as [rm|] eqn:Eg.
      * apply aget_in in Eg. pose proof (ri_reg _ _ H1 m rm (I2 _ Eg)) as Gm. rewrite Hm in Gm. inversion Gm. exact C.
      * pose proof (ri_pos _ _ H1 m rvm false Hm). lia.
Qed.

(** *** the oracle on a start *)
Definition start_tail2 (s1 : cst) (fs : faults) : cst :=
  let revs := map (fun p => (fst p, f_rev (wget (w s1) (fst p)))) (replicas s1) in
  let expected := fold_left Z.max (map snd revs) 0 in
  let s2 := fold_left (fun acc p => if snd p =? expected then acc else set_mode_nolock acc (fst p) ERR) revs s1 in
  start_frontend (update_checkpoint (update_vol_status s2) fs).

Lemma do_start_signals : forall s l fs p, In p (e_signals (snd (do_start s l fs))) -> snd p = false.
Proof.
  intros s l fs p. unfold do_start.
  destruct l as [|a0 t]; [intros []|].
  destruct (replicas s); [|intros []].
  destruct (negb (signalled s) || negb _); [intros []|].
  destruct (start_adds _ fs (a0 :: t)) as [s1 r].
  destruct r; try (intros []).
  destruct (existsb _ (replicas s1)); [intros []|].
  cbn [snd e_signals]. intros Hp. apply in_map_iff in Hp. destruct Hp as [q [Hq _]]. subst p. reflexivity.
Qed.

Lemma do_start_gate : forall s l fs, replicas s = [] ->
  fst (fst (do_start s l fs)) = s
  \/ exists a0 t, l = a0 :: t /\ signalled s = true /\ maxrev s = Some a0.
Proof.
  intros s l fs Hr. unfold do_start. destruct l as [|a0 t]; [left; reflexivity|]. rewrite Hr.
  destruct (signalled s); [|left; reflexivity].
  destruct (maxrev s) as [m|]; [|left; reflexivity].
  destruct (Nat.eqb m a0) eqn:E; [|left; reflexivity].
  apply Nat.eqb_eq in E. subst m. right. exists a0, t. repeat split.
Qed.

Lemma do_start_ok : forall s l fs, replicas s = [] -> snd (fst (do_start s l fs)) = ROk ->
  fst (fst (do_start s l fs)) = s \/ exists s1, fst (fst (do_start s l fs)) = start_tail2 s1 fs.
Proof.
  intros s l fs Hr. unfold do_start. destruct l as [|a0 t]; [left; reflexivity|]. rewrite Hr.
  destruct (negb (signalled s) || negb _); [left; reflexivity|].
  destruct (start_adds _ fs (a0 :: t)) as [s1 r].
  destruct r; cbn [fst snd]; try discriminate.
  destruct (existsb _ (replicas s1)); cbn [fst snd]; [discriminate|].
  intros _. right. exists s1. reflexivity.
Qed.

Lemma keys_set_mode : forall s a m, keys (replicas (set_mode_nolock s a m)) = keys (replicas s).
Proof. intros. destruct (replicas_set_mode s a m) as [R|R]; rewrite R; [reflexivity|apply keys_setm]. Qed.

Definition stepf (exp : Z) (acc : cst) (p : addr * Z) : cst :=
  if snd p =? exp then acc else set_mode_nolock acc (fst p) ERR.

Lemma sf_keys : forall exp l s, keys (replicas (fold_left (stepf exp) l s)) = keys (replicas s).
Proof.
  intros exp. induction l as [|p t IH]; intros s; cbn [fold_left]; [reflexivity|]. rewrite IH. unfold stepf.
  destruct (snd p =? exp); [reflexivity|apply keys_set_mode].
Qed.

Lemma sf_w : forall exp l s, w (fold_left (stepf exp) l s) = w s.
Proof.
  intros exp. induction l as [|p t IH]; intros s; cbn [fold_left]; [reflexivity|]. rewrite IH. unfold stepf.
  destruct (snd p =? exp); [reflexivity|apply w_set_mode].
Qed.

Lemma sf_rw_before : forall exp l s x, In (x, RW) (replicas (fold_left (stepf exp) l s)) -> In (x, RW) (replicas s).
Proof.
  intros exp. induction l as [|p t IH]; intros s x Hx; cbn [fold_left] in Hx; [exact Hx|]. apply IH in Hx. unfold stepf in Hx.
  destruct (snd p =? exp); [exact Hx|]. eapply in_replicas_set_mode_err; [exact Hx|discriminate].
Qed.

Lemma sf_behind_not_rw : forall exp l s x rv, NoDup (keys (replicas s)) -> In (x, rv) l -> (rv =? exp) = false ->
  ~ In (x, RW) (replicas (fold_left (stepf exp) l s)).
Proof.
  intros exp. induction l as [|p t IH]; intros s x rv Hn Hin Hne; [contradiction|]. cbn [fold_left].
  destruct Hin as [Hin|Hin].
  - subst p. intro Hx. apply sf_rw_before in Hx. unfold stepf in Hx. cbn [fst snd] in Hx. rewrite Hne in Hx.
    exact (set_mode_err_not_rw s x Hn Hx).
  - apply (IH _ x rv); [|exact Hin|exact Hne]. unfold stepf.
    destruct (snd p =? exp); [exact Hn|rewrite keys_set_mode; exact Hn].
Qed.

Lemma start_frontend_fields : forall s, replicas (start_frontend s) = replicas s /\ w (start_frontend s) = w s.
Proof. intros s. unfold start_frontend. destruct (replicas s) eqn:E; split; try reflexivity; exact E. Qed.

Lemma c09_start_revs : forall n s1 fs r ef,
  let s' := start_tail2 s1 fs in
  NoDup (keys (replicas s')) -> keys_lt n s' ->
  (let cur := observe n s' r ef in
   let revs := map (fun a => match rep_of cur a with Some r => o_rev r | None => 0 end) (addrs_of (o_replicas cur)) in
   let mx := fold_left Z.max revs 0 in
   forallb (fun p => match rep_of cur (fst p) with
                     | Some r => if o_rev r <? mx then negb (is_rw (snd p)) else true
                     | None => false end) (o_replicas cur)) = true.
Proof.
  intros n s1 fs r ef s' Hn Hk. cbv zeta.
  set (revs1 := map (fun p => (fst p, f_rev (wget (w s1) (fst p)))) (replicas s1)).
  set (expected := fold_left Z.max (map snd revs1) 0).
  set (s2 := fold_left (stepf expected) revs1 s1).
  assert (Es' : s' = start_frontend (update_checkpoint (update_vol_status s2) fs)) by reflexivity.
  assert (Rs' : replicas s' = replicas s2).
  { rewrite Es'. rewrite (proj1 (start_frontend_fields _)).
    destruct (sst_update_checkpoint (update_vol_status s2) fs) as [Q _]. rewrite Q. reflexivity. }
  assert (Wrev : forall x, f_rev (wget (w s') x) = f_rev (wget (w s1) x)).
  { intros x. rewrite Es'. rewrite (proj2 (start_frontend_fields _)).
    rewrite (update_checkpoint_keeps f_rev cpi_rev). cbn [w update_vol_status upd_status].
    unfold s2. rewrite sf_w. reflexivity. }
  assert (K2 : keys (replicas s2) = keys (replicas s1)) by (unfold s2; apply sf_keys).
  cbn [o_replicas observe].
  assert (Erevs : map (fun a => match rep_of (observe n s' r ef) a with Some r1 => o_rev r1 | None => 0 end) (addrs_of (replicas s'))
                  = map snd revs1).
  { unfold revs1. rewrite map_map. cbn [snd fst].
    change (addrs_of (replicas s')) with (keys (replicas s')). rewrite Rs', K2. unfold keys. rewrite map_map.
    apply map_ext_in. intros p Hp.
    assert (Hlt : (fst p < n)%nat).
    { apply Hk. rewrite Rs', K2. apply in_map. exact Hp. }
    rewrite rep_of_observe by exact Hlt. cbn [o_rev observe_rep]. apply Wrev. }
  rewrite Erevs. fold expected.
  apply forallb_forall. intros [x md] Hp. cbn [fst snd].
  assert (Hlt : (x < n)%nat) by (apply Hk; eapply in_keys; exact Hp).
  rewrite rep_of_observe by exact Hlt. cbn [o_rev observe_rep]. rewrite Wrev.
  destruct (f_rev (wget (w s1) x) <? expected) eqn:Elt; [|reflexivity].
  destruct md; try reflexivity. exfalso.
  rewrite Rs' in Hp.
  assert (Hx1 : In x (keys (replicas s1))) by (rewrite <- K2; eapply in_keys; exact Hp).
  apply in_keys_inv in Hx1. destruct Hx1 as [m1 Hx1].
  assert (Hin : In (x, f_rev (wget (w s1) x)) revs1).
  { unfold revs1. apply in_map_iff. exists (x, m1). split; [reflexivity|exact Hx1]. }
  assert (Hne : (f_rev (wget (w s1) x) =? expected) = false).
  { apply Z.eqb_neq. apply Z.ltb_lt in Elt. lia. }
  refine (sf_behind_not_rw expected revs1 s1 x _ _ Hin Hne Hp).
  rewrite <- K2, <- Rs'. exact Hn.
Qed.

Lemma c09_start : forall rf0 n g s l fs r0 ef0 r0',
  struct_ok s -> keys_lt n s -> ev_wf (Start l fs) = true -> ev_addrs_lt n (Start l fs) = true ->
  c09_step rf0 g (with_res1 (observe n s r0 ef0) r0') (Start l fs)
           (observe n (fst (fst (do_start s l fs))) (snd (fst (do_start s l fs))) (snd (do_start s l fs))) = true.
Proof.
  intros rf0 n g s l fs r0 ef0 r0' H Hk Hwf Hlt.
  pose proof (struct_step s (Start l fs) H Hwf) as H'. pose proof (keys_lt_step n s (Start l fs) Hk Hlt) as Hk'.
  cbn [step] in H', Hk'.
  unfold c09_step. fold (starts_of (observe n (fst (fst (do_start s l fs))) (snd (fst (do_start s l fs))) (snd (do_start s l fs)))).
  rewrite no_start_signals by (apply do_start_signals).
  cbn [length Nat.eqb andb]. rewrite andb_true_r.
  cbn [o_replicas o_maxrev o_signalled observe with_res1].
  apply andb_true_intro. split.
  - destruct (replicas s) eqn:Er; [|reflexivity]. cbn [length Nat.eqb andb].
    destruct (do_start_gate s l fs Er) as [G|[a0 [t [G1 [G2 G3]]]]].
    + rewrite G, Er. reflexivity.
    + rewrite G1, G2, G3, Nat.eqb_refl. destruct (negb _); reflexivity.
  - unfold is_ack. cbn [o_res observe].
    destruct (res_eqb (res_class (snd (fst (do_start s l fs)))) ROk) eqn:Eack; [|reflexivity].
    apply res_class_ok in Eack.
    destruct (replicas s) eqn:Er; [|reflexivity]. cbn [length Nat.eqb andb].
    destruct (do_start_ok s l fs Er Eack) as [G|[s1 G]].
    + rewrite G. cbn [o_replicas observe]. rewrite Er. reflexivity.
    + rewrite G in *. apply c09_start_revs; [exact (st_nodup _ H')|exact Hk'].
Qed.

(** *** every other event sends no signal *)
Lemma read_main_signals : forall s order fs, e_signals (snd (read_main s order fs)) = [].
Proof.
  intros. unfold read_main. destruct (negb (avail s)); [reflexivity|].
  destruct (negb (read_order_ok s order fs)); [reflexivity|]. cbv zeta.
  destruct (filter _ order) as [|e0 es]; [reflexivity|].
  destruct (handle_error_nolock s (e0 :: es)) as [s2 sup]. reflexivity.
Qed.

Lemma do_read_signals : forall s off len order fs, e_signals (snd (do_read s off len order fs)) = [].
Proof.
  intros. rewrite do_read_unfold. destruct (_ || _); [reflexivity|].
  pose proof (read_main_signals s order fs) as G.
  destruct (replicas s) as [|[a0 m0] t]; [reflexivity|]. destruct m0; destruct t; try exact G; reflexivity.
Qed.

Lemma other_signals : forall s e,
  match e with Register _ _ _ _ _ _ | Start _ _ => False | _ => True end -> e_signals (snd (step s e)) = [].
Proof.
  intros s e He. destruct e; try contradiction; cbn [step];
    try match goal with |- context [let '(s1, r) := ?X in _] => destruct X; reflexivity end.
  - reflexivity.
  - destruct m; reflexivity.
  - apply do_read_signals.
Qed.

(** *** removing an attached replica drops its registration *)
Lemma remove_replica_unregisters : forall s fs a, struct_ok s -> has_replica s a = true ->
  ~ In a (keys (registered (remove_replica_nolock s fs a))).
Proof.
  intros s fs a H Ha. unfold remove_replica_nolock. rewrite Ha. cbn [negb].
  set (s1 := if Nat.eqb (length (replicas s)) 1 && fe_up s then _ else s).
  assert (R1 : registered s1 = registered s) by (subst s1; destruct (Nat.eqb (length (replicas s)) 1 && fe_up s); reflexivity).
  set (s2 := upd_registered s1 (adel (registered s1) a)).
  cbv zeta.
  assert (RS : reg_sub s2 (update_checkpoint (update_vol_status (remove_backend (upd_replicas s2 (adel (replicas s2) a)) a)) fs)).
  { eapply rs_trans; [|apply rs_update_checkpoint]. eapply rs_trans; [|apply rs_uvs].
    eapply rs_trans; [|apply rs_remove_backend]. apply rs_upd_replicas. }
  intro Hin. apply in_keys_inv in Hin. destruct Hin as [r Hr]. apply (proj2 RS) in Hr.
  unfold s2 in Hr. cbn [registered upd_registered] in Hr.
  apply in_keys in Hr. revert Hr. apply adel_not_in. rewrite R1. exact (st_reg s H).
Qed.

Lemma c09_removed_unregistered : forall s e, struct_ok s ->
  match e with
  | Remove a _ | MonFire a _ | MonFail a _ =>
      snd (fst (step s e)) = ROk -> In a (keys (replicas s)) -> ~ In a (keys (registered (fst (fst (step s e)))))
  | _ => True
  end.
Proof.
  intros s e H. destruct e; try exact I; cbn [step].
  - cbn [fst snd]. intros _ Ha. apply remove_replica_unregisters; [exact H|apply has_replica_in; exact Ha].
  - unfold do_mon_fire. destruct (first_for (pend_mon s) (Nat.eqb a)) as [[i y]|]; cbn [fst snd]; [|discriminate].
    intros _ Ha. apply remove_replica_unregisters.
    + eapply sst_struct; [apply sst_upd_mon|exact H].
    + apply has_replica_in. exact Ha.
  - unfold do_mon_fail. destruct (first_for (rev (live_mon s)) (Nat.eqb a)) as [[i y]|]; cbn [fst snd]; [|discriminate].
    intros _ Ha. apply remove_replica_unregisters.
    + apply struct_set_mode; [discriminate|]. eapply sst_struct; [apply sst_upd_mon|exact H].
    + apply has_replica_in. rewrite keys_set_mode. exact Ha.
Qed.

Lemma c09_step_model : forall rf0 n g s e r0 ef0 r0',
  struct_ok s -> rf s = rf0 -> keys_lt n s -> reg_inv g s ->
  ev_wf e = true -> ev_addrs_lt n e = true -> reg_consistent g e = true ->
  c09_step rf0 g (with_res1 (observe n s r0 ef0) r0') e
           (observe n (fst (fst (step s e))) (snd (fst (step s e))) (snd (step s e))) = true.
Proof.
  intros rf0 n g s e r0 ef0 r0' H Hrf Hk Hi Hwf Hlt Hc.
  assert (Other : (match e with Register _ _ _ _ _ _ | Start _ _ => False | _ => True end) ->
            Nat.eqb (length (starts_of (observe n (fst (fst (step s e))) (snd (fst (step s e))) (snd (step s e))))) 0 = true).
  { intros He. rewrite no_start_signals; [reflexivity|]. rewrite (other_signals s e He). intros p []. }
  assert (Gone : forall a, (match e with Remove a' _ | MonFire a' _ | MonFail a' _ => a' = a | _ => False end) ->
            (if is_ack (observe n (fst (fst (step s e))) (snd (fst (step s e))) (snd (step s e)))
                && mem a (addrs_of (o_replicas (with_res1 (observe n s r0 ef0) r0')))
             then negb (mem a (o_registered (observe n (fst (fst (step s e))) (snd (fst (step s e))) (snd (step s e)))))
             else true) = true).
  { intros a He. pose proof (c09_removed_unregistered s e H) as G.
    match goal with |- (if ?c then _ else _) = true => destruct c eqn:E; [|reflexivity] end.
    apply andb_prop in E. destruct E as [E1 E2]. unfold is_ack in E1. cbn [o_res observe] in E1. apply res_class_ok in E1.
    cbn [o_replicas observe with_res1] in E2. apply mem_in in E2.
    apply negb_true_iff. apply mem_false. cbn [o_registered observe]. intro Hin. apply (proj1 (in_sort _ _)) in Hin.
    destruct e; try contradiction; subst; exact (G E1 E2 Hin). }
  destruct e; try (apply Other; exact I).
  - apply c09_register; assumption.
  - apply c09_start; assumption.
  - apply andb_true_intro. split; [apply Other; exact I|apply Gone; reflexivity].
  - apply andb_true_intro. split; [apply Other; exact I|apply Gone; reflexivity].
  - apply andb_true_intro. split; [apply Other; exact I|apply Gone; reflexivity].
Qed.

(** *** the induction, with the oracle's memory threaded *)
Fixpoint hist_ok_g (P : regs -> cst -> event -> Prop) (g : regs) (s : cst) (es : list event) : Prop :=
  match es with
  | [] => True
  | e :: t => P g s e /\ hist_ok_g P (regs_upd g e) (fst (fst (step s e))) t
  end.

Lemma walk_g_model : forall (f : regs -> obs -> event -> obs -> bool) (pf : obs -> event -> event -> obs -> bool)
  (Inv : regs -> cst -> Prop) (P : regs -> cst -> event -> Prop) n,
  (forall g s e, Inv g s -> P g s e -> Inv (regs_upd g e) (fst (fst (step s e)))) ->
  (forall g s e r0 ef0 r0', Inv g s -> P g s e ->
     f g (with_res1 (observe n s r0 ef0) r0') e
       (observe n (fst (fst (step s e))) (snd (fst (step s e))) (snd (step s e))) = true) ->
  forall es g s r0 ef0 r0' i, Inv g s -> hist_ok_g P g s es ->
  walk_g (fun g => lift (f g) pf) i g (with_res1 (observe n s r0 ef0) r0') (map One es) (trace n s (map One es)) = None.
Proof.
  intros f pf Inv P n Hpres Hstep.
  induction es as [|e t IH]; intros g s r0 ef0 r0' i Hinv Hh; cbn [map trace walk_g]; [reflexivity|].
  cbn [xstep]. destruct Hh as [Hp Ht].
  pose proof (Hstep g s e r0 ef0 r0' Hinv Hp) as Hs.
  pose proof (Hpres g s e Hinv Hp) as Hi.
  destruct (step s e) as [[s1 r] ef] eqn:E. cbn [fst snd] in *.
  cbn [walk_g lift xregs_upd].
  change (with_res1 (observe n s1 r ef) None) with (observe n s1 r ef).
  rewrite Hs.
  change (observe n s1 r ef) with (with_res1 (observe n s1 r ef) None).
  apply IH; assumption.
Qed.

Lemma hist_ok_g_bools : forall n es g s, forallb ev_wf es = true -> forallb (ev_addrs_lt n) es = true ->
  fixed_assign g es = true ->
  hist_ok_g (fun g _ e => ev_wf e = true /\ ev_addrs_lt n e = true /\ reg_consistent g e = true) g s es.
Proof.
  intros n. induction es as [|e t IH]; intros g s H1 H2 H3; cbn in *; [exact I|].
  apply andb_prop in H1. apply andb_prop in H2. apply andb_prop in H3.
  destruct H1 as [A1 A2]. destruct H2 as [B1 B2]. destruct H3 as [C1 C2].
  split; [repeat split; assumption|apply IH; assumption].
Qed.

Lemma reg_inv_init : forall rf0 w0, reg_inv [] (init rf0 w0).
Proof. intros. constructor; cbn; [intros x r []|intros m Hm; discriminate|intros x rv rb Hx; discriminate]. Qed.

Theorem c09_oracle_model : forall es rf0 n w0, (1 <= rf0)%nat -> forallb ev_wf es = true ->
  forallb (ev_addrs_lt n) es = true -> fixed_assign [] es = true ->
  walk_g (fun g => lift (c09_step rf0 g) nopair) 0 [] (obs0 rf0 n w0) (map One es) (trace n (init rf0 w0) (map One es)) = None.
Proof.
  intros es rf0 n w0 Hrf Hwf Hlt Hfa. unfold obs0.
  change (observe n (init rf0 w0) ROk noeff) with (with_res1 (observe n (init rf0 w0) ROk noeff) None).
  apply (walk_g_model (c09_step rf0) nopair
           (fun g s => struct_ok s /\ rf s = rf0 /\ keys_lt n s /\ reg_inv g s)
           (fun g _ e => ev_wf e = true /\ ev_addrs_lt n e = true /\ reg_consistent g e = true)).
  - intros g s e [Hs [Hr [Hk Hi]]] [Hw [Ha Hc]].
    split; [apply struct_step; assumption|]. split; [rewrite rf_step; exact Hr|].
    split; [apply keys_lt_step; assumption|apply reg_inv_step; assumption].
  - intros g s e r0 ef0 r0' [Hs [Hr [Hk Hi]]] [Hw [Ha Hc]]. apply c09_step_model; assumption.
  - split; [apply struct_init; exact Hrf|]. split; [reflexivity|]. split; [apply keys_lt_init|apply reg_inv_init].
  - apply hist_ok_g_bools; assumption.
Qed.

(** *** why the two conditions of [fixed_assign] are there (the oracle is false on these model traces) *)
(** replica 0 registers, registers again as rebuilding, then a second replica completes the majority:
    the model (as the controller) keeps 0 as leader and signals it, the oracle's memory says 0 is
    rebuilding *)
Definition c09_witness_flag : list event :=
  [Register 0%nat 7%nat 5 false None []; Register 0%nat 7%nat 5 true None []; Register 1%nat 8%nat 4 false None []].
Example c09_false_when_assignment_changes :
  walk_g (fun g => lift (c09_step 3 g) nopair) 0 [] (obs0 3 3 []) (map One c09_witness_flag)
         (trace 3 (init 3 []) (map One c09_witness_flag)) = Some 2%nat
  /\ map o_res (trace 3 (init 3 []) (map One c09_witness_flag)) = [ROk; ROk; ROk]
  /\ map o_signals (trace 3 (init 3 []) (map One c09_witness_flag)) = [[]; []; [(0%nat, true)]]
  /\ fixed_assign [] c09_witness_flag = false.
Proof. vm_compute. repeat split; reflexivity. Qed.

(** negative revision counters: the first registration is answered RInvalid (no possible pick) but
    leaves its replica as leader; its record is then deleted by a registration with the same UUID and
    it is elected with the default revision 0 against replicas whose counters are above its own *)
Definition c09_witness_neg : list event :=
  [Register 0%nat 7%nat (-5) false None []; Register 1%nat 7%nat (-3) false None []; Register 2%nat 8%nat (-4) false None []].
Example c09_false_with_negative_revisions :
  walk_g (fun g => lift (c09_step 3 g) nopair) 0 [] (obs0 3 3 []) (map One c09_witness_neg)
         (trace 3 (init 3 []) (map One c09_witness_neg)) = Some 2%nat
  /\ map o_res (trace 3 (init 3 []) (map One c09_witness_neg)) = [RInvalid; ROk; ROk]
  /\ fixed_assign [] c09_witness_neg = false.
Proof. vm_compute. repeat split; reflexivity. Qed.

(** the conditions are satisfiable on a history that sends a start signal *)
Example c09_conditions_non_vacuous :
  fixed_assign [] c05_witness = true /\ forallb (ev_addrs_lt 1) c05_witness = true /\ forallb ev_wf c05_witness = true
  /\ map o_signals (trace 1 (init 1 []) (map One c05_witness)) = [[(0%nat, true)]; []; []].
Proof. vm_compute. repeat split; reflexivity. Qed.

(** the remove clause: an attached replica loses its registration when it is removed; removing an
    address that is not attached is acknowledged and keeps the registration (the guard of the clause) *)
Definition c09_remove_attached : list event :=
  [Register 0%nat 1%nat 1 false None []; Start [0%nat] []; Remove 0%nat []].
Definition c09_remove_unattached : list event :=
  [Register 0%nat 1%nat 1 false None []; Remove 0%nat []].
Example c09_remove_clause_reached :
  walk_g (fun g => lift (c09_step 1 g) nopair) 0 [] (obs0 1 1 []) (map One c09_remove_attached)
         (trace 1 (init 1 []) (map One c09_remove_attached)) = None
  /\ map o_registered (trace 1 (init 1 []) (map One c09_remove_attached)) = [[0%nat]; [0%nat]; []]
  /\ walk_g (fun g => lift (c09_step 1 g) nopair) 0 [] (obs0 1 1 []) (map One c09_remove_unattached)
         (trace 1 (init 1 []) (map One c09_remove_unattached)) = None
  /\ map o_registered (trace 1 (init 1 []) (map One c09_remove_unattached)) = [[0%nat]; [0%nat]]
  /\ map o_res (trace 1 (init 1 []) (map One c09_remove_unattached)) = [ROk; ROk].
Proof. vm_compute. repeat split; reflexivity. Qed.
