(** * The observation of every model state is a well-formed path ([wf_obs]): the structural half of
    the C12 oracle of Corr.v, proved for every state of the invariant — hence on every observation
    of every model trace — instead of evaluated on examples. *)
From Coq Require Import List ZArith NArith Bool Arith Lia.
From Jiva Require Import Meta.Model Meta.Corr Meta.Proofs.
Import ListNotations.

(** ** lookups in the observation's tables *)

Definition dir_entry (u : list dname) (w : fs) (n : name) : list (name * fkind) :=
  match files w n with Some c => [(n, kind_of u (files w) n c)] | None => [] end.

Lemma dir_of_eq : forall u w, dir_of u w = flat_map (dir_entry u w) (names_of u).
Proof. reflexivity. Qed.

Lemma lookup_file_app : forall l1 l2 n,
  lookup_file (l1 ++ l2) n = match lookup_file l1 n with Some k => Some k | None => lookup_file l2 n end.
Proof.
  induction l1 as [| [m k] t IH]; intros l2 n; [reflexivity |]. cbn [app lookup_file].
  destruct (name_eqb m n); [reflexivity | apply IH].
Qed.

Lemma lookup_entries_none : forall u w L n, files w n = None -> lookup_file (flat_map (dir_entry u w) L) n = None.
Proof.
  intros u w L n Hn. induction L as [| x t IH]; [reflexivity |]. cbn [flat_map]. rewrite lookup_file_app, IH.
  unfold dir_entry. destruct (files w x) as [c |] eqn:Hx; [| reflexivity]. cbn [lookup_file].
  destruct (name_eqb x n) eqn:E; [| reflexivity]. apply name_eqb_eq in E. subst x. congruence.
Qed.

Lemma lookup_entries : forall u w L n, In n L ->
  lookup_file (flat_map (dir_entry u w) L) n = option_map (kind_of u (files w) n) (files w n).
Proof.
  intros u w L n Hin. destruct (files w n) as [c |] eqn:Hn; [| apply lookup_entries_none; exact Hn]. cbn [option_map].
  induction L as [| x t IH]; [contradiction |]. cbn [flat_map]. rewrite lookup_file_app.
  destruct (name_eqb x n) eqn:E.
  - apply name_eqb_eq in E. subst x. unfold dir_entry at 1. rewrite Hn. cbn [lookup_file]. rewrite name_eqb_refl. reflexivity.
  - assert (Hne : x <> n) by (intro; subst; rewrite name_eqb_refl in E; discriminate).
    destruct Hin as [Hin | Hin]; [contradiction |].
    unfold dir_entry at 1. destruct (files w x) as [cx |]; cbn [lookup_file]; [rewrite E |]; apply IH; exact Hin.
Qed.

Lemma names_of_img : forall u d, In d u -> In (Img d) (names_of u) /\ In (Meta d) (names_of u).
Proof.
  intros u d Hin. unfold names_of. split; apply in_or_app; left; apply in_flat_map; exists d; (split; [exact Hin | cbn; auto]).
Qed.

Lemma names_of_vol : forall u, In Vol (names_of u).
Proof. intros u. unfold names_of. apply in_or_app. right. left. reflexivity. Qed.

Lemma lookup_dir : forall u w n, In n (names_of u) ->
  lookup_file (dir_of u w) n = option_map (kind_of u (files w) n) (files w n).
Proof. intros. rewrite dir_of_eq. apply lookup_entries. assumption. Qed.

(** ListDisks *)
Definition disk_entry (u : list dname) (m : mem) (d : dname) : list (dname * disk * list dname) :=
  match m_disks m d with
  | Some x => [(d, x, filter (fun c => memd c (m_children m (Some d))) u)]
  | None => [] end.

Lemma disks_of_eq : forall u m, disks_of u m = flat_map (disk_entry u m) u.
Proof. reflexivity. Qed.

Lemma lookup_disk_app : forall l1 l2 d,
  lookup_disk (l1 ++ l2) d = match lookup_disk l1 d with Some k => Some k | None => lookup_disk l2 d end.
Proof.
  induction l1 as [| [[n x] c] t IH]; intros l2 d; [reflexivity |]. cbn [app lookup_disk].
  destruct (dname_eqb n d); [reflexivity | apply IH].
Qed.

Lemma lookup_disk_entries : forall u m L d x, In d L -> m_disks m d = Some x ->
  lookup_disk (flat_map (disk_entry u m) L) d = Some (x, filter (fun c => memd c (m_children m (Some d))) u).
Proof.
  intros u m L d x Hin Hd. induction L as [| y t IH]; [contradiction |]. cbn [flat_map]. rewrite lookup_disk_app.
  destruct (dname_eqb y d) eqn:E.
  - apply dname_eqb_eq in E. subst y. unfold disk_entry at 1. rewrite Hd. cbn [lookup_disk]. rewrite dname_eqb_refl. reflexivity.
  - assert (Hne : y <> d) by (intro; subst; rewrite dname_eqb_refl in E; discriminate).
    destruct Hin as [Hin | Hin]; [contradiction |].
    unfold disk_entry at 1. destruct (m_disks m y) as [cy |]; cbn [lookup_disk]; [rewrite E |]; apply IH; exact Hin.
Qed.

Lemma memd_in : forall x l, memd x l = true -> In x l.
Proof.
  intros x l. induction l as [| y t IH]; cbn [memd]; [discriminate |]. intro H. apply Bool.orb_true_iff in H.
  destruct H as [H | H]; [left; symmetry; apply dname_eqb_eq; exact H | right; apply IH; exact H].
Qed.

Lemma disks_of_length : forall u m l,
  NoDup u -> NoDup l -> (forall d, In d l -> In d u) ->
  (forall d, m_disks m d <> None <-> In d l) ->
  length (disks_of u m) = length l.
Proof.
  intros u m l Hu Hl Hsub Hdom. rewrite disks_of_eq.
  assert (Hlen : forall L, length (flat_map (disk_entry u m) L) = length (filter (fun d => memd d l) L)).
  { induction L as [| y t IH]; [reflexivity |]. cbn [flat_map filter]. rewrite app_length, IH.
    unfold disk_entry at 1. destruct (m_disks m y) as [x |] eqn:Hy.
    - rewrite memd_true by (apply Hdom; congruence). reflexivity.
    - rewrite memd_false; [reflexivity |]. intro Hin. apply Hdom in Hin. contradiction. }
  rewrite Hlen. apply Nat.le_antisymm.
  - apply NoDup_incl_length; [apply NoDup_filter; exact Hu |]. intros d Hd. apply filter_In in Hd. destruct Hd as [_ Hd].
    apply memd_in. exact Hd.
  - apply NoDup_incl_length; [exact Hl |]. intros d Hd. apply filter_In. split; [apply Hsub; exact Hd | apply memd_true; exact Hd].
Qed.

(** ** the chain as a path *)

Lemma disk_eqb_refl : forall d, disk_eqb d d = true.
Proof.
  intros d. unfold disk_eqb. rewrite odname_eqb_refl, !Bool.eqb_reflx, N.eqb_refl, Z.eqb_refl. reflexivity.
Qed.

Lemma list_eqb_refl : forall A (e : A -> A -> bool), (forall x, e x x = true) -> forall l, list_eqb e l l = true.
Proof. intros A e He l. induction l as [| x t IH]; [reflexivity |]. cbn. rewrite He, IH. reflexivity. Qed.

Fixpoint olast (l : list dname) : option dname :=
  match l with [] => None | [a] => Some a | _ :: t => olast t end.

Lemma olast_snoc : forall l x, olast (l ++ [x]) = Some x.
Proof.
  induction l as [| a t IH]; intros x; [reflexivity |]. cbn [app]. specialize (IH x).
  destruct (t ++ [x]) as [| b t'] eqn:E; [destruct t; discriminate |]. cbn [olast]. exact IH.
Qed.

Lemma child_of_notin : forall x l, ~ In x (tl l) -> child_of x l = [].
Proof.
  intros x l. induction l as [| a t IH]; intros Hn; [reflexivity |].
  destruct t as [| b t']; [reflexivity |]. cbn [child_of]. cbn [tl] in Hn.
  rewrite dname_eqb_neq by (intro E; apply Hn; left; exact E). apply IH. cbn [tl]. intro H. apply Hn. right. exact H.
Qed.

Lemma child_of_mid : forall pre x t, NoDup (pre ++ x :: t) ->
  child_of x (pre ++ x :: t) = match olast pre with Some c => [c] | None => [] end.
Proof.
  induction pre as [| a p IH]; intros x t Hnd.
  - cbn [app olast]. apply child_of_notin. cbn [tl]. inversion Hnd; assumption.
  - destruct p as [| b p'].
    + cbn [app olast child_of]. rewrite dname_eqb_refl. reflexivity.
    + assert (Hbx : b <> x).
      { intro E. subst b. cbn [app] in Hnd. inversion Hnd as [| ? ? _ H2]; subst. inversion H2 as [| ? ? H3 _]; subst.
        apply H3. apply in_or_app. right. left. reflexivity. }
      assert (IH' := IH x t). cbn [app] in IH', Hnd |- *. cbn [child_of].
      rewrite (dname_eqb_neq b x Hbx).
      change (child_of x (b :: p' ++ x :: t) = match olast (b :: p') with Some c => [c] | None => [] end).
      apply IH'. inversion Hnd; assumption.
Qed.

Lemma filter_memd_nil : forall u, filter (fun c => memd c []) u = [].
Proof. induction u as [| x t IH]; [reflexivity | cbn; exact IH]. Qed.

Lemma filter_memd_single : forall u c, NoDup u -> In c u -> filter (fun x => memd x [c]) u = [c].
Proof.
  induction u as [| y t IH]; intros c Hnd Hin; [contradiction |]. inversion Hnd as [| ? ? Hy Ht]; subst.
  cbn [filter memd]. rewrite Bool.orb_false_r. destruct (dname_eqb y c) eqn:E.
  - apply dname_eqb_eq in E. subst y. f_equal.
    assert (Hnone : forall l, ~ In c l -> filter (fun x => memd x [c]) l = []).
    { induction l as [| z l' IHl]; intros Hn; [reflexivity |]. cbn [filter memd]. rewrite Bool.orb_false_r.
      rewrite dname_eqb_neq by (intro E; apply Hn; left; exact E). apply IHl. intro H. apply Hn. right. exact H. }
    apply Hnone. exact Hy.
  - destruct Hin as [Hin | Hin]; [subst y; rewrite dname_eqb_refl in E; discriminate |]. apply IH; assumption.
Qed.


Lemma names_app : forall a b, names_of_chain (a ++ b) = names_of_chain a ++ names_of_chain b.
Proof. intros. unfold names_of_chain. apply map_app. Qed.

Lemma path_ok_suffix : forall u w m chain (o : obs),
  o_disks o = disks_of u m -> o_dir o = dir_of u w ->
  NoDup u -> NoDup (names_of_chain chain) -> (forall d, In d (names_of_chain chain) -> In d u) ->
  linked (files w) chain ->
  (forall d, m_disks m d = option_map mb_disk (find_mb d chain)) ->
  (forall d, In d (names_of_chain chain) -> m_children m (Some d) = child_in d chain) ->
  forall suf pre, chain = pre ++ suf ->
    path_ok o (olast (names_of_chain pre)) (names_of_chain suf) = true.
Proof.
  intros u w m chain o Hod Hof Hu Hnd Hsub Hlink Hdisks Hchild.
  induction suf as [| x t IH]; intros pre Heq; [reflexivity |].
  cbn [names_of_chain map path_ok]. fold (names_of_chain t).
  assert (Hin : In x chain) by (rewrite Heq; apply in_or_app; right; left; reflexivity).
  assert (Hinn : In (mb_name x) (names_of_chain chain)) by (apply in_map; exact Hin).
  assert (Hxu : In (mb_name x) u) by (apply Hsub; exact Hinn).
  assert (Hmd : m_disks m (mb_name x) = Some (mb_disk x)) by (rewrite Hdisks, (find_mb_in _ _ Hnd Hin); reflexivity).
  rewrite Hod, disks_of_eq, (lookup_disk_entries u m u (mb_name x) (mb_disk x) Hxu Hmd).
  (* what the files hold *)
  assert (Hlx : linked (files w) (x :: t)) by (apply (linked_suffix (files w) pre); rewrite <- Heq; exact Hlink).
  cbn [linked] in Hlx. destruct Hlx as [Hmeta [[gn Himg] [Hpar _]]].
  rewrite Hpar.
  assert (Hp : odname_eqb (match t with y :: _ => Some (mb_name y) | [] => None end)
                          (match names_of_chain t with y :: _ => Some y | [] => None end) = true).
  { destruct t; cbn; [reflexivity | apply dname_eqb_refl]. }
  rewrite Hp. cbn [andb].
  (* the only child *)
  rewrite (Hchild _ Hinn), child_in_names.
  assert (Hnames : names_of_chain chain = names_of_chain pre ++ mb_name x :: names_of_chain t).
  { rewrite Heq, names_app. reflexivity. }
  rewrite Hnames, child_of_mid by (rewrite <- Hnames; exact Hnd).
  assert (Hch : list_eqb dname_eqb
            (filter (fun c => memd c (match olast (names_of_chain pre) with Some c0 => [c0] | None => [] end)) u)
            (match olast (names_of_chain pre) with Some c0 => [c0] | None => [] end) = true).
  { destruct (olast (names_of_chain pre)) as [c0 |] eqn:El.
    - rewrite filter_memd_single; [cbn; rewrite dname_eqb_refl; reflexivity | exact Hu |].
      apply Hsub. rewrite Hnames. apply in_or_app. left.
      clear -El. induction (names_of_chain pre) as [| a l IHl]; [discriminate |]. destruct l as [| b l']; [inversion El; left; reflexivity |].
      right. apply IHl. exact El.
    - rewrite filter_memd_nil. reflexivity. }
  rewrite Hch. cbn [andb].
  destruct (names_of_img u (mb_name x) Hxu) as [Hni Hnm].
  rewrite Hof, (lookup_dir u w _ Hni), (lookup_dir u w _ Hnm), Himg, Hmeta. cbn [option_map kind_of].
  rewrite disk_eqb_refl. cbn [andb].
  specialize (IH (pre ++ [x])). rewrite names_app in IH. cbn [names_of_chain map] in IH. rewrite olast_snoc in IH.
  apply IH. rewrite <- app_assoc. exact Heq.
Qed.

(** ** the members are pairwise different inodes *)

Lemma nodupb_true : forall l, NoDup l -> nodupb l = true.
Proof.
  induction l as [| x t IH]; intros H; [reflexivity |]. inversion H; subst. cbn [nodupb].
  rewrite memd_false by assumption. cbn. apply IH. assumption.
Qed.

Lemma linked_member : forall f l mb, linked f l -> In mb l ->
  f (Meta (mb_name mb)) = Some (IDisk (mb_disk mb)) /\ exists gn, f (Img (mb_name mb)) = Some (IImg (mb_id mb) gn).
Proof.
  intros f l mb. induction l as [| a t IH]; intros Hl Hin; [contradiction |]. cbn [linked] in Hl.
  destruct Hl as [H1 [H2 [_ H4]]]. destruct Hin as [E | Hin]; [subst a; split; assumption | apply IH; assumption].
Qed.

Lemma canon_same : forall u f id d, In d u -> same_inode f id d = true -> same_inode f id (canon_of u f id d) = true.
Proof.
  intros u f id d Hin Hs. unfold canon_of.
  destruct (filter (same_inode f id) u) as [| x t] eqn:E.
  - exfalso. assert (In d (filter (same_inode f id) u)) by (apply filter_In; split; assumption). rewrite E in H. contradiction.
  - assert (Hx : In x (filter (same_inode f id) u)) by (rewrite E; left; reflexivity). apply filter_In in Hx. apply Hx.
Qed.

Definition ino_id (f : name -> option ino) (c : dname) : N :=
  match f (Img c) with Some (IImg id _) => id | _ => 0%N end.

Lemma canons_nodup : forall u w chain (o : obs),
  o_dir o = dir_of u w ->
  (forall d, In d (names_of_chain chain) -> In d u) ->
  linked (files w) chain -> NoDup (map mb_id chain) ->
  nodupb (flat_map (fun d => match lookup_file (o_dir o) (Img d) with Some (KImg c _ _) => [c] | _ => [] end)
                   (names_of_chain chain)) = true.
Proof.
  intros u w chain o Hof Hsub Hlink Hids. apply nodupb_true. rewrite Hof.
  set (F := fun mb : member => canon_of u (files w) (mb_id mb) (mb_name mb)).
  assert (Hmap : forall ms, (forall mb, In mb ms -> In mb chain) ->
            flat_map (fun d => match lookup_file (dir_of u w) (Img d) with Some (KImg c _ _) => [c] | _ => [] end)
                     (names_of_chain ms) = map F ms).
  { induction ms as [| a t IH]; intros Hms; [reflexivity |]. cbn [names_of_chain map flat_map]. fold (names_of_chain t).
    assert (Ha : In a chain) by (apply Hms; left; reflexivity).
    destruct (linked_member _ _ _ Hlink Ha) as [_ [gn Hi]].
    assert (Hau : In (mb_name a) u) by (apply Hsub; apply in_map; exact Ha).
    rewrite (lookup_dir u w _ (proj1 (names_of_img u _ Hau))), Hi. cbn [option_map kind_of app].
    rewrite IH by (intros mb Hmb; apply Hms; right; exact Hmb). reflexivity. }
  rewrite (Hmap chain (fun mb H => H)).
  apply (NoDup_map_inv (ino_id (files w))). rewrite map_map.
  assert (Heq : map (fun x => ino_id (files w) (F x)) chain = map mb_id chain).
  { apply map_ext_in. intros mb Hmb. destruct (linked_member _ _ _ Hlink Hmb) as [_ [gn Hi]].
    assert (Hs : same_inode (files w) (mb_id mb) (mb_name mb) = true) by (unfold same_inode; rewrite Hi; apply N.eqb_refl).
    pose proof (canon_same u (files w) (mb_id mb) (mb_name mb) (Hsub _ (in_map mb_name _ _ Hmb)) Hs) as Hc.
    unfold same_inode in Hc. unfold ino_id, F. destruct (files w (Img (canon_of u (files w) (mb_id mb) (mb_name mb)))) as [[| | id' g' | |] |]; try discriminate.
    apply N.eqb_eq in Hc. symmetry. exact Hc. }
  rewrite Heq. exact Hids.
Qed.

(** ** the observation of a state of the invariant *)

Theorem wf_obs_observe : forall g u s r n,
  InvS g s -> NoDup u ->
  (forall v, recover g (s_fs s) = Some v -> forall d, In d (names_of_chain (cv_chain v)) -> In d u) ->
  wf_obs (observe g u s r n) = true.
Proof.
  intros g u [w om] r n Hinv Hu Hcov. destruct om as [m |]; [| reflexivity].
  destruct (InvS_ctx g w m Hinv) as [v Hctx].
  destruct (ctx_shape g w v m Hctx) as [hn [id0 [d0 [tl0 [c [Hchain [Hvh [Hmh [Hsnaps [Hnd [Hndi [Hvol [Hcnt [Hlink [Hlen [Hd0 Hpar]]]]]]]]]]]]]]]].
  pose proof (cx_rec _ _ _ _ Hctx) as Hrec. pose proof (cx_ag _ _ _ _ Hctx) as Hag.
  destruct Hag as [Hinfo [Hdisks [Hchild _]]].
  specialize (Hcov v Hrec). cbn [s_fs] in Hcov.
  unfold observe. cbn [s_mem s_fs]. rewrite (mchain_of_ctx g w v m Hctx).
  set (o := mkobs (class_of r) n (Some (m_mode m)) (Some (names_of_chain (cv_chain v))) (disks_of u m) (Some (m_info m))
                  (dir_of u w) (live_of g w m)).
  unfold wf_obs. change (o_mode o) with (Some (m_mode m)). change (o_chain o) with (Some (names_of_chain (cv_chain v))).
  change (o_info o) with (Some (m_info m)). cbv iota beta.
  rewrite (nodupb_true _ Hnd).
  rewrite (canons_nodup u w (cv_chain v) o eq_refl Hcov Hlink Hndi).
  assert (Hhd : match names_of_chain (cv_chain v) with h :: _ => odname_eqb (i_head (m_info m)) (Some h) | [] => false end = true).
  { rewrite Hchain. cbn [names_of_chain map mb_name]. rewrite Hmh. apply odname_eqb_refl. }
  rewrite Hhd.
  assert (Hlen' : Nat.eqb (length (o_disks o)) (length (names_of_chain (cv_chain v))) = true).
  { apply Nat.eqb_eq. change (o_disks o) with (disks_of u m). apply disks_of_length; [exact Hu | exact Hnd | exact Hcov |].
    intros d. rewrite Hdisks. split.
    - intros H. destruct (find_mb d (cv_chain v)) as [mb |] eqn:Hf; [| exfalso; apply H; reflexivity].
      destruct (find_mb_some_in _ _ _ Hf) as [Hi Hn]. rewrite <- Hn. apply in_map. exact Hi.
    - intros Hin. destruct (find_mb_some d (cv_chain v) Hin) as [mb Hf]. rewrite Hf. discriminate. }
  rewrite Hlen'.
  pose proof (path_ok_suffix u w m (cv_chain v) o eq_refl eq_refl Hu Hnd Hcov Hlink Hdisks Hchild (cv_chain v) [] eq_refl) as Hp.
  cbn [names_of_chain map olast] in Hp. fold (names_of_chain (cv_chain v)) in Hp. rewrite Hp.
  change (o_dir o) with (dir_of u w). rewrite (lookup_dir u w Vol (names_of_vol u)), Hvol. cbn [option_map kind_of].
  destruct Hinfo as [Hs [Hh _]]. rewrite Hh, Hs, odname_eqb_refl, N.eqb_refl. reflexivity.
Qed.

(** ** every observation of a model trace *)

(** the universe names every member of every chain of the run *)
Fixpoint covered (g : cfg) (u : list dname) (s : st) (os : list op) : Prop :=
  match os with
  | [] => True
  | o :: t =>
      let s1 := fst (fst (step g s o)) in
      (forall v, recover g (s_fs s1) = Some v -> forall d, In d (names_of_chain (cv_chain v)) -> In d u)
      /\ covered g u s1 t
  end.

Theorem wf_obs_trace : forall g u os s,
  cfg_ok g -> InvS g s -> ok_hist g s os -> NoDup u -> covered g u s os ->
  Forall (fun o => wf_obs o = true) (trace_ops g u s os).
Proof.
  intros g u os. induction os as [| o t IH]; intros s Hcfg Hinv Hok Hu Hcov; [constructor |].
  cbn [ok_hist] in Hok. destruct Hok as [Hstep Hrest]. cbn [covered] in Hcov. destruct Hcov as [Hc1 Hc2].
  pose proof (step_inv g s o Hcfg Hinv Hstep) as Hinv1.
  cbn [trace_ops]. destruct (step g s o) as [[s1 r] n] eqn:Es. cbn [fst] in *.
  constructor; [apply wf_obs_observe; assumption | apply IH; assumption].
Qed.

(** from the creation of the volume, as the checks run it: [OCreate size now :: os] from the empty directory *)
Corollary wf_obs_history : forall g u size now os,
  cfg_ok g -> size <> 0%N -> NoDup u ->
  ok_hist g (created g size now) os -> covered g u (created g size now) os ->
  (forall v, recover g (s_fs (created g size now)) = Some v -> forall d, In d (names_of_chain (cv_chain v)) -> In d u) ->
  Forall (fun o => wf_obs o = true) (trace_ops g u init (OCreate size now :: os)).
Proof.
  intros g u size now os Hcfg Hsz Hu Hok Hcov Hc0.
  pose proof (created_inv g size now Hcfg Hsz) as Hinv.
  cbn [trace_ops]. unfold created in *. destruct (step g init (OCreate size now)) as [[s1 r] n] eqn:Es. cbn [fst] in *.
  constructor; [apply wf_obs_observe; assumption | apply wf_obs_trace; assumption].
Qed.
