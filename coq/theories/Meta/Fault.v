(** * Meta: one failing file-system call (C08_fault_atomic).

    A run in which call number k fails is: the fault-free run up to the state before call k, then
    the fault-free run of that call's continuation applied to the error ([fexec_at]).  So everything
    proved about fault-free runs (Proofs.v) applies to the error continuations. *)
From Coq Require Import List ZArith NArith Bool Arith Lia.
From Jiva Require Import Meta.Model Meta.Corr Meta.Proofs.
Import ListNotations.

(** the errnos of C08's quantifier *)
Definition EE (e : errno) : Prop := e = ENOSPC \/ e = EIO.

(** a call the system-call trace shows (stat / close / pread are not system calls the checker can
    make fail; in the model they never get an injected error) *)
Definition traced (c : call) : bool := match sys_of_call c with [] => false | _ => true end.

(** the j-th step of the fault-free run: the call, its continuation, the directory before it *)
Fixpoint step_at {A} (p : prog A) (w : fs) (j : nat) : option (call * (reply -> prog A) * fs) :=
  match p with
  | Do c k =>
      match j with
      | O => Some (c, k, w)
      | S j' => let '(w1, r) := apply_call w c in step_at (k r) w1 j'
      end
  | _ => None
  end.

Definition ncalls {A} (p : prog A) (w : fs) : nat := length (fftr p w).

Definition fexec {A} (p : prog A) (w : fs) (cnt k : nat) (e : errno) := exec p w cnt None (Some (k, e)).

Lemma fexec_past : forall A (p : prog A) w cnt k e, k < cnt ->
  dir_of_run (fexec p w cnt k e) = fst (ff p w) /\ out_of_run (fexec p w cnt k e) = snd (ff p w).
Proof.
  unfold fexec. induction p as [a | x | c kk IH]; intros w cnt k e Hlt; cbn [exec ff hits fails]; auto.
  replace (Nat.eqb k cnt) with false by (symmetry; apply Nat.eqb_neq; lia).
  destruct (apply_call w c) as [w1 r]. specialize (IH r w1 (S cnt) k e (Nat.lt_lt_succ_r _ _ Hlt)).
  destruct (exec (kk r) w1 (S cnt) None (Some (k, e))) as [[w2 t] o]. exact IH.
Qed.

(** the faulty run = fault-free run of the error continuation from the state before the call *)
Lemma fexec_at : forall A (p : prog A) w cnt j e,
  match step_at p w j with
  | Some (c, kont, wk) =>
      dir_of_run (fexec p w cnt (cnt + j) e) = fst (ff (kont (RErr e)) wk)
      /\ out_of_run (fexec p w cnt (cnt + j) e) = snd (ff (kont (RErr e)) wk)
  | None =>
      dir_of_run (fexec p w cnt (cnt + j) e) = fst (ff p w)
      /\ out_of_run (fexec p w cnt (cnt + j) e) = snd (ff p w)
  end.
Proof.
  unfold fexec. induction p as [a | x | c kk IH]; intros w cnt j e; cbn [step_at]; try (cbn; auto).
  destruct j as [| j].
  - cbn [exec hits fails]. replace (cnt + 0) with cnt by lia. rewrite Nat.eqb_refl.
    pose proof (fexec_past _ (kk (RErr e)) w (S cnt) cnt e (Nat.lt_succ_diag_r cnt)) as [H1 H2]. unfold fexec in *.
    destruct (exec (kk (RErr e)) w (S cnt) None (Some (cnt, e))) as [[w2 t] o]. exact (conj H1 H2).
  - cbn [exec ff hits fails]. replace (Nat.eqb (cnt + S j) cnt) with false by (symmetry; apply Nat.eqb_neq; lia).
    destruct (apply_call w c) as [w1 r]. specialize (IH r w1 (S cnt) j e).
    replace (S cnt + j) with (cnt + S j) in IH by lia.
    destruct (step_at (kk r) w1 j) as [[[c' kont] wk] |];
      destruct (exec (kk r) w1 (S cnt) None (Some (cnt + S j, e))) as [[w2 t] o]; exact IH.
Qed.

Lemma step_at_bind : forall A B (p : prog A) (f : A -> prog B) w j,
  step_at (bind p f) w j =
  match step_at p w j with
  | Some (c, kont, wk) => Some (c, fun r => bind (kont r) f, wk)
  | None => match snd (ff p w) with
            | Done a => step_at (f a) (fst (ff p w)) (j - ncalls p w)
            | _ => None
            end
  end.
Proof.
  unfold ncalls. induction p as [a | x | c kk IH]; intros f w j; cbn [bind step_at ff fftr length snd fst].
  - rewrite Nat.sub_0_r. reflexivity.
  - reflexivity.
  - destruct j as [| j]; [reflexivity |]. destruct (apply_call w c) as [w1 r]. cbn [length]. apply IH.
Qed.

(** the state before any step is a state of the run *)
Lemma step_at_state : forall A (p : prog A) w j c kont wk,
  step_at p w j = Some (c, kont, wk) -> In wk (states p w).
Proof.
  induction p as [a | x | c kk IH]; intros w j c' kont wk H; cbn [step_at] in H; try discriminate.
  rewrite states_Do. destruct j as [| j].
  - inversion H; subst. left. reflexivity.
  - right. destruct (apply_call w c) as [w1 r]. eapply IH. exact H.
Qed.

(** ** the behaviour of one block when one of its traced calls fails (before any commit) *)

(** [errB S Q p w]: the state before each call differs from [w] only in [S]; when a traced call
    fails, what remains of the block changes only names in [S] and returns a value in [Q] — or the
    error is what the call returns anyway and nothing changes ([tolerated]) *)
Definition errB {A} (S : name -> Prop) (Q : A -> Prop) (p : prog A) (w : fs) : Prop :=
  forall j c kont wk e, step_at p w j = Some (c, kont, wk) -> traced c = true -> EE e ->
    only_on S w wk /\ (withinQ S Q (kont (RErr e)) \/ ff (kont (RErr e)) wk = ff p w).

Lemma errB_ret : forall A S (Q : A -> Prop) a w, errB S Q (Ret a) w.
Proof. intros A S Q a w j c kont wk e H. discriminate. Qed.

Lemma errB_weaken : forall A (S T : name -> Prop) (Q R : A -> Prop) p w,
  (forall n, S n -> T n) -> (forall a, Q a -> R a) -> errB S Q p w -> errB T R p w.
Proof.
  intros A S T Q R p w HST HQR H j c kont wk e Hs Ht He. destruct (H j c kont wk e Hs Ht He) as [H1 H2]. split.
  - intros n Hn. apply H1. intro; apply Hn; auto.
  - destruct H2 as [H2 | H2]; [left; eapply withinQ_weaken; eauto | right; exact H2].
Qed.

Lemma errB_bind : forall A B S (Q : A -> Prop) (R : B -> Prop) (p : prog A) (f : A -> prog B) w,
  errB S Q p w ->
  (forall b, Q b -> withinQ S R (f b)) ->
  (forall a, snd (ff p w) = Done a -> only_on S w (fst (ff p w)) /\ errB S R (f a) (fst (ff p w))) ->
  errB S R (bind p f) w.
Proof.
  intros A B S Q R p f w Hp Hq Hf j c kont wk e Hs Ht He. rewrite step_at_bind in Hs.
  destruct (step_at p w j) as [[[c' kont'] wk'] |] eqn:Hsp.
  - inversion Hs; subst c' wk'. subst kont. destruct (Hp j c kont' wk e Hsp Ht He) as [H1 H2]. split; [exact H1 |].
    destruct H2 as [H2 | H2].
    + left. eapply withinQ_bind; [exact H2 | exact Hq].
    + right. rewrite !ff_bind, H2. reflexivity.
  - destruct (snd (ff p w)) as [a | |] eqn:Ho; try discriminate.
    destruct (Hf a eq_refl) as [Hoo Hfa]. destruct (Hfa _ c kont wk e Hs Ht He) as [H1 H2]. split.
    + eapply only_on_trans; eassumption.
    + destruct H2 as [H2 | H2]; [left; exact H2 | right].
      rewrite H2, ff_bind. destruct (ff p w) as [w1 o]. cbn [snd fst] in *. subst o. reflexivity.
Qed.

(** one call in front of a block *)
Lemma errB_do : forall A S (Q : A -> Prop) c (k : reply -> prog A) w,
  (traced c = true -> forall e, EE e -> withinQ S Q (k (RErr e)) \/ ff (k (RErr e)) w = ff (Do c k) w) ->
  only_on S w (fst (apply_call w c)) ->
  errB S Q (k (snd (apply_call w c))) (fst (apply_call w c)) ->
  errB S Q (Do c k) w.
Proof.
  intros A S Q c k w H0 Hoo Hk j c' kont wk e Hs Ht He. cbn [step_at] in Hs. destruct j as [| j].
  - inversion Hs; subst. split; [apply only_on_refl | apply H0; assumption].
  - destruct (apply_call w c) as [w1 r] eqn:Hc. cbn [fst snd] in *.
    destruct (Hk j c' kont wk e Hs Ht He) as [H1 H2]. split; [eapply only_on_trans; eassumption |].
    destruct H2 as [H2 | H2]; [left; exact H2 | right]. rewrite H2. cbn [ff]. rewrite Hc. reflexivity.
Qed.

(** ** the building blocks *)

Definition notOk (e : res) : Prop := e <> Ok.

Lemma EE_not_enoent : forall e, EE e -> enoent_or_ok (RErr e) = false.
Proof. intros e [H | H]; subst; reflexivity. Qed.

Lemma errB_sync_dir : forall S w, errB S notOk sync_dir w.
Proof.
  intros S w. unfold sync_dir. apply errB_do.
  - intros _ e He. left. cbn. unfold notOk. discriminate.
  - cbn. apply only_on_refl.
  - cbn. apply errB_ret.
Qed.

Lemma errB_encode : forall g c n (S : name -> Prop) w,
  fixed g = true -> meta_name n -> meta_content c -> S (tmp_of n) -> S n ->
  errB S notOk (encode_to_file g c n) w.
Proof.
  intros g c n S w Hfx Hn Hc Ht Hs. destruct (meta_name_tmp n Hn) as [Hne Himg].
  assert (Hoo : forall w0 a v, S a -> only_on S w0 (set_file w0 a v)).
  { intros w0 a v Ha x Hx. apply set_file_neq. intro; subst; contradiction. }
  unfold encode_to_file. rewrite Hfx. destruct c; try contradiction.
  all: apply errB_do; [intros _ e He; left; cbn; unfold notOk; discriminate | cbn [apply_call fst]; rewrite Himg; apply Hoo; exact Ht |].
  all: cbn [apply_call fst snd]; rewrite Himg; cbn [fst snd is_err].
  all: apply errB_do; [intros _ e He; left; cbn; split; [intros n0 []| intros; unfold notOk; discriminate]
                      | cbn [apply_call fst]; rewrite set_file_eq; apply Hoo; exact Ht |].
  all: cbn [apply_call fst snd]; rewrite set_file_eq; cbn [fst snd is_err andb].
  all: apply errB_do; [intros Hx; discriminate | cbn; apply only_on_refl |].
  all: cbn [apply_call fst snd is_err].
  all: apply errB_do; [intros _ e He; left; cbn; unfold notOk; discriminate
                      | cbn [apply_call fst]; rewrite set_file_eq; cbn [fst];
                        eapply only_on_trans; apply Hoo; assumption |].
  all: cbn [apply_call fst snd]; rewrite set_file_eq; cbn [fst snd is_err].
  all: apply errB_sync_dir.
Qed.

Lemma errB_rm_disk : forall x (S : name -> Prop) w, S (Img x) -> S (Meta x) -> errB S notOk (rm_disk (Some x)) w.
Proof.
  intros x S w H1 H2. unfold rm_disk.
  assert (Hoo : forall w0 a, S a -> only_on S w0 (fst (apply_call w0 (CUnlink a)))).
  { intros w0 a Ha. cbn. destruct (files w0 a); cbn; [| apply only_on_refl]. intros y Hy. apply set_file_neq. intro; subst; contradiction. }
  apply errB_do; [intros _ e He; left; rewrite (EE_not_enoent e He); cbn; unfold notOk; discriminate | apply Hoo; exact H1 |].
  assert (Hr : forall w0 a, enoent_or_ok (snd (apply_call w0 (CUnlink a))) = true).
  { intros w0 a. cbn. destruct (files w0 a); reflexivity. }
  rewrite Hr. cbn [negb].
  apply errB_do; [intros _ e He; left; rewrite (EE_not_enoent e He); cbn; unfold notOk; discriminate | apply Hoo; exact H2 |].
  rewrite Hr. cbn [negb]. apply errB_sync_dir.
Qed.

Lemma errB_untraced : forall A S (Q : A -> Prop) c (k : reply -> prog A) w,
  traced c = false -> fst (apply_call w c) = w ->
  errB S Q (k (snd (apply_call w c))) w -> errB S Q (Do c k) w.
Proof.
  intros A S Q c k w Ht Hw Hk. apply errB_do; [intros Hx; congruence | rewrite Hw; apply only_on_refl | rewrite Hw; exact Hk].
Qed.

Lemma stat_same : forall w n, fst (apply_call w (CStat n)) = w.
Proof. intros w n. cbn. destruct (files w n) as [[] |]; reflexivity. Qed.

Lemma errB_link_disk : forall o nw (S : name -> Prop) w,
  S (Img nw) -> S (Meta nw) -> errB S notOk (link_disk (Some o) (Some nw)) w.
Proof.
  intros o nw S w H1 H2. unfold link_disk.
  apply errB_untraced; [reflexivity | apply stat_same |].
  destruct (negb (is_err (snd (apply_call w (CStat (Img nw)))))); [apply errB_ret |].
  apply errB_untraced; [reflexivity | apply stat_same |].
  destruct (negb (is_err (snd (apply_call w (CStat (Meta nw)))))); [apply errB_ret |].
  assert (Hoo : forall w0 a b, S b -> only_on S w0 (fst (apply_call w0 (CLink a b)))).
  { intros w0 a b Hb. cbn. destruct (files w0 a); [| apply only_on_refl]. destruct (files w0 b); [apply only_on_refl |].
    intros y Hy. apply set_file_neq. intro; subst; contradiction. }
  apply errB_do; [intros _ e He; left; cbn; unfold notOk; discriminate | apply Hoo; exact H1 |].
  destruct (is_err (snd (apply_call w (CLink (Img o) (Img nw))))); [apply errB_ret |].
  apply errB_do; [intros _ e He; left; cbn; unfold notOk; discriminate | apply Hoo; exact H2 |].
  destruct (is_err _); [apply errB_ret | apply errB_sync_dir].
Qed.

Lemma errB_get_rev : forall S (Q : Z -> Prop) w, errB S Q get_rev w.
Proof.
  intros S Q w. unfold get_rev. apply errB_untraced; [reflexivity | cbn; destruct (files w Counter) as [[] |]; reflexivity |].
  destruct (snd (apply_call w CPreadCounter)) as [| | | [] |]; apply errB_ret.
Qed.

(** createNewHead *)
Definition Qcnh (nh : dname) (t : option dname * disk * res) : Prop :=
  snd t <> Ok /\ (fst (fst t) = None \/ fst (fst t) = Some nh).

Lemma errB_open_file_trunc : forall n (S : name -> Prop) w,
  files w n = None -> S n -> errB S (fun b => b = false) (open_file_trunc n) w.
Proof.
  intros n S w Habs Hs. unfold open_file_trunc. apply errB_do.
  - intros _ e He. right. cbn [ff apply_call]. rewrite Habs. reflexivity.
  - cbn. rewrite Habs. apply only_on_refl.
  - cbn [apply_call]. rewrite Habs. cbn [fst snd is_err]. apply errB_do.
    + intros _ e He. left. cbn. reflexivity.
    + intros x Hx. apply apply_call_frame. cbn. intros [E | []]. subst. contradiction.
    + apply errB_ret.
Qed.

Lemma errB_cnh_rest : forall g m nh par cr (S : name -> Prop) w,
  fixed g = true -> files w (Img nh) = None -> S (Img nh) -> S (Meta nh) -> S (MetaTmp nh) ->
  errB S (Qcnh nh) (cnh_rest g m nh par cr) w.
Proof.
  intros g m nh par cr S w Hfx Habs H1 H2 H3. unfold cnh_rest.
  assert (Hfail : Qcnh nh (None, nodisk, Failed)) by (split; cbn; [discriminate | auto]).
  eapply errB_bind; [apply errB_open_file_trunc; assumption | |].
  - intros b Hb. cbn beta in Hb. rewrite Hb. cbn. exact Hfail.
  - intros okf Hok. split.
    + apply within_ff. apply withinQ_within with (Q := fun _ => True). apply wq_open_file_trunc; auto.
    + destruct (negb okf); [apply errB_ret |]. apply errB_do.
      * intros _ e He. left. cbn. exact Hfail.
      * intros x Hx. apply apply_call_frame. cbn. tauto.
      * destruct (is_err _); [apply errB_ret |].
        eapply errB_bind; [apply errB_get_rev with (Q := fun _ => False) | intros b [] |].
        intros rv Hrv. split.
        { apply within_ff. apply withinQ_within with (Q := fun _ => True). apply wq_get_rev. auto. }
        eapply errB_bind; [apply errB_encode; try assumption; cbn; auto; right; eexists; reflexivity | |].
        { intros b Hb. cbn. split; cbn; auto. }
        { intros e0 He0. split; [| apply errB_ret].
          apply within_ff. apply withinQ_within with (Q := fun _ => True). apply wq_encode; cbn; auto. }
Qed.

Lemma errB_create_new_head : forall g m n par cr (S : name -> Prop) w,
  fixed g = true ->
  S (Img (Head (Datatypes.S n))) -> S (Meta (Head (Datatypes.S n))) -> S (MetaTmp (Head (Datatypes.S n))) ->
  errB S (Qcnh (Head (Datatypes.S n))) (create_new_head g m (Some (Head n)) par cr) w.
Proof.
  intros g m n par cr S w Hfx H1 H2 H3. rewrite create_new_head_unfold. set (nh := Head (Datatypes.S n)) in *.
  assert (Hfail : Qcnh nh (None, nodisk, Failed)) by (split; cbn; [discriminate | auto]).
  apply errB_untraced; [reflexivity | apply stat_same |].
  destruct (files w (Img nh)) as [ci |] eqn:Hi.
  2:{ cbn [apply_call]. rewrite Hi. cbn [snd is_err]. apply errB_cnh_rest; assumption. }
  assert (Hne : is_err (snd (apply_call w (CStat (Img nh)))) = false) by (cbn; rewrite Hi; destruct ci; reflexivity).
  rewrite Hne. apply errB_untraced; [reflexivity | apply stat_same |].
  destruct (snd (apply_call w (CStat (Img nh)))) as [| | [] | |]; try apply errB_ret.
  all: eapply errB_bind; [apply errB_rm_disk; assumption | intros b Hb; destruct b; [exfalso; apply Hb; reflexivity | cbn; exact Hfail | cbn; exact Hfail] |].
  all: intros a Ha; destruct (rm_disk_ff w nh) as [w0 [Hff [K1 [K2 [K3 K4]]]]]; rewrite Hff in *; cbn [fst snd] in *; inversion Ha; subst a.
  all: split; [intros x Hx; apply K3; intro; subst x; contradiction | cbn [is_ok res_eqb]; apply errB_cnh_rest; assumption].
Qed.

(** ** operations: the outcome when one call fails *)

(** the directory left recovers to the old or the new view (up to [veq]); the new one when success is returned *)
Definition FOut (g : cfg) (v vpost : chainview) (x : fs * outcome (mem * res)) : Prop :=
  exists vk, recover g (fst x) = Some vk /\ (veq vk v \/ veq vk vpost)
             /\ (forall m', snd x = Done (m', Ok) -> veq vk vpost).

Definition notOkR (a : mem * res) : Prop := snd a <> Ok.

(** [FA g v vpost ex p w]: whichever traced call of [p] (run from [w]) fails, except those at an
    index in [ex], the outcome is [FOut] *)
Definition FA (g : cfg) (v vpost : chainview) (ex : nat -> Prop) (p : prog (mem * res)) (w : fs) : Prop :=
  forall j c kont wk e, step_at p w j = Some (c, kont, wk) -> traced c = true -> EE e -> ~ ex j ->
    FOut g v vpost (ff (kont (RErr e)) wk).

Lemma step_at_none_ge : forall A (p : prog A) w j, step_at p w j = None -> ncalls p w <= j.
Proof.
  unfold ncalls. induction p as [a | x | c kk IH]; intros w j H; cbn [step_at fftr length] in *; try lia.
  destruct j as [| j]; [discriminate |]. destruct (apply_call w c) as [w1 r]. cbn [length]. specialize (IH r w1 j H). lia.
Qed.

(** a block that fails before any commit, in front of the rest of the operation *)
Lemma FA_bind : forall g v vpost ex A (S : name -> Prop) (Q : A -> Prop) (p : prog A) (f : A -> prog (mem * res)) w0 w,
  recover g w0 = Some v -> (forall n, S n -> ~ footprint (cv_chain v) n) -> only_on S w0 w ->
  errB S Q p w ->
  (forall b, Q b -> withinQ S notOkR (f b)) ->
  FOut g v vpost (ff (bind p f) w) ->
  (forall a, snd (ff p w) = Done a ->
     only_on S w (fst (ff p w)) /\ FA g v vpost (fun j => ex (j + ncalls p w)) (f a) (fst (ff p w))) ->
  FA g v vpost ex (bind p f) w.
Proof.
  intros g v vpost ex A S Q p f w0 w Hrec Hdis Hoo Hp Hq Hff Hf j c kont wk e Hs Ht He Hex.
  rewrite step_at_bind in Hs. destruct (step_at p w j) as [[[c' kont'] wk'] |] eqn:Hsp.
  - inversion Hs; subst c' wk'. subst kont. destruct (Hp j c kont' wk e Hsp Ht He) as [H1 H2].
    destruct H2 as [H2 | H2].
    + assert (Hw : withinQ S notOkR (bind (kont' (RErr e)) f)) by (eapply withinQ_bind; [exact H2 | exact Hq]).
      exists v. split; [| split; [left; apply veq_refl |]].
      * eapply recover_only_on; [exact Hrec | | exact Hdis].
        eapply only_on_trans; [exact Hoo |]. eapply only_on_trans; [exact H1 |].
        apply within_ff. eapply withinQ_within. exact Hw.
      * intros m' Hd. exfalso. apply (withinQ_ff _ _ _ _ wk (m', Ok) Hw Hd). reflexivity.
    + rewrite ff_bind, H2, <- ff_bind. exact Hff.
  - destruct (snd (ff p w)) as [a | |] eqn:Ho; try discriminate.
    destruct (Hf a eq_refl) as [Hoo1 Hfa]. pose proof (step_at_none_ge _ p w j Hsp) as Hge.
    apply (Hfa _ c kont wk e Hs Ht He). replace (j - ncalls p w + ncalls p w) with j by lia. exact Hex.
Qed.

(** a final part that fails before any commit *)
Lemma FA_errB : forall g v vpost ex (S : name -> Prop) (p : prog (mem * res)) w0 w,
  recover g w0 = Some v -> (forall n, S n -> ~ footprint (cv_chain v) n) -> only_on S w0 w ->
  errB S notOkR p w -> FOut g v vpost (ff p w) -> FA g v vpost ex p w.
Proof.
  intros g v vpost ex S p w0 w Hrec Hdis Hoo Hp Hff j c kont wk e Hs Ht He _.
  destruct (Hp j c kont wk e Hs Ht He) as [H1 [H2 | H2]].
  - exists v. split; [| split; [left; apply veq_refl |]].
    + eapply recover_only_on; [exact Hrec | | exact Hdis].
      eapply only_on_trans; [exact Hoo |]. eapply only_on_trans; [exact H1 |]. apply within_ff. eapply withinQ_within. exact H2.
    + intros m' Hd. exfalso. apply (withinQ_ff _ _ _ _ wk (m', Ok) H2 Hd). reflexivity.
  - rewrite H2. exact Hff.
Qed.

Lemma FA_ret : forall g v vpost ex a w, FA g v vpost ex (Ret a) w.
Proof. intros g v vpost ex a w j c kont wk e H. discriminate. Qed.

(** the theorem about [exec] with [fail_at] that [FA] gives *)
Definition call_at {A} (p : prog A) (w : fs) (j : nat) : option call :=
  match step_at p w j with Some (c, _, _) => Some c | None => None end.

Theorem FA_exec : forall g v vpost ex (p : prog (mem * res)) w k e,
  FA g v vpost ex p w -> FOut g v vpost (ff p w) -> EE e ->
  (forall c, call_at p w k = Some c -> traced c = true /\ ~ ex k) ->
  FOut g v vpost (dir_of_run (fexec p w 0 k e), out_of_run (fexec p w 0 k e)).
Proof.
  intros g v vpost ex p w k e Hfa Hff He Hc. pose proof (fexec_at _ p w 0 k e) as H. cbn [plus] in H.
  unfold call_at in Hc. destruct (step_at p w k) as [[[c kont] wk] |] eqn:Hs.
  - destruct H as [H1 H2]. destruct (Hc c eq_refl) as [Ht Hex].
    pose proof (Hfa k c kont wk e Hs Ht He Hex) as Hout. rewrite H1, H2. rewrite <- surjective_pairing. exact Hout.
  - destruct H as [H1 H2]. rewrite H1, H2, <- surjective_pairing. exact Hff.
Qed.

Lemma wq_cleanup : forall nh sn (m' : mem) e, e <> Ok -> withinQ (snap_S1 nh sn) notOkR (cd_cleanup nh (Some sn) m' e).
Proof.
  intros nh sn m' e He. unfold cd_cleanup.
  eapply withinQ_bind; [apply wq_rm_disk with (Q := fun _ => True); [intros x Hx; inversion Hx; subst; unfold snap_S1; cbn; auto 10 | auto] |].
  intros _ _. eapply withinQ_bind; [apply wq_rm_disk with (Q := fun _ => True); [intros x Hx; inversion Hx; subst; unfold snap_S1; cbn; auto 10 | auto] |].
  intros _ _. cbn. exact He.
Qed.

(** the steps of encodeToFile one by one *)
Lemma encode_steps : forall g c0 n w j c kont wk,
  fixed g = true -> meta_name n -> meta_content c0 ->
  step_at (encode_to_file g c0 n) w j = Some (c, kont, wk) ->
  (j <= 3 /\ only_on (eq (tmp_of n)) w wk
   /\ forall e, withinQ (eq (tmp_of n)) (eq Failed) (kont (RErr e)) /\ ff (kont (RErr e)) wk = (wk, Done Failed))
  \/ (j = 4 /\ c = CFsyncDir /\ wk = enc_fs w n c0 /\ forall e, kont (RErr e) = Ret Failed).
Proof.
  intros g c0 n w j c kont wk Hfx Hn Hc Hs. destruct (meta_name_tmp n Hn) as [Hne Himg].
  assert (Hoo : forall v1 v2, only_on (eq (tmp_of n)) w (set_file (set_file w (tmp_of n) v1) (tmp_of n) v2)).
  { intros v1 v2 x Hx. rewrite !set_file_neq; auto. }
  assert (Hoo1 : forall v1, only_on (eq (tmp_of n)) w (set_file w (tmp_of n) v1)).
  { intros v1 x Hx. rewrite !set_file_neq; auto. }
  unfold encode_to_file in Hs. rewrite Hfx in Hs.
  destruct c0; try contradiction;
  (destruct j as [| [| [| [| [| j]]]]]; cbn [step_at apply_call] in Hs; rewrite ?Himg in Hs; cbn [step_at apply_call is_err andb] in Hs;
   rewrite ?set_file_eq in Hs; cbn [step_at apply_call is_err andb sync_dir] in Hs; rewrite ?set_file_eq in Hs;
   cbn [step_at apply_call is_err andb sync_dir] in Hs; try discriminate; inversion Hs; subst;
   first [ right; split; [reflexivity | split; [reflexivity | split; [reflexivity | intros; reflexivity]]]
         | left; split; [lia | split; [first [apply only_on_refl | apply Hoo1 | apply Hoo] |]];
           intros e; split; [cbn; first [reflexivity | split; [intros ? [] | intros; reflexivity]] | reflexivity] ]).
Qed.

Lemma encode_calls_3_4 : forall g c0 n w, fixed g = true -> meta_name n -> meta_content c0 ->
  call_at (encode_to_file g c0 n) w 3 = Some (CRename (tmp_of n) n) /\ call_at (encode_to_file g c0 n) w 4 = Some CFsyncDir
  /\ ncalls (encode_to_file g c0 n) w = 5.
Proof.
  intros g c0 n w Hfx Hn Hc. destruct (meta_name_tmp n Hn) as [Hne Himg].
  unfold call_at, ncalls, encode_to_file. rewrite Hfx. destruct c0; try contradiction;
    cbn [step_at fftr apply_call]; rewrite Himg; cbn [step_at fftr apply_call is_err andb]; rewrite set_file_eq;
    cbn [step_at fftr apply_call is_err andb]; rewrite set_file_eq; cbn [step_at fftr apply_call is_err andb sync_dir length]; auto.
Qed.

(** the commit stage of createDisk under one failing call ([fix_commit g = false]: the code as it
    is); local index 4 — the directory sync that follows the rename of volume.meta — is excluded *)
Lemma FA_cd_commit : forall g w0 w3 v ma n s nd rec idn id0 d0 tl gn (ex : nat -> Prop),
  let nh := Head (S n) in let sn := Snap s in let oh := Head n in
  fixed g = true -> fix_commit g = false ->
  recover g w0 = Some v -> only_on (snap_S1 nh sn) w0 w3 ->
  cv_chain v = mkmember oh id0 d0 :: tl ->
  Forall (fun mb => is_snap (mb_name mb)) tl ->
  NoDup (names_of_chain (cv_chain v)) ->
  ~ In sn (names_of_chain (cv_chain v)) ->
  S (length (cv_chain v)) <= maxlen g ->
  files w3 (Meta nh) = Some (IDisk nd) -> files w3 (Img nh) = Some (IImg idn 0) ->
  files w3 (Meta sn) = Some (IDisk rec) -> files w3 (Img sn) = Some (IImg id0 gn) ->
  d_parent nd = Some sn -> d_parent rec = d_parent d0 ->
  ex 4 ->
  let mc := cd_memc ma (Some oh) nh in
  let info' := set_head_info (m_info mc) (Some nh) true (Some sn) (d_rev nd) in
  let vpost := mkview info' (mkmember nh idn nd :: mkmember sn id0 rec :: tl) in
  FA g v vpost ex (cd_commit g ma (Some oh) (Some sn) nh nd) w3.
Proof.
  intros g w0 w3 v ma n s nd rec idn id0 d0 tl gn ex nh sn oh Hfx Hfc Hrec0 Hoo3 Hchain Hsnaps Hnd Hsn Hlen
         Hmnh Hinh Hmsn Hisn Hpnd Hprec Hex4 mc info' vpost.
  assert (Hnh : ~ In nh (names_of_chain (cv_chain v))).
  { rewrite Hchain. cbn. intros [H | H]; [inversion H; lia | exact (snap_not_head tl (S n) Hsnaps H)]. }
  assert (Hdis : forall x, snap_S1 nh sn x -> ~ footprint (cv_chain v) x).
  { intros x Hx. exact (snap_S1_disjoint _ nh sn x Hnh Hsn Hx). }
  assert (Hrec3 : recover g w3 = Some v) by (eapply recover_only_on; eauto).
  destruct (cd_commit_spec g w3 v ma n s nd rec idn id0 d0 tl gn Hrec3 Hchain Hsnaps Hnd Hsn Hlen Hmnh Hinh Hmsn Hisn Hpnd Hprec)
    as [w5 [Hff5 [Hrec5 _]]]. fold mc info' vpost in Hff5, Hrec5.
  set (w4 := enc_fs w3 Vol (IVol info')).
  intros j c kont wk e Hs Ht He Hexj. unfold cd_commit in Hs. fold mc info' in Hs. rewrite Hfc in Hs.
  rewrite step_at_bind in Hs.
  destruct (step_at (encode_to_file g (IVol info') Vol) w3 j) as [[[c' kont'] wk'] |] eqn:Hse.
  - inversion Hs; subst c' wk'. subst kont.
    destruct (encode_steps g (IVol info') Vol w3 j c kont' wk Hfx (or_introl eq_refl) I Hse) as [[Hj [Hoow Hkw]] | [Hj _]].
    + (* before the commit: the error exit and the clean-up only touch the new names *)
      assert (Hw : withinQ (snap_S1 nh sn) notOkR
                     (bind (kont' (RErr e)) (fun e5 => if negb (is_ok e5) then cd_cleanup nh (Some sn) mc e5
                                                         else _ <- rm_disk (Some oh);; Ret (set_info mc info', Ok)))).
      { eapply withinQ_bind with (Q := eq Failed).
        - apply withinQ_weaken with (S := eq VolTmp) (Q := eq Failed);
            [intros x Hx; rewrite <- Hx; unfold snap_S1; cbn; auto 10 | auto | apply (proj1 (Hkw e))].
        - intros e5 He5. rewrite <- He5. cbn [is_ok res_eqb negb]. apply wq_cleanup. discriminate. }
      exists v. split; [| split; [left; apply veq_refl |]].
      * eapply recover_only_on; [exact Hrec3 | | exact Hdis].
        eapply only_on_trans; [| apply within_ff; eapply withinQ_within; exact Hw].
        intros x Hx. apply Hoow. intro E. apply Hx. rewrite <- E. unfold snap_S1; cbn; auto 10.
      * intros m' Hd. exfalso. apply (withinQ_ff _ _ _ _ wk (m', Ok) Hw Hd). reflexivity.
    + subst j. contradiction.
  - (* after the commit: only the old head's two names can still change *)
    rewrite ff_encode in Hs by (cbn; auto; left; reflexivity). cbn [snd fst is_ok res_eqb negb] in Hs. fold w4 in Hs.
    rewrite step_at_bind in Hs.
    destruct (step_at (rm_disk (Some oh)) w4 (j - ncalls (encode_to_file g (IVol info') Vol) w3)) as [[[c' kont'] wk'] |] eqn:Hsr.
    2:{ destruct (snd (ff (rm_disk (Some oh)) w4)); discriminate. }
    inversion Hs; subst c' wk'. subst kont.
    assert (HS2 : forall x, In x [Img oh; Meta oh] -> ~ footprint (cv_chain vpost) x).
    { intros x Hx Hf. subst vpost. cbn [cv_chain] in Hf.
      assert (Hno : ~ In oh (names_of_chain (mkmember nh idn nd :: mkmember sn id0 rec :: tl))).
      { cbn. intros [H | [H | H]]; [inversion H; lia | discriminate | exact (snap_not_head tl n Hsnaps H)]. }
      cbn in Hx. destruct Hx as [Hx | [Hx | []]]; subst x; [apply footprint_img in Hf | apply footprint_meta in Hf]; exact (Hno Hf). }
    assert (Hrec4 : recover g w4 = Some vpost).
    { (* the fault-free tail changes only those two names too *)
      eapply recover_frame; [exact Hrec5 |]. intros x Hx.
      assert (Hw5 : only_on (fun y => In y [Img oh; Meta oh]) w4 w5).
      { assert (Hwq : within (fun y => In y [Img oh; Meta oh]) (_ <- rm_disk (Some oh);; Ret (set_info mc info', Ok))).
        { apply withinQ_within with (Q := fun _ => True). eapply withinQ_bind; [apply wq_rm_disk with (Q := fun _ => True); [| auto] |].
          - intros y Hy. inversion Hy; subst. cbn. auto.
          - intros; exact I. }
        pose proof (within_ff _ _ _ w4 Hwq) as Hq.
        assert (Heq : fst (ff (cd_commit g ma (Some oh) (Some sn) nh nd) w3) = w5) by (exact (f_equal fst Hff5)).
        unfold cd_commit in Heq. rewrite Hfc in Heq. rewrite ff_bind, ff_encode in Heq by (cbn; auto; left; reflexivity).
        cbn [is_ok res_eqb negb] in Heq. rewrite <- Heq. exact Hq. }
      symmetry. apply Hw5. intro Hin. exact (HS2 x Hin Hx). }
    destruct (errB_rm_disk oh (fun y => In y [Img oh; Meta oh]) w4 (or_introl eq_refl) (or_intror (or_introl eq_refl)) _ c kont' wk e Hsr Ht He)
      as [Hoow [Hkw | Hkw]].
    + assert (Hw : within (fun y => In y [Img oh; Meta oh]) (bind (kont' (RErr e)) (fun _ => Ret (set_info mc info', Ok)))).
      { apply withinQ_within with (Q := fun _ => True). eapply withinQ_bind; [exact Hkw | intros; exact I]. }
      exists vpost. split; [| split; [right; apply veq_refl | intros; apply veq_refl]].
      eapply recover_only_on; [exact Hrec4 | | exact HS2].
      eapply only_on_trans; [exact Hoow | apply within_ff; exact Hw].
    + exists vpost. split; [| split; [right; apply veq_refl | intros; apply veq_refl]].
      rewrite ff_bind, Hkw, <- ff_bind.
      assert (Heq : fst (ff (cd_commit g ma (Some oh) (Some sn) nh nd) w3) = w5) by (exact (f_equal fst Hff5)).
      unfold cd_commit in Heq. rewrite Hfc in Heq. rewrite ff_bind, ff_encode in Heq by (cbn; auto; left; reflexivity).
      cbn [is_ok res_eqb negb] in Heq. rewrite <- Heq in Hrec5. exact Hrec5.
Qed.

(** ** the excluded shape (finding createdisk-sync-after-commit): the failing call is the directory
    sync that immediately follows rename(volume.meta.tmp, volume.meta) *)
Definition f11_at {A} (p : prog A) (w : fs) (j : nat) : Prop :=
  call_at p w j = Some CFsyncDir /\ exists j', j = S j' /\ call_at p w j' = Some (CRename VolTmp Vol).

Lemma FA_mono : forall g v vpost (ex1 ex2 : nat -> Prop) p w,
  (forall j, ex1 j -> ex2 j) -> FA g v vpost ex1 p w -> FA g v vpost ex2 p w.
Proof. intros g v vpost ex1 ex2 p w H Hfa j c kont wk e Hs Ht He Hex. apply (Hfa j c kont wk e Hs Ht He). intro E. apply Hex. auto. Qed.

Lemma step_at_ge : forall A (p : prog A) w j, ncalls p w <= j -> step_at p w j = None.
Proof.
  unfold ncalls. induction p as [a | x | c kk IH]; intros w j H; cbn [step_at fftr length] in *; try reflexivity.
  destruct (apply_call w c) as [w1 r]. cbn [length] in H. destruct j as [| j]; [lia |]. apply IH. lia.
Qed.

Lemma call_at_bind_ge : forall A B (p : prog A) (f : A -> prog B) w a j,
  snd (ff p w) = Done a -> call_at (bind p f) w (j + ncalls p w) = call_at (f a) (fst (ff p w)) j.
Proof.
  intros A B p f w a j Ha. unfold call_at. rewrite step_at_bind, (step_at_ge _ p w (j + ncalls p w)) by lia.
  rewrite Ha. replace (j + ncalls p w - ncalls p w) with j by lia. reflexivity.
Qed.

Lemma call_at_bind_lt : forall A B (p : prog A) (f : A -> prog B) w j c,
  call_at p w j = Some c -> call_at (bind p f) w j = Some c.
Proof.
  intros A B p f w j c H. unfold call_at in *. rewrite step_at_bind.
  destruct (step_at p w j) as [[[c' k'] w'] |]; [exact H | discriminate].
Qed.

Lemma f11_shift : forall A B (p : prog A) (f : A -> prog B) w a j,
  snd (ff p w) = Done a -> f11_at (f a) (fst (ff p w)) j -> f11_at (bind p f) w (j + ncalls p w).
Proof.
  intros A B p f w a j Ha [H1 [j' [Hj H2]]]. split.
  - rewrite (call_at_bind_ge _ _ p f w a j Ha). exact H1.
  - exists (j' + ncalls p w). split; [lia |]. rewrite (call_at_bind_ge _ _ p f w a j' Ha). exact H2.
Qed.

Lemma f11_shift_do : forall A c (k : reply -> prog A) w j,
  f11_at (k (snd (apply_call w c))) (fst (apply_call w c)) j -> f11_at (Do c k) w (S j).
Proof.
  intros A c k w j [H1 [j' [Hj H2]]]. unfold f11_at, call_at in *. cbn [step_at].
  destruct (apply_call w c) as [w1 r]. cbn [fst snd] in *. split; [exact H1 |].
  exists (S j'). split; [lia |]. cbn [step_at]. exact H2.
Qed.

(** [FA] with its own excluded shape, through a failing-before-commit block *)
Lemma FA11_bind : forall g v vpost A (S : name -> Prop) (Q : A -> Prop) (p : prog A) (f : A -> prog (mem * res)) w0 w,
  recover g w0 = Some v -> (forall n, S n -> ~ footprint (cv_chain v) n) -> only_on S w0 w ->
  errB S Q p w ->
  (forall b, Q b -> withinQ S notOkR (f b)) ->
  FOut g v vpost (ff (bind p f) w) ->
  (forall a, snd (ff p w) = Done a ->
     only_on S w (fst (ff p w)) /\ FA g v vpost (f11_at (f a) (fst (ff p w))) (f a) (fst (ff p w))) ->
  FA g v vpost (f11_at (bind p f) w) (bind p f) w.
Proof.
  intros g v vpost A S Q p f w0 w Hrec Hdis Hoo Hp Hq Hff Hf.
  eapply FA_bind; try eassumption. intros a Ha. destruct (Hf a Ha) as [H1 H2]. split; [exact H1 |].
  eapply FA_mono; [| exact H2]. intros j Hj. apply (f11_shift _ _ p f w a j Ha Hj).
Qed.

(** ** Snapshot (createDisk) *)

Lemma errB_cleanup : forall nh sn (m' : mem) e w, e <> Ok -> errB (snap_S1 nh sn) notOkR (cd_cleanup nh (Some sn) m' e) w.
Proof.
  intros nh sn m' e w He. unfold cd_cleanup.
  assert (Hin : forall x, In x [Img nh; Meta nh; Img sn; Meta sn] -> snap_S1 nh sn x).
  { intros x Hx. unfold snap_S1. cbn in *. intuition. }
  eapply errB_bind; [apply errB_rm_disk; apply Hin; cbn; auto | |].
  - intros b Hb. eapply withinQ_bind; [apply wq_rm_disk with (Q := fun _ => True); [intros x Hx; inversion Hx; subst; split; apply Hin; cbn; auto | auto] |].
    intros _ _. cbn. exact He.
  - intros a Ha. split.
    + apply within_ff. apply withinQ_within with (Q := fun _ => True). apply wq_rm_disk; [| auto].
      intros x Hx. inversion Hx; subst. split; apply Hin; cbn; auto.
    + eapply errB_bind; [apply errB_rm_disk; apply Hin; cbn; auto | intros b Hb; cbn; exact He |].
      intros a2 Ha2. split; [| apply errB_ret].
      apply within_ff. apply withinQ_within with (Q := fun _ => True). apply wq_rm_disk; [| auto].
      intros x Hx. inversion Hx; subst. split; apply Hin; cbn; auto.
Qed.

Lemma errB_cd_snapmeta : forall g m oh sn nh nd user cr w,
  fixed g = true ->
  errB (snap_S1 nh sn) notOkR (cd_snapmeta g m (Some oh) (Some sn) nh nd user cr) w.
Proof.
  intros g m oh sn nh nd user cr w Hfx. unfold cd_snapmeta.
  eapply errB_bind; [apply errB_get_rev with (Q := fun _ => False) | intros b [] |].
  intros rv Hrv. split.
  { apply within_ff. apply withinQ_within with (Q := fun _ => True). apply wq_get_rev. auto. }
  destruct (m_disks (cd_mem2 m nh nd sn) oh) as [x |]; [| intros j c kont wk e H; discriminate].
  eapply errB_bind; [apply errB_encode; try assumption; [right; eexists; reflexivity | exact I | |]; unfold snap_S1; cbn; auto 10 | |].
  - intros b Hb. destruct b; [exfalso; apply Hb; reflexivity | |]; cbn; unfold notOkR; cbn; discriminate.
  - intros e0 He0. split.
    + apply within_ff. apply withinQ_within with (Q := fun _ => True). apply wq_encode; unfold snap_S1; cbn; auto 10.
    + destruct (negb (is_ok e0)); apply errB_ret.
Qed.

Lemma FOut_of_ff : forall g v vpost (p : prog (mem * res)) w w' m' r,
  ff p w = (w', Done (m', r)) -> recover g w' = Some vpost -> (r <> Ok -> vpost = v) ->
  FOut g v vpost (ff p w).
Proof.
  intros g v vpost p w w' m' r Hff Hrec Hr. rewrite Hff. exists vpost. cbn [fst snd]. split; [exact Hrec |]. split; [right; apply veq_refl | intros; apply veq_refl].
Qed.

Theorem create_disk_fault : forall g w v m s user cr,
  ctx g w v m -> cfg_ok g -> fixed g = true -> fix_commit g = false ->
  (fix_dup g = true \/ ~ In (Snap s) (names_of_chain (cv_chain v))) ->
  (~ In (Snap s) (names_of_chain (cv_chain v)) -> m_children m (Some (Snap s)) = []) ->
  exists vpost,
    recover g (fst (ff (create_disk g m s user cr) w)) = Some vpost
    /\ FOut g v vpost (ff (create_disk g m s user cr) w)
    /\ FA g v vpost (f11_at (create_disk g m s user cr) w) (create_disk g m s user cr) w.
Proof.
  intros g w v m s user cr Hctx Hcfg Hfx Hfc Hdup Hch.
  destruct (create_disk_spec g w v m s user cr Hctx Hcfg Hdup Hch) as [wF [mF [rF [vpost [HffF [HctxF [_ HrF]]]]]]].
  exists vpost. split; [rewrite HffF; apply HctxF |].
  assert (HFO : FOut g v vpost (ff (create_disk g m s user cr) w)).
  { eapply FOut_of_ff; [exact HffF | apply HctxF | intros H; apply (HrF H)]. }
  split; [exact HFO |].
  destruct (ctx_shape g w v m Hctx) as [n [id0 [d0 [tl [c [Hchain [Hvh [Hmh [Hsnaps [Hnd [Hndi [Hvol [Hcnt [Hlink [Hlen [Hd0 Hpar]]]]]]]]]]]]]]]].
  pose proof (cx_rec _ _ _ _ Hctx) as Hrec. pose proof (cx_ag _ _ _ _ Hctx) as Hag. pose proof (cx_fresh _ _ _ _ Hctx) as Hfr.
  destruct Hag as [Hinfo [Hdisks [Hchild [Hfixch Hact]]]].
  assert (Hnh : ~ In (Head (S n)) (names_of_chain (cv_chain v))).
  { rewrite Hchain. cbn. intros [H | H]; [inversion H; lia | exact (snap_not_head tl (S n) Hsnaps H)]. }
  assert (Hfin : fst (ff (create_disk g m s user cr) w) = wF) by (rewrite HffF; reflexivity).
  revert HFO Hfin. unfold create_disk. rewrite Hmh. intros HFO Hfin.
  (* sync_dir *)
  eapply FA11_bind with (S := fun _ => False) (Q := notOk); [exact Hrec | intros x [] | apply only_on_refl | apply errB_sync_dir | | exact HFO |].
  { intros b Hb. destruct b; [exfalso; apply Hb; reflexivity | |]; cbn; unfold notOkR; cbn; discriminate. }
  intros a Ha. rewrite ff_sync_dir in *. cbn [fst snd] in *. inversion Ha; subst a. split; [apply only_on_refl |].
  rewrite ff_bind, ff_sync_dir in HFO, Hfin. cbn [is_ok res_eqb negb] in *.
  destruct (Nat.ltb (maxlen g) (S (S (length (m_active m))))) eqn:Hmax; [apply FA_ret |].
  apply Nat.ltb_ge in Hmax.
  assert (Hlen1 : S (length (cv_chain v)) <= maxlen g).
  { rewrite Hact, rev_length in Hmax. unfold names_of_chain in Hmax. rewrite map_length in Hmax. lia. }
  destruct (fix_dup g && match m_disks m (Snap s) with Some _ => true | None => false end) eqn:Hfd; [apply FA_ret |].
  assert (Hsn : ~ In (Snap s) (names_of_chain (cv_chain v))).
  { destruct Hdup as [Hdup | Hdup]; [| exact Hdup]. rewrite Hdup in Hfd. cbn in Hfd.
    intro Hin. rewrite Hdisks in Hfd. unfold names_of_chain in Hin. apply in_map_iff in Hin.
    destruct Hin as [mb [Hn Hm]]. rewrite <- Hn in Hfd. rewrite (find_mb_in _ _ Hnd Hm) in Hfd. discriminate. }
  assert (Hdis : forall x, snap_S1 (Head (S n)) (Snap s) x -> ~ footprint (cv_chain v) x).
  { intros x Hx. exact (snap_S1_disjoint _ _ _ x Hnh Hsn Hx). }
  (* createNewHead *)
  eapply FA11_bind with (S := snap_S1 (Head (S n)) (Snap s)) (Q := Qcnh (Head (S n)));
    [exact Hrec | exact Hdis | apply only_on_refl | apply errB_create_new_head; [exact Hfx | unfold snap_S1; cbn; auto 10 ..] | | exact HFO |].
  { intros [[nhn nd] e1] [Hq1 Hq2]. cbn [fst snd] in *.
    destruct e1; [exfalso; apply Hq1; reflexivity | |]; cbn [is_ok res_eqb negb];
      (eapply withinQ_bind; [apply wq_rm_disk with (Q := fun _ => True); [| auto] | intros _ _; cbn; unfold notOkR; cbn; discriminate];
       intros x Hx; destruct Hq2 as [E | E]; rewrite E in Hx; [discriminate | inversion Hx; subst; unfold snap_S1; cbn; auto 10]). }
  intros a1 Ha1.
  destruct (cnh_ff g m n (Some (Snap s)) cr w c Hcnt) as [Hff1 | [w1 [Hff1 [K1 [K2 [K3 [K4 K5]]]]]]]; rewrite Hff1 in *; cbn [fst snd] in *; inversion Ha1; subst a1.
  { split; [apply only_on_refl |]. cbn [is_ok res_eqb negb rm_disk bind]. apply FA_ret. }
  assert (Hoo1 : only_on (snap_S1 (Head (S n)) (Snap s)) w w1).
  { intros x Hx. apply K4; intro; subst x; apply Hx; unfold snap_S1; cbn; auto 10. }
  split; [exact Hoo1 |]. cbn [is_ok res_eqb negb].
  rewrite ff_bind, Hff1 in HFO, Hfin. cbn [is_ok res_eqb negb] in HFO, Hfin.
  assert (Hrec1 : recover g w1 = Some v) by (eapply recover_only_on; eauto).
  set (nd := mkdisk (Some (Snap s)) false false cr c) in *.
  (* linkDisk *)
  destruct (recover_elim g w1 v Hrec1) as [Hvol1 [h1 [c1 [Hhd1 [Hw1 Hc1]]]]].
  destruct (walk_linked _ _ _ _ Hw1) as [Hlink1 _]. rewrite Hchain in Hlink1.
  cbn [linked mb_name mb_disk mb_id] in Hlink1. destruct Hlink1 as [Hmoh [[gn Hioh] [Hp0 Htl1]]].
  unfold cd_link in *.
  eapply FA11_bind with (S := snap_S1 (Head (S n)) (Snap s)) (Q := notOk);
    [exact Hrec | exact Hdis | exact Hoo1 | apply errB_link_disk; unfold snap_S1; cbn; auto 10 | | exact HFO |].
  { intros b Hb. destruct b; [exfalso; apply Hb; reflexivity | |]; cbn [is_ok res_eqb negb]; apply wq_cleanup; discriminate. }
  intros a2 Ha2.
  destruct (link_disk_ff w1 (Head n) (Snap s) (IImg id0 gn) (IDisk d0) Hioh Hmoh) as [[_ Hffl] | [Hn1 [Hn2 Hffl]]]; [discriminate | |];
    rewrite Hffl in *; cbn [fst snd] in *; inversion Ha2; subst a2.
  { (* refused: clean-up *)
    split; [apply only_on_refl |]. cbn [is_ok res_eqb negb].
    rewrite ff_bind, Hffl in HFO. cbn [is_ok res_eqb negb] in HFO.
    eapply FA_errB with (S := snap_S1 (Head (S n)) (Snap s)); [exact Hrec | exact Hdis | exact Hoo1 | apply errB_cleanup; discriminate | exact HFO]. }
  set (w2 := set_file (set_file w1 (Img (Snap s)) (Some (IImg id0 gn))) (Meta (Snap s)) (Some (IDisk d0))) in *.
  assert (Hoo12 : only_on (snap_S1 (Head (S n)) (Snap s)) w1 w2).
  { intros x Hx. subst w2. rewrite !set_file_neq; [reflexivity | |]; intro; subst x; apply Hx; unfold snap_S1; cbn; auto 10. }
  split; [exact Hoo12 |]. cbn [is_ok res_eqb negb].
  rewrite ff_bind, Hffl in HFO, Hfin. cbn [is_ok res_eqb negb] in HFO, Hfin.
  assert (Hoo2 : only_on (snap_S1 (Head (S n)) (Snap s)) w w2) by (eapply only_on_trans; eassumption).
  assert (Hc2 : files w2 Counter = Some (ICounter c)).
  { rewrite Hoo2; [exact Hcnt |]. unfold snap_S1; cbn. intuition discriminate. }
  (* the snapshot's metadata *)
  set (rec := mkdisk (d_parent d0) (d_removed d0) user cr c).
  set (m2 := cd_mem2 m (Head (S n)) nd (Snap s)). set (m3 := cd_mem3 m2 (Head n) (Snap s) rec). set (m5 := cd_mem5 m3 (Head n) (Snap s)).
  assert (Hm2oh : m_disks m2 (Head n) = Some d0).
  { subst m2. unfold cd_mem2, cd_mem1. cbn [m_disks set_children set_disks]. rewrite updd_neq by (intro H; inversion H; lia). exact Hd0. }
  set (w3 := enc_fs w2 (Meta (Snap s)) (IDisk rec)).
  assert (Hffm : ff (cd_snapmeta g m (Some (Head n)) (Some (Snap s)) (Head (S n)) nd user cr) w2 = (w3, Done (m5, Ok))).
  { unfold cd_snapmeta. fold m2. rewrite ff_bind, (get_rev_ff _ c Hc2). rewrite Hm2oh. fold rec. fold m3.
    rewrite ff_bind, ff_encode by (cbn; auto; right; eexists; reflexivity). reflexivity. }
  eapply FA11_bind with (S := snap_S1 (Head (S n)) (Snap s)) (Q := notOkR);
    [exact Hrec | exact Hdis | exact Hoo2 | apply errB_cd_snapmeta; exact Hfx | | exact HFO |].
  { intros [ma e4] Hb. unfold notOkR in Hb. cbn [snd] in Hb.
    destruct e4; [exfalso; apply Hb; reflexivity | |]; cbn [is_ok res_eqb negb]; apply wq_cleanup; discriminate. }
  intros a3 Ha3. rewrite Hffm in *. cbn [fst snd] in *. inversion Ha3; subst a3.
  assert (Hoo23 : only_on (snap_S1 (Head (S n)) (Snap s)) w2 w3).
  { intros x Hx. subst w3. apply enc_fs_other; intro; subst x; apply Hx; unfold snap_S1; cbn; auto 10. }
  split; [exact Hoo23 |]. cbn [is_ok res_eqb negb].
  assert (Hoo3 : only_on (snap_S1 (Head (S n)) (Snap s)) w w3) by (eapply only_on_trans; eassumption).
  assert (Hw3a : files w3 (Meta (Head (S n))) = Some (IDisk nd)).
  { subst w3. rewrite enc_fs_other by (cbn; discriminate). subst w2. rewrite !set_file_neq by discriminate. exact K2. }
  assert (Hw3b : files w3 (Img (Head (S n))) = Some (IImg (nextid w) 0)).
  { subst w3. rewrite enc_fs_other by (cbn; discriminate). subst w2. rewrite !set_file_neq by discriminate. exact K1. }
  assert (Hw3c : files w3 (Meta (Snap s)) = Some (IDisk rec)).
  { subst w3. apply enc_fs_self. right. eexists. reflexivity. }
  assert (Hw3d : files w3 (Img (Snap s)) = Some (IImg id0 gn)).
  { subst w3. rewrite enc_fs_other by (cbn; discriminate). subst w2. rewrite set_file_neq by discriminate. apply set_file_eq. }
  (* the commit stage; the view it produces is the one the fault-free run ends with *)
  rewrite ff_bind, Hffm in HFO, Hfin. cbn [is_ok res_eqb negb] in HFO, Hfin.
  assert (Hrec3 : recover g w3 = Some v) by (exact (recover_only_on g _ w w3 v Hrec Hoo3 Hdis)).
  destruct (cd_commit_spec g w3 v m5 n s nd rec (nextid w) id0 d0 tl gn Hrec3 Hchain Hsnaps Hnd Hsn Hlen1 Hw3a Hw3b Hw3c Hw3d eq_refl eq_refl)
    as [w5 [Hff5 [Hrec5 _]]].
  assert (Hvp : vpost = mkview (set_head_info (m_info (cd_memc m5 (Some (Head n)) (Head (S n)))) (Some (Head (S n))) true (Some (Snap s)) (d_rev nd))
                               (mkmember (Head (S n)) (nextid w) nd :: mkmember (Snap s) id0 rec :: tl)).
  { rewrite Hff5 in Hfin. cbn [fst] in Hfin. subst wF. pose proof (cx_rec _ _ _ _ HctxF) as Hq. rewrite Hrec5 in Hq. inversion Hq. reflexivity. }
  rewrite Hvp.
  eapply (FA_cd_commit g w w3 v m5 n s nd rec (nextid w) id0 d0 tl gn); try eassumption; try reflexivity.
  (* local index 4 is the excluded shape *)
  unfold cd_commit. rewrite Hfc.
  destruct (encode_calls_3_4 g (IVol (set_head_info (m_info (cd_memc m5 (Some (Head n)) (Head (S n)))) (Some (Head (S n))) true (Some (Snap s)) (d_rev nd))) Vol w3 Hfx (or_introl eq_refl) I)
    as [E3 [E4 _]].
  split; [apply call_at_bind_lt; exact E4 |]. exists 3. split; [reflexivity | apply call_at_bind_lt; exact E3].
Qed.

(** ** the Server-level operations *)

Definition okO (a : option mem * res * nat) : Prop := snd (fst a) = Ok.

Definition FOutO (g : cfg) (v vpost : chainview) (x : fs * outcome (option mem * res * nat)) : Prop :=
  exists vk, recover g (fst x) = Some vk /\ (veq vk v \/ veq vk vpost)
             /\ (forall a, snd x = Done a -> okO a -> veq vk vpost).

Definition FAO (g : cfg) (v vpost : chainview) (ex : nat -> Prop) (p : prog (option mem * res * nat)) (w : fs) : Prop :=
  forall j c kont wk e, step_at p w j = Some (c, kont, wk) -> traced c = true -> EE e -> ~ ex j ->
    FOutO g v vpost (ff (kont (RErr e)) wk).

Lemma step_at_ret_cont : forall A B (p : prog A) (h : A -> prog B) w j,
  (forall a, exists b, h a = Ret b) ->
  step_at (bind p h) w j = match step_at p w j with
                           | Some (c, kont, wk) => Some (c, fun r => bind (kont r) h, wk)
                           | None => None
                           end.
Proof.
  intros A B p h w j Hh. rewrite step_at_bind. destruct (step_at p w j) as [[[c kont] wk] |]; [reflexivity |].
  destruct (snd (ff p w)) as [a | |]; try reflexivity. destruct (Hh a) as [b Hb]. rewrite Hb. reflexivity.
Qed.

Lemma lift_ret : forall a : mem * res, exists b, (let '(m, e) := a in Ret (Some m, e, O)) = Ret b.
Proof. intros [m e]. eexists. reflexivity. Qed.

Lemma call_at_lift : forall (p : prog (mem * res)) w j, call_at (lift p) w j = call_at p w j.
Proof.
  intros p w j. unfold call_at, lift. rewrite (step_at_ret_cont _ _ p _ w j lift_ret).
  destruct (step_at p w j) as [[[c kont] wk] |]; reflexivity.
Qed.

Lemma FAO_lift : forall g v vpost ex (p : prog (mem * res)) w,
  FA g v vpost ex p w -> FAO g v vpost ex (lift p) w.
Proof.
  intros g v vpost ex p w Hfa j c kont wk e Hs Ht He Hex. unfold lift in Hs.
  rewrite (step_at_ret_cont _ _ p _ w j lift_ret) in Hs.
  destruct (step_at p w j) as [[[c' kont'] wk'] |] eqn:Hsp; [| discriminate].
  inversion Hs; subst c' wk'. subst kont.
  destruct (Hfa j c kont' wk e Hsp Ht He Hex) as [vk [H1 [H2 H3]]].
  rewrite ff_bind. destruct (ff (kont' (RErr e)) wk) as [w' o]. cbn [fst snd] in *.
  exists vk. destruct o as [[m' r] | |]; cbn [fst snd]; (split; [exact H1 | split; [exact H2 |]]).
  - intros a Ha Hok. inversion Ha; subst a. unfold okO in Hok. cbn in Hok. subst r. apply (H3 m'). reflexivity.
  - intros a Ha. discriminate.
  - intros a Ha. discriminate.
Qed.

Theorem FAO_exec : forall g v vpost ex (p : prog (option mem * res * nat)) w k e,
  FAO g v vpost ex p w -> FOutO g v vpost (ff p w) -> EE e ->
  (forall c, call_at p w k = Some c -> traced c = true /\ ~ ex k) ->
  FOutO g v vpost (dir_of_run (fexec p w 0 k e), out_of_run (fexec p w 0 k e)).
Proof.
  intros g v vpost ex p w k e Hfa Hff He Hc. pose proof (fexec_at _ p w 0 k e) as H. cbn [plus] in H.
  unfold call_at in Hc. destruct (step_at p w k) as [[[c kont] wk] |] eqn:Hs.
  - destruct H as [H1 H2]. destruct (Hc c eq_refl) as [Ht Hex].
    pose proof (Hfa k c kont wk e Hs Ht He Hex) as Hout. rewrite H1, H2. rewrite <- surjective_pairing. exact Hout.
  - destruct H as [H1 H2]. rewrite H1, H2, <- surjective_pairing. exact Hff.
Qed.

(** Snapshot *)
Theorem snapshot_fault_atomic : forall g w m s user cr k e,
  cfg_ok g -> fixed g = true -> fix_commit g = false ->
  InvS g (mkst w (Some m)) -> ok_op g (mkst w (Some m)) (OSnap s user cr) -> EE e ->
  let p := lift (create_disk g m s user cr) in
  (forall c, call_at p w k = Some c -> traced c = true /\ ~ f11_at p w k) ->
  exists vpre vpost,
    recover g w = Some vpre /\ recover g (fst (ff p w)) = Some vpost
    /\ FOutO g vpre vpost (dir_of_run (fexec p w 0 k e), out_of_run (fexec p w 0 k e)).
Proof.
  intros g w m s user cr k e Hcfg Hfx Hfc Hinv Hok He p Hc.
  destruct (InvS_ctx g w m Hinv) as [v Hctx]. unfold ok_op in Hok. cbn [s_fs s_mem] in Hok.
  rewrite (cx_rec _ _ _ _ Hctx) in Hok. destruct Hok as [Hdup Hch].
  destruct (create_disk_fault g w v m s user cr Hctx Hcfg Hfx Hfc Hdup Hch) as [vpost [Hrp [HFO HFA]]].
  exists v, vpost. split; [apply Hctx |].
  assert (Hffp : ff p w = (fst (ff (create_disk g m s user cr) w),
                          match snd (ff (create_disk g m s user cr) w) with
                          | Done (m', r) => Done (Some m', r, O) | Crashed => Crashed | Aborted x => Aborted x end)).
  { subst p. unfold lift. rewrite ff_bind. destruct (ff (create_disk g m s user cr) w) as [w' [[m' r] | |]]; reflexivity. }
  split; [rewrite Hffp; exact Hrp |].
  apply FAO_exec with (ex := f11_at p w).
  - subst p. eapply FAO_lift. eapply FA_mono; [| exact HFA].
    intros j [H1 [j' [Hj H2]]]. split; [rewrite call_at_lift; exact H1 | exists j'; split; [exact Hj | rewrite call_at_lift; exact H2]].
  - rewrite Hffp. destruct HFO as [vk [H1 [H2 H3]]]. exists vk. cbn [fst snd]. split; [exact H1 | split; [exact H2 |]].
    intros a Ha Hoka. destruct (snd (ff (create_disk g m s user cr) w)) as [[m' r] | |]; try discriminate.
    inversion Ha; subst a. unfold okO in Hoka. cbn in Hoka. subst r. apply (H3 m'). reflexivity.
  - exact He.
  - exact Hc.
Qed.

(** ** operations that only rewrite volume.meta: SetCheckpoint, SetRebuilding, close *)
Lemma FAO_vol : forall g w v i' A (k1 : res -> prog A) (k2 : A -> prog (option mem * res * nat)),
  fixed g = true -> recover g w = Some v -> i_head i' = i_head (cv_info v) ->
  (forall x, exists a, k1 x = Ret a) -> (forall a, exists b, k2 a = Ret b) ->
  (forall a b, k1 Failed = Ret a -> k2 a = Ret b -> ~ okO b) ->
  FAO g v (mkview i' (cv_chain v)) (fun _ => False) (bind (bind (encode_to_file g (IVol i') Vol) k1) k2) w.
Proof.
  intros g w v i' A k1 k2 Hfx Hrec Hh Hk1 Hk2 Hnok j c kont wk e Hs Ht He _.
  rewrite (step_at_ret_cont _ _ (bind (encode_to_file g (IVol i') Vol) k1) k2 w j Hk2) in Hs.
  rewrite (step_at_ret_cont _ _ (encode_to_file g (IVol i') Vol) k1 w j Hk1) in Hs.
  destruct (step_at (encode_to_file g (IVol i') Vol) w j) as [[[c' kont'] wk'] |] eqn:Hse; [| discriminate].
  inversion Hs; subst c' wk'. subst kont.
  destruct (Hk1 Failed) as [a Ha]. destruct (Hk2 a) as [b Hb]. pose proof (Hnok a b Ha Hb) as Hnb.
  destruct (encode_steps g (IVol i') Vol w j c kont' wk Hfx (or_introl eq_refl) I Hse) as [[Hj [Hoow Hkw]] | [Hj [_ [Hwk Hkf]]]].
  - (* only the temp file was touched; the block returns Failed *)
    pose proof (within_ff _ _ _ wk (withinQ_within _ _ _ _ (proj1 (Hkw e)))) as Hoo2.
    assert (Hq : forall x, snd (ff (kont' (RErr e)) wk) = Done x -> Failed = x) by (intros x Hx; exact (withinQ_ff _ _ _ _ wk x (proj1 (Hkw e)) Hx)).
    rewrite !ff_bind. destruct (ff (kont' (RErr e)) wk) as [w' o]. cbn [fst snd] in *.
    assert (Hrw : recover g w' = Some v).
    { eapply recover_only_on; [exact Hrec | eapply only_on_trans; eassumption |].
      intros n Hn Hf. cbn in Hn. subst n. exact (footprint_voltmp _ Hf). }
    destruct o as [x | |].
    + rewrite <- (Hq x eq_refl). rewrite Ha. cbn [ff]. rewrite Hb. cbn [ff fst snd].
      exists v. split; [exact Hrw | split; [left; apply veq_refl |]]. intros a0 E Hok. inversion E; subst. contradiction.
    + exists v. cbn [fst snd]. split; [exact Hrw | split; [left; apply veq_refl | intros; discriminate]].
    + exists v. cbn [fst snd]. split; [exact Hrw | split; [left; apply veq_refl | intros; discriminate]].
  - (* the rename is done: the new view, an error is returned *)
    rewrite !ff_bind, Hkf. cbn [ff]. rewrite Ha. cbn [ff]. rewrite Hb. cbn [ff fst snd]. subst wk.
    exists (mkview i' (cv_chain v)). split; [apply recover_vol_rewrite; assumption |]. split; [right; apply veq_refl | intros; apply veq_refl].
Qed.

(** the conclusion for one operation program [p] run from [w]: whichever traced call fails (its
    index not in [X]), the directory recovers to the old or the new view, the new one on success *)
Definition fault_okx (X : nat -> Prop) (g : cfg) (p : prog (option mem * res * nat)) (w : fs) : Prop :=
  forall k e, EE e ->
    (forall c, call_at p w k = Some c -> traced c = true /\ ~ X k) ->
    exists vpre vpost,
      recover g w = Some vpre /\ recover g (fst (ff p w)) = Some vpost
      /\ FOutO g vpre vpost (dir_of_run (fexec p w 0 k e), out_of_run (fexec p w 0 k e)).

(** no call excluded *)
Definition fault_ok (g : cfg) (p : prog (option mem * res * nat)) (w : fs) : Prop := fault_okx (fun _ => False) g p w.
(** all calls but the directory sync that follows the rename of volume.meta *)
Definition fault_ok11 (g : cfg) (p : prog (option mem * res * nat)) (w : fs) : Prop := fault_okx (f11_at p w) g p w.

Lemma fault_okx_mono : forall (X Y : nat -> Prop) g p w, (forall j, X j -> Y j) -> fault_okx X g p w -> fault_okx Y g p w.
Proof.
  intros X Y g p w HXY H k e He Hc. apply H; [exact He |]. intros c Hcc. destruct (Hc c Hcc) as [H1 H2].
  split; [exact H1 | intro E; apply H2; apply HXY; exact E].
Qed.

Lemma fault_ok_intro : forall g p w v vpost (ex : nat -> Prop),
  recover g w = Some v -> recover g (fst (ff p w)) = Some vpost ->
  FOutO g v vpost (ff p w) -> FAO g v vpost ex p w -> (forall j, ex j -> False) ->
  fault_ok g p w.
Proof.
  intros g p w v vpost ex Hr Hrp Hff Hfa Hex k e He Hc. exists v, vpost. split; [exact Hr |]. split; [exact Hrp |].
  apply FAO_exec with (ex := ex); try assumption.
  intros c Hcc. destruct (Hc c Hcc) as [H1 H2]. split; [exact H1 | intro E; exact (Hex _ E)].
Qed.

Lemma vol_op_fault : forall g w v i' A (k1 : res -> prog A) (k2 : A -> prog (option mem * res * nat)),
  fixed g = true -> recover g w = Some v -> i_head i' = i_head (cv_info v) ->
  (forall x, exists a, k1 x = Ret a) -> (forall a, exists b, k2 a = Ret b) ->
  (forall a b, k1 Failed = Ret a -> k2 a = Ret b -> ~ okO b) ->
  fault_ok g (bind (bind (encode_to_file g (IVol i') Vol) k1) k2) w.
Proof.
  intros g w v i' A k1 k2 Hfx Hrec Hh Hk1 Hk2 Hnok.
  assert (Hff : exists b, ff (bind (bind (encode_to_file g (IVol i') Vol) k1) k2) w = (enc_fs w Vol (IVol i'), Done b)).
  { rewrite !ff_bind, ff_encode by (cbn; auto; left; reflexivity). destruct (Hk1 Ok) as [a Ha]. rewrite Ha. cbn [ff].
    destruct (Hk2 a) as [b Hb]. rewrite Hb. eexists. reflexivity. }
  destruct Hff as [b Hff].
  apply fault_ok_intro with (v := v) (vpost := mkview i' (cv_chain v)) (ex := fun _ => False).
  - exact Hrec.
  - rewrite Hff. apply recover_vol_rewrite; assumption.
  - rewrite Hff. exists (mkview i' (cv_chain v)). cbn [fst snd]. split; [apply recover_vol_rewrite; assumption |].
    split; [right; apply veq_refl | intros; apply veq_refl].
  - apply FAO_vol; assumption.
  - intros j [].
Qed.

Theorem checkpoint_fault_atomic : forall g w m c,
  fixed g = true -> InvS g (mkst w (Some m)) -> fault_ok g (lift (set_checkpoint g m c)) w.
Proof.
  intros g w m c Hfx [v [Hrec [Hwf [Hfr [Hag Hh]]]]]. cbn [s_fs s_mem] in *.
  unfold lift, set_checkpoint. cbn zeta.
  apply vol_op_fault with (v := v); try assumption.
  - cbn. apply (agree_head g v m Hag).
  - intros x. eexists. reflexivity.
  - intros [m' e']. eexists. reflexivity.
  - intros a b Ha Hb. inversion Ha; subst a. inversion Hb; subst b. unfold okO. cbn. discriminate.
Qed.

Theorem close_fault_atomic : forall g w m,
  fixed g = true -> InvS g (mkst w (Some m)) -> fault_ok g (op_prog g (Some m) OClose) w.
Proof.
  intros g w m Hfx [v [Hrec [Hwf [Hfr [Hag Hh]]]]]. cbn [s_fs s_mem] in *.
  cbn [op_prog]. unfold close_replica. cbn zeta.
  apply vol_op_fault with (v := v); try assumption.
  - cbn. apply (agree_head g v m Hag).
  - intros x. eexists. reflexivity.
  - intros [m' e']. destruct (is_ok e'); eexists; reflexivity.
  - intros a b Ha Hb. inversion Ha; subst a. cbn in Hb. inversion Hb; subst b. unfold okO. cbn. discriminate.
Qed.

Theorem rebuilding_fault_atomic : forall g w m b,
  fixed g = true -> InvS g (mkst w (Some m)) -> fault_ok g (lift (set_rebuilding g m b)) w.
Proof.
  intros g w m b Hfx [v [Hrec [Hwf [Hfr [Hag Hh]]]]]. cbn [s_fs s_mem] in *.
  unfold lift, set_rebuilding.
  apply vol_op_fault with (v := v); try assumption.
  - cbn. apply (agree_head g v m Hag).
  - intros x. destruct (is_ok x); eexists; reflexivity.
  - intros [m' e']. eexists. reflexivity.
  - intros a b0 Ha Hb. cbn in Ha. inversion Ha; subst a. inversion Hb; subst b0. unfold okO. cbn. discriminate.
Qed.

Theorem snapshot_fault_ok : forall g w m s user cr,
  cfg_ok g -> fixed g = true -> fix_commit g = false ->
  InvS g (mkst w (Some m)) -> ok_op g (mkst w (Some m)) (OSnap s user cr) ->
  fault_ok11 g (lift (create_disk g m s user cr)) w.
Proof. intros g w m s user cr H1 H2 H3 H4 H5 k e He Hc. apply snapshot_fault_atomic; assumption. Qed.

(** Resize *)
Lemma FA_vol1 : forall g w v i' (k1 : res -> prog (mem * res)) ex,
  fixed g = true -> recover g w = Some v -> i_head i' = i_head (cv_info v) ->
  (forall x, exists a, k1 x = Ret a) -> (forall a, k1 Failed = Ret a -> snd a <> Ok) ->
  FA g v (mkview i' (cv_chain v)) ex (bind (encode_to_file g (IVol i') Vol) k1) w.
Proof.
  intros g w v i' k1 ex Hfx Hrec Hh Hk1 Hnok j c kont wk e Hs Ht He _.
  rewrite (step_at_ret_cont _ _ (encode_to_file g (IVol i') Vol) k1 w j Hk1) in Hs.
  destruct (step_at (encode_to_file g (IVol i') Vol) w j) as [[[c' kont'] wk'] |] eqn:Hse; [| discriminate].
  inversion Hs; subst c' wk'. subst kont.
  destruct (Hk1 Failed) as [a Ha]. pose proof (Hnok a Ha) as Hna.
  destruct (encode_steps g (IVol i') Vol w j c kont' wk Hfx (or_introl eq_refl) I Hse) as [[Hj [Hoow Hkw]] | [Hj [_ [Hwk Hkf]]]].
  - pose proof (within_ff _ _ _ wk (withinQ_within _ _ _ _ (proj1 (Hkw e)))) as Hoo2.
    assert (Hq : forall x, snd (ff (kont' (RErr e)) wk) = Done x -> Failed = x) by (intros x Hx; exact (withinQ_ff _ _ _ _ wk x (proj1 (Hkw e)) Hx)).
    rewrite ff_bind. destruct (ff (kont' (RErr e)) wk) as [w' o]. cbn [fst snd] in *.
    assert (Hrw : recover g w' = Some v).
    { eapply recover_only_on; [exact Hrec | eapply only_on_trans; eassumption |].
      intros n Hn Hf. cbn in Hn. subst n. exact (footprint_voltmp _ Hf). }
    destruct o as [x | |].
    + rewrite <- (Hq x eq_refl). rewrite Ha. cbn [ff fst snd].
      exists v. split; [exact Hrw | split; [left; apply veq_refl |]]. intros m' E. inversion E; subst. exfalso. apply Hna. reflexivity.
    + exists v. cbn [fst snd]. split; [exact Hrw | split; [left; apply veq_refl | intros; discriminate]].
    + exists v. cbn [fst snd]. split; [exact Hrw | split; [left; apply veq_refl | intros; discriminate]].
  - rewrite ff_bind, Hkf. cbn [ff]. rewrite Ha. cbn [ff fst snd]. subst wk.
    exists (mkview i' (cv_chain v)). split; [apply recover_vol_rewrite; assumption |]. split; [right; apply veq_refl | intros; apply veq_refl].
Qed.

Lemma errB_truncate_all : forall l sz w, errB (fun _ => False) (fun b => b = false) (truncate_all l sz) w.
Proof.
  induction l as [| y t IH]; intros sz w; [apply errB_ret |]. cbn [truncate_all]. apply errB_do.
  - intros _ e He. left. cbn. reflexivity.
  - cbn. destruct (files w (Img y)); apply only_on_refl.
  - assert (Hw : fst (apply_call w (CTruncate (Img y) sz)) = w) by (cbn; destruct (files w (Img y)); reflexivity).
    rewrite Hw. destruct (is_err _); [apply errB_ret | apply IH].
Qed.

Theorem resize_fault_atomic : forall g w m sz,
  fixed g = true -> InvS g (mkst w (Some m)) -> fault_ok g (lift (resize g m sz)) w.
Proof.
  intros g w m sz Hfx Hinv. destruct (InvS_ctx g w m Hinv) as [v Hctx].
  pose proof (cx_rec _ _ _ _ Hctx) as Hrec. pose proof (cx_ag _ _ _ _ Hctx) as Hag.
  destruct (resize_spec g w v m sz Hctx) as [wF [mF [rF [vpost [HffF [HctxF [_ HrF]]]]]]].
  assert (HFO : FOut g v vpost (ff (resize g m sz) w)).
  { eapply FOut_of_ff; [exact HffF | apply HctxF | intros H; apply (HrF H)]. }
  assert (HFA : FA g v vpost (fun _ => False) (resize g m sz) w).
  { revert HFO HffF. unfold resize. rewrite (mchain_of_ctx g w v m Hctx).
    destruct (N.ltb sz (i_size (m_info m))); [intros; apply FA_ret |]. intros HFO HffF.
    destruct (truncate_all_spec (names_of_chain (cv_chain v)) sz w) as [b [Hfft _]].
    eapply FA_bind with (S := fun _ => False) (Q := fun b0 => b0 = false);
      [exact Hrec | intros x [] | apply only_on_refl | apply errB_truncate_all | | exact HFO |].
    { intros b0 Hb0. rewrite Hb0. cbn. unfold notOkR. cbn. discriminate. }
    intros a Ha. rewrite Hfft in *. cbn [fst snd] in *. inversion Ha; subst a. split; [apply only_on_refl |].
    rewrite ff_bind, Hfft in HffF. destruct b; cbn [negb] in *; [| apply FA_ret].
    set (i' := set_size (m_info m) sz) in *.
    assert (Hvp : vpost = mkview i' (cv_chain v)).
    { cbn [m_info set_info] in HffF. fold i' in HffF. rewrite ff_bind, ff_encode in HffF by (cbn; auto; left; reflexivity).
      cbn [ff] in HffF. inversion HffF; subst wF. pose proof (cx_rec _ _ _ _ HctxF) as Hq.
      rewrite (recover_vol_rewrite g w v i' Hrec) in Hq; [inversion Hq; reflexivity |]. subst i'. cbn. apply (agree_head g v m Hag). }
    rewrite Hvp. cbn [m_info set_info]. fold i'. apply FA_vol1; try assumption.
    - subst i'. cbn. apply (agree_head g v m Hag).
    - intros x. eexists. reflexivity.
    - intros a Ha0. inversion Ha0. cbn. discriminate. }
  apply fault_ok_intro with (v := v) (vpost := vpost) (ex := fun _ => False).
  - exact Hrec.
  - unfold lift. rewrite ff_bind, HffF. cbn [fst]. apply HctxF.
  - unfold lift. rewrite ff_bind, HffF. cbn [ff fst snd]. exists vpost. split; [apply HctxF |].
    split; [right; apply veq_refl | intros; apply veq_refl].
  - apply FAO_lift. exact HFA.
  - intros j [].
Qed.

(** ** a block that commits by one encodeToFile, generically *)
Definition FOutP {A} (okp : A -> Prop) (g : cfg) (v vpost : chainview) (x : fs * outcome A) : Prop :=
  exists vk, recover g (fst x) = Some vk /\ (veq vk v \/ veq vk vpost)
             /\ (forall a, snd x = Done a -> okp a -> veq vk vpost).

Lemma enc_commit_fault : forall A (okp : A -> Prop) g c0 n w v vpost (K : res -> prog A),
  fixed g = true -> meta_name n -> meta_content c0 ->
  recover g w = Some v -> ~ footprint (cv_chain v) (tmp_of n) ->
  recover g (enc_fs w n c0) = Some vpost ->
  (forall x, exists a, K x = Ret a) -> (forall a, K Failed = Ret a -> ~ okp a) ->
  forall j c kont wk e, step_at (bind (encode_to_file g c0 n) K) w j = Some (c, kont, wk) -> traced c = true -> EE e ->
    FOutP okp g v vpost (ff (kont (RErr e)) wk).
Proof.
  intros A okp g c0 n w v vpost K Hfx Hn Hc Hrec Htmp Hrp HK Hnok j c kont wk e Hs Ht He.
  rewrite (step_at_ret_cont _ _ (encode_to_file g c0 n) K w j HK) in Hs.
  destruct (step_at (encode_to_file g c0 n) w j) as [[[c' kont'] wk'] |] eqn:Hse; [| discriminate].
  inversion Hs; subst c' wk'. subst kont.
  destruct (HK Failed) as [a Ha]. pose proof (Hnok a Ha) as Hna.
  destruct (encode_steps g c0 n w j c kont' wk Hfx Hn Hc Hse) as [[Hj [Hoow Hkw]] | [Hj [_ [Hwk Hkf]]]].
  - pose proof (within_ff _ _ _ wk (withinQ_within _ _ _ _ (proj1 (Hkw e)))) as Hoo2.
    assert (Hq : forall x, snd (ff (kont' (RErr e)) wk) = Done x -> Failed = x) by (intros x Hx; exact (withinQ_ff _ _ _ _ wk x (proj1 (Hkw e)) Hx)).
    rewrite ff_bind. destruct (ff (kont' (RErr e)) wk) as [w' o]. cbn [fst snd] in *.
    assert (Hrw : recover g w' = Some v).
    { eapply recover_only_on; [exact Hrec | eapply only_on_trans; eassumption |].
      intros x Hx Hf. cbn in Hx. subst x. exact (Htmp Hf). }
    destruct o as [x | |].
    + rewrite <- (Hq x eq_refl). rewrite Ha. cbn [ff fst snd].
      exists v. split; [exact Hrw | split; [left; apply veq_refl |]]. intros a0 E Hok. inversion E; subst. contradiction.
    + exists v. cbn [fst snd]. split; [exact Hrw | split; [left; apply veq_refl | intros; discriminate]].
    + exists v. cbn [fst snd]. split; [exact Hrw | split; [left; apply veq_refl | intros; discriminate]].
  - rewrite ff_bind, Hkf. cbn [ff]. rewrite Ha. cbn [ff fst snd]. subst wk.
    exists vpost. split; [exact Hrp |]. split; [right; apply veq_refl | intros; apply veq_refl].
Qed.

(** PrepareRemoveDisk (mark as removed) *)
Theorem prepare_fault_atomic : forall g w m arg,
  fixed g = true -> InvS g (mkst w (Some m)) -> fault_ok g (op_prog g (Some m) (OPrep arg)) w.
Proof.
  intros g w m arg Hfx Hinv. destruct (InvS_ctx g w m Hinv) as [v Hctx].
  pose proof (cx_rec _ _ _ _ Hctx) as Hrec.
  destruct (prepare_remove_disk_spec g w v m arg Hctx) as [wF [mF [rF [kF [vpost [HffF [HctxF [_ HrF]]]]]]]].
  set (P := op_prog g (Some m) (OPrep arg)).
  assert (HffP : ff P w = (wF, Done (Some mF, rF, kF))) by (subst P; cbn [op_prog]; rewrite ff_bind, HffF; reflexivity).
  assert (Hret : forall t : mem * res * nat, exists b, (let '(m1, e0, n0) := t in Ret (Some m1, e0, n0)) = Ret b).
  { intros [[m1 e0] n0]. eexists. reflexivity. }
  apply fault_ok_intro with (v := v) (vpost := vpost) (ex := fun _ => False); [exact Hrec | rewrite HffP; apply HctxF | | | intros j []].
  { rewrite HffP. exists vpost. cbn [fst snd]. split; [apply HctxF |]. split; [right; apply veq_refl | intros; apply veq_refl]. }
  intros j c kont wk e Hs Ht He _. subst P. cbn [op_prog] in Hs.
  rewrite (step_at_ret_cont _ _ (prepare_remove_disk g m arg) _ w j Hret) in Hs.
  destruct (step_at (prepare_remove_disk g m arg) w j) as [[[c' kont'] wk'] |] eqn:Hsp; [| discriminate].
  inversion Hs; subst c' wk'. subst kont. clear Hs.
  (* walk into prepare_remove_disk as in its specification *)
  revert Hsp HffF. unfold prepare_remove_disk.
  destruct (negb (mode_eqb (m_mode m) RW)); [intros H; discriminate |].
  destruct (match m_disks m arg with Some x => Some (arg, x) | None => _ end) as [[d data] |]; [| intros H; discriminate].
  destruct (odname_eqb (Some d) (i_head (m_info m))); [intros H; discriminate |].
  destruct (odname_eqb (i_parent (m_info m)) (Some d)); [intros H; discriminate |].
  destruct (d_parent data) as [par |]; [| intros H; discriminate].
  intros Hsp HffF.
  destruct j as [| [| j]]; cbn [step_at] in Hsp.
  { inversion Hsp; subst. discriminate. }
  { destruct (apply_call w (CStat (Img d))) as [wa ra] eqn:Ea. destruct (is_err ra); cbn [step_at] in Hsp; [discriminate |].
    inversion Hsp; subst. discriminate. }
  assert (Hsame1 : fst (apply_call w (CStat (Img d))) = w) by apply stat_same.
  destruct (apply_call w (CStat (Img d))) as [wa ra] eqn:Ea. cbn [fst] in Hsame1. subst wa.
  destruct (is_err ra) eqn:Era; cbn [step_at] in Hsp; [discriminate |].
  assert (Hsame2 : fst (apply_call w (CStat (Meta d))) = w) by apply stat_same.
  destruct (apply_call w (CStat (Meta d))) as [wb rb] eqn:Eb. cbn [fst] in Hsame2. subst wb.
  destruct (is_err rb) eqn:Erb; cbn [step_at] in Hsp; [discriminate |].
  set (data' := mkdisk (Some par) true (d_user data) (d_created data) (d_rev data)) in *.
  set (m1 := set_disks m (updd (m_disks m) d (Some data'))) in *.
  (* the fault-free run ends in enc_fs w (Meta d) data' *)
  cbn [ff] in HffF. rewrite Ea in HffF. rewrite Era in HffF. cbn [ff] in HffF. rewrite Eb, Erb in HffF.
  rewrite ff_bind, ff_encode in HffF by (cbn; auto; right; eexists; reflexivity). cbn [is_ok res_eqb negb] in HffF.
  assert (HwF : wF = enc_fs w (Meta d) (IDisk data')).
  { destruct (m_disks m1 par); cbn [ff] in HffF; inversion HffF; reflexivity. }
  set (K := fun e0 : res => if negb (is_ok e0) then Ret (m1, Failed, O)
                           else match m_disks m1 par with Some _ => Ret (m1, Ok, 2) | None => Ret (m1, Failed, O) end).
  pose proof (enc_commit_fault _ (fun a : mem * res * nat => snd (fst a) = Ok) g (IDisk data') (Meta d) w v vpost K Hfx
                (or_intror (ex_intro _ d eq_refl)) I Hrec (footprint_tmp _ d)) as Hgen.
  destruct (Hgen) with (j := j) (c := c) (kont := kont') (wk := wk) (e := e) as [vk [G1 [G2 G3]]]; try assumption.
  - rewrite <- HwF. apply HctxF.
  - intros x. subst K. cbn beta. destruct (negb (is_ok x)); [eexists; reflexivity |]. destruct (m_disks m1 par); eexists; reflexivity.
  - intros a Ha. subst K. cbn in Ha. inversion Ha; subst a. cbn. discriminate.
  - rewrite ff_bind. destruct (ff (kont' (RErr e)) wk) as [w' o]. cbn [fst snd] in *.
    exists vk. destruct o as [[[m' r'] n'] | |]; cbn [ff fst snd]; (split; [exact G1 | split; [exact G2 |]]).
    + intros a Ha Hok. inversion Ha; subst a. unfold okO in Hok. cbn in Hok. apply (G3 (m', r', n') eq_refl). exact Hok.
    + intros a Ha. discriminate.
    + intros a Ha. discriminate.
Qed.

(** ** RemoveDiffDisk *)

(** where the failing call lies relative to one encodeToFile followed by any continuation *)
Lemma enc_step_cases : forall A g c0 n w (K : res -> prog A) j c kont wk,
  fixed g = true -> meta_name n -> meta_content c0 ->
  step_at (bind (encode_to_file g c0 n) K) w j = Some (c, kont, wk) ->
  (j <= 3 /\ only_on (eq (tmp_of n)) w wk /\ forall e, ff (kont (RErr e)) wk = ff (K Failed) wk)
  \/ (j = 4 /\ wk = enc_fs w n c0 /\ forall e, ff (kont (RErr e)) wk = ff (K Failed) wk)
  \/ (step_at (K Ok) (enc_fs w n c0) (j - 5) = Some (c, kont, wk)).
Proof.
  intros A g c0 n w K j c kont wk Hfx Hn Hc Hs. rewrite step_at_bind in Hs.
  destruct (step_at (encode_to_file g c0 n) w j) as [[[c' kont'] wk'] |] eqn:Hse.
  - inversion Hs; subst c' wk'. subst kont.
    destruct (encode_steps g c0 n w j c kont' wk Hfx Hn Hc Hse) as [[Hj [Hoow Hkw]] | [Hj [_ [Hwk Hkf]]]].
    + left. split; [exact Hj | split; [exact Hoow |]]. intros e. rewrite ff_bind, (proj2 (Hkw e)). reflexivity.
    + right. left. split; [exact Hj | split; [exact Hwk |]]. intros e. rewrite Hkf. reflexivity.
  - right. right. rewrite ff_encode in Hs by assumption. cbn [fst snd] in Hs.
    destruct (encode_calls_3_4 g c0 n w Hfx Hn Hc) as [_ [_ Hnc]]. rewrite Hnc in Hs. exact Hs.
Qed.

Lemma ff_bind_abort : forall A B (x : abort) (f : A -> prog B) w, ff (bind (Abort x) f) w = (w, Aborted x).
Proof. reflexivity. Qed.

Lemma errB_rm_tail : forall d (m : mem) (S : name -> Prop) w, S (Img d) -> S (Meta d) ->
  errB S notOkR (bind (rm_disk (Some d)) (fun e2 => Ret (m, e2))) w.
Proof.
  intros d m S w H1 H2. eapply errB_bind with (Q := notOk).
  - apply errB_rm_disk; assumption.
  - intros b Hb. cbn. exact Hb.
  - intros a Ha. split; [| apply errB_ret].
    apply within_ff. apply withinQ_within with (Q := fun _ => True). apply wq_rm_disk; [| auto].
    intros x Hx. inversion Hx; subst x. split; assumption.
Qed.

Theorem remove_FA : forall g w v m d,
  fixed g = true -> cfg_ok g -> ctx g w v m ->
  exists vpost, recover g (fst (ff (remove_diff_disk g m d) w)) = Some vpost
    /\ FOut g v vpost (ff (remove_diff_disk g m d) w)
    /\ FA g v vpost (fun _ => False) (remove_diff_disk g m d) w.
Proof.
  intros g w v m d Hfx Hcfg Hctx.
  destruct (remove_diff_disk_spec g w v m d Hctx Hcfg) as [wF [mF [rF [vpost [HffF [HctxF [_ HrF]]]]]]].
  exists vpost. split; [rewrite HffF; apply HctxF |].
  assert (HFO : FOut g v vpost (ff (remove_diff_disk g m d) w)).
  { eapply FOut_of_ff; [exact HffF | apply HctxF | intros H; apply (HrF H)]. }
  split; [exact HFO |].
  destruct (ctx_shape g w v m Hctx) as [n [id0 [d0 [tl0 [c [Hchain0 [Hvh [Hmh [Hsnaps [Hnd [Hndi [Hvol [Hcnt [Hlink [Hlen [Hd0 Hpar]]]]]]]]]]]]]]]].
  pose proof (cx_rec _ _ _ _ Hctx) as Hrec. pose proof (cx_ag _ _ _ _ Hctx) as Hag.
  pose proof Hag as [Hinfo [Hdisks [Hchild [Hfixch Hact]]]].
  revert HffF HFO. unfold remove_diff_disk.
  destruct (negb (mode_eqb (m_mode m) RW)) eqn:Em; [intros; apply FA_ret |].
  destruct (odname_eqb (Some d) (i_head (m_info m))) eqn:Eh; [intros; apply FA_ret |].
  destruct (odname_eqb (i_parent (m_info m)) (Some d)) eqn:Ep; [intros; apply FA_ret |].
  destruct (match m_disks m d with Some x => match d_parent x with None => true | Some _ => false end | None => false end) eqn:Eb;
    [intros; apply FA_ret |].
  intros HffF HFO.
  assert (Hdh : d <> Head n).
  { intro E. subst d. rewrite Hmh, odname_eqb_refl in Eh. discriminate. }
  destruct (m_disks m d) as [dd |] eqn:Hmd.
  - assert (Hin : In d (names_of_chain (cv_chain v))).
    { rewrite Hdisks in Hmd. destruct (find_mb d (cv_chain v)) as [mb |] eqn:Hf; [| discriminate].
      destruct (find_mb_some_in _ _ _ Hf) as [Hi Hn]. rewrite <- Hn. apply in_map. exact Hi. }
    destruct (split_at_member d (cv_chain v) Hin) as [l1 [cmb [dmb [l2 [Hsplit Hdn]]]]].
    { rewrite Hchain0. cbn. congruence. }
    destruct l1 as [| a l1'].
    { exfalso. rewrite Hsplit in Hlink, Hchain0. cbn [app] in Hlink, Hchain0.
      cbn [linked] in Hlink. destruct Hlink as [_ [_ [Hp0 _]]].
      inversion Hchain0 as [[Hc0 Ht0]]. rewrite Hc0 in Hp0. cbn [mb_disk] in Hp0.
      destruct Hinfo as [_ [_ [_ [Hip _]]]]. rewrite Hip, Hpar, Hp0, Hdn, odname_eqb_refl in Ep. discriminate. }
    subst d.
    destruct (rdn_spec g w v m a l1' cmb dmb l2 Hctx Hsplit) as [w2 [Hff2 [Hrec2 [_ [[vmid [Hrmid Hvmid]] [Hw2 [K1 [Hshape [HK1f HK1ok]]]]]]]]].
    set (vp := mkview (cv_info v) (rm_post (a :: l1') cmb dmb l2)) in *.
    set (m' := rm_mem g m (mb_name dmb) (mb_name cmb) (rm_cd' (mb_disk dmb) (mb_disk cmb)) (rm_ppd (mb_disk dmb) l2)) in *.
    set (w1 := enc_fs w (Meta (mb_name cmb)) (IDisk (rm_cd' (mb_disk dmb) (mb_disk cmb)))) in *.
    pose proof Hnd as Hnd2. rewrite Hsplit in Hnd2.
    destruct (rm_post_shape a l1' cmb dmb l2 Hnd2) as [rest [Hshp [Hnames Hids]]].
    pose proof Hnd2 as Hndn. rewrite names_app_mid in Hndn.
    destruct (nodup_mid _ _ _ _ Hndn) as [Hcd [Hd1 [Hd2 [Hc1 [Hc2 Hnd']]]]].
    assert (Hd_post : ~ In (mb_name dmb) (names_of_chain (cv_chain vp))).
    { subst vp. cbn [cv_chain]. rewrite Hnames. intro H. apply in_app_or in H.
      destruct H as [H | [H | H]]; [exact (Hd1 H) | exact (Hcd H) | exact (Hd2 H)]. }
    destruct (rm_offchain g w2 vp vp (mb_name dmb) m' Ok Hrec2 Hd_post) as [w3 [Hff3 [Hrec3 _]]].
    assert (Hvp : vpost = vp).
    { rewrite ff_bind, Hff2 in HffF. cbn [is_ok res_eqb negb] in HffF. rewrite Hff3 in HffF. inversion HffF; subst wF.
      pose proof (cx_rec _ _ _ _ HctxF) as Hq. rewrite Hrec3 in Hq. inversion Hq. reflexivity. }
    rewrite Hvp in *. clear Hvp.
    assert (HFA3 : FA g vp vp (fun _ => False) (e2 <- rm_disk (Some (mb_name dmb));; Ret (m', e2)) w2).
    { apply FA_errB with (S := fun x => x = Img (mb_name dmb) \/ x = Meta (mb_name dmb)) (w0 := w2);
        [exact Hrec2 | | apply only_on_refl | apply errB_rm_tail; auto |].
      - intros x [Hx | Hx] Hf; subst x; [apply footprint_img in Hf | apply footprint_meta in Hf]; exact (Hd_post Hf).
      - rewrite Hff3. exists vp. cbn [fst snd]. split; [exact Hrec3 | split; [left; apply veq_refl | intros; apply veq_refl]]. }
    assert (Habort : forall wk vk, recover g wk = Some vk -> (veq vk v \/ veq vk vp) ->
              FOut g v vp (wk, @Aborted (mem * res) Fatal)).
    { intros wk vk H1 H2. exists vk. cbn [fst snd]. split; [exact H1 | split; [exact H2 | intros; discriminate]]. }
    intros j c0 kont wk e Hs Ht He _. rewrite step_at_bind in Hs. rewrite Hshape in Hs.
    destruct (step_at (bind (encode_to_file g (IDisk (rm_cd' (mb_disk dmb) (mb_disk cmb))) (Meta (mb_name cmb))) K1) w j)
      as [[[c' kontR] wk'] |] eqn:Hs1.
    + inversion Hs; subst c' wk'. subst kont. clear Hs.
      destruct (enc_step_cases _ g (IDisk (rm_cd' (mb_disk dmb) (mb_disk cmb))) (Meta (mb_name cmb)) w K1 j c0 kontR wk Hfx (or_intror (ex_intro _ (mb_name cmb) eq_refl)) I Hs1)
        as [[Hj [Hoow Hk]] | [[Hj [Hwk Hk]] | Hs2]].
      * rewrite ff_bind, Hk, HK1f. cbn [ff fst snd]. apply Habort with (vk := v); [| left; apply veq_refl].
        eapply recover_only_on; [exact Hrec | exact Hoow |]. intros x Hx Hf. cbn in Hx. subst x. exact (footprint_tmp _ _ Hf).
      * rewrite ff_bind, Hk, HK1f. cbn [ff fst snd]. subst wk. apply Habort with (vk := vmid); [exact Hrmid | right; exact Hvmid].
      * fold w1 in Hs2. fold w1 in Hw2.
        destruct (rm_ppd (mb_disk dmb) l2) as [[p pd'] |] eqn:Eppd.
        2:{ destruct HK1ok as [a0 Ha0]. rewrite Ha0 in Hs2. discriminate. }
        destruct HK1ok as [R [K2 [HK1ok [HR [HK2f HK2ok]]]]]. rewrite HK1ok in Hs2. rewrite step_at_bind in Hs2.
        destruct (step_at (bind (encode_to_file g (IDisk pd') (Meta p)) R) w1 (j - 5)) as [[[c' kontRR] wk'] |] eqn:Hs3.
        -- inversion Hs2; subst c' wk'. subst kontR. clear Hs2.
           destruct (enc_step_cases _ g (IDisk pd') (Meta p) w1 R (j - 5) c0 kontRR wk Hfx (or_intror (ex_intro _ p eq_refl)) I Hs3)
             as [[Hj [Hoow Hk]] | [[Hj [Hwk Hk]] | Hs4]].
           ++ destruct (HR Failed) as [m3 Hm3]. rewrite !ff_bind, Hk, Hm3. cbn [ff fst snd]. rewrite HK2f. cbn [ff fst snd].
              apply Habort with (vk := vmid); [| right; exact Hvmid].
              eapply recover_only_on; [exact Hrmid | exact Hoow |]. intros x Hx Hf. cbn in Hx. subst x. exact (footprint_tmp _ _ Hf).
           ++ destruct (HR Failed) as [m3 Hm3]. rewrite !ff_bind, Hk, Hm3. cbn [ff fst snd]. rewrite HK2f. cbn [ff fst snd].
              subst wk. rewrite <- Hw2. apply Habort with (vk := vp); [exact Hrec2 | right; apply veq_refl].
           ++ destruct (HR Ok) as [m3 Hm3]. rewrite Hm3 in Hs4. discriminate.
        -- destruct (HR Ok) as [m3 Hm3]. rewrite ff_bind, ff_encode in Hs2 by (cbn; auto; right; eexists; reflexivity).
           rewrite Hm3 in Hs2. cbn [ff fst snd] in Hs2. destruct (HK2ok m3) as [a0 Ha0]. rewrite Ha0 in Hs2. discriminate.
    + rewrite <- Hshape in Hs. rewrite Hff2 in Hs. cbn [fst snd is_ok res_eqb negb] in Hs.
      destruct (HFA3 _ c0 kont wk e Hs Ht He (fun x => x)) as [vk [G1 [G2 G3]]].
      exists vk. split; [exact G1 | split; [right; destruct G2; assumption | exact G3]].
  - (* not in diskData: only files of that name (if any) are removed; nothing of the chain is touched *)
    assert (Hnot : ~ In d (names_of_chain (cv_chain v))).
    { intro Hin. rewrite Hdisks in Hmd. destruct (find_mb_some d (cv_chain v) Hin) as [mb Hf]. rewrite Hf in Hmd. discriminate. }
    revert HffF HFO. unfold remove_disk_node. rewrite Hmd. cbn [bind is_ok res_eqb negb]. intros HffF HFO.
    apply FA_errB with (S := fun x => x = Img d \/ x = Meta d) (w0 := w); [exact Hrec | | apply only_on_refl | | exact HFO].
    + intros x [Hx | Hx] Hf; subst x; [apply footprint_img in Hf | apply footprint_meta in Hf]; exact (Hnot Hf).
    + apply errB_rm_tail; auto.
Qed.

(** from the [mem * res] level to the operation *)
Lemma fault_ok_lift : forall g (p : prog (mem * res)) w v vpost,
  recover g w = Some v -> recover g (fst (ff p w)) = Some vpost ->
  FOut g v vpost (ff p w) -> FA g v vpost (fun _ => False) p w ->
  fault_ok g (lift p) w.
Proof.
  intros g p w v vpost Hrec Hrp HFO HFA.
  assert (Hffp : ff (lift p) w = (fst (ff p w),
                          match snd (ff p w) with
                          | Done (m', r) => Done (Some m', r, O) | Crashed => Crashed | Aborted x => Aborted x end)).
  { unfold lift. rewrite ff_bind. destruct (ff p w) as [w' [[m' r] | |]]; reflexivity. }
  apply fault_ok_intro with (v := v) (vpost := vpost) (ex := fun _ => False).
  - exact Hrec.
  - rewrite Hffp. exact Hrp.
  - rewrite Hffp. destruct HFO as [vk [H1 [H2 H3]]]. exists vk. cbn [fst snd]. split; [exact H1 | split; [exact H2 |]].
    intros a Ha Hoka. destruct (snd (ff p w)) as [[m' r] | |]; try discriminate.
    inversion Ha; subst a. unfold okO in Hoka. cbn in Hoka. subst r. apply (H3 m'). reflexivity.
  - apply FAO_lift. exact HFA.
  - intros j [].
Qed.

Theorem remove_fault_atomic : forall g w m d,
  fixed g = true -> cfg_ok g -> InvS g (mkst w (Some m)) -> fault_ok g (op_prog g (Some m) (ORemove d)) w.
Proof.
  intros g w m d Hfx Hcfg Hinv. destruct (InvS_ctx g w m Hinv) as [v Hctx].
  destruct (remove_FA g w v m d Hfx Hcfg Hctx) as [vpost [H1 [H2 H3]]].
  cbn [op_prog]. apply fault_ok_lift with (v := v) (vpost := vpost); try assumption. apply Hctx.
Qed.

(** ** Revert, and the open path under one failing call *)

(** [errQ Q p w]: whichever traced call of [p] (run from [w]) fails, what follows either changes
    no name and ends with a [Q] result (the failure is reported at once), or is exactly the
    fault-free remainder (the failure is masked, as when os.OpenFile(O_RDWR) fails and the retry
    with O_CREATE succeeds).  No statement about the state at the failing call is made: that is
    what the crash-atomicity results supply. *)
Definition NoN (n : name) : Prop := False.

Definition errQ {A} (Q : A -> Prop) (p : prog A) (w : fs) : Prop :=
  forall j c kont wk e, step_at p w j = Some (c, kont, wk) -> traced c = true -> EE e ->
    withinQ NoN Q (kont (RErr e)) \/ ff (kont (RErr e)) wk = ff p w.

Lemma errQ_ret : forall A (Q : A -> Prop) a w, errQ Q (Ret a) w.
Proof. intros A Q a w j c kont wk e H. discriminate. Qed.

Lemma errQ_abort : forall A (Q : A -> Prop) x w, errQ Q (Abort x) w.
Proof. intros A Q a w j c kont wk e H. discriminate. Qed.

Lemma errQ_bind : forall A B (Q : A -> Prop) (R : B -> Prop) (p : prog A) (f : A -> prog B) w,
  errQ Q p w ->
  (forall b, Q b -> withinQ NoN R (f b)) ->
  (forall a, snd (ff p w) = Done a -> errQ R (f a) (fst (ff p w))) ->
  errQ R (bind p f) w.
Proof.
  intros A B Q R p f w Hp Hq Hf j c kont wk e Hs Ht He. rewrite step_at_bind in Hs.
  destruct (step_at p w j) as [[[c' kont'] wk'] |] eqn:Hsp.
  - inversion Hs; subst c' wk'. subst kont. destruct (Hp j c kont' wk e Hsp Ht He) as [H2 | H2].
    + left. eapply withinQ_bind; [exact H2 | exact Hq].
    + right. rewrite !ff_bind, H2. reflexivity.
  - destruct (snd (ff p w)) as [a | |] eqn:Ho; try discriminate.
    destruct (Hf a eq_refl _ c kont wk e Hs Ht He) as [H2 | H2]; [left; exact H2 | right].
    rewrite H2, ff_bind. destruct (ff p w) as [w1 o]. cbn [snd fst] in *. subst o. reflexivity.
Qed.

Lemma errQ_do : forall A (Q : A -> Prop) c (k : reply -> prog A) w,
  (traced c = true -> forall e, EE e -> withinQ NoN Q (k (RErr e)) \/ ff (k (RErr e)) w = ff (Do c k) w) ->
  errQ Q (k (snd (apply_call w c))) (fst (apply_call w c)) ->
  errQ Q (Do c k) w.
Proof.
  intros A Q c k w H0 Hk j c' kont wk e Hs Ht He. cbn [step_at] in Hs. destruct j as [| j].
  - inversion Hs; subst. apply H0; assumption.
  - destruct (apply_call w c) as [w1 r] eqn:Hc. cbn [fst snd] in *.
    destruct (Hk j c' kont wk e Hs Ht He) as [H2 | H2]; [left; exact H2 | right]. rewrite H2. cbn [ff]. rewrite Hc. reflexivity.
Qed.

Lemma errQ_weaken : forall A (Q R : A -> Prop) p w, (forall a, Q a -> R a) -> errQ Q p w -> errQ R p w.
Proof.
  intros A Q R p w HQR H j c kont wk e Hs Ht He. destruct (H j c kont wk e Hs Ht He) as [H2 | H2]; [left | right; exact H2].
  eapply withinQ_weaken; [| exact HQR | exact H2]. auto.
Qed.

Lemma errQ_sync_dir : forall w, errQ notOk sync_dir w.
Proof.
  intros w. unfold sync_dir. apply errQ_do; [intros _ e He; left; cbn; unfold notOk; discriminate |].
  cbn. apply errQ_ret.
Qed.

Lemma errQ_encode : forall g c n w, fixed g = true -> meta_name n -> meta_content c -> errQ notOk (encode_to_file g c n) w.
Proof.
  intros g c n w Hfx Hn Hc. destruct (meta_name_tmp n Hn) as [Hne Himg].
  unfold encode_to_file. rewrite Hfx. destruct c; try contradiction.
  all: apply errQ_do; [intros _ e He; left; cbn; unfold notOk; discriminate |].
  all: cbn [apply_call fst snd]; rewrite Himg; cbn [fst snd is_err].
  all: apply errQ_do; [intros _ e He; left; cbn; split; [intros n0 []| intros; unfold notOk; discriminate] |].
  all: cbn [apply_call fst snd]; rewrite set_file_eq; cbn [fst snd is_err andb].
  all: apply errQ_do; [intros Hx; discriminate |].
  all: cbn [apply_call fst snd is_err].
  all: apply errQ_do; [intros _ e He; left; cbn; unfold notOk; discriminate |].
  all: cbn [apply_call fst snd]; rewrite set_file_eq; cbn [fst snd is_err].
  all: apply errQ_sync_dir.
Qed.

Lemma errQ_rm_disk : forall d w, errQ notOk (rm_disk d) w.
Proof.
  intros [x |] w; [| apply errQ_ret]. unfold rm_disk.
  assert (Hr : forall w0 a, enoent_or_ok (snd (apply_call w0 (CUnlink a))) = true).
  { intros w0 a. cbn. destruct (files w0 a); reflexivity. }
  apply errQ_do; [intros _ e He; left; rewrite (EE_not_enoent e He); cbn; unfold notOk; discriminate |].
  rewrite Hr. cbn [negb].
  apply errQ_do; [intros _ e He; left; rewrite (EE_not_enoent e He); cbn; unfold notOk; discriminate |].
  rewrite Hr. cbn [negb]. apply errQ_sync_dir.
Qed.

(** os.OpenFile(O_RDWR) failing is masked by the retry with O_CREATE *)
Lemma errQ_open_file : forall n (Q : bool -> Prop) w, Q false -> errQ Q (open_file n) w.
Proof.
  intros n Q w HQ. unfold open_file. apply errQ_do.
  - intros _ e He. right. cbn [ff apply_call]. destruct (files w n) as [i |] eqn:Hf; cbn [fst snd is_err ff apply_call]; rewrite ?Hf; reflexivity.
  - destruct (is_err (snd (apply_call w (COpenRW n)))); [| apply errQ_ret].
    apply errQ_do; [| apply errQ_ret]. intros _ e He. left. cbn. exact HQ.
Qed.

Lemma errQ_untraced : forall A (Q : A -> Prop) c (k : reply -> prog A) w,
  traced c = false -> errQ Q (k (snd (apply_call w c))) (fst (apply_call w c)) -> errQ Q (Do c k) w.
Proof. intros A Q c k w Ht Hk. apply errQ_do; [intros Hx; congruence | exact Hk]. Qed.

Lemma errQ_init_rev : forall w, errQ (fun o : option Z => o = None) init_revision_counter w.
Proof.
  intros w. unfold init_revision_counter. apply errQ_untraced; [reflexivity |].
  assert (Hread : forall w0, errQ (fun o : option Z => o = None)
            (Do CPreadCounter (fun r => match r with RIno (ICounter v) => Ret (Some v) | _ => Ret None end)) w0).
  { intros w0. apply errQ_untraced; [reflexivity |]. destruct (snd (apply_call w0 CPreadCounter)) as [| | | [] |]; apply errQ_ret. }
  destruct (is_err (snd (apply_call w (CStat Counter)))).
  - eapply errQ_bind with (Q := fun b => b = false).
    + apply errQ_open_file. reflexivity.
    + intros b Hb. subst b. cbn. reflexivity.
    + intros okf _. destruct (negb okf); [apply errQ_ret |].
      apply errQ_do; [intros _ e He; left; cbn; reflexivity |].
      destruct (is_err _); [apply errQ_ret | apply Hread].
  - apply errQ_do; [intros _ e He; left; cbn; reflexivity |].
    destruct (is_err _); [apply errQ_ret | apply Hread].
Qed.

Lemma errQ_get_rev : forall (Q : Z -> Prop) w, errQ Q get_rev w.
Proof.
  intros Q w. unfold get_rev. apply errQ_untraced; [reflexivity |].
  destruct (snd (apply_call w CPreadCounter)) as [| | | [] |]; apply errQ_ret.
Qed.

Lemma errQ_read_chain : forall g fuel present m x w, fixed g = true -> errQ notOkR (read_chain g fuel present m x) w.
Proof.
  intros g fuel. induction fuel as [| fuel IH]; intros present m x w Hfx; cbn [read_chain]; [apply errQ_abort |].
  destruct (negb (present (Meta x))); [apply errQ_ret |].
  apply errQ_do; [intros _ e He; left; cbn; unfold notOkR; cbn; discriminate |].
  destruct (snd (apply_call w (CReadFile (Meta x)))) as [| | | [i | d | | |] |]; try apply errQ_ret.
  eapply errQ_bind with (Q := fun t : disk * res => snd t <> Ok).
  - destruct (Z.leb (d_rev d) 1); [| apply errQ_ret].
    eapply errQ_bind with (Q := fun _ : Z => False); [apply errQ_get_rev | intros b [] |].
    intros rv _. eapply errQ_bind with (Q := notOk).
    + apply errQ_encode; [exact Hfx | right; eexists; reflexivity | exact I].
    + intros b Hb. cbn. exact Hb.
    + intros a _. apply errQ_ret.
  - intros [d1 e1] Hb. cbn in Hb. cbn. destruct e1; try congruence; cbn; unfold notOkR; cbn; discriminate.
  - intros [d1 e1] _. destruct (negb (is_ok e1)); [apply errQ_ret |].
    destruct (d_parent d1); [apply IH; exact Hfx | apply errQ_ret].
Qed.

Definition notOk3 (t : mem * bool * res) : Prop := snd t <> Ok.

Lemma errQ_read_metadata : forall g m w, fixed g = true -> errQ notOk3 (read_metadata g m) w.
Proof.
  intros g m w Hfx. unfold read_metadata.
  apply errQ_do; [intros _ e He; left; cbn; unfold notOk3; cbn; discriminate |].
  destruct (snd (apply_call w CReadDir)) as [| | | | present]; try apply errQ_ret.
  destruct (negb (present Vol)); [apply errQ_ret |].
  apply errQ_do; [intros _ e He; left; cbn; unfold notOk3; cbn; discriminate |].
  destruct (snd (apply_call _ (CReadFile Vol))) as [| | | [i | d | | |] |]; try apply errQ_ret.
  destruct (i_head i) as [h |]; [| apply errQ_ret].
  eapply errQ_bind with (Q := notOkR).
  - apply errQ_read_chain. exact Hfx.
  - intros [m2 e2] Hb. unfold notOkR in Hb. cbn in Hb. destruct e2; try congruence; cbn; unfold notOk3; cbn; discriminate.
  - intros [m2 e2] _. destruct (negb (is_ok e2)); apply errQ_ret.
Qed.

Lemma errQ_open_all : forall l w, errQ (fun b => b = false) (open_all l) w.
Proof.
  induction l as [| x t IH]; intros w; cbn [open_all]; [apply errQ_ret |].
  eapply errQ_bind with (Q := fun b => b = false).
  - apply errQ_open_file. reflexivity.
  - intros b Hb. subst b. cbn. reflexivity.
  - intros okf _. destruct okf; [apply IH | apply errQ_ret].
Qed.

Lemma errQ_open_live_chain : forall g m w, errQ notOkR (open_live_chain g m) w.
Proof.
  intros g m w. unfold open_live_chain. destruct (mchain g m) as [ch |]; [| apply errQ_ret].
  destruct (Nat.ltb (maxlen g) (length ch)); [apply errQ_ret |].
  eapply errQ_bind with (Q := fun b => b = false); [apply errQ_open_all | |].
  - intros b Hb. subst b. cbn. unfold notOkR. cbn. discriminate.
  - intros okf _. destruct okf; apply errQ_ret.
Qed.

Definition notOkC (a : option mem * res) : Prop := snd a <> Ok.

Lemma errQ_construct : forall g size now w c w2 m2, fixed g = true ->
  files w Counter = Some (ICounter c) ->
  ff (read_metadata g (mkmem (empty_info size) no_disks no_children [] INIT c)) w = (w2, Done (m2, true, Ok)) ->
  errQ notOkC (construct g size now) w.
Proof.
  intros g size now w c w2 m2 Hfx Hc Hffrm. unfold construct.
  apply errQ_do; [intros _ e [He | He]; subst e; left; cbn; unfold notOkC; cbn; discriminate |].
  cbn [apply_call fst snd].
  destruct (init_rev_spec w c Hc) as [Hir _].
  eapply errQ_bind with (Q := fun o : option Z => o = None); [apply errQ_init_rev | intros b Hb; subst b; cbn; unfold notOkC; cbn; discriminate |].
  intros oc Hoc. rewrite Hir in *. cbn [fst snd] in *. inversion Hoc; subst oc.
  eapply errQ_bind with (Q := notOk3); [apply errQ_read_metadata; exact Hfx | |].
  { intros [[m1 ex] e1] Hb. unfold notOk3 in Hb. cbn in Hb. destruct e1; try congruence; cbn; unfold notOkC; cbn; discriminate. }
  intros a Ha. rewrite Hffrm in *. cbn [fst snd] in *. inversion Ha; subst a. cbn [is_ok res_eqb negb].
  eapply errQ_bind with (Q := notOkR); [apply errQ_open_live_chain | |].
  { intros [m3 e2] Hb. unfold notOkR in Hb. cbn in Hb. destruct e2; try congruence; cbn; unfold notOkC; cbn; discriminate. }
  intros [m3 e2] _. destruct (negb (is_ok e2)); [apply errQ_ret |].
  destruct (i_head (m_info m3)) as [h |]; [| apply errQ_abort].
  destruct (m_disks m3 h) as [hd |]; [| apply errQ_abort].
  eapply errQ_bind with (Q := notOk); [apply errQ_encode; [exact Hfx | left; reflexivity | exact I] | |].
  { intros b Hb. unfold notOk in Hb. destruct b; try congruence; cbn; unfold notOkC; cbn; discriminate. }
  intros e3 _. destruct (is_ok e3); apply errQ_ret.
Qed.

(** fault atomicity from crash atomicity: when every state of the run is good and failures are
    reported at once (or masked), one failing call leaves a good state *)
Lemma tail_fault : forall A (okp Q : A -> Prop) g v vpost (p : prog A) w,
  (forall a, Q a -> ~ okp a) ->
  errQ Q p w -> Forall (Good g v vpost) (states p w) -> FOutP okp g v vpost (ff p w) ->
  forall j c kont wk e, step_at p w j = Some (c, kont, wk) -> traced c = true -> EE e ->
    FOutP okp g v vpost (ff (kont (RErr e)) wk).
Proof.
  intros A okp Q g v vpost p w HQ Hq Hst Hff j c kont wk e Hs Ht He.
  destruct (Hq j c kont wk e Hs Ht He) as [H | H]; [| rewrite H; exact Hff].
  pose proof (step_at_state _ p w j c kont wk Hs) as Hin.
  eapply Forall_forall in Hst; [| exact Hin]. destruct Hst as [vk [Hr Hv]].
  exists vk. split; [| split; [exact Hv |]].
  - eapply recover_only_on; [exact Hr | apply within_ff; eapply withinQ_within; exact H | intros n []].
  - intros a Ha Hok. exfalso. apply (HQ a); [| exact Hok]. exact (withinQ_ff _ _ _ _ wk a H Ha).
Qed.

Lemma FOutP_O : forall g v vpost x, FOutP okO g v vpost x <-> FOutO g v vpost x.
Proof. intros. unfold FOutP, FOutO. tauto. Qed.

(** Open *)
Theorem open_fault_atomic : forall g w,
  cfg_ok g -> fixed g = true -> InvS g (mkst w None) -> fault_ok g (op_prog g None OOpen) w.
Proof.
  intros g w Hcfg Hfx [v [Hrec [Hwf [Hfr _]]]]. cbn [s_fs s_mem] in *. cbn [op_prog].
  destruct (recover_elim g w v Hrec) as [Hvol _].
  assert (Hcs : forall size, exists wF mF c,
            files w Counter = Some (ICounter c)
            /\ ff (construct g size 0) w = (wF, Done (Some mF, Ok))
            /\ recover g wF = Some (mkview (set_dirty_rebuilding (cv_info v) true (i_rebuilding (cv_info v))) (norm_chain c (cv_chain v)))
            /\ Forall (Good g v (mkview (set_dirty_rebuilding (cv_info v) true (i_rebuilding (cv_info v))) (norm_chain c (cv_chain v))))
                      (states (construct g size 0) w)
            /\ errQ notOkC (construct g size 0) w).
  { intros size. destruct (construct_spec g w v size 0 Hrec Hwf Hfr Hcfg) as [wF [mF [c [Hc HF]]]].
    cbn zeta in HF. destruct HF as [HffF [HctxF [_ [_ [HstF [_ [w2 [m2 Hrm]]]]]]]].
    exists wF, mF, c. split; [exact Hc |]. split; [exact HffF |]. split; [apply HctxF |]. split; [exact HstF |].
    eapply errQ_construct; eassumption. }
  destruct (Hcs (i_size (cv_info v))) as [wF [mF [c [Hc [HffF [HrF [HstF HqF]]]]]]].
  set (vF := mkview (set_dirty_rebuilding (cv_info v) true (i_rebuilding (cv_info v))) (norm_chain c (cv_chain v))) in *.
  assert (Hffo : ff (open_volume g) w = (wF, Done (Some mF, Ok, O))).
  { unfold open_volume. cbn [ff apply_call]. rewrite Hvol. rewrite ff_bind, HffF. reflexivity. }
  assert (HFO : FOutO g v vF (ff (open_volume g) w)).
  { rewrite Hffo. exists vF. cbn [fst snd]. split; [exact HrF | split; [right; apply veq_refl | intros; apply veq_refl]]. }
  apply fault_ok_intro with (v := v) (vpost := vF) (ex := fun _ => False); [exact Hrec | rewrite Hffo; exact HrF | exact HFO | | intros j []].
  intros j c0 kont wk e Hs Ht He _. unfold open_volume in Hs. destruct j as [| j]; cbn [step_at] in Hs.
  - (* ReadInfo fails: the size argument is 0, which the metadata read overrides *)
    inversion Hs; subst c0 wk. subst kont.
    change (FOutO g v vF (ff (bind (construct g 0%N 0) (fun t_ : option mem * res => let '(om, e0) := t_ in Ret (om, e0, O))) w)).
    destruct (Hcs 0%N) as [wF' [mF' [c' [Hc' [HffF' [HrF' _]]]]]].
    assert (c' = c) by congruence. subst c'. rewrite ff_bind, HffF'. cbn [ff fst snd].
    exists vF. split; [exact HrF' | split; [right; apply veq_refl | intros; apply veq_refl]].
  - cbn [apply_call] in Hs. rewrite Hvol in Hs. cbn [fst snd] in Hs.
    set (K := fun t_ : option mem * res => let '(om, e0) := t_ in Ret (om, e0, O)) in *.
    rewrite (step_at_ret_cont _ _ (construct g (i_size (cv_info v)) 0) K w j) in Hs by (intros [om e0]; eexists; reflexivity).
    destruct (step_at (construct g (i_size (cv_info v)) 0) w j) as [[[c' kont'] wk'] |] eqn:Hsc; [| discriminate].
    inversion Hs; subst c' wk'. subst kont. clear Hs.
    assert (HFP : FOutP (fun a : option mem * res => snd a = Ok) g v vF (ff (kont' (RErr e)) wk)).
    { eapply tail_fault with (Q := notOkC) (p := construct g (i_size (cv_info v)) 0) (w := w); try eassumption.
      - intros a Ha Hok. exact (Ha Hok).
      - rewrite HffF. exists vF. cbn [fst snd]. split; [exact HrF | split; [right; apply veq_refl | intros; apply veq_refl]]. }
    destruct HFP as [vk [G1 [G2 G3]]]. rewrite ff_bind. destruct (ff (kont' (RErr e)) wk) as [w' o]. cbn [fst snd] in *.
    exists vk. destruct o as [[om e0] | |]; cbn [ff fst snd]; (split; [exact G1 | split; [exact G2 |]]).
    + intros a Ha Hok. inversion Ha; subst a. unfold okO in Hok. cbn in Hok. apply (G3 (om, e0) eq_refl). exact Hok.
    + intros a Ha. discriminate.
    + intros a Ha. discriminate.
Qed.

(** Revert *)
Lemma states_bind_incl : forall A B (p : prog A) (f : A -> prog B) w a x,
  snd (ff p w) = Done a -> In x (states (f a) (fst (ff p w))) -> In x (states (bind p f) w).
Proof.
  induction p as [a0 | e | c k IH]; intros f w a x Ha Hin; cbn [ff fst snd bind] in *.
  - inversion Ha; subst. exact Hin.
  - discriminate.
  - rewrite states_Do. destruct (apply_call w c) as [w1 r]. right. eapply IH; eassumption.
Qed.

Lemma enc_fs_twice : forall w n a b x, files (enc_fs (enc_fs w n a) n b) x = files (enc_fs w n b) x.
Proof.
  intros w n a b x. unfold enc_fs. cbn [files]. unfold updf.
  destruct (name_eqb (tmp_of n) x); destruct (name_eqb n x); reflexivity.
Qed.

Lemma FA_untraced : forall g v vpost c (k : reply -> prog (mem * res)) w,
  traced c = false -> fst (apply_call w c) = w ->
  FA g v vpost (fun _ => False) (k (snd (apply_call w c))) w -> FA g v vpost (fun _ => False) (Do c k) w.
Proof.
  intros g v vpost c k w Ht Hw Hk j c' kont wk e Hs Ht' He Hex. cbn [step_at] in Hs. destruct j as [| j].
  - inversion Hs; subst. congruence.
  - rewrite (surjective_pairing (apply_call w c)), Hw in Hs. exact (Hk j c' kont wk e Hs Ht' He Hex).
Qed.

Theorem revert_FA : forall g w v m parent cr,
  fixed g = true -> cfg_ok g -> ctx g w v m ->
  (fix_rev g = true
   \/ (In parent (names_of_chain (cv_chain v)) /\ Some parent <> i_head (cv_info v))
   \/ files w (Img parent) = None) ->
  exists vpost, recover g (fst (ff (revert_disk g m parent cr) w)) = Some vpost
    /\ FOut g v vpost (ff (revert_disk g m parent cr) w)
    /\ FA g v vpost (fun _ => False) (revert_disk g m parent cr) w.
Proof.
  intros g w v m parent cr Hfx Hcfg Hctx Harg.
  destruct (revert_disk_spec g w v m parent cr Hctx Hcfg Harg) as [wF [mF [rF [vpost [HffF [HctxF [HstF HrF]]]]]]].
  exists vpost. split; [rewrite HffF; apply HctxF |].
  assert (HFO : FOut g v vpost (ff (revert_disk g m parent cr) w)).
  { eapply FOut_of_ff; [exact HffF | apply HctxF | intros H; apply (HrF H)]. }
  split; [exact HFO |].
  destruct (ctx_shape g w v m Hctx) as [n [id0 [d0 [tl0 [c [Hchain [Hvh [Hmh [Hsnaps [Hnd [Hndi [Hvol [Hcnt [Hlink [Hlen [Hd0 Hpar]]]]]]]]]]]]]]]].
  pose proof (cx_rec _ _ _ _ Hctx) as Hrec. pose proof (cx_ag _ _ _ _ Hctx) as Hag. pose proof (cx_fresh _ _ _ _ Hctx) as Hfr.
  pose proof Hag as [Hinfo [Hdisks [Hchild [Hfixch Hact]]]].
  revert HffF HFO HstF. unfold revert_disk.
  destruct (fix_rev g && (match m_disks m parent with Some _ => false | None => true end
                          || odname_eqb (Some parent) (i_head (m_info m)))) eqn:Efx; [intros; apply FA_ret |].
  intros HffF HFO HstF.
  apply FA_untraced; [reflexivity | apply stat_same |].
  cbn [ff] in HffF, HFO. rewrite states_Do in HstF.
  rewrite (surjective_pairing (apply_call w (CStat (Img parent)))), stat_same in HffF, HFO, HstF.
  apply Forall_inv_tail in HstF.
  destruct (files w (Img parent)) as [ci |] eqn:Hip.
  2:{ cbn [apply_call]. rewrite Hip. cbn [snd is_err]. apply FA_ret. }
  assert (Hin : In parent (names_of_chain (cv_chain v)) /\ parent <> Head n).
  { destruct Harg as [Hfr0 | [[H1 H2] | H3]]; [| split; [exact H1 | intro E; apply H2; rewrite Hvh, E; reflexivity] | congruence].
    rewrite Hfr0 in Efx. cbn [andb] in Efx. apply Bool.orb_false_iff in Efx. destruct Efx as [E1 E2].
    split.
    - rewrite Hdisks in E1. destruct (find_mb parent (cv_chain v)) as [mb |] eqn:Hf; [| discriminate].
      destruct (find_mb_some_in _ _ _ Hf) as [Hi Hn]. rewrite <- Hn. apply in_map. exact Hi.
    - intro E. subst parent. rewrite Hmh, odname_eqb_refl in E2. discriminate. }
  destruct Hin as [Hin Hnothead].
  assert (Hin_tl : In parent (names_of_chain tl0)).
  { rewrite Hchain in Hin. cbn in Hin. destruct Hin as [E | H]; [congruence | exact H]. }
  assert (Hstat_ok : is_err (snd (apply_call w (CStat (Img parent)))) = false).
  { cbn [apply_call]. rewrite Hip. destruct ci; reflexivity. }
  rewrite Hstat_ok in *. rewrite Hmh in *.
  (* createNewHead *)
  set (nh := Head (S n)) in *.
  assert (Hnh : ~ In nh (names_of_chain (cv_chain v))).
  { rewrite Hchain. cbn. intros [H | H]; [inversion H; lia | exact (snap_not_head tl0 (S n) Hsnaps H)]. }
  set (S1 := fun x => In x [Img nh; Meta nh; MetaTmp nh]).
  assert (Hdis1 : forall x, S1 x -> ~ footprint (cv_chain v) x).
  { intros x Hx Hf. subst S1. cbn in Hx. destruct Hx as [Hx | [Hx | [Hx | []]]]; subst x.
    - apply footprint_img in Hf. exact (Hnh Hf).
    - apply footprint_meta in Hf. exact (Hnh Hf).
    - exact (footprint_tmp _ _ Hf). }
  eapply FA_bind with (S := S1) (Q := Qcnh nh);
    [exact Hrec | exact Hdis1 | apply only_on_refl | apply errB_create_new_head; [exact Hfx | subst S1; cbn; auto ..] | | exact HFO |].
  { intros [[nhn nd] e1] [Hq1 Hq2]. cbn [fst snd] in *.
    destruct e1; [exfalso; apply Hq1; reflexivity | |]; cbn [is_ok res_eqb negb]; cbn; unfold notOkR; cbn; discriminate. }
  intros a1 Ha1.
  destruct (cnh_ff g m n (Some parent) cr w c Hcnt) as [Hff1 | [w1 [Hff1 [K1 [K2 [K3 [K4 K5]]]]]]]; rewrite Hff1 in *; cbn [fst snd] in *; inversion Ha1; subst a1.
  { split; [apply only_on_refl |]. cbn [is_ok res_eqb negb]. apply FA_ret. }
  fold nh in K1, K2, K3, K4.
  set (nd := mkdisk (Some parent) false false cr c) in *.
  assert (Hoo1 : only_on S1 w w1).
  { intros x Hx. apply K4; intro; subst x; apply Hx; subst S1; cbn; auto. }
  split; [exact Hoo1 |]. cbn [is_ok res_eqb negb].
  assert (Hrec1 : recover g w1 = Some v) by (eapply recover_only_on; eauto).
  rewrite ff_bind, Hff1 in HffF, HFO. cbn [is_ok res_eqb negb] in HffF, HFO.
  match goal with |- FA _ _ _ _ ?P _ => assert (HstE : Forall (Good g v vpost) (states P w1)) end.
  { apply Forall_forall. intros x Hx. eapply Forall_forall in HstF; [exact HstF |].
    eapply states_bind_incl with (a := (Some nh, nd, Ok)); [rewrite Hff1; reflexivity | rewrite Hff1; exact Hx]. }
  clear HstF.
  (* the commit: volume.meta names the new head *)
  set (info' := mkinfo (i_size (m_info m)) (Some (Head (S n))) true (i_rebuilding (m_info m)) (d_parent nd) (i_checkpoint (m_info m)) (i_rev (m_info m))) in *.
  set (w2 := enc_fs w1 Vol (IVol info')).
  destruct (split_suffix parent tl0 Hin_tl) as [pre [suf [Htl Hsuf]]].
  set (chain2 := mkmember nh (nextid w) nd :: suf).
  assert (Hlink_suf : linked (files w) suf).
  { rewrite Hchain, Htl in Hlink. apply (linked_suffix (files w) (mkmember (Head n) id0 d0 :: pre) suf). exact Hlink. }
  assert (Hsuf_names : forall y, In y (names_of_chain suf) -> In y (names_of_chain tl0)).
  { intros y Hy. rewrite Htl. unfold names_of_chain. rewrite map_app. apply in_or_app. right. exact Hy. }
  assert (Hlink2 : linked (files w2) chain2).
  { subst chain2. cbn [linked mb_name mb_disk mb_id]. subst w2. rewrite !enc_fs_other by (cbn; discriminate).
    split; [exact K2 |]. split; [eauto |]. split; [subst nd; cbn [d_parent]; symmetry; exact Hsuf |].
    eapply linked_frame; [exact Hlink_suf |]. intros y Hy.
    assert (Hy_tl := Hsuf_names y Hy).
    assert (y <> nh) by (intro; subst y; exact (snap_not_head tl0 (S n) Hsnaps Hy_tl)).
    split; (rewrite enc_fs_other by (cbn; discriminate)); apply K4; congruence. }
  assert (Hlen2 : length chain2 <= maxlen g).
  { subst chain2. cbn [length]. rewrite Hchain, Htl in Hlen. cbn [length] in Hlen. rewrite app_length in Hlen. lia. }
  set (v2 := mkview info' chain2).
  assert (Hc1 : files w1 Counter = Some (ICounter c)) by (rewrite K4 by discriminate; exact Hcnt).
  assert (Hrec2 : recover g w2 = Some v2).
  { subst v2. apply recover_intro with (h := nh) (c := c).
    - subst w2. apply enc_fs_self. left. reflexivity.
    - reflexivity.
    - apply (linked_walk (files w2) chain2 (maxlen g) Hlink2); [subst chain2; discriminate | exact Hlen2].
    - subst w2. rewrite enc_fs_other; [exact Hc1 | discriminate | cbn; discriminate]. }
  assert (Hwf2 : wf_view v2).
  { exists (S n), (nextid w), nd, suf. subst v2 chain2. cbn [cv_chain cv_info].
    split; [reflexivity |]. split; [reflexivity |]. split; [| split; [| split]].
    - apply Forall_forall. intros mb Hmb. eapply Forall_forall in Hsnaps; [exact Hsnaps |]. rewrite Htl. apply in_or_app. right. exact Hmb.
    - cbn [names_of_chain map mb_name]. constructor.
      + intro H. apply (snap_not_head tl0 (S n) Hsnaps). apply Hsuf_names. exact H.
      + rewrite Hchain, Htl in Hnd. cbn [names_of_chain map] in Hnd. inversion Hnd as [| ? ? _ Hnd1]; subst.
        apply (nodup_map_suffix _ _ mb_name pre suf Hnd1).
    - cbn [map mb_id]. constructor.
      + intro H. apply in_map_iff in H. destruct H as [mb [E Hmb]].
        assert (Hmbin : In mb (cv_chain v)) by (rewrite Hchain, Htl; right; apply in_or_app; right; exact Hmb).
        pose proof (ids_lt_fresh g w v Hrec Hfr mb Hmbin). lia.
      + rewrite Hchain, Htl in Hndi. cbn [map] in Hndi. inversion Hndi as [| ? ? _ Hndi1]; subst.
        apply (nodup_map_suffix _ _ mb_id pre suf Hndi1).
    - reflexivity. }
  assert (Hoh2 : ~ In (Head n) (names_of_chain (cv_chain v2))).
  { subst v2 chain2. cbn [cv_chain names_of_chain map mb_name]. intros [E | H]; [inversion E; lia |].
    apply (snap_not_head tl0 n Hsnaps). apply Hsuf_names. exact H. }
  assert (Hdis2 : forall x, In x [Img (Head n); Meta (Head n)] -> ~ footprint (cv_chain v2) x).
  { intros x Hx Hf. cbn in Hx. destruct Hx as [Hx | [Hx | []]]; subst x.
    - apply footprint_img in Hf. exact (Hoh2 Hf).
    - apply footprint_meta in Hf. exact (Hoh2 Hf). }
  destruct (rm_disk_ff w2 (Head n)) as [w3 [Hff3 [H3a [H3b [H3c H3d]]]]].
  assert (Hrm_within : within (fun x => In x [Img (Head n); Meta (Head n)]) (rm_disk (Some (Head n)))).
  { apply withinQ_within with (Q := fun _ => True). apply wq_rm_disk; [| auto]. intros y Hy. inversion Hy; subst. cbn. auto. }
  assert (Hrec3 : recover g w3 = Some v2).
  { pose proof (within_ff _ _ _ w2 Hrm_within) as Hoo. rewrite Hff3 in Hoo. cbn [fst] in Hoo. eapply recover_only_on; eauto. }
  assert (Hfr3 : ids_fresh w3).
  { assert (Hfr1 : ids_fresh w1) by (pose proof (ff_fresh _ (create_new_head g m (Some (Head n)) (Some parent) cr) w Hfr) as H; rewrite Hff1 in H; exact H).
    assert (Hfr2 : ids_fresh w2) by (pose proof (ff_fresh _ (encode_to_file g (IVol info') Vol) w1 Hfr1) as H; rewrite ff_encode in H by (cbn; auto; left; reflexivity); exact H).
    pose proof (ff_fresh _ (rm_disk (Some (Head n))) w2 Hfr2) as H. rewrite Hff3 in H. exact H. }
  destruct (construct_spec g w3 v2 (i_size (m_info m)) 0 Hrec3 Hwf2 Hfr3 Hcfg) as [wC [mC [c' [HcC HC]]]].
  cbn zeta in HC. destruct HC as [_ [_ [_ [_ [_ [_ [w4 [m4 Hffrm]]]]]]]].
  (* the old volume.meta again, whatever state the failed rewrite left *)
  destruct (agree_head g v m Hag) as [Hhd _].
  assert (Hroll : forall wk, (recover g wk = Some v \/ wk = w2) ->
            FOut g v vpost (ff (_ <- encode_to_file g (IVol (m_info m)) Vol;; Ret (m, Failed)) wk)).
  { intros wk Hwk. rewrite ff_bind, ff_encode by (cbn; auto; left; reflexivity). cbn [ff fst snd].
    exists (mkview (m_info m) (cv_chain v)). split; [| split; [left; split; [exact Hinfo | apply Forall2_refl; apply member_sim_refl] | intros; discriminate]].
    destruct Hwk as [Hwk | Hwk].
    - apply recover_vol_rewrite; assumption.
    - subst wk. eapply recover_only_on with (S := NoN) (w := enc_fs w1 Vol (IVol (m_info m)));
        [apply recover_vol_rewrite; assumption | intros x _; apply enc_fs_twice | intros x []]. }
  intros j c0 kont wk e Hs Ht He _.
  destruct (enc_step_cases _ g (IVol info') Vol w1 _ j c0 kont wk Hfx (or_introl eq_refl) I Hs)
    as [[Hj [Hoow Hk]] | [[Hj [Hwk Hk]] | Hs2]].
  - rewrite Hk. cbn [is_ok res_eqb negb]. apply Hroll. left.
    eapply recover_only_on; [exact Hrec1 | exact Hoow |]. intros x Hx Hf. cbn in Hx. subst x. exact (footprint_voltmp _ Hf).
  - rewrite Hk. cbn [is_ok res_eqb negb]. apply Hroll. right. exact Hwk.
  - cbn [is_ok res_eqb negb] in Hs2. fold w2 in Hs2.
    match type of Hs2 with step_at ?P _ _ = _ => set (TAIL := P) in * end.
    assert (Hffe : ff (encode_to_file g (IVol info') Vol) w1 = (w2, Done Ok)) by (apply ff_encode; [left; reflexivity | exact I]).
    assert (HFP : FOutP (fun a : mem * res => snd a = Ok) g v vpost (ff (kont (RErr e)) wk)).
    { eapply tail_fault with (Q := notOkR) (p := TAIL) (w := w2); [| | | | exact Hs2 | exact Ht | exact He].
      - intros a H1 H2. exact (H1 H2).
      - subst TAIL. eapply errQ_bind with (Q := notOk); [apply errQ_rm_disk | |].
        + intros b Hb. destruct b; [exfalso; apply Hb; reflexivity | |]; cbn; unfold notOkR; cbn; discriminate.
        + intros e3 He3. rewrite Hff3 in *. cbn [fst snd] in *. inversion He3; subst e3. cbn [is_ok res_eqb negb].
          eapply errQ_bind with (Q := notOkC); [eapply errQ_construct; eassumption | |].
          * intros [om e4] Hb. unfold notOkC in Hb. cbn in Hb. destruct om as [mn |]; [| cbn; unfold notOkR; cbn; discriminate].
            destruct e4; [exfalso; apply Hb; reflexivity | |]; cbn; unfold notOkR; cbn; discriminate.
          * intros [om e4] _. destruct om as [mn |]; [destruct (is_ok e4) |]; apply errQ_ret.
      - apply Forall_forall. intros x Hx. eapply Forall_forall in HstE; [exact HstE |].
        eapply states_bind_incl with (a := Ok); [exact (f_equal snd Hffe) |].
        change (In x (states TAIL (fst (ff (encode_to_file g (IVol info') Vol) w1)))). rewrite Hffe. exact Hx.
      - rewrite ff_bind, Hffe in HFO. cbn [is_ok res_eqb negb] in HFO. destruct HFO as [vk [G1 [G2 G3]]].
        exists vk. split; [exact G1 | split; [exact G2 |]]. intros [m' r'] Hd Hok. cbn in Hok. subst r'. exact (G3 m' Hd). }
    destruct HFP as [vk [G1 [G2 G3]]]. exists vk. split; [exact G1 | split; [exact G2 |]].
    intros m' Hd. exact (G3 (m', Ok) Hd eq_refl).
Qed.

Theorem revert_fault_atomic : forall g w m parent cr,
  fixed g = true -> cfg_ok g -> InvS g (mkst w (Some m)) -> ok_op g (mkst w (Some m)) (ORevert parent cr) ->
  fault_ok g (op_prog g (Some m) (ORevert parent cr)) w.
Proof.
  intros g w m parent cr Hfx Hcfg Hinv Hok. destruct (InvS_ctx g w m Hinv) as [v Hctx].
  unfold ok_op in Hok. cbn [s_fs s_mem] in Hok. rewrite (cx_rec _ _ _ _ Hctx) in Hok.
  destruct (revert_FA g w v m parent cr Hfx Hcfg Hctx Hok) as [vpost [H1 [H2 H3]]].
  cbn [op_prog]. apply fault_ok_lift with (v := v) (vpost := vpost); try assumption. apply Hctx.
Qed.

(** ** the remaining operations, and all of them together *)

Lemma FA_of_errQ : forall g v vpost ex (p : prog (mem * res)) w,
  errQ notOkR p w -> Forall (Good g v vpost) (states p w) -> FOut g v vpost (ff p w) -> FA g v vpost ex p w.
Proof.
  intros g v vpost ex p w Hq Hst HFO j c kont wk e Hs Ht He _.
  assert (HFP : FOutP (fun a : mem * res => snd a = Ok) g v vpost (ff (kont (RErr e)) wk)).
  { eapply tail_fault with (Q := notOkR) (p := p) (w := w); try eassumption.
    - intros a H1 H2. exact (H1 H2).
    - destruct HFO as [vk [G1 [G2 G3]]]. exists vk. split; [exact G1 | split; [exact G2 |]].
      intros [m' r'] Hd Hok. cbn in Hok. subst r'. exact (G3 m' Hd). }
  destruct HFP as [vk [G1 [G2 G3]]]. exists vk. split; [exact G1 | split; [exact G2 |]].
  intros m' Hd. exact (G3 (m', Ok) Hd eq_refl).
Qed.

(** WriteAt: a failing pwrite is reported at once *)
Theorem write_fault_atomic : forall g w m,
  InvS g (mkst w (Some m)) -> fault_ok g (op_prog g (Some m) OWrite) w.
Proof.
  intros g w m Hinv. destruct (InvS_ctx g w m Hinv) as [v Hctx].
  destruct (write_at_spec g w v m Hctx) as [wF [mF [rF [vpost [HffF [HctxF [HstF HrF]]]]]]].
  cbn [op_prog]. apply fault_ok_lift with (v := v) (vpost := vpost).
  - apply Hctx.
  - rewrite HffF. apply HctxF.
  - eapply FOut_of_ff; [exact HffF | apply HctxF | intros H; apply (HrF H)].
  - apply FA_of_errQ; [| exact HstF | eapply FOut_of_ff; [exact HffF | apply HctxF | intros H; apply (HrF H)]].
    unfold write_at. destruct (m_mode m) eqn:Hmode; try apply errQ_ret.
    all: cbv zeta; cbn [m_info m_mode set_info]; rewrite ?Hmode; destruct (i_head _) as [h |]; [| apply errQ_ret].
    all: apply errQ_do; [intros _ e He; left; cbn; unfold notOkR; cbn; discriminate |].
    all: destruct (is_err _); [apply errQ_ret |]; try apply errQ_ret.
    all: apply errQ_do; [intros _ e He; left; cbn; unfold notOkR; cbn; discriminate |].
    all: destruct (is_err _); apply errQ_ret.
Qed.

Lemma fault_ok_ret : forall g a w v, recover g w = Some v -> fault_ok g (Ret a) w.
Proof.
  intros g a w v Hrec k e He _. exists v, v. split; [exact Hrec |]. split; [exact Hrec |].
  exists v. cbn. split; [exact Hrec | split; [left; apply veq_refl | intros; apply veq_refl]].
Qed.

(** Create on a directory that already holds a volume: one read of volume.meta, nothing else *)
Theorem create_existing_fault_atomic : forall g w size now,
  InvS g (mkst w None) -> fault_ok g (op_prog g None (OCreate size now)) w.
Proof.
  intros g w size now [v [Hrec [Hwf [Hfr _]]]]. cbn [s_fs s_mem] in *. cbn [op_prog].
  destruct (recover_elim g w v Hrec) as [Hvol _].
  assert (Hff : ff (create_volume g size now) w = (w, Done (None, Ok, O))).
  { unfold create_volume. cbn [ff apply_call]. rewrite Hvol. reflexivity. }
  apply fault_ok_intro with (v := v) (vpost := v) (ex := fun _ => False); [exact Hrec | rewrite Hff; exact Hrec | | | intros j []].
  - rewrite Hff. exists v. cbn [fst snd]. split; [exact Hrec | split; [left; apply veq_refl | intros; apply veq_refl]].
  - intros j c kont wk e Hs Ht He _. unfold create_volume in Hs. destruct j as [| j]; cbn [step_at] in Hs.
    + inversion Hs; subst c wk. subst kont. destruct He as [He | He]; subst e; cbn [negb ff fst snd].
      all: exists v; split; [exact Hrec | split; [left; apply veq_refl | intros; apply veq_refl]].
    + cbn [apply_call] in Hs. rewrite Hvol in Hs. cbn [fst snd negb step_at] in Hs. discriminate.
Qed.

(** ReplaceDisk, refused (wrong mode, the target is the head, no source file): no call that can fail *)
Theorem replace_refused_fault_atomic : forall g w m t src,
  InvS g (mkst w (Some m)) -> ok_op g (mkst w (Some m)) (OReplace t src) ->
  fault_ok g (op_prog g (Some m) (OReplace t src)) w.
Proof.
  intros g w m t src Hinv Hok. destruct (InvS_ctx g w m Hinv) as [v Hctx].
  unfold ok_op in Hok. cbn [s_fs s_mem] in Hok. rewrite (cx_rec _ _ _ _ Hctx) in Hok.
  destruct (replace_refused_spec g w v m t src Hctx Hok) as [wF [mF [rF [vpost [HffF [HctxF [HstF HrF]]]]]]].
  assert (HFO : FOut g v vpost (ff (replace_disk g m t src) w)).
  { eapply FOut_of_ff; [exact HffF | apply HctxF | intros H; apply (HrF H)]. }
  cbn [op_prog]. apply fault_ok_lift with (v := v) (vpost := vpost); [apply Hctx | rewrite HffF; apply HctxF | exact HFO |].
  unfold replace_disk.
  destruct (negb (mode_eqb (m_mode m) RW)) eqn:Em; [apply FA_ret |].
  destruct (odname_eqb (Some t) (i_head (m_info m))) eqn:Eh; [apply FA_ret |].
  destruct Hok as [H | [H | H]].
  - exfalso. apply H. destruct (m_mode m); cbn in Em; congruence.
  - exfalso. rewrite H, odname_eqb_refl in Eh. discriminate.
  - unfold hardlink_disk. cbn [bind]. apply FA_untraced; [reflexivity | apply stat_same |].
    cbn [apply_call]. rewrite H. cbn [snd is_err bind is_ok res_eqb negb]. apply FA_ret.
Qed.

(** the repaired Snapshot / Resize / SetCheckpoint ([keepold]: the memory at entry is what a failure
    exit returns) issue the same calls and leave the same directory as their bodies; only the
    memory inside a non-success outcome differs, which [FOutO] does not look at *)
Lemma keepold_ret : forall g m (a : mem * res), exists b, Ret (keep_old g m a) = Ret b.
Proof. intros. eexists. reflexivity. Qed.

Lemma call_at_keepold : forall g m (p : prog (mem * res)) w j, call_at (lift (keepold g m p)) w j = call_at (lift p) w j.
Proof.
  intros g m p w j. rewrite !call_at_lift. unfold call_at, keepold.
  rewrite (step_at_ret_cont _ _ p _ w j (keepold_ret g m)).
  destruct (step_at p w j) as [[[c kont] wk] |]; reflexivity.
Qed.

Lemma fault_okx_keepold : forall (X X' : nat -> Prop) g m (p : prog (mem * res)) w,
  (forall k, X k -> X' k) ->
  fault_okx X g (lift p) w -> fault_okx X' g (lift (keepold g m p)) w.
Proof.
  intros X X' g m p w HX H k e He Hc.
  destruct (H k e He) as [vpre [vpost [H1 [H2 H3]]]].
  { intros c Hcc. rewrite <- call_at_keepold with (g := g) (m := m) in Hcc. destruct (Hc c Hcc) as [Ht Hn].
    split; [exact Ht | intro E; apply Hn; apply HX; exact E]. }
  exists vpre, vpost. split; [exact H1 |]. split.
  - unfold lift, keepold. unfold lift in H2. rewrite !ff_bind. rewrite ff_bind in H2.
    destruct (ff p w) as [w' [[m' r] | |]]; cbn [ff fst snd] in *; try exact H2.
    destruct (keep_old g m (m', r)) as [m2 r2]. exact H2.
  - unfold fexec in *. rewrite exec_lift, exec_keepold. rewrite exec_lift in H3.
    destruct (exec p w 0 None (Some (k, e))) as [[w1 t] o]. unfold dir_of_run, out_of_run in *. cbn [fst snd] in *.
    destruct H3 as [vk [G1 [G2 G3]]]. exists vk. split; [exact G1 | split; [exact G2 |]].
    intros a Ha Hok. destruct o as [[m' r] | |]; cbn [map_outcome] in *; try discriminate.
    inversion Ha; subst a. unfold okO in Hok. cbn [fst snd] in Hok. rewrite keep_old_res in Hok. cbn [snd] in Hok.
    apply (G3 (Some m', r, O)); [reflexivity | exact Hok].
Qed.

(** ** C08, one failing call: every operation of the model, from every state of the invariant.
    The only exclusion: in Snapshot (createDisk), the directory sync that follows the rename of
    volume.meta (finding F11, createdisk-sync-after-commit). *)
Definition excluded (o : op) (p : prog (option mem * res * nat)) (w : fs) (k : nat) : Prop :=
  match o with OSnap _ _ _ => f11_at p w k | _ => False end.

Theorem fault_atomic_all : forall g s o,
  cfg_ok g -> fixed g = true -> fix_commit g = false ->
  InvS g s -> ok_op g s o ->
  fault_okx (excluded o (op_prog g (s_mem s) o) (s_fs s)) g (op_prog g (s_mem s) o) (s_fs s).
Proof.
  intros g [w om] o Hcfg Hfx Hfc Hinv Hok. cbn [s_fs s_mem].
  pose proof Hinv as [v [Hrec _]]. cbn [s_fs] in Hrec.
  assert (Hmono : forall p, fault_ok g p w -> fault_okx (excluded o p w) g p w).
  { intros p. apply fault_okx_mono. intros j []. }
  destruct om as [m |].
  - destruct o; try (apply Hmono; cbn [op_prog]; eapply fault_ok_ret; exact Hrec).
    + apply Hmono. apply close_fault_atomic; assumption.
    + apply Hmono. cbn [op_prog]. destruct mo as [[| | |] |]; eapply fault_ok_ret; exact Hrec.
    + apply Hmono. apply write_fault_atomic; assumption.
    + cbn [op_prog]. eapply fault_okx_keepold; [| apply snapshot_fault_ok; assumption].
      intros k [H1 [j' [Hj H2]]]. cbn [excluded]. split; [rewrite call_at_keepold; exact H1 | exists j'; split; [exact Hj | rewrite call_at_keepold; exact H2]].
    + apply Hmono. apply remove_fault_atomic; assumption.
    + apply Hmono. apply prepare_fault_atomic; assumption.
    + apply Hmono. apply revert_fault_atomic; assumption.
    + apply Hmono. cbn [op_prog]. eapply fault_okx_keepold; [| apply resize_fault_atomic; assumption]. auto.
    + apply Hmono. cbn [op_prog]. eapply fault_okx_keepold; [| apply checkpoint_fault_atomic; assumption]. auto.
    + apply Hmono. cbn [op_prog]. destruct b; destruct (mstate m); try (eapply fault_ok_ret; exact Hrec); apply rebuilding_fault_atomic; assumption.
    + apply Hmono. apply replace_refused_fault_atomic; assumption.
  - destruct o; try (apply Hmono; cbn [op_prog]; eapply fault_ok_ret; exact Hrec).
    + apply Hmono. apply create_existing_fault_atomic; assumption.
    + apply Hmono. apply open_fault_atomic; assumption.
Qed.
