(** * Meta: the replica directory and its metadata as a sequence of file-system calls.

    Hand-written, statement-by-statement transcription of (file / function cited at each definition)
      replica/replica.go          encodeToFile, createNewHead, linkDisk, rmDisk, createDisk, removeDiskNode,
                                  RemoveDiffDisk, PrepareRemoveDisk, markDiskAsRemoved, revertDisk, Resize,
                                  SetCheckpoint, SetRebuilding, close, readMetadata, readDiskData,
                                  openLiveChain, construct, Chain, the child-map helpers
      replica/revision_counter.go initRevisionCounter, GetRevisionCounter, increaseRevisionCounter
      replica/server.go           Create, Open, Close, Snapshot, Revert, ... (nil / state gates)
      util/util.go                SyncDir
      sparse.NewDirectFileIoProcessor (open without O_CREAT first, then with O_CREAT)

    A program is a finite tree over file-system calls; what the code branches on (stat results,
    directory listing, decoded files, the revision counter) is the reply of a call.  Process death is
    "stop after k calls" ([crash_at]); an injected error is "call k is not performed and returns
    errno" ([fail_at]).  Error exits and deferred clean-ups are part of the trees.  No proofs here. *)
From Coq Require Import List ZArith NArith Bool Arith.
Import ListNotations.

(** ** names *)

(** A disk name is the name of an image file.  [Odd k] stands for the string ["s<k>"]: a string
    that is neither head- nor snapshot-shaped (it is also the short name of snapshot [Snap k],
    which is how [PrepareRemoveDisk] uses it). *)
Inductive dname := Head (n : nat) | Snap (s : N) | Odd (k : N).

Definition dname_eqb (a b : dname) : bool :=
  match a, b with
  | Head x, Head y => Nat.eqb x y
  | Snap x, Snap y => N.eqb x y
  | Odd x, Odd y => N.eqb x y
  | _, _ => false
  end.

Definition odname_eqb (a b : option dname) : bool :=
  match a, b with
  | None, None => true
  | Some x, Some y => dname_eqb x y
  | _, _ => false
  end.

(** file names of the replica directory *)
Inductive name :=
| Img (d : dname)        (* d                     *)
| Meta (d : dname)       (* d ++ ".meta"          *)
| MetaTmp (d : dname)    (* d ++ ".meta.tmp"      *)
| Vol                    (* volume.meta           *)
| VolTmp                 (* volume.meta.tmp       *)
| Counter.               (* revision.counter      *)

Definition name_eqb (a b : name) : bool :=
  match a, b with
  | Img x, Img y | Meta x, Meta y | MetaTmp x, MetaTmp y => dname_eqb x y
  | Vol, Vol | VolTmp, VolTmp | Counter, Counter => true
  | _, _ => false
  end.

(** file ++ ".tmp" for the two kinds of file [encodeToFile] is used on *)
Definition tmp_of (n : name) : name :=
  match n with Meta d => MetaTmp d | Vol => VolTmp | x => x end.

(** ** file contents *)

(** replica.go: type disk (the Name field is always re-derived from the file name) *)
Record disk := mkdisk {
  d_parent : option dname; d_removed : bool; d_user : bool; d_created : N; d_rev : Z }.

(** replica.go: type Info (constant fields SectorSize, BackingFileName, CloneStatus, UUID omitted) *)
Record info := mkinfo {
  i_size : N; i_head : option dname; i_dirty : bool; i_rebuilding : bool;
  i_parent : option dname; i_checkpoint : option dname; i_rev : Z }.

Inductive ino :=
| IVol (i : info)            (* a complete volume.meta *)
| IDisk (d : disk)           (* a complete <disk>.meta *)
| IImg (id gen : N)          (* an image file: inode identity, number of data writes it received *)
| ICounter (v : Z)           (* revision.counter holding v *)
| IEmpty.                    (* a zero-length file *)

(** The directory.  Hard links: two names holding the same [IImg id]. *)
Record fs := mkfs { files : name -> option ino; nextid : N }.

Definition updf (f : name -> option ino) (a : name) (v : option ino) : name -> option ino :=
  fun x => if name_eqb a x then v else f x.

Definition set_file (w : fs) (a : name) (v : option ino) : fs := mkfs (updf (files w) a v) (nextid w).

(** ** calls and replies *)

Inductive errno := ENOENT | EEXIST | ENOSPC | EIO.

Inductive call :=
| CStat (n : name)                (* os.Stat / syscall.Stat *)
| COpenTrunc (n : name)           (* open O_RDWR|O_TRUNC, no O_CREAT *)
| COpenCreatTrunc (n : name)      (* open O_RDWR|O_CREAT|O_TRUNC *)
| COpenRW (n : name)              (* open O_RDWR of an existing file *)
| COpenCreat (n : name)           (* open O_RDWR|O_CREAT *)
| CWriteAll (n : name) (c : ino)  (* one write(2) of the whole content *)
| CClose (n : name)
| CRename (a b : name)
| CLink (a b : name)
| CUnlink (n : name)              (* os.Remove *)
| CTruncate (n : name) (sz : N)
| CFsyncDir                       (* util.SyncDir: open dir, fsync, close *)
| CMkdirDir                       (* os.Mkdir of the replica directory itself (EEXIST ignored) *)
| CReadDir                        (* ioutil.ReadDir *)
| CReadFile (n : name)            (* unmarshalFile: open O_RDONLY, decode, close *)
| CPreadCounter                   (* readRevisionCounter *)
| CPwriteCounter (v : Z)          (* writeRevisionCounter *)
| CPwriteImg (n : name).          (* a data write into an image *)

Inductive reply :=
| ROk
| RErr (e : errno)
| RStat (blocks : bool)           (* exists; allocated blocks > 0 *)
| RIno (c : ino)                  (* content read *)
| RDir (present : name -> bool).  (* directory listing *)

Definition is_err (r : reply) : bool := match r with RErr _ => true | _ => false end.

(** O_TRUNC / O_CREAT.  Only image names ever hold an image (links are image-to-image and
    metadata-to-metadata), so for the other names "truncate or create" is simply "becomes empty". *)
Definition truncated (c : ino) : ino :=
  match c with IImg id _ => IImg id 0 | _ => IEmpty end.

Definition created (w : fs) (n : name) : fs :=
  mkfs (updf (files w) n (Some (IImg (nextid w) 0))) (N.succ (nextid w)).

Definition is_img (n : name) : bool := match n with Img _ => true | _ => false end.

Definition apply_call (w : fs) (c : call) : fs * reply :=
  match c with
  | CStat n =>
      match files w n with
      | None => (w, RErr ENOENT)
      | Some (IImg _ g) => (w, RStat (N.ltb 0 g))
      | Some _ => (w, RStat true)
      end
  | COpenTrunc n =>
      match files w n with
      | None => (w, RErr ENOENT)
      | Some c => (set_file w n (Some (if is_img n then truncated c else IEmpty)), ROk)
      end
  | COpenCreatTrunc n =>
      if is_img n then
        match files w n with
        | None => (created w n, ROk)
        | Some c => (set_file w n (Some (truncated c)), ROk)
        end
      else (set_file w n (Some IEmpty), ROk)
  | COpenRW n =>
      match files w n with None => (w, RErr ENOENT) | Some _ => (w, ROk) end
  | COpenCreat n =>
      match files w n with
      | None => (if is_img n then created w n else set_file w n (Some IEmpty), ROk)
      | Some _ => (w, ROk)
      end
  | CWriteAll n c =>
      match c, files w n with
      | IImg _ _, _ => (w, RErr EIO)                   (* never issued: only metadata is written this way *)
      | _, None => (w, RErr EIO)
      | _, Some _ => (set_file w n (Some c), ROk)
      end
  | CClose _ => (w, ROk)
  | CRename a b =>
      match files w a with
      | None => (w, RErr ENOENT)
      | Some c => (set_file (set_file w b (Some c)) a None, ROk)
      end
  | CLink a b =>
      match files w a, files w b with
      | None, _ => (w, RErr ENOENT)
      | Some _, Some _ => (w, RErr EEXIST)
      | Some c, None => (set_file w b (Some c), ROk)
      end
  | CUnlink n =>
      match files w n with None => (w, RErr ENOENT) | Some _ => (set_file w n None, ROk) end
  | CTruncate n _ =>
      match files w n with None => (w, RErr ENOENT) | Some _ => (w, ROk) end
  | CFsyncDir => (w, ROk)
  | CMkdirDir => (w, RErr EEXIST)                               (* the directory exists *)
  | CReadDir => (w, RDir (fun n => match files w n with Some _ => true | None => false end))
  | CReadFile n =>
      match files w n with None => (w, RErr ENOENT) | Some c => (w, RIno c) end
  | CPreadCounter =>
      match files w Counter with Some (ICounter v) => (w, RIno (ICounter v)) | _ => (w, RErr EIO) end
  | CPwriteCounter v =>
      match files w Counter with None => (w, RErr EIO) | Some _ => (set_file w Counter (Some (ICounter v)), ROk) end
  | CPwriteImg n =>
      match files w n with
      | Some (IImg id g) => (set_file w n (Some (IImg id (N.succ g))), ROk)
      | Some _ => (w, RErr EIO)
      | None => (w, ROk)       (* the descriptor outlives the name: the write goes to an unlinked inode *)
      end
  end.

(** ** programs *)

Inductive abort := Fatal | Hang.     (* logrus.Fatalf = exit(1); an unbounded loop *)

Inductive prog (A : Type) : Type :=
| Ret (a : A)
| Abort (e : abort)
| Do (c : call) (k : reply -> prog A).
Arguments Ret {A} a.
Arguments Abort {A} e.
Arguments Do {A} c k.

Fixpoint bind {A B} (p : prog A) (f : A -> prog B) : prog B :=
  match p with
  | Ret a => f a
  | Abort e => Abort e
  | Do c k => Do c (fun r => bind (k r) f)
  end.

Notation "x <- p ;; q" := (bind p (fun x => q)) (at level 61, p at next level, right associativity).

Inductive outcome (A : Type) := Done (a : A) | Crashed | Aborted (e : abort).
Arguments Done {A} a.
Arguments Crashed {A}.
Arguments Aborted {A} e.

Definition trace := list (call * reply).

Definition hits (x : option nat) (cnt : nat) : bool :=
  match x with Some k => Nat.eqb k cnt | None => false end.
Definition fails (x : option (nat * errno)) (cnt : nat) : option errno :=
  match x with Some (k, e) => if Nat.eqb k cnt then Some e else None | None => None end.

(** [exec p w cnt crash_at fail_at]: calls are numbered from [cnt]; the call numbered [crash_at] is
    never entered (the process is dead: the directory is the one left by the calls before it); the
    call numbered [fail_at] is not performed and hands its continuation the errno. *)
Fixpoint exec {A} (p : prog A) (w : fs) (cnt : nat) (crash_at : option nat) (fail_at : option (nat * errno))
  : fs * trace * outcome A :=
  match p with
  | Ret a => (w, [], Done a)
  | Abort e => (w, [], Aborted e)
  | Do c k =>
      if hits crash_at cnt then (w, [], Crashed)
      else
        let '(w1, r) := match fails fail_at cnt with
                        | Some e => (w, RErr e)
                        | None => apply_call w c
                        end in
        let '(w2, t, o) := exec (k r) w1 (S cnt) crash_at fail_at in
        (w2, (c, r) :: t, o)
  end.

(** the directories the fault-free run passes through: before the first call, after each call *)
Fixpoint states {A} (p : prog A) (w : fs) : list fs :=
  w :: match p with
       | Do c k => let '(w1, r) := apply_call w c in states (k r) w1
       | _ => []
       end.

Definition run {A} (p : prog A) (w : fs) : fs * trace * outcome A := exec p w 0 None None.

(** ** in-memory Replica *)

Inductive mode := INIT | RW | WO | CLOSED.
Definition mode_eqb (a b : mode) : bool :=
  match a, b with INIT, INIT | RW, RW | WO, WO | CLOSED, CLOSED => true | _, _ => false end.

(** what the Go function returned: nil / an error for a reason in the arguments or the replica's
    mode (nothing was attempted) / an error from a later stage *)
Inductive res := Ok | Refused | Failed.
Definition res_eqb (a b : res) : bool :=
  match a, b with Ok, Ok | Refused, Refused | Failed, Failed => true | _, _ => false end.
Definition is_ok (r : res) : bool := res_eqb r Ok.

Record mem := mkmem {
  m_info : info;                                  (* r.info *)
  m_disks : dname -> option disk;                 (* r.diskData *)
  m_children : option dname -> list dname;        (* r.diskChildrenMap (key present iff list non-empty) *)
  m_active : list dname;                          (* names of r.activeDiskData[1:], base first *)
  m_mode : mode;                                  (* r.mode *)
  m_cache : Z                                     (* r.revisionCache *)
}.

Definition updd (f : dname -> option disk) (a : dname) (v : option disk) : dname -> option disk :=
  fun x => if dname_eqb a x then v else f x.
Definition updc (f : option dname -> list dname) (a : option dname) (v : list dname) : option dname -> list dname :=
  fun x => if odname_eqb a x then v else f x.

Definition set_info (m : mem) (i : info) : mem :=
  mkmem i (m_disks m) (m_children m) (m_active m) (m_mode m) (m_cache m).
Definition set_disks (m : mem) (d : dname -> option disk) : mem :=
  mkmem (m_info m) d (m_children m) (m_active m) (m_mode m) (m_cache m).
Definition set_children (m : mem) (c : option dname -> list dname) : mem :=
  mkmem (m_info m) (m_disks m) c (m_active m) (m_mode m) (m_cache m).
Definition set_active (m : mem) (a : list dname) : mem :=
  mkmem (m_info m) (m_disks m) (m_children m) a (m_mode m) (m_cache m).
Definition set_mode (m : mem) (x : mode) : mem :=
  mkmem (m_info m) (m_disks m) (m_children m) (m_active m) x (m_cache m).
Definition set_cache (m : mem) (v : Z) : mem :=
  mkmem (m_info m) (m_disks m) (m_children m) (m_active m) (m_mode m) v.

Definition set_head_info (i : info) (h : option dname) (dirty : bool) (p : option dname) (rv : Z) : info :=
  mkinfo (i_size i) h dirty (i_rebuilding i) p (i_checkpoint i) rv.
Definition set_dirty_rebuilding (i : info) (dirty rb : bool) : info :=
  mkinfo (i_size i) (i_head i) dirty rb (i_parent i) (i_checkpoint i) (i_rev i).
Definition set_iparent (i : info) (p : option dname) : info :=
  mkinfo (i_size i) (i_head i) (i_dirty i) (i_rebuilding i) p (i_checkpoint i) (i_rev i).
Definition set_size (i : info) (sz : N) : info :=
  mkinfo sz (i_head i) (i_dirty i) (i_rebuilding i) (i_parent i) (i_checkpoint i) (i_rev i).
Definition set_checkpoint_info (i : info) (c : option dname) : info :=
  mkinfo (i_size i) (i_head i) (i_dirty i) (i_rebuilding i) (i_parent i) c (i_rev i).

Fixpoint memd (x : dname) (l : list dname) : bool :=
  match l with [] => false | y :: t => dname_eqb x y || memd x t end.
Fixpoint removed (x : dname) (l : list dname) : list dname :=
  match l with [] => [] | y :: t => if dname_eqb x y then removed x t else y :: removed x t end.

(** replica.go: addChildDisk / rmChildDisk / updateChildDisk *)
Definition add_child (c : option dname -> list dname) (p : option dname) (ch : dname) :=
  updc c p (if memd ch (c p) then c p else c p ++ [ch]).
Definition rm_child (c : option dname -> list dname) (p : option dname) (ch : dname) :=
  updc c p (removed ch (c p)).
Definition parent_of (m : mem) (d : dname) : option dname :=
  match m_disks m d with Some x => d_parent x | None => None end.
Definition update_child (m : mem) (old : dname) (new : option dname) : mem :=
  let p := parent_of m old in
  let c1 := rm_child (m_children m) p old in
  set_children m (match new with Some n => add_child c1 p n | None => c1 end).

(** replica.go: Chain() — follows Parent from info.Head through diskData; [None] = the error
    "Failed to find metadata".  The Go loop has no bound; [fuel] exhausted = it would not end. *)
Fixpoint chain_from (d : dname -> option disk) (fuel : nat) (cur : option dname) : option (list dname) :=
  match cur with
  | None => Some []
  | Some c =>
      match fuel with
      | O => None
      | S f =>
          match d c with
          | None => None
          | Some x => match chain_from d f (d_parent x) with
                      | Some l => Some (c :: l)
                      | None => None
                      end
          end
      end
  end.

(** types.MaxChainLength (default maximumChainLength = 1024), and which of the proposed repairs the
    code has (all [false]: the code as it is):
    - [fixed]      encodeToFile tests the encoder's error [lastErr] instead of [err]      (F5)
    - [fix_dup]    createDisk refuses a snapshot name that is already in diskData          (F9)
    - [fix_rev]    revertDisk refuses a target that is not a chain snapshot                (F10)
    - [fix_commit] createDisk keeps the new head when only the directory sync after the
                   rename of volume.meta failed                                            (F11)
    - [fix_children] removeDiskNode also deletes the removed disk's diskChildrenMap entry  (F12) *)
Record cfg := mkcfg { maxlen : nat; fixed : bool; fix_dup : bool; fix_rev : bool; fix_commit : bool;
                      fix_children : bool; fix_mem : bool }.

Definition chain_fuel (g : cfg) : nat := S (S (maxlen g)).
Definition mchain (g : cfg) (m : mem) : option (list dname) :=
  chain_from (m_disks m) (chain_fuel g) (i_head (m_info m)).

(** ** the file-system level helpers *)

(** util.SyncDir *)
Definition sync_dir : prog res :=
  Do CFsyncDir (fun r => if is_err r then Ret Failed else Ret Ok).

(** replica.go: encodeToFile.
<<
    f, err := os.OpenFile(file+".tmp", O_RDWR|O_CREATE|O_TRUNC|O_SYNC)      if err != nil return err
    if lastErr := json.NewEncoder(f).Encode(&obj); err != nil { f.Close(); return lastErr }
    if err := f.Close(); err != nil return err
    if err := os.Rename(file+".tmp", file); err != nil return err
    return r.SyncDir()
>>
    NB: the second test is on [err] (the OpenFile error, nil at that point), not on [lastErr]: a
    failed write is ignored.  [fixed g = true] is the code with [lastErr != nil]. *)
Definition encode_to_file (g : cfg) (c : ino) (n : name) : prog res :=
  Do (COpenCreatTrunc (tmp_of n)) (fun r1 =>
  if is_err r1 then Ret Failed else
  Do (CWriteAll (tmp_of n) c) (fun r2 =>
  if fixed g && is_err r2 then Do (CClose (tmp_of n)) (fun _ => Ret Failed) else
  Do (CClose (tmp_of n)) (fun r3 =>
  if is_err r3 then Ret Failed else
  Do (CRename (tmp_of n) n) (fun r4 =>
  if is_err r4 then Ret Failed else
  sync_dir)))).

(** replica.go: rmDisk — ENOENT is not an error *)
Definition enoent_or_ok (r : reply) : bool :=
  match r with RErr ENOENT => true | RErr _ => false | _ => true end.
Definition rm_disk (d : option dname) : prog res :=
  match d with
  | None => Ret Ok
  | Some x =>
      Do (CUnlink (Img x)) (fun r1 =>
      if negb (enoent_or_ok r1) then Ret Failed else
      Do (CUnlink (Meta x)) (fun r2 =>
      if negb (enoent_or_ok r2) then Ret Failed else
      sync_dir))
  end.

(** replica.go: linkDisk *)
Definition link_disk (old new : option dname) : prog res :=
  match old, new with
  | None, _ => Ret Ok
  | Some o, None => Ret Failed                                (* not reachable: newSnapName = "" only with oldHead = "" *)
  | Some o, Some nw =>
      Do (CStat (Img nw)) (fun r1 =>
      if negb (is_err r1) then Ret Refused else                (* "Old file already exists" *)
      Do (CStat (Meta nw)) (fun r2 =>
      if negb (is_err r2) then Ret Refused else
      Do (CLink (Img o) (Img nw)) (fun r3 =>
      if is_err r3 then Ret Failed else
      Do (CLink (Meta o) (Meta nw)) (fun r4 =>
      if is_err r4 then Ret Failed else
      sync_dir))))
  end.

(** revision_counter.go: GetRevisionCounter — -1 on error; sets the cache *)
Definition get_rev : prog Z :=
  Do CPreadCounter (fun r => match r with RIno (ICounter v) => Ret v | _ => Ret (-1)%Z end).

(** replica.go: nextFile(diskPattern, headName, oldHead) *)
Definition next_head (old : option dname) : option dname :=
  match old with
  | None => Some (Head 0)
  | Some (Head n) => Some (Head (S n))
  | Some _ => None
  end.

(** sparse.NewDirectFileIoProcessor(name, O_RDWR|flag, perm, true): without O_CREAT first, on any
    error again with O_CREAT *)
Definition open_file_trunc (n : name) : prog bool :=
  Do (COpenTrunc n) (fun r1 =>
  if is_err r1 then Do (COpenCreatTrunc n) (fun r2 => Ret (negb (is_err r2))) else Ret true).
Definition open_file (n : name) : prog bool :=
  Do (COpenRW n) (fun r1 =>
  if is_err r1 then Do (COpenCreat n) (fun r2 => Ret (negb (is_err r2))) else Ret true).

(** replica.go: createNewHead.  Returns (Name of the returned disk — [None] for [disk{}] —, the
    disk, error). *)
Definition create_new_head (g : cfg) (m : mem) (old parent : option dname) (cr : N)
  : prog (option dname * disk * res) :=
  let nodisk := mkdisk None false false 0 0 in
  match next_head old with
  | None => Ret (None, nodisk, Failed)
  | Some nh =>
      let rest : prog (option dname * disk * res) :=
        okf <- open_file_trunc (Img nh) ;;
        if negb okf then Ret (None, nodisk, Failed) else
        Do (CTruncate (Img nh) (i_size (m_info m))) (fun rt =>
        if is_err rt then Ret (None, nodisk, Failed) else
        rv <- get_rev ;;
        let nd := mkdisk parent false false cr rv in
        e <- encode_to_file g (IDisk nd) (Meta nh) ;;
        Ret (Some nh, nd, e)) in
      Do (CStat (Img nh)) (fun rs =>
      if is_err rs then rest else
      (* "Head file already exists": r.getDiskSize(newHeadName) > 0 is a second stat *)
      Do (CStat (Img nh)) (fun rb =>
      match rb with
      | RStat true => Ret (None, nodisk, Failed)              (* "contains some data" *)
      | _ =>
          e <- rm_disk (Some nh) ;;
          if is_ok e then rest else Ret (None, nodisk, Failed)
      end))
  end.

(** replica.go: createDisk (Snapshot, and the initial head with name "000" on an empty directory).
    The deferred function is [cleanup] on the error exits and [rm_disk oldHead] after success. *)
(** the deferred function of createDisk on its error exits (done = false) *)
Definition cd_cleanup (nh : dname) (snap : option dname) (m' : mem) (e : res) : prog (mem * res) :=
  _ <- rm_disk (Some nh) ;; _ <- rm_disk snap ;; Ret (m', e).

(** the in-memory updates of createDisk, in program order *)
Definition cd_mem1 (m : mem) (nh : dname) (nd : disk) : mem :=
  set_disks m (updd (m_disks m) nh (Some nd)).                                  (* diskData[newHead] = &newHeadDisk *)
Definition cd_mem2 (m : mem) (nh : dname) (nd : disk) (sn : dname) : mem :=
  let m1 := cd_mem1 m nh nd in set_children m1 (add_child (m_children m1) (Some sn) nh).
(* diskData[newSnap] = diskData[oldHead] (the same object), then Name/UserCreated/Created/RevisionCounter *)
Definition cd_mem3 (m2 : mem) (oh sn : dname) (rec : disk) : mem :=
  set_disks m2 (updd (updd (m_disks m2) sn (Some rec)) oh (Some rec)).
Definition cd_mem5 (m3 : mem) (oh sn : dname) : mem :=
  let m4 := update_child m3 oh (Some sn) in
  set_active m4 (removelast (m_active m4) ++ [sn]).
Definition cd_memc (ma : mem) (old : option dname) (nh : dname) : mem :=
  let mb := match old with Some oh => set_disks ma (updd (m_disks ma) oh None) | None => ma end in
  set_active mb (m_active mb ++ [nh]).

(** createDisk, "if newSnapName != "" { ... }": the snapshot's metadata file *)
Definition cd_snapmeta (g : cfg) (m : mem) (old snap : option dname) (nh : dname) (nd : disk) (user : bool) (cr : N)
  : prog (mem * res) :=
  match old, snap with
  | Some oh, Some sn =>
      let m2 := cd_mem2 m nh nd sn in
      rv <- get_rev ;;
      match m_disks m2 oh with
      | None => Abort Fatal                            (* nil dereference; not reachable with consistent memory *)
      | Some x =>
          let rec := mkdisk (d_parent x) (d_removed x) user cr rv in
          let m3 := cd_mem3 m2 oh sn rec in
          e3 <- encode_to_file g (IDisk rec) (Meta sn) ;;
          if negb (is_ok e3) then Ret (m3, Failed) else Ret (cd_mem5 m3 oh sn, Ok)
      end
  | _, _ => Ret (cd_mem1 m nh nd, Ok)
  end.

(** createDisk from "info := r.info" on: the commit (volume.meta) and the deferred removal of the old head *)
Definition cd_commit (g : cfg) (ma : mem) (old snap : option dname) (nh : dname) (nd : disk) : prog (mem * res) :=
  let mc := cd_memc ma old nh in
  let info' := set_head_info (m_info mc) (Some nh) true snap (d_rev nd) in
  e5 <- encode_to_file g (IVol info') Vol ;;
  if negb (is_ok e5) then
    (if fix_commit g then
       (* repair F11: volume.meta may already name the new head (only the directory sync failed) *)
       Do (CReadFile Vol) (fun rv =>
       match rv with
       | RIno (IVol iv) =>
           if odname_eqb (i_head iv) (Some nh)
           then _ <- rm_disk old ;; Ret (set_info mc info', e5)
           else cd_cleanup nh snap mc e5
       | _ => cd_cleanup nh snap mc e5
       end)
     else cd_cleanup nh snap mc e5)
  else
  _ <- rm_disk old ;;                                         (* deferred, done = true; its error is only logged *)
  Ret (set_info mc info', Ok).

(** createDisk after createNewHead succeeded *)
Definition cd_link (g : cfg) (m : mem) (old snap : option dname) (nh : dname) (nd : disk) (user : bool) (cr : N)
  : prog (mem * res) :=
  e2 <- link_disk old snap ;;
  if negb (is_ok e2) then cd_cleanup nh snap m e2 else
  mid <- cd_snapmeta g m old snap nh nd user cr ;;
  let '(ma, e4) := mid in
  if negb (is_ok e4) then cd_cleanup nh snap ma e4 else
  cd_commit g ma old snap nh nd.

Definition create_disk (g : cfg) (m : mem) (s : N) (user : bool) (cr : N) : prog (mem * res) :=
  e0 <- sync_dir ;;
  if negb (is_ok e0) then Ret (m, Failed) else
  if Nat.ltb (maxlen g) (S (S (length (m_active m)))) then Ret (m, Refused) else   (* len(activeDiskData)+1 > max *)
  let old := i_head (m_info m) in
  let snap := match old with None => None | Some _ => Some (Snap s) end in
  if fix_dup g && match snap with Some sn => match m_disks m sn with Some _ => true | None => false end | None => false end
  then Ret (m, Refused) else                                  (* repair F9: "snapshot already exists" *)
  t_ <- create_new_head g m old snap cr ;;
  let '(nhn, nd, e1) := t_ in
  if negb (is_ok e1) then
    _ <- rm_disk nhn ;; Ret (m, Failed)
  else
  match nhn with
  | None => Ret (m, Failed)                                   (* not reachable: success returns the name *)
  | Some nh => cd_link g m old snap nh nd user cr
  end.

(** replica.go: updateParentDisk(child, name) and updateParentRevisionCounter(name), removeDiskNode *)
Definition find_disk (m : mem) (d : dname) : bool := memd d (m_active m).

(** removeDiskNode from "delete(r.diskData, name)" on: the in-memory bookkeeping *)
Definition rdn_finish (g : cfg) (m3 : mem) (d : dname) : mem :=
  let m4 := set_disks m3 (updd (m_disks m3) d None) in
  let m4 := if fix_children g then set_children m4 (updc (m_children m4) (Some d) []) else m4 in
  if negb (find_disk m4 d) then m4 else                       (* index <= 0: not in the live chain *)
  (* r.volume.RemoveIndex(index) closes the file; len(activeDiskData)-2 == index: info.Parent *)
  let m5 := match rev (m_active m4) with
            | _ :: lat :: _ => if dname_eqb lat d
                               then set_info m4 (set_iparent (m_info m4)
                                      (match i_head (m_info m4) with Some h => parent_of m4 h | None => None end))
                               else m4
            | _ => m4
            end in
  set_active m5 (removed d (m_active m5)).

(** updateParentRevisionCounter(name) *)
Definition rdn_parent_rev (g : cfg) (m2 : mem) (dd : disk) : prog (mem * res) :=
  match d_parent dd with
  | None => Ret (m2, Ok)
  | Some p =>
      match m_disks m2 p with
      | None => Abort Fatal
      | Some pd =>
          let pd' := mkdisk (d_parent pd) (d_removed pd) (d_user pd) (d_created pd) (d_rev dd) in
          let m3 := set_disks m2 (updd (m_disks m2) p (Some pd')) in
          e2 <- encode_to_file g (IDisk pd') (Meta p) ;;
          Ret (m3, e2)
      end
  end.

Definition remove_disk_node (g : cfg) (m : mem) (d : dname) : prog (mem * res) :=
  match m_disks m d with
  | None => Ret (m, Ok)                                       (* "Disk doesn't exist in list" *)
  | Some dd =>
      match m_children m (Some d) with
      | [] =>
          let m1 := update_child m d None in
          Ret (set_disks m1 (updd (m_disks m1) d None), Ok)     (* no diskChildrenMap entry to delete *)
      | _ :: _ :: _ => Ret (m, Failed)                        (* "Cannot remove snapshot with n children" *)
      | [child] =>
          let m1 := update_child m d (Some child) in
          (* updateParentDisk(child, name) *)
          match m_disks m1 child with
          | None => Abort Fatal                               (* nil dereference: cannot happen when memory is consistent *)
          | Some cd =>
              let cd' := mkdisk (d_parent dd) (d_removed cd) (d_user cd) (d_created cd) (d_rev cd) in
              let m2 := set_disks m1 (updd (m_disks m1) child (Some cd')) in
              e1 <- encode_to_file g (IDisk cd') (Meta child) ;;
              if negb (is_ok e1) then Abort Fatal else        (* logrus.Fatalf *)
              m3e <- rdn_parent_rev g m2 dd ;;
              let '(m3, e2) := m3e in
              if negb (is_ok e2) then Abort Fatal else
              Ret (rdn_finish g m3 d, Ok)
          end
      end
  end.

(** replica.go: RemoveDiffDisk *)
Definition remove_diff_disk (g : cfg) (m : mem) (d : dname) : prog (mem * res) :=
  if negb (mode_eqb (m_mode m) RW) then Ret (m, Refused) else
  if odname_eqb (Some d) (i_head (m_info m)) then Ret (m, Refused) else
  if odname_eqb (i_parent (m_info m)) (Some d) then Ret (m, Refused) else
  (* /repo 67d4059: "Can't delete base snapshot" *)
  if match m_disks m d with Some x => match d_parent x with None => true | Some _ => false end | None => false end
  then Ret (m, Refused) else
  t_ <- remove_disk_node g m d ;;
  let '(m1, e1) := t_ in
  if negb (is_ok e1) then Ret (m1, e1) else
  e2 <- rm_disk (Some d) ;;
  Ret (m1, e2).

(** replica.go: hardlinkDisk, ReplaceDisk (the coalesce path: [source]'s image takes the place of
    [target]'s, then [source] leaves the chain) *)
Definition hardlink_disk (target source : dname) : prog res :=
  Do (CStat (Img source)) (fun r0 =>
  if is_err r0 then Ret Refused else                          (* "Cannot find source of replacing" *)
  Do (CStat (Img target)) (fun r1 =>
  e <- (if is_err r1 then Ret Ok
        else Do (CUnlink (Img target)) (fun r2 => if is_err r2 then Ret Failed else Ret Ok)) ;;
  if negb (is_ok e) then Ret e else
  Do (CLink (Img source) (Img target)) (fun r3 =>
  if is_err r3 then Ret Failed else sync_dir))).

Definition replace_disk (g : cfg) (m : mem) (target source : dname) : prog (mem * res) :=
  if negb (mode_eqb (m_mode m) RW) then Ret (m, Refused) else
  if odname_eqb (Some target) (i_head (m_info m)) then Ret (m, Refused) else
  e0 <- hardlink_disk target source ;;
  if negb (is_ok e0) then Ret (m, e0) else
  t_ <- remove_disk_node g m source ;;
  let '(m1, e1) := t_ in
  if negb (is_ok e1) then Ret (m1, e1) else
  e2 <- rm_disk (Some source) ;;
  if negb (is_ok e2) then Abort Fatal else                    (* logrus.Fatalf *)
  (* r.volume.UsedBlocks--; the file at the target's index is closed and opened again *)
  Ret (m1, Ok).

(** replica.go: markDiskAsRemoved, PrepareRemoveDisk.  Returns also the number of actions. *)
Definition gen_snap_name (d : dname) : option dname :=
  match d with Odd k => Some (Snap k) | _ => None end.

Definition prepare_remove_disk (g : cfg) (m : mem) (arg : dname) : prog (mem * res * nat) :=
  if negb (mode_eqb (m_mode m) RW) then Ret (m, Refused, O) else
  let found := match m_disks m arg with
               | Some x => Some (arg, x)
               | None => match gen_snap_name arg with
                         | Some d2 => match m_disks m d2 with Some x => Some (d2, x) | None => None end
                         | None => None
                         end
               end in
  match found with
  | None => Ret (m, Ok, O)                                     (* return nil, nil *)
  | Some (d, data) =>
      if odname_eqb (Some d) (i_head (m_info m)) then Ret (m, Refused, O) else
      if odname_eqb (i_parent (m_info m)) (Some d) then Ret (m, Refused, O) else
      match d_parent data with
      | None => Ret (m, Refused, O)                            (* "Can't delete base snapshot" *)
      | Some par =>
          (* markDiskAsRemoved *)
          Do (CStat (Img d)) (fun r1 =>
          if is_err r1 then Ret (m, Failed, O) else
          Do (CStat (Meta d)) (fun r2 =>
          if is_err r2 then Ret (m, Failed, O) else
          let data' := mkdisk (d_parent data) true (d_user data) (d_created data) (d_rev data) in
          let m1 := set_disks m (updd (m_disks m) d (Some data')) in
          e <- encode_to_file g (IDisk data') (Meta d) ;;
          if negb (is_ok e) then Ret (m1, Failed, O) else
          match m_disks m1 par with
          | None => Ret (m1, Failed, O)                        (* "Can not find snapshot's parent" *)
          | Some _ => Ret (m1, Ok, 2)
          end))
      end
  end.

(** ** the open path *)

(** revision_counter.go: initRevisionCounter *)
Definition init_revision_counter : prog (option Z) :=
  Do (CStat Counter) (fun rs =>
  let readit : prog (option Z) :=
    Do CPreadCounter (fun r => match r with RIno (ICounter v) => Ret (Some v) | _ => Ret None end) in
  if is_err rs then
    okf <- open_file Counter ;;
    if negb okf then Ret None else
    Do (CPwriteCounter 1) (fun rw => if is_err rw then Ret None else readit)
  else
    Do (COpenRW Counter) (fun ro => if is_err ro then Ret None else readit)).

(** replica.go: readDiskData for one file and the loop of readMetadata over the parents *)
Fixpoint read_chain (g : cfg) (fuel : nat) (present : name -> bool) (m : mem) (x : dname) : prog (mem * res) :=
  match fuel with
  | O => Abort Hang                                            (* a cycle of Parent links: the Go loop does not end *)
  | S fuel' =>
      if negb (present (Meta x)) then Ret (m, Ok) else         (* file = fileMap[...] is nil: the loop ends *)
      Do (CReadFile (Meta x)) (fun r =>
      match r with
      | RIno (IDisk d) =>
          fix_rev <- (if Z.leb (d_rev d) 1
                      then rv <- get_rev ;;
                           let d' := mkdisk (d_parent d) (d_removed d) (d_user d) (d_created d) rv in
                           e <- encode_to_file g (IDisk d') (Meta x) ;;
                           Ret (d', e)
                      else Ret (d, Ok)) ;;
          let '(d1, e) := fix_rev in
          let m1 := set_disks m (updd (m_disks m) x (Some d1)) in
          if negb (is_ok e) then Ret (m1, Failed) else
          match d_parent d1 with
          | None => Ret (m1, Ok)
          | Some p =>
              let m2 := set_children m1 (add_child (m_children m1) (Some p) x) in
              read_chain g fuel' present m2 p
          end
      | _ => Ret (m, Failed)
      end)
  end.

Definition no_disks : dname -> option disk := fun _ => None.
Definition no_children : option dname -> list dname := fun _ => [].

(** bound on the number of chain members followed; the code has none (a cycle hangs) and refuses
    more than maxlen afterwards *)
Definition read_fuel (g : cfg) : nat := S (S (maxlen g)).

(** replica.go: readMetadata.  Returns the memory (info + diskData + children) and "exists". *)
Definition read_metadata (g : cfg) (m : mem) : prog (mem * bool * res) :=
  let m0 := set_children (set_disks m no_disks) (m_children m) in
  Do CReadDir (fun r =>
  match r with
  | RDir present =>
      if negb (present Vol) then Ret (m0, false, Ok) else
      Do (CReadFile Vol) (fun rv =>
      match rv with
      | RIno (IVol i) =>
          let m1 := set_info m0 i in
          match i_head i with
          | None => Ret (m1, false, Failed)                    (* "r.info.Head is nil" *)
          | Some h =>
              t_ <- read_chain g (read_fuel g) present m1 h ;;
              let '(m2, e) := t_ in
              if negb (is_ok e) then Ret (m2, false, Failed) else
              (* len(r.diskData) > 0: the first iteration reads the head's metadata file if there is one *)
              Ret (m2, match m_disks m2 h with Some _ => true | None => false end, Ok)
          end
      | _ => Ret (m0, false, Failed)
      end)
  | _ => Ret (m0, false, Failed)
  end).

(** replica.go: openLiveChain *)
Fixpoint open_all (l : list dname) : prog bool :=
  match l with
  | [] => Ret true
  | x :: t => okf <- open_file (Img x) ;; if okf then open_all t else Ret false
  end.

Definition open_live_chain (g : cfg) (m : mem) : prog (mem * res) :=
  match mchain g m with
  | None => Ret (m, Failed)
  | Some ch =>
      if Nat.ltb (maxlen g) (length ch) then Ret (m, Failed) else
      okf <- open_all (rev ch) ;;
      if okf then Ret (set_active m (m_active m ++ rev ch), Ok) else Ret (m, Failed)
  end.

(** replica.go: construct (New): size is the caller's size; the mode starts INIT *)
Definition empty_info (size : N) : info := mkinfo size None false false None None 0.

Definition construct (g : cfg) (size : N) (now : N) : prog (option mem * res) :=
  Do CMkdirDir (fun rm =>
  if match rm with RErr EEXIST => false | RErr _ => true | _ => false end
  then Ret (None, Failed) else                                  (* err != nil && !os.IsExist(err) *)
  oc <- init_revision_counter ;;
  match oc with
  | None => Ret (None, Failed)
  | Some cache =>
      let m0 := mkmem (empty_info size) no_disks no_children [] INIT cache in
      t_ <- read_metadata g m0 ;;
      let '(m1, exists_, e1) := t_ in
      if negb (is_ok e1) then Ret (None, Failed) else
      t2_ <- (if exists_ then open_live_chain g m1
              else if N.eqb size 0 then Ret (m1, Failed)      (* os.ErrNotExist *)
              else create_disk g m1 0 false now) ;;
      let '(m2, e2) := t2_ in
      if negb (is_ok e2) then Ret (None, Failed) else
      match i_head (m_info m2) with
      | None => Abort Fatal
      | Some h =>
          match m_disks m2 h with
          | None => Abort Fatal                                 (* r.diskData[r.info.Head].Parent: nil dereference *)
          | Some hd =>
              let m3 := set_info m2 (set_iparent (m_info m2) (d_parent hd)) in
              e3 <- encode_to_file g (IVol (set_dirty_rebuilding (m_info m3) true (i_rebuilding (m_info m3)))) Vol ;;
              if is_ok e3 then Ret (Some m3, Ok) else Ret (None, Failed)
          end
      end
  end).

(** replica.go: revertDisk (+ Reload) *)
Definition revert_disk (g : cfg) (m : mem) (parent : dname) (cr : N) : prog (mem * res) :=
  if fix_rev g && (match m_disks m parent with Some _ => false | None => true end
                   || odname_eqb (Some parent) (i_head (m_info m)))
  then Ret (m, Refused) else                                  (* repair F10: "not a snapshot in the chain" *)
  Do (CStat (Img parent)) (fun rs =>
  if is_err rs then Ret (m, Refused) else
  let old := i_head (m_info m) in
  t_ <- create_new_head g m old (Some parent) cr ;;
  let '(nhn, nd, e1) := t_ in
  if negb (is_ok e1) then Ret (m, Failed) else
  let info' := mkinfo (i_size (m_info m)) nhn true (i_rebuilding (m_info m)) (d_parent nd)
                      (i_checkpoint (m_info m)) (i_rev (m_info m)) in
  e2 <- encode_to_file g (IVol info') Vol ;;
  if negb (is_ok e2) then
    _ <- encode_to_file g (IVol (m_info m)) Vol ;; Ret (m, Failed)
  else
  e3 <- rm_disk old ;;
  if negb (is_ok e3) then Ret (m, Failed) else
  t_ <- construct g (i_size (m_info m)) 0 ;;
  let '(om, e4) := t_ in
  match om with
  | Some mn =>
      if is_ok e4
      then Ret (set_info (set_mode mn (m_mode m))
                  (set_dirty_rebuilding (m_info mn) (i_dirty (m_info m)) (i_rebuilding (m_info mn))), Ok)
      else Ret (m, Failed)
  | None => Ret (m, Failed)
  end).

(** replica.go: Resize (via Server.Resize with a decimal string) *)
Fixpoint truncate_all (l : list dname) (sz : N) : prog bool :=
  match l with
  | [] => Ret true
  | x :: t => Do (CTruncate (Img x) sz) (fun r => if is_err r then Ret false else truncate_all t sz)
  end.

Definition resize (g : cfg) (m : mem) (sz : N) : prog (mem * res) :=
  match mchain g m with
  | None => Ret (m, Failed)
  | Some ch =>
      if N.ltb sz (i_size (m_info m)) then Ret (m, Refused) else
      okf <- truncate_all ch sz ;;
      if negb okf then Ret (m, Failed) else
      let m1 := set_info m (set_size (m_info m) sz) in
      e <- encode_to_file g (IVol (m_info m1)) Vol ;;
      Ret (m1, e)
  end.

(** replica.go: SetCheckpoint, SetRebuilding, close, WriteAt (the metadata side), SetReplicaMode *)
Definition set_checkpoint (g : cfg) (m : mem) (c : option dname) : prog (mem * res) :=
  let m1 := set_info m (set_checkpoint_info (m_info m) c) in
  e <- encode_to_file g (IVol (m_info m1)) Vol ;;
  Ret (m1, e).

Definition set_rebuilding (g : cfg) (m : mem) (b : bool) : prog (mem * res) :=
  e <- encode_to_file g (IVol (set_dirty_rebuilding (m_info m) true b)) Vol ;;
  if is_ok e then Ret (set_info m (set_dirty_rebuilding (m_info m) (i_dirty (m_info m)) b), Ok)
  else Ret (m, Failed).

Definition close_replica (g : cfg) (m : mem) : prog (mem * res) :=
  let m1 := set_mode m CLOSED in
  e <- encode_to_file g (IVol (set_dirty_rebuilding (m_info m1) false (i_rebuilding (m_info m1)))) Vol ;;
  Ret (m1, e).

Definition write_at (m : mem) : prog (mem * res) :=
  match m_mode m with
  | RW | WO =>
      let m1 := set_info m (set_dirty_rebuilding (m_info m) true (i_rebuilding (m_info m))) in
      match i_head (m_info m1) with
      | None => Ret (m1, Failed)
      | Some h =>
          Do (CPwriteImg (Img h)) (fun r =>
          if is_err r then Ret (m1, Failed) else
          match m_mode m1 with
          | RW => Do (CPwriteCounter (m_cache m1 + 1)) (fun r2 =>
                  if is_err r2 then Ret (m1, Failed) else Ret (set_cache m1 (m_cache m1 + 1)%Z, Ok))
          | _ => Ret (m1, Ok)
          end)
      end
  | _ => Ret (m, Refused)
  end.

(** ** replica.Server: operations of a history *)

Inductive op :=
| OCreate (size : N) (now : N)       (* Server.Create; [now] = the Created string util.Now() produced *)
| OOpen
| OClose
| OCrash                             (* the process dies between two operations *)
| OSetMode (mo : option mode)        (* None = a string that is neither "RW" nor "WO" *)
| OWrite
| OSnap (s : N) (user : bool) (cr : N)
| ORemove (d : dname)
| OPrep (d : dname)
| ORevert (d : dname) (cr : N)
| OResize (sz : N)
| OCheckpoint (c : option dname)
| ORebuilding (b : bool)
| OReplace (target source : dname)   (* Server.ReplaceDisk(target, source) *)
| OCrashIn (k : nat) (o : op).       (* the process dies inside operation [o], after [k] of its calls *)

(** Server.Status on an open replica *)
Inductive rstate := SOpen | SDirty | SRebuilding.
Definition mstate (m : mem) : rstate :=
  if i_rebuilding (m_info m) then SRebuilding else if i_dirty (m_info m) then SDirty else SOpen.

(** /repo 0472ed5 (Resize), 0c1a1af (SetCheckpoint), a3198e0 (createDisk) — [fix_mem g = true]: these
    three functions prepare the new Info / records in local copies, write them, and assign to the
    fields of the Replica only after the last write succeeded ("done = true"): every failure exit
    leaves the memory the function was entered with.  Their bodies below ([create_disk], [resize],
    [set_checkpoint]) compute the memory the way the code before those commits changed it in place,
    call by call; what the repaired functions return is that memory on success and the memory at
    entry on every other exit.  [fix_mem g = false] is the code before the three commits (findings
    createdisk-memory-on-failure, resize-size-on-failure, checkpoint-set-on-failure). *)
Definition keep_old (g : cfg) (m : mem) (t : mem * res) : mem * res :=
  if fix_mem g && negb (is_ok (snd t)) then (m, snd t) else t.
Definition keepold (g : cfg) (m : mem) (p : prog (mem * res)) : prog (mem * res) :=
  t_ <- p ;; Ret (keep_old g m t_).

Definition lift (p : prog (mem * res)) : prog (option mem * res * nat) :=
  t_ <- p ;; let '(m, e) := t_ in Ret (Some m, e, O).

(** server.go: Create *)
Definition create_volume (g : cfg) (size now : N) : prog (option mem * res * nat) :=
  Do (CReadFile Vol) (fun rs =>                                  (* s.Status(): ReadInfo *)
  if negb (match rs with RErr ENOENT => true | _ => false end)
  then Ret (None, Ok, O) else                                   (* state != Initial: nothing to do *)
  t_ <- construct g size now ;;
  let '(om, e) := t_ in
  match om with
  | None => Ret (None, Failed, O)
  | Some m =>
      t_ <- close_replica g m ;;
      let '(m1, e1) := t_ in
      (* deferred s.initUUID(): volume.meta is rewritten with the new UUID *)
      Do (CReadFile Vol) (fun rv =>
      match rv with
      | RIno (IVol i) => _ <- encode_to_file g (IVol i) Vol ;; Ret (None, e1, O)
      | _ => Ret (None, e1, O)
      end)
  end).

(** server.go: Open — size comes from ReadInfo of the directory *)
Definition open_volume (g : cfg) : prog (option mem * res * nat) :=
  Do (CReadFile Vol) (fun rv =>
  let size := match rv with RIno (IVol i) => i_size i | _ => 0%N end in
  t_ <- construct g size 0 ;;
  let '(om, e) := t_ in
  Ret (om, e, O)).

Definition op_prog (g : cfg) (om : option mem) (o : op) : prog (option mem * res * nat) :=
  match o, om with
  | OCreate size now, None => create_volume g size now
  | OCreate _ _, Some m => Ret (Some m, Ok, O)                 (* Status != Initial *)
  | OOpen, None => open_volume g
  | OOpen, Some m => Ret (Some m, Refused, O)                  (* "Replica is already open" *)
  | OClose, None => Ret (None, Ok, O)
  | OClose, Some m =>
      t_ <- close_replica g m ;;
      let '(m1, e) := t_ in
      if is_ok e then Ret (None, Ok, O) else Ret (Some m1, Failed, O)
  | OCrash, _ => Ret (None, Ok, O)
  | OCrashIn _ _, _ => Ret (None, Ok, O)                       (* see [step] *)
  | _, None => Ret (None, Refused, O)                          (* s.r == nil *)
  | OSetMode mo, Some m =>
      match mo with
      | Some RW => Ret (Some (set_mode m RW), Ok, O)
      | Some WO => Ret (Some (set_mode m WO), Ok, O)
      | _ => Ret (Some m, Refused, O)
      end
  | OWrite, Some m => lift (write_at m)
  | OSnap s user cr, Some m => lift (keepold g m (create_disk g m s user cr))
  | ORemove d, Some m => lift (remove_diff_disk g m d)
  | OPrep d, Some m =>
      t_ <- prepare_remove_disk g m d ;; let '(m1, e, n) := t_ in Ret (Some m1, e, n)
  | ORevert d cr, Some m => lift (revert_disk g m d cr)
  | OResize sz, Some m => lift (keepold g m (resize g m sz))
  | OCheckpoint c, Some m => lift (keepold g m (set_checkpoint g m c))
  | ORebuilding b, Some m =>
      match b, mstate m with
      | true, SRebuilding | false, SOpen | false, SDirty => Ret (Some m, Refused, O)
      | _, _ => lift (set_rebuilding g m b)
      end
  | OReplace t src, Some m => lift (replace_disk g m t src)
  end.

Record st := mkst { s_fs : fs; s_mem : option mem }.

Inductive result := ResOk | ResRefused | ResFailed | ResDied.
Definition result_of (r : res) : result :=
  match r with Ok => ResOk | Refused => ResRefused | Failed => ResFailed end.

(** one operation, no faults *)
Definition step (g : cfg) (s : st) (o : op) : st * result * nat :=
  match o with
  | OCrashIn k o' =>
      let '(w, _, _) := exec (op_prog g (s_mem s) o') (s_fs s) 0 (Some k) None in (mkst w None, ResDied, O)
  | _ =>
      match run (op_prog g (s_mem s) o) (s_fs s) with
      | (w, _, Done (om, e, n)) => (mkst w om, result_of e, n)
      | (w, _, _) => (mkst w None, ResDied, O)
      end
  end.

Definition empty_fs : fs := mkfs (fun _ => None) 1.
Definition init : st := mkst empty_fs None.

Fixpoint run_ops (g : cfg) (s : st) (os : list op) : st :=
  match os with
  | [] => s
  | o :: t => run_ops g (fst (fst (step g s o))) t
  end.

(** ** recovery: what a restarted process will find (pure reading of the directory) *)

Record member := mkmember { mb_name : dname; mb_id : N; mb_disk : disk }.

Fixpoint walk (f : name -> option ino) (fuel : nat) (d : dname) : option (list member) :=
  match fuel with
  | O => None
  | S fuel' =>
      match f (Meta d), f (Img d) with
      | Some (IDisk dk), Some (IImg id _) =>
          match d_parent dk with
          | None => Some [mkmember d id dk]
          | Some p => match walk f fuel' p with
                      | Some l => Some (mkmember d id dk :: l)
                      | None => None
                      end
          end
      | _, _ => None
      end
  end.

Record chainview := mkview { cv_info : info; cv_chain : list member }.

Definition recover (g : cfg) (w : fs) : option chainview :=
  match files w Vol with
  | Some (IVol i) =>
      match i_head i with
      | Some h =>
          match walk (files w) (maxlen g) h with
          | Some l => match files w Counter with
                      | Some (ICounter _) => Some (mkview i l)
                      | _ => None
                      end
          | None => None
          end
      | None => None
      end
  | _ => None
  end.
