(** * Meta: lemmas and theorems (C08, C12). *)
From Coq Require Import List ZArith NArith Bool Arith Lia.
From Jiva Require Import Meta.Model Meta.Corr.
Import ListNotations.

(** ** generic facts about programs: a crash leaves a state of the fault-free run *)

Definition dir_of_run {A} (x : fs * trace * outcome A) : fs := fst (fst x).
Definition out_of_run {A} (x : fs * trace * outcome A) : outcome A := snd x.
Definition trace_of_run {A} (x : fs * trace * outcome A) : trace := snd (fst x).

Lemma exec_Do : forall A (c : call) (k : reply -> prog A) w cnt ca fa,
  exec (Do c k) w cnt ca fa =
  if hits ca cnt then (w, [], Crashed)
  else let '(w1, r) := match fails fa cnt with Some e => (w, RErr e) | None => apply_call w c end in
       let '(w2, t, o) := exec (k r) w1 (S cnt) ca fa in (w2, (c, r) :: t, o).
Proof. reflexivity. Qed.

Lemma states_Do : forall A (c : call) (k : reply -> prog A) w,
  states (Do c k) w = w :: (let '(w1, r) := apply_call w c in states (k r) w1).
Proof. reflexivity. Qed.

(** the directory left by [crash_at = cnt + k] is the k-th state of the fault-free run (the last
    one when the run is shorter) *)
Theorem crash_prefix : forall A (p : prog A) w cnt k,
  dir_of_run (exec p w cnt (Some (cnt + k)) None) = nth k (states p w) (last (states p w) w).
Proof.
  induction p as [a | e | c kk IH]; intros w cnt k.
  - cbn. destruct k as [| [| k]]; reflexivity.
  - cbn. destruct k as [| [| k]]; reflexivity.
  - rewrite exec_Do, states_Do. unfold hits, fails.
    destruct k as [| k].
    + replace (cnt + 0) with cnt by lia. rewrite Nat.eqb_refl. reflexivity.
    + replace (Nat.eqb (cnt + S k) cnt) with false by (symmetry; apply Nat.eqb_neq; lia).
      destruct (apply_call w c) as [w1 r] eqn:Hc.
      specialize (IH r w1 (S cnt) k).
      replace (S cnt + k) with (cnt + S k) in IH by lia.
      destruct (exec (kk r) w1 (S cnt) (Some (cnt + S k)) None) as [[w2 t] o] eqn:He.
      unfold dir_of_run in *. cbn [fst] in *. rewrite IH.
      cbn [nth]. 
      assert (Hl : forall (l : list fs) d1 d2, l <> [] -> last l d1 = last l d2).
      { induction l as [| x [| y l'] IHl]; intros d1 d2 Hne; [congruence | reflexivity |].
        cbn [last]. apply IHl. discriminate. }
      assert (Hne : states (kk r) w1 <> []) by (destruct (kk r); discriminate).
      rewrite (Hl _ w1 w Hne).
      destruct (states (kk r) w1) eqn:Hs; [congruence |]. reflexivity.
Qed.

Corollary crash_in_states : forall A (p : prog A) w k,
  In (dir_of_run (exec p w 0 (Some k) None)) (states p w).
Proof.
  intros A p w k. pose proof (crash_prefix A p w 0 k) as H. cbn [plus] in H. rewrite H.
  assert (Hne : states p w <> []) by (destruct p; discriminate).
  destruct (Nat.lt_ge_cases k (length (states p w))) as [Hlt | Hge].
  - apply nth_In; assumption.
  - rewrite nth_overflow by assumption.
    destruct (states p w) eqn:Hs; [congruence |].
    apply (@exists_last _ (f :: l)) in Hne. destruct Hne as [l' [x Hx]]. rewrite Hx.
    rewrite last_last. apply in_or_app. right. left. reflexivity.
Qed.

(** ** names: decidable equality *)

Lemma dname_eqb_eq : forall a b, dname_eqb a b = true <-> a = b.
Proof.
  intros [x | x | x] [y | y | y]; cbn; split; intro H; try discriminate; try congruence.
  - apply Nat.eqb_eq in H. congruence.
  - inversion H. apply Nat.eqb_refl.
  - apply N.eqb_eq in H. congruence.
  - inversion H. apply N.eqb_refl.
  - apply N.eqb_eq in H. congruence.
  - inversion H. apply N.eqb_refl.
Qed.
Lemma dname_eqb_refl : forall a, dname_eqb a a = true.
Proof. intro a. apply dname_eqb_eq. reflexivity. Qed.
Lemma dname_eqb_neq : forall a b, a <> b -> dname_eqb a b = false.
Proof. intros a b H. destruct (dname_eqb a b) eqn:E; [apply dname_eqb_eq in E; contradiction | reflexivity]. Qed.
Lemma dname_eqb_sym : forall a b, dname_eqb a b = dname_eqb b a.
Proof.
  intros a b. destruct (dname_eqb a b) eqn:E.
  - apply dname_eqb_eq in E. subst. symmetry. apply dname_eqb_refl.
  - symmetry. apply dname_eqb_neq. intro H. subst. rewrite dname_eqb_refl in E. discriminate.
Qed.
Lemma dname_dec : forall a b : dname, {a = b} + {a <> b}.
Proof. intros a b. destruct (dname_eqb a b) eqn:E; [left; apply dname_eqb_eq; assumption | right; intro H; subst; rewrite dname_eqb_refl in E; discriminate]. Qed.

Lemma name_eqb_eq : forall a b, name_eqb a b = true <-> a = b.
Proof.
  intros [x | x | x | | |] [y | y | y | | |]; cbn; split; intro H; try discriminate; try congruence;
    try (apply dname_eqb_eq in H; congruence); try (inversion H; apply dname_eqb_refl).
Qed.
Lemma name_eqb_refl : forall a, name_eqb a a = true.
Proof. intro a. apply name_eqb_eq. reflexivity. Qed.
Lemma name_eqb_neq : forall a b, a <> b -> name_eqb a b = false.
Proof. intros a b H. destruct (name_eqb a b) eqn:E; [apply name_eqb_eq in E; contradiction | reflexivity]. Qed.

Lemma odname_eqb_eq : forall a b, odname_eqb a b = true <-> a = b.
Proof.
  intros [x |] [y |]; cbn; split; intro H; try discriminate; try congruence.
  - apply dname_eqb_eq in H. congruence.
  - inversion H. apply dname_eqb_refl.
Qed.
Lemma odname_eqb_refl : forall a, odname_eqb a a = true.
Proof. intro a. apply odname_eqb_eq. reflexivity. Qed.
Lemma odname_eqb_neq : forall a b, a <> b -> odname_eqb a b = false.
Proof. intros a b H. destruct (odname_eqb a b) eqn:E; [apply odname_eqb_eq in E; contradiction | reflexivity]. Qed.

Lemma updf_eq : forall f a v, updf f a v a = v.
Proof. intros. unfold updf. rewrite name_eqb_refl. reflexivity. Qed.
Lemma updf_neq : forall f a v b, a <> b -> updf f a v b = f b.
Proof. intros. unfold updf. rewrite name_eqb_neq by assumption. reflexivity. Qed.
Lemma updd_eq : forall f a v, updd f a v a = v.
Proof. intros. unfold updd. rewrite dname_eqb_refl. reflexivity. Qed.
Lemma updd_neq : forall f a v b, a <> b -> updd f a v b = f b.
Proof. intros. unfold updd. rewrite dname_eqb_neq by assumption. reflexivity. Qed.
Lemma updc_eq : forall f a v, updc f a v a = v.
Proof. intros. unfold updc. rewrite odname_eqb_refl. reflexivity. Qed.
Lemma updc_neq : forall f a v b, a <> b -> updc f a v b = f b.
Proof. intros. unfold updc. rewrite odname_eqb_neq by assumption. reflexivity. Qed.

(** ** fault-free semantics *)

Fixpoint ff {A} (p : prog A) (w : fs) : fs * outcome A :=
  match p with
  | Ret a => (w, Done a)
  | Abort e => (w, Aborted e)
  | Do c k => let '(w1, r) := apply_call w c in ff (k r) w1
  end.

Lemma exec_ff : forall A (p : prog A) w cnt,
  dir_of_run (exec p w cnt None None) = fst (ff p w) /\ out_of_run (exec p w cnt None None) = snd (ff p w).
Proof.
  induction p as [a | e | c k IH]; intros w cnt; cbn; auto.
  destruct (apply_call w c) as [w1 r]. specialize (IH r w1 (S cnt)).
  destruct (exec (k r) w1 (S cnt) None None) as [[w2 t] o]. exact IH.
Qed.

Lemma ff_bind : forall A B (p : prog A) (f : A -> prog B) w,
  ff (bind p f) w = match ff p w with
                    | (w1, Done a) => ff (f a) w1
                    | (w1, Crashed) => (w1, Crashed)
                    | (w1, Aborted e) => (w1, Aborted e)
                    end.
Proof.
  induction p as [a | e | c k IH]; intros f w; cbn.
  - destruct (ff (f a) w) as [w1 o]. reflexivity.
  - reflexivity.
  - destruct (apply_call w c) as [w1 r]. apply IH.
Qed.

Lemma states_nonempty : forall A (p : prog A) w, states p w <> [].
Proof. intros A p w. destruct p; discriminate. Qed.
Lemma states_head : forall A (p : prog A) w, exists l, states p w = w :: l.
Proof. intros A p w. destruct p; cbn; eauto. Qed.

Lemma states_last_ff : forall A (p : prog A) w d, last (states p w) d = fst (ff p w).
Proof.
  induction p as [a | e | c k IH]; intros w d; cbn [states ff]; try reflexivity.
  destruct (apply_call w c) as [w1 r]. specialize (IH r w1 d).
  destruct (states_head _ (k r) w1) as [l Hl]. rewrite Hl in *. cbn [last] in *. exact IH.
Qed.

(** every state of [bind p f] is a state of [p], or a state of the continuation started where
    [p] ended *)
Lemma states_bind_in : forall A B (p : prog A) (f : A -> prog B) w x,
  In x (states (bind p f) w) ->
  In x (states p w) \/ exists a, snd (ff p w) = Done a /\ In x (states (f a) (fst (ff p w))).
Proof.
  induction p as [a | e | c k IH]; intros f w x Hin.
  - right. exists a. cbn. auto.
  - left. exact Hin.
  - cbn [bind] in Hin. rewrite states_Do in Hin. rewrite states_Do. cbn [ff].
    destruct (apply_call w c) as [w1 r]. destruct Hin as [Heq | Hin].
    + left. left. exact Heq.
    + apply IH in Hin. destruct Hin as [Hin | Hin]; [left; right; exact Hin | right; exact Hin].
Qed.

Lemma Forall_states_bind : forall A B (P : fs -> Prop) (p : prog A) (f : A -> prog B) w,
  Forall P (states p w) ->
  (forall a, snd (ff p w) = Done a -> Forall P (states (f a) (fst (ff p w)))) ->
  Forall P (states (bind p f) w).
Proof.
  intros A B P p f w Hp Hf. apply Forall_forall. intros x Hin.
  apply states_bind_in in Hin. destruct Hin as [Hin | [a [Ha Hin]]].
  - eapply Forall_forall in Hp; eauto.
  - specialize (Hf a Ha). eapply Forall_forall in Hf; eauto.
Qed.

(** ** a static footprint: the names a call can change *)

Definition may_write (c : call) : list name :=
  match c with
  | COpenTrunc n | COpenCreatTrunc n | COpenCreat n | CWriteAll n _ | CUnlink n | CPwriteImg n => [n]
  | CRename a b => [a; b]
  | CLink _ b => [b]
  | CPwriteCounter _ => [Counter]
  | _ => []
  end.

Lemma apply_call_frame : forall w c n, ~ In n (may_write c) -> files (fst (apply_call w c)) n = files w n.
Proof.
  intros w c n Hn. destruct c; cbn in *;
    repeat match goal with
           | |- context [match files ?w ?x with _ => _ end] => destruct (files w x) as [[]|]
           | |- context [if is_img ?x then _ else _] => destruct (is_img x)
           | |- context [match ?c with IVol _ => _ | _ => _ end] => destruct c
           end; cbn; try reflexivity;
    try (unfold updf; rewrite name_eqb_neq; [reflexivity | intro; subst; apply Hn; auto]).
  all: unfold updf; repeat rewrite name_eqb_neq; try reflexivity; intro; subst; apply Hn; cbn; auto.
Qed.

(** the replies a call can get when no fault is injected *)
Definition possible (c : call) (r : reply) : Prop := exists w, snd (apply_call w c) = r.

(** [within S p]: whatever the (fault-free) replies, [p] only issues calls that change names in [S] *)
Fixpoint within {A} (S : name -> Prop) (p : prog A) : Prop :=
  match p with
  | Do c k => (forall n, In n (may_write c) -> S n) /\ forall r, possible c r -> within S (k r)
  | _ => True
  end.

Lemma within_bind : forall A B S (p : prog A) (f : A -> prog B),
  within S p -> (forall a, within S (f a)) -> within S (bind p f).
Proof.
  induction p as [a | e | c k IH]; intros f Hp Hf; cbn [bind within] in *; auto.
  destruct Hp as [Hc Hk]. split; auto.
Qed.

Lemma within_weaken : forall A (S T : name -> Prop) (p : prog A),
  (forall n, S n -> T n) -> within S p -> within T p.
Proof.
  induction p as [a | e | c k IH]; intros HST Hp; cbn [within] in *; auto.
  destruct Hp as [Hc Hk]. split; auto.
Qed.

Definition only_on (S : name -> Prop) (w w' : fs) : Prop := forall n, ~ S n -> files w' n = files w n.

Lemma only_on_refl : forall S w, only_on S w w.
Proof. intros S w n _. reflexivity. Qed.
Lemma only_on_trans : forall S w1 w2 w3, only_on S w1 w2 -> only_on S w2 w3 -> only_on S w1 w3.
Proof. intros S w1 w2 w3 H1 H2 n Hn. rewrite H2, H1; auto. Qed.

Lemma within_states : forall A S (p : prog A) w, within S p -> Forall (only_on S w) (states p w).
Proof.
  induction p as [a | e | c k IH]; intros w Hp; cbn [states].
  - constructor; [apply only_on_refl | constructor].
  - constructor; [apply only_on_refl | constructor].
  - destruct Hp as [Hc Hk]. constructor; [apply only_on_refl |].
    destruct (apply_call w c) as [w1 r] eqn:Hcall.
    assert (Hpos : possible c r) by (exists w; rewrite Hcall; reflexivity).
    specialize (IH r w1 (Hk r Hpos)).
    eapply Forall_impl; [| exact IH]. intros x Hx.
    eapply only_on_trans; [| exact Hx].
    intros n Hn. replace w1 with (fst (apply_call w c)) by (rewrite Hcall; reflexivity).
    apply apply_call_frame. intro Hin. apply Hn. auto.
Qed.

Lemma within_ff : forall A S (p : prog A) w, within S p -> only_on S w (fst (ff p w)).
Proof.
  intros A S p w Hp. pose proof (within_states A S p w Hp) as H.
  rewrite <- (states_last_ff A p w w).
  destruct (states_head A p w) as [l Hl]. rewrite Hl in *.
  eapply Forall_forall; [exact H |]. 
  assert (Hne : w :: l <> []) by discriminate.
  apply (@exists_last _ (w :: l)) in Hne. destruct Hne as [l' [x Hx]]. rewrite Hx.
  rewrite last_last. apply in_or_app. right. left. reflexivity.
Qed.

(** ** recovery depends only on the chain's own files *)

Definition names_of_chain (l : list member) : list dname := map mb_name l.

(** the names recovery reads when the chain is [l] *)
Definition footprint (l : list member) (n : name) : Prop :=
  n = Vol \/ n = Counter \/ exists d, In d (names_of_chain l) /\ (n = Meta d \/ n = Img d).

Lemma walk_unfold : forall f fuel d,
  walk f (S fuel) d =
  match f (Meta d), f (Img d) with
  | Some (IDisk dk), Some (IImg id _) =>
      match d_parent dk with
      | None => Some [mkmember d id dk]
      | Some p => match walk f fuel p with Some l => Some (mkmember d id dk :: l) | None => None end
      end
  | _, _ => None
  end.
Proof. reflexivity. Qed.

Lemma walk_frame : forall f f' fuel d l,
  walk f fuel d = Some l ->
  (forall x, In x (names_of_chain l) -> f' (Meta x) = f (Meta x) /\ f' (Img x) = f (Img x)) ->
  walk f' fuel d = Some l.
Proof.
  induction fuel as [| fuel IH]; intros d l Hw Hsame; [discriminate |].
  rewrite walk_unfold in *.
  destruct (f (Meta d)) as [[| dk | | |] |] eqn:Hm; try discriminate.
  destruct (f (Img d)) as [[| | id gn | |] |] eqn:Hi; try discriminate.
  destruct (d_parent dk) as [p |] eqn:Hp.
  - destruct (walk f fuel p) as [l' |] eqn:Hw'; [| discriminate].
    inversion Hw; subst l. clear Hw.
    destruct (Hsame d) as [H1 H2]; [left; reflexivity |]. rewrite H1, H2, Hm, Hi, Hp.
    rewrite (IH p l' Hw'); [reflexivity |].
    intros x Hx. apply Hsame. right. exact Hx.
  - inversion Hw; subst l. destruct (Hsame d) as [H1 H2]; [left; reflexivity |].
    rewrite H1, H2, Hm, Hi, Hp. reflexivity.
Qed.

Lemma walk_fuel_mono : forall f fuel fuel' d l, walk f fuel d = Some l -> fuel <= fuel' -> walk f fuel' d = Some l.
Proof.
  induction fuel as [| fuel IH]; intros fuel' d l Hw Hle; [discriminate |].
  destruct fuel' as [| fuel']; [lia |].
  rewrite walk_unfold in *.
  destruct (f (Meta d)) as [[| dk | | |] |]; try discriminate.
  destruct (f (Img d)) as [[| | id gn | |] |]; try discriminate.
  destruct (d_parent dk) as [p |]; [| exact Hw].
  destruct (walk f fuel p) as [l' |] eqn:Hw'; [| discriminate].
  rewrite (IH fuel' p l' Hw'); [exact Hw | lia].
Qed.

Lemma walk_length : forall f fuel d l, walk f fuel d = Some l -> length l <= fuel /\ 1 <= length l.
Proof.
  induction fuel as [| fuel IH]; intros d l Hw; [discriminate |].
  rewrite walk_unfold in Hw.
  destruct (f (Meta d)) as [[| dk | | |] |]; try discriminate.
  destruct (f (Img d)) as [[| | id gn | |] |]; try discriminate.
  destruct (d_parent dk) as [p |].
  - destruct (walk f fuel p) as [l' |] eqn:Hw'; [| discriminate].
    inversion Hw; subst. cbn. destruct (IH p l' Hw'). lia.
  - inversion Hw; subst. cbn. lia.
Qed.

(** the list [walk] returns is linked by the Parent fields and each entry is what the files hold *)
Fixpoint linked (f : name -> option ino) (l : list member) : Prop :=
  match l with
  | [] => True
  | mb :: t =>
      f (Meta (mb_name mb)) = Some (IDisk (mb_disk mb))
      /\ (exists gn, f (Img (mb_name mb)) = Some (IImg (mb_id mb) gn))
      /\ d_parent (mb_disk mb) = match t with y :: _ => Some (mb_name y) | [] => None end
      /\ linked f t
  end.

Lemma walk_linked : forall f fuel d l, walk f fuel d = Some l ->
  linked f l /\ exists mb t, l = mb :: t /\ mb_name mb = d.
Proof.
  induction fuel as [| fuel IH]; intros d l Hw; [discriminate |].
  rewrite walk_unfold in Hw.
  destruct (f (Meta d)) as [[| dk | | |] |] eqn:Hm; try discriminate.
  destruct (f (Img d)) as [[| | id gn | |] |] eqn:Hi; try discriminate.
  destruct (d_parent dk) as [p |] eqn:Hp.
  - destruct (walk f fuel p) as [l' |] eqn:Hw'; [| discriminate].
    inversion Hw; subst l. destruct (IH p l' Hw') as [Hl [mb [t [Heq Hn]]]].
    split; [| eauto]. cbn. repeat split; eauto. subst l'. rewrite Hp, Hn. reflexivity.
  - inversion Hw; subst l. split; [| eauto]. cbn. repeat split; eauto.
Qed.

Lemma linked_walk : forall f l fuel, linked f l -> l <> [] -> length l <= fuel ->
  walk f fuel (match l with mb :: _ => mb_name mb | [] => Head 0 end) = Some l.
Proof.
  intros f l. induction l as [| mb t IH]; intros fuel Hl Hne Hlen; [congruence |].
  destruct fuel as [| fuel]; [cbn in Hlen; lia |].
  cbn in Hl. destruct Hl as [Hm [[gn Hi] [Hp Ht]]].
  rewrite walk_unfold, Hm, Hi, Hp.
  destruct t as [| y t'].
  - destruct mb; reflexivity.
  - rewrite (IH fuel Ht); [destruct mb; reflexivity | discriminate | cbn in *; lia].
Qed.

Lemma linked_frame : forall f f' l, linked f l ->
  (forall x, In x (names_of_chain l) -> f' (Meta x) = f (Meta x) /\ f' (Img x) = f (Img x)) -> linked f' l.
Proof.
  induction l as [| mb t IH]; intros Hl Hs; [exact I |].
  cbn in *. destruct Hl as [Hm [[gn Hi] [Hp Ht]]].
  destruct (Hs (mb_name mb)) as [H1 H2]; [left; reflexivity |].
  rewrite H1, H2. repeat split; eauto.
Qed.

Lemma recover_frame : forall g w w' v,
  recover g w = Some v ->
  (forall n, footprint (cv_chain v) n -> files w' n = files w n) ->
  recover g w' = Some v.
Proof.
  intros g w w' v Hr Hs. unfold recover in *.
  rewrite (Hs Vol) by (left; reflexivity).
  destruct (files w Vol) as [[i | | | |] |]; try discriminate.
  destruct (i_head i) as [h |]; [| discriminate].
  destruct (walk (files w) (maxlen g) h) as [l |] eqn:Hw; [| discriminate].
  rewrite (Hs Counter) by (right; left; reflexivity).
  destruct (files w Counter) as [[| | | c |] |]; try discriminate.
  inversion Hr; subst v. cbn [cv_chain] in Hs.
  rewrite (walk_frame _ (files w') _ _ _ Hw); [reflexivity |].
  intros x Hx. split; apply Hs; right; right; exists x; auto.
Qed.

Lemma recover_only_on : forall g (S : name -> Prop) w w' v,
  recover g w = Some v -> only_on S w w' ->
  (forall n, S n -> ~ footprint (cv_chain v) n) ->
  recover g w' = Some v.
Proof.
  intros g S w w' v Hr Ho Hd. eapply recover_frame; [exact Hr |].
  intros n Hn. apply Ho. intro HS. exact (Hd n HS Hn).
Qed.

(** a chain member's own files are in the footprint; temp files never are *)
Lemma footprint_tmp : forall l d, ~ footprint l (MetaTmp d).
Proof. intros l d [H | [H | [x [_ [H | H]]]]]; discriminate. Qed.
Lemma footprint_voltmp : forall l, ~ footprint l VolTmp.
Proof. intros l [H | [H | [x [_ [H | H]]]]]; discriminate. Qed.
Lemma footprint_meta : forall l d, footprint l (Meta d) -> In d (names_of_chain l).
Proof. intros l d [H | [H | [x [Hin [H | H]]]]]; try discriminate. inversion H; subst; assumption. Qed.
Lemma footprint_img : forall l d, footprint l (Img d) -> In d (names_of_chain l).
Proof. intros l d [H | [H | [x [Hin [H | H]]]]]; try discriminate. inversion H; subst; assumption. Qed.

(** ** views up to the fields that recovery itself rewrites *)

Definition attrs_same (a b : disk) : Prop :=
  d_parent a = d_parent b /\ d_removed a = d_removed b /\ d_user a = d_user b /\ d_created a = d_created b.
Definition member_sim (a b : member) : Prop :=
  mb_name a = mb_name b /\ mb_id a = mb_id b /\ attrs_same (mb_disk a) (mb_disk b).
(** everything but Dirty *)
Definition info_sim (a b : info) : Prop :=
  i_size a = i_size b /\ i_head a = i_head b /\ i_rebuilding a = i_rebuilding b /\ i_parent a = i_parent b
  /\ i_checkpoint a = i_checkpoint b /\ i_rev a = i_rev b.
(** same chain (names, inodes, Parent/Removed/UserCreated/Created) and same volume information;
    not compared: the per-disk RevisionCounter (readDiskData rewrites values <= 1 on open) and Dirty *)
Definition veq (a b : chainview) : Prop :=
  info_sim (cv_info a) (cv_info b) /\ Forall2 member_sim (cv_chain a) (cv_chain b).

Lemma attrs_same_refl : forall a, attrs_same a a.
Proof. intro a. repeat split. Qed.
Lemma member_sim_refl : forall a, member_sim a a.
Proof. intro a. repeat split. Qed.
Lemma info_sim_refl : forall a, info_sim a a.
Proof. intro a. repeat split. Qed.
Lemma Forall2_refl : forall A (R : A -> A -> Prop), (forall x, R x x) -> forall l, Forall2 R l l.
Proof. intros A R HR l. induction l; constructor; auto. Qed.
Lemma veq_refl : forall a, veq a a.
Proof. intro a. split; [apply info_sim_refl | apply Forall2_refl; apply member_sim_refl]. Qed.
Lemma member_sim_sym : forall a b, member_sim a b -> member_sim b a.
Proof. intros a b [H1 [H2 [H3 [H4 [H5 H6]]]]]. repeat split; congruence. Qed.
Lemma member_sim_trans : forall a b c, member_sim a b -> member_sim b c -> member_sim a c.
Proof. intros a b c [H1 [H2 [H3 [H4 [H5 H6]]]]] [K1 [K2 [K3 [K4 [K5 K6]]]]]. repeat split; congruence. Qed.
Lemma Forall2_sym : forall A (R : A -> A -> Prop), (forall x y, R x y -> R y x) -> forall l l', Forall2 R l l' -> Forall2 R l' l.
Proof. intros A R HR l l' H. induction H; constructor; auto. Qed.
Lemma Forall2_trans : forall A (R : A -> A -> Prop), (forall x y z, R x y -> R y z -> R x z) ->
  forall l1 l2 l3, Forall2 R l1 l2 -> Forall2 R l2 l3 -> Forall2 R l1 l3.
Proof.
  intros A R HR l1 l2 l3 H. revert l3. induction H; intros l3 H3; inversion H3; subst; constructor; eauto.
Qed.
Lemma veq_sym : forall a b, veq a b -> veq b a.
Proof.
  intros a b [[H1 [H2 [H3 [H4 [H5 H6]]]]] HF]. split; [repeat split; congruence |].
  apply Forall2_sym; [apply member_sim_sym | exact HF].
Qed.
Lemma veq_trans : forall a b c, veq a b -> veq b c -> veq a c.
Proof.
  intros a b c [[H1 [H2 [H3 [H4 [H5 H6]]]]] HF] [[K1 [K2 [K3 [K4 [K5 K6]]]]] KF].
  split; [repeat split; congruence |].
  eapply Forall2_trans; [apply member_sim_trans | exact HF | exact KF].
Qed.

Lemma veq_names : forall a b, veq a b -> names_of_chain (cv_chain a) = names_of_chain (cv_chain b).
Proof.
  intros a b [_ HF]. unfold names_of_chain. induction HF as [| x y l l' Hxy _ IH]; [reflexivity |].
  cbn. destruct Hxy as [Hn _]. rewrite Hn, IH. reflexivity.
Qed.

(** ** the encodeToFile block (no fault: it always succeeds) *)

Definition meta_name (n : name) : Prop := n = Vol \/ exists d, n = Meta d.

Definition enc_fs (w : fs) (n : name) (c : ino) : fs :=
  mkfs (updf (updf (updf (updf (files w) (tmp_of n) (Some IEmpty)) (tmp_of n) (Some c)) n (Some c)) (tmp_of n) None)
       (nextid w).

Lemma meta_name_tmp : forall n, meta_name n -> tmp_of n <> n /\ is_img (tmp_of n) = false.
Proof. intros n [H | [d H]]; subst; cbn; split; try reflexivity; discriminate. Qed.

Lemma enc_fs_self : forall w n c, meta_name n -> files (enc_fs w n c) n = Some c.
Proof.
  intros w n c Hn. destruct (meta_name_tmp n Hn) as [Hne _]. unfold enc_fs. cbn [files].
  rewrite updf_neq by exact Hne. apply updf_eq.
Qed.
Lemma enc_fs_tmp : forall w n c, files (enc_fs w n c) (tmp_of n) = None.
Proof. intros. unfold enc_fs. cbn [files]. apply updf_eq. Qed.
Lemma enc_fs_other : forall w n c x, x <> n -> x <> tmp_of n -> files (enc_fs w n c) x = files w x.
Proof.
  intros w n c x H1 H2. unfold enc_fs. cbn [files].
  rewrite !updf_neq; auto.
Qed.
Lemma enc_fs_nextid : forall w n c, nextid (enc_fs w n c) = nextid w.
Proof. reflexivity. Qed.

Lemma set_file_eq : forall w a v, files (set_file w a v) a = v.
Proof. intros. unfold set_file. cbn [files]. apply updf_eq. Qed.
Lemma set_file_neq : forall w a v b, a <> b -> files (set_file w a v) b = files w b.
Proof. intros. unfold set_file. cbn [files]. apply updf_neq. assumption. Qed.

Lemma ff_sync_dir : forall w, ff sync_dir w = (w, Done Ok).
Proof. reflexivity. Qed.

Definition meta_content (c : ino) : Prop := match c with IVol _ | IDisk _ => True | _ => False end.

Lemma ff_encode : forall g c n w, meta_name n -> meta_content c ->
  ff (encode_to_file g c n) w = (enc_fs w n c, Done Ok).
Proof.
  intros g c n w Hn Hc. destruct (meta_name_tmp n Hn) as [Hne Himg].
  destruct c; try contradiction.
  all: unfold encode_to_file; cbn [ff apply_call]; rewrite Himg; cbn [is_err ff apply_call];
    rewrite set_file_eq;
    cbn [is_err andb ff apply_call]; rewrite Bool.andb_false_r; cbn [ff apply_call is_err];
    rewrite set_file_eq; cbn [ff apply_call is_err sync_dir];
    reflexivity.
Qed.
(** the states of the block: the directory before, three states in which only the temp file
    differs, and (twice) the final state *)
Lemma encode_states : forall g c n w (P : fs -> Prop), meta_name n -> meta_content c ->
  (forall x, only_on (eq (tmp_of n)) w x -> nextid x = nextid w -> P x) ->
  P (enc_fs w n c) ->
  Forall P (states (encode_to_file g c n) w).
Proof.
  intros g c n w P Hn Hc Htmp Hfin. destruct (meta_name_tmp n Hn) as [Hne Himg].
  assert (Hoo : forall v1 v2, only_on (eq (tmp_of n)) w (set_file (set_file w (tmp_of n) v1) (tmp_of n) v2)).
  { intros v1 v2 x Hx. rewrite !set_file_neq; auto. }
  assert (Hoo1 : forall v1, only_on (eq (tmp_of n)) w (set_file w (tmp_of n) v1)).
  { intros v1 x Hx. rewrite !set_file_neq; auto. }
  destruct c; try contradiction.
  all: unfold encode_to_file; cbn [states apply_call]; rewrite Himg; cbn [is_err states apply_call];
    (constructor; [apply Htmp; [apply only_on_refl | reflexivity] |]);
    rewrite set_file_eq;
    cbn [is_err states apply_call]; rewrite Bool.andb_false_r; cbn [states apply_call is_err];
    (constructor; [apply Htmp; [apply Hoo1 | reflexivity] |]);
    (constructor; [apply Htmp; [apply Hoo | reflexivity] |]);
    (constructor; [apply Htmp; [apply Hoo | reflexivity] |]);
    rewrite set_file_eq; cbn [states apply_call is_err sync_dir];
    (constructor; [exact Hfin |]); (constructor; [exact Hfin | constructor]).
Qed.

(** ** well-formed directories, and memory that agrees with the directory *)

Definition ids_fresh (w : fs) : Prop :=
  forall n id gn, files w n = Some (IImg id gn) -> (id < nextid w)%N.

Definition is_snap (d : dname) : Prop := exists s, d = Snap s.

(** the head is head-shaped, everything below it snapshot-shaped; no name and no inode twice *)
Definition wf_view (v : chainview) : Prop :=
  exists n id0 d0 tl,
    cv_chain v = mkmember (Head n) id0 d0 :: tl
    /\ i_head (cv_info v) = Some (Head n)
    /\ Forall (fun mb => is_snap (mb_name mb)) tl
    /\ NoDup (names_of_chain (cv_chain v))
    /\ NoDup (map mb_id (cv_chain v))
    /\ i_parent (cv_info v) = d_parent d0.

Definition wf_fs (g : cfg) (w : fs) : Prop :=
  ids_fresh w /\ exists v, recover g w = Some v /\ wf_view v.

Fixpoint find_mb (d : dname) (l : list member) : option member :=
  match l with
  | [] => None
  | mb :: t => if dname_eqb (mb_name mb) d then Some mb else find_mb d t
  end.

(** the member just above [d] in the chain (its only child), as a list *)
Fixpoint child_in (d : dname) (l : list member) : list dname :=
  match l with
  | a :: ((b :: _) as t) => if dname_eqb (mb_name b) d then [mb_name a] else child_in d t
  | _ => []
  end.

Definition agree (g : cfg) (v : chainview) (m : mem) : Prop :=
  info_sim (m_info m) (cv_info v)
  /\ (forall d, m_disks m d = option_map mb_disk (find_mb d (cv_chain v)))
  /\ (forall d, In d (names_of_chain (cv_chain v)) -> m_children m (Some d) = child_in d (cv_chain v))
  /\ (fix_children g = true -> forall d, ~ In d (names_of_chain (cv_chain v)) -> m_children m (Some d) = [])
  /\ m_active m = rev (names_of_chain (cv_chain v)).

Definition cfg_ok (g : cfg) : Prop := 2 <= maxlen g.

(** the invariant of a history: nothing created yet, or a well-formed directory with (if a replica
    is open) a memory that agrees with it *)
Definition Inv (g : cfg) (s : st) : Prop :=
  s = init \/
  (wf_fs g (s_fs s) /\
   match s_mem s with
   | None => True
   | Some m => exists v, recover g (s_fs s) = Some v /\ agree g v m
   end).

Lemma recover_intro : forall g w i h l c,
  files w Vol = Some (IVol i) -> i_head i = Some h -> walk (files w) (maxlen g) h = Some l ->
  files w Counter = Some (ICounter c) -> recover g w = Some (mkview i l).
Proof. intros g w i h l c H1 H2 H3 H4. unfold recover. rewrite H1, H2, H3, H4. reflexivity. Qed.

Lemma recover_elim : forall g w v, recover g w = Some v ->
  files w Vol = Some (IVol (cv_info v)) /\
  exists h c, i_head (cv_info v) = Some h /\ walk (files w) (maxlen g) h = Some (cv_chain v)
              /\ files w Counter = Some (ICounter c).
Proof.
  intros g w v H. unfold recover in H.
  destruct (files w Vol) as [[i | | | |] |]; try discriminate.
  destruct (i_head i) as [h |] eqn:Hh; [| discriminate].
  destruct (walk (files w) (maxlen g) h) as [l |] eqn:Hw; [| discriminate].
  destruct (files w Counter) as [[| | | c |] |] eqn:Hc; try discriminate.
  inversion H; subst v. cbn. split; [reflexivity |]. exists h, c. auto.
Qed.

Lemma ids_fresh_set : forall w a v, ids_fresh w ->
  (forall id gn, v = Some (IImg id gn) -> exists n gn', files w n = Some (IImg id gn')) ->
  ids_fresh (set_file w a v).
Proof.
  intros w a v Hf Hv n id gn Hn. unfold set_file in Hn. cbn [files nextid] in *. unfold updf in Hn.
  destruct (name_eqb a n).
  - destruct (Hv id gn Hn) as [n' [gn' H']]. eapply Hf; eauto.
  - eapply Hf; eauto.
Qed.

Lemma ids_fresh_created : forall w a, ids_fresh w -> ids_fresh (created w a).
Proof.
  intros w a Hf n id gn Hn. unfold created in *. cbn [files nextid] in *. unfold updf in Hn.
  destruct (name_eqb a n); [inversion Hn; subst; lia | apply Hf in Hn; lia].
Qed.

Lemma apply_call_fresh : forall w c, ids_fresh w -> ids_fresh (fst (apply_call w c))
                                     /\ (nextid w <= nextid (fst (apply_call w c)))%N.
Proof.
  intros w c Hf.
  destruct c; cbn [apply_call];
    repeat match goal with
           | |- context [match files ?w ?x with _ => _ end] => destruct (files w x) as [[]|] eqn:?
           | |- context [if is_img ?x then _ else _] => destruct (is_img x)
           | |- context [match ?c with IVol _ => _ | _ => _ end] => destruct c
           end; cbn [fst]; try (split; [assumption | lia]);
    try (split; [apply ids_fresh_created; assumption | cbn; lia]);
    try (split; [| cbn; lia];
         repeat apply ids_fresh_set; try assumption; cbn [truncated];
         intros id' gn' Hv; try discriminate; inversion Hv; subst; eauto).
Qed.

(** ** rewriting volume.meta (same head): the only visible change is the new information *)

Lemma footprint_not_voltmp : forall l n, footprint l n -> n <> VolTmp.
Proof. intros l n H Heq. subst. exact (footprint_voltmp l H). Qed.

Lemma recover_vol_rewrite : forall g w v i',
  recover g w = Some v -> i_head i' = i_head (cv_info v) ->
  recover g (enc_fs w Vol (IVol i')) = Some (mkview i' (cv_chain v)).
Proof.
  intros g w v i' Hr Hh. destruct (recover_elim g w v Hr) as [Hvol [h [c [Hhd [Hw Hc]]]]].
  apply recover_intro with (h := h) (c := c).
  - apply enc_fs_self. left. reflexivity.
  - congruence.
  - eapply walk_frame; [exact Hw |]. intros x Hx. split; apply enc_fs_other; cbn; discriminate.
  - rewrite enc_fs_other; [exact Hc | discriminate | cbn; discriminate].
Qed.

Lemma vol_rewrite_states : forall g w v i',
  recover g w = Some v -> i_head i' = i_head (cv_info v) ->
  Forall (fun x => recover g x = Some v \/ recover g x = Some (mkview i' (cv_chain v)))
         (states (encode_to_file g (IVol i') Vol) w).
Proof.
  intros g w v i' Hr Hh. apply encode_states.
  - left. reflexivity.
  - exact I.
  - intros x Hx _. left. eapply recover_only_on; [exact Hr | exact Hx |].
    intros n Hn Hf. cbn in Hn. subst n. exact (footprint_voltmp _ Hf).
  - right. apply recover_vol_rewrite; assumption.
Qed.

(** crash atomicity as a predicate on one directory *)
Definition Good (g : cfg) (vpre vpost : chainview) (x : fs) : Prop :=
  exists v, recover g x = Some v /\ (veq v vpre \/ veq v vpost).

Lemma Good_pre : forall g v vpost x, recover g x = Some v -> Good g v vpost x.
Proof. intros. exists v. split; [assumption | left; apply veq_refl]. Qed.
Lemma Good_post : forall g vpre v x, recover g x = Some v -> Good g vpre v x.
Proof. intros. exists v. split; [assumption | right; apply veq_refl]. Qed.

Lemma Forall_states_ret : forall A (P : fs -> Prop) (a : A) w, P w -> Forall P (states (Ret a) w).
Proof. intros. cbn. constructor; [assumption | constructor]. Qed.

(** the operations that only rewrite volume.meta: SetCheckpoint, SetRebuilding, close *)
Lemma vol_only_op : forall g w v i' A (k : res -> prog A),
  recover g w = Some v -> i_head i' = i_head (cv_info v) ->
  (forall e, exists a, k e = Ret a) ->
  let p := bind (encode_to_file g (IVol i') Vol) k in
  Forall (Good g v (mkview i' (cv_chain v))) (states p w)
  /\ fst (ff p w) = enc_fs w Vol (IVol i')
  /\ exists a, k Ok = Ret a /\ snd (ff p w) = Done a.
Proof.
  intros g w v i' A k Hr Hh Hk p. subst p. split; [| split].
  - apply Forall_states_bind.
    + eapply Forall_impl; [| apply vol_rewrite_states; eassumption].
      intros x [Hx | Hx]; [eapply Good_pre | eapply Good_post]; exact Hx.
    + intros e He. rewrite ff_encode in * by (cbn; auto; left; reflexivity). cbn [fst snd] in *.
      destruct (Hk e) as [a Ha]. rewrite Ha. apply Forall_states_ret.
      eapply Good_post. apply recover_vol_rewrite; assumption.
  - rewrite ff_bind, ff_encode by (cbn; auto; left; reflexivity).
    destruct (Hk Ok) as [a Ha]. rewrite Ha. reflexivity.
  - destruct (Hk Ok) as [a Ha]. exists a. split; [exact Ha |].
    rewrite ff_bind, ff_encode by (cbn; auto; left; reflexivity). rewrite Ha. reflexivity.
Qed.

(** ** freshness of inode numbers is kept by every program, in every state *)
Lemma states_fresh : forall A (p : prog A) w, ids_fresh w -> Forall ids_fresh (states p w).
Proof.
  induction p as [a | e | c k IH]; intros w Hf; cbn [states].
  - constructor; [assumption | constructor].
  - constructor; [assumption | constructor].
  - constructor; [assumption |]. destruct (apply_call w c) as [w1 r] eqn:Hc.
    apply IH. pose proof (apply_call_fresh w c Hf) as [H _]. rewrite Hc in H. exact H.
Qed.
Lemma ff_fresh : forall A (p : prog A) w, ids_fresh w -> ids_fresh (fst (ff p w)).
Proof.
  intros A p w Hf. rewrite <- (states_last_ff A p w w).
  pose proof (states_fresh A p w Hf) as H. destruct (states_head A p w) as [l Hl]. rewrite Hl in *.
  eapply Forall_forall; [exact H |].
  assert (Hne : w :: l <> []) by discriminate.
  apply (@exists_last _ (w :: l)) in Hne. destruct Hne as [l' [x Hx]]. rewrite Hx.
  rewrite last_last. apply in_or_app. right. left. reflexivity.
Qed.

(** ** what one operation on an open replica does (no fault) *)

(** [op_spec g w v m p]: from a directory [w] recovering to [v], with agreeing memory [m], the
    program [p] ends with a directory recovering to a well-formed view with which the returned
    memory agrees; every directory it passes through recovers to the old or the new view (up to
    [veq]); and if it returns an error the view is unchanged and the memory is the old one. *)
Definition op_spec (g : cfg) (w : fs) (v : chainview) (m : mem) (p : prog (mem * res)) : Prop :=
  exists w' m' r vpost,
    ff p w = (w', Done (m', r))
    /\ recover g w' = Some vpost /\ wf_view vpost /\ agree g vpost m'
    /\ Forall (Good g v vpost) (states p w)
    /\ ((r <> Ok -> vpost = v /\ m' = m) /\ m_children m' = m_children m).

Lemma wf_view_info : forall v i',
  wf_view v -> i_head i' = i_head (cv_info v) -> i_parent i' = i_parent (cv_info v) ->
  wf_view (mkview i' (cv_chain v)).
Proof.
  intros v i' [n [id0 [d0 [tl [H1 [H2 [H3 [H4 [H5 H6]]]]]]]]] Hh Hp.
  exists n, id0, d0, tl. cbn [cv_chain cv_info]. repeat split; try assumption; congruence.
Qed.

Lemma agree_info : forall g v m i',
  agree g v m -> agree g (mkview i' (cv_chain v)) (set_info m i').
Proof.
  intros g v m i' [H1 [H2 [H3 [H4 H5]]]]. unfold agree. cbn [cv_chain cv_info m_info m_disks m_children m_active set_info].
  repeat split; try assumption; reflexivity.
Qed.

Lemma agree_head : forall g v m, agree g v m -> i_head (m_info m) = i_head (cv_info v) /\ i_parent (m_info m) = i_parent (cv_info v).
Proof. intros g v m [[H1 [H2 [H3 [H4 [H5 H6]]]]] _]. split; assumption. Qed.

Lemma set_checkpoint_spec : forall g w v m c,
  recover g w = Some v -> wf_view v -> agree g v m -> op_spec g w v m (set_checkpoint g m c).
Proof.
  intros g w v m c Hr Hwf Hag. destruct (agree_head g v m Hag) as [Hh Hp].
  unfold set_checkpoint. set (i' := set_checkpoint_info (m_info m) c).
  change (m_info (set_info m i')) with i'.
  assert (Hh' : i_head i' = i_head (cv_info v)) by (subst i'; cbn; exact Hh).
  destruct (vol_only_op g w v i' _ (fun e => Ret (set_info m i', e)) Hr Hh') as [HF [Hfin [a [Ha Hout]]]];
    [intros e; eexists; reflexivity |].
  inversion Ha; subst a. clear Ha.
  exists (enc_fs w Vol (IVol i')), (set_info m i'), Ok, (mkview i' (cv_chain v)).
  split; [| split; [| split; [| split; [| split]]]].
  - rewrite (surjective_pairing (ff _ w)). rewrite Hfin, Hout. reflexivity.
  - apply recover_vol_rewrite; assumption.
  - apply wf_view_info; [assumption | assumption | subst i'; cbn; exact Hp].
  - apply agree_info. assumption.
  - exact HF.
  - split; [intros Hne; congruence | reflexivity].
Qed.

Lemma agree_info2 : forall g v m imem idisk,
  info_sim imem idisk -> agree g v m -> agree g (mkview idisk (cv_chain v)) (set_info m imem).
Proof.
  intros g v m imem idisk Hs [H1 [H2 [H3 [H4 H5]]]]. unfold agree.
  cbn [cv_chain cv_info m_info m_disks m_children m_active set_info].
  repeat split; try assumption; apply Hs.
Qed.

Lemma agree_mode : forall g v m x, agree g v m -> agree g v (set_mode m x).
Proof. intros g v m x H. exact H. Qed.

Lemma info_sim_dirty : forall i a b, info_sim (set_dirty_rebuilding i a (i_rebuilding i)) (set_dirty_rebuilding i b (i_rebuilding i)).
Proof. intros. repeat split. Qed.

Lemma set_rebuilding_spec : forall g w v m b,
  recover g w = Some v -> wf_view v -> agree g v m -> op_spec g w v m (set_rebuilding g m b).
Proof.
  intros g w v m b Hr Hwf Hag. destruct (agree_head g v m Hag) as [Hh Hp].
  unfold set_rebuilding. set (i' := set_dirty_rebuilding (m_info m) true b).
  assert (Hh' : i_head i' = i_head (cv_info v)) by (subst i'; cbn; exact Hh).
  set (mi := set_dirty_rebuilding (m_info m) (i_dirty (m_info m)) b).
  destruct (vol_only_op g w v i' _ (fun e => if is_ok e then Ret (set_info m mi, Ok) else Ret (m, Failed)) Hr Hh')
    as [HF [Hfin [a [Ha Hout]]]]; [intros e; destruct (is_ok e); eexists; reflexivity |].
  cbn in Ha. inversion Ha; subst a. clear Ha.
  exists (enc_fs w Vol (IVol i')), (set_info m mi), Ok, (mkview i' (cv_chain v)).
  split; [| split; [| split; [| split; [| split]]]].
  - rewrite (surjective_pairing (ff _ w)). rewrite Hfin, Hout. reflexivity.
  - apply recover_vol_rewrite; assumption.
  - apply wf_view_info; [assumption | assumption | subst i'; cbn; exact Hp].
  - apply agree_info2; [| assumption]. subst mi i'. repeat split.
  - exact HF.
  - split; [intros Hne; congruence | reflexivity].
Qed.

Lemma close_replica_spec : forall g w v m,
  recover g w = Some v -> wf_view v -> agree g v m -> op_spec g w v m (close_replica g m).
Proof.
  intros g w v m Hr Hwf Hag. destruct (agree_head g v m Hag) as [Hh Hp].
  unfold close_replica. cbn [m_info set_mode].
  set (i' := set_dirty_rebuilding (m_info m) false (i_rebuilding (m_info m))).
  assert (Hh' : i_head i' = i_head (cv_info v)) by (subst i'; cbn; exact Hh).
  destruct (vol_only_op g w v i' _ (fun e => Ret (set_mode m CLOSED, e)) Hr Hh')
    as [HF [Hfin [a [Ha Hout]]]]; [intros e; eexists; reflexivity |].
  inversion Ha; subst a. clear Ha.
  exists (enc_fs w Vol (IVol i')), (set_mode m CLOSED), Ok, (mkview i' (cv_chain v)).
  split; [| split; [| split; [| split; [| split]]]].
  - rewrite (surjective_pairing (ff _ w)). rewrite Hfin, Hout. reflexivity.
  - apply recover_vol_rewrite; assumption.
  - apply wf_view_info; [assumption | assumption | subst i'; cbn; exact Hp].
  - destruct Hag as [H1 [H2 [H3 [H4 H5]]]]. unfold agree. cbn [cv_chain cv_info m_info m_disks m_children m_active set_mode].
    repeat split; try assumption; try apply H1. 
  - exact HF.
  - split; [intros Hne; congruence | reflexivity].
Qed.

(** ** static footprints with postconditions *)

(** [withinQ S Q p]: whatever the fault-free replies, [p] changes only names in [S] and every
    value it returns satisfies [Q] *)
Fixpoint withinQ {A} (S : name -> Prop) (Q : A -> Prop) (p : prog A) : Prop :=
  match p with
  | Ret a => Q a
  | Abort _ => True
  | Do c k => (forall n, In n (may_write c) -> S n) /\ forall r, possible c r -> withinQ S Q (k r)
  end.

Lemma withinQ_within : forall A S Q (p : prog A), withinQ S Q p -> within S p.
Proof.
  induction p as [a | e | c k IH]; intros Hp; cbn [within withinQ] in *; auto.
  destruct Hp as [Hc Hk]. split; auto.
Qed.

Lemma withinQ_bind : forall A B S Q R (p : prog A) (f : A -> prog B),
  withinQ S Q p -> (forall a, Q a -> withinQ S R (f a)) -> withinQ S R (bind p f).
Proof.
  induction p as [a | e | c k IH]; intros f Hp Hf; cbn [bind withinQ] in *; auto.
  destruct Hp as [Hc Hk]. split; auto.
Qed.

Lemma withinQ_weaken : forall A (S T : name -> Prop) (Q R : A -> Prop) (p : prog A),
  (forall n, S n -> T n) -> (forall a, Q a -> R a) -> withinQ S Q p -> withinQ T R p.
Proof.
  induction p as [a | e | c k IH]; intros HST HQR Hp; cbn [withinQ] in *; auto.
  destruct Hp as [Hc Hk]. split; auto.
Qed.

(** the value a fault-free run returns satisfies the static postcondition *)
Lemma withinQ_ff : forall A S Q (p : prog A) w a, withinQ S Q p -> snd (ff p w) = Done a -> Q a.
Proof.
  induction p as [a' | e | c k IH]; intros w a Hp Hd; cbn [ff withinQ] in *.
  - inversion Hd; subst; assumption.
  - discriminate.
  - destruct Hp as [Hc Hk]. destruct (apply_call w c) as [w1 r] eqn:Hcall.
    apply (IH r w1 a); [apply Hk; exists w; rewrite Hcall; reflexivity | exact Hd].
Qed.

(** ** a static two-phase footprint: before and after one commit call *)

(** [phased S1 isc S2 Q1 Q2 p]: [p] changes only names in [S1] until a call satisfying [isc]
    succeeds, and only names in [S2] after that; values returned before the commit satisfy [Q1],
    values returned after it satisfy [Q2] *)
Fixpoint phased {A} (S1 : name -> Prop) (isc : call -> bool) (S2 : name -> Prop) (Q1 Q2 : A -> Prop)
  (p : prog A) : Prop :=
  match p with
  | Ret a => Q1 a
  | Abort _ => True
  | Do c k =>
      if isc c
      then forall r, possible c r -> if is_err r then phased S1 isc S2 Q1 Q2 (k r) else withinQ S2 Q2 (k r)
      else (forall n, In n (may_write c) -> S1 n) /\ forall r, possible c r -> phased S1 isc S2 Q1 Q2 (k r)
  end.

Lemma phased_bind : forall A B S1 isc S2 Q1 Q2 R1 R2 (p : prog A) (f : A -> prog B),
  phased S1 isc S2 Q1 Q2 p ->
  (forall a, Q1 a -> phased S1 isc S2 R1 R2 (f a)) ->
  (forall a, Q2 a -> withinQ S2 R2 (f a)) ->
  phased S1 isc S2 R1 R2 (bind p f).
Proof.
  induction p as [a | e | c k IH]; intros f Hp Hf Hw; cbn [bind phased] in *; auto.
  destruct (isc c).
  - intros r Hr. specialize (Hp r Hr). destruct (is_err r); [apply IH; auto | eapply withinQ_bind; eauto].
  - destruct Hp as [Hc Hk]. split; auto.
Qed.

(** a program that never issues a commit call and stays in S1 *)
Fixpoint no_commit {A} (isc : call -> bool) (p : prog A) : Prop :=
  match p with
  | Do c k => isc c = false /\ forall r, no_commit isc (k r)
  | _ => True
  end.

Lemma phased_within : forall A S1 isc S2 Q1 Q2 (p : prog A),
  withinQ S1 Q1 p -> no_commit isc p -> phased S1 isc S2 Q1 Q2 p.
Proof.
  induction p as [a | e | c k IH]; intros Hp Hn; cbn [phased withinQ no_commit] in *; auto.
  destruct Hn as [Hc0 Hn]. rewrite Hc0. destruct Hp as [Hc Hk]. split; auto.
Qed.

(** two directories agree outside [S] *)
Definition same_outside (S : name -> Prop) (a b : fs) : Prop := forall n, ~ S n -> files a n = files b n.

Lemma apply_err_same : forall w c, is_err (snd (apply_call w c)) = true -> fst (apply_call w c) = w.
Proof.
  intros w c H. destruct c; cbn in *;
    repeat match goal with
           | |- context [match files ?w ?x with _ => _ end] => destruct (files w x) as [[]|]
           | H : context [match files ?w ?x with _ => _ end] |- _ => destruct (files w x) as [[]|]
           | |- context [if is_img ?x then _ else _] => destruct (is_img x)
           | H : context [if is_img ?x then _ else _] |- _ => destruct (is_img x)
           | |- context [match ?c with IVol _ => _ | _ => _ end] => destruct c
           | H : context [match ?c with IVol _ => _ | _ => _ end] |- _ => destruct c
           end; cbn in *; try reflexivity; try discriminate.
Qed.

Lemma phased_states : forall A S1 isc S2 Q1 Q2 (p : prog A) w,
  phased S1 isc S2 Q1 Q2 p ->
  Forall (fun x => only_on S1 w x \/ same_outside S2 x (fst (ff p w))) (states p w).
Proof.
  induction p as [a | e | c k IH]; intros w Hp; cbn [states ff].
  - constructor; [left; apply only_on_refl | constructor].
  - constructor; [left; apply only_on_refl | constructor].
  - constructor; [left; apply only_on_refl |].
    cbn [phased] in Hp. destruct (apply_call w c) as [w1 r] eqn:Hcall.
    assert (Hpos : possible c r) by (exists w; rewrite Hcall; reflexivity).
    destruct (isc c) eqn:Ec.
    + specialize (Hp r Hpos). destruct (is_err r) eqn:Er.
      * (* the commit call failed: nothing changed *)
        assert (w1 = w).
        { replace w1 with (fst (apply_call w c)) by (rewrite Hcall; reflexivity).
          apply apply_err_same. rewrite Hcall. exact Er. }
        subst w1. apply IH. exact Hp.
      * (* committed: from here on only S2 *)
        apply withinQ_within in Hp.
        pose proof (within_states _ S2 (k r) w1 Hp) as Hst.
        pose proof (within_ff _ S2 (k r) w1 Hp) as Hfin.
        eapply Forall_impl; [| exact Hst]. intros x Hx. right.
        intros n Hn. rewrite Hx, Hfin; auto.
    + destruct Hp as [Hc Hk]. specialize (IH r w1 (Hk r Hpos)).
      eapply Forall_impl; [| exact IH]. intros x [Hx | Hx]; [left | right; exact Hx].
      eapply only_on_trans; [| exact Hx].
      intros n Hn. replace w1 with (fst (apply_call w c)) by (rewrite Hcall; reflexivity).
      apply apply_call_frame. intro Hin. apply Hn. auto.
Qed.

(** the two-phase argument for crash atomicity *)
Lemma phased_good : forall g A S1 isc S2 Q1 Q2 (p : prog A) w v vpost,
  phased S1 isc S2 Q1 Q2 p ->
  recover g w = Some v -> (forall n, S1 n -> ~ footprint (cv_chain v) n) ->
  recover g (fst (ff p w)) = Some vpost -> (forall n, S2 n -> ~ footprint (cv_chain vpost) n) ->
  Forall (Good g v vpost) (states p w).
Proof.
  intros g A S1 isc S2 Q1 Q2 p w v vpost Hp Hr H1 Hr' H2.
  eapply Forall_impl; [| apply (phased_states A S1 isc S2 Q1 Q2 p w Hp)].
  intros x [Hx | Hx].
  - apply Good_pre. eapply recover_only_on; eauto.
  - apply Good_post. eapply recover_frame; [exact Hr' |].
    intros n Hn. apply Hx. intro HS. exact (H2 n HS Hn).
Qed.

(** ... and when no commit happens at all *)
Lemma within_good : forall g A S (p : prog A) w v vpost,
  within S p -> recover g w = Some v -> (forall n, S n -> ~ footprint (cv_chain v) n) ->
  Forall (Good g v vpost) (states p w).
Proof.
  intros g A S p w v vpost Hp Hr H1.
  eapply Forall_impl; [| apply (within_states A S p w Hp)].
  intros x Hx. apply Good_pre. eapply recover_only_on; eauto.
Qed.

(** ** static footprints of the building blocks *)

Ltac poss H :=
  let w0 := fresh "w0" in
  destruct H as [w0 H]; cbn in H;
  repeat match type of H with
         | context [match files ?w ?x with _ => _ end] => destruct (files w x) as [[]|]
         | context [if is_img ?x then _ else _] => destruct (is_img x)
         | context [match ?c with IVol _ => _ | _ => _ end] => destruct c
         end; cbn in H; subst.

Ltac inS := let n := fresh "n" in let H := fresh "H" in
  intros n H; cbn in H; repeat (destruct H as [H | H]; [subst; auto |]); try contradiction.

Lemma wq_sync_dir : forall S, withinQ S (eq Ok) sync_dir.
Proof. intros S. cbn. split; [inS |]. intros r Hr. poss Hr. cbn. reflexivity. Qed.

Lemma wq_sync_dir_any : forall S (Q : res -> Prop), (forall e, Q e) -> withinQ S Q sync_dir.
Proof. intros S Q HQ. eapply withinQ_weaken; [| | apply (wq_sync_dir S)]; auto. Qed.

Lemma wq_encode : forall g c n (S : name -> Prop) (Q : res -> Prop),
  S (tmp_of n) -> S n -> (forall e, Q e) -> withinQ S Q (encode_to_file g c n).
Proof.
  intros g c n S Q H1 H2 HQ. unfold encode_to_file. cbn [withinQ].
  split; [inS |]. intros r1 _. destruct (is_err r1); [cbn; auto |]. cbn [withinQ].
  split; [inS |]. intros r2 _. destruct (fixed g && is_err r2).
  { cbn. split; [inS |]. intros; apply HQ. }
  cbn [withinQ]. split; [inS |]. intros r3 _. destruct (is_err r3); [cbn; auto |]. cbn [withinQ].
  split; [inS |]. intros r4 _. destruct (is_err r4); [cbn; auto |].
  apply wq_sync_dir_any. assumption.
Qed.

Lemma wq_rm_disk : forall d (S : name -> Prop) (Q : res -> Prop),
  (forall x, d = Some x -> S (Img x) /\ S (Meta x)) -> (forall e, Q e) -> withinQ S Q (rm_disk d).
Proof.
  intros d S Q HS HQ. destruct d as [x |]; [| cbn; auto].
  destruct (HS x eq_refl) as [H1 H2]. unfold rm_disk. cbn [withinQ].
  split; [inS |]. intros r1 _. destruct (negb (enoent_or_ok r1)); [cbn; auto |]. cbn [withinQ].
  split; [inS |]. intros r2 _. destruct (negb (enoent_or_ok r2)); [cbn; auto |].
  apply wq_sync_dir_any. assumption.
Qed.

Lemma wq_link_disk : forall old new (S : name -> Prop) (Q : res -> Prop),
  (forall x, new = Some x -> S (Img x) /\ S (Meta x)) -> (forall e, Q e) -> withinQ S Q (link_disk old new).
Proof.
  intros old new S Q HS HQ. destruct old as [o |]; [| cbn; auto]. destruct new as [nw |]; [| cbn; auto].
  destruct (HS nw eq_refl) as [H1 H2]. unfold link_disk. cbn [withinQ].
  split; [inS |]. intros r1 _. destruct (negb (is_err r1)); [cbn; auto |]. cbn [withinQ].
  split; [inS |]. intros r2 _. destruct (negb (is_err r2)); [cbn; auto |]. cbn [withinQ].
  split; [inS |]. intros r3 _. destruct (is_err r3); [cbn; auto |]. cbn [withinQ].
  split; [inS |]. intros r4 _. destruct (is_err r4); [cbn; auto |].
  apply wq_sync_dir_any. assumption.
Qed.

Lemma wq_get_rev : forall (S : name -> Prop) (Q : Z -> Prop), (forall z, Q z) -> withinQ S Q get_rev.
Proof. intros S Q HQ. unfold get_rev. cbn. split; [inS |]. intros r _. destruct r as [| | | [] |]; cbn; auto. Qed.

Lemma wq_open_file_trunc : forall n (S : name -> Prop) (Q : bool -> Prop), S n -> (forall b, Q b) -> withinQ S Q (open_file_trunc n).
Proof.
  intros n S Q H HQ. unfold open_file_trunc. cbn [withinQ]. split; [inS |]. intros r1 _.
  destruct (is_err r1); cbn; auto. split; [inS |]. intros; apply HQ.
Qed.
Lemma wq_open_file : forall n (S : name -> Prop) (Q : bool -> Prop), S n -> (forall b, Q b) -> withinQ S Q (open_file n).
Proof.
  intros n S Q H HQ. unfold open_file. cbn [withinQ]. split; [inS |]. intros r1 _.
  destruct (is_err r1); cbn; auto. split; [inS |]. intros; apply HQ.
Qed.

(** createNewHead touches only the new head's three names; the name it returns is the new head's
    or none, and on success it is the new head's *)
Definition cnh_post (nh : dname) (t : option dname * disk * res) : Prop :=
  (fst (fst t) = None \/ fst (fst t) = Some nh) /\ (snd t = Ok -> fst (fst t) = Some nh).

Lemma wq_create_new_head : forall g m n par cr (F : name -> Prop),
  F (Img (Head (S n))) -> F (Meta (Head (S n))) -> F (MetaTmp (Head (S n))) ->
  withinQ F (cnh_post (Head (S n))) (create_new_head g m (Some (Head n)) par cr).
Proof.
  intros g m n par cr F H1 H2 H3. unfold create_new_head. cbn [next_head].
  set (nh := Head (S n)) in *.
  assert (Hfail : cnh_post nh (None, mkdisk None false false 0 0, Failed)).
  { split; cbn; [auto | discriminate]. }
  assert (Hrest : withinQ F (cnh_post nh)
            (okf <- open_file_trunc (Img nh);;
             (if negb okf then Ret (None, mkdisk None false false 0 0, Failed)
              else Do (CTruncate (Img nh) (i_size (m_info m)))
                     (fun rt => if is_err rt then Ret (None, mkdisk None false false 0 0, Failed)
                                else rv <- get_rev;;
                                     e <- encode_to_file g (IDisk (mkdisk par false false cr rv)) (Meta nh);;
                                     Ret (Some nh, mkdisk par false false cr rv, e))))).
  { eapply withinQ_bind; [apply wq_open_file_trunc with (Q := fun _ => True); auto |].
    intros okf _. destruct (negb okf); [exact Hfail |]. cbn [withinQ]. split; [inS |].
    intros rt _. destruct (is_err rt); [exact Hfail |].
    eapply withinQ_bind; [apply wq_get_rev with (Q := fun _ => True); auto |]. intros rv _.
    eapply withinQ_bind; [apply wq_encode with (Q := fun _ => True); cbn; auto |]. intros e _.
    cbn. split; cbn; auto. }
  cbn [withinQ]. split; [inS |]. intros rs _. destruct (is_err rs); [exact Hrest |].
  cbn [withinQ]. split; [inS |]. intros rb _.
  destruct rb as [| | [] | |]; try exact Hfail;
    (eapply withinQ_bind; [apply wq_rm_disk with (Q := fun _ => True); [intros x Hx; inversion Hx; subst; auto | auto] |];
     intros e' _; destruct (is_ok e'); [exact Hrest | exact Hfail]).
Qed.

(** ** what the building blocks do (no fault), pointwise *)

Ltac nneq := first [ discriminate | assumption | congruence
                   | let Hq := fresh "Hq" in intro Hq; inversion Hq; subst; lia
                   | let Hq := fresh "Hq" in intro Hq; inversion Hq; subst; congruence ].

Lemma rm_disk_ff : forall w x,
  exists w1, ff (rm_disk (Some x)) w = (w1, Done Ok)
    /\ files w1 (Img x) = None /\ files w1 (Meta x) = None
    /\ (forall y, y <> Img x -> y <> Meta x -> files w1 y = files w y)
    /\ nextid w1 = nextid w.
Proof.
  intros w x. unfold rm_disk. cbn [ff apply_call].
  destruct (files w (Img x)) as [ci |] eqn:Hi; cbn [ff apply_call enoent_or_ok negb].
  - destruct (files (set_file w (Img x) None) (Meta x)) as [cm |] eqn:Hm; cbn [ff apply_call enoent_or_ok negb sync_dir is_err].
    + eexists. split; [reflexivity |]. repeat split.
      * rewrite set_file_neq by nneq. apply set_file_eq.
      * apply set_file_eq.
      * intros y H1 H2. rewrite !set_file_neq by congruence. reflexivity.
    + eexists. split; [reflexivity |]. repeat split.
      * apply set_file_eq.
      * exact Hm.
      * intros y H1 H2. rewrite !set_file_neq by congruence. reflexivity.
  - destruct (files w (Meta x)) as [cm |] eqn:Hm; cbn [ff apply_call enoent_or_ok negb sync_dir is_err].
    + eexists. split; [reflexivity |]. repeat split.
      * rewrite set_file_neq by nneq. exact Hi.
      * apply set_file_eq.
      * intros y H1 H2. rewrite !set_file_neq by congruence. reflexivity.
    + eexists. split; [reflexivity |]. repeat split; auto.
Qed.

Lemma get_rev_ff : forall w c, files w Counter = Some (ICounter c) -> ff get_rev w = (w, Done c).
Proof. intros w c H. unfold get_rev. cbn [ff apply_call]. rewrite H. reflexivity. Qed.

(** linkDisk: refused when a file of the new name exists; otherwise both links are made *)
Lemma link_disk_ff : forall w o nw ci cm,
  files w (Img o) = Some ci -> files w (Meta o) = Some cm -> o <> nw ->
  (files w (Img nw) <> None \/ files w (Meta nw) <> None) /\ ff (link_disk (Some o) (Some nw)) w = (w, Done Refused)
  \/ (files w (Img nw) = None /\ files w (Meta nw) = None /\
      ff (link_disk (Some o) (Some nw)) w =
        (set_file (set_file w (Img nw) (Some ci)) (Meta nw) (Some cm), Done Ok)).
Proof.
  intros w o nw ci cm Hi Hm Hne. unfold link_disk. cbn [ff apply_call].
  destruct (files w (Img nw)) as [c1 |] eqn:H1.
  { left. split; [left; discriminate |]. destruct c1; reflexivity. }
  cbn [is_err negb ff apply_call].
  destruct (files w (Meta nw)) as [c2 |] eqn:H2.
  { left. split; [right; discriminate |]. destruct c2; reflexivity. }
  cbn [is_err negb ff apply_call]. rewrite Hi, H1. cbn [is_err ff apply_call].
  rewrite set_file_neq by nneq. rewrite Hm. rewrite set_file_neq by nneq. rewrite H2.
  cbn [is_err ff apply_call sync_dir]. right. auto.
Qed.

Definition nodisk : disk := mkdisk None false false 0 0.

Definition cnh_rest (g : cfg) (m : mem) (nh : dname) (par : option dname) (cr : N)
  : prog (option dname * disk * res) :=
  okf <- open_file_trunc (Img nh) ;;
  if negb okf then Ret (None, nodisk, Failed) else
  Do (CTruncate (Img nh) (i_size (m_info m))) (fun rt =>
  if is_err rt then Ret (None, nodisk, Failed) else
  rv <- get_rev ;;
  let nd := mkdisk par false false cr rv in
  e <- encode_to_file g (IDisk nd) (Meta nh) ;;
  Ret (Some nh, nd, e)).

Lemma create_new_head_unfold : forall g m n par cr,
  create_new_head g m (Some (Head n)) par cr =
  Do (CStat (Img (Head (S n)))) (fun rs =>
  if is_err rs then cnh_rest g m (Head (S n)) par cr else
  Do (CStat (Img (Head (S n)))) (fun rb =>
  match rb with
  | RStat true => Ret (None, nodisk, Failed)
  | _ => e <- rm_disk (Some (Head (S n))) ;;
         if is_ok e then cnh_rest g m (Head (S n)) par cr else Ret (None, nodisk, Failed)
  end)).
Proof. reflexivity. Qed.

(** the part of createNewHead after the stale-file check, from a directory without that image *)
Lemma cnh_rest_ff : forall g m nh par cr w c,
  files w Counter = Some (ICounter c) -> files w (Img nh) = None ->
  exists w1, ff (cnh_rest g m nh par cr) w = (w1, Done (Some nh, mkdisk par false false cr c, Ok))
    /\ files w1 (Img nh) = Some (IImg (nextid w) 0)
    /\ files w1 (Meta nh) = Some (IDisk (mkdisk par false false cr c))
    /\ files w1 (MetaTmp nh) = None
    /\ (forall x, x <> Img nh -> x <> Meta nh -> x <> MetaTmp nh -> files w1 x = files w x)
    /\ nextid w1 = N.succ (nextid w).
Proof.
  intros g m nh par cr w c Hc Hn. unfold cnh_rest, open_file_trunc.
  cbn [bind ff apply_call]. rewrite Hn. cbn [is_err ff apply_call is_img bind]. rewrite Hn.
  cbn [is_err negb ff apply_call bind].
  assert (Hcr : files (created w (Img nh)) (Img nh) = Some (IImg (nextid w) 0)).
  { unfold created. cbn [files]. apply updf_eq. }
  rewrite Hcr. cbn [is_err ff].
  rewrite ff_bind. rewrite (get_rev_ff _ c).
  2:{ unfold created. cbn [files]. rewrite updf_neq by nneq. exact Hc. }
  rewrite ff_bind. rewrite ff_encode by (cbn; auto; right; eexists; reflexivity).
  cbn [ff]. eexists. split; [reflexivity |]. split; [| split; [| split; [| split]]].
  - rewrite enc_fs_other by (cbn; nneq). exact Hcr.
  - apply enc_fs_self. right. eexists. reflexivity.
  - apply (enc_fs_tmp _ (Meta nh)).
  - intros x H1 H2 H3. rewrite enc_fs_other by (cbn; assumption).
    unfold created. cbn [files]. apply updf_neq. congruence.
  - reflexivity.
Qed.

(** createNewHead: either the stale head file holds data (error, nothing changed), or the new
    head exists afterwards with a fresh inode and its metadata file *)
Lemma cnh_ff : forall g m n par cr w c,
  files w Counter = Some (ICounter c) ->
  let nh := Head (S n) in
  (ff (create_new_head g m (Some (Head n)) par cr) w = (w, Done (None, nodisk, Failed)))
  \/ exists w1, ff (create_new_head g m (Some (Head n)) par cr) w
                = (w1, Done (Some nh, mkdisk par false false cr c, Ok))
      /\ files w1 (Img nh) = Some (IImg (nextid w) 0)
      /\ files w1 (Meta nh) = Some (IDisk (mkdisk par false false cr c))
      /\ files w1 (MetaTmp nh) = None
      /\ (forall x, x <> Img nh -> x <> Meta nh -> x <> MetaTmp nh -> files w1 x = files w x)
      /\ nextid w1 = N.succ (nextid w).
Proof.
  intros g m n par cr w c Hc nh. rewrite create_new_head_unfold. fold nh. cbn [ff apply_call].
  destruct (files w (Img nh)) as [ci |] eqn:Hi.
  2:{ cbn [is_err]. right. apply cnh_rest_ff; assumption. }
  assert (Hnoerr : forall b, is_err (RStat b) = false) by reflexivity.
  assert (Hcase : (exists b, (match ci with IImg _ g0 => (w, RStat (N.ltb 0 g0)) | _ => (w, RStat true) end) = (w, RStat b))).
  { destruct ci; eauto. }
  destruct Hcase as [b Hb]. rewrite Hb. rewrite Hnoerr. cbn [ff apply_call]. rewrite Hi, Hb.
  destruct b.
  - left. reflexivity.
  - rewrite ff_bind. destruct (rm_disk_ff w nh) as [w0 [Hff [H1 [H2 [H3 H4]]]]]. rewrite Hff. cbn [is_ok res_eqb].
    right. destruct (cnh_rest_ff g m nh par cr w0 c) as [w1 [Hff1 [K1 [K2 [K3 [K4 K5]]]]]].
    + rewrite H3 by nneq. exact Hc.
    + exact H1.
    + exists w1. rewrite Hff1. rewrite H4 in *. repeat split; auto.
      intros x X1 X2 X3. rewrite K4 by assumption. apply H3; assumption.
Qed.

(** ** facts that follow from a well-formed view *)

Lemma find_mb_in : forall l mb, NoDup (names_of_chain l) -> In mb l -> find_mb (mb_name mb) l = Some mb.
Proof.
  induction l as [| a t IH]; intros mb Hnd Hin; [contradiction |].
  cbn in *. inversion Hnd as [| x l' Hnotin Hnd']; subst.
  destruct Hin as [Heq | Hin].
  - subst. rewrite dname_eqb_refl. reflexivity.
  - destruct (dname_eqb (mb_name a) (mb_name mb)) eqn:E.
    + apply dname_eqb_eq in E. exfalso. apply Hnotin. rewrite E. apply in_map. exact Hin.
    + apply IH; assumption.
Qed.

Lemma find_mb_none : forall l d, ~ In d (names_of_chain l) -> find_mb d l = None.
Proof.
  induction l as [| a t IH]; intros d Hn; [reflexivity |].
  cbn in *. destruct (dname_eqb (mb_name a) d) eqn:E.
  - apply dname_eqb_eq in E. exfalso. apply Hn. left. exact E.
  - apply IH. intro H. apply Hn. right. exact H.
Qed.

Lemma find_mb_some_in : forall l d mb, find_mb d l = Some mb -> In mb l /\ mb_name mb = d.
Proof.
  induction l as [| a t IH]; intros d mb H; [discriminate |].
  cbn in H. destruct (dname_eqb (mb_name a) d) eqn:E.
  - inversion H; subst. apply dname_eqb_eq in E. split; [left; reflexivity | exact E].
  - destruct (IH d mb H). split; [right; assumption | assumption].
Qed.

Lemma snap_not_head : forall tl k, Forall (fun mb => is_snap (mb_name mb)) tl -> ~ In (Head k) (names_of_chain tl).
Proof.
  intros tl k H Hin. unfold names_of_chain in Hin. apply in_map_iff in Hin. destruct Hin as [mb [Hn Hm]].
  eapply Forall_forall in H; [| exact Hm]. destruct H as [s Hs]. congruence.
Qed.

(** everything the proofs about one operation need from "the directory recovers to a
    well-formed view with which the memory agrees" *)
Record ctx (g : cfg) (w : fs) (v : chainview) (m : mem) : Prop := mkctx {
  cx_rec : recover g w = Some v;
  cx_wf : wf_view v;
  cx_ag : agree g v m;
  cx_fresh : ids_fresh w;
  cx_heads : forall k, m_children m (Some (Head k)) = []
}.

Lemma ctx_shape : forall g w v m, ctx g w v m ->
  exists n id0 d0 tl c,
    cv_chain v = mkmember (Head n) id0 d0 :: tl
    /\ i_head (cv_info v) = Some (Head n) /\ i_head (m_info m) = Some (Head n)
    /\ Forall (fun mb => is_snap (mb_name mb)) tl
    /\ NoDup (names_of_chain (cv_chain v)) /\ NoDup (map mb_id (cv_chain v))
    /\ files w Vol = Some (IVol (cv_info v)) /\ files w Counter = Some (ICounter c)
    /\ linked (files w) (cv_chain v)
    /\ length (cv_chain v) <= maxlen g
    /\ m_disks m (Head n) = Some d0
    /\ i_parent (cv_info v) = d_parent d0.
Proof.
  intros g w v m [Hr [n [id0 [d0 [tl [H1 [H2 [H3 [H4 [H5 H6]]]]]]]]] Hag Hf Hh].
  destruct (recover_elim g w v Hr) as [Hvol [h [c [Hhd [Hw Hc]]]]].
  exists n, id0, d0, tl, c.
  destruct (agree_head g v m Hag) as [Ha1 Ha2].
  destruct (walk_linked _ _ _ _ Hw) as [Hl _]. destruct (walk_length _ _ _ _ Hw) as [Hlen _].
  repeat split; try assumption; try congruence.
  destruct Hag as [_ [Hd _]]. rewrite Hd, H1. cbn. rewrite Nat.eqb_refl. reflexivity.
Qed.

(** [ospec]: like [op_spec], with the full context re-established for the final state *)
Definition ospec (g : cfg) (w : fs) (v : chainview) (m : mem) (p : prog (mem * res)) : Prop :=
  exists w' m' r vpost,
    ff p w = (w', Done (m', r))
    /\ ctx g w' vpost m'
    /\ Forall (Good g v vpost) (states p w)
    /\ (r <> Ok -> vpost = v /\ m' = m).

(** ** Snapshot (createDisk) *)

Definition snap_S1 (nh sn : dname) (x : name) : Prop :=
  In x [Img nh; Meta nh; MetaTmp nh; Img sn; Meta sn; MetaTmp sn; VolTmp].

Lemma snap_S1_disjoint : forall l nh sn x,
  ~ In nh (names_of_chain l) -> ~ In sn (names_of_chain l) -> snap_S1 nh sn x -> ~ footprint l x.
Proof.
  intros l nh sn x H1 H2 Hx Hf. unfold snap_S1 in Hx. cbn in Hx.
  repeat (destruct Hx as [Hx | Hx]; [subst x | ]); try contradiction.
  - apply footprint_img in Hf. contradiction.
  - apply footprint_meta in Hf. contradiction.
  - exact (footprint_tmp _ _ Hf).
  - apply footprint_img in Hf. contradiction.
  - apply footprint_meta in Hf. contradiction.
  - exact (footprint_tmp _ _ Hf).
  - exact (footprint_voltmp _ Hf).
Qed.

(** the clean-up of createDisk's error exits only touches the new names *)
Lemma snap_cleanup_within : forall nh sn (m' : mem) (e : res),
  within (snap_S1 nh sn)
    (_ <- rm_disk (Some nh) ;; _ <- rm_disk (Some sn) ;; Ret (m', e)).
Proof.
  intros nh sn m' e. apply withinQ_within with (Q := fun _ => True).
  eapply withinQ_bind; [apply wq_rm_disk with (Q := fun _ => True); [| auto] |].
  { intros x Hx. inversion Hx; subst. unfold snap_S1; cbn; auto 10. }
  intros _ _. eapply withinQ_bind; [apply wq_rm_disk with (Q := fun _ => True); [| auto] |].
  { intros x Hx. inversion Hx; subst. unfold snap_S1; cbn; auto 10. }
  intros _ _. exact I.
Qed.

Lemma states_ret_good : forall g v vpost w (a : mem * res), recover g w = Some v -> Forall (Good g v vpost) (states (Ret a) w).
Proof. intros. apply Forall_states_ret. apply Good_pre. assumption. Qed.

(** refusal: nothing happened *)
Lemma ospec_refuse : forall g w v m p r,
  ctx g w v m -> r <> Ok -> p = Ret (m, r) -> ospec g w v m p.
Proof.
  intros g w v m p r Hc Hr Hp. subst p. exists w, m, r, v. split; [reflexivity |]. split; [exact Hc |].
  split; [apply states_ret_good; apply Hc | auto].
Qed.


(** the repaired functions return the memory at entry on every failure exit; in a fault-free run
    the failure exits already do ([ospec]: r <> Ok -> m' = m) *)
Lemma keep_old_res : forall g m t, snd (keep_old g m t) = snd t.
Proof. intros g m [m' r]. unfold keep_old. destruct (fix_mem g && negb (is_ok (snd (m', r)))); reflexivity. Qed.

Lemma ospec_keepold : forall g w v m p, ospec g w v m p -> ospec g w v m (keepold g m p).
Proof.
  intros g w v m p [w' [m' [r [vp [Hff [Hc [Hst Hr]]]]]]].
  assert (Hk : keep_old g m (m', r) = (m', r)).
  { unfold keep_old. cbn [snd]. destruct (fix_mem g && negb (is_ok r)) eqn:E; [| reflexivity].
    apply Bool.andb_true_iff in E. destruct E as [_ E]. assert (Hne : r <> Ok) by (intro; subst r; discriminate).
    destruct (Hr Hne) as [_ Hm]. subst m'. reflexivity. }
  exists w', m', r, vp. unfold keepold. split; [rewrite ff_bind, Hff; cbn [ff]; rewrite Hk; reflexivity |].
  split; [exact Hc |]. split; [| exact Hr].
  apply Forall_states_bind; [exact Hst |]. intros a Ha. rewrite Hff in *. cbn [fst snd] in *. inversion Ha; subst a.
  apply Forall_states_ret. apply Good_post. apply Hc.
Qed.

(** the commit stage of createDisk: volume.meta is rewritten to name the new head, then the old
    head's two files are removed *)
Lemma cd_commit_spec : forall g w3 v ma n s nd rec idn id0 d0 tl gn,
  let nh := Head (S n) in let sn := Snap s in let oh := Head n in
  recover g w3 = Some v ->
  cv_chain v = mkmember oh id0 d0 :: tl ->
  Forall (fun mb => is_snap (mb_name mb)) tl ->
  NoDup (names_of_chain (cv_chain v)) ->
  ~ In sn (names_of_chain (cv_chain v)) ->
  S (length (cv_chain v)) <= maxlen g ->
  files w3 (Meta nh) = Some (IDisk nd) -> files w3 (Img nh) = Some (IImg idn 0) ->
  files w3 (Meta sn) = Some (IDisk rec) -> files w3 (Img sn) = Some (IImg id0 gn) ->
  d_parent nd = Some sn -> d_parent rec = d_parent d0 ->
  let mc := cd_memc ma (Some oh) nh in
  let info' := set_head_info (m_info mc) (Some nh) true (Some sn) (d_rev nd) in
  let vpost := mkview info' (mkmember nh idn nd :: mkmember sn id0 rec :: tl) in
  exists w5,
    ff (cd_commit g ma (Some oh) (Some sn) nh nd) w3 = (w5, Done (set_info mc info', Ok))
    /\ recover g w5 = Some vpost
    /\ Forall (Good g v vpost) (states (cd_commit g ma (Some oh) (Some sn) nh nd) w3).
Proof.
  intros g w3 v ma n s nd rec idn id0 d0 tl gn nh sn oh Hrec Hchain Hsnaps Hnd Hsn Hlen
         Hmnh Hinh Hmsn Hisn Hpnd Hprec mc info' vpost.
  destruct (recover_elim g w3 v Hrec) as [Hvol [h [c [Hhd [Hw Hc]]]]].
  destruct (walk_linked _ _ _ _ Hw) as [Hlink _].
  assert (Hnh : ~ In nh (names_of_chain (cv_chain v))).
  { rewrite Hchain. cbn. intros [H | H]; [inversion H; lia | exact (snap_not_head tl (S n) Hsnaps H)]. }
  assert (Hoh_tl : ~ In oh (names_of_chain tl)) by (apply snap_not_head; exact Hsnaps).
  (* the directory right after the commit *)
  set (w4 := enc_fs w3 Vol (IVol info')).
  assert (Hlink4 : linked (files w4) (mkmember nh idn nd :: mkmember sn id0 rec :: tl)).
  { cbn [linked mb_name mb_disk mb_id]. subst w4.
    rewrite !enc_fs_other by (cbn; discriminate).
    split; [exact Hmnh |]. split; [eauto |]. split; [exact Hpnd |].
    split; [exact Hmsn |]. split; [eauto |].
    rewrite Hchain in Hlink. cbn [linked mb_name mb_disk] in Hlink. destruct Hlink as [_ [_ [Hp0 Htl]]].
    split; [rewrite Hprec; exact Hp0 |].
    eapply linked_frame; [exact Htl |]. intros x Hx. split; apply enc_fs_other; cbn; discriminate. }
  assert (Hrec4 : recover g w4 = Some vpost).
  { subst vpost. apply recover_intro with (h := nh) (c := c).
    - subst w4. apply enc_fs_self. left. reflexivity.
    - reflexivity.
    - apply (linked_walk (files w4) (mkmember nh idn nd :: mkmember sn id0 rec :: tl) (maxlen g) Hlink4); [discriminate |].
      rewrite Hchain in Hlen. cbn [length] in *. lia.
    - subst w4. rewrite enc_fs_other; [exact Hc | discriminate | cbn; discriminate]. }
  (* removing the old head afterwards does not touch the new chain *)
  assert (Hpost_fp : forall x, In x [Img oh; Meta oh] -> ~ footprint (cv_chain vpost) x).
  { intros x Hx Hf. subst vpost. cbn [cv_chain] in Hf.
    assert (Hno : ~ In oh (names_of_chain (mkmember nh idn nd :: mkmember sn id0 rec :: tl))).
    { cbn. intros [H | [H | H]]; [inversion H; lia | discriminate | exact (Hoh_tl H)]. }
    cbn in Hx. destruct Hx as [Hx | [Hx | []]]; subst x.
    - apply footprint_img in Hf. exact (Hno Hf).
    - apply footprint_meta in Hf. exact (Hno Hf). }
  unfold cd_commit. fold mc. fold info'.
  destruct (rm_disk_ff w4 oh) as [w5 [Hff5 [H5a [H5b [H5c H5d]]]]].
  exists w5. split; [| split].
  - rewrite ff_bind, ff_encode by (cbn; auto; left; reflexivity). fold w4. cbn [is_ok res_eqb negb].
    rewrite ff_bind, Hff5. reflexivity.
  - eapply recover_frame; [exact Hrec4 |]. intros x Hx. apply H5c.
    + intro; subst x. apply (Hpost_fp (Img oh)); [left; reflexivity | exact Hx].
    + intro; subst x. apply (Hpost_fp (Meta oh)); [right; left; reflexivity | exact Hx].
  - apply Forall_states_bind.
    + apply encode_states; [left; reflexivity | exact I | |].
      * intros x Hx _. apply Good_pre. eapply recover_only_on; [exact Hrec | exact Hx |].
        intros y Hy Hf. cbn in Hy. subst y. exact (footprint_voltmp _ Hf).
      * apply Good_post. exact Hrec4.
    + intros e He. rewrite ff_encode in * by (cbn; auto; left; reflexivity). cbn [fst snd] in *.
      inversion He; subst e. cbn [is_ok res_eqb negb]. fold w4.
      apply Forall_states_bind.
      * eapply Forall_impl; [| apply (within_states _ (fun x => In x [Img oh; Meta oh]) (rm_disk (Some oh)) w4)].
        { intros x Hx. apply Good_post. eapply recover_only_on; [exact Hrec4 | exact Hx | exact Hpost_fp]. }
        apply withinQ_within with (Q := fun _ => True). apply wq_rm_disk; [| auto].
        intros y Hy. inversion Hy; subst. cbn. auto.
      * intros a Ha. apply Forall_states_ret. apply Good_post.
        rewrite Hff5. cbn [fst].
        eapply recover_frame; [exact Hrec4 |]. intros x Hx. apply H5c.
        -- intro; subst x. apply (Hpost_fp (Img oh)); [left; reflexivity | exact Hx].
        -- intro; subst x. apply (Hpost_fp (Meta oh)); [right; left; reflexivity | exact Hx].
Qed.

(** ** memory agreement after a snapshot *)

Lemma child_in_cons2 : forall d a b t,
  child_in d (a :: b :: t) = if dname_eqb (mb_name b) d then [mb_name a] else child_in d (b :: t).
Proof. reflexivity. Qed.

Lemma child_in_notin : forall d l, ~ In d (names_of_chain (tl l)) -> child_in d l = [].
Proof.
  intros d l. induction l as [| a t IH]; intros Hn; [reflexivity |].
  destruct t as [| b t']; [reflexivity |].
  rewrite child_in_cons2. cbn [tl names_of_chain map] in Hn.
  destruct (dname_eqb (mb_name b) d) eqn:E.
  - apply dname_eqb_eq in E. exfalso. apply Hn. left. exact E.
  - apply IH. cbn [tl]. intro H. apply Hn. right. exact H.
Qed.

(** the child of a member below the second one does not depend on the first two *)
Lemma child_in_skip : forall d a a' t, ~ (match t with b :: _ => mb_name b = d | [] => False end) ->
  child_in d (a :: t) = child_in d (a' :: t).
Proof.
  intros d a a' t Hn. destruct t as [| b t']; [reflexivity |].
  rewrite !child_in_cons2. destruct (dname_eqb (mb_name b) d) eqn:E; [| reflexivity].
  apply dname_eqb_eq in E. contradiction.
Qed.

Lemma removelast_app1 : forall A (l : list A) x, removelast (l ++ [x]) = l.
Proof. intros. rewrite removelast_app by discriminate. cbn. apply app_nil_r. Qed.

Lemma memd_false : forall x l, ~ In x l -> memd x l = false.
Proof.
  induction l as [| y t IH]; intros Hn; [reflexivity |]. cbn.
  rewrite dname_eqb_neq by (intro; subst; apply Hn; left; reflexivity).
  apply IH. intro; apply Hn; right; assumption.
Qed.

Lemma removed_single : forall x, removed x [x] = [].
Proof. intro x. cbn. rewrite dname_eqb_refl. reflexivity. Qed.

Lemma snap_agree : forall g v m n s id0 d0 tl nd rec idn,
  let nh := Head (S n) in let sn := Snap s in let oh := Head n in
  agree g v m ->
  cv_chain v = mkmember oh id0 d0 :: tl ->
  Forall (fun mb => is_snap (mb_name mb)) tl ->
  NoDup (names_of_chain (cv_chain v)) ->
  ~ In sn (names_of_chain (cv_chain v)) ->
  m_children m (Some sn) = [] -> (forall k, m_children m (Some (Head k)) = []) ->
  d_parent rec = d_parent d0 ->
  d_parent d0 = match tl with y :: _ => Some (mb_name y) | [] => None end ->
  let m2 := cd_mem2 m nh nd sn in
  let m5 := cd_mem5 (cd_mem3 m2 oh sn rec) oh sn in
  let mc := cd_memc m5 (Some oh) nh in
  let info' := set_head_info (m_info mc) (Some nh) true (Some sn) (d_rev nd) in
  agree g (mkview info' (mkmember nh idn nd :: mkmember sn id0 rec :: tl)) (set_info mc info')
  /\ (forall k, m_children (set_info mc info') (Some (Head k)) = []).
Proof.
  intros g v m n s id0 d0 tl nd rec idn nh sn oh [Hinfo [Hdisks [Hchild [Hfix Hact]]]] Hchain Hsnaps Hnd Hsn Hcs Hheads Hprec Hp0
         m2 m5 mc info'.
  assert (Hoh_tl : ~ In oh (names_of_chain tl)) by (apply snap_not_head; exact Hsnaps).
  assert (Hnh_tl : ~ In nh (names_of_chain tl)) by (apply snap_not_head; exact Hsnaps).
  assert (Hsn_tl : ~ In sn (names_of_chain tl)).
  { intro H. apply Hsn. rewrite Hchain. right. exact H. }
  rewrite Hchain in *. cbn [names_of_chain map mb_name] in Hnd, Hact.
  (* the children map after the updates *)
  set (p0 := d_parent d0) in *.
  assert (Hpar3 : parent_of (cd_mem3 m2 oh sn rec) oh = p0).
  { unfold parent_of, cd_mem3. cbn [m_disks set_disks]. rewrite updd_eq. exact Hprec. }
  assert (Hch5 : m_children m5 =
                 add_child (rm_child (add_child (m_children m) (Some sn) nh) p0 oh) p0 sn).
  { subst m5. unfold cd_mem5. cbn [m_children set_active]. unfold update_child. rewrite Hpar3.
    cbn [m_children set_children cd_mem3 set_disks m2 cd_mem2 cd_mem1]. reflexivity. }
  assert (Hp0_sn : p0 <> Some sn).
  { subst p0. rewrite Hp0. destruct tl as [| y t]; [discriminate |]. intro H. inversion H.
    apply Hsn_tl. left. assumption. }
  assert (Hp0_head : forall k, p0 <> Some (Head k)).
  { intros k. subst p0. rewrite Hp0. destruct tl as [| y t]; [discriminate |]. intro H. inversion H as [Hy].
    inversion Hsnaps as [| ? ? Hs _]; subst. destruct Hs as [s' Hs']. congruence. }
  assert (Hkey : forall q, q <> p0 -> q <> Some sn -> m_children m5 q = m_children m q).
  { intros q H1 H2. rewrite Hch5. unfold add_child, rm_child.
    rewrite updc_neq by congruence. rewrite updc_neq by congruence. rewrite updc_neq by congruence. reflexivity. }
  assert (Hkey_sn : m_children m5 (Some sn) = [nh]).
  { rewrite Hch5. unfold add_child at 1. rewrite updc_neq by exact Hp0_sn.
    unfold rm_child. rewrite updc_neq by exact Hp0_sn. unfold add_child. rewrite updc_eq, Hcs. reflexivity. }
  assert (Hmc_ch : m_children (set_info mc info') = m_children m5) by reflexivity.
  split.
  - unfold agree. cbn [cv_info cv_chain m_info set_info].
    split; [apply info_sim_refl |]. split; [| split; [| split]].
    + (* diskData *)
      intros d. cbn [m_disks set_info mc cd_memc set_active set_disks m5 cd_mem5 update_child set_children cd_mem3 m2 cd_mem2 cd_mem1].
      cbn [find_mb mb_name].
      destruct (dname_dec oh d) as [E1 | E1].
      { subst d. rewrite updd_eq. rewrite dname_eqb_neq by (intro H; inversion H; lia).
        rewrite dname_eqb_neq by discriminate. rewrite find_mb_none by exact Hoh_tl. reflexivity. }
      rewrite updd_neq by exact E1. rewrite updd_neq by exact E1.
      destruct (dname_dec sn d) as [E2 | E2].
      { subst d. rewrite updd_eq. rewrite dname_eqb_neq by discriminate. rewrite dname_eqb_refl. reflexivity. }
      rewrite updd_neq by exact E2.
      destruct (dname_dec nh d) as [E3 | E3].
      { subst d. rewrite updd_eq. rewrite dname_eqb_refl. reflexivity. }
      rewrite updd_neq by exact E3. rewrite dname_eqb_neq by exact E3. rewrite dname_eqb_neq by exact E2.
      rewrite Hdisks. cbn [find_mb mb_name]. rewrite dname_eqb_neq by exact E1. reflexivity.
    + (* children of the members *)
      intros d Hd. rewrite Hmc_ch. cbn [names_of_chain map mb_name] in Hd.
      destruct Hd as [Hd | [Hd | Hd]].
      * subst d. rewrite Hkey; [| apply not_eq_sym; apply Hp0_head | discriminate].
        replace (m_children m (Some nh)) with (@nil dname) by (symmetry; apply Hheads).
        symmetry. apply child_in_notin. cbn [List.tl names_of_chain map mb_name].
        intros [H | H]; [discriminate | exact (Hnh_tl H)].
      * subst d. rewrite Hkey_sn. rewrite child_in_cons2. cbn [mb_name]. rewrite dname_eqb_refl. reflexivity.
      * rewrite child_in_cons2. cbn [mb_name]. rewrite dname_eqb_neq by (intro; subst; exact (Hsn_tl Hd)).
        destruct (odname_eqb p0 (Some d)) eqn:Ep.
        -- apply odname_eqb_eq in Ep. rewrite <- Ep. rewrite Hch5.
           unfold add_child at 1. rewrite updc_eq. unfold rm_child. rewrite updc_eq.
           unfold add_child. rewrite updc_neq by (apply not_eq_sym; exact Hp0_sn).
           assert (Hold : m_children m p0 = [oh]).
           { rewrite Ep. rewrite (Hchild d) by (right; exact Hd).
             subst p0. rewrite Hp0 in Ep. destruct tl as [| y t]; [discriminate |]. inversion Ep as [Hy].
             rewrite child_in_cons2. cbn [mb_name]. rewrite Hy. rewrite dname_eqb_refl. reflexivity. }
           rewrite Hold. rewrite removed_single. cbn [memd app].
           subst p0. rewrite Hp0 in Ep. destruct tl as [| y t]; [discriminate |]. inversion Ep as [Hy].
           rewrite child_in_cons2. rewrite Hy, dname_eqb_refl. reflexivity.
        -- assert (Ep' : p0 <> Some d) by (intro H; rewrite H, odname_eqb_refl in Ep; discriminate).
           rewrite Hkey; [| apply not_eq_sym; exact Ep' | intro H; inversion H; subst; exact (Hsn_tl Hd)].
           rewrite (Hchild d) by (right; exact Hd).
           apply child_in_skip. subst p0. rewrite Hp0 in Ep'. destruct tl as [| y t]; [auto |].
           intro Hy. apply Ep'. rewrite Hy. reflexivity.
    + (* entries of names outside the chain (repaired code only) *)
      intros Hfx d Hd. rewrite Hmc_ch. cbn [names_of_chain map mb_name] in Hd.
      assert (Hd1 : d <> nh) by (intro; subst; apply Hd; left; reflexivity).
      assert (Hd2 : d <> sn) by (intro; subst; apply Hd; right; left; reflexivity).
      assert (Hd3 : ~ In d (names_of_chain tl)) by (intro H; apply Hd; right; right; exact H).
      rewrite Hkey.
      * destruct (dname_dec d oh) as [E | E]; [subst d; apply Hheads |].
        apply Hfix; [exact Hfx |]. cbn [names_of_chain map mb_name]. intros [H | H]; [congruence | exact (Hd3 H)].
      * intro H. subst p0. rewrite Hp0 in H. destruct tl as [| y t]; [discriminate |]. inversion H; subst.
        apply Hd3. left. reflexivity.
      * congruence.
    + (* activeDiskData *)
      cbn [m_active set_info mc cd_memc set_active set_disks m5 cd_mem5 update_child set_children cd_mem3 m2 cd_mem2 cd_mem1].
      rewrite Hact. cbn [rev names_of_chain map mb_name]. rewrite removelast_app1.
      rewrite <- !app_assoc. reflexivity.
  - intros k. rewrite Hmc_ch. rewrite Hkey; [apply Hheads | apply not_eq_sym; apply Hp0_head | discriminate].
Qed.

(** the clean-up exits of createDisk: nothing of the chain is touched, the memory is the old one *)
Lemma cd_cleanup_spec : forall g w1 v vpost nh sn m e,
  recover g w1 = Some v ->
  ~ In nh (names_of_chain (cv_chain v)) -> ~ In sn (names_of_chain (cv_chain v)) ->
  exists w2, ff (cd_cleanup nh (Some sn) m e) w1 = (w2, Done (m, e))
    /\ recover g w2 = Some v
    /\ Forall (Good g v vpost) (states (cd_cleanup nh (Some sn) m e) w1).
Proof.
  intros g w1 v vpost nh sn m e Hrec Hnh Hsn.
  pose proof (snap_cleanup_within nh sn m e) as Hw. fold (cd_cleanup nh (Some sn) m e) in Hw.
  assert (Hdis : forall x, snap_S1 nh sn x -> ~ footprint (cv_chain v) x).
  { intros x Hx. exact (snap_S1_disjoint _ nh sn x Hnh Hsn Hx). }
  unfold cd_cleanup in *.
  destruct (rm_disk_ff w1 nh) as [wa [Hffa _]]. destruct (rm_disk_ff wa sn) as [wb [Hffb _]].
  exists wb. split; [| split].
  - rewrite ff_bind, Hffa, ff_bind, Hffb. reflexivity.
  - pose proof (within_ff _ _ _ w1 Hw) as Hoo. rewrite ff_bind, Hffa, ff_bind, Hffb in Hoo. cbn [fst ff] in Hoo.
    eapply recover_only_on; eauto.
  - eapply within_good; eauto.
Qed.

Lemma ids_lt_fresh : forall g w v, recover g w = Some v -> ids_fresh w ->
  forall mb, In mb (cv_chain v) -> (mb_id mb < nextid w)%N.
Proof.
  intros g w v Hr Hf mb Hin. destruct (recover_elim g w v Hr) as [_ [h [c [_ [Hw _]]]]].
  destruct (walk_linked _ _ _ _ Hw) as [Hl _]. clear Hw.
  induction (cv_chain v) as [| a t IH]; [contradiction |].
  cbn [linked] in Hl. destruct Hl as [_ [[gn Hi] [_ Ht]]]. destruct Hin as [Heq | Hin].
  - subst. eapply Hf. exact Hi.
  - apply IH; assumption.
Qed.

Lemma wf_view_snap : forall v n s id0 d0 tl nd rec idn info',
  let nh := Head (S n) in let sn := Snap s in let oh := Head n in
  cv_chain v = mkmember oh id0 d0 :: tl ->
  Forall (fun mb => is_snap (mb_name mb)) tl ->
  NoDup (names_of_chain (cv_chain v)) -> NoDup (map mb_id (cv_chain v)) ->
  ~ In sn (names_of_chain (cv_chain v)) ->
  (forall mb, In mb (cv_chain v) -> mb_id mb <> idn) ->
  i_head info' = Some nh -> i_parent info' = d_parent nd ->
  wf_view (mkview info' (mkmember nh idn nd :: mkmember sn id0 rec :: tl)).
Proof.
  intros v n s id0 d0 tl nd rec idn info' nh sn oh Hchain Hsnaps Hnd Hndi Hsn Hid Hh Hp.
  rewrite Hchain in *. cbn [names_of_chain map mb_name mb_id] in *.
  exists (S n), idn, nd, (mkmember sn id0 rec :: tl). cbn [cv_chain cv_info].
  split; [reflexivity |]. split; [exact Hh |]. split; [| split; [| split]].
  - constructor; [exists s; reflexivity | exact Hsnaps].
  - cbn [names_of_chain map mb_name]. inversion Hnd as [| ? ? Hn1 Hn2]; subst.
    constructor.
    + intros [H | H]; [discriminate | exact (snap_not_head tl (S n) Hsnaps H)].
    + constructor; [intro H; apply Hsn; right; exact H | exact Hn2].
  - cbn [map mb_id]. inversion Hndi as [| ? ? Hi1 Hi2]; subst. constructor.
    + intros [H | H].
      * apply (Hid (mkmember oh id0 d0)); [left; reflexivity | cbn; congruence].
      * apply in_map_iff in H. destruct H as [mb [Hm1 Hm2]]. apply (Hid mb); [right; exact Hm2 | exact Hm1].
    + constructor; assumption.
  - exact Hp.
Qed.

Lemma cd_link_spec : forall g w w1 v m n s id0 d0 tl c user cr,
  let nh := Head (S n) in let sn := Snap s in let oh := Head n in
  let nd := mkdisk (Some sn) false false cr c in
  ctx g w v m ->
  recover g w1 = Some v -> ids_fresh w1 ->
  cv_chain v = mkmember oh id0 d0 :: tl ->
  ~ In sn (names_of_chain (cv_chain v)) ->
  S (length (cv_chain v)) <= maxlen g ->
  m_children m (Some sn) = [] ->
  files w1 (Img nh) = Some (IImg (nextid w) 0) -> files w1 (Meta nh) = Some (IDisk nd) ->
  files w1 Counter = Some (ICounter c) ->
  (forall p, Forall (Good g v p) (states (Ret (m, Failed)) w) -> True) ->
  exists w' m' r vpost,
    ff (cd_link g m (Some oh) (Some sn) nh nd user cr) w1 = (w', Done (m', r))
    /\ ctx g w' vpost m'
    /\ Forall (Good g v vpost) (states (cd_link g m (Some oh) (Some sn) nh nd user cr) w1)
    /\ (r <> Ok -> vpost = v /\ m' = m).
Proof.
  intros g w w1 v m n s id0 d0 tl c user cr nh sn oh nd Hctx Hrec1 Hfr1 Hchain Hsn Hlen Hcs Hinh Hmnh Hcnt _.
  destruct (ctx_shape g w v m Hctx) as [n' [id0' [d0' [tl' [c' [Hchain' [Hvh [Hmh [Hsnaps [Hnd [Hndi [Hvol [Hcnt0 [Hlink0 [Hlen0 [Hd0 Hpar]]]]]]]]]]]]]]]].
  rewrite Hchain in Hchain'. inversion Hchain'; subst n' id0' d0' tl'. clear Hchain'.
  pose proof (cx_ag _ _ _ _ Hctx) as Hag. pose proof (cx_heads _ _ _ _ Hctx) as Hheads.
  assert (Hnh : ~ In nh (names_of_chain (cv_chain v))).
  { rewrite Hchain. cbn. intros [H | H]; [inversion H; lia | exact (snap_not_head tl (S n) Hsnaps H)]. }
  assert (Hdis : forall x, snap_S1 nh sn x -> ~ footprint (cv_chain v) x).
  { intros x Hx. exact (snap_S1_disjoint _ nh sn x Hnh Hsn Hx). }
  (* the old head's files in w1 *)
  destruct (recover_elim g w1 v Hrec1) as [Hvol1 [h1 [c1 [Hhd1 [Hw1 Hc1]]]]].
  destruct (walk_linked _ _ _ _ Hw1) as [Hlink1 _]. rewrite Hchain in Hlink1.
  cbn [linked mb_name mb_disk mb_id] in Hlink1. destruct Hlink1 as [Hmoh [[gn Hioh] [Hp0 Htl1]]].
  unfold cd_link.
  destruct (link_disk_ff w1 oh sn (IImg id0 gn) (IDisk d0) Hioh Hmoh) as [[_ Hffl] | [Hn1 [Hn2 Hffl]]]; [discriminate | |].
  - (* refused: a file of that name exists (it is not in the chain) *)
    destruct (cd_cleanup_spec g w1 v v nh sn m Refused Hrec1 Hnh Hsn) as [w2 [Hff2 [Hrec2 Hst2]]].
    exists w2, m, Refused, v. split; [| split; [| split]].
    + rewrite ff_bind, Hffl. cbn [is_ok res_eqb negb]. exact Hff2.
    + constructor; try apply Hctx; [exact Hrec2 |].
      pose proof (ff_fresh _ (cd_cleanup nh (Some sn) m Refused) w1 Hfr1) as H. rewrite Hff2 in H. exact H.
    + apply Forall_states_bind.
      * eapply within_good; [| exact Hrec1 | exact Hdis].
        apply withinQ_within with (Q := fun _ => True). apply wq_link_disk; [| auto].
        intros x Hx. inversion Hx; subst. unfold snap_S1; cbn; auto 10.
      * intros e He. rewrite Hffl in *. cbn [fst snd] in *. inversion He; subst e. cbn [is_ok res_eqb negb]. exact Hst2.
    + auto.
  - (* both links made *)
    set (w2 := set_file (set_file w1 (Img sn) (Some (IImg id0 gn))) (Meta sn) (Some (IDisk d0))) in *.
    assert (Hoo2 : only_on (snap_S1 nh sn) w1 w2).
    { intros x Hx. subst w2. rewrite !set_file_neq; [reflexivity | |]; intro; subst x; apply Hx; unfold snap_S1; cbn; auto 10. }
    assert (Hrec2 : recover g w2 = Some v) by (eapply recover_only_on; eauto).
    assert (Hc2 : files w2 Counter = Some (ICounter c)).
    { subst w2. rewrite !set_file_neq by discriminate. exact Hcnt. }
    (* the snapshot's metadata *)
    set (rec := mkdisk (d_parent d0) (d_removed d0) user cr c).
    set (m2 := cd_mem2 m nh nd sn). set (m3 := cd_mem3 m2 oh sn rec). set (m5 := cd_mem5 m3 oh sn).
    assert (Hm2oh : m_disks m2 oh = Some d0).
    { subst m2. unfold cd_mem2, cd_mem1. cbn [m_disks set_children set_disks]. rewrite updd_neq by (intro H; inversion H; lia). exact Hd0. }
    set (w3 := enc_fs w2 (Meta sn) (IDisk rec)).
    assert (Hffm : ff (cd_snapmeta g m (Some oh) (Some sn) nh nd user cr) w2 = (w3, Done (m5, Ok))).
    { unfold cd_snapmeta. fold m2. rewrite ff_bind, (get_rev_ff _ c Hc2). rewrite Hm2oh. fold rec. fold m3.
      rewrite ff_bind, ff_encode by (cbn; auto; right; eexists; reflexivity). reflexivity. }
    assert (Hoo3 : only_on (snap_S1 nh sn) w2 w3).
    { intros x Hx. subst w3. apply enc_fs_other; intro; subst x; apply Hx; unfold snap_S1; cbn; auto 10. }
    assert (Hrec3 : recover g w3 = Some v) by (eapply recover_only_on; eauto).
    assert (Hw3a : files w3 (Meta nh) = Some (IDisk nd)).
    { subst w3. rewrite enc_fs_other by (cbn; discriminate). subst w2. rewrite !set_file_neq by discriminate. exact Hmnh. }
    assert (Hw3b : files w3 (Img nh) = Some (IImg (nextid w) 0)).
    { subst w3. rewrite enc_fs_other by (cbn; discriminate). subst w2. rewrite !set_file_neq by discriminate. exact Hinh. }
    assert (Hw3c : files w3 (Meta sn) = Some (IDisk rec)).
    { subst w3. apply enc_fs_self. right. eexists. reflexivity. }
    assert (Hw3d : files w3 (Img sn) = Some (IImg id0 gn)).
    { subst w3. rewrite enc_fs_other by (cbn; discriminate). subst w2. rewrite set_file_neq by discriminate. apply set_file_eq. }
    destruct (cd_commit_spec g w3 v m5 n s nd rec (nextid w) id0 d0 tl gn Hrec3 Hchain Hsnaps Hnd Hsn Hlen Hw3a Hw3b Hw3c Hw3d eq_refl eq_refl)
      as [w5 [Hff5 [Hrec5 Hst5]]].
    set (mc := cd_memc m5 (Some oh) nh) in *.
    set (info' := set_head_info (m_info mc) (Some nh) true (Some sn) (d_rev nd)) in *.
    set (vpost := mkview info' (mkmember nh (nextid w) nd :: mkmember sn id0 rec :: tl)) in *.
    destruct (snap_agree g v m n s id0 d0 tl nd rec (nextid w) Hag Hchain Hsnaps Hnd Hsn Hcs Hheads eq_refl Hp0) as [Hag' Hheads'].
    assert (Hfin : ff (e2 <- link_disk (Some oh) (Some sn);;
                       (if negb (is_ok e2) then cd_cleanup nh (Some sn) m e2
                        else mid <- cd_snapmeta g m (Some oh) (Some sn) nh nd user cr;;
                             (let '(ma, e4) := mid in
                              if negb (is_ok e4) then cd_cleanup nh (Some sn) ma e4
                              else cd_commit g ma (Some oh) (Some sn) nh nd))) w1
                   = (w5, Done (set_info mc info', Ok))).
    { rewrite ff_bind, Hffl. cbn [is_ok res_eqb negb]. rewrite ff_bind, Hffm. cbn [is_ok res_eqb negb]. exact Hff5. }
    exists w5, (set_info mc info'), Ok, vpost. split; [| split; [| split]].
    + exact Hfin.
    + constructor.
      * exact Hrec5.
      * eapply wf_view_snap; eauto.
        -- intros mb Hin. pose proof (ids_lt_fresh g w v (cx_rec _ _ _ _ Hctx) (cx_fresh _ _ _ _ Hctx) mb Hin). lia.
      * exact Hag'.
      * match type of Hfin with ff ?p _ = _ => pose proof (ff_fresh _ p w1 Hfr1) as Hfr5 end.
        rewrite Hfin in Hfr5. exact Hfr5.
      * exact Hheads'.
    + apply Forall_states_bind.
      * eapply within_good; [| exact Hrec1 | exact Hdis].
        apply withinQ_within with (Q := fun _ => True). apply wq_link_disk; [| auto].
        intros x Hx. inversion Hx; subst. unfold snap_S1; cbn; auto 10.
      * intros e He. rewrite Hffl in *. cbn [fst snd] in *. inversion He; subst e. cbn [is_ok res_eqb negb].
        apply Forall_states_bind.
        -- eapply within_good; [| exact Hrec2 | exact Hdis].
           unfold cd_snapmeta. fold m2. apply withinQ_within with (Q := fun _ => True).
           eapply withinQ_bind; [apply wq_get_rev with (Q := fun _ => True); auto |]. intros rv _.
           destruct (m_disks m2 oh); [| exact I].
           eapply withinQ_bind; [apply wq_encode with (Q := fun _ => True); auto; unfold snap_S1; cbn; auto 10 |].
           intros e3 _. destruct (negb (is_ok e3)); exact I.
        -- intros a Ha. rewrite Hffm in *. cbn [fst snd] in *. inversion Ha; subst a. cbn [is_ok res_eqb negb]. exact Hst5.
    + intros H. congruence.
Qed.

Theorem create_disk_spec : forall g w v m s user cr,
  ctx g w v m -> cfg_ok g ->
  (fix_dup g = true \/ ~ In (Snap s) (names_of_chain (cv_chain v))) ->
  (~ In (Snap s) (names_of_chain (cv_chain v)) -> m_children m (Some (Snap s)) = []) ->
  ospec g w v m (create_disk g m s user cr).
Proof.
  intros g w v m s user cr Hctx Hcfg Hdup Hch.
  destruct (ctx_shape g w v m Hctx) as [n [id0 [d0 [tl [c [Hchain [Hvh [Hmh [Hsnaps [Hnd [Hndi [Hvol [Hcnt [Hlink [Hlen [Hd0 Hpar]]]]]]]]]]]]]]]].
  pose proof (cx_rec _ _ _ _ Hctx) as Hrec. pose proof (cx_ag _ _ _ _ Hctx) as Hag.
  pose proof (cx_fresh _ _ _ _ Hctx) as Hfr.
  destruct Hag as [Hinfo [Hdisks [Hchild [Hfixch Hact]]]].
  assert (Hnh : ~ In (Head (S n)) (names_of_chain (cv_chain v))).
  { rewrite Hchain. cbn. intros [H | H]; [inversion H; lia | exact (snap_not_head tl (S n) Hsnaps H)]. }
  unfold create_disk. rewrite Hmh.
  (* sync_dir: one call, nothing changes *)
  assert (Hsync : forall (k : res -> prog (mem * res)), ospec g w v m (k Ok) -> ospec g w v m (bind sync_dir k)).
  { intros k [w' [m' [r [vp [Hff [Hc' [Hst Hr]]]]]]]. exists w', m', r, vp.
    split; [rewrite ff_bind, ff_sync_dir; exact Hff |]. split; [exact Hc' |]. split; [| exact Hr].
    apply Forall_states_bind.
    - cbn. constructor; [apply Good_pre; exact Hrec |]. constructor; [apply Good_pre; exact Hrec | constructor].
    - intros a Ha. rewrite ff_sync_dir in *. cbn [fst snd] in *. inversion Ha; subst a. exact Hst. }
  apply Hsync. clear Hsync. cbn [is_ok res_eqb negb].
  (* chain length limit *)
  destruct (Nat.ltb (maxlen g) (S (S (length (m_active m))))) eqn:Hmax.
  { eapply ospec_refuse; [exact Hctx | | reflexivity]. discriminate. }
  apply Nat.ltb_ge in Hmax.
  assert (Hlen1 : S (length (cv_chain v)) <= maxlen g).
  { rewrite Hact, rev_length in Hmax. unfold names_of_chain in Hmax. rewrite map_length in Hmax. lia. }
  (* duplicate name (repaired code) *)
  destruct (fix_dup g && match m_disks m (Snap s) with Some _ => true | None => false end) eqn:Hfd.
  { eapply ospec_refuse; [exact Hctx | | reflexivity]. discriminate. }
  assert (Hsn : ~ In (Snap s) (names_of_chain (cv_chain v))).
  { destruct Hdup as [Hdup | Hdup]; [| exact Hdup]. rewrite Hdup in Hfd. cbn in Hfd.
    intro Hin. rewrite Hdisks in Hfd. unfold names_of_chain in Hin. apply in_map_iff in Hin.
    destruct Hin as [mb [Hn Hm]]. rewrite <- Hn in Hfd. rewrite (find_mb_in _ _ Hnd Hm) in Hfd. discriminate. }
  assert (Hdis : forall x, snap_S1 (Head (S n)) (Snap s) x -> ~ footprint (cv_chain v) x).
  { intros x Hx. exact (snap_S1_disjoint _ (Head (S n)) (Snap s) x Hnh Hsn Hx). }
  assert (Hcnh_within : within (snap_S1 (Head (S n)) (Snap s)) (create_new_head g m (Some (Head n)) (Some (Snap s)) cr)).
  { apply withinQ_within with (Q := cnh_post (Head (S n))). apply wq_create_new_head; unfold snap_S1; cbn; auto 10. }
  destruct (cnh_ff g m n (Some (Snap s)) cr w c Hcnt) as [Hff1 | [w1 [Hff1 [K1 [K2 [K3 [K4 K5]]]]]]].
  - (* the stale head file holds data: error, nothing changed *)
    exists w, m, Failed, v. split; [| split; [| split]].
    + rewrite ff_bind, Hff1. cbn [is_ok res_eqb negb rm_disk bind ff]. reflexivity.
    + exact Hctx.
    + apply Forall_states_bind.
      * eapply within_good; [exact Hcnh_within | exact Hrec | exact Hdis].
      * intros a Ha. rewrite Hff1 in *. cbn [fst snd] in *. inversion Ha; subst a.
        cbn [is_ok res_eqb negb rm_disk bind]. apply states_ret_good. exact Hrec.
    + auto.
  - (* the new head exists *)
    assert (Hoo1 : only_on (snap_S1 (Head (S n)) (Snap s)) w w1).
    { intros x Hx. apply K4; intro; subst x; apply Hx; unfold snap_S1; cbn; auto 10. }
    assert (Hrec1 : recover g w1 = Some v) by (eapply recover_only_on; eauto).
    assert (Hfr1 : ids_fresh w1).
    { pose proof (ff_fresh _ (create_new_head g m (Some (Head n)) (Some (Snap s)) cr) w Hfr) as H. rewrite Hff1 in H. exact H. }
    assert (Hc1 : files w1 Counter = Some (ICounter c)) by (rewrite K4 by discriminate; exact Hcnt).
    destruct (cd_link_spec g w w1 v m n s id0 d0 tl c user cr Hctx Hrec1 Hfr1 Hchain Hsn Hlen1 (Hch Hsn) K1 K2 Hc1 (fun _ _ => I))
      as [w' [m' [r [vpost [Hff2 [Hctx' [Hst2 Hr2]]]]]]].
    exists w', m', r, vpost. split; [| split; [| split]].
    + rewrite ff_bind, Hff1. cbn [is_ok res_eqb negb]. exact Hff2.
    + exact Hctx'.
    + apply Forall_states_bind.
      * eapply within_good; [exact Hcnh_within | exact Hrec | exact Hdis].
      * intros a Ha. rewrite Hff1 in *. cbn [fst snd] in *. inversion Ha; subst a.
        cbn [is_ok res_eqb negb]. exact Hst2.
    + exact Hr2.
Qed.

(** ** rewriting one member's metadata file *)

Definition set_mdisk (mb : member) (d : disk) : member := mkmember (mb_name mb) (mb_id mb) d.

(** replace the disk record of the member named [x] *)
Fixpoint upd_member (x : dname) (d : disk) (l : list member) : list member :=
  match l with
  | [] => []
  | mb :: t => (if dname_eqb (mb_name mb) x then set_mdisk mb d else mb) :: upd_member x d t
  end.

Lemma upd_member_names : forall x d l, names_of_chain (upd_member x d l) = names_of_chain l.
Proof.
  induction l as [| mb t IH]; [reflexivity |]. cbn [upd_member names_of_chain map] in *.
  destruct (dname_eqb (mb_name mb) x); cbn [set_mdisk mb_name]; f_equal; exact IH.
Qed.
Lemma upd_member_ids : forall x d l, map mb_id (upd_member x d l) = map mb_id l.
Proof.
  induction l as [| mb t IH]; [reflexivity |]. cbn [upd_member map] in *.
  destruct (dname_eqb (mb_name mb) x); cbn [set_mdisk mb_id]; f_equal; exact IH.
Qed.
Lemma upd_member_notin : forall x d l, ~ In x (names_of_chain l) -> upd_member x d l = l.
Proof.
  induction l as [| mb t IH]; intros Hn; [reflexivity |]. cbn in *.
  rewrite dname_eqb_neq by (intro; apply Hn; left; assumption). rewrite IH; [reflexivity |].
  intro; apply Hn; right; assumption.
Qed.
Lemma upd_member_length : forall x d l, length (upd_member x d l) = length l.
Proof. induction l as [| mb t IH]; [reflexivity |]. cbn. rewrite IH. reflexivity. Qed.

(** a rewrite that keeps the Parent field keeps the chain linked *)
Lemma linked_upd_same_parent : forall f f' x d d' l,
  linked f l -> NoDup (names_of_chain l) ->
  f (Meta x) = Some (IDisk d) -> d_parent d' = d_parent d ->
  f' (Meta x) = Some (IDisk d') ->
  (forall y, f' (Img y) = f (Img y)) -> (forall y, y <> x -> f' (Meta y) = f (Meta y)) ->
  linked f' (upd_member x d' l).
Proof.
  intros f f' x d d' l. induction l as [| mb t IH]; intros Hl Hnd Hx Hp Hx' Himg Hoth; [exact I |].
  cbn [linked upd_member] in *. destruct Hl as [Hm [[gn Hi] [Hpar Ht]]].
  inversion Hnd as [| ? ? Hnotin Hnd']; subst.
  assert (Hnext : match upd_member x d' t with y :: _ => Some (mb_name y) | [] => None end
                  = match t with y :: _ => Some (mb_name y) | [] => None end).
  { destruct t as [| y t']; [reflexivity |]. cbn. destruct (dname_eqb (mb_name y) x); reflexivity. }
  destruct (dname_eqb (mb_name mb) x) eqn:E.
  - apply dname_eqb_eq in E. cbn [set_mdisk mb_name mb_disk mb_id]. rewrite E.
    split; [exact Hx' |]. split; [exists gn; rewrite Himg; rewrite <- E; exact Hi |].
    split.
    + rewrite Hnext, Hp. rewrite E in Hm. rewrite Hm in Hx. inversion Hx; subst d. exact Hpar.
    + apply IH; assumption.
  - assert (Hne : mb_name mb <> x) by (intro H; rewrite H, dname_eqb_refl in E; discriminate).
    split; [rewrite Hoth by exact Hne; exact Hm |].
    split; [exists gn; rewrite Himg; exact Hi |].
    split; [rewrite Hnext; exact Hpar |]. apply IH; assumption.
Qed.

(** dropping the member after [cmb] when [cmb]'s metadata is rewritten to point past it *)
Lemma linked_unlink : forall f f' l1 cmb dmb l2 cd',
  linked f (l1 ++ cmb :: dmb :: l2) -> NoDup (names_of_chain (l1 ++ cmb :: dmb :: l2)) ->
  d_parent cd' = d_parent (mb_disk dmb) ->
  f' (Meta (mb_name cmb)) = Some (IDisk cd') ->
  (forall y, f' (Img y) = f (Img y)) -> (forall y, y <> mb_name cmb -> f' (Meta y) = f (Meta y)) ->
  linked f' (l1 ++ set_mdisk cmb cd' :: l2).
Proof.
  intros f f' l1 cmb dmb l2 cd'. induction l1 as [| a t IH]; intros Hl Hnd Hp Hx' Himg Hoth.
  - cbn [app linked] in *. destruct Hl as [Hm [[gn Hi] [Hpar [Hmd [[gd Hid] [Hpd Ht]]]]]].
    cbn [set_mdisk mb_name mb_disk mb_id].
    split; [exact Hx' |]. split; [exists gn; rewrite Himg; exact Hi |].
    split; [rewrite Hp; exact Hpd |].
    eapply linked_frame; [exact Ht |]. intros x Hx.
    assert (x <> mb_name cmb).
    { intro; subst x. cbn [names_of_chain map app] in Hnd. inversion Hnd as [| ? ? Hn1 _]; subst.
      apply Hn1. right. exact Hx. }
    split; [apply Hoth; assumption | apply Himg].
  - cbn [app linked] in *. destruct Hl as [Hm [[gn Hi] [Hpar Ht]]].
    cbn [names_of_chain map app] in Hnd. inversion Hnd as [| ? ? Hn1 Hnd']; subst.
    assert (Hne : mb_name a <> mb_name cmb).
    { intro H. apply Hn1. rewrite H. fold (names_of_chain (t ++ cmb :: dmb :: l2)).
      unfold names_of_chain. rewrite map_app. apply in_or_app. right. left. reflexivity. }
    split; [rewrite Hoth by exact Hne; exact Hm |].
    split; [exists gn; rewrite Himg; exact Hi |].
    split.
    + rewrite Hpar. destruct t; reflexivity.
    + apply IH; assumption.
Qed.

(** ** lists of members: lookup, deletion, children as a function of the names only *)

Fixpoint child_of (d : dname) (ns : list dname) : list dname :=
  match ns with
  | a :: ((b :: _) as t) => if dname_eqb b d then [a] else child_of d t
  | _ => []
  end.

Lemma child_in_names : forall d l, child_in d l = child_of d (names_of_chain l).
Proof.
  intros d l. induction l as [| a t IH]; [reflexivity |].
  destruct t as [| b t']; [reflexivity |].
  rewrite child_in_cons2. cbn [names_of_chain map child_of] in *. rewrite IH. reflexivity.
Qed.

Fixpoint del_mb (d : dname) (l : list member) : list member :=
  match l with
  | [] => []
  | mb :: t => if dname_eqb d (mb_name mb) then del_mb d t else mb :: del_mb d t
  end.

Lemma del_mb_names : forall d l, names_of_chain (del_mb d l) = removed d (names_of_chain l).
Proof.
  induction l as [| mb t IH]; [reflexivity |]. cbn [del_mb names_of_chain map removed] in *.
  destruct (dname_eqb d (mb_name mb)); [exact IH | cbn [names_of_chain map]; f_equal; exact IH].
Qed.

Lemma find_mb_del : forall x d l, find_mb x (del_mb d l) = if dname_eqb d x then None else find_mb x l.
Proof.
  induction l as [| mb t IH]; [cbn; destruct (dname_eqb d x); reflexivity |].
  cbn [del_mb find_mb]. destruct (dname_eqb d (mb_name mb)) eqn:E1.
  - apply dname_eqb_eq in E1. subst d. rewrite IH. destruct (dname_eqb (mb_name mb) x); reflexivity.
  - cbn [find_mb]. rewrite IH. destruct (dname_eqb (mb_name mb) x) eqn:E2; [| reflexivity].
    apply dname_eqb_eq in E2. subst x. rewrite E1. reflexivity.
Qed.

Lemma find_mb_upd : forall x y d l,
  find_mb x (upd_member y d l) =
  if dname_eqb y x then option_map (fun mb => set_mdisk mb d) (find_mb x l) else find_mb x l.
Proof.
  induction l as [| mb t IH]; [cbn; destruct (dname_eqb y x); reflexivity |].
  cbn [upd_member find_mb]. destruct (dname_eqb (mb_name mb) y) eqn:E1.
  - apply dname_eqb_eq in E1. subst y. cbn [set_mdisk mb_name find_mb]. rewrite IH.
    destruct (dname_eqb (mb_name mb) x) eqn:E2; reflexivity.
  - cbn [find_mb]. destruct (dname_eqb (mb_name mb) x) eqn:E2.
    + apply dname_eqb_eq in E2. subst x. rewrite dname_eqb_sym, E1. reflexivity.
    + exact IH.
Qed.

Lemma removed_notin : forall d l, ~ In d l -> removed d l = l.
Proof.
  induction l as [| a t IH]; intros Hn; [reflexivity |]. cbn.
  rewrite dname_eqb_neq by (intro; subst; apply Hn; left; reflexivity).
  rewrite IH; [reflexivity | intro; apply Hn; right; assumption].
Qed.
Lemma removed_app : forall d l1 l2, removed d (l1 ++ l2) = removed d l1 ++ removed d l2.
Proof.
  induction l1 as [| a t IH]; intros l2; [reflexivity |]. cbn.
  destruct (dname_eqb d a); [apply IH | cbn; f_equal; apply IH].
Qed.
Lemma removed_rev : forall d l, removed d (rev l) = rev (removed d l).
Proof.
  induction l as [| a t IH]; [reflexivity |]. cbn [rev removed]. rewrite removed_app, IH. cbn [removed].
  destruct (dname_eqb d a); [apply app_nil_r | reflexivity].
Qed.
Lemma removed_in : forall d x l, In x (removed d l) <-> In x l /\ x <> d.
Proof.
  induction l as [| a t IH]; [cbn; tauto |]. cbn. destruct (dname_eqb d a) eqn:E.
  - apply dname_eqb_eq in E. subst a. rewrite IH. split; [intros [H1 H2]; auto | intros [[H | H] H2]; [congruence | auto]].
  - cbn. rewrite IH. assert (a <> d) by (intro; subst; rewrite dname_eqb_refl in E; discriminate).
    split; [intros [H1 | [H1 H2]]; [subst; auto | auto] | intros [[H1 | H1] H2]; auto].
Qed.
Lemma removed_nodup : forall d l, NoDup l -> NoDup (removed d l).
Proof.
  induction l as [| a t IH]; intros Hnd; [constructor |]. inversion Hnd; subst. cbn.
  destruct (dname_eqb d a); [auto |]. constructor; [rewrite removed_in; tauto | auto].
Qed.

(** in a duplicate-free list [l1 ++ c :: d :: l2], deleting [d] changes the child relation only at
    [d] itself and at the element after it *)
Lemma child_of_split : forall d c l1 l2, NoDup (l1 ++ c :: d :: l2) -> child_of d (l1 ++ c :: d :: l2) = [c].
Proof.
  intros d c. induction l1 as [| a t IH]; intros l2 Hnd.
  - cbn. rewrite dname_eqb_refl. reflexivity.
  - cbn [app] in *. inversion Hnd as [| ? ? Hn Hnd']; subst.
    destruct t as [| b t'].
    + cbn [app child_of] in *. rewrite (dname_eqb_neq c d).
      * rewrite dname_eqb_refl. reflexivity.
      * intro Hcd. subst c. inversion Hnd' as [| ? ? Hn' _]; subst. apply Hn'. left. reflexivity.
    + cbn [app child_of] in *. rewrite (dname_eqb_neq b d).
      * apply (IH l2 Hnd').
      * intro Hbd. subst b. inversion Hnd' as [| ? ? Hn' _]; subst. apply Hn'.
        apply in_or_app. right. right. left. reflexivity.
Qed.

Lemma child_of_removed : forall d c l1 l2 x,
  NoDup (l1 ++ c :: d :: l2) -> x <> d ->
  child_of x (l1 ++ c :: l2) =
  if odname_eqb (match l2 with p :: _ => Some p | [] => None end) (Some x) then [c]
  else child_of x (l1 ++ c :: d :: l2).
Proof.
  induction l1 as [| a t IH]; intros l2 x Hnd Hx.
  - cbn [app]. destruct l2 as [| p l2'].
    + cbn. rewrite dname_eqb_neq by congruence. reflexivity.
    + cbn [child_of odname_eqb]. rewrite (dname_eqb_neq d x) by congruence.
      destruct (dname_eqb p x) eqn:E; reflexivity.
  - cbn [app] in *. inversion Hnd as [| ? ? Hn Hnd']; subst.
    specialize (IH l2 x Hnd' Hx).
    destruct t as [| b t']; cbn [app child_of] in *.
    + destruct (dname_eqb c x) eqn:E.
      * destruct (odname_eqb match l2 with p :: _ => Some p | [] => None end (Some x)) eqn:E2; [| reflexivity].
        apply dname_eqb_eq in E. subst x. exfalso. destruct l2 as [| p l2']; [discriminate |].
        cbn in E2. apply dname_eqb_eq in E2. subst p.
        inversion Hnd' as [| ? ? Hn' _]; subst. apply Hn'. right. left. reflexivity.
      * exact IH.
    + destruct (dname_eqb b x) eqn:E.
      * destruct (odname_eqb match l2 with p :: _ => Some p | [] => None end (Some x)) eqn:E2; [| reflexivity].
        apply dname_eqb_eq in E. subst x. exfalso. destruct l2 as [| p l2']; [discriminate |].
        cbn in E2. apply dname_eqb_eq in E2. subst p.
        inversion Hnd' as [| ? ? Hn' _]; subst. apply Hn'. apply in_or_app. right. right. right. left. reflexivity.
      * exact IH.
Qed.

(** a member that is not the first has a predecessor *)
Lemma split_at_member : forall d (l : list member),
  In d (names_of_chain l) -> (match l with a :: _ => mb_name a <> d | [] => True end) ->
  exists l1 cmb dmb l2, l = l1 ++ cmb :: dmb :: l2 /\ mb_name dmb = d.
Proof.
  intros d l. induction l as [| a t IH]; intros Hin Hne; [contradiction |].
  cbn in Hin. destruct Hin as [H | Hin]; [contradiction |].
  destruct t as [| b t']; [contradiction |].
  destruct (dname_dec (mb_name b) d) as [E | E].
  - exists [], a, b, t'. split; [reflexivity | exact E].
  - destruct (IH Hin E) as [l1 [cmb [dmb [l2 [Heq Hd]]]]].
    exists (a :: l1), cmb, dmb, l2. split; [rewrite Heq; reflexivity | exact Hd].
Qed.

Lemma del_upd_split : forall l1 cmb dmb l2 cd',
  NoDup (names_of_chain (l1 ++ cmb :: dmb :: l2)) ->
  upd_member (mb_name cmb) cd' (del_mb (mb_name dmb) (l1 ++ cmb :: dmb :: l2)) = l1 ++ set_mdisk cmb cd' :: l2.
Proof.
  intros l1 cmb dmb l2 cd'. induction l1 as [| a t IH]; intros Hnd.
  - cbn [app names_of_chain map] in *. inversion Hnd as [| ? ? Hn1 Hnd1]; subst. inversion Hnd1 as [| ? ? Hn2 Hnd2]; subst.
    cbn [del_mb]. rewrite dname_eqb_neq by (intro H; apply Hn1; left; congruence).
    rewrite dname_eqb_refl. cbn [upd_member]. rewrite dname_eqb_refl. f_equal.
    fold (names_of_chain l2) in *.
    assert (Hd : del_mb (mb_name dmb) l2 = l2).
    { clear -Hn2. induction l2 as [| y l2' IH2]; [reflexivity |]. cbn in *.
      rewrite dname_eqb_neq by (intro H; apply Hn2; left; congruence). f_equal. apply IH2. tauto. }
    rewrite Hd. apply upd_member_notin. intro H. apply Hn1. right. exact H.
  - cbn [app names_of_chain map] in *. inversion Hnd as [| ? ? Hn1 Hnd1]; subst.
    fold (names_of_chain (t ++ cmb :: dmb :: l2)) in *.
    assert (Hin_d : In (mb_name dmb) (names_of_chain (t ++ cmb :: dmb :: l2))).
    { unfold names_of_chain. rewrite map_app. apply in_or_app. right. right. left. reflexivity. }
    assert (Hin_c : In (mb_name cmb) (names_of_chain (t ++ cmb :: dmb :: l2))).
    { unfold names_of_chain. rewrite map_app. apply in_or_app. right. left. reflexivity. }
    cbn [del_mb]. rewrite dname_eqb_neq by (intro H; apply Hn1; rewrite <- H; exact Hin_d).
    cbn [upd_member]. rewrite dname_eqb_neq by (intro H; apply Hn1; rewrite H; exact Hin_c).
    f_equal. apply IH. exact Hnd1.
Qed.

(** ** RemoveDiffDisk *)

Lemma nodup_app_disj : forall (a b : list dname) x, NoDup (a ++ b) -> In x a -> In x b -> False.
Proof.
  induction a as [| y t IH]; intros b x Hnd Ha Hb; [contradiction |].
  cbn [app] in Hnd. inversion Hnd as [| ? ? Hn Hnd']; subst. destruct Ha as [E | Ha].
  - subst y. apply Hn. apply in_or_app. right. exact Hb.
  - eapply IH; eauto.
Qed.
Lemma nodup_app_r : forall (a b : list dname), NoDup (a ++ b) -> NoDup b.
Proof. induction a as [| y t IH]; intros b H; [exact H |]. cbn [app] in H. inversion H; subst. auto. Qed.

Lemma nodup_mid_gen : forall A (a : list A) c d b, NoDup (a ++ c :: d :: b) ->
  c <> d /\ ~ In d a /\ ~ In d b /\ ~ In c a /\ ~ In c b /\ NoDup (a ++ c :: b).
Proof.
  induction a as [| x t IH]; intros c d b H.
  - cbn in *. inversion H as [| ? ? H1 H2]; subst. inversion H2 as [| ? ? H3 H4]; subst.
    repeat split; auto.
    + intro; subst; apply H1; left; reflexivity.
    + intro Hc; apply H1; right; exact Hc.
    + constructor; [intro Hc; apply H1; right; exact Hc | exact H4].
  - cbn [app] in *. inversion H as [| ? ? H1 H2]; subst. destruct (IH c d b H2) as [K1 [K2 [K3 [K4 [K5 K6]]]]].
    repeat split; auto.
    + intros [E | E]; [subst; apply H1; apply in_or_app; right; right; left; reflexivity | exact (K2 E)].
    + intros [E | E]; [subst; apply H1; apply in_or_app; right; left; reflexivity | exact (K4 E)].
    + constructor; [| exact K6]. intro Hin. apply H1. apply in_app_or in Hin. apply in_or_app.
      destruct Hin as [Hin | [Hin | Hin]]; [left; exact Hin | right; left; exact Hin | right; right; right; exact Hin].
Qed.
Lemma nodup_mid : forall (a : list dname) c d b, NoDup (a ++ c :: d :: b) ->
  c <> d /\ ~ In d a /\ ~ In d b /\ ~ In c a /\ ~ In c b /\ NoDup (a ++ c :: b).
Proof. intros. apply nodup_mid_gen. assumption. Qed.

Definition first_name (l : list member) : option dname := match l with y :: _ => Some (mb_name y) | [] => None end.

(** the memory removeDiskNode leaves, as a function of what it read *)
Definition rm_mem (g : cfg) (m : mem) (d child : dname) (cd' : disk) (ppd : option (dname * disk)) : mem :=
  let m1 := update_child m d (Some child) in
  let m2 := set_disks m1 (updd (m_disks m1) child (Some cd')) in
  let m3 := match ppd with Some (p, pd') => set_disks m2 (updd (m_disks m2) p (Some pd')) | None => m2 end in
  let m4 := set_disks m3 (updd (m_disks m3) d None) in
  let m4 := if fix_children g then set_children m4 (updc (m_children m4) (Some d) []) else m4 in
  set_active m4 (removed d (m_active m4)).

Lemma names_app_mid : forall l1 (cmb dmb : member) l2,
  names_of_chain (l1 ++ cmb :: dmb :: l2) = names_of_chain l1 ++ mb_name cmb :: mb_name dmb :: names_of_chain l2.
Proof. intros. unfold names_of_chain. rewrite map_app. reflexivity. Qed.

Lemma find_mb_some : forall x l, In x (names_of_chain l) -> exists mb, find_mb x l = Some mb.
Proof.
  induction l as [| a t IH]; intros Hin; [contradiction |]. cbn in *.
  destruct (dname_eqb (mb_name a) x) eqn:E; [eauto |].
  destruct Hin as [H | H]; [subst; rewrite dname_eqb_refl in E; discriminate | auto].
Qed.

Lemma rm_agree : forall g v m l1 cmb dmb l2 cd' ppd,
  agree g v m ->
  cv_chain v = l1 ++ cmb :: dmb :: l2 ->
  NoDup (names_of_chain (cv_chain v)) ->
  (forall k, m_children m (Some (Head k)) = []) ->
  (forall k, mb_name dmb <> Head k) ->
  (forall k, first_name l2 <> Some (Head k)) ->
  d_parent (mb_disk dmb) = first_name l2 ->
  (match ppd with Some (p, pd') => first_name l2 = Some p | None => True end) ->
  let post := match ppd with
              | Some (p, pd') => upd_member p pd' (l1 ++ set_mdisk cmb cd' :: l2)
              | None => l1 ++ set_mdisk cmb cd' :: l2
              end in
  let m' := rm_mem g m (mb_name dmb) (mb_name cmb) cd' ppd in
  agree g (mkview (cv_info v) post) m' /\ (forall k, m_children m' (Some (Head k)) = []).
Proof.
  intros g v m l1 cmb dmb l2 cd' ppd [Hinfo [Hdisks [Hchild [Hfix Hact]]]] Hchain Hnd Hheads Hdh Hl2h Hpd Hppd post m'.
  remember (mb_name dmb) as d eqn:Ed. remember (mb_name cmb) as child eqn:Ec.
  rewrite Hchain in *.
  assert (Hmid : l1 ++ set_mdisk cmb cd' :: l2 = upd_member child cd' (del_mb d (l1 ++ cmb :: dmb :: l2))).
  { subst d child. symmetry. apply del_upd_split. exact Hnd. }
  assert (Hnames_post : names_of_chain post = names_of_chain l1 ++ child :: names_of_chain l2).
  { subst post. destruct ppd as [[p pd'] |]; [rewrite upd_member_names |];
      unfold names_of_chain; rewrite map_app; cbn [map set_mdisk mb_name]; subst child; reflexivity. }
  assert (Hnames_rm : removed d (names_of_chain (l1 ++ cmb :: dmb :: l2)) = names_of_chain l1 ++ child :: names_of_chain l2).
  { rewrite <- del_mb_names. rewrite <- (upd_member_names child cd'). rewrite <- Hmid.
    unfold names_of_chain. rewrite map_app. cbn [map set_mdisk mb_name]. subst child. reflexivity. }
  assert (Hfd : find_mb d (l1 ++ cmb :: dmb :: l2) = Some dmb).
  { rewrite Ed. apply find_mb_in; [exact Hnd | apply in_or_app; right; right; left; reflexivity]. }
  assert (Hfc : find_mb child (l1 ++ cmb :: dmb :: l2) = Some cmb).
  { rewrite Ec. apply find_mb_in; [exact Hnd | apply in_or_app; right; left; reflexivity]. }
  rewrite names_app_mid in Hnd. rewrite <- Ed, <- Ec in Hnd.
  destruct (nodup_mid _ _ _ _ Hnd) as [Hcd [Hd1 [Hd2 [Hc1 [Hc2 Hnd']]]]].
  set (p0 := first_name l2) in *.
  assert (Hp0in : forall p, p0 = Some p -> In p (names_of_chain l2)).
  { intros p Hp. subst p0. destruct l2 as [| y l2']; [discriminate |]. cbn in Hp. inversion Hp. left. reflexivity. }
  assert (Hpar : parent_of m d = p0).
  { unfold parent_of. rewrite Hdisks, Hfd. cbn. exact Hpd. }
  assert (Hp0d : p0 <> Some d) by (intro E; apply Hd2; apply Hp0in; exact E).
  assert (Hp0c : p0 <> Some child) by (intro E; apply Hc2; apply Hp0in; exact E).
  (* the children map *)
  assert (Hch' : forall q, m_children m' q =
                 (if fix_children g then updc (add_child (rm_child (m_children m) p0 d) p0 child) (Some d) []
                  else add_child (rm_child (m_children m) p0 d) p0 child) q).
  { intros q. subst m'. unfold rm_mem. cbn [m_children set_active]. unfold update_child. rewrite Hpar.
    destruct (fix_children g); cbn [m_children set_children set_disks];
      destruct ppd as [[p pd'] |]; reflexivity. }
  assert (Hch_other : forall q, q <> p0 -> q <> Some d -> m_children m' q = m_children m q).
  { intros q H1 H2. rewrite Hch'. destruct (fix_children g); [rewrite updc_neq by congruence |];
      unfold add_child, rm_child; rewrite !updc_neq by congruence; reflexivity. }
  split.
  - unfold agree. cbn [cv_info cv_chain].
    split; [| split; [| split; [| split]]].
    + subst m'. unfold rm_mem. destruct (fix_children g); destruct ppd as [[p pd'] |]; cbn [m_info set_active set_children set_disks update_child]; exact Hinfo.
    + (* diskData *)
      intros x.
      assert (Hd' : m_disks m' x =
                    updd (match ppd with Some (p, pd') => updd (updd (m_disks m) child (Some cd')) p (Some pd')
                                       | None => updd (m_disks m) child (Some cd') end) d None x).
      { subst m'. unfold rm_mem. destruct (fix_children g); destruct ppd as [[p pd'] |];
          cbn [m_disks set_active set_children set_disks update_child]; reflexivity. }
      rewrite Hd'. clear Hd'.
      assert (Hpost_find : find_mb x post =
                match ppd with
                | Some (p, pd') => if dname_eqb p x then option_map (fun mb => set_mdisk mb pd')
                                                          (find_mb x (upd_member child cd' (del_mb d (l1 ++ cmb :: dmb :: l2))))
                                   else find_mb x (upd_member child cd' (del_mb d (l1 ++ cmb :: dmb :: l2)))
                | None => find_mb x (upd_member child cd' (del_mb d (l1 ++ cmb :: dmb :: l2)))
                end).
      { subst post. destruct ppd as [[p pd'] |]; [rewrite find_mb_upd |]; rewrite Hmid; reflexivity. }
      rewrite Hpost_find. clear Hpost_find. rewrite find_mb_upd, find_mb_del.
      destruct (dname_dec d x) as [E1 | E1].
      { subst x. rewrite updd_eq. rewrite dname_eqb_refl. rewrite (dname_eqb_neq child d) by exact Hcd.
        destruct ppd as [[p pd'] |]; [| reflexivity].
        rewrite dname_eqb_neq; [reflexivity |]. intro E; subst p. apply Hd2. apply Hp0in. exact Hppd. }
      rewrite updd_neq by exact E1. rewrite (dname_eqb_neq d x) by exact E1.
      destruct ppd as [[p pd'] |].
      * destruct (dname_dec p x) as [E2 | E2].
        { subst x. rewrite updd_eq, dname_eqb_refl.
          rewrite (dname_eqb_neq child p) by (intro E; subst p; apply Hc2; apply Hp0in; exact Hppd).
          destruct (find_mb_some p (l1 ++ cmb :: dmb :: l2)) as [pmb Hpmb].
          { rewrite names_app_mid. apply in_or_app. right. right. right. apply Hp0in. exact Hppd. }
          rewrite Hpmb. reflexivity. }
        rewrite updd_neq by exact E2. rewrite (dname_eqb_neq p x) by exact E2.
        destruct (dname_dec child x) as [E3 | E3].
        { subst x. rewrite updd_eq, dname_eqb_refl, Hfc. reflexivity. }
        rewrite updd_neq by exact E3. rewrite (dname_eqb_neq child x) by exact E3. apply Hdisks.
      * destruct (dname_dec child x) as [E3 | E3].
        { subst x. rewrite updd_eq, dname_eqb_refl, Hfc. reflexivity. }
        rewrite updd_neq by exact E3. rewrite (dname_eqb_neq child x) by exact E3. apply Hdisks.
    + (* children of the members *)
      intros x Hx. rewrite Hnames_post in Hx. rewrite child_in_names, Hnames_post.
      assert (Hxd : x <> d).
      { intro E; subst x. apply in_app_or in Hx. destruct Hx as [Hx | [Hx | Hx]]; [exact (Hd1 Hx) | exact (Hcd Hx) | exact (Hd2 Hx)]. }
      rewrite (child_of_removed d child (names_of_chain l1) (names_of_chain l2) x Hnd Hxd).
      assert (Hfn : match names_of_chain l2 with p :: _ => Some p | [] => None end = p0).
      { subst p0. destruct l2; reflexivity. }
      rewrite Hfn.
      assert (Hx_in : In x (names_of_chain (l1 ++ cmb :: dmb :: l2))).
      { rewrite names_app_mid, <- Ed, <- Ec. apply in_app_or in Hx. apply in_or_app.
        destruct Hx as [Hx | [Hx | Hx]]; [left; exact Hx | right; left; exact Hx | right; right; right; exact Hx]. }
      destruct (odname_eqb p0 (Some x)) eqn:Ep.
      * apply odname_eqb_eq in Ep. rewrite <- Ep. rewrite Hch'.
        assert (Hold : m_children m p0 = [d]).
        { rewrite Ep. rewrite (Hchild x Hx_in). rewrite child_in_names, names_app_mid, <- Ed, <- Ec.
          assert (Hsplit : names_of_chain l1 ++ child :: d :: names_of_chain l2
                           = (names_of_chain l1 ++ [child]) ++ d :: x :: List.tl (names_of_chain l2)).
          { rewrite <- app_assoc. cbn [app]. f_equal. f_equal. f_equal.
            subst p0. destruct l2 as [| y l2']; [discriminate |]. cbn in Ep. inversion Ep. reflexivity. }
          rewrite Hsplit. apply child_of_split. rewrite <- Hsplit. exact Hnd. }
        assert (Hval : add_child (rm_child (m_children m) p0 d) p0 child p0 = [child]).
        { unfold add_child. rewrite updc_eq. unfold rm_child. rewrite updc_eq. rewrite Hold, removed_single. reflexivity. }
        destruct (fix_children g); [rewrite updc_neq by (apply not_eq_sym; exact Hp0d) |]; exact Hval.
      * assert (Ep' : p0 <> Some x) by (intro H; rewrite H, odname_eqb_refl in Ep; discriminate).
        rewrite Hch_other; [| apply not_eq_sym; exact Ep' | congruence].
        rewrite (Hchild x Hx_in). rewrite child_in_names, names_app_mid, <- Ed, <- Ec. reflexivity.
    + (* entries of names outside the chain (repaired code only) *)
      intros Hfx x Hx. rewrite Hnames_post in Hx.
      destruct (dname_dec x d) as [E | E].
      { subst x. rewrite Hch', Hfx. apply updc_eq. }
      rewrite Hch_other; [| | congruence].
      * apply Hfix; [exact Hfx |]. rewrite names_app_mid, <- Ed, <- Ec. intro Hin. apply Hx.
        apply in_app_or in Hin. apply in_or_app.
        destruct Hin as [Hin | [Hin | [Hin | Hin]]]; [left; exact Hin | right; left; exact Hin | congruence | right; right; exact Hin].
      * intro Eq. apply Hx. apply in_or_app. right. right. apply Hp0in. symmetry. exact Eq.
    + (* activeDiskData *)
      assert (Ha' : m_active m' = removed d (m_active m)).
      { subst m'. unfold rm_mem. destruct (fix_children g); destruct ppd as [[p pd'] |];
          cbn [m_active set_active set_children set_disks update_child]; reflexivity. }
      rewrite Ha', Hact, removed_rev, Hnames_rm, Hnames_post. reflexivity.
  - intros k. rewrite Hch_other; [apply Hheads | apply not_eq_sym; apply Hl2h | intro E; inversion E; eapply Hdh; eauto].
Qed.

Lemma veq_upd_member : forall i l p pd pd',
  (forall mb, In mb l -> mb_name mb = p -> mb_disk mb = pd) -> attrs_same pd pd' ->
  veq (mkview i l) (mkview i (upd_member p pd' l)).
Proof.
  intros i l p pd pd' Hall Hat. split; [apply info_sim_refl |]. cbn [cv_chain].
  induction l as [| mb t IH]; [constructor |]. cbn [upd_member].
  constructor.
  - destruct (dname_eqb (mb_name mb) p) eqn:E; [| apply member_sim_refl].
    apply dname_eqb_eq in E. unfold member_sim, set_mdisk. cbn [mb_name mb_id mb_disk].
    split; [reflexivity |]. split; [reflexivity |]. rewrite (Hall mb (or_introl eq_refl) E). exact Hat.
  - apply IH. intros mb' Hin. apply Hall. right. exact Hin.
Qed.

Lemma Good_veq_post : forall g vpre vpost vmid x, recover g x = Some vmid -> veq vmid vpost -> Good g vpre vpost x.
Proof. intros. exists vmid. split; [assumption | right; assumption]. Qed.

(** removing files of a name that is not in the chain *)
Lemma rm_offchain : forall g w v vpost d (m : mem) (r : res),
  recover g w = Some v -> ~ In d (names_of_chain (cv_chain v)) ->
  exists w', ff (e2 <- rm_disk (Some d) ;; Ret (m, e2)) w = (w', Done (m, Ok))
    /\ recover g w' = Some v
    /\ Forall (Good g v vpost) (states (e2 <- rm_disk (Some d) ;; Ret (m, e2)) w).
Proof.
  intros g w v vpost d m r Hrec Hd.
  assert (Hdis : forall x, In x [Img d; Meta d] -> ~ footprint (cv_chain v) x).
  { intros x Hx Hf. cbn in Hx. destruct Hx as [Hx | [Hx | []]]; subst x.
    - apply footprint_img in Hf. exact (Hd Hf).
    - apply footprint_meta in Hf. exact (Hd Hf). }
  assert (Hw : within (fun x => In x [Img d; Meta d]) (e2 <- rm_disk (Some d) ;; Ret (m, e2))).
  { apply withinQ_within with (Q := fun _ => True). eapply withinQ_bind; [apply wq_rm_disk with (Q := fun _ => True); [| auto] |].
    - intros y Hy. inversion Hy; subst. cbn. auto.
    - intros; exact I. }
  destruct (rm_disk_ff w d) as [w' [Hff _]]. exists w'. split; [| split].
  - rewrite ff_bind, Hff. reflexivity.
  - pose proof (within_ff _ _ _ w Hw) as Hoo. rewrite ff_bind, Hff in Hoo. cbn [fst ff] in Hoo.
    eapply recover_only_on; eauto.
  - eapply within_good; eauto.
Qed.

Definition rm_cd' (dd cd : disk) : disk := mkdisk (d_parent dd) (d_removed cd) (d_user cd) (d_created cd) (d_rev cd).
Definition rm_ppd (dd : disk) (l2 : list member) : option (dname * disk) :=
  match l2 with
  | pmb :: _ => let pd := mb_disk pmb in
                Some (mb_name pmb, mkdisk (d_parent pd) (d_removed pd) (d_user pd) (d_created pd) (d_rev dd))
  | [] => None
  end.
Definition rm_post (l1 : list member) (cmb dmb : member) (l2 : list member) : list member :=
  let cd' := rm_cd' (mb_disk dmb) (mb_disk cmb) in
  match rm_ppd (mb_disk dmb) l2 with
  | Some (p, pd') => upd_member p pd' (l1 ++ set_mdisk cmb cd' :: l2)
  | None => l1 ++ set_mdisk cmb cd' :: l2
  end.

Lemma memd_true : forall x l, In x l -> memd x l = true.
Proof.
  induction l as [| y t IH]; intros Hin; [contradiction |]. cbn.
  destruct Hin as [H | H]; [subst; rewrite dname_eqb_refl; reflexivity | rewrite IH by assumption; apply Bool.orb_true_r].
Qed.

(** when the removed disk is in the live chain and is not the latest snapshot, the bookkeeping of
    removeDiskNode is: forget it everywhere *)
Lemma rdn_finish_eq : forall g m3 d,
  In d (m_active m3) ->
  (forall x t, rev (m_active m3) = x :: d :: t -> False) ->
  rdn_finish g m3 d =
  (let m4 := set_disks m3 (updd (m_disks m3) d None) in
   let m4 := if fix_children g then set_children m4 (updc (m_children m4) (Some d) []) else m4 in
   set_active m4 (removed d (m_active m4))).
Proof.
  intros g m3 d Hin Hnl. unfold rdn_finish, find_disk.
  assert (Hact : forall mm, m_active mm = m_active m3 ->
            (if negb (memd d (m_active mm)) then mm
             else set_active
                    match rev (m_active mm) with
                    | _ :: lat :: _ => if dname_eqb lat d
                                       then set_info mm (set_iparent (m_info mm)
                                              match i_head (m_info mm) with Some h => parent_of mm h | None => None end)
                                       else mm
                    | _ => mm
                    end
                    (removed d (m_active match rev (m_active mm) with
                                         | _ :: lat :: _ => if dname_eqb lat d
                                                            then set_info mm (set_iparent (m_info mm)
                                                                   match i_head (m_info mm) with Some h => parent_of mm h | None => None end)
                                                            else mm
                                         | _ => mm
                                         end)))
            = set_active mm (removed d (m_active mm))).
  { intros mm Hmm. rewrite memd_true by (rewrite Hmm; exact Hin). cbn [negb].
    destruct (rev (m_active mm)) as [| x [| y t]] eqn:Hrv; try reflexivity.
    destruct (dname_eqb y d) eqn:E; [| reflexivity].
    apply dname_eqb_eq in E. subst y. exfalso. eapply Hnl. rewrite <- Hmm. exact Hrv. }
  destruct (fix_children g); apply Hact; reflexivity.
Qed.

Lemma rdn_spec : forall g w v m a l1' cmb dmb l2,
  ctx g w v m ->
  cv_chain v = (a :: l1') ++ cmb :: dmb :: l2 ->
  let l1 := a :: l1' in
  let d := mb_name dmb in let child := mb_name cmb in
  let cd' := rm_cd' (mb_disk dmb) (mb_disk cmb) in
  let ppd := rm_ppd (mb_disk dmb) l2 in
  let vpost := mkview (cv_info v) (rm_post l1 cmb dmb l2) in
  exists w2,
    ff (remove_disk_node g m d) w = (w2, Done (rm_mem g m d child cd' ppd, Ok))
    /\ recover g w2 = Some vpost
    /\ Forall (Good g v vpost) (states (remove_disk_node g m d) w)
    (* the two directories in between: after the child's metadata was rewritten, after the parent's *)
    /\ (exists vmid, recover g (enc_fs w (Meta child) (IDisk cd')) = Some vmid /\ veq vmid vpost)
    /\ w2 = match ppd with
            | Some (p, pd') => enc_fs (enc_fs w (Meta child) (IDisk cd')) (Meta p) (IDisk pd')
            | None => enc_fs w (Meta child) (IDisk cd')
            end
    (* the shape of the program: the child's metadata, then the parent's; a failure of either is fatal *)
    /\ (exists K1, remove_disk_node g m d = bind (encode_to_file g (IDisk cd') (Meta child)) K1
          /\ K1 Failed = Abort Fatal
          /\ match ppd with
             | None => exists a, K1 Ok = Ret a
             | Some (p, pd') =>
                 exists (R : res -> prog (mem * res)) (K2 : mem * res -> prog (mem * res)),
                   K1 Ok = bind (bind (encode_to_file g (IDisk pd') (Meta p)) R) K2
                   /\ (forall e, exists m3, R e = Ret (m3, e))
                   /\ (forall m3 : mem, K2 (m3, Failed) = Abort Fatal)
                   /\ (forall m3 : mem, exists a, K2 (m3, Ok) = Ret a)
             end).
Proof.
  intros g w v m a l1' cmb dmb l2 Hctx Hchain l1 d child cd' ppd vpost.
  destruct (ctx_shape g w v m Hctx) as [n [id0 [d0 [tl0 [c [Hchain0 [Hvh [Hmh [Hsnaps [Hnd [Hndi [Hvol [Hcnt [Hlink [Hlen [Hd0 Hpar]]]]]]]]]]]]]]]].
  pose proof (cx_rec _ _ _ _ Hctx) as Hrec. pose proof (cx_ag _ _ _ _ Hctx) as Hag.
  destruct Hag as [Hinfo [Hdisks [Hchild [Hfixch Hact]]]].
  rewrite Hchain in Hnd, Hlink, Hlen, Hdisks, Hchild, Hact. fold l1 in Hnd, Hlink, Hlen, Hdisks, Hchild, Hact.
  assert (Hfd : find_mb d (l1 ++ cmb :: dmb :: l2) = Some dmb).
  { apply find_mb_in; [exact Hnd | apply in_or_app; right; right; left; reflexivity]. }
  assert (Hfc : find_mb child (l1 ++ cmb :: dmb :: l2) = Some cmb).
  { apply find_mb_in; [exact Hnd | apply in_or_app; right; left; reflexivity]. }
  pose proof Hnd as Hndn. rewrite names_app_mid in Hndn. fold d child in Hndn.
  destruct (nodup_mid _ _ _ _ Hndn) as [Hcd [Hd1 [Hd2 [Hc1 [Hc2 Hnd']]]]].
  (* what the files hold *)
  assert (Hlk : linked (files w) (cmb :: dmb :: l2)).
  { clear -Hlink. induction l1 as [| x t IH]; [exact Hlink |]. apply IH. cbn [app linked] in Hlink. tauto. }
  cbn [linked] in Hlk. destruct Hlk as [Hmc [_ [Hpc [Hmdd [_ [Hpd Hl2]]]]]].
  fold child in Hmc. fold d in Hmdd.
  (* the in-memory lookups of removeDiskNode *)
  assert (Hmd : m_disks m d = Some (mb_disk dmb)) by (rewrite Hdisks, Hfd; reflexivity).
  assert (Hmch : m_children m (Some d) = [child]).
  { rewrite Hchild by (rewrite names_app_mid; apply in_or_app; right; right; left; reflexivity).
    rewrite child_in_names, names_app_mid. apply child_of_split. exact Hndn. }
  assert (Hm1c : m_disks (update_child m d (Some child)) child = Some (mb_disk cmb)).
  { unfold update_child. cbn [m_disks set_children]. rewrite Hdisks, Hfc. reflexivity. }
  unfold remove_disk_node. rewrite Hmd, Hmch. rewrite Hm1c.
  fold (rm_cd' (mb_disk dmb) (mb_disk cmb)). fold cd'.
  set (m2 := set_disks (update_child m d (Some child)) (updd (m_disks (update_child m d (Some child))) child (Some cd'))).
  (* first rewrite: the child now points past d *)
  set (w1 := enc_fs w (Meta child) (IDisk cd')).
  set (mid := l1 ++ set_mdisk cmb cd' :: l2).
  assert (Hlink1 : linked (files w1) mid).
  { subst mid. eapply (linked_unlink (files w) (files w1) l1 cmb dmb l2 cd'); [exact Hlink | exact Hnd | reflexivity | | |].
    - subst w1. apply enc_fs_self. right. eexists. reflexivity.
    - intros y. subst w1. apply enc_fs_other; cbn; discriminate.
    - intros y Hy. subst w1. apply enc_fs_other; cbn; [intro E; inversion E; apply Hy; assumption | discriminate]. }
  assert (Hhead_mid : first_name mid = Some (Head n)).
  { subst mid l1. rewrite Hchain in Hchain0. cbn [app] in *. inversion Hchain0; subst a. reflexivity. }
  assert (Hwalk_of : forall f l, linked f l -> first_name l = Some (Head n) -> length l <= maxlen g ->
                              walk f (maxlen g) (Head n) = Some l).
  { intros f l Hl Hf Hle. pose proof (linked_walk f l (maxlen g) Hl) as Hwk.
    destruct l as [| y t]; [discriminate |]. cbn in Hf. injection Hf as Hy. rewrite Hy in Hwk.
    apply Hwk; [discriminate | exact Hle]. }
  assert (Hlen_mid : S (length mid) = length (l1 ++ cmb :: dmb :: l2)).
  { subst mid. rewrite !app_length. cbn [length]. lia. }
  assert (Hrec1 : recover g w1 = Some (mkview (cv_info v) mid)).
  { apply recover_intro with (h := Head n) (c := c).
    - subst w1. rewrite enc_fs_other by (cbn; discriminate). exact Hvol.
    - exact Hvh.
    - apply Hwalk_of; [exact Hlink1 | exact Hhead_mid | lia].
    - subst w1. rewrite enc_fs_other by (cbn; discriminate). exact Hcnt. }
  assert (Hst1 : forall vp, veq (mkview (cv_info v) mid) vp ->
            Forall (Good g v vp) (states (encode_to_file g (IDisk cd') (Meta child)) w)).
  { intros vp Hveq. apply encode_states; [right; eexists; reflexivity | exact I | |].
    - intros x Hx _. apply Good_pre. eapply recover_only_on; [exact Hrec | exact Hx |].
      intros y Hy Hf. cbn in Hy. subst y. exact (footprint_tmp _ _ Hf).
    - fold w1. eapply Good_veq_post; [exact Hrec1 | exact Hveq]. }
  (* the bookkeeping at the end *)
  assert (Hfin : forall m3, m_active m3 = m_active m ->
            rdn_finish g m3 d =
            (let m4 := set_disks m3 (updd (m_disks m3) d None) in
             let m4 := if fix_children g then set_children m4 (updc (m_children m4) (Some d) []) else m4 in
             set_active m4 (removed d (m_active m4)))).
  { intros m3 Hm3. apply rdn_finish_eq.
    - rewrite Hm3, Hact. apply in_rev. rewrite rev_involutive, names_app_mid.
      apply in_or_app. right. right. left. reflexivity.
    - intros x t. rewrite Hm3, Hact, rev_involutive, names_app_mid. subst l1. cbn [names_of_chain map app].
      destruct l1' as [| b t']; cbn [names_of_chain map app]; intro E; inversion E.
      + apply Hcd. assumption.
      + apply Hd1. right. left. assumption. }
  rewrite ff_bind, ff_encode by (cbn; auto; right; eexists; reflexivity). fold w1. cbn [is_ok res_eqb negb].
  destruct l2 as [| pmb l2'].
  - (* d is the base: no parent to update *)
    cbn [rm_ppd] in ppd. subst ppd.
    assert (Hpostmid : rm_post l1 cmb dmb [] = mid) by reflexivity.
    unfold rdn_parent_rev. rewrite Hpd. cbn [bind ff is_ok res_eqb negb].
    exists w1. split; [| split; [| split; [| split; [exists (mkview (cv_info v) mid); split; [exact Hrec1 | subst vpost; rewrite Hpostmid; apply veq_refl] |
      split; [reflexivity | eexists; split; [reflexivity | split; [reflexivity | eexists; reflexivity]]]]]]].
    + rewrite (Hfin m2 eq_refl). reflexivity.
    + subst vpost. rewrite Hpostmid. exact Hrec1.
    + subst vpost. rewrite Hpostmid. apply Forall_states_bind.
      * apply Hst1. apply veq_refl.
      * intros e He. rewrite ff_encode in * by (cbn; auto; right; eexists; reflexivity). cbn [fst snd] in *.
        inversion He; subst e. cbn [is_ok res_eqb negb bind]. apply Forall_states_ret. apply Good_post. exact Hrec1.
  - (* the parent inherits d's revision counter *)
    set (p := mb_name pmb) in *. set (pd := mb_disk pmb) in *.
    set (pd' := mkdisk (d_parent pd) (d_removed pd) (d_user pd) (d_created pd) (d_rev (mb_disk dmb))).
    assert (Hppd : ppd = Some (p, pd')) by reflexivity.
    assert (Hpin : In p (names_of_chain (pmb :: l2'))) by (left; reflexivity).
    assert (Hpc' : p <> child) by (intro E; apply Hc2; rewrite <- E; exact Hpin).
    assert (Hpdd : p <> d) by (intro E; apply Hd2; rewrite <- E; exact Hpin).
    assert (Hm2p : m_disks m2 p = Some pd).
    { subst m2. cbn [m_disks set_disks update_child set_children]. rewrite updd_neq by (apply not_eq_sym; exact Hpc').
      rewrite Hdisks. rewrite (find_mb_in _ pmb); [reflexivity | exact Hnd |].
      apply in_or_app. right. right. right. left. reflexivity. }
    cbn [linked] in Hl2. destruct Hl2 as [Hmp [_ [Hpp _]]]. fold p pd in Hmp, Hpp.
    unfold rdn_parent_rev. rewrite Hpd. cbn [first_name]. fold p. rewrite Hm2p. fold pd'.
    set (m3 := set_disks m2 (updd (m_disks m2) p (Some pd'))).
    set (w2 := enc_fs w1 (Meta p) (IDisk pd')).
    assert (Hpost : rm_post l1 cmb dmb (pmb :: l2') = upd_member p pd' mid) by reflexivity.
    assert (Hw1p : files w1 (Meta p) = Some (IDisk pd)).
    { subst w1. rewrite enc_fs_other; [exact Hmp | intro E; inversion E; exact (Hpc' H0) | cbn; discriminate]. }
    assert (Hnd_mid : NoDup (names_of_chain mid)).
    { subst mid. unfold names_of_chain. rewrite map_app. cbn [map set_mdisk mb_name]. exact Hnd'. }
    assert (Hlink2 : linked (files w2) (upd_member p pd' mid)).
    { eapply (linked_upd_same_parent (files w1) (files w2) p pd pd' mid Hlink1 Hnd_mid Hw1p); [reflexivity | | |].
      - subst w2. apply enc_fs_self. right. eexists. reflexivity.
      - intros y. subst w2. apply enc_fs_other; cbn; discriminate.
      - intros y Hy. subst w2. apply enc_fs_other; cbn; [intro E; inversion E; apply Hy; assumption | discriminate]. }
    assert (Hrec2 : recover g w2 = Some vpost).
    { subst vpost. rewrite Hpost. apply recover_intro with (h := Head n) (c := c).
      - subst w2. rewrite enc_fs_other by (cbn; discriminate). subst w1. rewrite enc_fs_other by (cbn; discriminate). exact Hvol.
      - exact Hvh.
      - apply Hwalk_of; [exact Hlink2 | | rewrite upd_member_length; lia].
        destruct mid as [| y t]; [discriminate |]. cbn [upd_member first_name] in *.
        destruct (dname_eqb (mb_name y) p); exact Hhead_mid.
      - subst w2. rewrite enc_fs_other by (cbn; discriminate). subst w1. rewrite enc_fs_other by (cbn; discriminate). exact Hcnt. }
    assert (Hveq : veq (mkview (cv_info v) mid) vpost).
    { subst vpost. rewrite Hpost. apply veq_upd_member with (pd := pd).
      - intros mb Hin Hn. subst mid. apply in_app_or in Hin. destruct Hin as [Hin | [Hin | Hin]].
        + exfalso. apply (in_map mb_name) in Hin. rewrite Hn in Hin.
          apply (nodup_app_disj _ _ p Hndn Hin). right. right. exact Hpin.
        + exfalso. subst mb. cbn in Hn. apply Hpc'. symmetry. exact Hn.
        + destruct Hin as [Hin | Hin]; [subst mb; reflexivity |].
          exfalso. apply (in_map mb_name) in Hin. rewrite Hn in Hin.
          pose proof (nodup_app_r _ _ Hndn) as Hr. inversion Hr as [| ? ? _ Hr1]; subst. inversion Hr1 as [| ? ? _ Hr2]; subst.
          cbn [names_of_chain map] in Hr2. inversion Hr2; subst. contradiction.
      - repeat split. }
    exists w2. split; [| split; [| split; [| split; [exists (mkview (cv_info v) mid); split; [exact Hrec1 | exact Hveq] |
      split; [rewrite Hppd; reflexivity |
        eexists; split; [reflexivity | split; [reflexivity | rewrite Hppd; eexists; eexists;
          split; [reflexivity | split; [intros e0; eexists; reflexivity | split; [intros; reflexivity | intros; eexists; reflexivity]]]]]]]]]].
    + rewrite ff_bind, ff_bind, ff_encode by (cbn; auto; right; eexists; reflexivity). fold w2. cbn [ff is_ok res_eqb negb].
      rewrite (Hfin m3 eq_refl). rewrite Hppd. reflexivity.
    + exact Hrec2.
    + apply Forall_states_bind.
      * apply Hst1. exact Hveq.
      * intros e He. rewrite ff_encode in * by (cbn; auto; right; eexists; reflexivity). cbn [fst snd] in *.
        inversion He; subst e. cbn [is_ok res_eqb negb]. fold w1.
        apply Forall_states_bind.
        -- apply Forall_states_bind.
           ++ apply encode_states; [right; eexists; reflexivity | exact I | |].
              ** intros x Hx _. eapply Good_veq_post; [| exact Hveq]. eapply recover_only_on; [exact Hrec1 | exact Hx |].
                 intros y Hy Hf. cbn in Hy. subst y. exact (footprint_tmp _ _ Hf).
              ** fold w2. apply Good_post. exact Hrec2.
           ++ intros e2 He2. rewrite ff_encode in * by (cbn; auto; right; eexists; reflexivity). cbn [fst snd] in *.
              apply Forall_states_ret. fold w2. apply Good_post. exact Hrec2.
        -- intros a0 Ha0. rewrite ff_bind, ff_encode in * by (cbn; auto; right; eexists; reflexivity).
           cbn [ff fst snd] in *. inversion Ha0; subst a0. cbn [is_ok res_eqb negb].
           apply Forall_states_ret. fold w2. apply Good_post. exact Hrec2.
Qed.

Lemma rm_post_shape : forall a l1' cmb dmb l2,
  NoDup (names_of_chain ((a :: l1') ++ cmb :: dmb :: l2)) ->
  exists rest, rm_post (a :: l1') cmb dmb l2 = a :: rest
    /\ names_of_chain (rm_post (a :: l1') cmb dmb l2) = names_of_chain (a :: l1') ++ mb_name cmb :: names_of_chain l2
    /\ map mb_id (rm_post (a :: l1') cmb dmb l2) = map mb_id (a :: l1') ++ mb_id cmb :: map mb_id l2.
Proof.
  intros a l1' cmb dmb l2 Hnd. unfold rm_post.
  set (mid := (a :: l1') ++ set_mdisk cmb (rm_cd' (mb_disk dmb) (mb_disk cmb)) :: l2).
  assert (Hn : names_of_chain mid = names_of_chain (a :: l1') ++ mb_name cmb :: names_of_chain l2).
  { subst mid. unfold names_of_chain. rewrite map_app. reflexivity. }
  assert (Hi : map mb_id mid = map mb_id (a :: l1') ++ mb_id cmb :: map mb_id l2).
  { subst mid. rewrite map_app. reflexivity. }
  destruct (rm_ppd (mb_disk dmb) l2) as [[p pd'] |] eqn:Hp.
  - rewrite upd_member_names, upd_member_ids. split with (x := upd_member p pd' (l1' ++ set_mdisk cmb (rm_cd' (mb_disk dmb) (mb_disk cmb)) :: l2)).
    split; [| split; assumption].
    subst mid. cbn [app upd_member]. rewrite dname_eqb_neq; [reflexivity |].
    unfold rm_ppd in Hp. destruct l2 as [| pmb l2']; [discriminate |]. inversion Hp; subst p.
    intro E. rewrite names_app_mid in Hnd. cbn [names_of_chain map app] in Hnd. inversion Hnd as [| ? ? Hn1 _]; subst.
    apply Hn1. apply in_or_app. right. right. right. left. symmetry. exact E.
  - exists (l1' ++ set_mdisk cmb (rm_cd' (mb_disk dmb) (mb_disk cmb)) :: l2). auto.
Qed.

Theorem remove_diff_disk_spec : forall g w v m d,
  ctx g w v m -> cfg_ok g -> ospec g w v m (remove_diff_disk g m d).
Proof.
  intros g w v m d Hctx Hcfg.
  destruct (ctx_shape g w v m Hctx) as [n [id0 [d0 [tl0 [c [Hchain0 [Hvh [Hmh [Hsnaps [Hnd [Hndi [Hvol [Hcnt [Hlink [Hlen [Hd0 Hpar]]]]]]]]]]]]]]]].
  pose proof (cx_rec _ _ _ _ Hctx) as Hrec. pose proof (cx_ag _ _ _ _ Hctx) as Hag. pose proof (cx_fresh _ _ _ _ Hctx) as Hfr.
  pose proof (cx_heads _ _ _ _ Hctx) as Hheads.
  pose proof Hag as [Hinfo [Hdisks [Hchild [Hfixch Hact]]]].
  unfold remove_diff_disk.
  destruct (negb (mode_eqb (m_mode m) RW)) eqn:Em; [eapply ospec_refuse; [exact Hctx | | reflexivity]; discriminate |].
  destruct (odname_eqb (Some d) (i_head (m_info m))) eqn:Eh; [eapply ospec_refuse; [exact Hctx | | reflexivity]; discriminate |].
  destruct (odname_eqb (i_parent (m_info m)) (Some d)) eqn:Ep; [eapply ospec_refuse; [exact Hctx | | reflexivity]; discriminate |].
  destruct (match m_disks m d with Some x => match d_parent x with None => true | Some _ => false end | None => false end) eqn:Eb;
    [eapply ospec_refuse; [exact Hctx | | reflexivity]; discriminate |].
  assert (Hdh : d <> Head n).
  { intro E. subst d. rewrite Hmh, odname_eqb_refl in Eh. discriminate. }
  destruct (m_disks m d) as [dd |] eqn:Hmd.
  - (* a member of the chain *)
    assert (Hin : In d (names_of_chain (cv_chain v))).
    { rewrite Hdisks in Hmd. destruct (find_mb d (cv_chain v)) as [mb |] eqn:Hf; [| discriminate].
      destruct (find_mb_some_in _ _ _ Hf) as [Hi Hn]. rewrite <- Hn. apply in_map. exact Hi. }
    destruct (split_at_member d (cv_chain v) Hin) as [l1 [cmb [dmb [l2 [Hsplit Hdn]]]]].
    { rewrite Hchain0. cbn. congruence. }
    (* d is not the latest snapshot, so something precedes its child *)
    destruct l1 as [| a l1'].
    { exfalso. rewrite Hsplit in Hlink, Hchain0. cbn [app] in Hlink, Hchain0.
      cbn [linked] in Hlink. destruct Hlink as [_ [_ [Hp0 _]]].
      inversion Hchain0 as [[Hc0 Ht0]]. rewrite Hc0 in Hp0. cbn [mb_disk] in Hp0.
      destruct Hinfo as [_ [_ [_ [Hip _]]]]. rewrite Hip, Hpar, Hp0, Hdn, odname_eqb_refl in Ep. discriminate. }
    subst d.
    destruct (rdn_spec g w v m a l1' cmb dmb l2 Hctx Hsplit) as [w2 [Hff2 [Hrec2 [Hst2 _]]]].
    set (vpost := mkview (cv_info v) (rm_post (a :: l1') cmb dmb l2)) in *.
    set (m' := rm_mem g m (mb_name dmb) (mb_name cmb) (rm_cd' (mb_disk dmb) (mb_disk cmb)) (rm_ppd (mb_disk dmb) l2)) in *.
    pose proof Hnd as Hnd2. rewrite Hsplit in Hnd2.
    destruct (rm_post_shape a l1' cmb dmb l2 Hnd2) as [rest [Hshape [Hnames Hids]]].
    pose proof Hnd2 as Hndn. rewrite names_app_mid in Hndn.
    destruct (nodup_mid _ _ _ _ Hndn) as [Hcd [Hd1 [Hd2 [Hc1 [Hc2 Hnd']]]]].
    assert (Hd_post : ~ In (mb_name dmb) (names_of_chain (cv_chain vpost))).
    { subst vpost. cbn [cv_chain]. rewrite Hnames. intro H. apply in_app_or in H.
      destruct H as [H | [H | H]]; [exact (Hd1 H) | exact (Hcd H) | exact (Hd2 H)]. }
    destruct (rm_offchain g w2 vpost vpost (mb_name dmb) m' Ok Hrec2 Hd_post) as [w3 [Hff3 [Hrec3 Hst3]]].
    (* the chain below the head *)
    assert (Ha : a = mkmember (Head n) id0 d0 /\ tl0 = l1' ++ cmb :: dmb :: l2).
    { rewrite Hsplit in Hchain0. cbn [app] in Hchain0. inversion Hchain0. auto. }
    destruct Ha as [Ha Htl0].
    assert (Hl2_linked : d_parent (mb_disk dmb) = first_name l2).
    { rewrite Hsplit in Hlink. clear -Hlink. induction (a :: l1') as [| x t IH]; cbn [app linked] in Hlink; [| apply IH; tauto].
      destruct Hlink as [_ [_ [_ [_ [_ [H _]]]]]]. exact H. }
    assert (Hsn_all : forall x, In x (names_of_chain tl0) -> forall k, x <> Head k).
    { intros x Hx k E. subst x. exact (snap_not_head tl0 k Hsnaps Hx). }
    destruct (rm_agree g v m (a :: l1') cmb dmb l2 (rm_cd' (mb_disk dmb) (mb_disk cmb)) (rm_ppd (mb_disk dmb) l2) Hag Hsplit Hnd Hheads)
      as [Hag' Hheads'].
    { intros k. apply Hsn_all. rewrite Htl0. unfold names_of_chain. rewrite map_app. apply in_or_app. right. right. left. reflexivity. }
    { intros k E. destruct l2 as [| pmb l2']; [discriminate |]. cbn in E. inversion E as [E1].
      eapply (Hsn_all (mb_name pmb)); [| exact E1]. rewrite Htl0. unfold names_of_chain. rewrite map_app.
      apply in_or_app. right. right. right. left. reflexivity. }
    { exact Hl2_linked. }
    { unfold rm_ppd. destruct l2 as [| pmb l2']; [exact I | reflexivity]. }
    exists w3, m', Ok, vpost. split; [| split; [| split]].
    + rewrite ff_bind, Hff2. cbn [is_ok res_eqb negb]. exact Hff3.
    + constructor.
      * exact Hrec3.
      * (* the new view is well formed *)
        exists n, id0, d0, rest. subst vpost. cbn [cv_chain cv_info]. rewrite Hshape, Ha.
        split; [reflexivity |]. split; [exact Hvh |]. split; [| split; [| split]].
        -- apply Forall_forall. intros mb Hmb.
           assert (Hmn : In (mb_name mb) (names_of_chain rest)) by (apply in_map; exact Hmb).
           assert (Hsub : In (mb_name mb) (names_of_chain tl0)).
           { rewrite Hshape in Hnames. cbn [names_of_chain map app] in Hnames. inversion Hnames as [Hr].
             fold (names_of_chain rest) in Hr. rewrite Hr in Hmn. rewrite Htl0. unfold names_of_chain. rewrite map_app.
             apply in_app_or in Hmn. apply in_or_app. destruct Hmn as [H | [H | H]];
               [left; exact H | right; left; exact H | right; right; right; exact H]. }
           unfold names_of_chain in Hsub. apply in_map_iff in Hsub. destruct Hsub as [mb' [Hn' Hi']].
           eapply Forall_forall in Hsnaps; [| exact Hi']. rewrite <- Hn'. exact Hsnaps.
        -- rewrite <- Ha, <- Hshape, Hnames. exact Hnd'.
        -- rewrite <- Ha, <- Hshape, Hids. rewrite Hsplit, map_app in Hndi. cbn [map] in Hndi.
           apply (nodup_mid_gen _ _ _ _ _ Hndi).
        -- exact Hpar.
      * exact Hag'.
      * match goal with |- ids_fresh ?x => assert (Hx : x = fst (ff (remove_diff_disk g m (mb_name dmb)) w)) end.
        { unfold remove_diff_disk. rewrite Em, Eh, Ep, Hmd, Eb.
          rewrite ff_bind, Hff2. cbn [is_ok res_eqb negb]. rewrite Hff3. reflexivity. }
        rewrite Hx. apply ff_fresh. exact Hfr.
      * exact Hheads'.
    + apply Forall_states_bind; [exact Hst2 |].
      intros a0 Ha0. rewrite Hff2 in *. cbn [fst snd] in *. inversion Ha0; subst a0. cbn [is_ok res_eqb negb].
      eapply Forall_impl; [| exact Hst3]. intros x [vx [Hx1 Hx2]]. exists vx. split; [exact Hx1 | right; destruct Hx2; assumption].
    + intros H. congruence.
  - (* not in diskData: only files of that name (if any) are removed *)
    assert (Hnot : ~ In d (names_of_chain (cv_chain v))).
    { intro Hin. rewrite Hdisks in Hmd. destruct (find_mb_some d (cv_chain v) Hin) as [mb Hf]. rewrite Hf in Hmd. discriminate. }
    destruct (rm_offchain g w v v d m Ok Hrec Hnot) as [w3 [Hff3 [Hrec3 Hst3]]].
    exists w3, m, Ok, v. split; [| split; [| split]].
    + unfold remove_disk_node. rewrite Hmd. cbn [bind is_ok res_eqb negb]. exact Hff3.
    + constructor; try apply Hctx; [exact Hrec3 |].
      pose proof (ff_fresh _ (e2 <- rm_disk (Some d);; Ret (m, e2)) w Hfr) as H. rewrite Hff3 in H. exact H.
    + unfold remove_disk_node. rewrite Hmd. cbn [bind is_ok res_eqb negb]. exact Hst3.
    + intros H. congruence.
Qed.

(** ** the open path: readMetadata / readDiskData *)

Definition frev (c : Z) (d : disk) : disk :=
  if Z.leb (d_rev d) 1 then mkdisk (d_parent d) (d_removed d) (d_user d) (d_created d) c else d.

Definition norm_chain (c : Z) (l : list member) : list member :=
  map (fun mb => set_mdisk mb (frev c (mb_disk mb))) l.

Lemma frev_parent : forall c d, d_parent (frev c d) = d_parent d.
Proof. intros. unfold frev. destruct (Z.leb (d_rev d) 1); reflexivity. Qed.
Lemma frev_attrs : forall c d, attrs_same d (frev c d).
Proof. intros. unfold frev. destruct (Z.leb (d_rev d) 1); repeat split. Qed.

Lemma norm_chain_names : forall c l, names_of_chain (norm_chain c l) = names_of_chain l.
Proof. intros. unfold norm_chain, names_of_chain. rewrite map_map. reflexivity. Qed.
Lemma norm_chain_ids : forall c l, map mb_id (norm_chain c l) = map mb_id l.
Proof. intros. unfold norm_chain. rewrite map_map. reflexivity. Qed.
Lemma norm_chain_sim : forall c l, Forall2 member_sim l (norm_chain c l).
Proof.
  induction l as [| a t IH]; [constructor |]. cbn. constructor; [| exact IH].
  split; [reflexivity |]. split; [reflexivity |]. apply frev_attrs.
Qed.

(** the memory readMetadata's loop builds from the chain [l] (head first) *)
Fixpoint rc_mem (c : Z) (m : mem) (l : list member) : mem :=
  match l with
  | [] => m
  | a :: t =>
      let m1 := set_disks m (updd (m_disks m) (mb_name a) (Some (frev c (mb_disk a)))) in
      match d_parent (mb_disk a) with
      | None => m1
      | Some p => rc_mem c (set_children m1 (add_child (m_children m1) (Some p) (mb_name a))) t
      end
  end.

(** names a run of the loop over [l] may change *)
Definition rc_touch (l : list member) (n : name) : Prop :=
  exists y, In y (names_of_chain l) /\ (n = Meta y \/ n = MetaTmp y).

Lemma sim_linked_names : forall l l', Forall2 member_sim l l' -> names_of_chain l = names_of_chain l'.
Proof.
  intros l l' H. induction H as [| x y l0 l0' Hxy _ IH]; [reflexivity |].
  unfold names_of_chain in *. cbn [map]. destruct Hxy as [Hn _]. rewrite Hn, IH. reflexivity.
Qed.

Lemma read_chain_spec : forall g c present l w m fuel,
  l <> [] -> linked (files w) l -> NoDup (names_of_chain l) ->
  (forall y, In y (names_of_chain l) -> present (Meta y) = true) ->
  files w Counter = Some (ICounter c) -> length l <= fuel ->
  let x := match l with a :: _ => mb_name a | [] => Head 0 end in
  exists w',
    ff (read_chain g fuel present m x) w = (w', Done (rc_mem c m l, Ok))
    /\ linked (files w') (norm_chain c l)
    /\ only_on (rc_touch l) w w'
    /\ Forall (fun x' => only_on (rc_touch l) w x'
                         /\ exists l', linked (files x') l' /\ Forall2 member_sim l l')
              (states (read_chain g fuel present m x) w).
Proof.
  intros g c present l. induction l as [| a t IH]; intros w m fuel Hne Hl Hnd Hpres Hcnt Hlen x; [congruence |].
  subst x. destruct fuel as [| fuel]; [cbn in Hlen; lia |].
  cbn [linked] in Hl. destruct Hl as [Hma [[gn Hia] [Hpa Ht]]].
  cbn [names_of_chain map] in Hnd, Hpres. inversion Hnd as [| ? ? Hnotin Hndt]; subst.
  cbn [read_chain]. rewrite (Hpres (mb_name a)) by (left; reflexivity). cbn [negb].
  set (da := mb_disk a) in *. set (xa := mb_name a) in *.
  (* the first iteration: read, possibly rewrite with the current revision counter *)
  set (da' := frev c da).
  set (w1 := if Z.leb (d_rev da) 1 then enc_fs w (Meta xa) (IDisk da') else w).
  assert (Hw1_meta : files w1 (Meta xa) = Some (IDisk da')).
  { subst w1 da'. unfold frev. destruct (Z.leb (d_rev da) 1); [apply enc_fs_self; right; eexists; reflexivity | exact Hma]. }
  assert (Hw1_oo : only_on (fun n => n = Meta xa \/ n = MetaTmp xa) w w1).
  { subst w1. destruct (Z.leb (d_rev da) 1); [| apply only_on_refl]. intros n Hn. apply enc_fs_other; cbn; intro; subst n; apply Hn; auto. }
  assert (Hw1_cnt : files w1 Counter = Some (ICounter c)) by (rewrite Hw1_oo; [exact Hcnt | intros [H | H]; discriminate]).
  assert (Hw1_img : forall y, files w1 (Img y) = files w (Img y)) by (intros y; apply Hw1_oo; intros [H | H]; discriminate).
  assert (Hw1_other : forall y, y <> xa -> files w1 (Meta y) = files w (Meta y)).
  { intros y Hy. apply Hw1_oo. intros [H | H]; [inversion H; congruence | discriminate]. }
  set (first := if Z.leb (d_rev da) 1
                then rv <- get_rev;;
                     e <- encode_to_file g (IDisk (mkdisk (d_parent da) (d_removed da) (d_user da) (d_created da) rv)) (Meta xa);;
                     Ret (mkdisk (d_parent da) (d_removed da) (d_user da) (d_created da) rv, e)
                else Ret (da, Ok)).
  assert (Hfirst : ff first w = (w1, Done (da', Ok))).
  { subst first w1 da'. unfold frev. destruct (Z.leb (d_rev da) 1).
    - rewrite ff_bind, (get_rev_ff _ c Hcnt). rewrite ff_bind, ff_encode by (cbn; auto; right; eexists; reflexivity). reflexivity.
    - reflexivity. }
  set (a' := set_mdisk a da').
  assert (Hsim_a : member_sim a a').
  { subst a' da'. split; [reflexivity |]. split; [reflexivity |]. apply frev_attrs. }
  (* a directory that differs from w only in the temp file, or equals w1, has the head entry linked *)
  assert (Hlift : forall x' l', (only_on (fun n => n = MetaTmp xa) w x' \/ only_on (rc_touch t) w1 x') ->
            linked (files x') l' -> Forall2 member_sim t l' ->
            exists a2, (a2 = a \/ a2 = a') /\ linked (files x') (a2 :: l')).
  { intros x' l' Hx' Hl' Hs'.
    assert (Hfn : match l' with y :: _ => Some (mb_name y) | [] => None end = match t with y :: _ => Some (mb_name y) | [] => None end).
    { inversion Hs' as [| ? ? ? ? [Hn _] _]; subst; [reflexivity | cbn; rewrite Hn; reflexivity]. }
    destruct Hx' as [Hx' | Hx'].
    - exists a. split; [left; reflexivity |]. cbn [linked]. fold xa da.
      rewrite (Hx' (Meta xa)) by discriminate. rewrite (Hx' (Img xa)) by discriminate.
      split; [exact Hma |]. split; [eauto |]. split; [rewrite Hfn; exact Hpa | exact Hl'].
    - exists a'. split; [right; reflexivity |]. cbn [linked]. subst a'. cbn [set_mdisk mb_name mb_disk mb_id]. fold xa.
      assert (Hnt : forall n, (n = Meta xa \/ n = Img xa) -> ~ rc_touch t n).
      { intros n Hn [y [Hy Hy2]]. destruct Hn as [Hn | Hn]; subst n; destruct Hy2 as [E | E]; try discriminate.
        inversion E; subst y. exact (Hnotin Hy). }
      rewrite (Hx' (Meta xa)) by (apply Hnt; auto). rewrite (Hx' (Img xa)) by (apply Hnt; auto).
      split; [exact Hw1_meta |]. split; [exists gn; rewrite Hw1_img; exact Hia |].
      split; [subst da'; rewrite frev_parent, Hfn; exact Hpa | exact Hl']. }
  assert (Htouch_a : forall n, (n = Meta xa \/ n = MetaTmp xa) -> rc_touch (a :: t) n).
  { intros n Hn. exists xa. split; [left; reflexivity | exact Hn]. }
  assert (Htouch_t : forall n, rc_touch t n -> rc_touch (a :: t) n).
  { intros n [y [Hy Hy2]]. exists y. split; [right; exact Hy | exact Hy2]. }
  assert (Hlt_w1 : linked (files w1) t).
  { eapply linked_frame; [exact Ht |]. intros y Hy. split; [apply Hw1_other; intro; subst y; exact (Hnotin Hy) | apply Hw1_img]. }
  (* states of the first iteration *)
  assert (Hfirst_st : Forall (fun x' => only_on (rc_touch (a :: t)) w x'
                                       /\ exists l', linked (files x') l' /\ Forall2 member_sim (a :: t) l') (states first w)).
  { assert (Hw_ok : only_on (rc_touch (a :: t)) w w /\ exists l', linked (files w) l' /\ Forall2 member_sim (a :: t) l').
    { split; [apply only_on_refl |]. exists (a :: t). split; [cbn [linked]; eauto 6 | apply Forall2_refl; apply member_sim_refl]. }
    assert (Hw1_ok : only_on (rc_touch (a :: t)) w w1 /\ exists l', linked (files w1) l' /\ Forall2 member_sim (a :: t) l').
    { split; [intros n Hn; apply Hw1_oo; intro H; apply Hn; apply Htouch_a; exact H |].
      destruct (Hlift w1 t (or_intror (only_on_refl _ w1)) Hlt_w1 (Forall2_refl _ _ member_sim_refl t)) as [a2 [Ha2 Hl2]].
      exists (a2 :: t). split; [exact Hl2 |]. constructor; [destruct Ha2; subst a2; [apply member_sim_refl | exact Hsim_a] | apply Forall2_refl; apply member_sim_refl]. }
    subst first. destruct (Z.leb (d_rev da) 1) eqn:Erev.
    - apply Forall_states_bind.
      + unfold get_rev. cbn [states apply_call]. rewrite Hcnt. cbn [states]. constructor; [exact Hw_ok | constructor; [exact Hw_ok | constructor]].
      + intros rv Hrv. rewrite (get_rev_ff _ c Hcnt) in *. cbn [fst snd] in *. inversion Hrv; subst rv.
        apply Forall_states_bind.
        * apply encode_states; [right; eexists; reflexivity | exact I | |].
          -- intros x' Hx' _. split; [intros n Hn; apply Hx'; intro E; apply Hn; apply Htouch_a; right; subst n; reflexivity |].
             destruct (Hlift x' t) as [a2 [Ha2 Hl2]]; [left; intros n Hn; apply Hx'; cbn; congruence | | apply Forall2_refl; apply member_sim_refl |].
             ++ eapply linked_frame; [exact Ht |]. intros y Hy. split; apply Hx'; cbn; discriminate.
             ++ exists (a2 :: t). split; [exact Hl2 |]. constructor; [destruct Ha2; subst a2; [apply member_sim_refl | exact Hsim_a] | apply Forall2_refl; apply member_sim_refl].
          -- subst w1 da'. unfold frev in Hw1_ok. rewrite ?Erev in Hw1_ok. exact Hw1_ok.
        * intros e He. apply Forall_states_ret. rewrite ff_encode by (cbn; auto; right; eexists; reflexivity). cbn [fst].
          subst w1 da'. unfold frev in Hw1_ok. rewrite ?Erev in Hw1_ok. exact Hw1_ok.
    - apply Forall_states_ret. exact Hw_ok. }
  (* the whole iteration: the read, [first], then the parent *)
  set (m1 := set_disks m (updd (m_disks m) xa (Some da'))).
  assert (Hhead_ff : forall (k : disk * res -> prog (mem * res)) wz o,
            ff (k (da', Ok)) w1 = (wz, o) ->
            ff (Do (CReadFile (Meta xa)) (fun r => match r with
                                                   | RIno (IDisk d) => bind (if Z.leb (d_rev d) 1
                                                         then rv <- get_rev;;
                                                              e <- encode_to_file g (IDisk (mkdisk (d_parent d) (d_removed d) (d_user d) (d_created d) rv)) (Meta xa);;
                                                              Ret (mkdisk (d_parent d) (d_removed d) (d_user d) (d_created d) rv, e)
                                                         else Ret (d, Ok)) k
                                                   | _ => Ret (m, Failed) end)) w = (wz, o)).
  { intros k wz o Hk. cbn [ff apply_call]. rewrite Hma. fold da. fold first. rewrite ff_bind, Hfirst. exact Hk. }
  assert (Hhead_st : forall (k : disk * res -> prog (mem * res)) (P : fs -> Prop),
            (forall x', (only_on (rc_touch (a :: t)) w x' /\ exists l', linked (files x') l' /\ Forall2 member_sim (a :: t) l') -> P x') ->
            Forall P (states (k (da', Ok)) w1) ->
            Forall P (states (Do (CReadFile (Meta xa)) (fun r => match r with
                                                   | RIno (IDisk d) => bind (if Z.leb (d_rev d) 1
                                                         then rv <- get_rev;;
                                                              e <- encode_to_file g (IDisk (mkdisk (d_parent d) (d_removed d) (d_user d) (d_created d) rv)) (Meta xa);;
                                                              Ret (mkdisk (d_parent d) (d_removed d) (d_user d) (d_created d) rv, e)
                                                         else Ret (d, Ok)) k
                                                   | _ => Ret (m, Failed) end)) w)).
  { intros k P HP Hk. rewrite states_Do. cbn [apply_call]. rewrite Hma. fold da. fold first.
    constructor.
    - apply HP. split; [apply only_on_refl |]. exists (a :: t). split; [cbn [linked]; eauto 6 | apply Forall2_refl; apply member_sim_refl].
    - apply Forall_states_bind.
      + eapply Forall_impl; [| exact Hfirst_st]. exact HP.
      + intros r Hr. rewrite Hfirst in *. cbn [fst snd] in *. inversion Hr; subst r. exact Hk. }
  destruct t as [| b t'].
  - (* the base of the chain *)
    cbn [first_name] in Hpa.
    assert (Hpa' : d_parent da' = None) by (subst da'; rewrite frev_parent; exact Hpa).
    exists w1. split; [| split; [| split]].
    + eapply Hhead_ff. cbn [is_ok res_eqb negb]. rewrite Hpa'. cbn [ff rc_mem]. fold da. rewrite Hpa. reflexivity.
    + cbn [norm_chain map linked]. fold da da'. cbn [set_mdisk mb_name mb_disk mb_id]. fold xa.
      split; [exact Hw1_meta |]. split; [exists gn; rewrite Hw1_img; exact Hia |]. split; [exact Hpa' | exact I].
    + intros n Hn. apply Hw1_oo. intro H. apply Hn. apply Htouch_a. exact H.
    + eapply Hhead_st; [intros x' Hx'; exact Hx' |].
      cbn [is_ok res_eqb negb]. rewrite Hpa'. apply Forall_states_ret.
      split; [intros n Hn; apply Hw1_oo; intro H; apply Hn; apply Htouch_a; exact H |].
      exists [a']. split.
      * cbn [linked]. subst a'. cbn [set_mdisk mb_name mb_disk mb_id]. fold xa.
        split; [exact Hw1_meta |]. split; [exists gn; rewrite Hw1_img; exact Hia |]. split; [exact Hpa' | exact I].
      * constructor; [exact Hsim_a | constructor].
  - (* the parent: the rest of the chain by induction *)
    set (p := mb_name b) in *.
    assert (Hpa' : d_parent da' = Some p) by (subst da'; rewrite frev_parent; exact Hpa).
    set (m2 := set_children m1 (add_child (m_children m1) (Some p) xa)).
    destruct (IH w1 m2 fuel) as [w' [Hff' [Hl' [Hoo' Hst']]]].
    + discriminate.
    + exact Hlt_w1.
    + exact Hndt.
    + intros y Hy. apply Hpres. right. exact Hy.
    + exact Hw1_cnt.
    + cbn [length] in *. lia.
    + cbn [mb_name] in Hff', Hst'. fold p in Hff', Hst'.
      assert (Hrc : rc_mem c m (a :: b :: t') = rc_mem c m2 (b :: t')).
      { cbn [rc_mem]. fold da xa. rewrite Hpa. reflexivity. }
      exists w'. split; [| split; [| split]].
      * eapply Hhead_ff. cbn [is_ok res_eqb negb]. rewrite Hpa'. rewrite Hrc. exact Hff'.
      * destruct (Hlift w' (norm_chain c (b :: t')) (or_intror Hoo') Hl' (norm_chain_sim c (b :: t'))) as [a2 [Ha2 Hl2]].
        destruct Ha2 as [Ha2 | Ha2]; subst a2.
        -- (* a = a' as far as the files are concerned: the same entry *)
           cbn [norm_chain map]. fold da da'. fold a'.
           cbn [linked] in Hl2 |- *. destruct Hl2 as [K1 [K2 [K3 K4]]].
           assert (Hnt : ~ rc_touch (b :: t') (Meta xa)).
           { intros [y [Hy Hy2]]. destruct Hy2 as [E | E]; [inversion E; subst y; exact (Hnotin Hy) | discriminate]. }
           subst a'. cbn [set_mdisk mb_name mb_disk mb_id]. fold xa.
           split; [rewrite (Hoo' (Meta xa) Hnt); exact Hw1_meta |]. split; [exact K2 |].
           split; [rewrite Hpa'; cbn [norm_chain map set_mdisk mb_name]; reflexivity | exact K4].
        -- cbn [norm_chain map]. fold da da'. fold a'. exact Hl2.
      * intros n Hn. rewrite Hoo' by (intro H; apply Hn; apply Htouch_t; exact H).
        apply Hw1_oo. intro H. apply Hn. apply Htouch_a. exact H.
      * eapply Hhead_st; [intros x' Hx'; exact Hx' |].
        cbn [is_ok res_eqb negb]. rewrite Hpa'. fold m1. fold m2.
        eapply Forall_impl; [| exact Hst']. intros x' [Hx1 [l' [Hx2 Hx3]]]. split.
        -- intros n Hn. rewrite Hx1 by (intro H; apply Hn; apply Htouch_t; exact H).
           apply Hw1_oo. intro H. apply Hn. apply Htouch_a. exact H.
        -- destruct (Hlift x' l' (or_intror Hx1) Hx2 Hx3) as [a2 [Ha2 Hl2]].
           exists (a2 :: l'). split; [exact Hl2 |].
           constructor; [destruct Ha2; subst a2; [apply member_sim_refl | exact Hsim_a] | exact Hx3].
Qed.

Lemma norm_chain_cons : forall c a t, norm_chain c (a :: t) = set_mdisk a (frev c (mb_disk a)) :: norm_chain c t.
Proof. reflexivity. Qed.

(** the memory the loop builds agrees with the normalised chain *)
Definition chain_parents_ok (l : list member) : Prop :=
  forall l1 a t, l = l1 ++ a :: t -> d_parent (mb_disk a) = first_name t.

Lemma linked_parents : forall f l, linked f l -> chain_parents_ok l.
Proof.
  intros f l. induction l as [| x r IH]; intros Hl l1 a t Heq.
  - destruct l1; discriminate.
  - cbn [linked] in Hl. destruct Hl as [_ [_ [Hp Hr]]]. destruct l1 as [| y l1'].
    + cbn [app] in Heq. inversion Heq; subst. exact Hp.
    + cbn [app] in Heq. inversion Heq; subst. eapply IH; [exact Hr | reflexivity].
Qed.

Lemma rc_mem_spec : forall c l m,
  NoDup (names_of_chain l) -> chain_parents_ok l ->
  (forall y, In y (names_of_chain (List.tl l)) -> m_children m (Some y) = []) ->
  let m' := rc_mem c m l in
  m_info m' = m_info m /\ m_active m' = m_active m /\ m_mode m' = m_mode m /\ m_cache m' = m_cache m
  /\ (forall d, m_disks m' d = match find_mb d (norm_chain c l) with Some mb => Some (mb_disk mb) | None => m_disks m d end)
  /\ (forall y, In y (names_of_chain (List.tl l)) -> m_children m' (Some y) = child_of y (names_of_chain l))
  /\ (forall q, (forall y, q = Some y -> ~ In y (names_of_chain (List.tl l))) -> m_children m' q = m_children m q).
Proof.
  intros c l. induction l as [| a t IH]; intros m Hnd Hpar Hch m'.
  - subst m'. cbn. repeat split; auto.
  - subst m'. cbn [rc_mem]. cbn [names_of_chain map] in Hnd. inversion Hnd as [| ? ? Hnotin Hndt]; subst.
    assert (Hpa : d_parent (mb_disk a) = first_name t) by (apply (Hpar [] a t); reflexivity).
    assert (Hpar_t : chain_parents_ok t).
    { intros l1 b t2 Heq. apply (Hpar (a :: l1) b t2). rewrite Heq. reflexivity. }
    set (m1 := set_disks m (updd (m_disks m) (mb_name a) (Some (frev c (mb_disk a))))).
    rewrite Hpa. destruct t as [| b t'].
    + cbn [first_name]. cbn [List.tl names_of_chain map norm_chain find_mb set_mdisk mb_name mb_disk].
      repeat split; auto.
      intros d. subst m1. cbn [m_disks set_disks]. unfold updd. destruct (dname_eqb (mb_name a) d); reflexivity.
    + cbn [first_name]. set (p := mb_name b).
      set (m2 := set_children m1 (add_child (m_children m1) (Some p) (mb_name a))).
      cbn [names_of_chain map] in Hndt. inversion Hndt as [| ? ? Hpnot Hndt']; subst.
      destruct (IH m2) as [K1 [K2 [K3 [K4 [K5 [K6 K7]]]]]].
      * exact Hndt.
      * exact Hpar_t.
      * intros y Hy. subst m2 m1. cbn [m_children set_children set_disks]. unfold add_child.
        rewrite updc_neq by (intro E; inversion E; subst y; exact (Hpnot Hy)).
        apply Hch. cbn [List.tl names_of_chain map]. right. exact Hy.
      * cbn [List.tl] in *. split; [exact K1 |]. split; [exact K2 |]. split; [exact K3 |]. split; [exact K4 |].
        split; [| split].
        -- intros d. rewrite K5. rewrite (norm_chain_cons c a (b :: t')). cbn [find_mb set_mdisk mb_name mb_disk].
           destruct (dname_eqb (mb_name a) d) eqn:E.
           ++ apply dname_eqb_eq in E. subst d.
              rewrite find_mb_none by (rewrite norm_chain_names; exact Hnotin).
              subst m2 m1. cbn [m_disks set_children set_disks]. apply updd_eq.
           ++ destruct (find_mb d (norm_chain c (b :: t'))); [reflexivity |].
              subst m2 m1. cbn [m_disks set_children set_disks]. unfold updd. rewrite E. reflexivity.
        -- intros y Hy. cbn [names_of_chain map] in Hy |- *. fold p. destruct Hy as [Hy | Hy].
           ++ subst y. cbn [child_of]. rewrite dname_eqb_refl.
              rewrite K7 by (intros y Ey; inversion Ey; subst y; exact Hpnot).
              subst m2 m1. cbn [m_children set_children set_disks]. unfold add_child. rewrite updc_eq.
              rewrite (Hch p) by (left; reflexivity). reflexivity.
           ++ rewrite (K6 y Hy). cbn [child_of]. rewrite dname_eqb_neq by (intro E; subst y; exact (Hpnot Hy)). reflexivity.
        -- intros q Hq. rewrite K7.
           ++ subst m2 m1. cbn [m_children set_children set_disks]. unfold add_child.
              apply updc_neq. intro E. apply (Hq p); [symmetry; exact E | left; reflexivity].
           ++ intros y Ey Hy. apply (Hq y Ey). right. exact Hy.
Qed.

Lemma Forall2_len : forall A B (R : A -> B -> Prop) l l', Forall2 R l l' -> length l = length l'.
Proof. intros A B R l l' H. induction H; cbn; congruence. Qed.

Lemma chain_from_spec : forall disks l fuel,
  (forall l1 a t, l = l1 ++ a :: t -> exists da, disks (mb_name a) = Some da /\ d_parent da = first_name t) ->
  length l <= fuel ->
  chain_from disks fuel (first_name l) = Some (names_of_chain l).
Proof.
  intros disks l. induction l as [| a t IH]; intros fuel Hall Hlen.
  - destruct fuel; reflexivity.
  - destruct fuel as [| fuel]; [cbn in Hlen; lia |].
    cbn [first_name chain_from]. destruct (Hall [] a t eq_refl) as [da [Hda Hpa]]. rewrite Hda, Hpa.
    rewrite IH.
    + reflexivity.
    + intros l1 b t2 Heq. apply (Hall (a :: l1) b t2). rewrite Heq. reflexivity.
    + cbn in Hlen. lia.
Qed.

Lemma open_all_spec : forall l w, (forall y, In y l -> files w (Img y) <> None) ->
  ff (open_all l) w = (w, Done true) /\ Forall (eq w) (states (open_all l) w).
Proof.
  induction l as [| y t IH]; intros w Hex.
  - cbn. split; [reflexivity | constructor; [reflexivity | constructor]].
  - cbn [open_all]. unfold open_file. cbn [bind ff states apply_call].
    destruct (files w (Img y)) as [ci |] eqn:Hi; [| exfalso; apply (Hex y); [left; reflexivity | exact Hi]].
    cbn [is_err bind ff states]. destruct (IH w) as [H1 H2]; [intros z Hz; apply Hex; right; exact Hz |].
    split; [exact H1 |]. constructor; [reflexivity | exact H2].
Qed.

Lemma set_iparent_same : forall i, set_iparent i (i_parent i) = i.
Proof. intros []. reflexivity. Qed.

Lemma init_rev_spec : forall w c, files w Counter = Some (ICounter c) ->
  ff init_revision_counter w = (w, Done (Some c)) /\ Forall (eq w) (states init_revision_counter w).
Proof.
  intros w c Hc. unfold init_revision_counter. cbn [ff states apply_call]. rewrite Hc.
  cbn [is_err ff states apply_call]. rewrite Hc. cbn [is_err ff states apply_call]. rewrite Hc.
  split; [reflexivity |]. repeat constructor.
Qed.

(** opening a well-formed directory: the memory agrees with what recovery says, the only changes
    are RevisionCounter values <= 1 brought up to date and volume.meta rewritten as dirty *)
Lemma construct_spec : forall g w v size now,
  recover g w = Some v -> wf_view v -> ids_fresh w -> cfg_ok g ->
  exists wF mF c,
    files w Counter = Some (ICounter c)
    /\ let iF := set_dirty_rebuilding (cv_info v) true (i_rebuilding (cv_info v)) in
       let vF := mkview iF (norm_chain c (cv_chain v)) in
       ff (construct g size now) w = (wF, Done (Some mF, Ok))
       /\ ctx g wF vF mF
       /\ m_mode mF = INIT /\ m_info mF = cv_info v
       /\ Forall (Good g v vF) (states (construct g size now) w)
       /\ veq v vF
       (* the path taken: the metadata is found *)
       /\ (exists w2 m2, ff (read_metadata g (mkmem (empty_info size) no_disks no_children [] INIT c)) w = (w2, Done (m2, true, Ok))).
Proof.
  intros g w v size now Hrec Hwf Hfr Hcfg.
  destruct (recover_elim g w v Hrec) as [Hvol [h [c [Hhd [Hw Hc]]]]].
  destruct Hwf as [n [id0 [d0 [tl0 [Hchain [Hvh [Hsnaps [Hnd [Hndi Hpar]]]]]]]]].
  rewrite Hvh in Hhd. inversion Hhd; subst h. clear Hhd.
  destruct (walk_linked _ _ _ _ Hw) as [Hlink _]. destruct (walk_length _ _ _ _ Hw) as [Hlen _].
  set (i := cv_info v) in *. set (l := cv_chain v) in *.
  exists (enc_fs
            (fst (ff (read_chain g (read_fuel g) (fun n0 => match files w n0 with Some _ => true | None => false end)
                        (set_info (set_children (set_disks (mkmem (empty_info size) no_disks no_children [] INIT c) no_disks) no_children) i) (Head n)) w))
            Vol (IVol (set_dirty_rebuilding i true (i_rebuilding i)))).
  set (pres := fun n0 => match files w n0 with Some _ => true | None => false end).
  set (m1 := set_info (set_children (set_disks (mkmem (empty_info size) no_disks no_children [] INIT c) no_disks) no_children) i).
  destruct (read_chain_spec g c pres l w m1 (read_fuel g)) as [w2 [Hff2 [Hl2 [Hoo2 Hst2]]]].
  { subst l. rewrite Hchain. discriminate. }
  { exact Hlink. }
  { exact Hnd. }
  { intros y Hy. subst pres. cbn beta.
    assert (Hex : exists dk, files w (Meta y) = Some (IDisk dk)).
    { clear -Hlink Hy. induction l as [| a t IH]; [contradiction |]. cbn [linked] in Hlink. destruct Hlink as [Hm [_ [_ Ht]]].
      cbn in Hy. destruct Hy as [E | Hy]; [subst; eauto | auto]. }
    destruct Hex as [dk Hdk]. rewrite Hdk. reflexivity. }
  { exact Hc. }
  { unfold read_fuel. lia. }
  assert (Hx : match l with a :: _ => mb_name a | [] => Head 0 end = Head n) by (subst l; rewrite Hchain; reflexivity).
  rewrite Hx in Hff2, Hst2. rewrite Hff2. cbn [fst].
  set (m2 := rc_mem c m1 l) in *.
  set (iF := set_dirty_rebuilding i true (i_rebuilding i)).
  set (wF := enc_fs w2 Vol (IVol iF)).
  (* the memory the loop built *)
  destruct (rc_mem_spec c l m1 Hnd (linked_parents _ _ Hlink)) as [K1 [K2 [K3 [K4 [K5 [K6 K7]]]]]].
  { intros y _. reflexivity. }
  fold m2 in K1, K2, K3, K4, K5, K6, K7.
  assert (Hdisks2 : forall d, m_disks m2 d = option_map mb_disk (find_mb d (norm_chain c l))).
  { intros d. rewrite K5. destruct (find_mb d (norm_chain c l)); reflexivity. }
  assert (Hnames_n : names_of_chain (norm_chain c l) = names_of_chain l) by apply norm_chain_names.
  assert (Hhead2 : m_disks m2 (Head n) = Some (frev c d0)).
  { rewrite Hdisks2. subst l. rewrite Hchain. rewrite norm_chain_cons. cbn [find_mb set_mdisk mb_name mb_disk]. rewrite dname_eqb_refl. reflexivity. }
  (* Chain() on that memory *)
  assert (Hmchain : mchain g m2 = Some (names_of_chain l)).
  { unfold mchain. rewrite K1. subst m1. cbn [m_info set_info]. fold i. rewrite Hvh.
    replace (Some (Head n)) with (first_name l) by (subst l; rewrite Hchain; reflexivity).
    apply chain_from_spec; [| unfold chain_fuel; lia].
    intros l1 a t Heq. exists (frev c (mb_disk a)). split.
    - rewrite Hdisks2. rewrite (find_mb_in _ (set_mdisk a (frev c (mb_disk a)))).
      + reflexivity.
      + rewrite Hnames_n. exact Hnd.
      + unfold norm_chain. rewrite Heq, map_app. apply in_or_app. right. left. reflexivity.
    - rewrite frev_parent. apply (linked_parents _ _ Hlink l1 a t Heq). }
  assert (Himgs : forall y, In y (rev (names_of_chain l)) -> files w2 (Img y) <> None).
  { intros y Hy. apply in_rev in Hy.
    assert (Hex : exists id gn, files w (Img y) = Some (IImg id gn)).
    { clear -Hlink Hy. induction l as [| a t IH]; [contradiction |]. cbn [linked] in Hlink. destruct Hlink as [_ [[gn Hi] [_ Ht]]].
      cbn in Hy. destruct Hy as [E | Hy]; [subst; eauto | auto]. }
    destruct Hex as [id [gn Hi]]. rewrite Hoo2; [rewrite Hi; discriminate |].
    intros [z [_ [E | E]]]; discriminate. }
  destruct (open_all_spec (rev (names_of_chain l)) w2 Himgs) as [Hffo Hsto].
  set (m3 := set_active m2 (m_active m2 ++ rev (names_of_chain l))).
  assert (Hffolc : ff (open_live_chain g m2) w2 = (w2, Done (m3, Ok)) /\ Forall (eq w2) (states (open_live_chain g m2) w2)).
  { unfold open_live_chain. rewrite Hmchain.
    assert (Hle : Nat.ltb (maxlen g) (length (names_of_chain l)) = false).
    { apply Nat.ltb_ge. unfold names_of_chain. rewrite map_length. exact Hlen. }
    rewrite Hle. split.
    - rewrite ff_bind, Hffo. reflexivity.
    - apply Forall_states_bind; [exact Hsto |]. intros a Ha. rewrite Hffo in *. cbn [fst snd] in *. inversion Ha; subst a.
      apply Forall_states_ret. reflexivity. }
  destruct Hffolc as [Hffolc Hstolc].
  (* recovery of the intermediate and final directories *)
  assert (Hvol2 : files w2 Vol = Some (IVol i)) by (rewrite Hoo2; [exact Hvol | intros [z [_ [E | E]]]; discriminate]).
  assert (Hc2 : files w2 Counter = Some (ICounter c)) by (rewrite Hoo2; [exact Hc | intros [z [_ [E | E]]]; discriminate]).
  assert (Hrec_of : forall x' l', files x' Vol = Some (IVol i) -> files x' Counter = Some (ICounter c) ->
             linked (files x') l' -> Forall2 member_sim l l' -> recover g x' = Some (mkview i l') /\ veq v (mkview i l')).
  { intros x' l' H1 H2 H3 H4. split.
    - apply recover_intro with (h := Head n) (c := c); [exact H1 | exact Hvh | | exact H2].
      pose proof (linked_walk (files x') l' (maxlen g) H3) as Hwk.
      assert (Hl'ne : l' <> []) by (intro E; subst l'; inversion H4 as [E0 |]; subst l; rewrite Hchain in E0; discriminate).
      assert (Hfirst : match l' with mb :: _ => mb_name mb | [] => Head 0 end = Head n).
      { subst l. rewrite Hchain in H4. inversion H4 as [| ? y ? ? [Hn _] _]; subst. cbn. rewrite <- Hn. reflexivity. }
      rewrite Hfirst in Hwk. apply Hwk; [exact Hl'ne |].
      rewrite <- (Forall2_len _ _ _ _ _ H4). exact Hlen.
    - split; [apply info_sim_refl | exact H4]. }
  destruct (Hrec_of w2 (norm_chain c l) Hvol2 Hc2 Hl2 (norm_chain_sim c l)) as [Hrec2 Hveq2].
  set (vF := mkview iF (norm_chain c l)).
  assert (HrecF : recover g wF = Some vF).
  { subst wF vF. apply (recover_vol_rewrite g w2 (mkview i (norm_chain c l)) iF Hrec2). reflexivity. }
  assert (HveqF : veq v vF).
  { eapply veq_trans; [exact Hveq2 |]. split; [subst iF; repeat split | apply Forall2_refl; apply member_sim_refl]. }
  set (mF := set_info m3 i).
  exists mF, c. split; [exact Hc |]. cbn zeta. fold i l iF vF.
  (* the run *)
  assert (Hffrm : ff (read_metadata g (mkmem (empty_info size) no_disks no_children [] INIT c)) w = (w2, Done (m2, true, Ok))).
  { unfold read_metadata. cbn [ff apply_call m_children]. rewrite Hvol. cbn [negb ff apply_call]. rewrite Hvol.
    fold i. rewrite Hvh.
    change (fun n0 : name => match files w n0 with Some _ => true | None => false end) with pres.
    fold m1. rewrite ff_bind, Hff2. cbn [is_ok res_eqb negb ff]. rewrite Hhead2. reflexivity. }
  assert (Hi3 : m_info m3 = i) by (subst m3; cbn [m_info set_active]; rewrite K1; reflexivity).
  assert (Hpar_eq : set_iparent i (d_parent (frev c d0)) = i).
  { rewrite frev_parent, <- Hpar. apply set_iparent_same. }
  assert (Hffc : ff (construct g size now) w = (wF, Done (Some mF, Ok))).
  { unfold construct. cbn [ff apply_call]. rewrite ff_bind. destruct (init_rev_spec w c Hc) as [Hir _]. rewrite Hir.
    rewrite ff_bind, Hffrm. cbn [is_ok res_eqb negb]. rewrite ff_bind, Hffolc. cbn [is_ok res_eqb negb].
    rewrite Hi3, Hvh. assert (Hd3 : m_disks m3 (Head n) = Some (frev c d0)) by exact Hhead2. rewrite Hd3.
    rewrite Hpar_eq. cbn [m_info set_info]. fold iF.
    rewrite ff_bind, ff_encode by (cbn; auto; left; reflexivity). fold wF. reflexivity. }
  split; [exact Hffc |].
  split.
  { (* the context of the final state *)
    constructor.
    - exact HrecF.
    - exists n, id0, (frev c d0), (norm_chain c tl0). subst vF. cbn [cv_chain cv_info].
      split; [subst l; rewrite Hchain; reflexivity |]. split; [exact Hvh |]. split; [| split; [| split]].
      + unfold norm_chain. apply Forall_forall. intros mb Hmb. apply in_map_iff in Hmb. destruct Hmb as [mb0 [E Hin]].
        subst mb. cbn [set_mdisk mb_name]. eapply Forall_forall in Hsnaps; [exact Hsnaps | exact Hin].
      + rewrite Hnames_n. exact Hnd.
      + rewrite norm_chain_ids. exact Hndi.
      + subst iF. cbn [i_parent set_dirty_rebuilding]. rewrite frev_parent. exact Hpar.
    - (* agreement *)
      unfold agree. subst vF mF. cbn [cv_info cv_chain m_info m_disks m_children m_active set_info].
      split; [subst iF; repeat split |]. split; [| split; [| split]].
      + intros d. subst m3. cbn [m_disks set_active]. apply Hdisks2.
      + intros y Hy. rewrite Hnames_n in Hy. subst m3. cbn [m_children set_active].
        rewrite child_in_names, Hnames_n.
        destruct l as [| a t] eqn:El; [contradiction |].
        cbn [names_of_chain map] in Hy. destruct Hy as [Hy | Hy].
        * (* the head has no child *)
          subst y. rewrite K7.
          -- subst m1. cbn [m_children set_info set_children]. symmetry.
             rewrite <- child_in_names. apply child_in_notin. cbn [List.tl]. cbn [names_of_chain map] in Hnd. inversion Hnd; assumption.
          -- intros y Ey Hin. inversion Ey; subst y. cbn [List.tl names_of_chain map] in Hnd, Hin. inversion Hnd; contradiction.
        * apply K6. exact Hy.
      + intros _ y Hy. rewrite Hnames_n in Hy. subst m3. cbn [m_children set_active]. rewrite K7; [reflexivity |].
        intros z Ez Hz. inversion Ez; subst z. apply Hy. destruct l; [contradiction | right; exact Hz].
      + subst m3. cbn [m_active set_active]. rewrite K2. subst m1. cbn [m_active set_info set_children set_disks app].
        rewrite Hnames_n. reflexivity.
    - pose proof (ff_fresh _ (construct g size now) w Hfr) as Hq. rewrite Hffc in Hq. exact Hq.
    - intros k. subst mF m3. cbn [m_children set_info set_active]. rewrite K7; [reflexivity |].
      intros y Ey Hy. inversion Ey; subst y. subst l. rewrite Hchain in Hy. cbn [List.tl] in Hy. exact (snap_not_head tl0 k Hsnaps Hy). }
  split; [subst mF m3; cbn [m_mode set_info set_active]; rewrite K3; reflexivity |].
  split; [reflexivity |].
  split; [| split; [exact HveqF | exists w2, m2; exact Hffrm]].
  (* every directory on the way recovers to a view equivalent to v *)
  assert (HgoodF : forall x' l', files x' Vol = Some (IVol i) -> files x' Counter = Some (ICounter c) ->
             linked (files x') l' -> Forall2 member_sim l l' -> Good g v vF x').
  { intros x' l' H1 H2 H3 H4. destruct (Hrec_of x' l' H1 H2 H3 H4) as [R1 R2]. exists (mkview i l'). split; [exact R1 | left; apply veq_sym; exact R2]. }
  assert (Hgood_w : Good g v vF w) by (apply Good_pre; exact Hrec).
  assert (Hgood_w2 : Good g v vF w2) by (eapply Good_veq_post; [exact Hrec2 |]; eapply veq_trans; [apply veq_sym; exact Hveq2 | exact HveqF]).
  unfold construct. rewrite states_Do. cbn [apply_call]. constructor; [exact Hgood_w |].
  apply Forall_states_bind.
  { destruct (init_rev_spec w c Hc) as [_ Hs]. eapply Forall_impl; [| exact Hs]. intros x' E. subst x'. exact Hgood_w. }
  intros oc Hoc. destruct (init_rev_spec w c Hc) as [Hir _]. rewrite Hir in *. cbn [fst snd] in *. inversion Hoc; subst oc.
  apply Forall_states_bind.
  { unfold read_metadata. rewrite states_Do. cbn [apply_call m_children]. constructor; [exact Hgood_w |].
    rewrite Hvol. cbn [negb]. rewrite states_Do. cbn [apply_call]. rewrite Hvol. constructor; [exact Hgood_w |].
    fold i. rewrite Hvh.
    change (fun n0 : name => match files w n0 with Some _ => true | None => false end) with pres.
    fold m1. apply Forall_states_bind.
    - eapply Forall_impl; [| exact Hst2]. intros x' [Hx1 [l' [Hx2 Hx3]]]. apply (HgoodF x' l'); try assumption.
      + rewrite Hx1; [exact Hvol | intros [z [_ [E | E]]]; discriminate].
      + rewrite Hx1; [exact Hc | intros [z [_ [E | E]]]; discriminate].
    - intros a Ha. rewrite Hff2 in *. cbn [fst snd] in *. inversion Ha; subst a. cbn [is_ok res_eqb negb].
      apply Forall_states_ret. exact Hgood_w2. }
  intros a Ha. rewrite Hffrm in *. cbn [fst snd] in *. inversion Ha; subst a. cbn [is_ok res_eqb negb].
  apply Forall_states_bind.
  { eapply Forall_impl; [| exact Hstolc]. intros x' E. subst x'. exact Hgood_w2. }
  intros a2 Ha2. rewrite Hffolc in *. cbn [fst snd] in *. inversion Ha2; subst a2. cbn [is_ok res_eqb negb].
  rewrite Hi3, Hvh. assert (Hd3 : m_disks m3 (Head n) = Some (frev c d0)) by exact Hhead2. rewrite Hd3.
  rewrite Hpar_eq. cbn [m_info set_info]. fold iF.
  apply Forall_states_bind.
  - eapply Forall_impl; [| apply (vol_rewrite_states g w2 (mkview i (norm_chain c l)) iF Hrec2); reflexivity].
    intros x' [Hxx | Hxx].
    + eapply Good_veq_post; [exact Hxx |]. eapply veq_trans; [apply veq_sym; exact Hveq2 | exact HveqF].
    + apply Good_post. exact Hxx.
  - intros e He. rewrite ff_encode in * by (cbn; auto; left; reflexivity). cbn [fst snd] in *. inversion He; subst e.
    cbn [is_ok res_eqb]. apply Forall_states_ret. apply Good_post. exact HrecF.
Qed.

(** ** Revert *)

Lemma split_suffix : forall d (l : list member), In d (names_of_chain l) ->
  exists pre suf, l = pre ++ suf /\ first_name suf = Some d.
Proof.
  intros d l. induction l as [| a t IH]; intros Hin; [contradiction |].
  destruct (dname_dec (mb_name a) d) as [E | E].
  - exists [], (a :: t). split; [reflexivity | cbn; rewrite E; reflexivity].
  - cbn in Hin. destruct Hin as [H | Hin]; [contradiction |].
    destruct (IH Hin) as [pre [suf [Heq Hf]]]. exists (a :: pre), suf. split; [rewrite Heq; reflexivity | exact Hf].
Qed.

Lemma linked_suffix : forall f pre suf, linked f (pre ++ suf) -> linked f suf.
Proof. intros f pre. induction pre as [| a t IH]; intros suf H; [exact H |]. apply IH. cbn [app linked] in H. tauto. Qed.

Lemma nodup_map_suffix : forall A B (h : A -> B) (pre suf : list A), NoDup (map h (pre ++ suf)) -> NoDup (map h suf).
Proof. intros A B h pre. induction pre as [| a t IH]; intros suf H; [exact H |]. cbn in H. inversion H; subst. auto. Qed.

Theorem revert_disk_spec : forall g w v m parent cr,
  ctx g w v m -> cfg_ok g ->
  (fix_rev g = true
   \/ (In parent (names_of_chain (cv_chain v)) /\ Some parent <> i_head (cv_info v))
   \/ files w (Img parent) = None) ->
  ospec g w v m (revert_disk g m parent cr).
Proof.
  intros g w v m parent cr Hctx Hcfg Harg.
  destruct (ctx_shape g w v m Hctx) as [n [id0 [d0 [tl0 [c [Hchain [Hvh [Hmh [Hsnaps [Hnd [Hndi [Hvol [Hcnt [Hlink [Hlen [Hd0 Hpar]]]]]]]]]]]]]]]].
  pose proof (cx_rec _ _ _ _ Hctx) as Hrec. pose proof (cx_ag _ _ _ _ Hctx) as Hag. pose proof (cx_fresh _ _ _ _ Hctx) as Hfr.
  pose proof Hag as [Hinfo [Hdisks [Hchild [Hfixch Hact]]]].
  unfold revert_disk.
  (* the repaired code's argument check *)
  destruct (fix_rev g && (match m_disks m parent with Some _ => false | None => true end
                          || odname_eqb (Some parent) (i_head (m_info m)))) eqn:Efx.
  { eapply ospec_refuse; [exact Hctx | | reflexivity]. discriminate. }
  (* stat of the target *)
  assert (Hstat : forall (k : reply -> prog (mem * res)),
            ospec g w v m (k (snd (apply_call w (CStat (Img parent))))) -> ospec g w v m (Do (CStat (Img parent)) k)).
  { intros k [w' [m' [r [vp [Hff [Hc' [Hst Hr]]]]]]]. exists w', m', r, vp.
    assert (Hw : fst (apply_call w (CStat (Img parent))) = w).
    { cbn. destruct (files w (Img parent)) as [[] |]; reflexivity. }
    split; [cbn [ff]; rewrite (surjective_pairing (apply_call w (CStat (Img parent)))), Hw; exact Hff |].
    split; [exact Hc' |]. split; [| exact Hr].
    rewrite states_Do. rewrite (surjective_pairing (apply_call w (CStat (Img parent)))), Hw.
    constructor; [apply Good_pre; exact Hrec | exact Hst]. }
  apply Hstat. clear Hstat.
  destruct (files w (Img parent)) as [ci |] eqn:Hip.
  2:{ cbn [apply_call]. rewrite Hip. cbn [snd is_err]. eapply ospec_refuse; [exact Hctx | | reflexivity]. discriminate. }
  assert (Hin : In parent (names_of_chain (cv_chain v)) /\ parent <> Head n).
  { destruct Harg as [Hfx | [[H1 H2] | H3]]; [| split; [exact H1 | intro E; apply H2; rewrite Hvh, E; reflexivity] | congruence].
    rewrite Hfx in Efx. cbn [andb] in Efx. apply Bool.orb_false_iff in Efx. destruct Efx as [E1 E2].
    split.
    - rewrite Hdisks in E1. destruct (find_mb parent (cv_chain v)) as [mb |] eqn:Hf; [| discriminate].
      destruct (find_mb_some_in _ _ _ Hf) as [Hi Hn]. rewrite <- Hn. apply in_map. exact Hi.
    - intro E. subst parent. rewrite Hmh, odname_eqb_refl in E2. discriminate. }
  destruct Hin as [Hin Hnothead].
  assert (Hin_tl : In parent (names_of_chain tl0)).
  { rewrite Hchain in Hin. cbn in Hin. destruct Hin as [E | H]; [congruence | exact H]. }
  assert (Hstat_ok : is_err (snd (apply_call w (CStat (Img parent)))) = false).
  { cbn [apply_call]. rewrite Hip. destruct ci; reflexivity. }
  rewrite Hstat_ok. rewrite Hmh.
  (* createNewHead *)
  set (nh := Head (S n)).
  assert (Hnh : ~ In nh (names_of_chain (cv_chain v))).
  { rewrite Hchain. cbn. intros [H | H]; [inversion H; lia | exact (snap_not_head tl0 (S n) Hsnaps H)]. }
  set (S1 := fun x => In x [Img nh; Meta nh; MetaTmp nh]).
  assert (Hdis1 : forall x, S1 x -> ~ footprint (cv_chain v) x).
  { intros x Hx Hf. subst S1. cbn in Hx. destruct Hx as [Hx | [Hx | [Hx | []]]]; subst x.
    - apply footprint_img in Hf. exact (Hnh Hf).
    - apply footprint_meta in Hf. exact (Hnh Hf).
    - exact (footprint_tmp _ _ Hf). }
  assert (Hcnh_within : within S1 (create_new_head g m (Some (Head n)) (Some parent) cr)).
  { apply withinQ_within with (Q := cnh_post nh). apply wq_create_new_head; subst S1; cbn; auto. }
  destruct (cnh_ff g m n (Some parent) cr w c Hcnt) as [Hff1 | [w1 [Hff1 [K1 [K2 [K3 [K4 K5]]]]]]].
  { (* a stale head file with data: error *)
    exists w, m, Failed, v. split; [| split; [| split]].
    - rewrite ff_bind, Hff1. reflexivity.
    - exact Hctx.
    - apply Forall_states_bind; [eapply within_good; [exact Hcnh_within | exact Hrec | exact Hdis1] |].
      intros a Ha. rewrite Hff1 in *. cbn [fst snd] in *. inversion Ha; subst a. cbn [is_ok res_eqb negb]. apply states_ret_good. exact Hrec.
    - auto. }
  fold nh in Hff1, K1, K2, K3, K4.
  set (nd := mkdisk (Some parent) false false cr c) in *.
  assert (Hoo1 : only_on S1 w w1).
  { intros x Hx. apply K4; intro; subst x; apply Hx; subst S1; cbn; auto. }
  assert (Hrec1 : recover g w1 = Some v) by (eapply recover_only_on; eauto).
  (* the commit: volume.meta names the new head *)
  set (info' := mkinfo (i_size (m_info m)) (Some nh) true (i_rebuilding (m_info m)) (d_parent nd) (i_checkpoint (m_info m)) (i_rev (m_info m))).
  set (w2 := enc_fs w1 Vol (IVol info')).
  destruct (split_suffix parent tl0 Hin_tl) as [pre [suf [Htl Hsuf]]].
  set (chain2 := mkmember nh (nextid w) nd :: suf).
  assert (Hlink_suf : linked (files w) suf).
  { rewrite Hchain, Htl in Hlink. apply (linked_suffix (files w) (mkmember (Head n) id0 d0 :: pre) suf). exact Hlink. }
  assert (Hsuf_names : forall y, In y (names_of_chain suf) -> In y (names_of_chain tl0)).
  { intros y Hy. rewrite Htl. unfold names_of_chain. rewrite map_app. apply in_or_app. right. exact Hy. }
  assert (Hlink2 : linked (files w2) chain2).
  { subst chain2. cbn [linked mb_name mb_disk mb_id]. subst w2. rewrite !enc_fs_other by (cbn; discriminate).
    split; [exact K2 |]. split; [eauto |]. split; [subst nd; cbn [d_parent]; symmetry; exact Hsuf |].
    eapply linked_frame; [exact Hlink_suf |]. intros y Hy.
    assert (Hy_tl := Hsuf_names y Hy).
    assert (y <> nh) by (intro; subst y; exact (snap_not_head tl0 (S n) Hsnaps Hy_tl)).
    split; (rewrite enc_fs_other by (cbn; discriminate)); apply K4; congruence. }
  assert (Hlen2 : length chain2 <= maxlen g).
  { subst chain2. cbn [length]. rewrite Hchain, Htl in Hlen. cbn [length] in Hlen. rewrite app_length in Hlen. lia. }
  set (v2 := mkview info' chain2).
  assert (Hc1 : files w1 Counter = Some (ICounter c)) by (rewrite K4 by discriminate; exact Hcnt).
  assert (Hrec2 : recover g w2 = Some v2).
  { subst v2. apply recover_intro with (h := nh) (c := c).
    - subst w2. apply enc_fs_self. left. reflexivity.
    - reflexivity.
    - apply (linked_walk (files w2) chain2 (maxlen g) Hlink2); [subst chain2; discriminate | exact Hlen2].
    - subst w2. rewrite enc_fs_other; [exact Hc1 | discriminate | cbn; discriminate]. }
  assert (Hwf2 : wf_view v2).
  { exists (S n), (nextid w), nd, suf. subst v2 chain2. cbn [cv_chain cv_info].
    split; [reflexivity |]. split; [reflexivity |]. split; [| split; [| split]].
    - apply Forall_forall. intros mb Hmb. eapply Forall_forall in Hsnaps; [exact Hsnaps |]. rewrite Htl. apply in_or_app. right. exact Hmb.
    - cbn [names_of_chain map mb_name]. constructor.
      + intro H. apply (snap_not_head tl0 (S n) Hsnaps). apply Hsuf_names. exact H.
      + rewrite Hchain, Htl in Hnd. cbn [names_of_chain map] in Hnd. inversion Hnd as [| ? ? _ Hnd1]; subst.
        apply (nodup_map_suffix _ _ mb_name pre suf Hnd1).
    - cbn [map mb_id]. constructor.
      + intro H. apply in_map_iff in H. destruct H as [mb [E Hmb]].
        assert (Hmbin : In mb (cv_chain v)) by (rewrite Hchain, Htl; right; apply in_or_app; right; exact Hmb).
        pose proof (ids_lt_fresh g w v Hrec Hfr mb Hmbin). lia.
      + rewrite Hchain, Htl in Hndi. cbn [map] in Hndi. inversion Hndi as [| ? ? _ Hndi1]; subst.
        apply (nodup_map_suffix _ _ mb_id pre suf Hndi1).
    - reflexivity. }
  (* the old head is removed *)
  assert (Hoh2 : ~ In (Head n) (names_of_chain (cv_chain v2))).
  { subst v2 chain2. cbn [cv_chain names_of_chain map mb_name]. intros [E | H]; [inversion E; lia |].
    apply (snap_not_head tl0 n Hsnaps). apply Hsuf_names. exact H. }
  assert (Hdis2 : forall x, In x [Img (Head n); Meta (Head n)] -> ~ footprint (cv_chain v2) x).
  { intros x Hx Hf. cbn in Hx. destruct Hx as [Hx | [Hx | []]]; subst x.
    - apply footprint_img in Hf. exact (Hoh2 Hf).
    - apply footprint_meta in Hf. exact (Hoh2 Hf). }
  destruct (rm_disk_ff w2 (Head n)) as [w3 [Hff3 [H3a [H3b [H3c H3d]]]]].
  assert (Hrm_within : within (fun x => In x [Img (Head n); Meta (Head n)]) (rm_disk (Some (Head n)))).
  { apply withinQ_within with (Q := fun _ => True). apply wq_rm_disk; [| auto]. intros y Hy. inversion Hy; subst. cbn. auto. }
  assert (Hrec3 : recover g w3 = Some v2).
  { pose proof (within_ff _ _ _ w2 Hrm_within) as Hoo. rewrite Hff3 in Hoo. cbn [fst] in Hoo. eapply recover_only_on; eauto. }
  assert (Hfr3 : ids_fresh w3).
  { assert (Hfr1 : ids_fresh w1) by (pose proof (ff_fresh _ (create_new_head g m (Some (Head n)) (Some parent) cr) w Hfr) as H; rewrite Hff1 in H; exact H).
    assert (Hfr2 : ids_fresh w2) by (pose proof (ff_fresh _ (encode_to_file g (IVol info') Vol) w1 Hfr1) as H; rewrite ff_encode in H by (cbn; auto; left; reflexivity); exact H).
    pose proof (ff_fresh _ (rm_disk (Some (Head n))) w2 Hfr2) as H. rewrite Hff3 in H. exact H. }
  (* Reload *)
  destruct (construct_spec g w3 v2 (i_size (m_info m)) 0 Hrec3 Hwf2 Hfr3 Hcfg) as [wF [mF [c' [HcF HF]]]].
  cbn zeta in HF. destruct HF as [HffF [HctxF [HmodeF [HinfoF [HstF [HveqF _]]]]]].
  set (iF := set_dirty_rebuilding (cv_info v2) true (i_rebuilding (cv_info v2))) in *.
  set (vF := mkview iF (norm_chain c' (cv_chain v2))) in *.
  set (mR := set_info (set_mode mF (m_mode m)) (set_dirty_rebuilding (m_info mF) (i_dirty (m_info m)) (i_rebuilding (m_info mF)))).
  exists wF, mR, Ok, vF. split; [| split; [| split]].
  - rewrite ff_bind, Hff1. cbn [is_ok res_eqb negb]. fold nd. fold info'.
    rewrite ff_bind, ff_encode by (cbn; auto; left; reflexivity). fold w2. cbn [is_ok res_eqb negb].
    rewrite ff_bind, Hff3. cbn [is_ok res_eqb negb]. rewrite ff_bind, HffF. cbn [is_ok res_eqb]. reflexivity.
  - destruct HctxF as [R1 R2 R3 R4 R5]. constructor; assumption.
  - apply Forall_states_bind; [eapply within_good; [exact Hcnh_within | exact Hrec | exact Hdis1] |].
    intros a Ha. rewrite Hff1 in *. cbn [fst snd] in *. inversion Ha; subst a. cbn [is_ok res_eqb negb]. fold nd. fold info'.
    apply Forall_states_bind.
    + apply encode_states; [left; reflexivity | exact I | |].
      * intros x Hx _. apply Good_pre. eapply recover_only_on; [exact Hrec1 | exact Hx |].
        intros y Hy Hf. cbn in Hy. subst y. exact (footprint_voltmp _ Hf).
      * fold w2. eapply Good_veq_post; [exact Hrec2 | exact HveqF].
    + intros e He. rewrite ff_encode in * by (cbn; auto; left; reflexivity). cbn [fst snd] in *. inversion He; subst e.
      cbn [is_ok res_eqb negb]. fold w2. apply Forall_states_bind.
      * eapply Forall_impl; [| apply (within_states _ _ _ w2 Hrm_within)].
        intros x Hx. eapply Good_veq_post; [| exact HveqF]. eapply recover_only_on; [exact Hrec2 | exact Hx | exact Hdis2].
      * intros e3 He3. rewrite Hff3 in *. cbn [fst snd] in *. inversion He3; subst e3. cbn [is_ok res_eqb negb].
        apply Forall_states_bind.
        -- eapply Forall_impl; [| exact HstF]. intros x [vx [Hx1 Hx2]]. exists vx. split; [exact Hx1 |].
           right. destruct Hx2 as [Hx2 | Hx2]; [eapply veq_trans; [exact Hx2 | exact HveqF] | exact Hx2].
        -- intros a4 Ha4. rewrite HffF in *. cbn [fst snd] in *. inversion Ha4; subst a4. cbn [is_ok res_eqb].
           apply Forall_states_ret. apply Good_post. apply HctxF.
  - intros H. congruence.
Qed.

(** ** the remaining operations on an open replica *)

Lemma op_spec_ospec : forall g w v m p, ctx g w v m -> op_spec g w v m p -> ospec g w v m p.
Proof.
  intros g w v m p Hctx [w' [m' [r [vp [Hff [Hrec [Hwf [Hag [Hst [Hr Hch]]]]]]]]]].
  exists w', m', r, vp. split; [exact Hff |]. split; [| split; [exact Hst | exact Hr]].
  constructor; try assumption.
  - pose proof (ff_fresh _ p w (cx_fresh _ _ _ _ Hctx)) as H. rewrite Hff in H. exact H.
  - intros k. rewrite Hch. apply (cx_heads _ _ _ _ Hctx).
Qed.

Lemma truncate_all_spec : forall l sz w,
  exists b, ff (truncate_all l sz) w = (w, Done b) /\ Forall (eq w) (states (truncate_all l sz) w).
Proof.
  induction l as [| y t IH]; intros sz w.
  - exists true. cbn. split; [reflexivity | repeat constructor].
  - cbn [truncate_all ff states apply_call]. destruct (files w (Img y)) as [ci |].
    + cbn [is_err]. destruct (IH sz w) as [b [H1 H2]]. exists b. split; [exact H1 | constructor; [reflexivity | exact H2]].
    + cbn [is_err ff states]. exists false. split; [reflexivity | repeat constructor].
Qed.

Lemma mchain_of_ctx : forall g w v m, ctx g w v m -> mchain g m = Some (names_of_chain (cv_chain v)).
Proof.
  intros g w v m Hctx.
  destruct (ctx_shape g w v m Hctx) as [n [id0 [d0 [tl0 [c [Hchain [Hvh [Hmh [Hsnaps [Hnd [Hndi [Hvol [Hcnt [Hlink [Hlen [Hd0 Hpar]]]]]]]]]]]]]]]].
  destruct (cx_ag _ _ _ _ Hctx) as [_ [Hdisks _]].
  unfold mchain. rewrite Hmh. replace (Some (Head n)) with (first_name (cv_chain v)) by (rewrite Hchain; reflexivity).
  apply chain_from_spec; [| unfold chain_fuel; lia].
  intros l1 a t Heq. exists (mb_disk a). split.
  - rewrite Hdisks. rewrite (find_mb_in _ a); [reflexivity | exact Hnd | rewrite Heq; apply in_or_app; right; left; reflexivity].
  - apply (linked_parents _ _ Hlink l1 a t Heq).
Qed.

Theorem resize_spec : forall g w v m sz, ctx g w v m -> ospec g w v m (resize g m sz).
Proof.
  intros g w v m sz Hctx. pose proof (cx_rec _ _ _ _ Hctx) as Hrec. pose proof (cx_ag _ _ _ _ Hctx) as Hag.
  destruct (agree_head g v m Hag) as [Hh Hp].
  unfold resize. rewrite (mchain_of_ctx g w v m Hctx).
  destruct (N.ltb sz (i_size (m_info m))); [eapply ospec_refuse; [exact Hctx | | reflexivity]; discriminate |].
  destruct (truncate_all_spec (names_of_chain (cv_chain v)) sz w) as [b [Hfft Hstt]].
  destruct b.
  - (* all chain files truncated (no change of the directory): volume.meta gets the new size *)
    set (i' := set_size (m_info m) sz).
    assert (Hh' : i_head i' = i_head (cv_info v)) by (subst i'; cbn; exact Hh).
    destruct (vol_only_op g w v i' _ (fun e => Ret (set_info m i', e)) Hrec Hh') as [HF [Hfin [a [Ha Hout]]]];
      [intros e; eexists; reflexivity |].
    inversion Ha; subst a. clear Ha.
    apply op_spec_ospec; [exact Hctx |].
    exists (enc_fs w Vol (IVol i')), (set_info m i'), Ok, (mkview i' (cv_chain v)).
    split; [| split; [| split; [| split; [| split]]]].
    + rewrite ff_bind, Hfft. cbn [negb m_info set_info]. fold i'.
      rewrite (surjective_pairing (ff _ w)). rewrite Hfin, Hout. reflexivity.
    + apply recover_vol_rewrite; assumption.
    + apply wf_view_info; [apply Hctx | assumption | subst i'; cbn; exact Hp].
    + apply agree_info. assumption.
    + apply Forall_states_bind.
      * eapply Forall_impl; [| exact Hstt]. intros x E. subst x. apply Good_pre. exact Hrec.
      * intros a Ha. rewrite Hfft in *. cbn [fst snd] in *. inversion Ha; subst a. cbn [negb m_info set_info]. fold i'. exact HF.
    + split; [intros Hne; congruence | reflexivity].
  - (* a chain file is missing (cannot happen here, but the code has the exit) *)
    exists w, m, Failed, v. split; [| split; [| split]].
    + rewrite ff_bind, Hfft. reflexivity.
    + exact Hctx.
    + apply Forall_states_bind.
      * eapply Forall_impl; [| exact Hstt]. intros x E. subst x. apply Good_pre. exact Hrec.
      * intros a Ha. rewrite Hfft in *. cbn [fst snd] in *. inversion Ha; subst a. cbn [negb]. apply states_ret_good. exact Hrec.
    + auto.
Qed.

(** a data write changes the head image's write count and the revision counter: recovery does
    not look at either *)
Lemma walk_frame_id : forall f f' fuel d l,
  walk f fuel d = Some l ->
  (forall x, In x (names_of_chain l) -> f' (Meta x) = f (Meta x)
             /\ (f' (Img x) = f (Img x) \/ exists id g1 g2, f (Img x) = Some (IImg id g1) /\ f' (Img x) = Some (IImg id g2))) ->
  walk f' fuel d = Some l.
Proof.
  induction fuel as [| fuel IH]; intros d l Hw Hsame; [discriminate |].
  rewrite walk_unfold in *.
  destruct (f (Meta d)) as [[| dk | | |] |] eqn:Hm; try discriminate.
  destruct (f (Img d)) as [[| | id gn | |] |] eqn:Hi; try discriminate.
  assert (Hdin : forall l', l = mkmember d id dk :: l' -> f' (Meta d) = Some (IDisk dk) /\ exists g2, f' (Img d) = Some (IImg id g2)).
  { intros l' El. destruct (Hsame d) as [H1 H2]; [rewrite El; left; reflexivity |]. split; [rewrite H1; exact Hm |].
    destruct H2 as [H2 | [id' [g1 [g2 [H2 H3]]]]]; [rewrite H2, Hi; eauto | rewrite Hi in H2; inversion H2; subst; eauto]. }
  destruct (d_parent dk) as [p |] eqn:Hp.
  - destruct (walk f fuel p) as [l' |] eqn:Hw'; [| discriminate].
    inversion Hw; subst l. destruct (Hdin l' eq_refl) as [K1 [g2 K2]]. rewrite K1, K2, Hp.
    rewrite (IH p l' Hw'); [reflexivity |]. intros x Hx. apply Hsame. right. exact Hx.
  - inversion Hw; subst l. destruct (Hdin [] eq_refl) as [K1 [g2 K2]]. rewrite K1, K2, Hp. reflexivity.
Qed.

Theorem write_at_spec : forall g w v m, ctx g w v m -> ospec g w v m (write_at m).
Proof.
  intros g w v m Hctx.
  destruct (ctx_shape g w v m Hctx) as [n [id0 [d0 [tl0 [c [Hchain [Hvh [Hmh [Hsnaps [Hnd [Hndi [Hvol [Hcnt [Hlink [Hlen [Hd0 Hpar]]]]]]]]]]]]]]]].
  pose proof (cx_rec _ _ _ _ Hctx) as Hrec.
  destruct (recover_elim g w v Hrec) as [_ [h [c0 [Hhd [Hw _]]]]]. rewrite Hvh in Hhd. inversion Hhd; subst h.
  destruct (m_mode m) eqn:Hmode.
  1: { unfold write_at. rewrite Hmode. eapply ospec_refuse; [exact Hctx | | reflexivity]. discriminate. }
  3: { unfold write_at. rewrite Hmode. eapply ospec_refuse; [exact Hctx | | reflexivity]. discriminate. }
  all: unfold write_at; rewrite Hmode; cbn [m_info set_info i_head set_dirty_rebuilding]; rewrite Hmh.
  all: rewrite Hchain in Hlink; cbn [linked mb_name mb_id] in Hlink; destruct Hlink as [Hmh0 [[gn Hih] _]].
  all: set (m1 := set_info m (set_dirty_rebuilding (m_info m) true (i_rebuilding (m_info m)))).
  all: set (w1 := set_file w (Img (Head n)) (Some (IImg id0 (N.succ gn)))).
  all: assert (Hrec_of : forall x', files x' Vol = files w Vol -> (exists cx, files x' Counter = Some (ICounter cx)) ->
             (forall y, files x' (Meta y) = files w (Meta y)) ->
             (forall y, y <> Head n -> files x' (Img y) = files w (Img y)) ->
             (files x' (Img (Head n)) = files w (Img (Head n)) \/ exists g2, files x' (Img (Head n)) = Some (IImg id0 g2)) ->
             recover g x' = Some v).
  all: try (intros x' H1 [cx H2] H3 H4 H5; replace v with (mkview (cv_info v) (cv_chain v)) by (destruct v; reflexivity);
            apply recover_intro with (h := Head n) (c := cx); [rewrite H1; exact Hvol | exact Hvh | | exact H2];
            eapply walk_frame_id; [exact Hw |]; intros y Hy; split; [apply H3 |];
            destruct (dname_dec y (Head n)) as [E | E]; [subst y; destruct H5 as [H5 | [g2 H5]]; [left; exact H5 | right; exists id0, gn, g2; auto] | left; apply H4; exact E]).
  all: assert (Hag1 : agree g v m1) by (subst m1; destruct (cx_ag _ _ _ _ Hctx) as [A1 [A2 [A3 [A4 A5]]]]; unfold agree; cbn [m_info m_disks m_children m_active set_info]; repeat split; try assumption; apply A1).
  - (* RW: the data write, then the revision counter *)
    set (w2 := set_file w1 Counter (Some (ICounter (m_cache m1 + 1)))).
    assert (Hr1 : recover g w1 = Some v).
    { apply Hrec_of; subst w1.
      - rewrite set_file_neq by discriminate. reflexivity.
      - exists c. rewrite set_file_neq by discriminate. exact Hcnt.
      - intros y. rewrite set_file_neq by discriminate. reflexivity.
      - intros y Hy. rewrite set_file_neq by congruence. reflexivity.
      - right. eexists. apply set_file_eq. }
    assert (Hr2 : recover g w2 = Some v).
    { apply Hrec_of; subst w2 w1.
      - rewrite !set_file_neq by discriminate. reflexivity.
      - eexists. apply set_file_eq.
      - intros y. rewrite !set_file_neq by discriminate. reflexivity.
      - intros y Hy. rewrite set_file_neq by discriminate. rewrite set_file_neq by congruence. reflexivity.
      - right. eexists. rewrite set_file_neq by discriminate. apply set_file_eq. }
    exists w2, (set_cache m1 (m_cache m1 + 1)%Z), Ok, v. split; [| split; [| split]].
    + cbn [ff apply_call]. rewrite Hih. cbn [is_err ff apply_call]. fold w1.
      change (m_mode m1) with (m_mode m). rewrite Hmode. cbn [ff apply_call].
      replace (files w1 Counter) with (Some (ICounter c)) by (subst w1; rewrite set_file_neq by discriminate; symmetry; exact Hcnt).
      cbn [is_err ff]. reflexivity.
    + constructor; [exact Hr2 | apply Hctx | exact Hag1 | | apply Hctx].
      subst w2. apply ids_fresh_set; [| intros id' gn' E; discriminate].
      subst w1. apply ids_fresh_set; [apply Hctx |]. intros id' gn' E. inversion E; subst. eauto.
    + cbn [states apply_call]. rewrite Hih. cbn [is_err states apply_call]. fold w1.
      change (m_mode m1) with (m_mode m). rewrite Hmode. cbn [states apply_call].
      replace (files w1 Counter) with (Some (ICounter c)) by (subst w1; rewrite set_file_neq by discriminate; symmetry; exact Hcnt).
      cbn [is_err states]. repeat constructor; apply Good_pre; assumption.
    + intros H. congruence.
  - (* WO: the data write only *)
    assert (Hr1 : recover g w1 = Some v).
    { apply Hrec_of; subst w1.
      - rewrite set_file_neq by discriminate. reflexivity.
      - exists c. rewrite set_file_neq by discriminate. exact Hcnt.
      - intros y. rewrite set_file_neq by discriminate. reflexivity.
      - intros y Hy. rewrite set_file_neq by congruence. reflexivity.
      - right. eexists. apply set_file_eq. }
    exists w1, m1, Ok, v. split; [| split; [| split]].
    + cbn [ff apply_call]. rewrite Hih. cbn [is_err ff]. change (m_mode m1) with (m_mode m). rewrite Hmode. reflexivity.
    + constructor; [exact Hr1 | apply Hctx | exact Hag1 | | apply Hctx].
      subst w1. apply ids_fresh_set; [apply Hctx |]. intros id' gn' E. inversion E; subst. eauto.
    + cbn [states apply_call]. rewrite Hih. cbn [is_err states]. change (m_mode m1) with (m_mode m). rewrite Hmode.
      repeat constructor; apply Good_pre; assumption.
    + intros H. congruence.
Qed.

(** ** PrepareRemoveDisk (mark as removed) *)

Definition ospec3 (g : cfg) (w : fs) (v : chainview) (m : mem) (p : prog (mem * res * nat)) : Prop :=
  exists w' m' r k vpost,
    ff p w = (w', Done (m', r, k))
    /\ ctx g w' vpost m'
    /\ Forall (Good g v vpost) (states p w)
    /\ (r <> Ok -> vpost = v /\ m' = m).

Lemma ospec3_refuse : forall g w v m p r k,
  ctx g w v m -> p = Ret (m, r, k) -> ospec3 g w v m p.
Proof.
  intros g w v m p r k Hc Hp. subst p. exists w, m, r, k, v. split; [reflexivity |]. split; [exact Hc |].
  split; [apply Forall_states_ret; apply Good_pre; apply Hc | auto].
Qed.

Lemma upd_member_agree : forall g v m d data',
  agree g v m -> NoDup (names_of_chain (cv_chain v)) ->
  In d (names_of_chain (cv_chain v)) ->
  agree g (mkview (cv_info v) (upd_member d data' (cv_chain v))) (set_disks m (updd (m_disks m) d (Some data'))).
Proof.
  intros g v m d data' [A1 [A2 [A3 [A4 A5]]]] Hnd Hin. unfold agree.
  cbn [cv_info cv_chain m_info m_disks m_children m_active set_disks].
  split; [exact A1 |]. split; [| split; [| split]].
  - intros x. rewrite find_mb_upd. unfold updd. destruct (dname_eqb d x) eqn:E.
    + apply dname_eqb_eq in E. subst x. destruct (find_mb_some d (cv_chain v) Hin) as [mb Hmb]. rewrite Hmb. reflexivity.
    + apply A2.
  - intros x Hx. rewrite upd_member_names in Hx. rewrite child_in_names, upd_member_names, <- child_in_names. apply A3. exact Hx.
  - intros Hfx x Hx. rewrite upd_member_names in Hx. apply A4; assumption.
  - rewrite upd_member_names. exact A5.
Qed.

Theorem prepare_remove_disk_spec : forall g w v m arg,
  ctx g w v m -> ospec3 g w v m (prepare_remove_disk g m arg).
Proof.
  intros g w v m arg Hctx.
  destruct (ctx_shape g w v m Hctx) as [n [id0 [d0 [tl0 [c [Hchain [Hvh [Hmh [Hsnaps [Hnd [Hndi [Hvol [Hcnt [Hlink [Hlen [Hd0 Hpar]]]]]]]]]]]]]]]].
  pose proof (cx_rec _ _ _ _ Hctx) as Hrec. pose proof (cx_ag _ _ _ _ Hctx) as Hag.
  pose proof Hag as [Hinfo [Hdisks [Hchild [Hfixch Hact]]]].
  unfold prepare_remove_disk.
  destruct (negb (mode_eqb (m_mode m) RW)); [eapply ospec3_refuse; [exact Hctx | reflexivity] |].
  set (found := match m_disks m arg with
                | Some x => Some (arg, x)
                | None => match gen_snap_name arg with
                          | Some d2 => match m_disks m d2 with Some x => Some (d2, x) | None => None end
                          | None => None end end).
  assert (Hfound : forall d data, found = Some (d, data) -> m_disks m d = Some data).
  { intros d data Hf. subst found. destruct (m_disks m arg) eqn:E1; [inversion Hf; subst; exact E1 |].
    destruct (gen_snap_name arg) as [d2 |]; [| discriminate]. destruct (m_disks m d2) eqn:E2; [inversion Hf; subst; exact E2 | discriminate]. }
  destruct found as [[d data] |] eqn:Ef; [| eapply ospec3_refuse; [exact Hctx | reflexivity]].
  specialize (Hfound d data eq_refl).
  destruct (odname_eqb (Some d) (i_head (m_info m))) eqn:Eh; [eapply ospec3_refuse; [exact Hctx | reflexivity] |].
  destruct (odname_eqb (i_parent (m_info m)) (Some d)); [eapply ospec3_refuse; [exact Hctx | reflexivity] |].
  destruct (d_parent data) as [par |] eqn:Hpd; [| eapply ospec3_refuse; [exact Hctx | reflexivity]].
  (* d is a chain member with a parent *)
  assert (Hmb : exists mb, find_mb d (cv_chain v) = Some mb /\ mb_disk mb = data).
  { rewrite Hdisks in Hfound. destruct (find_mb d (cv_chain v)) as [mb |]; [| discriminate]. inversion Hfound. eauto. }
  destruct Hmb as [mb [Hfmb Hmbd]]. destruct (find_mb_some_in _ _ _ Hfmb) as [Hmbin Hmbn].
  assert (Hin : In d (names_of_chain (cv_chain v))) by (rewrite <- Hmbn; apply in_map; exact Hmbin).
  destruct (in_split mb (cv_chain v) Hmbin) as [l1 [l2 Hsplit]].
  assert (Hlk : linked (files w) (mb :: l2)) by (rewrite Hsplit in Hlink; apply (linked_suffix _ l1); exact Hlink).
  cbn [linked] in Hlk. destruct Hlk as [Hmeta [[gn Himg] [Hparl _]]]. rewrite Hmbn, Hmbd in *.
  assert (Hpar_in : In par (names_of_chain (cv_chain v))).
  { rewrite Hpd in Hparl. destruct l2 as [| pmb l2']; [discriminate |]. inversion Hparl; subst par.
    rewrite Hsplit. unfold names_of_chain. rewrite map_app. apply in_or_app. right. right. left. reflexivity. }
  set (data' := mkdisk (Some par) true (d_user data) (d_created data) (d_rev data)).
  set (m1 := set_disks m (updd (m_disks m) d (Some data'))).
  set (w1 := enc_fs w (Meta d) (IDisk data')).
  set (post := upd_member d data' (cv_chain v)).
  assert (Hlink1 : linked (files w1) post).
  { subst post. eapply (linked_upd_same_parent (files w) (files w1) d data data' (cv_chain v) Hlink Hnd Hmeta); [symmetry; exact Hpd | | |].
    - subst w1. apply enc_fs_self. right. eexists. reflexivity.
    - intros y. subst w1. apply enc_fs_other; cbn; discriminate.
    - intros y Hy. subst w1. apply enc_fs_other; cbn; [intro E; inversion E; apply Hy; assumption | discriminate]. }
  assert (Hrec1 : recover g w1 = Some (mkview (cv_info v) post)).
  { apply recover_intro with (h := Head n) (c := c).
    - subst w1. rewrite enc_fs_other by (cbn; discriminate). exact Hvol.
    - exact Hvh.
    - pose proof (linked_walk (files w1) post (maxlen g) Hlink1) as Hwk.
      assert (Hf : match post with mb0 :: _ => mb_name mb0 | [] => Head 0 end = Head n).
      { subst post. rewrite Hchain. cbn [upd_member]. destruct (dname_eqb (mb_name (mkmember (Head n) id0 d0)) d); reflexivity. }
      rewrite Hf in Hwk. apply Hwk; [subst post; rewrite Hchain; discriminate | subst post; rewrite upd_member_length; exact Hlen].
    - subst w1. rewrite enc_fs_other by (cbn; discriminate). exact Hcnt. }
  assert (Hm1par : exists pd, m_disks m1 par = Some pd).
  { subst m1. cbn [m_disks set_disks]. unfold updd. destruct (dname_eqb d par); [eauto |].
    rewrite Hdisks. destruct (find_mb_some par (cv_chain v) Hpar_in) as [pmb Hp]. rewrite Hp. cbn. eauto. }
  destruct Hm1par as [pd Hm1par].
  exists w1, m1, Ok, 2, (mkview (cv_info v) post).
  cbn [ff states apply_call]. rewrite Himg.
  cbn [is_err ff states apply_call]. rewrite Hmeta. cbn [is_err ff states]. fold data'. fold m1.
  split; [| split; [| split]].
  - rewrite ff_bind, ff_encode by (cbn; auto; right; eexists; reflexivity). fold w1. cbn [is_ok res_eqb negb]. rewrite Hm1par. reflexivity.
  - constructor.
    + exact Hrec1.
    + destruct (cx_wf _ _ _ _ Hctx) as [n' [id0' [d0' [tl0' [W1 [W2 [W3 [W4 [W5 W6]]]]]]]]].
      rewrite Hchain in W1. inversion W1; subst n' id0' d0' tl0'.
      assert (Hdh : d <> Head n).
      { intro E. rewrite E, Hmh, odname_eqb_refl in Eh. discriminate. }
      exists n, id0, d0, (upd_member d data' tl0). subst post. cbn [cv_chain cv_info]. rewrite Hchain. cbn [upd_member mb_name].
      rewrite dname_eqb_neq by (apply not_eq_sym; exact Hdh).
      split; [reflexivity |]. split; [exact Hvh |]. split; [| split; [| split]].
      * apply Forall_forall. intros x Hx.
        assert (Hxn : In (mb_name x) (names_of_chain (upd_member d data' tl0))) by (apply in_map; exact Hx).
        rewrite upd_member_names in Hxn. unfold names_of_chain in Hxn. apply in_map_iff in Hxn. destruct Hxn as [x0 [E0 Hx0]].
        eapply Forall_forall in Hsnaps; [| exact Hx0]. rewrite <- E0. exact Hsnaps.
      * cbn [names_of_chain map mb_name]. fold (names_of_chain (upd_member d data' tl0)). rewrite upd_member_names.
        rewrite Hchain in Hnd. exact Hnd.
      * cbn [map mb_id]. rewrite upd_member_ids. rewrite Hchain in Hndi. exact Hndi.
      * exact Hpar.
    + apply upd_member_agree; assumption.
    + pose proof (ff_fresh _ (encode_to_file g (IDisk data') (Meta d)) w (cx_fresh _ _ _ _ Hctx)) as Hq.
      rewrite ff_encode in Hq by (cbn; auto; right; eexists; reflexivity). exact Hq.
    + apply Hctx.
  - constructor; [apply Good_pre; exact Hrec |]. constructor; [apply Good_pre; exact Hrec |].
    apply Forall_states_bind.
    + apply encode_states; [right; eexists; reflexivity | exact I | |].
      * intros x Hx _. apply Good_pre. eapply recover_only_on; [exact Hrec | exact Hx |].
        intros y Hy Hf. cbn in Hy. subst y. exact (footprint_tmp _ _ Hf).
      * fold w1. apply Good_post. exact Hrec1.
    + intros e He. rewrite ff_encode in * by (cbn; auto; right; eexists; reflexivity). cbn [fst snd] in *. inversion He; subst e.
      cbn [is_ok res_eqb negb]. rewrite Hm1par. apply Forall_states_ret. fold w1. apply Good_post. exact Hrec1.
  - intros H. congruence.
Qed.

(** ** one step of a history *)

Definition heads_ok (m : mem) : Prop := forall k, m_children m (Some (Head k)) = [].

(** the invariant of histories: the directory recovers to a well-formed view, inode numbers are
    fresh, and the memory of an open replica agrees with the directory *)
Definition InvS (g : cfg) (s : st) : Prop :=
  exists v, recover g (s_fs s) = Some v /\ wf_view v /\ ids_fresh (s_fs s)
            /\ match s_mem s with Some m => agree g v m /\ heads_ok m | None => True end.

Lemma InvS_ctx : forall g w m, InvS g (mkst w (Some m)) -> exists v, ctx g w v m.
Proof. intros g w m [v [H1 [H2 [H3 [H4 H5]]]]]. exists v. constructor; assumption. Qed.

Lemma ctx_InvS : forall g w v m, ctx g w v m -> InvS g (mkst w (Some m)).
Proof.
  intros g w v m [R1 R2 R3 R4 R5]. exists v. cbn [s_fs s_mem].
  split; [exact R1 | split; [exact R2 | split; [exact R4 | split; [exact R3 | exact R5]]]].
Qed.

(** what a Server-level operation does from an invariant state *)
Definition sspec (g : cfg) (w : fs) (v : chainview) (om : option mem) (p : prog (option mem * res * nat)) : Prop :=
  exists w' om' r k vpost,
    ff p w = (w', Done (om', r, k))
    /\ InvS g (mkst w' om') /\ recover g w' = Some vpost
    /\ Forall (Good g v vpost) (states p w)
    /\ (r <> Ok -> vpost = v /\ om' = om).

Lemma sspec_ret : forall g w v om om' r k,
  InvS g (mkst w om') -> recover g w = Some v -> (r <> Ok -> om' = om) ->
  sspec g w v om (Ret (om', r, k)).
Proof.
  intros g w v om om' r k Hi Hr Hm. exists w, om', r, k, v. split; [reflexivity |]. split; [exact Hi |]. split; [exact Hr |].
  split; [apply Forall_states_ret; apply Good_pre; exact Hr | intros H; split; [reflexivity | auto]].
Qed.

Lemma sspec_lift : forall g w v m p, ospec g w v m p -> sspec g w v (Some m) (lift p).
Proof.
  intros g w v m p [w' [m' [r [vp [Hff [Hc [Hst Hr]]]]]]]. exists w', (Some m'), r, O, vp.
  unfold lift. split; [rewrite ff_bind, Hff; reflexivity |].
  split; [eapply ctx_InvS; exact Hc |].
  split; [apply Hc |]. split.
  - apply Forall_states_bind; [exact Hst |]. intros a Ha. rewrite Hff in *. cbn [fst snd] in *. inversion Ha; subst a.
    apply Forall_states_ret. apply Good_post. apply Hc.
  - intros H. destruct (Hr H) as [E1 E2]. subst. auto.
Qed.

Definition ok_op (g : cfg) (s : st) (o : op) : Prop :=
  match o, s_mem s, recover g (s_fs s) with
  | OSnap sn _ _, Some m, Some v =>
      (fix_dup g = true \/ ~ In (Snap sn) (names_of_chain (cv_chain v)))
      /\ (~ In (Snap sn) (names_of_chain (cv_chain v)) -> m_children m (Some (Snap sn)) = [])
  | ORevert d _, Some m, Some v =>
      fix_rev g = true
      \/ (In d (names_of_chain (cv_chain v)) /\ Some d <> i_head (cv_info v))
      \/ files (s_fs s) (Img d) = None
  | OReplace t src, Some m, Some v =>          (* ReplaceDisk: only its refusals are covered here *)
      m_mode m <> RW \/ Some t = i_head (m_info m) \/ files (s_fs s) (Img src) = None
  | OCrashIn _ _, _, _ => False               (* treated separately *)
  | _, _, _ => True
  end.

(** ReplaceDisk refused: wrong mode, the target is the head, or the source file does not exist *)
Lemma replace_refused_spec : forall g w v m t src,
  ctx g w v m ->
  (m_mode m <> RW \/ Some t = i_head (m_info m) \/ files w (Img src) = None) ->
  ospec g w v m (replace_disk g m t src).
Proof.
  intros g w v m t src Hctx H. unfold replace_disk.
  destruct (negb (mode_eqb (m_mode m) RW)) eqn:Em; [eapply ospec_refuse; [exact Hctx | | reflexivity]; discriminate |].
  destruct (odname_eqb (Some t) (i_head (m_info m))) eqn:Eh; [eapply ospec_refuse; [exact Hctx | | reflexivity]; discriminate |].
  destruct H as [H | [H | H]].
  - exfalso. apply H. destruct (m_mode m); cbn in Em; congruence.
  - exfalso. rewrite H, odname_eqb_refl in Eh. discriminate.
  - pose proof (cx_rec _ _ _ _ Hctx) as Hrec.
    exists w, m, Refused, v. unfold hardlink_disk. cbn [bind ff apply_call states]. rewrite H. cbn [is_err ff states bind is_ok res_eqb negb fst snd].
    split; [reflexivity |]. split; [exact Hctx |]. split; [| auto].
    repeat constructor; apply Good_pre; exact Hrec.
Qed.

Lemma InvS_drop_mem : forall g w om, InvS g (mkst w om) -> InvS g (mkst w None).
Proof. intros g w om [v [H1 [H2 [H3 _]]]]. exists v. repeat split; assumption. Qed.

Theorem step_sspec : forall g s o,
  cfg_ok g -> InvS g s -> ok_op g s o ->
  exists v, recover g (s_fs s) = Some v /\ sspec g (s_fs s) v (s_mem s) (op_prog g (s_mem s) o).
Proof.
  intros g [w om] o Hcfg Hinv Hok. cbn [s_fs s_mem] in *.
  pose proof Hinv as [v [Hrec [Hwf [Hfr Hmem]]]]. cbn [s_fs s_mem] in Hrec, Hfr, Hmem. exists v. split; [exact Hrec |]. unfold ok_op in Hok. cbn [s_fs s_mem] in Hok. rewrite Hrec in Hok.
  destruct om as [m |].
  - (* a replica is open *)
    destruct Hmem as [Hag Hheads]. assert (Hctx : ctx g w v m) by (constructor; assumption).
    destruct o; cbn [op_prog].
    + apply sspec_ret; [exact Hinv | exact Hrec | auto].
    + apply sspec_ret; [exact Hinv | exact Hrec | auto].
    + (* close *)
      destruct (close_replica_spec g w v m Hrec Hwf Hag) as [w' [m' [r [vp [Hff [Hr' [Hwf' [Hag' [Hst [Hrr Hch]]]]]]]]]].
      assert (Hrok : r = Ok).
      { unfold close_replica in Hff. rewrite ff_bind, ff_encode in Hff by (cbn; auto; left; reflexivity). inversion Hff. reflexivity. }
      subst r. exists w', None, Ok, O, vp. split; [rewrite ff_bind, Hff; reflexivity |].
      assert (Hfr' : ids_fresh w') by (pose proof (ff_fresh _ (close_replica g m) w Hfr) as H; rewrite Hff in H; exact H).
      split; [exists vp; cbn [s_fs s_mem]; split; [exact Hr' | split; [exact Hwf' | split; [exact Hfr' | exact I]]] |]. split; [exact Hr' |]. split.
      * apply Forall_states_bind; [exact Hst |]. intros a Ha. rewrite Hff in *. cbn [fst snd] in *. inversion Ha; subst a.
        cbn [is_ok res_eqb]. apply Forall_states_ret. apply Good_post. exact Hr'.
      * intros H. congruence.
    + apply sspec_ret; [eapply InvS_drop_mem; exact Hinv | exact Hrec | intros H; congruence].
    + (* set mode *)
      assert (Hset : forall x, InvS g (mkst w (Some (set_mode m x)))).
      { intros x. exists v. cbn [s_fs s_mem]. split; [exact Hrec | split; [exact Hwf | split; [exact Hfr | split; [exact Hag | exact Hheads]]]]. }
      destruct mo as [[| | |] |].
      * apply sspec_ret; [exact Hinv | exact Hrec | auto].
      * apply sspec_ret; [apply Hset | exact Hrec | intros H; congruence].
      * apply sspec_ret; [apply Hset | exact Hrec | intros H; congruence].
      * apply sspec_ret; [exact Hinv | exact Hrec | auto].
      * apply sspec_ret; [exact Hinv | exact Hrec | auto].
    + apply sspec_lift. apply write_at_spec. exact Hctx.
    + destruct Hok as [Hd Hc]. apply sspec_lift. apply ospec_keepold. apply create_disk_spec; assumption.
    + apply sspec_lift. apply remove_diff_disk_spec; assumption.
    + (* prepare *)
      destruct (prepare_remove_disk_spec g w v m d Hctx) as [w' [m' [r [k [vp [Hff [Hc' [Hst Hr]]]]]]]].
      exists w', (Some m'), r, k, vp. split; [rewrite ff_bind, Hff; reflexivity |].
      split; [eapply ctx_InvS; exact Hc' |].
      split; [apply Hc' |]. split.
      * apply Forall_states_bind; [exact Hst |]. intros a Ha. rewrite Hff in *. cbn [fst snd] in *. inversion Ha; subst a.
        apply Forall_states_ret. apply Good_post. apply Hc'.
      * intros H. destruct (Hr H) as [E1 E2]. subst. auto.
    + apply sspec_lift. apply revert_disk_spec; assumption.
    + apply sspec_lift. apply ospec_keepold. apply resize_spec. exact Hctx.
    + apply sspec_lift. apply ospec_keepold. apply op_spec_ospec; [exact Hctx |]. apply set_checkpoint_spec; assumption.
    + destruct b; destruct (mstate m); try (apply sspec_ret; [exact Hinv | exact Hrec | auto]);
        (apply sspec_lift; apply op_spec_ospec; [exact Hctx |]; apply set_rebuilding_spec; assumption).
    + apply sspec_lift. apply replace_refused_spec; assumption.
    + contradiction.
  - (* no replica open *)
    destruct o; cbn [op_prog]; try (apply sspec_ret; [exact Hinv | exact Hrec | auto]).
    + (* create on an existing volume: nothing to do *)
      unfold create_volume. destruct (recover_elim g w v Hrec) as [Hvol _].
      exists w, None, Ok, O, v. split; [cbn [ff apply_call]; rewrite Hvol; reflexivity |].
      split; [exact Hinv |]. split; [exact Hrec |]. split; [| intros H; congruence].
      cbn [states apply_call]. rewrite Hvol. cbn [states]. repeat constructor; apply Good_pre; exact Hrec.
    + (* open *)
      unfold open_volume. destruct (recover_elim g w v Hrec) as [Hvol _].
      destruct (construct_spec g w v (i_size (cv_info v)) 0 Hrec Hwf Hfr Hcfg) as [wF [mF [c [Hc HF]]]].
      cbn zeta in HF. destruct HF as [HffF [HctxF [HmodeF [HinfoF [HstF [HveqF _]]]]]].
      eexists wF, (Some mF), Ok, O, _. split; [cbn [ff apply_call]; rewrite Hvol; rewrite ff_bind, HffF; reflexivity |].
      split; [eapply ctx_InvS; exact HctxF |].
      split; [apply HctxF |]. split; [| intros H; congruence].
      rewrite states_Do. cbn [apply_call]. rewrite Hvol. constructor; [apply Good_pre; exact Hrec |].
      apply Forall_states_bind; [exact HstF |]. intros a Ha. rewrite HffF in *. cbn [fst snd] in *. inversion Ha; subst a.
      apply Forall_states_ret. apply Good_post. apply HctxF.
Qed.

(** ** histories *)

Lemma run_ff : forall A (p : prog A) w, dir_of_run (run p w) = fst (ff p w) /\ out_of_run (run p w) = snd (ff p w).
Proof. intros. unfold run. apply exec_ff. Qed.

Lemma step_ff : forall g s o w' om' r k,
  (forall k' o', o <> OCrashIn k' o') ->
  ff (op_prog g (s_mem s) o) (s_fs s) = (w', Done (om', r, k)) ->
  step g s o = (mkst w' om', result_of r, k).
Proof.
  intros g s o w' om' r k Hnc Hff.
  destruct (run_ff _ (op_prog g (s_mem s) o) (s_fs s)) as [H1 H2]. rewrite Hff in H1, H2. cbn [fst snd] in H1, H2.
  unfold step. destruct o; try (exfalso; eapply Hnc; reflexivity);
    destruct (run _ _) as [[wx tx] ox]; unfold dir_of_run, out_of_run in H1, H2; cbn [fst snd] in H1, H2; subst wx ox; reflexivity.
Qed.

Lemma sim_ids : forall l l', Forall2 member_sim l l' -> map mb_id l = map mb_id l'.
Proof. intros l l' H. induction H as [| x y l0 l0' [_ [Hi _]] _ IH]; [reflexivity |]. cbn [map]. rewrite Hi, IH. reflexivity. Qed.

Lemma wf_view_veq : forall a b, veq a b -> wf_view b -> wf_view a.
Proof.
  intros a b [[I1 [I2 [I3 [I4 [I5 I6]]]]] HF] [n [id0 [d0 [tl [H1 [H2 [H3 [H4 [H5 H6]]]]]]]]].
  pose proof (sim_linked_names _ _ HF) as Hnames. pose proof (sim_ids _ _ HF) as Hids.
  rewrite H1 in HF. destruct (cv_chain a) as [| x l] eqn:Ea; [inversion HF |].
  inversion HF as [| ? ? ? ? Hxy Hll]; subst.
  destruct x as [xn xi xd]. destruct Hxy as [Hn [Hi [Hp _]]]. cbn [mb_name mb_id mb_disk] in *. subst xn xi.
  exists n, id0, xd, l. split; [exact Ea |]. split; [congruence |]. rewrite Ea. split; [| split; [| split]].
  - clear -Hll H3. induction Hll as [| x y l l' [Hn _] _ IH]; [constructor |]. inversion H3; subst. constructor; [rewrite Hn; assumption | auto].
  - rewrite Hnames. exact H4.
  - rewrite Hids. exact H5.
  - congruence.
Qed.

(** a directory left by a process death inside an operation is again an invariant state *)
Lemma Good_InvS : forall g vpre vpost x, Good g vpre vpost x -> wf_view vpre -> wf_view vpost -> ids_fresh x -> InvS g (mkst x None).
Proof.
  intros g vpre vpost x [vx [Hr [Hv | Hv]]] H1 H2 Hf; exists vx; cbn [s_fs s_mem];
    (split; [exact Hr | split; [eapply wf_view_veq; eauto | split; [exact Hf | exact I]]]).
Qed.

Definition plain (o : op) : Prop := match o with OCrashIn _ _ => False | _ => True end.

(** the operations of a history carry arguments for which the code as it is behaves (see the
    findings); a process death may hit any plain operation at any call *)
Definition ok_step (g : cfg) (s : st) (o : op) : Prop :=
  match o with
  | OCrashIn _ o' => plain o' /\ ok_op g s o'
  | _ => ok_op g s o
  end.

Fixpoint ok_hist (g : cfg) (s : st) (os : list op) : Prop :=
  match os with
  | [] => True
  | o :: t => ok_step g s o /\ ok_hist g (fst (fst (step g s o))) t
  end.

Lemma plain_not_crash : forall o, plain o -> forall k' o', o <> OCrashIn k' o'.
Proof. intros o H k' o' E. subst o. exact H. Qed.

Theorem step_inv : forall g s o, cfg_ok g -> InvS g s -> ok_step g s o -> InvS g (fst (fst (step g s o))).
Proof.
  intros g s o Hcfg Hinv Hok. destruct o; try (
    destruct (step_sspec g s _ Hcfg Hinv Hok) as [v [Hrec [w' [om' [r [k [vp [Hff [Hinv' _]]]]]]]]];
    erewrite step_ff; [exact Hinv' | intros k' o' E; discriminate | exact Hff]).
  (* a process death inside o *)
  destruct Hok as [Hpl Hok]. cbn [step].
  destruct (step_sspec g s o Hcfg Hinv Hok) as [v [Hrec [w' [om' [r [k0 [vp [Hff [Hinv' [Hrec' [Hst _]]]]]]]]]]].
  pose proof (crash_in_states _ (op_prog g (s_mem s) o) (s_fs s) k) as Hin.
  destruct (exec (op_prog g (s_mem s) o) (s_fs s) 0 (Some k) None) as [[wx tx] ox] eqn:He.
  unfold dir_of_run in Hin. cbn [fst] in Hin |- *.
  eapply Forall_forall in Hst; [| exact Hin].
  destruct Hinv as [v0 [Hr0 [Hwf0 [Hfr0 _]]]]. rewrite Hrec in Hr0. inversion Hr0; subst v0.
  destruct Hinv' as [vp' [Hrp [Hwfp _]]]. cbn [s_fs] in Hrp. rewrite Hrec' in Hrp. inversion Hrp; subst vp'.
  eapply Good_InvS; [exact Hst | exact Hwf0 | exact Hwfp |].
  pose proof (states_fresh _ (op_prog g (s_mem s) o) (s_fs s) Hfr0) as Hsf. eapply Forall_forall in Hsf; [exact Hsf | exact Hin].
Qed.

Theorem hist_inv : forall g os s, cfg_ok g -> InvS g s -> ok_hist g s os -> InvS g (run_ops g s os).
Proof.
  intros g os. induction os as [| o t IH]; intros s Hcfg Hinv Hok; [exact Hinv |].
  cbn [run_ops ok_hist] in *. destruct Hok as [H1 H2]. apply IH; [exact Hcfg | apply step_inv; assumption | exact H2].
Qed.

(** the state right after Server.Create on an empty directory *)
Definition created (g : cfg) (size now : N) : st := fst (fst (step g init (OCreate size now))).

Lemma ids_fresh_empty : ids_fresh empty_fs.
Proof. intros n id gn H. discriminate. Qed.

Lemma created_inv : forall g size now, cfg_ok g -> size <> 0%N -> InvS g (created g size now).
Proof.
  intros g size now Hcfg Hsz. unfold cfg_ok in Hcfg.
  assert (Hfr : ids_fresh (s_fs (created g size now))).
  { unfold created, step. destruct (run_ff _ (op_prog g (s_mem init) (OCreate size now)) (s_fs init)) as [H1 _].
    destruct (run (op_prog g (s_mem init) (OCreate size now)) (s_fs init)) as [[wx tx] ox] eqn:Er.
    unfold dir_of_run in H1. cbn [fst] in H1. 
    assert (Hq : ids_fresh wx) by (rewrite H1; apply ff_fresh; apply ids_fresh_empty).
    destruct ox as [[[om e] n] | |]; exact Hq. }
  destruct g as [ml fx fd fr fc fch fm]. cbn [maxlen] in Hcfg.
  destruct ml as [| [| ml]]; try lia. destruct size as [| p]; [congruence |].
  assert (Hmem : s_mem (created (mkcfg (S (S ml)) fx fd fr fc fch fm) (N.pos p) now) = None).
  { destruct fx, fd; vm_compute; reflexivity. }
  assert (Hrec : exists v, recover (mkcfg (S (S ml)) fx fd fr fc fch fm) (s_fs (created (mkcfg (S (S ml)) fx fd fr fc fch fm) (N.pos p) now)) = Some v
                          /\ wf_view v).
  { destruct fx, fd; (eexists; split; [vm_compute; reflexivity |]);
      (exists 0, 1%N, (mkdisk None false false now 1), []; cbn [cv_chain cv_info];
       repeat split; try reflexivity; repeat constructor; cbn; tauto). }
  destruct Hrec as [v [Hr Hw]]. exists v. rewrite Hmem. repeat split; assumption.
Qed.

(** ** the theorems of C12 and C08 over reachable states *)

(** what the invariant says, spelled out *)
Lemma InvS_facts : forall g s, InvS g s ->
  exists v, recover g (s_fs s) = Some v
    (* a single acyclic path from the head to the base, every member with its two files *)
    /\ NoDup (names_of_chain (cv_chain v))
    /\ first_name (cv_chain v) = i_head (cv_info v)
    /\ linked (files (s_fs s)) (cv_chain v)
    /\ length (cv_chain v) <= maxlen g
    (* the memory of an open replica agrees with the directory *)
    /\ match s_mem s with
       | Some m => mchain g m = Some (names_of_chain (cv_chain v))
                   /\ (forall d, m_disks m d = option_map mb_disk (find_mb d (cv_chain v)))
                   /\ (forall d, In d (names_of_chain (cv_chain v)) -> m_children m (Some d) = child_in d (cv_chain v))
                   /\ m_active m = rev (names_of_chain (cv_chain v))
                   /\ info_sim (m_info m) (cv_info v)
       | None => True
       end.
Proof.
  intros g [w om] [v [Hrec [Hwf [Hfr Hmem]]]]. cbn [s_fs s_mem] in *. exists v. split; [exact Hrec |].
  destruct (recover_elim g w v Hrec) as [Hvol [h [c [Hhd [Hw Hc]]]]].
  destruct (walk_linked _ _ _ _ Hw) as [Hl _]. destruct (walk_length _ _ _ _ Hw) as [Hlen _].
  pose proof Hwf as [n [id0 [d0 [tl [H1 [H2 [H3 [H4 [H5 H6]]]]]]]]].
  split; [exact H4 |]. split; [rewrite H1, H2; reflexivity |]. split; [exact Hl |]. split; [exact Hlen |].
  destruct om as [m |]; [| exact I]. destruct Hmem as [Hag Hh].
  assert (Hctx : ctx g w v m) by (constructor; assumption).
  split; [apply (mchain_of_ctx g w v m Hctx) |]. destruct Hag as [A1 [A2 [A3 [A4 A5]]]]. auto.
Qed.

Theorem C12_wf_thm : forall g size now os,
  cfg_ok g -> size <> 0%N -> ok_hist g (created g size now) os ->
  InvS g (run_ops g (created g size now) os).
Proof. intros. apply hist_inv; [assumption | apply created_inv; assumption | assumption]. Qed.

(** a refused or failed operation leaves view and memory as they were *)
Theorem refused_unchanged : forall g s o,
  cfg_ok g -> InvS g s -> plain o -> ok_op g s o ->
  snd (fst (step g s o)) <> ResOk ->
  recover g (s_fs (fst (fst (step g s o)))) = recover g (s_fs s) /\ s_mem (fst (fst (step g s o))) = s_mem s.
Proof.
  intros g s o Hcfg Hinv Hpl Hok Hne.
  assert (Hok' : ok_step g s o) by (destruct o; try exact Hok; contradiction).
  destruct (step_sspec g s o Hcfg Hinv Hok) as [v [Hrec [w' [om' [r [k [vp [Hff [Hinv' [Hrec' [Hst Hr]]]]]]]]]]].
  rewrite (step_ff g s o w' om' r k (plain_not_crash o Hpl) Hff) in *. cbn [fst snd s_fs s_mem] in *.
  assert (Hr' : r <> Ok) by (intro E; subst r; apply Hne; reflexivity).
  destruct (Hr Hr') as [E1 E2]. subst. rewrite Hrec, Hrec'. auto.
Qed.

(** process death after any number of calls of any operation *)
Theorem crash_atomic : forall g s o k,
  cfg_ok g -> InvS g s -> plain o -> ok_op g s o ->
  exists vpre vpost vk,
    recover g (s_fs s) = Some vpre
    /\ recover g (s_fs (fst (fst (step g s o)))) = Some vpost
    /\ recover g (dir_of_run (exec (op_prog g (s_mem s) o) (s_fs s) 0 (Some k) None)) = Some vk
    /\ (veq vk vpre \/ veq vk vpost).
Proof.
  intros g s o k Hcfg Hinv Hpl Hok.
  destruct (step_sspec g s o Hcfg Hinv Hok) as [v [Hrec [w' [om' [r [k0 [vp [Hff [Hinv' [Hrec' [Hst Hr]]]]]]]]]]].
  rewrite (step_ff g s o w' om' r k0 (plain_not_crash o Hpl) Hff). cbn [fst s_fs].
  pose proof (crash_in_states _ (op_prog g (s_mem s) o) (s_fs s) k) as Hin.
  eapply Forall_forall in Hst; [| exact Hin]. destruct Hst as [vk [Hk1 Hk2]].
  exists v, vp, vk. auto.
Qed.

(** close (or process death between operations) followed by open reproduces the chain *)
Theorem reopen_roundtrip : forall g w m (how : bool),
  cfg_ok g -> InvS g (mkst w (Some m)) ->
  let s1 := fst (fst (step g (mkst w (Some m)) (if how then OClose else OCrash))) in
  let s2 := fst (fst (step g s1 OOpen)) in
  exists v v2 m2,
    recover g w = Some v /\ recover g (s_fs s2) = Some v2 /\ veq v v2
    /\ snd (fst (step g s1 OOpen)) = ResOk
    /\ s_mem s2 = Some m2 /\ mchain g m2 = Some (names_of_chain (cv_chain v))
    /\ (forall d, m_disks m2 d = option_map mb_disk (find_mb d (cv_chain v2))).
Proof.
  intros g w m how Hcfg Hinv s1 s2.
  pose proof Hinv as [v [Hrec [Hwf [Hfr [Hag Hh]]]]]. cbn [s_fs s_mem] in *.
  (* the state after close / death: same chain, volume.meta possibly rewritten *)
  assert (H1 : exists w1 v1, s1 = mkst w1 None /\ recover g w1 = Some v1 /\ wf_view v1 /\ ids_fresh w1 /\ veq v v1).
  { subst s1. destruct how.
    - destruct (close_replica_spec g w v m Hrec Hwf Hag) as [w' [m' [r [vp [Hff [Hr' [Hwf' [Hag' [Hst [Hrr Hch]]]]]]]]]].
      assert (Hvp : vp = mkview (set_dirty_rebuilding (m_info m) false (i_rebuilding (m_info m))) (cv_chain v) /\ r = Ok).
      { unfold close_replica in Hff. rewrite ff_bind, ff_encode in Hff by (cbn; auto; left; reflexivity). inversion Hff; subst.
        split; [| reflexivity]. cbn [m_info set_mode] in Hr'.
        rewrite (recover_vol_rewrite g w v _ Hrec) in Hr'; [inversion Hr'; reflexivity |]. cbn. apply (agree_head g v m Hag). }
      destruct Hvp as [Hvp Hrok]. subst r.
      exists w', vp. split; [| split; [exact Hr' | split; [exact Hwf' | split]]].
      + erewrite step_ff; [reflexivity | intros; discriminate |]. cbn [op_prog s_mem s_fs]. rewrite ff_bind, Hff. reflexivity.
      + pose proof (ff_fresh _ (close_replica g m) w Hfr) as H. rewrite Hff in H. exact H.
      + subst vp. split; [| apply Forall2_refl; apply member_sim_refl]. destruct Hag as [[B1 [B2 [B3 [B4 [B5 B6]]]]] _].
        cbn [cv_info]. repeat split; cbn; congruence.
    - exists w, v. split; [reflexivity |]. repeat split; try assumption. apply veq_refl. }
  destruct H1 as [w1 [v1 [Es1 [Hr1 [Hwf1 [Hfr1 Hveq1]]]]]].
  destruct (construct_spec g w1 v1 (i_size (cv_info v1)) 0 Hr1 Hwf1 Hfr1 Hcfg) as [wF [mF [c [Hc HF]]]].
  cbn zeta in HF. destruct HF as [HffF [HctxF [HmodeF [HinfoF [HstF [HveqF _]]]]]].
  destruct (recover_elim g w1 v1 Hr1) as [Hvol1 _].
  assert (Hstep2 : step g s1 OOpen = (mkst wF (Some mF), ResOk, O)).
  { rewrite Es1. rewrite (step_ff g (mkst w1 None) OOpen wF (Some mF) Ok O); [reflexivity | intros; discriminate |].
    cbn [op_prog s_mem s_fs]. unfold open_volume.
    cbn [ff apply_call]. rewrite Hvol1. rewrite ff_bind, HffF. reflexivity. }
  subst s2. rewrite Hstep2. cbn [fst snd s_fs s_mem].
  eexists v, _, mF. split; [exact Hrec |]. split; [apply HctxF |]. split; [eapply veq_trans; [exact Hveq1 | exact HveqF] |].
  split; [reflexivity |]. split; [reflexivity |]. split.
  - rewrite (mchain_of_ctx g wF _ mF HctxF). cbn [cv_chain]. rewrite norm_chain_names. f_equal. symmetry. apply veq_names. exact Hveq1.
  - apply (cx_ag _ _ _ _ HctxF).
Qed.

(** ** C08_durable: after the last directory change of a successful operation the directory is synced *)

(** the lint of Corr.v, call by call: [pending] after a call *)
Definition cpend (pd : bool) (c : call) : bool :=
  match c with
  | CFsyncDir => false
  | _ => pd || existsb changes_dir (map sys_code (sys_of_call c))
  end.

Definition codes_of_trace (t : trace) : list (N * N * N) :=
  flat_map (fun cr => map sys_code (sys_of_call (fst cr))) t.

Lemma sys_trace_codes : forall t i, map snd (sys_trace i t) = codes_of_trace t.
Proof.
  induction t as [| [c r] t IH]; intros i; [reflexivity |].
  cbn [sys_trace codes_of_trace flat_map fst]. rewrite map_app, IH. f_equal.
  rewrite map_map. cbn [snd]. reflexivity.
Qed.

Fixpoint pend_of_trace (pd : bool) (t : trace) : bool :=
  match t with [] => pd | (c, _) :: t' => pend_of_trace (cpend pd c) t' end.

(** a sync code (tag 9) is only ever produced right after the open-directory code of the same call *)
Lemma durable_from_call : forall c pd prev rest,
  exists prev', durable_from pd prev (map sys_code (sys_of_call c) ++ rest) = durable_from (cpend pd c) prev' rest.
Proof.
  intros c pd prev rest.
  destruct c; cbn [sys_of_call map app durable_from cpend existsb];
    try (eexists; reflexivity);
    try (destruct prev as [[t0 a0] b0]; eexists; cbn [is_dirsync sys_code changes_dir];
         rewrite ?Bool.andb_false_r, ?Bool.orb_false_r; cbn; rewrite ?Bool.orb_false_r; reflexivity).
Qed.

Lemma durable_from_trace : forall t pd prev,
  exists prev', durable_from pd prev (codes_of_trace t) = durable_from (pend_of_trace pd t) prev' [].
Proof.
  induction t as [| [c r] t IH]; intros pd prev; [exists prev; reflexivity |].
  cbn [codes_of_trace flat_map fst pend_of_trace]. fold (codes_of_trace t).
  destruct (durable_from_call c pd prev (codes_of_trace t)) as [p1 H1]. rewrite H1. apply IH.
Qed.

(** static: whatever the fault-free replies, when [p] returns a value satisfying [okr] nothing is pending *)
Fixpoint durP {A} (Q : A -> bool -> Prop) (pd : bool) (p : prog A) : Prop :=
  match p with
  | Ret a => Q a pd
  | Abort _ => True
  | Do c k => forall r, possible c r -> durP Q (cpend pd c) (k r)
  end.

Lemma durP_bind : forall A B (Q : A -> bool -> Prop) (R : B -> bool -> Prop) (p : prog A) (f : A -> prog B) pd,
  durP Q pd p -> (forall a pd', Q a pd' -> durP R pd' (f a)) -> durP R pd (bind p f).
Proof.
  induction p as [a | e | c k IH]; intros f pd Hp Hf; cbn [bind durP] in *; auto.
Qed.

Lemma durP_weaken : forall A (Q R : A -> bool -> Prop) (p : prog A) pd,
  (forall a pd', Q a pd' -> R a pd') -> durP Q pd p -> durP R pd p.
Proof. induction p as [a | e | c k IH]; intros pd HQR Hp; cbn [durP] in *; auto. Qed.

(** the fault-free trace *)
Fixpoint fftr {A} (p : prog A) (w : fs) : trace :=
  match p with
  | Do c k => let '(w1, r) := apply_call w c in (c, r) :: fftr (k r) w1
  | _ => []
  end.

Lemma exec_fftr : forall A (p : prog A) w cnt, trace_of_run (exec p w cnt None None) = fftr p w.
Proof.
  induction p as [a | e | c k IH]; intros w cnt; cbn; auto.
  destruct (apply_call w c) as [w1 r]. specialize (IH r w1 (S cnt)).
  destruct (exec (k r) w1 (S cnt) None None) as [[w2 t] o]. unfold trace_of_run in *. cbn in *. rewrite IH. reflexivity.
Qed.

Lemma durP_ff : forall A (Q : A -> bool -> Prop) (p : prog A) w pd a,
  durP Q pd p -> snd (ff p w) = Done a -> Q a (pend_of_trace pd (fftr p w)).
Proof.
  induction p as [a' | e | c k IH]; intros w pd a Hp Hd; cbn [ff fftr durP pend_of_trace] in *.
  - inversion Hd; subst. exact Hp.
  - discriminate.
  - destruct (apply_call w c) as [w1 r] eqn:Hc. cbn [pend_of_trace].
    apply IH; [apply Hp; exists w; rewrite Hc; reflexivity | exact Hd].
Qed.

Lemma durP_true : forall A (p : prog A) pd, durP (fun _ _ => True) pd p.
Proof. induction p as [a | e | c k IH]; intros pd; cbn [durP]; auto. Qed.

Definition Qok (e : res) (pd : bool) : Prop := e = Ok -> pd = false.

Lemma dp_sync : forall pd, durP (fun e pd' => e = Ok /\ pd' = false) pd sync_dir.
Proof. intros pd. cbn. intros r Hr. poss Hr. cbn. auto. Qed.

Lemma dp_encode : forall g c n pd, durP Qok pd (encode_to_file g c n).
Proof.
  intros g c n pd. unfold encode_to_file. cbn [durP]. intros r1 _.
  destruct (is_err r1); [cbn; unfold Qok; discriminate |]. cbn [durP]. intros r2 _.
  destruct (fixed g && is_err r2); [cbn; intros; unfold Qok; discriminate |]. cbn [durP]. intros r3 _.
  destruct (is_err r3); [cbn; unfold Qok; discriminate |]. cbn [durP]. intros r4 _.
  destruct (is_err r4); [cbn; unfold Qok; discriminate |].
  eapply durP_weaken; [| apply dp_sync]. intros a pd' [_ H] _. exact H.
Qed.

Lemma dp_rm_some : forall x pd, durP (fun e pd' => e = Ok /\ pd' = false) pd (rm_disk (Some x)).
Proof.
  intros x pd. unfold rm_disk. cbn [durP]. intros r1 Hr1. poss Hr1; cbn [enoent_or_ok negb durP]; intros r2 Hr2; poss Hr2;
    cbn [enoent_or_ok negb]; apply dp_sync.
Qed.

Lemma dp_rm : forall d pd, pd = false -> durP (fun e pd' => pd' = false) pd (rm_disk d).
Proof.
  intros d pd Hpd. destruct d as [x |]; [| cbn; exact Hpd].
  eapply durP_weaken; [| apply dp_rm_some]. intros a pd' [_ H]. exact H.
Qed.

Lemma dp_link : forall old new pd, pd = false -> durP Qok pd (link_disk old new).
Proof.
  intros old new pd Hpd. destruct old as [o |]; [| cbn; intros _; exact Hpd]. destruct new as [nw |]; [| cbn; unfold Qok; discriminate].
  unfold link_disk. cbn [durP]. intros r1 _. destruct (negb (is_err r1)); [cbn; unfold Qok; discriminate |].
  cbn [durP]. intros r2 _. destruct (negb (is_err r2)); [cbn; unfold Qok; discriminate |].
  cbn [durP]. intros r3 _. destruct (is_err r3); [cbn; unfold Qok; discriminate |].
  cbn [durP]. intros r4 _. destruct (is_err r4); [cbn; unfold Qok; discriminate |].
  eapply durP_weaken; [| apply dp_sync]. intros a pd' [_ H] _. exact H.
Qed.

Definition Qop {M} (a : M * res) (pd : bool) : Prop := snd a = Ok -> pd = false.

Lemma is_ok_false : forall e, negb (is_ok e) = true -> e <> Ok.
Proof. intros e H E. subst e. discriminate. Qed.

Lemma dp_cleanup : forall nh snap (m' : mem) e pd, e <> Ok -> durP Qop pd (cd_cleanup nh snap m' e).
Proof.
  intros nh snap m' e pd He. unfold cd_cleanup.
  eapply durP_bind; [apply durP_true |]. intros _ pd1 _. eapply durP_bind; [apply durP_true |]. intros _ pd2 _.
  cbn. unfold Qop. cbn. intro; contradiction.
Qed.

Lemma dp_cd_commit : forall g ma old snap nh nd pd, durP Qop pd (cd_commit g ma old snap nh nd).
Proof.
  intros g ma old snap nh nd pd. unfold cd_commit.
  eapply durP_bind; [apply dp_encode |]. intros e5 pd1 H5.
  destruct (negb (is_ok e5)) eqn:E5.
  - pose proof (is_ok_false e5 E5) as Hne. destruct (fix_commit g); [| apply dp_cleanup; exact Hne].
    cbn [durP]. intros rv _. destruct rv as [| | | [iv | | | |] |]; try (apply dp_cleanup; exact Hne).
    destruct (odname_eqb (i_head iv) (Some nh)); [| apply dp_cleanup; exact Hne].
    eapply durP_bind; [apply durP_true |]. intros _ pd2 _. cbn. unfold Qop. cbn. intro; contradiction.
  - assert (e5 = Ok) by (destruct e5; try discriminate; reflexivity). subst e5.
    eapply durP_bind; [apply dp_rm; apply H5; reflexivity |]. intros x pd2 H2. cbn. unfold Qop. intros _. exact H2.
Qed.

Lemma dp_create_disk : forall g m s user cr pd, durP Qop pd (create_disk g m s user cr).
Proof.
  intros g m s user cr pd. unfold create_disk.
  eapply durP_bind; [apply durP_true |]. intros e0 pd0 _.
  destruct (negb (is_ok e0)); [cbn; unfold Qop; cbn; discriminate |].
  destruct (Nat.ltb _ _); [cbn; unfold Qop; cbn; discriminate |].
  destruct (fix_dup g && _); [cbn; unfold Qop; cbn; discriminate |].
  eapply durP_bind; [apply durP_true |]. intros [[nhn nd] e1] pd1 _.
  destruct (negb (is_ok e1)).
  { eapply durP_bind; [apply durP_true |]. intros _ pd2 _. cbn. unfold Qop. cbn. discriminate. }
  destruct nhn as [nh |]; [| cbn; unfold Qop; cbn; discriminate].
  unfold cd_link. eapply durP_bind; [apply durP_true |]. intros e2 pd2 _.
  destruct (negb (is_ok e2)) eqn:E2; [apply dp_cleanup; apply is_ok_false; exact E2 |].
  eapply durP_bind; [apply durP_true |]. intros [ma e4] pd3 _.
  destruct (negb (is_ok e4)) eqn:E4; [apply dp_cleanup; apply is_ok_false; exact E4 |].
  apply dp_cd_commit.
Qed.

Lemma dp_remove_diff_disk : forall g m d pd, durP Qop pd (remove_diff_disk g m d).
Proof.
  intros g m d pd. unfold remove_diff_disk.
  destruct (negb (mode_eqb (m_mode m) RW)); [cbn; unfold Qop; cbn; discriminate |].
  destruct (odname_eqb (Some d) _); [cbn; unfold Qop; cbn; discriminate |].
  destruct (odname_eqb _ (Some d)); [cbn; unfold Qop; cbn; discriminate |].
  destruct (match m_disks m d with Some x => _ | None => false end); [cbn; unfold Qop; cbn; discriminate |].
  eapply durP_bind; [apply durP_true |]. intros [m1 e1] pd1 _.
  destruct (negb (is_ok e1)) eqn:E1; [cbn; unfold Qop; cbn; intro H; exfalso; exact (is_ok_false e1 E1 H) |].
  eapply durP_bind; [apply dp_rm_some |]. intros e2 pd2 [_ H2]. cbn. unfold Qop. intros _. exact H2.
Qed.

Lemma dp_replace_disk : forall g m t src pd, durP Qop pd (replace_disk g m t src).
Proof.
  intros g m t src pd. unfold replace_disk.
  destruct (negb (mode_eqb (m_mode m) RW)); [cbn; unfold Qop; cbn; discriminate |].
  destruct (odname_eqb (Some t) _); [cbn; unfold Qop; cbn; discriminate |].
  eapply durP_bind; [apply durP_true |]. intros e0 pd0 _.
  destruct (negb (is_ok e0)) eqn:E0; [cbn; unfold Qop; cbn; intro H; exfalso; exact (is_ok_false e0 E0 H) |].
  eapply durP_bind; [apply durP_true |]. intros [m1 e1] pd1 _.
  destruct (negb (is_ok e1)) eqn:E1; [cbn; unfold Qop; cbn; intro H; exfalso; exact (is_ok_false e1 E1 H) |].
  eapply durP_bind; [apply dp_rm_some |]. intros e2 pd2 [_ H2].
  destruct (negb (is_ok e2)); [exact I |]. cbn. unfold Qop. intros _. exact H2.
Qed.

Lemma dp_construct : forall g size now pd, durP (fun a pd' => snd a = Ok -> pd' = false) pd (construct g size now).
Proof.
  intros g size now pd. unfold construct. cbn [durP]. intros rm _.
  destruct (match rm with RErr EEXIST => false | RErr _ => true | _ => false end); [cbn; discriminate |].
  eapply durP_bind; [apply durP_true |]. intros oc pd1 _. destruct oc as [cache |]; [| cbn; discriminate].
  eapply durP_bind; [apply durP_true |]. intros [[m1 ex] e1] pd2 _.
  destruct (negb (is_ok e1)); [cbn; discriminate |].
  eapply durP_bind; [apply durP_true |]. intros [m2 e2] pd3 _.
  destruct (negb (is_ok e2)); [cbn; discriminate |].
  destruct (i_head (m_info m2)); [| exact I]. destruct (m_disks m2 d); [| exact I].
  eapply durP_bind; [apply dp_encode |]. intros e3 pd4 H3.
  destruct (is_ok e3) eqn:E3; [| cbn; discriminate].
  assert (e3 = Ok) by (destruct e3; try discriminate; reflexivity). subst e3. cbn. intros _. apply H3. reflexivity.
Qed.

Lemma dp_revert : forall g m parent cr pd, durP Qop pd (revert_disk g m parent cr).
Proof.
  intros g m parent cr pd. unfold revert_disk.
  destruct (fix_rev g && _); [cbn; unfold Qop; cbn; discriminate |].
  cbn [durP]. intros rs _. destruct (is_err rs); [cbn; unfold Qop; cbn; discriminate |].
  eapply durP_bind; [apply durP_true |]. intros [[nhn nd] e1] pd1 _.
  destruct (negb (is_ok e1)); [cbn; unfold Qop; cbn; discriminate |].
  eapply durP_bind; [apply durP_true |]. intros e2 pd2 _.
  destruct (negb (is_ok e2)).
  { eapply durP_bind; [apply durP_true |]. intros _ pd3 _. cbn. unfold Qop. cbn. discriminate. }
  eapply durP_bind; [apply durP_true |]. intros e3 pd3 _.
  destruct (negb (is_ok e3)); [cbn; unfold Qop; cbn; discriminate |].
  eapply durP_bind; [apply dp_construct |]. intros [om e4] pd4 H4. cbn [snd] in H4.
  destruct om as [mn |]; [| cbn; unfold Qop; cbn; discriminate].
  destruct (is_ok e4) eqn:E4; [| cbn; unfold Qop; cbn; discriminate].
  assert (e4 = Ok) by (destruct e4; try discriminate; reflexivity). subst e4. cbn. unfold Qop. intros _. apply H4. reflexivity.
Qed.

Lemma dp_vol_only : forall g i (k : res -> prog (mem * res)) pd,
  (forall e pd', (e = Ok -> pd' = false) -> durP Qop pd' (k e)) ->
  durP Qop pd (e <- encode_to_file g (IVol i) Vol ;; k e).
Proof. intros g i k pd Hk. eapply durP_bind; [apply dp_encode |]. intros e pd' H. apply Hk. exact H. Qed.

Lemma durP_no_change : forall A (Q : A -> bool -> Prop) (p : prog A),
  (forall pd, durP (fun a pd' => pd' = pd) pd p) -> True.
Proof. auto. Qed.

Lemma dp_truncate_all : forall l sz pd, durP (fun _ pd' => pd' = pd) pd (truncate_all l sz).
Proof.
  induction l as [| y t IH]; intros sz pd; [reflexivity |]. cbn [truncate_all durP]. intros r _.
  assert (Hc : cpend pd (CTruncate (Img y) sz) = pd) by (cbn; rewrite Bool.orb_false_r; reflexivity).
  rewrite Hc. destruct (is_err r); [reflexivity | apply IH].
Qed.

(** every plain operation except the initial creation *)
Theorem op_durable : forall g om o,
  plain o -> (forall sz nw, o <> OCreate sz nw) ->
  durP (fun a pd => snd (fst a) = Ok -> pd = false) false (op_prog g om o).
Proof.
  intros g om o Hpl Hnc.
  assert (Hlift : forall (p : prog (mem * res)), durP Qop false p -> durP (fun a pd => snd (fst a) = Ok -> pd = false) false (lift p)).
  { intros p Hp. unfold lift. eapply durP_bind; [exact Hp |]. intros [m e] pd' H. cbn. exact H. }
  assert (Hkeep : forall m0 (p : prog (mem * res)) pd, durP Qop pd p -> durP Qop pd (keepold g m0 p)).
  { intros m0 p pd Hp. unfold keepold. eapply durP_bind; [exact Hp |]. intros a pd' H. cbn [durP]. unfold Qop in *.
    rewrite keep_old_res. exact H. }
  destruct om as [m |]; destruct o; cbn [op_prog]; try contradiction; try (exfalso; eapply Hnc; reflexivity);
    try (cbn; intros; reflexivity).
  - (* close *)
    eapply durP_bind with (Q := Qop).
    { unfold close_replica. eapply durP_bind; [apply dp_encode |]. intros e pd' H. cbn. exact H. }
    intros [m1 e] pd' H. unfold Qop in H. cbn [snd] in H. destruct (is_ok e) eqn:E; [| cbn; discriminate].
    assert (e = Ok) by (destruct e; try discriminate; reflexivity). subst e. cbn. intros _. apply H. reflexivity.
  - destruct mo as [[| | |] |]; cbn; intros; reflexivity.
  - (* write: no directory change *)
    apply Hlift. unfold write_at. cbn [m_mode set_info]. destruct (m_mode m); try (cbn; unfold Qop; cbn; discriminate).
    + destruct (i_head _); [| cbn; unfold Qop; cbn; discriminate]. cbn [durP]. intros r _.
      destruct (is_err r); [cbn; unfold Qop; cbn; discriminate |]. cbn [durP]. intros r2 _.
      destruct (is_err r2); cbn; unfold Qop; cbn; [discriminate | reflexivity].
    + destruct (i_head _); [| cbn; unfold Qop; cbn; discriminate]. cbn [durP]. intros r _.
      destruct (is_err r); cbn; unfold Qop; cbn; [discriminate | reflexivity].
  - apply Hlift. apply Hkeep. apply dp_create_disk.
  - apply Hlift. apply dp_remove_diff_disk.
  - (* prepare *)
    eapply durP_bind with (Q := fun a pd => snd (fst a) = Ok -> pd = false); [| intros [[m1 e] n] pd' H; cbn; exact H].
    unfold prepare_remove_disk. destruct (negb (mode_eqb (m_mode m) RW)); [cbn; reflexivity |].
    destruct (match m_disks m d with Some x => Some (d, x) | None => _ end) as [[d1 data] |]; [| cbn; reflexivity].
    destruct (odname_eqb (Some d1) _); [cbn; discriminate |]. destruct (odname_eqb _ (Some d1)); [cbn; discriminate |].
    destruct (d_parent data); [| cbn; discriminate].
    cbn [durP]. intros r1 _. destruct (is_err r1); [cbn; discriminate |]. cbn [durP]. intros r2 _.
    destruct (is_err r2); [cbn; discriminate |].
    eapply durP_bind; [apply dp_encode |]. intros e pd' H.
    destruct (negb (is_ok e)) eqn:E; [cbn; discriminate |].
    assert (e = Ok) by (destruct e; try discriminate; reflexivity). subst e.
    destruct (m_disks _ d0); cbn; [intros _; apply H; reflexivity | discriminate].
  - apply Hlift. apply dp_revert.
  - (* resize *)
    apply Hlift. apply Hkeep. unfold resize. destruct (mchain g m); [| cbn; unfold Qop; cbn; discriminate].
    destruct (N.ltb sz _); [cbn; unfold Qop; cbn; discriminate |].
    eapply durP_bind; [apply dp_truncate_all |]. intros okf pd' Hpd. cbn beta in Hpd. rewrite Hpd.
    destruct (negb okf); [cbn; unfold Qop; cbn; discriminate |].
    eapply durP_bind; [apply dp_encode |]. intros e pd2 H. cbn. exact H.
  - apply Hlift. apply Hkeep. unfold set_checkpoint. eapply durP_bind; [apply dp_encode |]. intros e pd' H. cbn. exact H.
  - destruct b; destruct (mstate m); try (cbn; discriminate);
      (apply Hlift; unfold set_rebuilding; eapply durP_bind; [apply dp_encode |]; intros e pd' H;
       destruct (is_ok e) eqn:E; [| cbn; unfold Qop; cbn; discriminate];
       assert (e = Ok) by (destruct e; try discriminate; reflexivity); subst e; cbn; unfold Qop; intros _; apply H; reflexivity).
  - apply Hlift. apply dp_replace_disk.
  - (* open *)
    unfold open_volume. cbn [durP]. intros rv _. 
    assert (Hc : cpend false (CReadFile Vol) = false) by reflexivity. rewrite Hc.
    eapply durP_bind; [apply dp_construct |]. intros [om e] pd' H. cbn. exact H.
Qed.

Theorem durable : forall g s o w' om' k,
  plain o -> (forall sz nw, o <> OCreate sz nw) ->
  ff (op_prog g (s_mem s) o) (s_fs s) = (w', Done (om', Ok, k)) ->
  durable_codes (map snd (sys_trace 0 (trace_of_run (run (op_prog g (s_mem s) o) (s_fs s))))) = true.
Proof.
  intros g s o w' om' k Hpl Hnc Hff.
  pose proof (op_durable g (s_mem s) o Hpl Hnc) as Hd.
  pose proof (durP_ff _ _ _ (s_fs s) false (om', Ok, k) Hd) as Hq. rewrite Hff in Hq. specialize (Hq eq_refl eq_refl).
  unfold run. rewrite exec_fftr, sys_trace_codes. unfold durable_codes.
  destruct (durable_from_trace (fftr (op_prog g (s_mem s) o) (s_fs s)) false (0, 0, 0)%N) as [prev' Hp].
  rewrite Hp, Hq. reflexivity.
Qed.

Lemma fold_left_app_ops : forall g s a b, run_ops g s (a ++ b) = run_ops g (run_ops g s a) b.
Proof. intros g s a. revert s. induction a as [| o t IH]; intros s b; [reflexivity |]. cbn [app run_ops]. apply IH. Qed.

(** ** what the code as it is does NOT satisfy: witnesses (all replayed on the implementation) *)

(** the code as it is today: duplicate snapshot names are refused (repaired in /repo 3b20437), the
    other repairs are not in *)
Definition cfg_asis (maxlen : nat) : cfg := mkcfg maxlen false true false false false false.

Definition wit_state : st := run_ops (cfg_asis 8) (created (cfg_asis 8) 16384 7) [OOpen; OSetMode (Some RW)].

Definition fault_outcome (g : cfg) (s : st) (o : op) (k : nat) (e : errno) : rclass * bool :=
  let '(w', _, out) := exec (op_prog g (s_mem s) o) (s_fs s) 0 None (Some (k, e)) in
  (out_class out, match recover g w' with Some _ => true | None => false end).

(** F5: the write(2) of volume.meta.tmp fails with ENOSPC during a snapshot: Snapshot returns nil
    and the directory cannot be recovered *)
Theorem fault_refuted_write_ignored :
  InvS (cfg_asis 8) wit_state /\ ok_op (cfg_asis 8) wit_state (OSnap 1 false 1)
  /\ fault_outcome (cfg_asis 8) wit_state (OSnap 1 false 1) 23 ENOSPC = (COk, false)
  /\ fault_outcome (cfg_asis 8) wit_state (OCheckpoint (Some (Snap 1))) 1 ENOSPC = (COk, false).
Proof.
  split; [| split; [| split]].
  - unfold wit_state. apply hist_inv; [unfold cfg_ok; cbn; lia | apply created_inv; [unfold cfg_ok; cbn; lia | discriminate] |].
    vm_compute. tauto.
  - vm_compute. split; [left; reflexivity | intros _; reflexivity].
  - vm_compute. reflexivity.
  - vm_compute. reflexivity.
Qed.

(** F11: the directory sync after rename(volume.meta.tmp, volume.meta) fails during a snapshot: an
    error is returned, and the clean-up has removed the head volume.meta names *)
Theorem fault_refuted_sync_after_commit :
  fault_outcome (cfg_asis 8) wit_state (OSnap 1 false 1) 26 EIO = (CErr, false)
  (* ... also with the write error tested (F5 repaired) *)
  /\ fault_outcome (mkcfg 8 true true false false false false)
       (run_ops (mkcfg 8 true true false false false false) (created (mkcfg 8 true true false false false false) 16384 7) [OOpen; OSetMode (Some RW)])
       (OSnap 1 false 1) 26 EIO = (CErr, false).
Proof. split; vm_compute; reflexivity. Qed.

(** F10: Revert with the head's own name: an error is returned over a directory that cannot be
    recovered (the memory still shows the old chain) *)
Theorem wf_refuted_revert_target :
  let g := cfg_asis 8 in
  let s := run_ops g wit_state [OSnap 1 false 1] in
  InvS g s /\ snd (fst (step g s (ORevert (Head 1) 5))) = ResFailed
  /\ recover g (s_fs (fst (fst (step g s (ORevert (Head 1) 5))))) = None.
Proof.
  cbn zeta. split; [| split].
  - unfold wit_state. rewrite <- (fold_left_app_ops (cfg_asis 8)). 
    apply hist_inv; [unfold cfg_ok; cbn; lia | apply created_inv; [unfold cfg_ok; cbn; lia | discriminate] |].
    vm_compute. tauto.
  - vm_compute. reflexivity.
  - vm_compute. reflexivity.
Qed.

(** F12: a snapshot name reused after its removal keeps the stale child entry *)
Theorem wf_refuted_children_stale :
  let g := cfg_asis 8 in
  let s := run_ops g wit_state [OSnap 1 false 1; OSnap 2 false 2; OSnap 3 false 3; ORemove (Snap 2); OSnap 2 false 4] in
  match s_mem s with
  | Some m => mchain g m = Some [Head 4; Snap 2; Snap 3; Snap 1] /\ m_children m (Some (Snap 2)) = [Snap 3; Head 4]
  | None => False
  end.
Proof. vm_compute. split; reflexivity. Qed.

(** non-vacuity: a reachable state with a chain of four satisfies the invariant and its hypotheses *)
Example inv_nonvacuous :
  let g := cfg_asis 8 in
  let os := [OOpen; OSetMode (Some RW); OWrite; OSnap 1 true 1; OWrite; OSnap 2 false 2; OSnap 3 false 3;
             OPrep (Snap 2); ORemove (Snap 2); ORevert (Snap 1) 9; OCrashIn 12 (OSnap 5 false 5); OOpen] in
  ok_hist g (created g 16384 7) os
  /\ match s_mem (run_ops g (created g 16384 7) os) with Some m => mchain g m = Some [Head 4; Snap 1] | None => False end.
Proof. vm_compute. repeat split; auto; try (right; left; split; [tauto | discriminate]); try (left; reflexivity). Qed.

(** ** one failing call: the operations that only rewrite volume.meta, with the write error tested *)

Definition map_outcome {A B} (h : A -> B) (o : outcome A) : outcome B :=
  match o with Done a => Done (h a) | Crashed => Crashed | Aborted e => Aborted e end.

Lemma exec_bind_ret : forall A B (p : prog A) (h : A -> B) w cnt ca fa,
  exec (bind p (fun a => Ret (h a))) w cnt ca fa =
  let '(w1, t, o) := exec p w cnt ca fa in (w1, t, map_outcome h o).
Proof.
  induction p as [a | e | c k IH]; intros h w cnt ca fa; cbn [bind exec map_outcome]; try reflexivity.
  destruct (hits ca cnt); [reflexivity |].
  destruct (match fails fa cnt with Some e => (w, RErr e) | None => apply_call w c end) as [w1 r].
  rewrite IH. destruct (exec (k r) w1 (S cnt) ca fa) as [[w2 t] o]. reflexivity.
Qed.

Lemma exec_lift : forall (p : prog (mem * res)) w cnt ca fa,
  exec (lift p) w cnt ca fa =
  let '(w1, t, o) := exec p w cnt ca fa in (w1, t, map_outcome (fun x => (Some (fst x), snd x, O)) o).
Proof.
  unfold lift. induction p as [[m e] | e | c k IH]; intros w cnt ca fa; cbn [bind exec map_outcome fst snd]; try reflexivity.
  destruct (hits ca cnt); [reflexivity |].
  destruct (match fails fa cnt with Some e => (w, RErr e) | None => apply_call w c end) as [w1 r].
  rewrite IH. destruct (exec (k r) w1 (S cnt) ca fa) as [[w2 t] o]. reflexivity.
Qed.

(** encodeToFile with one failing call (the error of the write is tested: [fixed g = true]) *)
Lemma exec_encode_fault : forall g c n w k e, fixed g = true -> meta_name n -> meta_content c ->
  let r := exec (encode_to_file g c n) w 0 None (Some (k, e)) in
  (out_of_run r = Done Ok /\ dir_of_run r = enc_fs w n c)
  \/ (out_of_run r = Done Failed /\ only_on (eq (tmp_of n)) w (dir_of_run r))
  \/ (out_of_run r = Done Failed /\ dir_of_run r = enc_fs w n c).
Proof.
  intros g c n w k e Hfx Hn Hc. destruct (meta_name_tmp n Hn) as [Hne Himg].
  assert (Hoo : forall v1 v2, only_on (eq (tmp_of n)) w (set_file (set_file w (tmp_of n) v1) (tmp_of n) v2)).
  { intros v1 v2 x Hx. rewrite !set_file_neq; auto. }
  assert (Hoo1 : forall v1, only_on (eq (tmp_of n)) w (set_file w (tmp_of n) v1)).
  { intros v1 x Hx. rewrite !set_file_neq; auto. }
  unfold encode_to_file. rewrite Hfx.
  destruct c; try contradiction;
  (destruct k as [| [| [| [| [| k]]]]]; cbn [exec hits fails Nat.eqb apply_call]; rewrite ?Himg; cbn [is_err andb exec hits fails Nat.eqb apply_call];
   rewrite ?set_file_eq; cbn [is_err andb exec hits fails Nat.eqb apply_call sync_dir]; rewrite ?set_file_eq;
   cbn [is_err andb exec hits fails Nat.eqb apply_call sync_dir out_of_run dir_of_run fst snd];
   first [ left; split; reflexivity
         | right; left; split; [reflexivity | first [apply only_on_refl | apply Hoo1 | apply Hoo]]
         | right; right; split; reflexivity ]).
Qed.

Theorem fault_atomic_vol : forall g w v i' (h : res -> mem * res) k e,
  fixed g = true -> recover g w = Some v -> i_head i' = i_head (cv_info v) ->
  (forall x, snd (h x) = x) ->
  let p := lift (bind (encode_to_file g (IVol i') Vol) (fun x => Ret (h x))) in
  let r := exec p w 0 None (Some (k, e)) in
  let vpost := mkview i' (cv_chain v) in
  exists vk, recover g (dir_of_run r) = Some vk /\ (vk = v \/ vk = vpost)
             /\ (out_class (out_of_run r) = COk -> vk = vpost).
Proof.
  intros g w v i' h k e Hfx Hrec Hh Hsnd p r vpost.
  assert (Hr : r = let '(w1, t, o) := exec (encode_to_file g (IVol i') Vol) w 0 None (Some (k, e)) in
                   (w1, t, map_outcome (fun x => (Some (fst (h x)), snd (h x), O)) o)).
  { subst r p. rewrite exec_lift. rewrite exec_bind_ret.
    destruct (exec (encode_to_file g (IVol i') Vol) w 0 None (Some (k, e))) as [[w1 t] o].
    destruct o as [x | |]; reflexivity. }
  pose proof (exec_encode_fault g (IVol i') Vol w k e Hfx (or_introl eq_refl) I) as Hcase. cbn zeta in Hcase.
  destruct (exec (encode_to_file g (IVol i') Vol) w 0 None (Some (k, e))) as [[w1 t] o].
  unfold out_of_run, dir_of_run in Hcase. cbn [fst snd] in Hcase. rewrite Hr. unfold out_of_run, dir_of_run. cbn [fst snd].
  destruct Hcase as [[Ho Hw] | [[Ho Hw] | [Ho Hw]]]; subst o.
  - exists vpost. split; [rewrite Hw; apply recover_vol_rewrite; assumption |]. split; [right; reflexivity | auto].
  - exists v. split; [| split; [left; reflexivity |]].
    + eapply recover_only_on; [exact Hrec | exact Hw |]. intros n Hn Hf. cbn in Hn. subst n. exact (footprint_voltmp _ Hf).
    + cbn [map_outcome out_class]. rewrite Hsnd. discriminate.
  - exists vpost. split; [rewrite Hw; apply recover_vol_rewrite; assumption |]. split; [right; reflexivity | auto].
Qed.

(** SetCheckpoint with one failing call, on the repaired encodeToFile *)
Theorem fault_atomic_checkpoint : forall g w m c k e,
  fixed g = true -> InvS g (mkst w (Some m)) ->
  let p := lift (set_checkpoint g m c) in
  let r := exec p w 0 None (Some (k, e)) in
  exists vpre vpost vk,
    recover g w = Some vpre /\ recover g (fst (ff p w)) = Some vpost
    /\ recover g (dir_of_run r) = Some vk /\ (vk = vpre \/ vk = vpost)
    /\ (out_class (out_of_run r) = COk -> vk = vpost).
Proof.
  intros g w m c k e Hfx Hinv p r. destruct Hinv as [v [Hrec [Hwf [Hfr [Hag Hh]]]]]. cbn [s_fs s_mem] in *.
  set (i' := set_checkpoint_info (m_info m) c).
  assert (Hhead : i_head i' = i_head (cv_info v)) by (subst i'; cbn; apply (agree_head g v m Hag)).
  destruct (fault_atomic_vol g w v i' (fun x => (set_info m i', x)) k e Hfx Hrec Hhead (fun x => eq_refl)) as [vk [H1 [H2 H3]]].
  exists v, (mkview i' (cv_chain v)), vk. split; [exact Hrec |]. split.
  - subst p. unfold lift, set_checkpoint. rewrite ff_bind, ff_bind, ff_encode by (cbn; auto; left; reflexivity).
    cbn [ff fst]. apply recover_vol_rewrite; assumption.
  - split; [exact H1 |]. split; [exact H2 | exact H3].
Qed.

(** ** a snapshot / resize / set-checkpoint that does not return success leaves the memory as it was:
    whatever happens inside — a refusal, any call failing ([fa]), and for any later crash point —
    with the repairs /repo 0472ed5, 0c1a1af, a3198e0 ([fix_mem g = true]).  No invariant is needed:
    the repaired functions assign to the Replica only after their last write. *)
Definition mem_guarded (o : op) : Prop :=
  match o with OSnap _ _ _ | OResize _ | OCheckpoint _ => True | _ => False end.

Lemma exec_keepold : forall g m (p : prog (mem * res)) w cnt ca fa,
  exec (keepold g m p) w cnt ca fa =
  let '(w1, t, o) := exec p w cnt ca fa in (w1, t, map_outcome (keep_old g m) o).
Proof. intros. unfold keepold. apply exec_bind_ret. Qed.

Theorem failed_unchanged : forall g w m o cnt ca fa om r n,
  fix_mem g = true -> mem_guarded o ->
  out_of_run (exec (op_prog g (Some m) o) w cnt ca fa) = Done (om, r, n) -> r <> Ok -> om = Some m.
Proof.
  intros g w m o cnt ca fa om r n Hfm Hg Hout Hr.
  assert (Hgen : forall p : prog (mem * res),
            out_of_run (exec (lift (keepold g m p)) w cnt ca fa) = Done (om, r, n) -> om = Some m).
  { intros p H. rewrite exec_lift, exec_keepold in H. destruct (exec p w cnt ca fa) as [[w1 t] o'].
    unfold out_of_run in H. cbn [snd] in H. destruct o' as [[m' r'] | |]; cbn [map_outcome] in H; try discriminate.
    unfold keep_old in H. rewrite Hfm in H. cbn [snd andb] in H.
    destruct (negb (is_ok r')) eqn:E; cbn [fst snd] in H; inversion H; subst; [reflexivity |].
    exfalso. apply Hr. destruct r; try discriminate; reflexivity. }
  destruct o; try contradiction; cbn [op_prog] in Hout; eapply Hgen; exact Hout.
Qed.

(** ... and it was false before them ([fix_mem g = false], everything else as the code has it): a
    SetCheckpoint / Resize whose open of volume.meta.tmp fails returns an error and leaves the new
    checkpoint / size in memory; a Snapshot whose volume.meta cannot be written leaves a memory
    whose Chain() fails *)
Theorem failed_unchanged_refuted :
  let g := mkcfg 8 true true true false true false in
  let s := run_ops g (created g 16384 7) [OOpen; OSetMode (Some RW); OSnap 1 false 1] in
  let mem_after o k := match s_mem s with
                       | Some m => match out_of_run (exec (op_prog g (Some m) o) (s_fs s) 0 None (Some (k, ENOSPC))) with
                                   | Done (Some m', r, _) => Some (r, i_checkpoint (m_info m'), i_size (m_info m'), mchain g m')
                                   | _ => None end
                       | None => None end in
  mem_after (OCheckpoint (Some (Snap 1))) 0 = Some (Failed, Some (Snap 1), 16384%N, Some [Head 1; Snap 1])
  /\ mem_after (OResize 32768) 2 = Some (Failed, None, 32768%N, Some [Head 1; Snap 1])
  /\ mem_after (OSnap 2 false 2) 22 = Some (Failed, None, 16384%N, None).
Proof. vm_compute. repeat split. Qed.

(** ** with the three argument repairs in, every argument value is fine *)

(** ReplaceDisk is the exception: only its refusals are inside [ok_op] (its successful runs are
    exercised by the correspondence runs of the check, not by the invariant theorem) *)
Definition norepl (o : op) : Prop :=
  match o with OReplace _ _ => False | OCrashIn _ (OReplace _ _) => False | _ => True end.

Lemma ok_op_repaired : forall g s o,
  fix_dup g = true -> fix_rev g = true -> fix_children g = true -> InvS g s -> plain o -> norepl o -> ok_op g s o.
Proof.
  intros g [w om] o H1 H2 H3 [v [Hrec [Hwf [Hfr Hmem]]]] Hpl Hnr. unfold ok_op. cbn [s_fs s_mem] in *. rewrite Hrec.
  destruct o; try exact I; try contradiction; destruct om as [m |]; try exact I.
  - destruct Hmem as [[_ [_ [_ [Hfix _]]]] _]. split; [left; exact H1 | intros Hn; apply Hfix; assumption].
  - left. exact H2.
Qed.

Definition shape_ok (o : op) : Prop := match o with OCrashIn _ o' => plain o' | _ => True end.

Lemma ok_hist_repaired : forall g os s,
  cfg_ok g -> fix_dup g = true -> fix_rev g = true -> fix_children g = true ->
  InvS g s -> Forall shape_ok os -> Forall norepl os -> ok_hist g s os.
Proof.
  intros g os. induction os as [| o t IH]; intros s Hcfg H1 H2 H3 Hinv Hsh Hnr; [exact I |].
  inversion Hsh as [| ? ? Ho Ht]; subst. inversion Hnr as [| ? ? Hno Hnt]; subst. cbn [ok_hist].
  assert (Hstep : ok_step g s o).
  { destruct o; cbn [ok_step shape_ok] in *; try (apply ok_op_repaired; assumption || exact I).
    split; [exact Ho | apply ok_op_repaired; try assumption]. destruct o; try exact I; contradiction. }
  split; [exact Hstep |]. apply IH; try assumption. apply step_inv; assumption.
Qed.

(** the C12 oracle on model traces: two representative histories (refusals, removal, revert, mark
    removed, process death, reopen).  In general: the structural clause [wf_obs] is proved for every
    observation of every model trace in Meta/Oracle.v ([wf_obs_history]); the two relational clauses
    are proved at the level of views ([refused_unchanged], [reopen_roundtrip]) but not in the
    oracle's boolean form (which also compares the per-image data-write count); the checks evaluate
    the whole oracle on the model's own trace of every executed history ([model_oracle]). *)
Example c12_oracle_model_ex1 :
  let u := [Head 0; Head 1; Head 2; Head 3; Head 4; Head 5; Snap 0; Snap 1; Snap 2; Snap 3; Snap 9; Odd 2] in
  let os := [OCreate 16384 7; OOpen; OSetMode (Some RW); OWrite; OSnap 1 true 1; OWrite; OSnap 2 false 2; OSnap 3 false 3;
             OPrep (Snap 2); OPrep (Odd 2); OPrep (Snap 3); OPrep (Snap 9); ORemove (Snap 9); ORemove (Snap 3);
             ORemove (Snap 2); OSnap 1 false 4; ORevert (Snap 9) 5; OResize 8192; OClose; OOpen; OCrash; OOpen] in
  c12_oracle None obs0 os (trace_ops (cfg_asis 8) u init os) = true.
Proof. vm_compute. reflexivity. Qed.

Example c12_oracle_model_ex2 :
  let u := [Head 0; Head 1; Head 2; Head 3; Head 4; Snap 0; Snap 1; Snap 2] in
  let os := [OCreate 16384 7; OOpen; OSetMode (Some WO); OSnap 1 false 1; ORemove (Snap 1); OSetMode (Some RW); OSnap 2 true 2;
             ORevert (Snap 1) 9; OCheckpoint (Some (Snap 1)); ORebuilding true; ORebuilding true; OCrash; OCreate 16384 8; OOpen] in
  c12_oracle None obs0 os (trace_ops (cfg_asis 8) u init os) = true.
Proof. vm_compute. reflexivity. Qed.

(** the C08 kill oracle at the level of views, on the model: after process death at any call and a
    reopen, the open succeeds and the reopened replica shows the old or the new chain *)
Theorem kill_reopen_model : forall g s o k,
  cfg_ok g -> InvS g s -> plain o -> ok_op g s o ->
  let w' := dir_of_run (exec (op_prog g (s_mem s) o) (s_fs s) 0 (Some k) None) in
  let s2 := fst (fst (step g (mkst w' None) OOpen)) in
  exists vpre vpost v2 m2,
    recover g (s_fs s) = Some vpre
    /\ recover g (s_fs (fst (fst (step g s o)))) = Some vpost
    /\ snd (fst (step g (mkst w' None) OOpen)) = ResOk
    /\ recover g (s_fs s2) = Some v2 /\ (veq v2 vpre \/ veq v2 vpost)
    /\ s_mem s2 = Some m2 /\ mchain g m2 = Some (names_of_chain (cv_chain v2)).
Proof.
  intros g s o k Hcfg Hinv Hpl Hok w' s2.
  destruct (step_sspec g s o Hcfg Hinv Hok) as [v [Hrec [wf' [om' [r [k0 [vp [Hff [Hinv' [Hrec' [Hst Hr]]]]]]]]]]].
  pose proof (crash_in_states _ (op_prog g (s_mem s) o) (s_fs s) k) as Hin. fold w' in Hin.
  pose proof Hst as Hst0. eapply Forall_forall in Hst; [| exact Hin]. destruct Hst as [vk [Hk1 Hk2]].
  destruct Hinv as [v0 [Hr0 [Hwf0 [Hfr0 _]]]]. rewrite Hrec in Hr0. inversion Hr0; subst v0.
  destruct Hinv' as [vp' [Hrp [Hwfp _]]]. cbn [s_fs] in Hrp. rewrite Hrec' in Hrp. inversion Hrp; subst vp'.
  assert (Hwfk : wf_view vk) by (destruct Hk2 as [E | E]; eapply wf_view_veq; eauto).
  assert (Hfrk : ids_fresh w').
  { pose proof (states_fresh _ (op_prog g (s_mem s) o) (s_fs s) Hfr0) as Hsf. eapply Forall_forall in Hsf; [exact Hsf | exact Hin]. }
  destruct (construct_spec g w' vk (i_size (cv_info vk)) 0 Hk1 Hwfk Hfrk Hcfg) as [wF [mF [c [Hc HF]]]].
  cbn zeta in HF. destruct HF as [HffF [HctxF [HmodeF [HinfoF [HstF [HveqF _]]]]]].
  destruct (recover_elim g w' vk Hk1) as [Hvolk _].
  assert (Hstep2 : step g (mkst w' None) OOpen = (mkst wF (Some mF), ResOk, O)).
  { rewrite (step_ff g (mkst w' None) OOpen wF (Some mF) Ok O); [reflexivity | intros; discriminate |].
    cbn [op_prog s_mem s_fs]. unfold open_volume. cbn [ff apply_call]. rewrite Hvolk. rewrite ff_bind, HffF. reflexivity. }
  subst s2. rewrite Hstep2. cbn [fst snd s_fs s_mem].
  rewrite (step_ff g s o wf' om' r k0 (plain_not_crash o Hpl) Hff). cbn [fst s_fs].
  eexists v, vp, _, mF. split; [exact Hrec |]. split; [exact Hrec' |]. split; [reflexivity |].
  split; [apply HctxF |]. split.
  - destruct Hk2 as [E | E]; [left | right]; (eapply veq_trans; [apply veq_sym; exact HveqF | exact E]).
  - split; [reflexivity |]. apply (mchain_of_ctx g wF _ mF HctxF).
Qed.
