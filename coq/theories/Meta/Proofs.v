(** * Meta: lemmas and theorems (C08, C12). *)
From Coq Require Import List ZArith NArith Bool Arith Lia.
From Jiva Require Import Meta.Model Meta.Corr.
Import ListNotations.

(** ** generic facts about programs: a crash leaves a state of the fault-free run *)

Definition dir_of_run {A} (x : fs * trace * outcome A) : fs := fst (fst x).
Definition out_of_run {A} (x : fs * trace * outcome A) : outcome A := snd x.
Definition trace_of_run {A} (x : fs * trace * outcome A) : trace := snd (fst x).

Lemma exec_Do : forall A (c : call) (k : reply -> prog A) w cnt ca fa,
  exec (Do c k) w cnt ca fa =
  if hits ca cnt then (w, [], Crashed)
  else let '(w1, r) := match fails fa cnt with Some e => (w, RErr e) | None => apply_call w c end in
       let '(w2, t, o) := exec (k r) w1 (S cnt) ca fa in (w2, (c, r) :: t, o).
Proof. reflexivity. Qed.

Lemma states_Do : forall A (c : call) (k : reply -> prog A) w,
  states (Do c k) w = w :: (let '(w1, r) := apply_call w c in states (k r) w1).
Proof. reflexivity. Qed.

(** the directory left by [crash_at = cnt + k] is the k-th state of the fault-free run (the last
    one when the run is shorter) *)
Theorem crash_prefix : forall A (p : prog A) w cnt k,
  dir_of_run (exec p w cnt (Some (cnt + k)) None) = nth k (states p w) (last (states p w) w).
Proof.
  induction p as [a | e | c kk IH]; intros w cnt k.
  - cbn. destruct k as [| [| k]]; reflexivity.
  - cbn. destruct k as [| [| k]]; reflexivity.
  - rewrite exec_Do, states_Do. unfold hits, fails.
    destruct k as [| k].
    + replace (cnt + 0) with cnt by lia. rewrite Nat.eqb_refl. reflexivity.
    + replace (Nat.eqb (cnt + S k) cnt) with false by (symmetry; apply Nat.eqb_neq; lia).
      destruct (apply_call w c) as [w1 r] eqn:Hc.
      specialize (IH r w1 (S cnt) k).
      replace (S cnt + k) with (cnt + S k) in IH by lia.
      destruct (exec (kk r) w1 (S cnt) (Some (cnt + S k)) None) as [[w2 t] o] eqn:He.
      unfold dir_of_run in *. cbn [fst] in *. rewrite IH.
      cbn [nth]. 
      assert (Hl : forall (l : list fs) d1 d2, l <> [] -> last l d1 = last l d2).
      { induction l as [| x [| y l'] IHl]; intros d1 d2 Hne; [congruence | reflexivity |].
        cbn [last]. apply IHl. discriminate. }
      assert (Hne : states (kk r) w1 <> []) by (destruct (kk r); discriminate).
      rewrite (Hl _ w1 w Hne).
      destruct (states (kk r) w1) eqn:Hs; [congruence |]. reflexivity.
Qed.

Corollary crash_in_states : forall A (p : prog A) w k,
  In (dir_of_run (exec p w 0 (Some k) None)) (states p w).
Proof.
  intros A p w k. pose proof (crash_prefix A p w 0 k) as H. cbn [plus] in H. rewrite H.
  assert (Hne : states p w <> []) by (destruct p; discriminate).
  destruct (Nat.lt_ge_cases k (length (states p w))) as [Hlt | Hge].
  - apply nth_In; assumption.
  - rewrite nth_overflow by assumption.
    destruct (states p w) eqn:Hs; [congruence |].
    apply (@exists_last _ (f :: l)) in Hne. destruct Hne as [l' [x Hx]]. rewrite Hx.
    rewrite last_last. apply in_or_app. right. left. reflexivity.
Qed.
