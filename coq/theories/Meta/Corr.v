(** * Meta: observations, trace oracles for C12 and C08, correspondence checkers.
    Executable only; the theorems about the oracles are in Proofs.v. *)
From Coq Require Import List ZArith NArith Bool Arith.
From Jiva Require Import Meta.Model.
Import ListNotations.

(** Which variant of [encodeToFile] /repo has: [false] = the test on [err] (the code as it is),
    [true] = the test on [lastErr] (after .work/patches/f5-encode-err.diff).  The correspondence
    checks and the C08 property file are instantiated with this. *)
Definition code_fixed : bool := false.

(** ** equality tests *)
Definition on_eqb (a b : option N) : bool :=
  match a, b with None, None => true | Some x, Some y => N.eqb x y | _, _ => false end.
Definition disk_eqb (a b : disk) : bool :=
  odname_eqb (d_parent a) (d_parent b) && Bool.eqb (d_removed a) (d_removed b)
  && Bool.eqb (d_user a) (d_user b) && N.eqb (d_created a) (d_created b) && Z.eqb (d_rev a) (d_rev b).
(** the attributes C12 promises across reopen: everything but the per-disk RevisionCounter
    (readDiskData deliberately rewrites values <= 1 on open) *)
Definition attrs_eqb (a b : disk) : bool :=
  odname_eqb (d_parent a) (d_parent b) && Bool.eqb (d_removed a) (d_removed b)
  && Bool.eqb (d_user a) (d_user b) && N.eqb (d_created a) (d_created b).
Definition info_eqb (a b : info) : bool :=
  N.eqb (i_size a) (i_size b) && odname_eqb (i_head a) (i_head b) && Bool.eqb (i_dirty a) (i_dirty b)
  && Bool.eqb (i_rebuilding a) (i_rebuilding b) && odname_eqb (i_parent a) (i_parent b)
  && odname_eqb (i_checkpoint a) (i_checkpoint b) && Z.eqb (i_rev a) (i_rev b).
Fixpoint list_eqb {A} (e : A -> A -> bool) (a b : list A) : bool :=
  match a, b with
  | [], [] => true
  | x :: a', y :: b' => e x y && list_eqb e a' b'
  | _, _ => false
  end.
Definition opt_eqb {A} (e : A -> A -> bool) (a b : option A) : bool :=
  match a, b with None, None => true | Some x, Some y => e x y | _, _ => false end.
Definition omode_eqb := opt_eqb mode_eqb.

(** ** observations *)

(** result classes the harness can tell apart: nil / error / the process is gone *)
Inductive rclass := COk | CErr | CDied.
Definition rclass_eqb (a b : rclass) : bool :=
  match a, b with COk, COk | CErr, CErr | CDied, CDied => true | _, _ => false end.
Definition class_of (r : result) : rclass :=
  match r with ResOk => COk | ResRefused | ResFailed => CErr | ResDied => CDied end.

(** what a file of the directory looks like from outside *)
Inductive fkind :=
| KVol (i : info)
| KDisk (d : disk)
| KImg (canon : dname) (blocks : bool) (tok : list N)
    (* canon: the first name of the universe that is a hard link of the same inode;
       blocks: allocated; tok: content fingerprint (compared only between observations of one side) *)
| KCounter (v : Z)
| KBad.                       (* a metadata file that does not decode / a zero-length file *)

Definition fkind_eqb (a b : fkind) : bool :=
  match a, b with
  | KVol x, KVol y => info_eqb x y
  | KDisk x, KDisk y => disk_eqb x y
  | KImg c1 b1 _, KImg c2 b2 _ => dname_eqb c1 c2 && Bool.eqb b1 b2
  | KCounter x, KCounter y => Z.eqb x y
  | KBad, KBad => true
  | _, _ => false
  end.

Record obs := mkobs {
  o_res : rclass;
  o_nact : nat;                                     (* PrepareRemoveDisk: number of actions returned *)
  o_mode : option mode;                             (* None: no replica open *)
  o_chain : option (list dname);                    (* Chain(); None: closed or error *)
  o_disks : list (dname * disk * list dname);       (* ListDisks(): name, record, children *)
  o_info : option info;                             (* Info() *)
  o_dir : list (name * fkind);                      (* the directory *)
  o_live : list N                                   (* fingerprint of a full read of the volume *)
}.

Definition names_of (u : list dname) : list name :=
  flat_map (fun d => [Img d; Meta d; MetaTmp d]) u ++ [Vol; VolTmp; Counter].

Definition same_inode (f : name -> option ino) (id : N) (d : dname) : bool :=
  match f (Img d) with Some (IImg id' _) => N.eqb id id' | _ => false end.
Definition canon_of (u : list dname) (f : name -> option ino) (id : N) (dflt : dname) : dname :=
  match filter (same_inode f id) u with x :: _ => x | [] => dflt end.

Definition kind_of (u : list dname) (f : name -> option ino) (n : name) (c : ino) : fkind :=
  match n, c with
  | Img d, IImg id g => KImg (canon_of u f id d) (N.ltb 0 g) [id; g]
  | Vol, IVol i | VolTmp, IVol i => KVol i
  | Meta _, IDisk d | MetaTmp _, IDisk d => KDisk d
  | Counter, ICounter v => KCounter v
  | _, _ => KBad
  end.

Definition dir_of (u : list dname) (w : fs) : list (name * fkind) :=
  flat_map (fun n => match files w n with Some c => [(n, kind_of u (files w) n c)] | None => [] end) (names_of u).

Definition disks_of (u : list dname) (m : mem) : list (dname * disk * list dname) :=
  flat_map (fun d => match m_disks m d with
                     | Some x => [(d, x, filter (fun c => memd c (m_children m (Some d))) u)]
                     | None => [] end) u.

(** the live data is a function of the images along the chain *)
Definition live_of (g : cfg) (w : fs) (m : mem) : list N :=
  match mchain g m with
  | Some l => flat_map (fun d => match files w (Img d) with Some (IImg id gn) => [id; gn] | _ => [0%N] end) l
  | None => []
  end.

Definition observe (g : cfg) (u : list dname) (s : st) (r : result) (n : nat) : obs :=
  match s_mem s with
  | None => mkobs (class_of r) n None None [] None (dir_of u (s_fs s)) []
  | Some m => mkobs (class_of r) n (Some (m_mode m)) (mchain g m) (disks_of u m) (Some (m_info m))
                    (dir_of u (s_fs s)) (live_of g (s_fs s) m)
  end.

Fixpoint trace_ops (g : cfg) (u : list dname) (s : st) (os : list op) : list obs :=
  match os with
  | [] => []
  | o :: t => let '(s1, r, n) := step g s o in observe g u s1 r n :: trace_ops g u s1 t
  end.

(** ** first differing field between the model's and the implementation's observation
    1 result  2 actions  3 mode  4 chain  5 disks  6 info  7 directory *)
Definition dentry_eqb (a b : dname * disk * list dname) : bool :=
  let '(n1, d1, c1) := a in let '(n2, d2, c2) := b in
  dname_eqb n1 n2 && disk_eqb d1 d2 && list_eqb dname_eqb c1 c2.
Definition fentry_eqb (a b : name * fkind) : bool :=
  name_eqb (fst a) (fst b) && fkind_eqb (snd a) (snd b).

Definition obs_diff (a b : obs) : nat :=
  if negb (rclass_eqb (o_res a) (o_res b)) then 1
  else if negb (Nat.eqb (o_nact a) (o_nact b)) then 2
  else if negb (omode_eqb (o_mode a) (o_mode b)) then 3
  else if negb (opt_eqb (list_eqb dname_eqb) (o_chain a) (o_chain b)) then 4
  else if negb (list_eqb dentry_eqb (o_disks a) (o_disks b)) then 5
  else if negb (opt_eqb info_eqb (o_info a) (o_info b)) then 6
  else if negb (list_eqb fentry_eqb (o_dir a) (o_dir b)) then 7
  else 0.

Fixpoint first_diff (i : nat) (a b : list obs) : option (nat * nat) :=
  match a, b with
  | [], [] => None
  | x :: a', y :: b' =>
      match obs_diff x y with
      | O => first_diff (S i) a' b'
      | k => Some (i, k)
      end
  | _, _ => Some (i, 9)
  end.

(** ** C12 as a predicate on any observed trace *)

Fixpoint lookup_disk (l : list (dname * disk * list dname)) (d : dname) : option (disk * list dname) :=
  match l with
  | [] => None
  | (n, x, c) :: t => if dname_eqb n d then Some (x, c) else lookup_disk t d
  end.
Fixpoint lookup_file (l : list (name * fkind)) (n : name) : option fkind :=
  match l with
  | [] => None
  | (m, k) :: t => if name_eqb m n then Some k else lookup_file t n
  end.

Fixpoint nodupb (l : list dname) : bool :=
  match l with [] => true | x :: t => negb (memd x t) && nodupb t end.

(** the chain is a path: every member is known, its Parent is the next member, the last has none;
    its only child is the previous member; its image and metadata file exist and the metadata file
    holds the in-memory record *)
Fixpoint path_ok (o : obs) (child : option dname) (l : list dname) : bool :=
  match l with
  | [] => true
  | x :: t =>
      match lookup_disk (o_disks o) x with
      | None => false
      | Some (dk, ch) =>
          odname_eqb (d_parent dk) (match t with y :: _ => Some y | [] => None end)
          && list_eqb dname_eqb ch (match child with Some c => [c] | None => [] end)
          && match lookup_file (o_dir o) (Img x) with Some (KImg _ _ _) => true | _ => false end
          && match lookup_file (o_dir o) (Meta x) with Some (KDisk dd) => disk_eqb dd dk | _ => false end
          && path_ok o (Some x) t
      end
  end.

Definition wf_obs (o : obs) : bool :=
  match o_mode o, o_chain o, o_info o with
  | None, _, _ => true                                (* nothing is open: nothing to be consistent *)
  | Some _, Some l, Some i =>
      nodupb l
      && (match l with h :: _ => odname_eqb (i_head i) (Some h) | [] => false end)
      && Nat.eqb (length (o_disks o)) (length l)
      && path_ok o None l
      && match lookup_file (o_dir o) Vol with
         | Some (KVol iv) => odname_eqb (i_head iv) (i_head i) && N.eqb (i_size iv) (i_size i)
         | _ => false
         end
  | _, _, _ => false
  end.

(** what has to survive a refused / failed operation and a close + open *)
Definition img_tok (o : obs) (d : dname) : option (dname * list N) :=
  match lookup_file (o_dir o) (Img d) with Some (KImg c _ t) => Some (c, t) | _ => None end.
Definition tok_eqb (a b : option (dname * list N)) : bool :=
  match a, b with
  | Some (c1, t1), Some (c2, t2) => dname_eqb c1 c2 && list_eqb N.eqb t1 t2
  | _, _ => false
  end.
Definition member_same (full : bool) (a b : obs) (d : dname) : bool :=
  match lookup_disk (o_disks a) d, lookup_disk (o_disks b) d with
  | Some (x, _), Some (y, _) => (if full then disk_eqb x y else attrs_eqb x y) && tok_eqb (img_tok a d) (img_tok b d)
  | _, _ => false
  end.
Definition same_chain (full : bool) (a b : obs) : bool :=
  match o_chain a, o_chain b with
  | Some l1, Some l2 => list_eqb dname_eqb l1 l2 && forallb (member_same full a b) l1
                        && list_eqb N.eqb (o_live a) (o_live b)
  | _, _ => false
  end.
Definition same_info_modulo_dirty (a b : obs) : bool :=
  match o_info a, o_info b with
  | Some x, Some y => N.eqb (i_size x) (i_size y) && odname_eqb (i_head x) (i_head y)
                      && Bool.eqb (i_rebuilding x) (i_rebuilding y) && odname_eqb (i_parent x) (i_parent y)
                      && odname_eqb (i_checkpoint x) (i_checkpoint y)
  | _, _ => false
  end.

Definition is_open (o : obs) : bool := match o_mode o with Some _ => true | None => false end.

(** one step.  [lo]: the last observation with the replica open (for the reopen round trip). *)
Definition c12_step (lo : option obs) (prev : obs) (t : op) (cur : obs) : bool :=
  match o_res cur with
  | CDied => false                                       (* no fault is injected in these histories *)
  | _ =>
    wf_obs cur
    && (if rclass_eqb (o_res cur) CErr && is_open prev
        then is_open cur && same_chain true prev cur && same_info_modulo_dirty prev cur
        else true)
    && (match t, lo with
        | OOpen, Some l =>
            if is_open prev then true
            else if rclass_eqb (o_res cur) COk
                 then same_chain false l cur && same_info_modulo_dirty l cur
                 else false                              (* a directory left by close / process death between operations must open *)
        | _, _ => true
        end)
  end.

Fixpoint c12_oracle (lo : option obs) (prev : obs) (ts : list op) (os : list obs) : bool :=
  match ts, os with
  | [], [] => true
  | t :: ts', o :: os' =>
      c12_step lo prev t o && c12_oracle (if is_open o then Some o else lo) o ts' os'
  | _, _ => false
  end.

Definition obs0 : obs := mkobs COk 0 None None [] None [] [].

(** ** one T1 correspondence case *)
Record case := mkcase { c_cfg : cfg; c_univ : list dname; c_ops : list op; c_obs : list obs }.

Definition case_trace (c : case) : list obs := trace_ops (c_cfg c) (c_univ c) init (c_ops c).

(** index of the first step at which the oracle fails (for reporting), or None *)
Fixpoint c12_first_fail (i : nat) (lo : option obs) (prev : obs) (ts : list op) (os : list obs) : option nat :=
  match ts, os with
  | t :: ts', o :: os' =>
      if c12_step lo prev t o then c12_first_fail (S i) (if is_open o then Some o else lo) o ts' os'
      else Some i
  | _, _ => None
  end.

Record verdict := mkverdict {
  v_diff : option (nat * nat);       (* first step / field where implementation and model differ *)
  v_c12 : bool;                      (* C12 oracle on the implementation's trace *)
  v_fail : option nat                (* step at which it fails *)
}.

Definition check_case (c : case) : verdict :=
  mkverdict (first_diff 0 (case_trace c) (c_obs c))
            (c12_oracle None obs0 (c_ops c) (c_obs c))
            (c12_first_fail 0 None obs0 (c_ops c) (c_obs c)).

(** (case index, (step, field), oracle ok, failing step or 999) for every case that differs or fails *)
Fixpoint bad_cases (i : nat) (cs : list case) : list (nat * (nat * nat) * bool * nat) :=
  match cs with
  | [] => []
  | c :: cs' =>
      let v := check_case c in
      let rest := bad_cases (S i) cs' in
      let fl := match v_fail v with Some k => k | None => 999 end in
      match v_diff v with
      | Some d => (i, d, v_c12 v, fl) :: rest
      | None => if v_c12 v then rest else (i, (0, 0), false, fl) :: rest
      end
  end.

(** coverage predicates, evaluated on the model side.
    1 a snapshot / remove / revert succeeded on a chain of >= 2   2 an operation was refused with the replica open
    4 close/crash followed by a successful open                    8 a mark-removed succeeded (actions returned)
    16 a refused operation with an argument naming an existing chain member or file *)
Fixpoint flags_from (g : cfg) (s : st) (os : list op) (reopen_pending : bool) : nat :=
  match os with
  | [] => 0
  | o :: t =>
      let '(s1, r, n) := step g s o in
      let opened := match s_mem s with Some _ => true | None => false end in
      let f1 := match o, r with
                | OSnap _ _ _, ResOk | ORemove _, ResOk | ORevert _ _, ResOk =>
                    match s_mem s with Some m => if Nat.leb 2 (length (m_active m)) then 1 else 0 | None => 0 end
                | _, _ => 0 end in
      let f2 := match r with ResRefused => if opened then 2 else 0 | _ => 0 end in
      let f4 := match o, r with OOpen, ResOk => if reopen_pending then 4 else 0 | _, _ => 0 end in
      let f8 := match o, r with OPrep _, ResOk => if Nat.leb 1 n then 8 else 0 | _, _ => 0 end in
      let pend := match o with OClose | OCrash => opened || reopen_pending | OOpen => false | _ => reopen_pending end in
      Nat.lor (Nat.lor (Nat.lor f1 f2) (Nat.lor f4 f8)) (flags_from g s1 t pend)
  end.
Definition case_flags (c : case) : nat := flags_from (c_cfg c) init (c_ops c) false.
Definition coverage (cs : list case) : list nat := map case_flags cs.
