(** * Meta: observations, trace oracles for C12 and C08, correspondence checkers.
    Executable only; the theorems about the oracles are in Proofs.v. *)
From Coq Require Import List ZArith NArith Bool Arith.
From Jiva Require Import Meta.Model.
Import ListNotations.

(** Which of the repairs /repo has (see [cfg] in Model.v; patches in .work/patches).  All [false] =
    the code as it is.  The correspondence checks and the property files are instantiated with this:
    when a patch is committed to /repo, flip its flag here. *)
Definition code_fixed : bool := true.         (* f5-encode-err.diff *)
Definition code_fix_dup : bool := true.       (* /repo 3b20437: a snapshot name that is in diskData is refused up front *)
Definition code_fix_rev : bool := true.       (* f10-revert-target.diff *)
Definition code_fix_commit : bool := false.   (* f11-createdisk-commit.diff *)
Definition code_fix_children : bool := true.  (* f12-children-entry.diff *)
Definition code_fix_mem : bool := true.       (* /repo 0472ed5, 0c1a1af, a3198e0: Resize / SetCheckpoint / createDisk assign to the Replica only after the last write *)
Definition code_cfg (maxlen : nat) : cfg :=
  mkcfg maxlen code_fixed code_fix_dup code_fix_rev code_fix_commit code_fix_children code_fix_mem.

(** ** equality tests *)
Definition on_eqb (a b : option N) : bool :=
  match a, b with None, None => true | Some x, Some y => N.eqb x y | _, _ => false end.
Definition disk_eqb (a b : disk) : bool :=
  odname_eqb (d_parent a) (d_parent b) && Bool.eqb (d_removed a) (d_removed b)
  && Bool.eqb (d_user a) (d_user b) && N.eqb (d_created a) (d_created b) && Z.eqb (d_rev a) (d_rev b).
(** the attributes C12 promises across reopen: everything but the per-disk RevisionCounter
    (readDiskData deliberately rewrites values <= 1 on open) *)
Definition attrs_eqb (a b : disk) : bool :=
  odname_eqb (d_parent a) (d_parent b) && Bool.eqb (d_removed a) (d_removed b)
  && Bool.eqb (d_user a) (d_user b) && N.eqb (d_created a) (d_created b).
Definition info_eqb (a b : info) : bool :=
  N.eqb (i_size a) (i_size b) && odname_eqb (i_head a) (i_head b) && Bool.eqb (i_dirty a) (i_dirty b)
  && Bool.eqb (i_rebuilding a) (i_rebuilding b) && odname_eqb (i_parent a) (i_parent b)
  && odname_eqb (i_checkpoint a) (i_checkpoint b) && Z.eqb (i_rev a) (i_rev b).
Fixpoint list_eqb {A} (e : A -> A -> bool) (a b : list A) : bool :=
  match a, b with
  | [], [] => true
  | x :: a', y :: b' => e x y && list_eqb e a' b'
  | _, _ => false
  end.
Definition opt_eqb {A} (e : A -> A -> bool) (a b : option A) : bool :=
  match a, b with None, None => true | Some x, Some y => e x y | _, _ => false end.
Definition omode_eqb := opt_eqb mode_eqb.

(** ** observations *)

(** result classes the harness can tell apart: nil / error / the process is gone *)
Inductive rclass := COk | CErr | CDied.
Definition rclass_eqb (a b : rclass) : bool :=
  match a, b with COk, COk | CErr, CErr | CDied, CDied => true | _, _ => false end.
Definition class_of (r : result) : rclass :=
  match r with ResOk => COk | ResRefused | ResFailed => CErr | ResDied => CDied end.

(** what a file of the directory looks like from outside *)
Inductive fkind :=
| KVol (i : info)
| KDisk (d : disk)
| KImg (canon : dname) (blocks : bool) (tok : list N)
    (* canon: the first name of the universe that is a hard link of the same inode;
       blocks: allocated; tok: content fingerprint (compared only between observations of one side) *)
| KCounter (v : Z)
| KBad.                       (* a metadata file that does not decode / a zero-length file *)

Definition fkind_eqb (a b : fkind) : bool :=
  match a, b with
  | KVol x, KVol y => info_eqb x y
  | KDisk x, KDisk y => disk_eqb x y
  | KImg c1 b1 _, KImg c2 b2 _ => dname_eqb c1 c2 && Bool.eqb b1 b2
  | KCounter x, KCounter y => Z.eqb x y
  | KBad, KBad => true
  | _, _ => false
  end.

Record obs := mkobs {
  o_res : rclass;
  o_nact : nat;                                     (* PrepareRemoveDisk: number of actions returned *)
  o_mode : option mode;                             (* None: no replica open *)
  o_chain : option (list dname);                    (* Chain(); None: closed or error *)
  o_disks : list (dname * disk * list dname);       (* ListDisks(): name, record, children *)
  o_info : option info;                             (* Info() *)
  o_dir : list (name * fkind);                      (* the directory *)
  o_live : list N                                   (* fingerprint of a full read of the volume *)
}.

Definition names_of (u : list dname) : list name :=
  flat_map (fun d => [Img d; Meta d; MetaTmp d]) u ++ [Vol; VolTmp; Counter].

Definition same_inode (f : name -> option ino) (id : N) (d : dname) : bool :=
  match f (Img d) with Some (IImg id' _) => N.eqb id id' | _ => false end.
Definition canon_of (u : list dname) (f : name -> option ino) (id : N) (dflt : dname) : dname :=
  match filter (same_inode f id) u with x :: _ => x | [] => dflt end.

Definition kind_of (u : list dname) (f : name -> option ino) (n : name) (c : ino) : fkind :=
  match n, c with
  | Img d, IImg id g => KImg (canon_of u f id d) (N.ltb 0 g) [id; g]
  | Vol, IVol i | VolTmp, IVol i => KVol i
  | Meta _, IDisk d | MetaTmp _, IDisk d => KDisk d
  | Counter, ICounter v => KCounter v
  | _, _ => KBad
  end.

Definition dir_of (u : list dname) (w : fs) : list (name * fkind) :=
  flat_map (fun n => match files w n with Some c => [(n, kind_of u (files w) n c)] | None => [] end) (names_of u).

Definition disks_of (u : list dname) (m : mem) : list (dname * disk * list dname) :=
  flat_map (fun d => match m_disks m d with
                     | Some x => [(d, x, filter (fun c => memd c (m_children m (Some d))) u)]
                     | None => [] end) u.

(** the live data is a function of the images along the chain *)
Definition live_of (g : cfg) (w : fs) (m : mem) : list N :=
  match mchain g m with
  | Some l => flat_map (fun d => match files w (Img d) with Some (IImg id gn) => [id; gn] | _ => [0%N] end) l
  | None => []
  end.

Definition observe (g : cfg) (u : list dname) (s : st) (r : result) (n : nat) : obs :=
  match s_mem s with
  | None => mkobs (class_of r) n None None [] None (dir_of u (s_fs s)) []
  | Some m => mkobs (class_of r) n (Some (m_mode m)) (mchain g m) (disks_of u m) (Some (m_info m))
                    (dir_of u (s_fs s)) (live_of g (s_fs s) m)
  end.

(** an obstacle: a directory placed at the name of a temporary metadata file (volume.meta.tmp,
    <disk>.meta.tmp).  While it is there every open of that name fails; nothing else is affected:
    only encodeToFile uses these names, and only after a successful open.  This is how the
    histories of the C12 check make an operation FAIL without any tracing tool. *)
Fixpoint memn (x : name) (l : list name) : bool :=
  match l with [] => false | y :: t => name_eqb x y || memn x t end.
Definition blocked_call (b : list name) (c : call) : bool :=
  match c with
  | COpenTrunc n | COpenCreatTrunc n | COpenCreat n | COpenRW n => memn n b
  | _ => false
  end.
Fixpoint exec_blocked {A} (b : list name) (p : prog A) (w : fs) : fs * outcome A :=
  match p with
  | Ret a => (w, Done a)
  | Abort e => (w, Aborted e)
  | Do c k => let '(w1, r) := if blocked_call b c then (w, RErr EIO) else apply_call w c in
              exec_blocked b (k r) w1
  end.
(** one operation while the names in [b] are blocked ([b = []]: [step]) *)
Definition bstep (g : cfg) (b : list name) (s : st) (o : op) : st * result * nat :=
  match b with
  | [] => step g s o
  | _ => match exec_blocked b (op_prog g (s_mem s) o) (s_fs s) with
         | (w, Done (om, e, n)) => (mkst w om, result_of e, n)
         | (w, _) => (mkst w None, ResDied, O)
         end
  end.

Fixpoint trace_bops (g : cfg) (u : list dname) (s : st) (os : list op) (bs : list (list name)) : list obs :=
  match os with
  | [] => []
  | o :: t => let '(s1, r, n) := bstep g (hd [] bs) s o in observe g u s1 r n :: trace_bops g u s1 t (tl bs)
  end.

Fixpoint trace_ops (g : cfg) (u : list dname) (s : st) (os : list op) : list obs :=
  match os with
  | [] => []
  | o :: t => let '(s1, r, n) := step g s o in observe g u s1 r n :: trace_ops g u s1 t
  end.

(** ** first differing field between the model's and the implementation's observation
    1 result  2 actions  3 mode  4 chain  5 disks  6 info  7 directory *)
Definition dentry_eqb (a b : dname * disk * list dname) : bool :=
  let '(n1, d1, c1) := a in let '(n2, d2, c2) := b in
  dname_eqb n1 n2 && disk_eqb d1 d2 && list_eqb dname_eqb c1 c2.
Definition fentry_eqb (a b : name * fkind) : bool :=
  name_eqb (fst a) (fst b) && fkind_eqb (snd a) (snd b).

Definition obs_diff (a b : obs) : nat :=
  if negb (rclass_eqb (o_res a) (o_res b)) then 1
  else if negb (Nat.eqb (o_nact a) (o_nact b)) then 2
  else if negb (omode_eqb (o_mode a) (o_mode b)) then 3
  else if negb (opt_eqb (list_eqb dname_eqb) (o_chain a) (o_chain b)) then 4
  else if negb (list_eqb dentry_eqb (o_disks a) (o_disks b)) then 5
  else if negb (opt_eqb info_eqb (o_info a) (o_info b)) then 6
  else if negb (list_eqb fentry_eqb (o_dir a) (o_dir b)) then 7
  else 0.

Fixpoint first_diff (i : nat) (a b : list obs) : option (nat * nat) :=
  match a, b with
  | [], [] => None
  | x :: a', y :: b' =>
      match obs_diff x y with
      | O => first_diff (S i) a' b'
      | k => Some (i, k)
      end
  | _, _ => Some (i, 9)
  end.

(** ** C12 as a predicate on any observed trace *)

Fixpoint lookup_disk (l : list (dname * disk * list dname)) (d : dname) : option (disk * list dname) :=
  match l with
  | [] => None
  | (n, x, c) :: t => if dname_eqb n d then Some (x, c) else lookup_disk t d
  end.
Fixpoint lookup_file (l : list (name * fkind)) (n : name) : option fkind :=
  match l with
  | [] => None
  | (m, k) :: t => if name_eqb m n then Some k else lookup_file t n
  end.

Fixpoint nodupb (l : list dname) : bool :=
  match l with [] => true | x :: t => negb (memd x t) && nodupb t end.

(** the chain is a path: every member is known, its Parent is the next member, the last has none;
    its only child is the previous member; its image and metadata file exist and the metadata file
    holds the in-memory record *)
Fixpoint path_ok (o : obs) (child : option dname) (l : list dname) : bool :=
  match l with
  | [] => true
  | x :: t =>
      match lookup_disk (o_disks o) x with
      | None => false
      | Some (dk, ch) =>
          odname_eqb (d_parent dk) (match t with y :: _ => Some y | [] => None end)
          && list_eqb dname_eqb ch (match child with Some c => [c] | None => [] end)
          && match lookup_file (o_dir o) (Img x) with Some (KImg _ _ _) => true | _ => false end
          && match lookup_file (o_dir o) (Meta x) with Some (KDisk dd) => disk_eqb dd dk | _ => false end
          && path_ok o (Some x) t
      end
  end.

Definition wf_obs (o : obs) : bool :=
  match o_mode o, o_chain o, o_info o with
  | None, _, _ => true                                (* nothing is open: nothing to be consistent *)
  | Some _, Some l, Some i =>
      nodupb l
      && nodupb (flat_map (fun d => match lookup_file (o_dir o) (Img d) with
                                    | Some (KImg c _ _) => [c] | _ => [] end) l)
      && (match l with h :: _ => odname_eqb (i_head i) (Some h) | [] => false end)
      && Nat.eqb (length (o_disks o)) (length l)
      && path_ok o None l
      && match lookup_file (o_dir o) Vol with
         | Some (KVol iv) => odname_eqb (i_head iv) (i_head i) && N.eqb (i_size iv) (i_size i)
         | _ => false
         end
  | _, _, _ => false
  end.

(** what has to survive a refused / failed operation and a close + open *)
Definition img_tok (o : obs) (d : dname) : option (dname * list N) :=
  match lookup_file (o_dir o) (Img d) with Some (KImg c _ t) => Some (c, t) | _ => None end.
(** same content.  The hard-link representative is not compared: it depends on names outside the
    chain (a stale old head is a second name of the latest snapshot's inode); [wf_obs] demands
    instead that the members of one chain are pairwise different inodes. *)
Definition tok_eqb (a b : option (dname * list N)) : bool :=
  match a, b with
  | Some (_, t1), Some (_, t2) => list_eqb N.eqb t1 t2
  | _, _ => false
  end.
Definition member_same (full : bool) (a b : obs) (d : dname) : bool :=
  match lookup_disk (o_disks a) d, lookup_disk (o_disks b) d with
  | Some (x, _), Some (y, _) => (if full then disk_eqb x y else attrs_eqb x y) && tok_eqb (img_tok a d) (img_tok b d)
  | _, _ => false
  end.
Definition same_members (full : bool) (a b : obs) : bool :=
  match o_chain a, o_chain b with
  | Some l1, Some l2 => list_eqb dname_eqb l1 l2 && forallb (member_same full a b) l1
  | _, _ => false
  end.
(** a replica whose Close failed is in mode CLOSED with its image files closed: nothing can be read *)
Definition readable (o : obs) : bool :=
  match o_mode o with Some CLOSED | None => false | Some _ => true end.
Definition same_chain (full : bool) (a b : obs) : bool :=
  same_members full a b && (if readable a && readable b then list_eqb N.eqb (o_live a) (o_live b) else true).
Definition same_info_modulo_dirty (a b : obs) : bool :=
  match o_info a, o_info b with
  | Some x, Some y => N.eqb (i_size x) (i_size y) && odname_eqb (i_head x) (i_head y)
                      && Bool.eqb (i_rebuilding x) (i_rebuilding y) && odname_eqb (i_parent x) (i_parent y)
                      && odname_eqb (i_checkpoint x) (i_checkpoint y)
  | _, _ => false
  end.

Definition is_open (o : obs) : bool := match o_mode o with Some _ => true | None => false end.

(** one step.  [lo]: the last observation with the replica open (for the reopen round trip). *)
Definition c12_step (blk : bool) (lo : option obs) (prev : obs) (t : op) (cur : obs) : bool :=
  match t, o_res cur with
  | OCrashIn _ _, _ => negb (is_open cur)                (* the process is gone; judged at the next open *)
  | _, CDied => false                                    (* no fault is injected in these histories *)
  | _, _ =>
    wf_obs cur
    && (if rclass_eqb (o_res cur) CErr && is_open prev
        then is_open cur && same_chain true prev cur && same_info_modulo_dirty prev cur
        else true)
    && (match t, lo with
        | OOpen, Some l =>
            if is_open prev then true
            else if rclass_eqb (o_res cur) COk
                 then same_chain false l cur && same_info_modulo_dirty l cur
                 else blk && negb (is_open cur)          (* a directory left by close / process death between operations must
                                                            open — unless this open was made to fail by an obstacle *)
        | _, _ => true
        end)
  end.

Definition isblk (bs : list (list name)) : bool := match hd [] bs with [] => false | _ => true end.

(** [bs]: per operation, the names at which an obstacle stood while it ran *)
Fixpoint c12_oracle_b (lo : option obs) (prev : obs) (ts : list op) (bs : list (list name)) (os : list obs) : bool :=
  match ts, os with
  | [], [] => true
  | t :: ts', o :: os' =>
      c12_step (isblk bs) lo prev t o && c12_oracle_b (if is_open o then Some o else lo) o ts' (tl bs) os'
  | _, _ => false
  end.
Definition c12_oracle (lo : option obs) (prev : obs) (ts : list op) (os : list obs) : bool :=
  c12_oracle_b lo prev ts [] os.

Definition obs0 : obs := mkobs COk 0 None None [] None [] [].

(** ** one T1 correspondence case *)
Record case := mkcase { c_cfg : cfg; c_univ : list dname; c_ops : list op; c_blk : list (list name); c_obs : list obs }.

(** [c_blk]: per operation, the names blocked while it runs (missing entries: none) *)
Definition case_trace (c : case) : list obs := trace_bops (c_cfg c) (c_univ c) init (c_ops c) (c_blk c).

(** index of the first step at which the oracle fails (for reporting), or None *)
Fixpoint c12_first_fail (i : nat) (lo : option obs) (prev : obs) (ts : list op) (bs : list (list name)) (os : list obs) : option nat :=
  match ts, os with
  | t :: ts', o :: os' =>
      if c12_step (isblk bs) lo prev t o then c12_first_fail (S i) (if is_open o then Some o else lo) o ts' (tl bs) os'
      else Some i
  | _, _ => None
  end.

Record verdict := mkverdict {
  v_diff : option (nat * nat);       (* first step / field where implementation and model differ *)
  v_c12 : bool;                      (* C12 oracle on the implementation's trace *)
  v_fail : option nat                (* step at which it fails *)
}.

Definition check_case (c : case) : verdict :=
  mkverdict (first_diff 0 (case_trace c) (c_obs c))
            (c12_oracle_b None obs0 (c_ops c) (c_blk c) (c_obs c))
            (c12_first_fail 0 None obs0 (c_ops c) (c_blk c) (c_obs c)).

(** (case index, (step, field), oracle ok, failing step or 999) for every case that differs or fails *)
Fixpoint bad_cases (i : nat) (cs : list case) : list (nat * (nat * nat) * bool * nat) :=
  match cs with
  | [] => []
  | c :: cs' =>
      let v := check_case c in
      let rest := bad_cases (S i) cs' in
      let fl := match v_fail v with Some k => k | None => 999 end in
      match v_diff v with
      | Some d => (i, d, v_c12 v, fl) :: rest
      | None => if v_c12 v then rest else (i, (0, 0), false, fl) :: rest
      end
  end.

(** the oracle on the model's own trace of each case (it must hold wherever it holds on the
    implementation's trace: evaluated on every executed history, see checks/c12.py) *)
Definition model_oracle (cs : list case) : list bool :=
  map (fun c => c12_oracle_b None obs0 (c_ops c) (c_blk c) (case_trace c)) cs.

(** coverage predicates, evaluated on the model side.
    1 a snapshot / remove / revert succeeded on a chain of >= 2   2 an operation was refused with the replica open
    4 close/crash followed by a successful open                    8 a mark-removed succeeded (actions returned)
    16 a refused operation with an argument naming an existing chain member or file
    32 an operation failed (obstacle at a temporary metadata name) with the replica open *)
Fixpoint flags_from (g : cfg) (s : st) (os : list op) (bs : list (list name)) (reopen_pending : bool) : nat :=
  match os with
  | [] => 0
  | o :: t =>
      let '(s1, r, n) := bstep g (hd [] bs) s o in
      let opened := match s_mem s with Some _ => true | None => false end in
      let f1 := match o, r with
                | OSnap _ _ _, ResOk | ORemove _, ResOk | ORevert _ _, ResOk =>
                    match s_mem s with Some m => if Nat.leb 2 (length (m_active m)) then 1 else 0 | None => 0 end
                | _, _ => 0 end in
      let f2 := match r with ResRefused => if opened then 2 else 0 | _ => 0 end in
      let f4 := match o, r with OOpen, ResOk => if reopen_pending then 4 else 0 | _, _ => 0 end in
      let f8 := match o, r with OPrep _, ResOk => if Nat.leb 1 n then 8 else 0 | _, _ => 0 end in
      let pend := match o with OClose | OCrash | OCrashIn _ _ => opened || reopen_pending | OOpen => false | _ => reopen_pending end in
      let f32 := match hd [] bs, r with _ :: _, ResFailed => if opened then 32 else 0 | _, _ => 0 end in
      Nat.lor (Nat.lor (Nat.lor f1 f2) (Nat.lor (Nat.lor f4 f8) f32)) (flags_from g s1 t (tl bs) pend)
  end.
Definition case_flags (c : case) : nat := flags_from (c_cfg c) init (c_ops c) (c_blk c) false.
Definition coverage (cs : list case) : list nat := map case_flags cs.

(** ** T1v: the operation under test as a sequence of system calls *)

(** canonical form of the system calls strace shows (paths reduced to names, fds to the name they
    were opened on; stat/read/close/pread are not traced) *)
Inductive sys :=
| SOpenDir                                   (* openat(dir, O_RDONLY) *)
| SOpenR (n : name)                          (* openat(file, O_RDONLY) *)
| SOpenW (n : name) (creat trunc : bool)     (* openat(file, O_RDWR [|O_CREAT] [|O_TRUNC]) *)
| SWrite (n : name)
| SRename (a b : name)
| SLink (a b : name)
| SUnlink (n : name)
| STruncate (n : name)
| SFsync
| SPwrite (n : name)
| SMkdir.

Definition sys_of_call (c : call) : list sys :=
  match c with
  | CStat _ | CClose _ | CPreadCounter => []
  | COpenTrunc n => [SOpenW n false true]
  | COpenCreatTrunc n => [SOpenW n true true]
  | COpenRW n => [SOpenW n false false]
  | COpenCreat n => [SOpenW n true false]
  | CWriteAll n _ => [SWrite n]
  | CRename a b => [SRename a b]
  | CLink a b => [SLink a b]
  | CUnlink n => [SUnlink n]
  | CTruncate n _ => [STruncate n]
  | CFsyncDir => [SOpenDir; SFsync]
  | CMkdirDir => [SMkdir]
  | CReadDir => [SOpenDir]
  | CReadFile n => [SOpenR n]
  | CPwriteCounter _ => [SPwrite Counter]
  | CPwriteImg n => [SPwrite n]
  end.

Local Open Scope N_scope.
Definition dcode (d : dname) : N :=
  match d with Head n => 3 * N.of_nat n | Snap s => 3 * s + 1 | Odd k => 3 * k + 2 end.
Definition ncode (n : name) : N :=
  match n with
  | Img d => 8 * dcode d + 1 | Meta d => 8 * dcode d + 2 | MetaTmp d => 8 * dcode d + 3
  | Vol => 4 | VolTmp => 5 | Counter => 6
  end.
Definition sys_code (s : sys) : N * N * N :=
  match s with
  | SOpenDir => (1, 0, 0)
  | SOpenR n => (2, ncode n, 0)
  | SOpenW n c t => (3, ncode n, (if c then 2 else 0) + (if t then 1 else 0))
  | SWrite n => (4, ncode n, 0)
  | SRename a b => (5, ncode a, ncode b)
  | SLink a b => (6, ncode a, ncode b)
  | SUnlink n => (7, ncode n, 0)
  | STruncate n => (8, ncode n, 0)
  | SFsync => (9, 0, 0)
  | SPwrite n => (10, ncode n, 0)
  | SMkdir => (11, 0, 0)
  end.

Local Close Scope N_scope.

(** canonical syscall-trace comparison: the model's trace as (index of the model call, code) *)
Fixpoint sys_trace (i : nat) (t : trace) : list (nat * (N * N * N)) :=
  match t with
  | [] => []
  | (c, _) :: t' => map (fun s => (i, sys_code s)) (sys_of_call c) ++ sys_trace (S i) t'
  end.

(** C08 durability as a lint over a canonical trace (codes as [sys_code]): after the last call that
    changes the directory (rename, link, unlink, creating open) there is an fsync of the directory. *)
Definition changes_dir (c : N * N * N) : bool :=
  let '(t, _, f) := c in
  N.eqb t 5 || N.eqb t 6 || N.eqb t 7 || (N.eqb t 3 && N.leb 2 f).
Definition is_dirsync (prev c : N * N * N) : bool :=
  let '(t0, _, _) := prev in let '(t, _, _) := c in N.eqb t0 1 && N.eqb t 9.
(** [pending]: a directory change not yet followed by a directory sync *)
Fixpoint durable_from (pending : bool) (prev : N * N * N) (l : list (N * N * N)) : bool :=
  match l with
  | [] => negb pending
  | c :: t => durable_from (if is_dirsync prev c then false else pending || changes_dir c) c t
  end.
Definition durable_codes (l : list (N * N * N)) : bool := durable_from false (0, 0, 0)%N l.

(** a victim case: a history producing the directory, then (open; set mode RW;) one operation *)
Record vcase := mkvcase { vc_cfg : cfg; vc_univ : list dname; vc_pre : list op; vc_op : op }.

Definition vic_state (v : vcase) : st :=
  let s0 := run_ops (vc_cfg v) init (vc_pre v) in
  let s1 := mkst (s_fs s0) None in
  match vc_op v with
  | OOpen => s1
  | _ => run_ops (vc_cfg v) s1 [OOpen; OSetMode (Some RW)]
  end.
Definition vic_prog (v : vcase) : prog (option mem * res * nat) :=
  op_prog (vc_cfg v) (s_mem (vic_state v)) (vc_op v).

Definition vic_trace (v : vcase) : list (nat * (N * N * N)) :=
  let '(_, t, _) := run (vic_prog v) (s_fs (vic_state v)) in sys_trace 0 t.
Definition vic_ncalls (v : vcase) : nat :=
  let '(_, t, _) := run (vic_prog v) (s_fs (vic_state v)) in length t.

Definition out_class {A} (o : outcome (A * res * nat)) : rclass :=
  match o with
  | Done (_, Ok, _) => COk
  | Done (_, _, _) => CErr
  | _ => CDied
  end.

(** the directory a faulty run leaves, what the operation returned, and what a restarted process
    then observes (open + nothing else) *)
Definition vic_run (v : vcase) (crash_at : option nat) (fail_at : option (nat * errno)) : rclass * obs * obs :=
  let g := vc_cfg v in
  let '(w, _, o) := exec (vic_prog v) (s_fs (vic_state v)) 0 crash_at fail_at in
  let s := mkst w None in
  let '(s1, r, n) := step g s OOpen in
  (out_class o, observe g (vc_univ v) s ResOk 0, observe g (vc_univ v) s1 r n).

(** ** C08 as predicates on observed reopen results.
    [pre]: reopen of the directory as it was when the operation started; [post]: reopen after the
    operation completed; both observed on the same side as [cur]. *)
Definition view_eqb (a b : obs) : bool :=
  rclass_eqb (o_res a) COk && rclass_eqb (o_res b) COk
  && same_chain false a b && same_info_modulo_dirty a b.

(** revision.counter as a restarted process finds it: the value before the operation or the value
    after it (a WriteAt is a data write followed by the write of the counter: death or a failure
    between the two leaves the old value) *)
Definition counter_of (o : obs) : option Z :=
  match lookup_file (o_dir o) Counter with Some (KCounter v) => Some v | _ => None end.
Definition oz_eqb (a b : option Z) : bool :=
  match a, b with Some x, Some y => Z.eqb x y | None, None => true | _, _ => false end.
Definition counter_ok (pre post cur : obs) : bool :=
  oz_eqb (counter_of cur) (counter_of pre) || oz_eqb (counter_of cur) (counter_of post).

Definition c08_kill_ok (pre post cur : obs) : bool :=
  wf_obs cur && is_open cur && (view_eqb pre cur || view_eqb post cur) && counter_ok pre post cur.

(** [r]: what the operation returned when one of its calls failed *)
Definition c08_fail_ok (pre post : obs) (r : rclass) (cur : obs) : bool :=
  match r with
  | COk => wf_obs cur && is_open cur && view_eqb post cur && oz_eqb (counter_of cur) (counter_of post)
  | _ => wf_obs cur && is_open cur && (view_eqb pre cur || view_eqb post cur) && counter_ok pre post cur
  end.
(** the strict reading: an error is reported only over the old state *)
Definition c08_fail_strict (pre post : obs) (r : rclass) (cur : obs) : bool :=
  match r with
  | COk => wf_obs cur && is_open cur && view_eqb post cur && oz_eqb (counter_of cur) (counter_of post)
  | CErr => wf_obs cur && is_open cur && view_eqb pre cur && counter_ok pre post cur
  | CDied => wf_obs cur && is_open cur && (view_eqb pre cur || view_eqb post cur) && counter_ok pre post cur
  end.

(** one observed faulty run of the implementation: kind (None = kill before model call [i];
    Some e = call [i] fails with e), result, directory as left, reopen observation *)
Record vrun := mkvrun { vr_at : nat; vr_err : option errno; vr_res : rclass; vr_dir : obs; vr_open : obs }.

Definition side (pre post cur : obs) : nat :=        (* 1 pre, 2 post, 3 both, 0 neither *)
  (if view_eqb pre cur then 1 else 0) + (if view_eqb post cur then 2 else 0).

(** per run: (index, directory diff field, reopen diff field, result agrees, oracle on the
    implementation's observation, strict oracle, model's side, implementation's side) *)
Definition check_vrun (v : vcase) (ipre ipost : obs) (mpre mpost : obs) (x : vrun)
  : nat * nat * nat * bool * bool * bool * nat * nat :=
  let '(mr, md, mo) := match vr_err x with
                       | None => vic_run v (Some (vr_at x)) None
                       | Some e => vic_run v None (Some (vr_at x, e))
                       end in
  let orc := match vr_err x with
             | None => c08_kill_ok ipre ipost (vr_open x)
             | Some _ => c08_fail_ok ipre ipost (vr_res x) (vr_open x)
             end in
  let strict := match vr_err x with
                | None => orc
                | Some _ => c08_fail_strict ipre ipost (vr_res x) (vr_open x)
                end in
  (vr_at x, obs_diff md (vr_dir x), obs_diff mo (vr_open x),
   match vr_err x with None => true | Some _ => rclass_eqb mr (vr_res x) end,
   orc, strict, side mpre mpost mo, side ipre ipost (vr_open x)).

Definition check_vcase (v : vcase) (ipre ipost : obs) (xs : list vrun) :=
  let n := vic_ncalls v in
  let '(_, _, mpre) := vic_run v (Some 0) None in
  let '(_, _, mpost) := vic_run v None None in
  map (check_vrun v ipre ipost mpre mpost) xs.

(** the oracles alone, on the implementation's observations (used when the operation's calls can no
    longer be aligned with the model's) *)
Definition oracle_only (ipre ipost : obs) (xs : list vrun) : list bool :=
  map (fun x => match vr_err x with
                | None => c08_kill_ok ipre ipost (vr_open x)
                | Some _ => c08_fail_ok ipre ipost (vr_res x) (vr_open x)
                end) xs.

(** ** a faulty run that goes on.  After the operation with the failing call has returned, the same
    process observes its memory, performs a Close (a metadata update from memory that succeeds),
    and a restarted process opens the directory.
    Model: (result of the operation, memory + directory when it returned, result of Close,
    directory after Close, observation of the restarted process). *)
Definition vic_cont (v : vcase) (fail_at : nat * errno) : rclass * obs * rclass * obs * obs :=
  let g := vc_cfg v in
  let u := vc_univ v in
  let '(w, _, o) := exec (vic_prog v) (s_fs (vic_state v)) 0 None (Some fail_at) in
  match o with
  | Done (om, r, n) =>
      let s := mkst w om in
      let '(s2, r2, _) := step g s OClose in
      let s3 := mkst (s_fs s2) None in
      let '(s4, r4, n4) := step g s3 OOpen in
      (out_class o, observe g u s (result_of r) n, class_of r2, observe g u s3 ResOk 0, observe g u s4 r4 n4)
  | _ =>
      let s := mkst w None in
      (CDied, observe g u s ResDied 0, CDied, observe g u s ResOk 0, observe g u s ResDied 0)
  end.

(** one observed run of that kind: call index, errno, result, memory + directory when the
    operation returned, result of Close, directory after Close, reopen observation *)
Record vcrun := mkvcrun { vk_at : nat; vk_err : errno; vk_res : rclass; vk_mem : obs; vk_cres : rclass;
                          vk_dir : obs; vk_open : obs }.

(** the oracle on the implementation's observations: the Close of a process that goes on succeeds
    (or the replica was not open), and what a restarted process then finds is the old or the new
    view — the new one when the operation had returned success *)
Definition c08_cont_ok (pre post : obs) (x : vcrun) : bool :=
  rclass_eqb (vk_cres x) COk && c08_fail_ok pre post (vk_res x) (vk_open x).

(** the memory of a process whose operation failed half-way is compared on Chain() and Info(), not on
    ListDisks(): createDisk makes diskData[newSnap] and diskData[oldHead] the same record (one
    pointer, Name = the snapshot), so ListDisks, which is keyed by that Name, shows one entry for the
    two until the operation completes; the model keeps diskData keyed by the map key *)
Definition mem_diff (a b : obs) : nat :=
  obs_diff (mkobs (o_res a) (o_nact a) (o_mode a) (o_chain a) [] (o_info a) (o_dir a) [])
           (mkobs (o_res b) (o_nact b) (o_mode b) (o_chain b) [] (o_info b) (o_dir b) []).

(** per run: (index, memory diff field, Close result agrees, directory diff, reopen diff, oracle) *)
Definition check_vcrun (v : vcase) (ipre ipost : obs) (x : vcrun) : nat * nat * bool * nat * nat * bool :=
  let '(mr, mm, mc, md, mo) := vic_cont v (vk_at x, vk_err x) in
  (vk_at x, mem_diff mm (vk_mem x), rclass_eqb mc (vk_cres x) && rclass_eqb mr (vk_res x),
   obs_diff md (vk_dir x), obs_diff mo (vk_open x), c08_cont_ok ipre ipost x).
Definition check_vconts (v : vcase) (ipre ipost : obs) (xs : list vcrun) := map (check_vcrun v ipre ipost) xs.
Definition cont_oracle_only (ipre ipost : obs) (xs : list vcrun) : list bool := map (c08_cont_ok ipre ipost) xs.

(** ** after a death inside an operation: what the restarted process can do next.  The directory left
    by the kill before model call [k] is opened and a follow-up history (open; set mode; a Snapshot,
    or a Revert to a retained snapshot) is run on it.  Oracle on the observations: every step
    succeeds and leaves a well-formed chain — leftovers of the interrupted attempt (a next head that
    was created and truncated but never committed, hard links of a snapshot) are removed or reused,
    not refused. *)
Definition vic_follow (v : vcase) (k : nat) (os : list op) : list obs :=
  let '(w, _, _) := exec (vic_prog v) (s_fs (vic_state v)) 0 (Some k) None in
  trace_ops (vc_cfg v) (vc_univ v) (mkst w None) os.
Definition follow_ok (l : list obs) : bool :=
  forallb (fun o => rclass_eqb (o_res o) COk && wf_obs o) l.
(** per run: (k, first differing (step, field) or (999, 0), oracle on the implementation, oracle on the model) *)
Definition check_follow (v : vcase) (os : list op) (x : nat * list obs) : nat * (nat * nat) * bool * bool :=
  let m := vic_follow v (fst x) os in
  (fst x, match first_diff 0 m (snd x) with Some d => d | None => (999, 0) end, follow_ok (snd x), follow_ok m).
(** (the pre-state is computed once) *)
Definition check_follows (v : vcase) (os : list op) (xs : list (nat * list obs)) :=
  let p := vic_prog v in
  let w0 := s_fs (vic_state v) in
  map (fun x : nat * list obs =>
         let '(w, _, _) := exec p w0 0 (Some (fst x)) None in
         let m := trace_ops (vc_cfg v) (vc_univ v) (mkst w None) os in
         (fst x, match first_diff 0 m (snd x) with Some d => d | None => (999, 0) end, follow_ok (snd x), follow_ok m)) xs.
(** model only: the follow-up succeeds after a death before every call *)
Definition follow_all_ok (v : vcase) (os : list op) : bool :=
  let p := vic_prog v in
  let w0 := s_fs (vic_state v) in
  forallb (fun k => let '(w, _, _) := exec p w0 0 (Some k) None in
                    follow_ok (trace_ops (vc_cfg v) (vc_univ v) (mkst w None) os)) (seq 0 (S (vic_ncalls v))).

(** model-only exploration: for every call index the side of a kill and, per errno, result class and side *)
Definition vic_kill_sides (v : vcase) : list nat :=
  let n := vic_ncalls v in
  let '(_, _, mpre) := vic_run v (Some 0) None in
  let '(_, _, mpost) := vic_run v None None in
  map (fun k => let '(_, _, mo) := vic_run v (Some k) None in side mpre mpost mo) (seq 0 (S n)).
Definition vic_fail_sides (v : vcase) (e : errno) : list (rclass * nat * bool) :=
  let n := vic_ncalls v in
  let '(_, _, mpre) := vic_run v (Some 0) None in
  let '(_, _, mpost) := vic_run v None None in
  map (fun k => let '(r, _, mo) := vic_run v None (Some (k, e)) in
                (r, side mpre mpost mo, c08_fail_ok mpre mpost r mo)) (seq 0 n).
