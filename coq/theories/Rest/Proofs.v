(** Rest.Proofs — soundness of the lock-discipline checker [check] w.r.t. the semantics [exec]
    (every execution, i.e. every choice of branches and iteration counts), and of the oracle-driven
    interpreter [run] w.r.t. [exec]. *)
From Coq Require Import List Bool Arith String Lia.
From Jiva Require Import Rest.Lang.
Import ListNotations.

(* ------------------------------------------------------------------ equality tests *)

Lemma stmt_eqb_true : forall a b, stmt_eqb a b = true -> a = b.
Proof.
  induction a; destruct b; cbn [stmt_eqb]; intros Heq; try discriminate; try reflexivity;
    try (apply andb_prop in Heq as [Heq1 Heq2]; f_equal; auto; fail);
    try (f_equal; auto; fail);
    try (apply Nat.eqb_eq in Heq; subst; reflexivity).
  apply String.eqb_eq in Heq; subst; reflexivity.
Qed.

Lemma list_eqb_true : forall A (eqb : A -> A -> bool),
  (forall x y, eqb x y = true -> x = y) ->
  forall l1 l2, list_eqb eqb l1 l2 = true -> l1 = l2.
Proof.
  intros A eqb Heqb. induction l1 as [|x t IH]; destruct l2 as [|y t2]; cbn; intros Heq;
    try discriminate; try reflexivity.
  apply andb_prop in Heq as [Hx Ht]. f_equal; auto.
Qed.

Lemma lk_eqb_true : forall x y, lk_eqb x y = true -> x = y.
Proof.
  intros [m k] [m' k']; unfold lk_eqb; cbn; intros Heq.
  apply andb_prop in Heq as [Hm Hk]. apply Nat.eqb_eq in Hm. apply Bool.eqb_prop in Hk. subst; reflexivity.
Qed.

Lemma state_eqb_true : forall x y, state_eqb x y = true -> x = y.
Proof.
  intros [H D] [H' D']; unfold state_eqb; cbn; intros Heq.
  apply andb_prop in Heq as [Hh Hd].
  apply (list_eqb_true _ _ lk_eqb_true) in Hh. apply (list_eqb_true _ _ stmt_eqb_true) in Hd.
  subst; reflexivity.
Qed.

Lemma fault_eqb_true : forall f g, fault_eqb f g = true -> f = g.
Proof.
  destruct f; destruct g; cbn; intros Heq; try discriminate; try reflexivity;
    apply Nat.eqb_eq in Heq; subst; reflexivity.
Qed.

Lemma outcome_eqb_true : forall o p, outcome_eqb o p = true -> o = p.
Proof.
  destruct o; destruct p; cbn; intros Heq; try discriminate; try reflexivity.
  apply fault_eqb_true in Heq; subst; reflexivity.
Qed.

Lemma res_eqb_true : forall x y, res_eqb x y = true -> x = y.
Proof.
  intros [o s] [o' s']; unfold res_eqb; cbn; intros Heq.
  apply andb_prop in Heq as [Ho Hs]. apply outcome_eqb_true in Ho. apply state_eqb_true in Hs.
  subst; reflexivity.
Qed.

(* ------------------------------------------------------------------ finite sets as lists *)

Lemma mem_true : forall A (eqb : A -> A -> bool), (forall x y, eqb x y = true -> x = y) ->
  forall x l, mem eqb x l = true -> In x l.
Proof.
  intros A eqb Heqb x. induction l as [|y t IH]; cbn; intros Hm; [discriminate|].
  apply orb_prop in Hm as [Hm | Hm]; [left; symmetry; auto | right; auto].
Qed.

Lemma union_l : forall A (eqb : A -> A -> bool) l2 l1 x, In x l1 -> In x (union eqb l1 l2).
Proof.
  intros A eqb. induction l2 as [|y t IH]; cbn; intros l1 x Hin; [assumption|].
  destruct (mem eqb y l1); apply IH; [assumption | apply in_or_app; left; assumption].
Qed.

Lemma union_r : forall A (eqb : A -> A -> bool), (forall x y, eqb x y = true -> x = y) ->
  forall l2 l1 x, In x l2 -> In x (union eqb l1 l2).
Proof.
  intros A eqb Heqb. induction l2 as [|y t IH]; cbn; intros l1 x Hin; [contradiction|].
  destruct Hin as [Hxy | Hin].
  - subst y. destruct (mem eqb x l1) eqn:Hm.
    + apply union_l. apply (mem_true _ _ Heqb). assumption.
    + apply union_l. apply in_or_app; right; left; reflexivity.
  - destruct (mem eqb y l1); apply IH; assumption.
Qed.

(* ------------------------------------------------------------------ combinators of the checker *)

Lemma bindl_spec : forall l f R, bindl l f = Good R ->
  forall o s1, In (o, s1) l -> exists R2, f o s1 = Good R2 /\ incl R2 R.
Proof.
  induction l as [|[o' s'] t IH]; cbn [bindl]; intros f R Hb o s1 Hin; [contradiction|].
  destruct (f o' s') as [r|l2] eqn:Hf; [discriminate|].
  destruct (bindl t f) as [r|l3] eqn:Ht; [discriminate|].
  injection Hb as HR; subst R.
  destruct Hin as [Heq | Hin].
  - injection Heq as Ho Hs; subst o' s'. exists l2; split; [assumption|].
    intros x Hx. apply union_l; assumption.
  - destruct (IH f l3 Ht o s1 Hin) as [R2 [Hf2 Hincl]]. exists R2; split; [assumption|].
    intros x Hx. apply (union_r _ _ res_eqb_true). apply Hincl; assumption.
Qed.

Lemma bindv_spec : forall v f R, bindv v f = Good R ->
  exists l, v = Good l /\ forall o s1, In (o, s1) l -> exists R2, f o s1 = Good R2 /\ incl R2 R.
Proof.
  intros [r|l] f R Hb; cbn in Hb; [discriminate|].
  exists l; split; [reflexivity|]. apply bindl_spec; assumption.
Qed.

Lemma next_heads_in : forall l o s1, In (o, s1) l -> o = ONorm \/ o = OCont -> In s1 (next_heads l).
Proof.
  intros l o s1 Hin Ho. unfold next_heads. apply in_flat_map. exists (o, s1); split; [assumption|].
  destruct Ho as [Ho | Ho]; subst o; cbn; left; reflexivity.
Qed.

Lemma loop_exits_brk : forall l s1, In (OBrk, s1) l -> In (ONorm, s1) (loop_exits l).
Proof.
  intros l s1 Hin. unfold loop_exits. apply in_flat_map. exists (OBrk, s1); split; [assumption|].
  cbn; left; reflexivity.
Qed.

Lemma loop_exits_abrupt : forall l o s1, In (o, s1) l -> o = ORet \/ o = OPan -> In (o, s1) (loop_exits l).
Proof.
  intros l o s1 Hin Ho. unfold loop_exits. apply in_flat_map. exists (o, s1); split; [assumption|].
  destruct Ho as [Ho | Ho]; subst o; cbn; left; reflexivity.
Qed.

Lemma close_spec : forall runb all W R, close runb W all = Good R ->
  forall w, In w W ->
  exists l, runb w = Good l /\ (forall s1, In s1 (next_heads l) -> In s1 all) /\
            In (ONorm, w) R /\ incl (loop_exits l) R.
Proof.
  intros runb all. induction W as [|w0 t IH]; cbn [close]; intros R Hc w Hin; [contradiction|].
  destruct (runb w0) as [r|l] eqn:Hr; [discriminate|].
  destruct (forallb (fun s1 => mem state_eqb s1 all) (next_heads l)) eqn:Hall; [|discriminate].
  destruct (close runb t all) as [r|l'] eqn:Ht; [discriminate|].
  injection Hc as HR; subst R.
  destruct Hin as [Heq | Hin].
  - subst w0. exists l. split; [assumption|]. split; [|split].
    + intros s1 Hs1. rewrite forallb_forall in Hall. apply (mem_true _ _ state_eqb_true). auto.
    + apply union_l. left; reflexivity.
    + intros x Hx. apply union_l. right; assumption.
  - destruct (IH l' eq_refl w Hin) as [lw [Hrw [Hnext [Hw Hex]]]].
    exists lw. split; [assumption|]. split; [assumption|]. split.
    + apply (union_r _ _ res_eqb_true); assumption.
    + intros x Hx. apply (union_r _ _ res_eqb_true). apply Hex; assumption.
Qed.

(* ------------------------------------------------------------------ soundness of [chk] *)

Definition runsc_of (n : nat) : stmt -> held -> verdict := fun d H' => chk n (Scope d) (H', []).

Definition sound_at (s : stmt) (s0 : state) (o : outcome) (s1 : state) : Prop :=
  forall n R, chk n s s0 = Good R -> In (o, s1) R /\ nofault o.

Definition loop_sound_at (s : stmt) (s0 : state) (o : outcome) (s1 : state) : Prop :=
  forall b, s = Loop b -> forall n W R, In s0 W -> close (chk n b) W W = Good R ->
  In (o, s1) R /\ nofault o.

Definition unwind_sound_at (ds : list stmt) (H : held) (o o' : outcome) (H' : held) : Prop :=
  forall n R, chk_unwind (runsc_of n) ds H o = Good R -> In (o', (H', [])) R /\ nofault o'.

Lemma chk_S : forall n s s0, chk (S n) s s0 =
  let '(H, D) := s0 in
  match s with
  | Skip | Call _ => Good [(ONorm, s0)]
  | Return => Good [(ORet, s0)]
  | Break => Good [(OBrk, s0)]
  | Continue => Good [(OCont, s0)]
  | Panic => Good [(OPan, s0)]
  | Unknown => Bad (RFault FUnknown)
  | Lock m => match holds H m with
              | None => Good [(ONorm, (H ++ [(m, true)], D))]
              | Some _ => Bad (RFault (FRelock m))
              end
  | RLock m => match holds H m with
               | None => Good [(ONorm, (H ++ [(m, false)], D))]
               | Some _ => Bad (RFault (FRelock m))
               end
  | Unlock m => match holds H m with
                | Some true => Good [(ONorm, (release H m, D))]
                | _ => Bad (RFault (FUnlock m))
                end
  | RUnlock m => match holds H m with
                 | Some false => Good [(ONorm, (release H m, D))]
                 | _ => Bad (RFault (FUnlock m))
                 end
  | Send c => match H with
              | [] => Good [(ONorm, s0)]
              | _ => Bad (RFault (FSend c))
              end
  | Defer d => Good [(ONorm, (H, d :: D))]
  | DeferUnlock m => Good [(ONorm, (H, Unlock m :: D))]
  | DeferRUnlock m => Good [(ONorm, (H, RUnlock m :: D))]
  | Seq a b =>
    bindv (chk n a s0) (fun o s1 => match o with ONorm => chk n b s1 | _ => Good [(o, s1)] end)
  | If a b =>
    match chk n a s0 with
    | Bad r => Bad r
    | Good l1 => match chk n b s0 with
                 | Bad r => Bad r
                 | Good l2 => Good (union res_eqb l1 l2)
                 end
    end
  | Loop b => chk_loop (chk n b) s0
  | Scope b =>
    bindv (chk n b (H, []))
          (fun o s1 =>
             bindv (chk_unwind (runsc_of n) (snd s1) (fst s1) (exit_of o))
                   (fun o' s2 => Good [(o', (fst s2, D))]))
  end.
Proof. intros n s [H D]. reflexivity. Qed.

Ltac chk_start Hc :=
  match type of Hc with chk ?n _ _ = Good _ =>
    destruct n as [|n]; [discriminate Hc|]; rewrite chk_S in Hc; cbn beta iota in Hc end.

Ltac one_result Hc :=
  injection Hc as Hc; subst; split; [left; reflexivity | exact I].

Lemma not_loop : forall s s0 o s1, (forall b, s <> Loop b) -> loop_sound_at s s0 o s1.
Proof. intros s s0 o s1 Hn b Hb. exfalso. exact (Hn b Hb). Qed.

Lemma loop_first : forall b s0 o s1, loop_sound_at (Loop b) s0 o s1 -> sound_at (Loop b) s0 o s1.
Proof.
  intros b s0 o s1 Hl n R Hc. destruct s0 as [H D]. chk_start Hc. unfold chk_loop in Hc.
  destruct (grow _ _ _) as [r|W]; [discriminate Hc|].
  destruct (mem state_eqb (H, D) W) eqn:Hm; [|discriminate Hc].
  apply (Hl b eq_refl n W R); [|assumption].
  apply (mem_true _ _ state_eqb_true). assumption.
Qed.

Theorem chk_sound_mutual :
  (forall s s0 o s1, exec s s0 o s1 -> sound_at s s0 o s1 /\ loop_sound_at s s0 o s1) /\
  (forall ds H o o' H', unwind ds H o o' H' -> unwind_sound_at ds H o o' H').
Proof.
  apply exec_unwind_mind.
  - (* Skip *) intros s0. split; [|apply not_loop; intros b0 Hb0; discriminate Hb0].
    intros n R Hc. destruct s0. chk_start Hc. one_result Hc.
  - (* Call *) intros f s0. split; [|apply not_loop; intros b0 Hb0; discriminate Hb0].
    intros n R Hc. destruct s0. chk_start Hc. one_result Hc.
  - (* Return *) intros s0. split; [|apply not_loop; intros b0 Hb0; discriminate Hb0].
    intros n R Hc. destruct s0. chk_start Hc. one_result Hc.
  - (* Break *) intros s0. split; [|apply not_loop; intros b0 Hb0; discriminate Hb0].
    intros n R Hc. destruct s0. chk_start Hc. one_result Hc.
  - (* Continue *) intros s0. split; [|apply not_loop; intros b0 Hb0; discriminate Hb0].
    intros n R Hc. destruct s0. chk_start Hc. one_result Hc.
  - (* Panic *) intros s0. split; [|apply not_loop; intros b0 Hb0; discriminate Hb0].
    intros n R Hc. destruct s0. chk_start Hc. one_result Hc.
  - (* Unknown *) intros s0. split; [|apply not_loop; intros b0 Hb0; discriminate Hb0].
    intros n R Hc. destruct s0. chk_start Hc. discriminate.
  - (* Lock *) intros m H D Hh. split; [|apply not_loop; intros b0 Hb0; discriminate Hb0].
    intros n R Hc. chk_start Hc. rewrite Hh in Hc. one_result Hc.
  - (* Lock held *) intros m H D k Hh. split; [|apply not_loop; intros b0 Hb0; discriminate Hb0].
    intros n R Hc. chk_start Hc. rewrite Hh in Hc. discriminate.
  - (* RLock *) intros m H D Hh. split; [|apply not_loop; intros b0 Hb0; discriminate Hb0].
    intros n R Hc. chk_start Hc. rewrite Hh in Hc. one_result Hc.
  - (* RLock held *) intros m H D k Hh. split; [|apply not_loop; intros b0 Hb0; discriminate Hb0].
    intros n R Hc. chk_start Hc. rewrite Hh in Hc. discriminate.
  - (* Unlock *) intros m H D Hh. split; [|apply not_loop; intros b0 Hb0; discriminate Hb0].
    intros n R Hc. chk_start Hc. rewrite Hh in Hc. one_result Hc.
  - (* Unlock unheld *) intros m H D Hh. split; [|apply not_loop; intros b0 Hb0; discriminate Hb0].
    intros n R Hc. chk_start Hc. destruct (holds H m) as [[|]|]; try discriminate.
    exfalso; apply Hh; reflexivity.
  - (* RUnlock *) intros m H D Hh. split; [|apply not_loop; intros b0 Hb0; discriminate Hb0].
    intros n R Hc. chk_start Hc. rewrite Hh in Hc. one_result Hc.
  - (* RUnlock unheld *) intros m H D Hh. split; [|apply not_loop; intros b0 Hb0; discriminate Hb0].
    intros n R Hc. chk_start Hc. destruct (holds H m) as [[|]|]; try discriminate.
    exfalso; apply Hh; reflexivity.
  - (* Send *) intros c D. split; [|apply not_loop; intros b0 Hb0; discriminate Hb0].
    intros n R Hc. chk_start Hc. one_result Hc.
  - (* Send held *) intros c H D Hne. split; [|apply not_loop; intros b0 Hb0; discriminate Hb0].
    intros n R Hc. chk_start Hc. destruct H; [exfalso; apply Hne; reflexivity | discriminate].
  - (* Defer *) intros d H D. split; [|apply not_loop; intros b0 Hb0; discriminate Hb0].
    intros n R Hc. chk_start Hc. one_result Hc.
  - (* DeferUnlock *) intros m H D. split; [|apply not_loop; intros b0 Hb0; discriminate Hb0].
    intros n R Hc. chk_start Hc. one_result Hc.
  - (* DeferRUnlock *) intros m H D. split; [|apply not_loop; intros b0 Hb0; discriminate Hb0].
    intros n R Hc. chk_start Hc. one_result Hc.
  - (* Seq, first part normal *)
    intros a b s0 s1 o s2 _ [IHa _] _ [IHb _]. split; [|apply not_loop; intros b0 Hb0; discriminate Hb0].
    intros n R Hc. destruct s0 as [H D]. chk_start Hc.
    apply bindv_spec in Hc as [l [Ha Hall]].
    destruct (IHa n l Ha) as [Hin _].
    destruct (Hall ONorm s1 Hin) as [R2 [Hb Hincl]].
    destruct (IHb n R2 Hb) as [Hin2 Hnf]. split; [apply Hincl; assumption | assumption].
  - (* Seq, first part abrupt *)
    intros a b s0 o s1 _ [IHa _] Hne. split; [|apply not_loop; intros b0 Hb0; discriminate Hb0].
    intros n R Hc. destruct s0 as [H D]. chk_start Hc.
    apply bindv_spec in Hc as [l [Ha Hall]].
    destruct (IHa n l Ha) as [Hin Hnf].
    destruct (Hall o s1 Hin) as [R2 [Hb Hincl]].
    split; [|assumption]. apply Hincl.
    destruct o; try (injection Hb as Hb; subst R2; left; reflexivity).
    exfalso; apply Hne; reflexivity.
  - (* If left *)
    intros a b s0 o s1 _ [IHa _]. split; [|apply not_loop; intros b0 Hb0; discriminate Hb0].
    intros n R Hc. destruct s0 as [H D]. chk_start Hc.
    destruct (chk n a (H, D)) as [r|l1] eqn:Ha; [discriminate|].
    destruct (chk n b (H, D)) as [r|l2] eqn:Hb; [discriminate|].
    injection Hc as Hc; subst R. destruct (IHa n l1 Ha) as [Hin Hnf].
    split; [apply union_l; assumption | assumption].
  - (* If right *)
    intros a b s0 o s1 _ [IHb _]. split; [|apply not_loop; intros b0 Hb0; discriminate Hb0].
    intros n R Hc. destruct s0 as [H D]. chk_start Hc.
    destruct (chk n a (H, D)) as [r|l1] eqn:Ha; [discriminate|].
    destruct (chk n b (H, D)) as [r|l2] eqn:Hb; [discriminate|].
    injection Hc as Hc; subst R. destruct (IHb n l2 Hb) as [Hin Hnf].
    split; [apply (union_r _ _ res_eqb_true); assumption | assumption].
  - (* Loop exit *)
    intros b s0.
    assert (Hl : loop_sound_at (Loop b) s0 ONorm s0).
    { intros b' Hb n W R HinW Hc. injection Hb as Hb; subst b'.
      destruct (close_spec _ _ _ _ Hc s0 HinW) as [l [_ [_ [Hw _]]]]. split; [assumption | exact I]. }
    split; [apply loop_first; assumption | assumption].
  - (* Loop iterate *)
    intros b s0 o1 s1 o s2 _ [IHb _] Ho1 _ [_ IHl].
    assert (Hl : loop_sound_at (Loop b) s0 o s2).
    { intros b' Hb n W R HinW Hc. injection Hb as Hb; subst b'.
      destruct (close_spec _ _ _ _ Hc s0 HinW) as [l [Hrun [Hnext _]]].
      destruct (IHb n l Hrun) as [Hin1 _].
      apply (IHl b eq_refl n W R); [|assumption].
      apply Hnext. apply (next_heads_in l o1 s1); assumption. }
    split; [apply loop_first; assumption | assumption].
  - (* Loop break *)
    intros b s0 s1 _ [IHb _].
    assert (Hl : loop_sound_at (Loop b) s0 ONorm s1).
    { intros b' Hb n W R HinW Hc. injection Hb as Hb; subst b'.
      destruct (close_spec _ _ _ _ Hc s0 HinW) as [l [Hrun [_ [_ Hex]]]].
      destruct (IHb n l Hrun) as [Hin1 _].
      split; [|exact I]. apply Hex. apply loop_exits_brk; assumption. }
    split; [apply loop_first; assumption | assumption].
  - (* Loop abrupt *)
    intros b s0 o s1 _ [IHb _] Ho.
    assert (Hl : loop_sound_at (Loop b) s0 o s1).
    { intros b' Hb n W R HinW Hc. injection Hb as Hb; subst b'.
      destruct (close_spec _ _ _ _ Hc s0 HinW) as [l [Hrun [_ [_ Hex]]]].
      destruct (IHb n l Hrun) as [Hin1 Hnf].
      split; [|assumption]. apply Hex.
      destruct Ho as [Ho | [Ho | [f Ho]]].
      - apply loop_exits_abrupt; auto.
      - apply loop_exits_abrupt; auto.
      - subst o. contradiction. }
    split; [apply loop_first; assumption | assumption].
  - (* Scope *)
    intros b H D o H1 D1 o' H2 _ [IHb _] _ IHu. split; [|apply not_loop; intros b0 Hb0; discriminate Hb0].
    intros n R Hc. chk_start Hc.
    apply bindv_spec in Hc as [l [Hb Hall]].
    destruct (IHb n l Hb) as [Hin _].
    destruct (Hall o (H1, D1) Hin) as [R2 [Hinner Hincl]].
    cbn [fst snd] in Hinner.
    apply bindv_spec in Hinner as [l3 [Hu Hall3]].
    destruct (IHu n l3 Hu) as [Hin3 Hnf].
    destruct (Hall3 o' (H2, []) Hin3) as [R4 [Hg Hincl4]].
    cbn [fst] in Hg. injection Hg as Hg; subst R4.
    split; [|assumption]. apply Hincl. apply Hincl4. left; reflexivity.
  - (* unwind: fault *)
    intros ds H f n R Hc. destruct ds; cbn in Hc; discriminate.
  - (* unwind: nil *)
    intros H o Hnf n R Hc. cbn in Hc.
    destruct o; try contradiction; injection Hc as Hc; subst R; (split; [left; reflexivity | exact I]).
  - (* unwind: cons *)
    intros d ds H o o1 H1 D1 o2 H2 Hnf _ [IHd _] _ IHu n R Hc.
    assert (Hc' : bindv (runsc_of n d H) (fun o1 s1 => chk_unwind (runsc_of n) ds (fst s1) (after o o1)) = Good R).
    { destruct o; try contradiction; exact Hc. }
    apply bindv_spec in Hc' as [l [Hd Hall]].
    unfold runsc_of in Hd. destruct (IHd n l Hd) as [Hin _].
    destruct (Hall o1 (H1, D1) Hin) as [R2 [Hrest Hincl]].
    cbn [fst] in Hrest.
    destruct (IHu n R2 Hrest) as [Hin2 Hnf2].
    split; [apply Hincl; assumption | assumption].
Qed.

Lemma chk_sound : forall n s s0 R, chk n s s0 = Good R ->
  forall o s1, exec s s0 o s1 -> In (o, s1) R /\ nofault o.
Proof.
  intros n s s0 R Hc o s1 He.
  destruct (proj1 chk_sound_mutual s s0 o s1 He) as [Hs _]. exact (Hs n R Hc).
Qed.

(* ------------------------------------------------------------------ the main theorem *)

Lemma flat_map_nil : forall A B (f : A -> list B) l, flat_map f l = [] -> forall x, In x l -> f x = [].
Proof.
  intros A B f. induction l as [|y t IH]; cbn; intros Hnil x Hin; [contradiction|].
  apply app_eq_nil in Hnil as [Hy Ht]. destruct Hin as [Heq | Hin]; [subst; assumption | auto].
Qed.

Lemma first_leak_none : forall l, first_leak l = None -> forall o H D, In (o, (H, D)) l -> H = [].
Proof.
  unfold first_leak. intros l Hf o H D Hin.
  match type of Hf with match ?e with _ => _ end = _ => destruct e as [|[m k] t] eqn:Hfm end; [|discriminate Hf].
  exact (flat_map_nil _ _ _ l Hfm (o, (H, D)) Hin).
Qed.

(** [check p = true] implies, for EVERY execution of the handler p (every choice of branches,
    every number of loop iterations, return / fall off the end / panic):
      - no Unlock / RUnlock of a mutex that is not held in that mode (fatal error),
      - no Lock / RLock of a mutex the goroutine already holds (self-deadlock),
      - no blocking channel send while a mutex is held,
      - no untranslated construct is reached,
      - when the handler ends - normally, by return or by panic, after its deferred actions -
        it holds no mutex. *)
Theorem check_sound : forall p, check p = true ->
  forall o H', handler_exec p o H' ->
    (forall m, o <> OFault (FUnlock m)) /\
    (forall m, o <> OFault (FRelock m)) /\
    (forall c, o <> OFault (FSend c)) /\
    o <> OFault FUnknown /\
    H' = [].
Proof.
  intros p Hchk o H' He. unfold check, why in Hchk.
  destruct (chk (fuel_for p) (Scope p) ([], [])) as [r|l] eqn:Hc; [discriminate|].
  destruct (first_leak l) eqn:Hl; [discriminate|].
  destruct (chk_sound _ _ _ _ Hc o (H', []) He) as [Hin Hnf].
  repeat split; try (intros x Heq; subst o; exact Hnf); try (intros Heq; subst o; exact Hnf).
  exact (first_leak_none l Hl o H' [] Hin).
Qed.

(* ------------------------------------------------------------------ the interpreter is the semantics *)

Lemma run_unwind_exec : forall runsc,
  (forall d orc H o1 H1 orc1, runsc d orc H = Some (o1, H1, orc1) -> exec (Scope d) (H, []) o1 (H1, [])) ->
  forall ds H o orc o' H' orc', run_unwind runsc ds H o orc = Some (o', H', orc') -> unwind ds H o o' H'.
Proof.
  intros runsc Hsc. induction ds as [|d t IH]; intros H o orc o' H' orc' Hr.
  - destruct o; cbn in Hr; injection Hr as Ho HH Horc; subst; try (apply U_nil; exact I). apply U_fault.
  - assert (Hcases : (exists f, o = OFault f) \/ nofault o) by (destruct o; cbn; eauto).
    destruct Hcases as [[f Hf] | Hnf].
    + subst o. cbn in Hr. injection Hr as Ho HH Horc; subst. apply U_fault.
    + assert (Hr' : match runsc d orc H with
                    | None => None
                    | Some (o1, H1, orc1) => run_unwind runsc t H1 (after o o1) orc1
                    end = Some (o', H', orc')).
      { destruct o; try contradiction; exact Hr. }
      destruct (runsc d orc H) as [[[o1 H1] orc1]|] eqn:Hd; [|discriminate].
      apply (U_cons d t H o o1 H1 [] o' H' Hnf); [apply (Hsc _ _ _ _ _ _ Hd) | apply (IH _ _ _ _ _ _ Hr')].
Qed.

Lemma run_exec : forall n s orc s0 o s1 orc',
  run n s orc s0 = Some (o, s1, orc') -> exec s s0 o s1.
Proof.
  induction n as [|n IH]; intros s orc s0 o s1 orc' Hr; [discriminate|].
  destruct s0 as [H D]. destruct s; cbn [run] in Hr.
  - injection Hr as Ho Hs Horc; subst. constructor.
  - (* Seq *)
    destruct (run n s2 orc (H, D)) as [[[oa sa] orca]|] eqn:Ha; [|discriminate].
    apply IH in Ha.
    destruct oa; try (injection Hr as Ho Hs Horc; subst; apply E_Seq_abrupt; [assumption | discriminate]).
    apply IH in Hr. eapply E_Seq; eassumption.
  - (* If *)
    destruct orc as [|[|] r].
    + apply IH in Hr. apply E_If_right; assumption.
    + apply IH in Hr. apply E_If_left; assumption.
    + apply IH in Hr. apply E_If_right; assumption.
  - (* Loop *)
    destruct orc as [|[|] r].
    + injection Hr as Ho Hs Horc; subst. apply E_Loop_exit.
    + destruct (run n s r (H, D)) as [[[ob sb] orcb]|] eqn:Hb; [|discriminate].
      apply IH in Hb.
      destruct ob.
      * apply IH in Hr. eapply E_Loop_iter; [eassumption | left; reflexivity | assumption].
      * injection Hr as Ho Hs Horc; subst. apply E_Loop_break; assumption.
      * apply IH in Hr. eapply E_Loop_iter; [eassumption | right; reflexivity | assumption].
      * injection Hr as Ho Hs Horc; subst. apply E_Loop_abrupt; [assumption | left; reflexivity].
      * injection Hr as Ho Hs Horc; subst. apply E_Loop_abrupt; [assumption | right; left; reflexivity].
      * injection Hr as Ho Hs Horc; subst. apply E_Loop_abrupt; [assumption | right; right; eexists; reflexivity].
    + injection Hr as Ho Hs Horc; subst. apply E_Loop_exit.
  - injection Hr as Ho Hs Horc; subst. constructor.
  - injection Hr as Ho Hs Horc; subst. constructor.
  - injection Hr as Ho Hs Horc; subst. constructor.
  - (* Lock *)
    destruct (holds H m) eqn:Hh; injection Hr as Ho Hs Horc; subst.
    + eapply E_Lock_held; eassumption.
    + apply E_Lock; assumption.
  - (* Unlock *)
    destruct (holds H m) as [[|]|] eqn:Hh; injection Hr as Ho Hs Horc; subst.
    + apply E_Unlock; assumption.
    + apply E_Unlock_unheld. rewrite Hh; discriminate.
    + apply E_Unlock_unheld. rewrite Hh; discriminate.
  - (* RLock *)
    destruct (holds H m) eqn:Hh; injection Hr as Ho Hs Horc; subst.
    + eapply E_RLock_held; eassumption.
    + apply E_RLock; assumption.
  - (* RUnlock *)
    destruct (holds H m) as [[|]|] eqn:Hh; injection Hr as Ho Hs Horc; subst.
    + apply E_RUnlock_unheld. rewrite Hh; discriminate.
    + apply E_RUnlock; assumption.
    + apply E_RUnlock_unheld. rewrite Hh; discriminate.
  - injection Hr as Ho Hs Horc; subst. constructor.
  - injection Hr as Ho Hs Horc; subst. constructor.
  - injection Hr as Ho Hs Horc; subst. constructor.
  - injection Hr as Ho Hs Horc; subst. constructor.
  - (* Scope *)
    destruct (run n s orc (H, [])) as [[[ob [H1 D1]] orc1]|] eqn:Hb; [|discriminate].
    apply IH in Hb.
    match type of Hr with context [run_unwind ?f _ _ _ _] => set (runsc := f) in Hr end.
    destruct (run_unwind runsc D1 H1 (exit_of ob) orc1) as [[[o2 H2] orc2]|] eqn:Hu; [|discriminate].
    injection Hr as Ho Hs Horc; subst.
    eapply E_Scope; [eassumption|].
    eapply run_unwind_exec; [|eassumption].
    intros d orc0 H0 o1 H1' orc1' Hd. unfold runsc in Hd.
    destruct (run n (Scope d) orc0 (H0, [])) as [[[od [Hd1 Dd1]] orcd]|] eqn:Hrd; [|discriminate].
    injection Hd as Ho HH Horc; subst.
    apply IH in Hrd.
    (* a Scope always restores the caller's deferred list *)
    inversion Hrd; subst. assumption.
  - (* Send *)
    destruct H; injection Hr as Ho Hs Horc; subst.
    + apply E_Send.
    + apply E_Send_held. discriminate.
  - injection Hr as Ho Hs Horc; subst. constructor.
  - injection Hr as Ho Hs Horc; subst. constructor.
Qed.

(** the same theorem for the executable semantics: every oracle (choice sequence), every fuel *)
Theorem check_sound_run : forall p, check p = true ->
  forall n orc o H', run_handler n p orc = Some (o, H') -> nofault o /\ H' = [].
Proof.
  intros p Hchk n orc o H' Hr. unfold run_handler in Hr.
  destruct (run n (Scope p) orc ([], [])) as [[[o1 [H1 D1]] orc1]|] eqn:Hrun; [|discriminate].
  injection Hr as Ho HH; subst.
  apply run_exec in Hrun.
  assert (HD : D1 = []) by (inversion Hrun; reflexivity). subst D1.
  destruct (check_sound p Hchk o H' Hrun) as [Hu [Hr [Hs [Hk Hh]]]].
  split; [|assumption].
  destruct o as [| | | | |f]; cbn; try exact I.
  destruct f; [exact (Hu m eq_refl) | exact (Hr m eq_refl) | exact (Hs c eq_refl) | exact (Hk eq_refl)].
Qed.

(** the tie used by the generated file: the checker accepted every translated handler (one
    [vm_compute]), hence every execution of every translated handler is lock-safe *)
Definition lock_safe (p : stmt) : Prop :=
  forall o H', handler_exec p o H' -> nofault o /\ H' = [].

Lemma check_lock_safe : forall p, check p = true -> lock_safe p.
Proof.
  intros p Hchk o H' He. destruct (check_sound p Hchk o H' He) as [Hu [Hr [Hs [Hk Hh]]]].
  split; [|assumption].
  destruct o as [| | | | |f]; cbn; try exact I.
  destruct f; [exact (Hu m eq_refl) | exact (Hr m eq_refl) | exact (Hs c eq_refl) | exact (Hk eq_refl)].
Qed.

Theorem handlers_safe : forall hs : list stmt, forallb check hs = true ->
  forall p, In p hs -> lock_safe p.
Proof.
  intros hs Hall p Hin. rewrite forallb_forall in Hall. apply check_lock_safe. auto.
Qed.

(** a rejected handler is rejected for a stated reason *)
Lemma check_false_why : forall p, check p = false -> exists r, why p = Some r.
Proof. intros p Hc. unfold check in Hc. destruct (why p) as [r|]; [eauto | discriminate]. Qed.

(* ------------------------------------------------------------------ non-vacuity *)

Open Scope string_scope.

(** the shape of controller/rest DeleteSnapshot before the fix: Lock; defer Unlock; on a body
    read error a manual Unlock and return - the deferred Unlock then hits an unlocked mutex *)
Definition ex_double_unlock : stmt :=
  Seq (Lock 0) (Seq (DeferUnlock 0) (Seq (Call "Read") (Seq (If (Seq (Unlock 0) Return) Skip) Return))).

Example ex_double_unlock_rejected : why ex_double_unlock = Some (RFault (FUnlock 0)).
Proof. vm_compute; reflexivity. Qed.
Example ex_double_unlock_runs_into_it :
  run_handler 50 ex_double_unlock [true] = Some (OFault (FUnlock 0), []).
Proof. vm_compute; reflexivity. Qed.
Example ex_double_unlock_other_branch_fine :
  run_handler 50 ex_double_unlock [false] = Some (ONorm, []).
Proof. vm_compute; reflexivity. Qed.

(** replica.Server.Start: Lock; defer Unlock; ActionChannel <- action *)
Definition ex_send_locked : stmt := Scope (Seq (Lock 1) (Seq (DeferUnlock 1) (Seq (Send 0) Return))).
Example ex_send_locked_rejected : why ex_send_locked = Some (RFault (FSend 0)).
Proof. vm_compute; reflexivity. Qed.

(** a lock taken and not released on an error exit *)
Definition ex_leak : stmt := Seq (Lock 0) (Seq (If Return Skip) (Seq (Unlock 0) Return)).
Example ex_leak_rejected : why ex_leak = Some (RLeak 0).
Proof. vm_compute; reflexivity. Qed.
Example ex_leak_runs : run_handler 50 ex_leak [true] = Some (ONorm, [(0, true)]).
Proof. vm_compute; reflexivity. Qed.

(** a method that locks, called from a handler that already holds the same mutex *)
Definition ex_relock : stmt := Seq (RLock 0) (Seq (DeferRUnlock 0) (Scope (Seq (Lock 0) (Seq (DeferUnlock 0) Return)))).
Example ex_relock_rejected : why ex_relock = Some (RFault (FRelock 0)).
Proof. vm_compute; reflexivity. Qed.

(** accepted: the usual shapes (defer-unlock with early returns and a panic; unlock / relock around
    a slow call; a loop with break and continue under the lock; a deferred closure with its own lock) *)
Definition ex_good : stmt :=
  Seq (Lock 0)
  (Seq (If (Seq (Unlock 0) Return) Skip)
  (Seq (Unlock 0)
  (Seq (Call "factory.Create")
  (Seq (Lock 0)
  (Seq (DeferUnlock 0)
  (Seq (Defer (Seq (Lock 1) (Seq (Call "Observe") (Unlock 1))))
  (Seq (Loop (Seq (If Continue Skip) (Seq (If Break Skip) (Scope (If Return Panic)))))
  (If Return Panic)))))))).
Example ex_good_accepted : check ex_good = true.
Proof. vm_compute; reflexivity. Qed.
Example ex_good_has_executions :
  run_handler 50 ex_good [false; true; false; false; true] = Some (OPan, []) /\
  run_handler 50 ex_good [true] = Some (ONorm, []).
Proof. vm_compute; split; reflexivity. Qed.
