(** Rest.Lang — the lock discipline of one request-serving goroutine (property C14).

    A handler of the management API (controller/rest/*.go, replica/rest/*.go) together with the
    Controller / replica.Server methods it calls is turned by harness/cmd/restgen (go/ast) into a
    term of [stmt].  Everything that is not lock discipline is erased: conditions become
    nondeterministic choices, ordinary calls become [Call], a call whose body is known becomes
    [Scope body] (own returns, own defers).  What the translator does not understand is [Unknown].

    sync.RWMutex as seen by ONE goroutine (Go's sync package, rwmutex.go):
      Unlock / RUnlock of a mutex this goroutine does not hold in that mode  -> fatal error (the
                       process exits: "sync: Unlock of unlocked RWMutex")              [FUnlock]
      Lock / RLock of a mutex this goroutine already holds (either mode)     -> it waits for
                       itself (recursive read locking is forbidden by the package doc)  [FRelock]
      a blocking send on a channel while a mutex is held                      -> every other
                       request waits on that mutex until somebody receives              [FSend]
    Deferred actions run when the enclosing function ([Scope]) ends: after a return, at the end
    of the body, and during a panic (LIFO; a panic inside a deferred function keeps unwinding). *)
From Coq Require Import List Bool Arith String Lia.
Import ListNotations.

Definition mutex := nat.
Definition chan := nat.

Inductive stmt : Type :=
| Skip
| Seq (a b : stmt)
| If (a b : stmt)                 (* nondeterministic choice: if/else, switch, select *)
| Loop (body : stmt)              (* zero or more iterations *)
| Return
| Break
| Continue
| Lock (m : mutex)
| Unlock (m : mutex)
| RLock (m : mutex)
| RUnlock (m : mutex)
| DeferUnlock (m : mutex)         (* defer m.Unlock()  *)
| DeferRUnlock (m : mutex)        (* defer m.RUnlock() *)
| Defer (d : stmt)                (* defer func(){ d }() / defer f(..) with f's body d *)
| Call (f : string)               (* a call that touches no tracked mutex (name kept for reading) *)
| Scope (body : stmt)             (* an inlined call: own Return, own deferred actions *)
| Send (c : chan)                 (* blocking channel send *)
| Panic
| Unknown.                        (* construct the translator does not understand *)

(** n-ary forms used by the generated file *)
Fixpoint seqs (l : list stmt) : stmt :=
  match l with
  | [] => Skip
  | [a] => a
  | a :: t => Seq a (seqs t)
  end.

Fixpoint alts (l : list stmt) : stmt :=
  match l with
  | [] => Skip
  | [a] => a
  | a :: t => If a (alts t)
  end.

(** mutexes held by this goroutine: (mutex, true = write / false = read) *)
Definition held := list (mutex * bool).
(** state: held mutexes and the deferred actions of the current function, newest first *)
Definition state := (held * list stmt)%type.

Fixpoint holds (H : held) (m : mutex) : option bool :=
  match H with
  | [] => None
  | (m', k) :: t => if Nat.eqb m m' then Some k else holds t m
  end.

Fixpoint release (H : held) (m : mutex) : held :=
  match H with
  | [] => []
  | (m', k) :: t => if Nat.eqb m m' then t else (m', k) :: release t m
  end.

Inductive fault : Type :=
| FUnlock (m : mutex)     (* Unlock / RUnlock of a mutex not held in that mode: fatal error *)
| FRelock (m : mutex)     (* Lock / RLock of a mutex the goroutine already holds: self-deadlock *)
| FSend (c : chan)        (* blocking send while a mutex is held *)
| FUnknown.               (* untranslatable construct reached / break outside a loop *)

Inductive outcome : Type :=
| ONorm | OBrk | OCont | ORet | OPan
| OFault (f : fault).

Definition nofault (o : outcome) : Prop := match o with OFault _ => False | _ => True end.

(** outcome of a function body as seen when its deferred actions start to run *)
Definition exit_of (o : outcome) : outcome :=
  match o with
  | ONorm | ORet => ONorm
  | OPan => OPan
  | OBrk | OCont => OFault FUnknown
  | OFault f => OFault f
  end.

(** pending outcome [o] after a deferred function ended with [o1] *)
Definition after (o o1 : outcome) : outcome :=
  match o1 with
  | OFault f => OFault f
  | OPan => OPan
  | _ => o
  end.

(** Big-step semantics; all nondeterminism (branches, iteration counts) is in the choice of rule.
    A fault ends the execution (the process is dead or wedged), so it propagates like an
    exception that no deferred action sees. *)
Inductive exec : stmt -> state -> outcome -> state -> Prop :=
| E_Skip : forall s0, exec Skip s0 ONorm s0
| E_Call : forall f s0, exec (Call f) s0 ONorm s0
| E_Return : forall s0, exec Return s0 ORet s0
| E_Break : forall s0, exec Break s0 OBrk s0
| E_Continue : forall s0, exec Continue s0 OCont s0
| E_Panic : forall s0, exec Panic s0 OPan s0
| E_Unknown : forall s0, exec Unknown s0 (OFault FUnknown) s0
| E_Lock : forall m H D, holds H m = None ->
    exec (Lock m) (H, D) ONorm (H ++ [(m, true)], D)
| E_Lock_held : forall m H D k, holds H m = Some k ->
    exec (Lock m) (H, D) (OFault (FRelock m)) (H, D)
| E_RLock : forall m H D, holds H m = None ->
    exec (RLock m) (H, D) ONorm (H ++ [(m, false)], D)
| E_RLock_held : forall m H D k, holds H m = Some k ->
    exec (RLock m) (H, D) (OFault (FRelock m)) (H, D)
| E_Unlock : forall m H D, holds H m = Some true ->
    exec (Unlock m) (H, D) ONorm (release H m, D)
| E_Unlock_unheld : forall m H D, holds H m <> Some true ->
    exec (Unlock m) (H, D) (OFault (FUnlock m)) (H, D)
| E_RUnlock : forall m H D, holds H m = Some false ->
    exec (RUnlock m) (H, D) ONorm (release H m, D)
| E_RUnlock_unheld : forall m H D, holds H m <> Some false ->
    exec (RUnlock m) (H, D) (OFault (FUnlock m)) (H, D)
| E_Send : forall c D, exec (Send c) ([], D) ONorm ([], D)
| E_Send_held : forall c H D, H <> [] ->
    exec (Send c) (H, D) (OFault (FSend c)) (H, D)
| E_Defer : forall d H D, exec (Defer d) (H, D) ONorm (H, d :: D)
| E_DeferUnlock : forall m H D, exec (DeferUnlock m) (H, D) ONorm (H, Unlock m :: D)
| E_DeferRUnlock : forall m H D, exec (DeferRUnlock m) (H, D) ONorm (H, RUnlock m :: D)
| E_Seq : forall a b s0 s1 o s2,
    exec a s0 ONorm s1 -> exec b s1 o s2 -> exec (Seq a b) s0 o s2
| E_Seq_abrupt : forall a b s0 o s1,
    exec a s0 o s1 -> o <> ONorm -> exec (Seq a b) s0 o s1
| E_If_left : forall a b s0 o s1, exec a s0 o s1 -> exec (If a b) s0 o s1
| E_If_right : forall a b s0 o s1, exec b s0 o s1 -> exec (If a b) s0 o s1
| E_Loop_exit : forall b s0, exec (Loop b) s0 ONorm s0
| E_Loop_iter : forall b s0 o1 s1 o s2,
    exec b s0 o1 s1 -> o1 = ONorm \/ o1 = OCont ->
    exec (Loop b) s1 o s2 -> exec (Loop b) s0 o s2
| E_Loop_break : forall b s0 s1, exec b s0 OBrk s1 -> exec (Loop b) s0 ONorm s1
| E_Loop_abrupt : forall b s0 o s1,
    exec b s0 o s1 -> o = ORet \/ o = OPan \/ (exists f, o = OFault f) ->
    exec (Loop b) s0 o s1
| E_Scope : forall b H D o H1 D1 o' H2,
    exec b (H, []) o (H1, D1) ->
    unwind D1 H1 (exit_of o) o' H2 ->
    exec (Scope b) (H, D) o' (H2, D)
(** [unwind ds H o o' H']: running the deferred actions [ds] (newest first) from held set [H]
    with pending outcome [o] ends with outcome [o'] and held set [H']. *)
with unwind : list stmt -> held -> outcome -> outcome -> held -> Prop :=
| U_fault : forall ds H f, unwind ds H (OFault f) (OFault f) H
| U_nil : forall H o, nofault o -> unwind [] H o o H
| U_cons : forall d ds H o o1 H1 D1 o2 H2, nofault o ->
    exec (Scope d) (H, []) o1 (H1, D1) ->
    unwind ds H1 (after o o1) o2 H2 ->
    unwind (d :: ds) H o o2 H2.

Scheme exec_mind := Minimality for exec Sort Prop
  with unwind_mind := Minimality for unwind Sort Prop.
Combined Scheme exec_unwind_mind from exec_mind, unwind_mind.

(** A handler is a function: it starts holding nothing, with no pending deferred action. *)
Definition handler_exec (p : stmt) (o : outcome) (H' : held) : Prop :=
  exec (Scope p) ([], []) o (H', []).

(* ------------------------------------------------------------------ executable semantics *)

(** The same semantics as a function: choices are read from an oracle (true = then-branch /
    one more iteration; an exhausted oracle answers false), [n] bounds the nesting depth. *)
Fixpoint run_unwind (runsc : stmt -> list bool -> held -> option (outcome * held * list bool))
         (ds : list stmt) (H : held) (o : outcome) (orc : list bool)
  : option (outcome * held * list bool) :=
  match o with
  | OFault f => Some (OFault f, H, orc)
  | _ =>
    match ds with
    | [] => Some (o, H, orc)
    | d :: t =>
      match runsc d orc H with
      | None => None
      | Some (o1, H1, orc1) => run_unwind runsc t H1 (after o o1) orc1
      end
    end
  end.

Fixpoint run (n : nat) (s : stmt) (orc : list bool) (s0 : state)
  : option (outcome * state * list bool) :=
  match n with
  | 0 => None
  | S n =>
    let '(H, D) := s0 in
    match s with
    | Skip | Call _ => Some (ONorm, s0, orc)
    | Return => Some (ORet, s0, orc)
    | Break => Some (OBrk, s0, orc)
    | Continue => Some (OCont, s0, orc)
    | Panic => Some (OPan, s0, orc)
    | Unknown => Some (OFault FUnknown, s0, orc)
    | Lock m => match holds H m with
                | None => Some (ONorm, (H ++ [(m, true)], D), orc)
                | Some _ => Some (OFault (FRelock m), s0, orc)
                end
    | RLock m => match holds H m with
                 | None => Some (ONorm, (H ++ [(m, false)], D), orc)
                 | Some _ => Some (OFault (FRelock m), s0, orc)
                 end
    | Unlock m => match holds H m with
                  | Some true => Some (ONorm, (release H m, D), orc)
                  | _ => Some (OFault (FUnlock m), s0, orc)
                  end
    | RUnlock m => match holds H m with
                   | Some false => Some (ONorm, (release H m, D), orc)
                   | _ => Some (OFault (FUnlock m), s0, orc)
                   end
    | Send c => match H with
                | [] => Some (ONorm, s0, orc)
                | _ => Some (OFault (FSend c), s0, orc)
                end
    | Defer d => Some (ONorm, (H, d :: D), orc)
    | DeferUnlock m => Some (ONorm, (H, Unlock m :: D), orc)
    | DeferRUnlock m => Some (ONorm, (H, RUnlock m :: D), orc)
    | Seq a b =>
      match run n a orc s0 with
      | Some (ONorm, s1, orc1) => run n b orc1 s1
      | r => r
      end
    | If a b =>
      match orc with
      | true :: r => run n a r s0
      | _ :: r => run n b r s0
      | [] => run n b [] s0
      end
    | Loop b =>
      match orc with
      | true :: r =>
        match run n b r s0 with
        | Some (ONorm, s1, r1) | Some (OCont, s1, r1) => run n (Loop b) r1 s1
        | Some (OBrk, s1, r1) => Some (ONorm, s1, r1)
        | r' => r'
        end
      | _ :: r => Some (ONorm, s0, r)
      | [] => Some (ONorm, s0, [])
      end
    | Scope b =>
      match run n b orc (H, []) with
      | None => None
      | Some (o, (H1, D1), orc1) =>
        match run_unwind (fun d orc' H' =>
                            match run n (Scope d) orc' (H', []) with
                            | Some (o1, (H1', _), orc1') => Some (o1, H1', orc1')
                            | None => None
                            end) D1 H1 (exit_of o) orc1 with
        | None => None
        | Some (o', H2, orc2) => Some (o', (H2, D), orc2)
        end
      end
    end
  end.

(** one complete run of a handler under an oracle *)
Definition run_handler (n : nat) (p : stmt) (orc : list bool) : option (outcome * held) :=
  match run n (Scope p) orc ([], []) with
  | Some (o, (H, _), _) => Some (o, H)
  | None => None
  end.

(* ------------------------------------------------------------------ the checker *)

(** decidable equality on statements and states (for the visited sets of the checker) *)
Fixpoint stmt_eqb (a b : stmt) : bool :=
  match a, b with
  | Skip, Skip | Return, Return | Break, Break | Continue, Continue
  | Panic, Panic | Unknown, Unknown => true
  | Seq a1 a2, Seq b1 b2 | If a1 a2, If b1 b2 => stmt_eqb a1 b1 && stmt_eqb a2 b2
  | Loop a1, Loop b1 | Defer a1, Defer b1 | Scope a1, Scope b1 => stmt_eqb a1 b1
  | Lock m, Lock m' | Unlock m, Unlock m' | RLock m, RLock m' | RUnlock m, RUnlock m'
  | DeferUnlock m, DeferUnlock m' | DeferRUnlock m, DeferRUnlock m' | Send m, Send m' => Nat.eqb m m'
  | Call f, Call g => String.eqb f g
  | _, _ => false
  end.

Fixpoint list_eqb {A} (eqb : A -> A -> bool) (l1 l2 : list A) : bool :=
  match l1, l2 with
  | [], [] => true
  | x :: t1, y :: t2 => eqb x y && list_eqb eqb t1 t2
  | _, _ => false
  end.

Definition lk_eqb (x y : mutex * bool) : bool := Nat.eqb (fst x) (fst y) && Bool.eqb (snd x) (snd y).
Definition state_eqb (x y : state) : bool :=
  list_eqb lk_eqb (fst x) (fst y) && list_eqb stmt_eqb (snd x) (snd y).

Definition fault_eqb (f g : fault) : bool :=
  match f, g with
  | FUnlock m, FUnlock m' | FRelock m, FRelock m' | FSend m, FSend m' => Nat.eqb m m'
  | FUnknown, FUnknown => true
  | _, _ => false
  end.

Definition outcome_eqb (o p : outcome) : bool :=
  match o, p with
  | ONorm, ONorm | OBrk, OBrk | OCont, OCont | ORet, ORet | OPan, OPan => true
  | OFault f, OFault g => fault_eqb f g
  | _, _ => false
  end.

Definition res := (outcome * state)%type.
Definition res_eqb (x y : res) : bool := outcome_eqb (fst x) (fst y) && state_eqb (snd x) (snd y).

Fixpoint mem {A} (eqb : A -> A -> bool) (x : A) (l : list A) : bool :=
  match l with [] => false | y :: t => eqb x y || mem eqb x t end.

(** [l1] followed by the elements of [l2] that are not yet present *)
Fixpoint union {A} (eqb : A -> A -> bool) (l1 l2 : list A) : list A :=
  match l2 with
  | [] => l1
  | y :: t => if mem eqb y l1 then union eqb l1 t else union eqb (l1 ++ [y]) t
  end.

(** why the checker rejects *)
Inductive reason : Type :=
| RFault (f : fault)      (* some execution reaches this fault *)
| RLeak (m : mutex)       (* some execution ends (return / panic) still holding m *)
| RFuel                   (* nesting deeper than the fuel (never with [check]'s fuel on real input) *)
| RLoop.                  (* no finite set of loop-head states found (e.g. a defer inside a loop) *)

Inductive verdict : Type :=
| Bad (r : reason)
| Good (l : list res).    (* every (outcome, state) an execution can end in; no faults *)

Fixpoint bindl (l : list res) (f : outcome -> state -> verdict) : verdict :=
  match l with
  | [] => Good []
  | (o, s1) :: t =>
    match f o s1 with
    | Bad r => Bad r
    | Good l2 =>
      match bindl t f with
      | Bad r => Bad r
      | Good l3 => Good (union res_eqb l2 l3)
      end
    end
  end.

Definition bindv (v : verdict) (f : outcome -> state -> verdict) : verdict :=
  match v with Bad r => Bad r | Good l => bindl l f end.

(** deferred actions, abstractly: [runsc d H] = all ends of [Scope d] from [(H, [])] *)
Fixpoint chk_unwind (runsc : stmt -> held -> verdict) (ds : list stmt) (H : held) (o : outcome)
  : verdict :=
  match o with
  | OFault f => Bad (RFault f)
  | _ =>
    match ds with
    | [] => Good [(o, (H, []))]
    | d :: t => bindv (runsc d H) (fun o1 s1 => chk_unwind runsc t (fst s1) (after o o1))
    end
  end.

(** loop heads: grow the set [W] of states at the loop head until the body maps it into itself *)
Definition next_heads (l : list res) : list state :=
  flat_map (fun r => match fst r with ONorm | OCont => [snd r] | _ => [] end) l.

Fixpoint grow (runb : state -> verdict) (k : nat) (W : list state) : reason + list state :=
  match k with
  | 0 => inl RLoop
  | S k =>
    let step := fold_left (fun acc w =>
                  match acc with
                  | inl r => inl r
                  | inr ns => match runb w with
                              | Bad r => inl r
                              | Good l => inr (union state_eqb ns (next_heads l))
                              end
                  end) W (inr W) in
    match step with
    | inl r => inl r
    | inr W' => if Nat.eqb (List.length W') (List.length W) then inr W else grow runb k W'
    end
  end.

Definition loop_exits (l : list res) : list res :=
  flat_map (fun r => match fst r with
                     | OBrk => [(ONorm, snd r)]
                     | ORet | OPan => [r]
                     | _ => []
                     end) l.

(** [close runb W all]: every state of [W] has a good body whose normal/continue ends are in
    [all]; collects the ways out of the loop. This function alone carries the soundness of loops:
    [grow] is only the search for a suitable [W]. *)
Fixpoint close (runb : state -> verdict) (W all : list state) : verdict :=
  match W with
  | [] => Good []
  | w :: t =>
    match runb w with
    | Bad r => Bad r
    | Good l =>
      if forallb (fun s1 => mem state_eqb s1 all) (next_heads l) then
        match close runb t all with
        | Bad r => Bad r
        | Good l' => Good (union res_eqb ((ONorm, w) :: loop_exits l) l')
        end
      else Bad RLoop
    end
  end.

Definition chk_loop (runb : state -> verdict) (s0 : state) : verdict :=
  match grow runb 64 [s0] with
  | inl r => Bad r
  | inr W => if mem state_eqb s0 W then close runb W W else Bad RLoop
  end.

Fixpoint chk (n : nat) (s : stmt) (s0 : state) : verdict :=
  match n with
  | 0 => Bad RFuel
  | S n =>
    let '(H, D) := s0 in
    match s with
    | Skip | Call _ => Good [(ONorm, s0)]
    | Return => Good [(ORet, s0)]
    | Break => Good [(OBrk, s0)]
    | Continue => Good [(OCont, s0)]
    | Panic => Good [(OPan, s0)]
    | Unknown => Bad (RFault FUnknown)
    | Lock m => match holds H m with
                | None => Good [(ONorm, (H ++ [(m, true)], D))]
                | Some _ => Bad (RFault (FRelock m))
                end
    | RLock m => match holds H m with
                 | None => Good [(ONorm, (H ++ [(m, false)], D))]
                 | Some _ => Bad (RFault (FRelock m))
                 end
    | Unlock m => match holds H m with
                  | Some true => Good [(ONorm, (release H m, D))]
                  | _ => Bad (RFault (FUnlock m))
                  end
    | RUnlock m => match holds H m with
                   | Some false => Good [(ONorm, (release H m, D))]
                   | _ => Bad (RFault (FUnlock m))
                   end
    | Send c => match H with
                | [] => Good [(ONorm, s0)]
                | _ => Bad (RFault (FSend c))
                end
    | Defer d => Good [(ONorm, (H, d :: D))]
    | DeferUnlock m => Good [(ONorm, (H, Unlock m :: D))]
    | DeferRUnlock m => Good [(ONorm, (H, RUnlock m :: D))]
    | Seq a b =>
      bindv (chk n a s0) (fun o s1 => match o with ONorm => chk n b s1 | _ => Good [(o, s1)] end)
    | If a b =>
      match chk n a s0 with
      | Bad r => Bad r
      | Good l1 => match chk n b s0 with
                   | Bad r => Bad r
                   | Good l2 => Good (union res_eqb l1 l2)
                   end
      end
    | Loop b => chk_loop (chk n b) s0
    | Scope b =>
      bindv (chk n b (H, []))
            (fun o s1 =>
               bindv (chk_unwind (fun d H' => chk n (Scope d) (H', [])) (snd s1) (fst s1) (exit_of o))
                     (fun o' s2 => Good [(o', (fst s2, D))]))
    end
  end.

Fixpoint size (s : stmt) : nat :=
  match s with
  | Seq a b | If a b => S (size a + size b)
  | Loop a | Defer a | Scope a => S (size a)
  | _ => 1
  end.

(** fuel that is always enough: nesting depth of the term plus that of any deferred statement *)
Definition fuel_for (p : stmt) : nat := 2 * size p + 8.

Definition first_leak (l : list res) : option mutex :=
  match flat_map (fun r => fst (snd r)) l with
  | [] => None
  | (m, _) :: _ => Some m
  end.

(** [why p = None]: accepted; [Some r]: rejected for reason r *)
Definition why (p : stmt) : option reason :=
  match chk (fuel_for p) (Scope p) ([], []) with
  | Bad r => Some r
  | Good l => match first_leak l with Some m => Some (RLeak m) | None => None end
  end.

Definition check (p : stmt) : bool :=
  match why p with None => true | Some _ => false end.
