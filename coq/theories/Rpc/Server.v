(** * Rpc: executable model of the replica side of the data connection (property C15).

    rpc/server.go: [Server.readWrite] is one goroutine per connection that repeats
      Wire.Read -> handleRead / handleWrite / handlePing / handleSync / handleUnmap -> createResponse
                -> Wire.Write of the same Message object,
    so requests are answered strictly one after the other, in the order in which they arrive.
    replica/rpc/server.go: the accept loop serves one connection at a time with such a Server.

    Part 1: [create_response], the handlers ([srv_step]) and the serve loop over decoded requests
            with a scripted types.DataProcessor ([serve], [serve_stream] on bytes).
    Part 2: the C15 trace oracle for the server ([c15_server_ok]) over observations only, the
            correspondence functions and the coverage predicates used by checks/rpclib.py.
    Part 3: the composition of the client machine of Model.v with this server over two FIFO
            byte pipes ([net], [nstep], [ntrace]).

    Executable only; the theorems are in ServerProofs.v. *)
From Coq Require Import List ZArith NArith Bool Arith Lia.
From Jiva Require Import Rpc.Model Rpc.Corr.
Import ListNotations.
Open Scope N_scope.

(** ** Part 1: the server *)

(** What the DataProcessor did with one request (the scripted part of a run):
    - [OOk data]: the call returned a nil error; for ReadAt [data] are the bytes it wrote at the
      beginning of the buffer it was given (the returned count is not used by the code then);
    - [OEof count data]: the call returned (count, io.EOF) (the identical error value: the code tests
      [err == io.EOF]); [data] as before;
    - [OErr text]: any other error, [text] = err.Error().
    handleX calls logrus.Fatal for an *os.PathError with EIO: the process exits, no reply; such errors
    are not part of the script. *)
Inductive outcome :=
| OOk (data : list N)
| OEof (count : Z) (data : list N)
| OErr (text : list N).

Definition odata (o : outcome) : list N :=
  match o with OOk d => d | OEof _ d => d | OErr _ => [] end.
Definition ocount (o : outcome) : Z :=
  match o with OEof c _ => c | _ => 0%Z end.

(** handleRead: [msg.Data = make([]byte, msg.Size)] (zeroes) and then the processor writes into it *)
Definition fill (n : nat) (d : list N) : list N := firstn n d ++ repeat 0 (n - length d).

Definition set_data (m : msg) (d : list N) : msg :=
  mkmsg (mmagic m) (mseq m) (mtype m) (moff m) (msize m) d.

(** a response whose Size field is set from its payload: [msg.Size = int64(len(msg.Data))] *)
Definition reply (m : msg) (ty : N) (d : list N) : msg :=
  mkmsg magic_version (mseq m) ty (moff m) (Z.of_nat (length d)) d.

(** createResponse(count, msg, err), on the message object that was read (Seq and Offset are
    never assigned):
<<
	msg.MagicVersion = MagicVersion
	msg.Size = int64(len(msg.Data))
	if msg.Type == TypeWrite { msg.Data = nil }
	msg.Type = TypeResponse
	if err == io.EOF {
		msg.Type = TypeEOF
		if msg.Data != nil { msg.Data = msg.Data[:count] }
		msg.Size = int64(len(msg.Data))
	} else if err != nil {
		msg.Type = TypeError
		msg.Data = []byte(err.Error())
		msg.Size = int64(len(msg.Data))
	}
>>
    [None]: the slice expression panics (count < 0 or count > cap(msg.Data); the buffers that get here
    have cap = len), which ends the process.  nil and empty payloads are the same list here; the code
    tells them apart only in [msg.Data != nil], and slicing to [:count] is skipped exactly for writes
    (Data was just set to nil) and for payload-free ping / sync / unmap frames, where count is 0 and the
    slice would be the identity. *)
Definition create_response (count : Z) (m : msg) (o : outcome) : option msg :=
  let w := mtype m =? TypeWrite in
  let d1 := if w then [] else mdata m in
  match o with
  | OOk _ =>
      Some (mkmsg magic_version (mseq m) TypeResponse (moff m) (Z.of_nat (length (mdata m))) d1)
  | OEof _ _ =>
      if w then Some (reply m TypeEOF [])
      else if (0 <=? count)%Z && (count <=? Z.of_nat (length d1))%Z
           then Some (reply m TypeEOF (firstn (Z.to_nat count) d1))
           else None
  | OErr t => Some (reply m TypeError t)
  end.

(** the types readWrite's switch has a case for *)
Definition handled (ty : N) : bool :=
  (ty =? TypeRead) || (ty =? TypeWrite) || (ty =? TypePing) || (ty =? TypeSync) || (ty =? TypeUnmap).

(** One iteration of readWrite after a successful Wire.Read: the handler of the message type, then
    [s.write(msg)].  A type without a case (TypeResponse, TypeError, TypeEOF, TypeClose, TypeUpdate,
    anything >= 10) falls through the switch and the message is written back as it was read.
    [None]: runtime panic, no reply, the process is gone (handleRead: [make([]byte, msg.Size)] with a
    negative Size; createResponse's slice expression). *)
Definition srv_step (m : msg) (o : outcome) : option msg :=
  if mtype m =? TypeRead then
    (* handleRead: msg.Data = make([]byte, msg.Size); c, err := s.data.ReadAt(msg.Data, msg.Offset) *)
    if (msize m <? 0)%Z then None
    else create_response (ocount o) (set_data m (fill (Z.to_nat (msize m)) (odata o))) o
  else if mtype m =? TypeWrite then
    (* handleWrite: c, err := s.data.WriteAt(msg.Data, msg.Offset) *)
    create_response (ocount o) m o
  else if (mtype m =? TypePing) || (mtype m =? TypeSync) || (mtype m =? TypeUnmap) then
    (* handlePing / handleSync / handleUnmap: s.createResponse(0, msg, err) *)
    create_response 0 m o
  else Some m.

Inductive sstop := SEnd | SPanic.

(** the loop over the requests that Wire.Read delivered; [proc k m] is what the processor does for
    the k-th request of the connection *)
Fixpoint serve_from (proc : nat -> msg -> outcome) (k : nat) (reqs : list msg) : list msg * sstop :=
  match reqs with
  | [] => ([], SEnd)
  | m :: rs =>
      match srv_step m (proc k m) with
      | None => ([], SPanic)
      | Some r => let '(out, e) := serve_from proc (S k) rs in (r :: out, e)
      end
  end.

Lemma serve_from_eq : forall proc k reqs, serve_from proc k reqs =
  match reqs with
  | [] => ([], SEnd)
  | m :: rs =>
      match srv_step m (proc k m) with
      | None => ([], SPanic)
      | Some r => let '(out, e) := serve_from proc (S k) rs in (r :: out, e)
      end
  end.
Proof. intros proc k reqs; destruct reqs; reflexivity. Qed.

(** a script: one outcome per request, by position (requests of a type without handler do not call the
    processor, their entry is not looked at) *)
Definition dflt : outcome := OOk [].
Definition script_proc (script : list outcome) : nat -> msg -> outcome := fun k _ => nth k script dflt.
Definition serve (reqs : list msg) (script : list outcome) : list msg * sstop :=
  serve_from (script_proc script) 0 reqs.

(** the server on bytes: Wire.Read until it fails (every kind of read error ends readWrite, including
    the clean end of the stream), the replies as Wire.Write puts them on the connection *)
Definition serve_stream (input : list N) (script : list outcome) : list N * dend * sstop :=
  let '(reqs, e) := decode_stream input in
  let '(reps, st) := serve reqs script in
  (flat_map encode reps, e, st).

(** ** Part 2: C15 for the server as a predicate over observations

    [reqs]: the complete frames the peer wrote, in order; [script]: what the scripted processor was told
    to do for each of them; [reps]: the frames the peer read back, in order. *)

(** the requests at which the Go runtime stops the process (nothing can be observed after them) *)
Definition panics (req : msg) (o : outcome) : bool :=
  (mtype req =? TypeRead) &&
  ((msize req <? 0)%Z ||
   match o with
   | OEof c _ => negb ((0 <=? c)%Z && (c <=? msize req)%Z)
   | _ => false
   end).

Definition expect_type (req : msg) (o : outcome) : N :=
  if handled (mtype req) then
    match o with OOk _ => TypeResponse | OEof _ _ => TypeEOF | OErr _ => TypeError end
  else mtype req.

(** the payload the request's own processor call leads to *)
Definition expect_data (req : msg) (o : outcome) : list N :=
  if negb (handled (mtype req)) then mdata req
  else match o with
       | OErr t => t
       | OOk d =>
           if mtype req =? TypeRead then fill (Z.to_nat (msize req)) d
           else if mtype req =? TypeWrite then []
           else mdata req
       | OEof c d =>
           if mtype req =? TypeRead then firstn (Z.to_nat c) (fill (Z.to_nat (msize req)) d)
           else []
       end.

(** the Size field: the payload length of the reply, except that an acknowledged write reports the
    number of bytes that were written, and an unhandled type is returned untouched *)
Definition size_ok (req : msg) (o : outcome) (rep : msg) : bool :=
  if negb (handled (mtype req)) then (msize rep =? msize req)%Z
  else match o with
       | OOk _ =>
           if mtype req =? TypeWrite then (msize rep =? Z.of_nat (length (mdata req)))%Z
           else (msize rep =? Z.of_nat (length (mdata rep)))%Z
       | _ => (msize rep =? Z.of_nat (length (mdata rep)))%Z
       end.

(** clause mask of one reply: 1 Seq is not the request's, 2 magic, 4 type, 8 Size, 16 payload *)
Definition reply_bad (req : msg) (o : outcome) (rep : msg) : nat :=
  let b1 := negb (mseq rep =? mseq req) in
  let b2 := negb (mmagic rep =? magic_version) in
  let b4 := negb (mtype rep =? expect_type req o) in
  let b8 := negb (size_ok req o rep) in
  let b16 := negb (listN_eqb (mdata rep) (expect_data req o)) in
  (b2n b1 1 + b2n b2 2 + b2n b4 4 + b2n b8 8 + b2n b16 16)%nat.

(** one reply per request, in the order of the requests, each for its own request *)
Fixpoint server_ok_from (k : nat) (reqs : list msg) (script : list outcome) (reps : list msg) : bool :=
  match reqs, reps with
  | [], [] => true
  | [], _ :: _ => false                                   (* a reply nobody asked for *)
  | m :: _, [] => panics m (nth k script dflt)            (* replies stop only where the runtime stops *)
  | m :: rs, r :: reps' =>
      negb (panics m (nth k script dflt))
      && Nat.eqb (reply_bad m (nth k script dflt) r) 0
      && server_ok_from (S k) rs script reps'
  end.

Definition c15_server_ok (reqs : list msg) (script : list outcome) (reps : list msg) : bool :=
  server_ok_from 0 reqs script reps.

(** diagnosis for the report: (index, clause mask) of the first offending position; mask 32 = the
    reply is missing, 64 = a reply without request, 128 = a reply although the runtime must have stopped *)
Fixpoint server_first_bad (k : nat) (reqs : list msg) (script : list outcome) (reps : list msg) : option (nat * nat) :=
  match reqs, reps with
  | [], [] => None
  | [], _ :: _ => Some (k, 64%nat)
  | m :: _, [] => if panics m (nth k script dflt) then None else Some (k, 32%nat)
  | m :: rs, r :: reps' =>
      if panics m (nth k script dflt) then Some (k, 128%nat)
      else if Nat.eqb (reply_bad m (nth k script dflt) r) 0 then server_first_bad (S k) rs script reps'
      else Some (k, reply_bad m (nth k script dflt) r)
  end.

(** *** server cases of the harness *)
Record scase := mksv {
  s_input   : list N;         (* every byte the peer wrote *)
  s_reqs    : list msg;       (* the complete frames in it, as the generator made them *)
  s_script  : list outcome;   (* one per frame *)
  s_replies : list msg        (* the frames the peer read back *)
}.

(** 0 = the model and the implementation agree; 1 replies differ; 9 the generator's frames are not
    what the model's decoder reads from the bytes (a defect of the check itself) *)
Definition server_diff (c : scase) : nat :=
  let '(reqs, _) := decode_stream (s_input c) in
  if negb (msgs_eqb reqs (s_reqs c)) then 9%nat
  else if negb (msgs_eqb (fst (serve reqs (s_script c))) (s_replies c)) then 1%nat
  else 0%nat.

Record sverdict := mksvv { sv_diff : nat; sv_oracle : bool; sv_first : option (nat * nat) }.

Definition check_scase (c : scase) : sverdict :=
  mksvv (server_diff c)
        (c15_server_ok (s_reqs c) (s_script c) (s_replies c))
        (server_first_bad 0 (s_reqs c) (s_script c) (s_replies c)).

(** (index, diff, oracle, first offending reply, its clause mask) of every case that differs or fails *)
Fixpoint bad_scases (i : nat) (cs : list scase) : list (nat * nat * bool * nat * nat) :=
  match cs with
  | [] => []
  | c :: cs' =>
      let v := check_scase c in
      let rest := bad_scases (S i) cs' in
      if Nat.eqb (sv_diff v) 0 && sv_oracle v then rest
      else (i, sv_diff v, sv_oracle v,
            match sv_first v with Some (k, _) => k | None => 0%nat end,
            match sv_first v with Some (_, mk) => mk | None => 0%nat end) :: rest
  end.

(** coverage, judged on the model: 1 a TypeError reply, 2 a TypeEOF reply, 4 a frame of an unhandled
    type answered unchanged, 8 two requests with the same Seq, 16 the stream ends in something that is
    not a frame, 32 a reply with a payload, 64 a write request whose Size field differs from its payload
    length, 128 an EOF reply shorter than the buffer *)
Fixpoint has_dup (l : list N) : bool :=
  match l with
  | [] => false
  | x :: t => memb x t || has_dup t
  end.

Definition scase_flags (c : scase) : nat :=
  let '(reqs, e) := decode_stream (s_input c) in
  let reps := fst (serve reqs (s_script c)) in
  let f1 := existsb (fun r => mtype r =? TypeError) reps in
  let f2 := existsb (fun r => mtype r =? TypeEOF) reps in
  let f4 := existsb (fun m => negb (handled (mtype m))) reqs in
  let f8 := has_dup (map mseq reqs) in
  let f16 := match e with EndClean => false | _ => true end in
  let f32 := existsb (fun r => negb (Nat.eqb (length (mdata r)) 0)) reps in
  let f64 := existsb (fun m => (mtype m =? TypeWrite) && negb (msize m =? Z.of_nat (length (mdata m)))%Z) reqs in
  let f128 := existsb (fun mr => (mtype (fst mr) =? TypeRead) && (mtype (snd mr) =? TypeEOF)
                                 && (Z.of_nat (length (mdata (snd mr))) <? msize (fst mr))%Z) (combine reqs reps) in
  (b2n f1 1 + b2n f2 2 + b2n f4 4 + b2n f8 8 + b2n f16 16 + b2n f32 32 + b2n f64 64 + b2n f128 128)%nat.

Definition scoverage (cs : list scase) : list nat := map scase_flags cs.

(** ** Part 3: one client and this server on one connection

    [n_up]: request frames the client's write goroutine has put on the connection and the server has
    not read yet; [n_down]: reply frames the server has written and the client's read goroutine has not
    yet passed to the loop.  TCP keeps each direction in order.  [n_served]: how many requests the
    server has answered (the index the next one gets); [n_dead]: the server process is gone. *)
Record net := mknet {
  n_cli    : st;
  n_up     : list msg;
  n_down   : list msg;
  n_served : nat;
  n_dead   : bool
}.

Definition net0 : net := mknet init [] [] 0 false.

(** the schedule: who moves next *)
Inductive nev :=
| NCall (r : req)            (* a caller enters operation and the loop takes its message: [Req] *)
| NCallRaced (r : req)       (* [ReqRaced] *)
| NServe                     (* the server reads the oldest unread request, handles it, writes the reply *)
| NDeliver                   (* the client's reader hands the oldest undelivered reply to the loop: [Resp] *)
| NFail (c : cerr)           (* the loop takes a transport error: [TransportErr] *)
| NTimeout (id : N).         (* the timer of caller [id] fires: [Timeout] *)

(** the client event a move amounts to *)
Definition cli_ev (n : net) (e : nev) : option event :=
  match e with
  | NCall r => Some (Req r)
  | NCallRaced r => Some (ReqRaced r)
  | NServe => None
  | NDeliver =>
      match n_down n with
      | [] => None
      | rep :: _ => Some (Resp (mseq rep) (mtype rep) (msize rep) (mdata rep))
      end
  | NFail c => Some (TransportErr c)
  | NTimeout id => Some (Timeout id)
  end.

Definition nstep (proc : nat -> msg -> outcome) (M : N) (n : net) (e : nev) : net :=
  match e with
  | NServe =>
      if n_dead n then n else
      match n_up n with
      | [] => n
      | m :: up =>
          match srv_step m (proc (n_served n) m) with
          | Some rep => mknet (n_cli n) up (n_down n ++ [rep]) (S (n_served n)) false
          | None => mknet (n_cli n) (n_up n) (n_down n) (n_served n) true
          end
      end
  | _ =>
      match cli_ev n e with
      | None => n
      | Some ce =>
          let '(c', o) := step M (n_cli n) ce in
          mknet c' (n_up n ++ sents o)
                (match e with NDeliver => tl (n_down n) | _ => n_down n end)
                (n_served n) (n_dead n)
      end
  end.

(** the client's view of a schedule: the events its loop sees, in order *)
Fixpoint ntrace (proc : nat -> msg -> outcome) (M : N) (n : net) (sched : list nev) : list event :=
  match sched with
  | [] => []
  | e :: t =>
      match cli_ev n e with
      | Some ce => ce :: ntrace proc M (nstep proc M n e) t
      | None => ntrace proc M (nstep proc M n e) t
      end
  end.

Fixpoint nrun (proc : nat -> msg -> outcome) (M : N) (n : net) (sched : list nev) : net :=
  match sched with
  | [] => n
  | e :: t => nrun proc M (nstep proc M n e) t
  end.

(** the frames a log shows as sent, each with the call that owns it: (Seq, call) in sending order *)
Definition sent_pairs (l : list (event * list out)) : list (N * req) :=
  flat_map (fun x => match is_req (fst x) with
                     | Some rq => map (fun m => (mseq m, rq)) (sents (snd x))
                     | None => []
                     end) l.
